import IprModel.Unify
import Std.Data.HashMap
/-! Line-protocol interpreter shared by the model drivers of C01 / C04 / C11 (same op lines as
    `harness/unifyprobe.cxx`, same observation lines).  It executes `exec1 defaultAddr`, the definition the
    theorems are about; everything else here is parsing, naming (`n<k>` by first appearance) and accessors. -/
namespace Ipr.Unify.Driver
open Ipr.Unify

deriving instance Hashable for Static
deriving instance Hashable for Ref

structure St where
  cfg : Config := { words := [], builtinWords := [] }
  s : State1 := {}
  names : Array Ref := #[]
  index : Std.HashMap Ref Nat := {}
  placed : List Nat := []      -- placement slots taken by client-built nodes

def hexVal (c : Char) : Option Nat :=
  if '0' ≤ c ∧ c ≤ '9' then some (c.toNat - '0'.toNat)
  else if 'a' ≤ c ∧ c ≤ 'f' then some (c.toNat - 'a'.toNat + 10)
  else none

def parseHexAux : List Char → Option (List Int)
  | [] => some []
  | [_] => none
  | a :: b :: rest =>
    match hexVal a, hexVal b, parseHexAux rest with
    | some x, some y, some r => some (((16 * x + y : Nat) : Int) :: r)
    | _, _, _ => none

def parseHex (s : String) : Option (List Int) := if s == "-" then some [] else parseHexAux s.toList

def hexDigit (n : Nat) : Char := if n < 10 then Char.ofNat (48 + n) else Char.ofNat (87 + n)

def showHex (w : List Int) : String :=
  if w.isEmpty then "-" else String.ofList (w.flatMap fun b => [hexDigit (b.toNat / 16), hexDigit (b.toNat % 16)])

/-- `n<k>` → the node it names. -/
def St.ref? (st : St) (tok : String) : Option Ref :=
  if tok.startsWith "n" then
    match (tok.drop 1).toNat? with
    | some k => st.names[k]?
    | none => none
  else none

/-- The name of a node, allocating the next one at first appearance. -/
def St.name (st : St) (r : Ref) : St × String :=
  match st.index[r]? with
  | some k => (st, s!"n{k}")
  | none =>
    let k := st.names.size
    ({ st with names := st.names.push r, index := st.index.insert r k }, s!"n{k}")

def St.nameOpt (st : St) : Option Ref → St × String
  | some r => st.name r
  | none => (st, "-")

def bad (st : St) : St × List String := (st, ["bad-op"])

/-- Run one request through `exec1` and print the answer. -/
def St.request (st : St) (req : Req) : St × List String :=
  let a := exec1 defaultAddr st.cfg st.s req
  let st := { st with s := a.1 }
  match a.2 with
  | some r => let (st, n) := st.name r; (st, [n])
  | none =>
    match req with
    | .qualified 0 _ => (st, ["!L"])
    | _ => (st, ["bad-op"])

def refs (st : St) (toks : List String) : Option (List Ref) := toks.mapM st.ref?

def nameOfNode (cfg : Config) (h : Heap) : Ref → Option Ref
  | .stat (.builtin k) => some (.stat (.ident k))
  | .stat .falseC => (wordIdx cfg wFalse).map fun k => .stat (.ident k)
  | .stat .trueC => (wordIdx cfg wTrue).map fun k => .stat (.ident k)
  | .stat .defaultC => (wordIdx cfg wDefault).map fun k => .stat (.ident k)
  | .stat .deleteC => (wordIdx cfg wDelete).map fun k => .stat (.ident k)
  | .stat .nullptrC => (wordIdx cfg wNullptr).map fun k => .stat (.ident k)
  | .dyn i =>
    match h[i]? with
    | some ⟨.symbols, _, [n, _]⟩ => some n
    | some ⟨.extendeds, _, [n]⟩ => some n
    | _ => none
  | _ => none

def stringOfIdent (h : Heap) : Ref → Option Ref
  | .stat (.ident k) => some (.stat (.str k))
  | .dyn i =>
    match h[i]? with
    | some ⟨.ids, _, [s]⟩ => some s
    | _ => none
  | _ => none

def boolStr (b : Bool) : String := if b then "1" else "0"

def tagOfString : String → Option Tag
  | "xferLinks" => some .xferLinks | "xferCCs" => some .xferCCs | "xfers" => some .xfers | "extendeds" => some .extendeds
  | "arrays" => some .arrays | "typeRefs" => some .typeRefs | "typeXfers" => some .typeXfers | "tors" => some .tors
  | "functions" => some .functions | "funXfers" => some .funXfers | "pointers" => some .pointers | "products" => some .products
  | "memberPtrs" => some .memberPtrs | "qualifieds" => some .qualifieds | "references" => some .references
  | "refrefs" => some .refrefs | "sums" => some .sums | "foralls" => some .foralls | "typeSeqs" => some .typeSeqs
  | "strings" => some .strings | "logos" => some .logos | "ids" => some .ids | "suffixes" => some .suffixes
  | "convs" => some .convs | "ctors" => some .ctors | "dtors" => some .dtors | "ops" => some .ops | "guideIds" => some .guideIds
  | "linkages" => some .linkages | "conventions" => some .conventions | "lits" => some .lits
  | "templateIds" => some .templateIds | "symbols" => some .symbols
  | _ => none

/-- White-box line of one table: how many nodes its tree holds and which of them have appeared so far. -/
def treeLine (st : St) (tag : Tag) : String :=
  let t := st.s.tables.get tag
  let es := t.inorder
  let named := (es.filterMap fun e => st.index[Ref.dyn e.2]?).toArray.qsort (· < ·)
  let names := if named.isEmpty then "-" else ",".intercalate (named.toList.map fun k => s!"n{k}")
  s!"size={t.size} nodes={es.length} named={names}"

/-- One line addressed to one Lexicon. -/
def stepOne (st : St) : List String → St × List String
  -- configuration: the table of reserved words and the names of the built-in types
  | ["cfgword", w] =>
    match parseHex w with
    | some w => ({ st with cfg := { st.cfg with words := st.cfg.words ++ [w] } }, ["ok"])
    | none => bad st
  | ["cfgbuiltin", w] =>
    match (parseHex w).bind (wordIdx st.cfg) with
    | some k => ({ st with cfg := { st.cfg with builtinWords := st.cfg.builtinWords ++ [k] } }, ["ok"])
    | none => bad st
  | ["new"] => ({ cfg := st.cfg }, ["ok"])
  -- constants
  | ["builtin", w] =>
    match (parseHex w).bind (wordIdx st.cfg) with
    | some k => if k ∈ st.cfg.builtinWords then let (st, n) := st.name (.stat (.builtin k)); (st, [n]) else bad st
    | none => bad st
  | ["const", c] =>
    let r : Option Static := match c with
      | "false" => some .falseC | "true" => some .trueC | "default" => some .defaultC
      | "delete" => some .deleteC | "nullptr" => some .nullptrC | _ => none
    match r with
    | some c => let (st, n) := st.name (.stat c); (st, [n])
    | none => bad st
  | ["cxx_linkage"] => let (st, n) := st.name (.stat .cxxLink); (st, [n])
  | ["c_linkage"] => let (st, n) := st.name (.stat .cLink); (st, [n])
  | ["cxx_transfer"] => let (st, n) := st.name (.stat .naturalXfer); (st, [n])
  -- type_factory
  | ["pointer", t] => match st.ref? t with | some t => st.request (.pointer t) | none => bad st
  | ["reference", t] => match st.ref? t with | some t => st.request (.reference t) | none => bad st
  | ["rvalue_reference", t] => match st.ref? t with | some t => st.request (.rvalueRef t) | none => bad st
  | ["array", t, b] => match refs st [t, b] with | some [t, b] => st.request (.array t b) | _ => bad st
  | ["qualified", q, t] =>
    match q.toNat?, st.ref? t with
    | some q, some t => st.request (.qualified q t)
    | _, _ => bad st
  | ["function", s, t] => match refs st [s, t] with | some [s, t] => st.request (.function s t) | _ => bad st
  | ["function_x", s, t, x] => match refs st [s, t, x] with | some [s, t, x] => st.request (.functionX s t x) | _ => bad st
  | ["function_e", s, t, e] => match refs st [s, t, e] with | some [s, t, e] => st.request (.functionE s t e) | _ => bad st
  | ["function_ex", s, t, e, x] =>
    match refs st [s, t, e, x] with | some [s, t, e, x] => st.request (.functionEX s t e x) | _ => bad st
  | "product_seq" :: ts => match refs st ts with | some ts => st.request (.productSeq ts) | none => bad st
  | "product_wh" :: ts => match refs st ts with | some ts => st.request (.productWh ts) | none => bad st
  | "sum_seq" :: ts => match refs st ts with | some ts => st.request (.sumSeq ts) | none => bad st
  | "sum_wh" :: ts => match refs st ts with | some ts => st.request (.sumWh ts) | none => bad st
  -- a product / sum over the live member sequence of a client's growing container `l` (the line repeats what it reads now);
  -- `grow` adds a member to such a container: no table of the Lexicon is involved
  | "product_live" :: l :: ts => match st.ref? l, refs st ts with | some _, some ts => st.request (.productSeq ts) | _, _ => bad st
  | "sum_live" :: l :: ts => match st.ref? l, refs st ts with | some _, some ts => st.request (.sumSeq ts) | _, _ => bad st
  | ["xgrow", l, e] => match refs st [l, e] with | some _ => (st, ["ok"]) | none => bad st
  | ["grow", l, n, t] => match refs st [l, n, t] with | some _ => (st, ["ok"]) | none => bad st
  | ["forall", s, t] => match refs st [s, t] with | some [s, t] => st.request (.forall_ s t) | _ => bad st
  | ["ptr_to_member", c, t] => match refs st [c, t] with | some [c, t] => st.request (.ptrToMember c t) | _ => bad st
  | ["tor", s, e] => match refs st [s, e] with | some [s, e] => st.request (.tor s e) | _ => bad st
  | ["as_type_id", i] => match st.ref? i with | some i => st.request (.asTypeId i) | none => bad st
  | ["as_type_expr", e] => match st.ref? e with | some e => st.request (.asTypeExpr e) | none => bad st
  | ["as_type_x", e, x] => match refs st [e, x] with | some [e, x] => st.request (.asTypeX e x) | _ => bad st
  | ["transfer", l, c] => match refs st [l, c] with | some [l, c] => st.request (.transfer l c) | _ => bad st
  | ["transfer_l", l] => match st.ref? l with | some l => st.request (.transferL l) | none => bad st
  | ["transfer_c", c] => match st.ref? c with | some c => st.request (.transferC c) | none => bad st
  -- name_factory
  | ["string", w] => match parseHex w with | some w => st.request (.string w) | none => bad st
  | ["identifier_s", s] => match st.ref? s with | some s => st.request (.identifierS s) | none => bad st
  | ["identifier_w", w] => match parseHex w with | some w => st.request (.identifierW w) | none => bad st
  | ["operator_s", s] => match st.ref? s with | some s => st.request (.operatorS s) | none => bad st
  | ["operator_w", w] => match parseHex w with | some w => st.request (.operatorW w) | none => bad st
  | ["suffix", i] => match st.ref? i with | some i => st.request (.suffix i) | none => bad st
  | ["conversion", t] => match st.ref? t with | some t => st.request (.conversion t) | none => bad st
  | ["ctor", t] => match st.ref? t with | some t => st.request (.ctorName t) | none => bad st
  | ["dtor", t] => match st.ref? t with | some t => st.request (.dtorName t) | none => bad st
  | ["guide_name", m] => match st.ref? m with | some m => st.request (.guideName m) | none => bad st
  | ["logogram", s] => match st.ref? s with | some s => st.request (.logogram s) | none => bad st
  -- expr_factory / Lexicon
  | ["template_id", n, a] => match refs st [n, a] with | some [n, a] => st.request (.templateId n a) | _ => bad st
  | ["symbol", n, t] => match refs st [n, t] with | some [n, t] => st.request (.symbol n t) | _ => bad st
  | ["label", i] => match st.ref? i with | some i => st.request (.label i) | none => bad st
  | ["this", t] => match st.ref? t with | some t => st.request (.this_ t) | none => bad st
  | ["literal_s", t, s] => match refs st [t, s] with | some [t, s] => st.request (.literalS t s) | _ => bad st
  | ["literal_w", t, w] =>
    match st.ref? t, parseHex w with
    | some t, some w => st.request (.literalW t w)
    | _, _ => bad st
  | ["linkage_w", w] => match parseHex w with | some w => st.request (.linkageW w) | none => bad st
  | ["linkage_s", s] => match st.ref? s with | some s => st.request (.linkageS s) | none => bad st
  | ["calling_convention", w] => match parseHex w with | some w => st.request (.callingConvention w) | none => bad st
  -- generative factories and the translation unit
  | "fresh" :: kind :: ops =>
    match kind.toNat?, refs st ops with
    | some k, some _ => st.request (.fresh k)
    | _, _ => bad st
  | ["unit"] => st.request .unit
  -- a client-built type node at a chosen address: one more node this Lexicon did not unify (where it lies is the
  -- allocator's business, i.e. a matter of `addr`, which no answer depends on: `C01_L1_refines_L0`)
  | ["placed", slot, i] =>
    match slot.toNat?, st.ref? i with
    | some k, some _ =>
      if k < 48 ∧ k ∉ st.placed then
        let (st, out) := st.request (.fresh 7)
        ({ st with placed := k :: st.placed }, out)
      else bad st
    | _, _ => bad st
  -- accessors
  | ["main_variant", t] =>
    match st.ref? t with
    | some t => let (st, n) := st.nameOpt ((qualView st.s.heap t).map Prod.snd); (st, [n])
    | none => bad st
  | ["qualifiers", t] =>
    match st.ref? t with
    | some t => (st, [match qualView st.s.heap t with | some (q, _) => toString q | none => "-"])
    | none => bad st
  | ["name_of", x] =>
    match st.ref? x with
    | some x => let (st, n) := st.nameOpt (nameOfNode st.cfg st.s.heap x); (st, [n])
    | none => bad st
  | ["string_of", i] =>
    match st.ref? i with
    | some i => let (st, n) := st.nameOpt (stringOfIdent st.s.heap i); (st, [n])
    | none => bad st
  | ["chars", s] =>
    match st.ref? s with
    | some s => (st, [match strOf st.cfg st.s.heap s with | some w => "=" ++ showHex w | none => "-"])
    | none => bad st
  | ["what", lg] =>
    match st.ref? lg with
    | some lg => let (st, n) := st.nameOpt (logoWhat st.s.heap lg); (st, [n])
    | none => bad st
  | ["language", l] =>
    match st.ref? l with
    | some l => let (st, n) := st.nameOpt (linkLang st.cfg st.s.heap l); (st, [n])
    | none => bad st
  | ["cc_name", c] =>
    match st.ref? c with
    | some c => let (st, n) := st.nameOpt (ccName st.s.heap c); (st, [n])
    | none => bad st
  | ["xfer_linkage", x] =>
    match st.ref? x with
    | some x => let (st, n) := st.nameOpt (xferLinkage st.s.heap x); (st, [n])
    | none => bad st
  | ["xfer_convention", x] =>
    match st.ref? x with
    | some x => let (st, n) := st.nameOpt (xferConvention st.s.heap x); (st, [n])
    | none => bad st
  | ["eq_logo", a, b] => match refs st [a, b] with | some [a, b] => (st, [boolStr (logoEq st.s.heap a b)]) | _ => bad st
  | ["eq_link", a, b] => match refs st [a, b] with | some [a, b] => (st, [boolStr (linkEq st.cfg st.s.heap a b)]) | _ => bad st
  | ["eq_cc", a, b] => match refs st [a, b] with | some [a, b] => (st, [boolStr (ccEq st.s.heap a b)]) | _ => bad st
  | ["eq_xfer", a, b] => match refs st [a, b] with | some [a, b] => (st, [boolStr (xferEq st.cfg st.s.heap a b)]) | _ => bad st
  | ["tree", tag] => match tagOfString tag with | some tag => (st, [treeLine st tag]) | none => bad st
  | ["stat"] => (st, [s!"# nodes={st.s.heap.size} tables={st.s.tables.length}"])
  | _ => bad st

/-! Several Lexicons in one process (`procStep` of `IprModel/Unify.lean` plus the naming tables): `lexicon k` makes
    Lexicon `k` current, `new` / `renew` put a newly constructed Lexicon in the current place; every other line is a
    request or an observation on the current Lexicon and touches nothing else. -/
structure Multi where
  cur : Nat := 0
  slots : Array St := Array.replicate 8 {}

def Multi.here (m : Multi) : St := m.slots[m.cur]?.getD {}

/-- One line addressed to the current Lexicon.  (Its state is taken out of the table while it is stepped, so that it is
    updated in place: the driver runs histories of 10^5 requests.) -/
def stepHere : Multi → List String → Multi × List String
  | ⟨cur, slots⟩, toks =>
    let st := slots[cur]?.getD {}
    let slots := slots.setIfInBounds cur {}
    let (st, out) := stepOne st toks
    (⟨cur, slots.setIfInBounds cur st⟩, out)

def step (m : Multi) (toks : List String) : Multi × List String :=
  match toks with
  | ["lexicon", k] =>
    match k.toNat? with
    | some k => if k < m.slots.size then ({ m with cur := k }, ["ok"]) else (m, ["bad-op"])
    | none => (m, ["bad-op"])
  | ["new"] | ["renew"] => ({ m with slots := m.slots.setIfInBounds m.cur { cfg := m.here.cfg } }, ["ok"])
  | "cfgword" :: _ | "cfgbuiltin" :: _ =>
    -- the tables of reserved words are those of the process
    let (st, out) := stepOne m.here toks
    ({ m with slots := m.slots.map fun s => { s with cfg := st.cfg } }, out)
  | _ => stepHere m toks

end Ipr.Unify.Driver
