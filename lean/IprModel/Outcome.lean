import IprModel.Seq
/-
  Model of what every interface accessor answers on a partially built node (C14).

  A node kind has *links*: the public data members of its implementation class that the factory leaves empty and a
  client fills in later (`util::ref<T>` members read through `util::check`, `Optional<T>` members read with `.get()` or
  handed out as they are, the `std::variant` of `impl::Fundecl`), plus — for the few accessors the interface defines by
  delegation (`Expr_stmt::type() = expr().type()` …) — the operand whose own state the answer depends on.
  The state of a link is a small code: `0` = never set; the last code = set to a completely built target; for a link
  of arity 3 code `1` = set to a target that is itself incomplete (an expression whose type was never set, a Mapping
  without result).  Every accessor reads at most one link; its answer is a function of that link's code (which outcome)
  and target (which node) alone.

  The table `kinds` is written by hand from include/ipr/interface and include/ipr/impl (line numbers per family below).
  Field names are those printed by the universal observer (harness/observe.hxx).
-/
namespace Ipr.Outcome
open Ipr.Seq (LogicError Res)

/-- What an accessor hands back when it does not raise. -/
inductive Val where
  | node (target : Nat) (sub : String)   -- the node the link was set to (`sub = ""`) or the part `sub` of it
  | absent                                -- an empty `Optional` returned as such
  | lit (s : String)                      -- a scalar that depends on the link state (e.g. `Region::global`)
  | any                                   -- a value that does not depend on any link
  deriving DecidableEq, Repr

/-- Outcome class of one accessor in one link state, before target identities are filled in. -/
inductive Out where
  | err                     -- raises an exception derived from `std::logic_error`
  | absent
  | tgt (sub : String)
  | lit (s : String)
  deriving DecidableEq, Repr

/-- How an accessor computes its answer. -/
inductive Sem where
  | const                               -- reads no link: always a value
  | fails                               -- always raises (`impl::Base_type::initializer`, `enclosing()` of a root region)
  | on (link : Nat) (outs : List Out)   -- answer selected by the state code of `link`
  deriving DecidableEq, Repr

structure LinkSpec where
  name : String
  arity : Nat
  deriving DecidableEq, Repr

structure KindSpec where
  name : String
  links : List LinkSpec
  rows : List (String × Sem)
  deriving DecidableEq, Repr

/-- State of one link: its code and the identity of the node it was set to. -/
structure LinkVal where
  code : Nat := 0
  target : Nat := 0
  deriving DecidableEq, Repr

abbrev State := List LinkVal

def State.link (σ : State) (l : Nat) : LinkVal := σ.getD l {}

/-- Client assignment `node->member = &target` leaving the link in state `code`. -/
def State.assign (σ : State) (l : Nat) (v : LinkVal) : State := σ.set l v

/-- The state a factory returns: every link unset. -/
def State.initial (n : Nat) : State := List.replicate n {}

/-- A client's history of assignments, applied in order. -/
def State.run (σ : State) (h : List (Nat × LinkVal)) : State := h.foldl (fun s a => s.assign a.1 a.2) σ

def Out.eval (target : Nat) : Out → Res Val
  | .err => .error .logic
  | .absent => .ok .absent
  | .tgt sub => .ok (.node target sub)
  | .lit s => .ok (.lit s)

/-- The answer of an accessor in a state.  A code outside the table (never produced by the sweep) counts as a refusal. -/
def Sem.eval (σ : State) : Sem → Res Val
  | .const => .ok .any
  | .fails => .error .logic
  | .on l outs => ((outs.getD (σ.link l).code .err).eval (σ.link l).target)

/-- The links an accessor reads. -/
def Sem.reads : Sem → List Nat
  | .on l _ => [l]
  | _ => []

/-! ### The forms found in the code -/

/-- `util::ref<T>::get()` / `Optional<T>::get()` on the link: refuses while unset, else the node set (whatever its own state). -/
def ref (arity : Nat) (l : Nat) : Sem := .on l (.err :: List.replicate (arity - 1) (.tgt ""))
/-- The `Optional<T>` member handed out as such: never raises. -/
def opt (arity : Nat) (l : Nat) : Sem := .on l (.absent :: List.replicate (arity - 1) (.tgt ""))
/-- Reads through the link into the target (`stmt.get().type()`, `mapping().result()`): refuses unless the link is set to a
    complete target. -/
def deep (l : Nat) (sub : String) : Sem := .on l [.err, .err, .tgt sub]
/-- A part of the target that exists as soon as the link is set (`mapping().parameters()`). -/
def part (arity : Nat) (l : Nat) (sub : String) : Sem := .on l (.err :: List.replicate (arity - 1) (.tgt sub))
/-- Delegation to an operand fixed at construction (arity 2: code 0 = operand incomplete, 1 = complete). -/
def operandDeep (l : Nat) (sub : String) : Sem := .on l [.err, .tgt sub]
def operandSelf (l : Nat) : Sem := .on l [.tgt "", .tgt ""]

/-! ### Rendering (what the driver prints; the probe prints the same tokens)

The printed token is a function of `Sem.eval` — the definition the theorems of IprProps/C14.lean are about — and of the
name of the link read: `!L` a refusal, `-` an empty Optional, `$link[.part]` the node the link was last set to (or a
part of it), `*` a value that depends on no link. -/

def Val.render (linkName : String) : Val → String
  | .node _ sub => "$" ++ linkName ++ sub
  | .absent => "-"
  | .lit s => s
  | .any => "*"

def renderRes (linkName : String) : Res Val → String
  | .ok v => v.render linkName
  | .error _ => "!L"

/-- Name of the link an accessor reads (`""` when it reads none). -/
def Sem.linkName (k : KindSpec) : Sem → String
  | .on l _ => (k.links.getD l ⟨"?", 0⟩).name
  | _ => ""

def Sem.render (k : KindSpec) (σ : State) (sem : Sem) : String := renderRes (sem.linkName k) (sem.eval σ)

/-- The state the sweep's `state <kind> <digits>` op names: link `i` in state `codes[i]` (targets anonymous). -/
def State.ofCodes (codes : List Nat) : State := codes.map (fun c => { code := c })

/-! ### The table -/

private def L (name : String) (arity : Nat := 2) : LinkSpec := ⟨name, arity⟩
private def consts (names : List String) : List (String × Sem) := names.map (·, .const)
private def K (name : String) (links : List LinkSpec) (special : List (String × Sem)) (cs : List String) : KindSpec :=
  ⟨name, links, special ++ consts cs⟩

private def stmtF : List String := ["unit_location", "source_location", "annotation", "attributes"]
private def typeF : List String := ["name", "transfer", "linkage"]

-- impl:452-482 (Classic, Expr, Unary_expr ...): `type()` is `typing.get()`, `implementation()` hands out `op_impl`.
private def classicUnary (n : String) (aliases : List String := []) : KindSpec :=
  K n [L "typing", L "op_impl"] [("type", ref 2 0), ("implementation", opt 2 1)] (["category", "operand"] ++ aliases)
private def plainUnary (n : String) (aliases : List String := []) : KindSpec :=
  K n [L "typing"] [("type", ref 2 0)] (["category", "operand"] ++ aliases)
/-- Factories that take the type by reference (`make_demotion(e, t)` …): nothing is left unset. -/
private def typedUnary (n : String) (aliases : List String := []) : KindSpec :=
  K n [] [] (["category", "type", "operand"] ++ aliases)
private def classicBinary (n : String) (aliases : List String := []) : KindSpec :=
  K n [L "typing", L "op_impl"] [("type", ref 2 0), ("implementation", opt 2 1)] (["category", "first", "second"] ++ aliases)
/-- impl:1336-1341 Conversion_expr: `type()` is the first operand; only `op_impl` is a link. -/
private def castExpr (n : String) (aliases : List String := ["expr"]) : KindSpec :=
  K n [L "op_impl"] [("implementation", opt 2 0)] (["category", "type", "first", "second"] ++ aliases)
private def typedBinary (n : String) (aliases : List String) : KindSpec :=
  K n [] [] (["category", "type", "first", "second"] ++ aliases)
private def unaryName (n : String) (alias : String) : KindSpec := K n [] [] ["category", "operand", alias]
private def compositeUnary (n : String) (aliases : List String) : KindSpec :=
  K n [] [] (["category", "type", "operand"] ++ typeF ++ aliases)
private def compositeBinary (n : String) (aliases : List String) : KindSpec :=
  K n [] [] (["category", "type", "first", "second"] ++ typeF ++ aliases)

-- impl:1491-1511 Decl<D>: `linkage()` and `home_region()` go through the master declaration data, checked.
-- impl:1548-1597 decl_rep<T>: name, type, master, decl_set, definition come from the master data set up by the factory.
private def declConst : List String := ["category", "type"] ++ stmtF ++ ["specifiers", "name", "master", "decl_set"]
-- impl:728-737 unique_decl: specifiers, master, linkage, decl_set are fixed.
private def uniqueDeclConst : List String :=
  ["category", "type"] ++ stmtF ++ ["specifiers", "linkage", "name", "master", "decl_set"]

private def udt (n : String) (extra : List String := []) : KindSpec :=
  K n [L "id"] [("name", ref 2 0)] (["category", "type", "transfer", "linkage", "region", "scope", "members"] ++ extra)

private def templateKind (n : String) (primary : Bool) : KindSpec :=
  K n ([L "init" 3, L "lexreg", L "home", L "langlinkage", L "def"] ++ (if primary then [] else [L "primary"]))
    ([("linkage", ref 2 3), ("home_region", ref 2 2), ("lexical_region", ref 2 1),
      ("mapping", ref 3 0), ("parameters", part 3 0 ".parameters"), ("result", deep 0 ".result"),
      ("initializer", deep 0 ".result"), ("definition", opt 2 4)]
      ++ (if primary then [] else [("primary_template", ref 2 5)]))
    (declConst ++ ["specializations"] ++ (if primary then ["primary_template"] else []))

private def controlled (n : String) : KindSpec :=       -- impl:1476-1485 Controlled_stmt
  K n [L "control", L "stmt" 3]
    [("first", ref 2 0), ("condition", ref 2 0), ("second", ref 3 1), ("body", ref 3 1), ("type", deep 1 ".type")]
    (["category"] ++ stmtF)

private def directive (n : String) (links : List LinkSpec) (special : List (String × Sem)) (cs : List String) : KindSpec :=
  K n ([L "typing"] ++ links) ([("type", ref 2 0)] ++ special) (["category", "phases"] ++ cs)

private def attrBinary (n : String) (a b : String) : KindSpec := K n [] [] ["first", "second", a, b]

def kinds : List KindSpec := [
  -- nodes that are not expressions
  K "String" [] [] ["category", "characters", "size"],
  K "Region" [L "owned_by"] [("owner", opt 2 0)] ["category", "span", "enclosing", "body", "bindings", "global"],      -- impl:2034-2047
  K "Region#global" [] [("enclosing", .fails)] ["category", "span", "owner", "body", "bindings", "global"],            -- parent never set
  K "Region#homogeneous" [L "owned_by"] [("owner", opt 2 0)] ["category", "span", "enclosing", "body", "bindings", "global"], -- impl:674-693
  -- names
  unaryName "Identifier" "string", unaryName "Suffix" "name", unaryName "Operator" "opname", unaryName "Conversion" "target",
  unaryName "Ctor_name" "object_type", unaryName "Dtor_name" "object_type", unaryName "Guide_name" "mapping_decl",
  unaryName "Type_id" "type_expr",
  K "Template_id" [] [] ["category", "first", "second", "template_name", "args"],
  -- types (unified, built complete)
  compositeBinary "Array" ["element_type", "bound"],
  compositeUnary "As_type" ["expr"], compositeUnary "As_type#transfer" ["expr"], compositeUnary "As_type#extended" ["expr"],
  compositeUnary "As_type#builtin" ["expr"],
  compositeUnary "Decltype" ["expr"],
  compositeBinary "Tor" ["source", "throws"],
  K "Function" [] [] (["category", "type", "first", "second", "third"] ++ typeF ++ ["source", "target", "throws"]),
  K "Function#transfer" [] [] (["category", "type", "first", "second", "third"] ++ typeF ++ ["source", "target", "throws"]),
  compositeUnary "Pointer" ["points_to"],
  compositeUnary "Product" ["elements", "size", "index"], compositeUnary "Product#warehouse" ["elements", "size", "index"],
  compositeBinary "Ptr_to_member" ["containing_type", "member_type"],
  compositeBinary "Qualified" ["qualifiers", "main_variant"],
  compositeUnary "Reference" ["refers_to"], compositeUnary "Rvalue_reference" ["refers_to"],
  compositeUnary "Sum" ["elements", "size", "index"],
  compositeBinary "Forall" ["source", "target"],
  K "Auto" [] [] (["category", "type"] ++ typeF),
  -- user-defined types: impl:2104-2113 Udt (`name()` is `id.get()`), 2172-2186 Enum
  udt "Class" ["bases"], udt "Union", udt "Namespace", udt "Closure",
  K "Namespace#global" [] [] (["category", "type"] ++ typeF ++ ["region", "scope", "members"]),
  K "Enum" [L "id", L "underlying"] [("name", ref 2 0), ("base", opt 2 1)]
    ["category", "type", "transfer", "linkage", "region", "scope", "members", "kind"],
  -- nullary / container expressions
  K "Phantom" [L "typing"] [("type", ref 2 0)] ["category"],
  K "Eclipsis" [] [] ["category", "type"],
  K "Expr_list" [] [] ["category", "type", "operand", "elements", "size"],
  K "Overload" [] [("type", .fails)] ["category"],                      -- impl:1429-1448: `typing` is never set and no client can reach it
  K "Overload#singleton" [] [] ["category", "type"],                                                -- impl:589-604
  K "Scope" [] [] ["category", "type", "elements", "size"],
  K "Scope#homogeneous" [] [] ["category", "type", "elements", "size"],
  K "Parameter_list" [] [] ["category", "type", "region", "level", "elements", "size"],
  K "Mapping" [L "typing", L "body"] [("type", ref 2 0), ("result", ref 2 1)] ["category", "parameters"],          -- impl:776-784, 1807
  K "Lambda" [L "body", L "typing", L "value_type", L "decl_constraint", L "eh"]                                    -- impl:1680-1697
    [("result", ref 2 0), ("type", ref 2 1), ("target", opt 2 2), ("requirement", opt 2 3), ("eh_specification", opt 2 4)]
    ["category", "parameters", "attributes", "specifiers", "captures"],
  K "Requires" [] [] ["category", "type", "parameters", "body"],
  -- unary expressions
  K "Symbol" [] [] ["category", "type", "operand", "name"],
  classicUnary "Address", classicUnary "Array_delete" ["storage"], classicUnary "Complement", classicUnary "Delete" ["storage"],
  classicUnary "Deref", classicUnary "Not", classicUnary "Post_decrement", classicUnary "Post_increment",
  classicUnary "Pre_decrement", classicUnary "Pre_increment", classicUnary "Throw" ["exception"], classicUnary "Unary_minus",
  classicUnary "Unary_plus", classicUnary "Expansion",
  K "Construction" [L "op_impl"] [("implementation", opt 2 0)] ["category", "type", "operand", "arguments"],
  plainUnary "Alignof", plainUnary "Sizeof", plainUnary "Args_cardinality", plainUnary "Typeid", plainUnary "Noexcept",
  plainUnary "Label" ["name"], plainUnary "Enclosure" ["delimiters", "expr"],
  typedUnary "Demotion", typedUnary "Materialization", typedUnary "Promotion", typedUnary "Read",
  typedUnary "Asm" ["text"], typedUnary "Restriction",
  K "Id_expr" [L "typing", L "decls"] [("type", ref 2 0), ("resolution", opt 2 1)] ["category", "operand", "name"],   -- impl:1744-1749
  K "Id_expr#decl" [] [] ["category", "type", "operand", "resolution", "name"],
  -- binary expressions
  K "Rewrite" [L "second"] [("type", operandDeep 0 ".type"), ("second", operandSelf 0), ("target", operandSelf 0)]    -- interface:1054-1058
    ["category", "first", "source"],
  classicBinary "Scope_ref" ["scope", "member"], classicBinary "And", classicBinary "Array_ref" ["base", "member"],
  classicBinary "Arrow" ["base", "member"], classicBinary "Arrow_star" ["base", "member"], classicBinary "Assign",
  classicBinary "Bitand", classicBinary "Bitand_assign", classicBinary "Bitor", classicBinary "Bitor_assign",
  classicBinary "Bitxor", classicBinary "Bitxor_assign", classicBinary "Call" ["function", "args"], classicBinary "Comma",
  classicBinary "Div", classicBinary "Div_assign", classicBinary "Dot" ["base", "member"], classicBinary "Dot_star" ["base", "member"],
  classicBinary "Equal", classicBinary "Greater", classicBinary "Greater_equal", classicBinary "Less", classicBinary "Less_equal",
  classicBinary "Lshift", classicBinary "Lshift_assign", classicBinary "Minus", classicBinary "Minus_assign",
  classicBinary "Modulo", classicBinary "Modulo_assign", classicBinary "Mul", classicBinary "Mul_assign", classicBinary "Not_equal",
  classicBinary "Or", classicBinary "Plus", classicBinary "Plus_assign", classicBinary "Rshift", classicBinary "Rshift_assign",
  classicBinary "Binary_fold" ["operation"],
  classicBinary "New" ["global_requested", "placement", "initializer"],
  castExpr "Cast", castExpr "Const_cast", castExpr "Dynamic_cast", castExpr "Reinterpret_cast", castExpr "Static_cast",
  castExpr "Literal" ["string"],
  K "Coercion" [L "op_impl"] [("implementation", opt 2 0)] ["category", "type", "first", "second", "expr", "target"],
  K "Member_init" [L "typing"] [("type", ref 2 0)] ["category", "first", "second", "member", "initializer"],
  typedBinary "Narrow" ["expr", "derived"], typedBinary "Pretend" ["expr", "target"], typedBinary "Widen" ["expr", "base"],
  typedBinary "Qualification" ["expr", "qualifiers"],
  K "Where#nodecl" [L "first"] [("type", operandDeep 0 ".type"), ("first", operandSelf 0), ("main", operandSelf 0)]   -- interface:1352-1356
    ["category", "second", "attendant"],
  K "Where" [L "result" 3] [("first", ref 3 0), ("main", ref 3 0), ("type", deep 0 ".type")]                          -- impl:2493-2500
    ["category", "second", "attendant"],
  typedBinary "Static_assert" ["condition", "message"],
  K "Instantiation" [L "result" 3]                                                                                       -- impl:1839-1848, interface:1386
    [("instance", .on 0 [.absent, .tgt "", .tgt ""]), ("type", deep 0 ".type")] ["category", "pattern", "substitution"],
  K "Conditional" [L "typing", L "op_impl"] [("type", ref 2 0), ("implementation", opt 2 1)]
    ["category", "first", "second", "third", "condition", "then_expr", "else_expr"],
  -- directives: impl:698-701 Directive<T, f> is an impl::Expr<T>: `type()` is `typing.get()`
  directive "Specifiers_spread" [] [] ["specifiers", "targets"],
  directive "Structured_binding" [L "init"] [("initializer", ref 2 1)] ["specifiers", "mode", "names", "bindings"],   -- impl:2297-2311
  directive "Using_declaration#single" [] [] ["designators"],
  directive "Using_declaration" [] [] ["designators"],
  K "Using_directive" [] [] ["category", "type", "phases", "nominated_scope"],
  K "Phased_evaluation" [L "expression"] [("type", operandDeep 0 ".type"), ("expression", operandSelf 0)] ["category", "phases"],
  directive "Pragma" [] [] ["operand", "incantation"],
  -- statements
  K "Labeled_stmt" [L "second"] [("type", operandDeep 0 ".type"), ("second", operandSelf 0), ("stmt", operandSelf 0)]  -- interface:1615-1620
    (["category", "first", "label"] ++ stmtF),
  K "Block" [L "typing"] [("type", ref 2 0)] (["category"] ++ stmtF ++ ["region", "body", "handlers", "try_block"]),
  K "Block#handler" [L "typing"] [("type", ref 2 0)] (["category"] ++ stmtF ++ ["region", "body", "handlers", "try_block"]),
  K "Ctor_body" [L "typing"] [("type", ref 2 0)] (["category", "first", "second"] ++ stmtF ++ ["inits", "block"]),
  K "Expr_stmt" [L "operand"] [("type", operandDeep 0 ".type"), ("operand", operandSelf 0), ("expr", operandSelf 0)]   -- interface:1598-1601
    (["category"] ++ stmtF),
  K "Goto" [L "operand"] [("type", operandDeep 0 ".type"), ("operand", operandSelf 0), ("target", operandSelf 0)]      -- interface:1709-1712
    (["category"] ++ stmtF),
  K "Return" [L "typing"] [("type", ref 2 0)] (["category", "operand"] ++ stmtF ++ ["value"]),
  K "If" [L "typing"] [("type", ref 2 0)]
    (["category", "first", "second", "third"] ++ stmtF ++ ["condition", "consequence", "alternative"]),
  K "If#else" [L "typing"] [("type", ref 2 0)]
    (["category", "first", "second", "third"] ++ stmtF ++ ["condition", "consequence", "alternative"]),
  controlled "Switch", controlled "While", controlled "Do",
  K "For" [L "init", L "cond", L "inc", L "stmt" 3]                                                                   -- impl:2444-2456
    [("initializer", ref 2 0), ("condition", ref 2 1), ("increment", ref 2 2), ("body", ref 3 3), ("type", deep 3 ".type")]
    (["category"] ++ stmtF),
  K "For_in" [L "var", L "seq", L "stmt" 3]                                                                            -- impl:2458-2468
    [("variable", ref 2 0), ("sequence", ref 2 1), ("body", ref 3 2), ("type", deep 2 ".type")] (["category"] ++ stmtF),
  K "Break" [L "stmt"] [("from", ref 2 0)] (["category", "type"] ++ stmtF),                                           -- impl:2474-2479
  K "Continue" [L "stmt"] [("iteration", ref 2 0)] (["category", "type"] ++ stmtF),
  K "Handler" [L "body_typing"] [("type", ref 2 0)] (["category"] ++ stmtF ++ ["exception", "body"]),                 -- impl:2407-2416
  -- declarations
  K "Alias" [L "home", L "langlinkage"]                                                                                -- impl:1931-1936, interface:1806-1808
    [("linkage", ref 2 1), ("home_region", ref 2 0), ("lexical_region", ref 2 0)] (declConst ++ ["initializer"]),
  K "Var" [L "init", L "lexreg", L "home", L "langlinkage", L "def"]                                                   -- impl:1938-1945
    [("linkage", ref 2 3), ("home_region", ref 2 2), ("lexical_region", ref 2 1), ("initializer", opt 2 0), ("definition", opt 2 4)]
    declConst,
  K "Var#redeclared" [L "init", L "lexreg", L "home", L "langlinkage", L "def"]
    [("linkage", ref 2 3), ("home_region", ref 2 2), ("lexical_region", ref 2 1), ("initializer", opt 2 0), ("definition", opt 2 4)]
    declConst,
  K "Field" [L "init", L "home", L "langlinkage"]                                                                      -- impl:1948-1953
    [("linkage", ref 2 2), ("home_region", ref 2 1), ("lexical_region", ref 2 1), ("initializer", opt 2 0)] declConst,
  K "Bitfield" [L "length", L "init", L "home", L "langlinkage"]                                                       -- impl:1956-1963
    [("precision", ref 2 0), ("linkage", ref 2 3), ("home_region", ref 2 2), ("lexical_region", ref 2 2), ("initializer", opt 2 1)]
    declConst,
  K "Typedecl" [L "init", L "lexreg", L "home", L "langlinkage", L "def"]                                              -- impl:1965-1972
    [("linkage", ref 2 3), ("home_region", ref 2 2), ("lexical_region", ref 2 1), ("initializer", opt 2 0), ("definition", opt 2 4)]
    declConst,
  -- impl:1978-1993, src/impl.cxx:664-680: `data` is variant<Parameter_list*, Mapping*>:
  --   0 = holds a null Parameter_list* (as constructed), 1 = a Parameter_list, 2 = a Mapping, 3 = a null Mapping*
  K "Fundecl" [L "data" 4, L "lexreg", L "home", L "langlinkage", L "def"]
    [("linkage", ref 2 3), ("home_region", ref 2 2), ("lexical_region", ref 2 1),
     ("mapping", .on 0 [.absent, .absent, .tgt "", .absent]),
     ("parameters", .on 0 [.err, .tgt "", .tgt ".parameters", .err]),
     ("initializer", .on 0 [.absent, .absent, .tgt "", .absent]),
     ("definition", opt 2 4)]
    declConst,
  templateKind "Template" true, templateKind "Template#secondary" false,                                               -- impl:1886-1899, src/impl.cxx:688-696
  K "Parameter" [L "init"] [("initializer", opt 2 0), ("default_value", opt 2 0)]                                      -- impl:744-759
    (uniqueDeclConst ++ ["home_region", "lexical_region", "level", "position"]),
  -- the same node entered through `homogeneous_region::scope.push_back` (what add_member does first): `where`, a util::ref, is unset
  K "Parameter#detached" [L "init"]
    [("initializer", opt 2 0), ("default_value", opt 2 0), ("home_region", .fails), ("lexical_region", .fails), ("level", .fails)]
    (uniqueDeclConst ++ ["position"]),
  K "Enumerator" [L "init"] [("initializer", opt 2 0)] (uniqueDeclConst ++ ["home_region", "lexical_region", "position"]),   -- impl:1532-1546
  K "Base_type" [] [("initializer", .fails)] (uniqueDeclConst ++ ["home_region", "lexical_region", "position"]),       -- src/impl.cxx:636-639
  K "EH_parameter" [] [] (uniqueDeclConst ++ ["home_region", "lexical_region", "initializer"]),
  -- objects that are not nodes
  K "Token" [] [] ["lexeme", "spelling", "locus", "value", "category"],
  K "BasicAttribute" [] [] ["operand", "token"],
  attrBinary "ScopedAttribute" "scope" "member", attrBinary "LabeledAttribute" "label" "attribute",
  attrBinary "CalledAttribute" "function" "arguments", attrBinary "ExpandedAttribute" "expander" "operand",
  attrBinary "FactoredAttribute" "factor" "terms",
  K "ElaboratedAttribute" [] [] ["operand", "elaboration"],
  K "Capture" [] [] ["mode", "entity"],
  K "Capture_specification::Default" [] [] ["mode"],
  K "Capture_specification::Implicit_object" [] [] ["how"],
  -- `name()` is the Identifier naming the captured declaration: refused (checked view) when the declaration is named otherwise (src/impl.cxx:493-497)
  K "Capture_specification::Enclosing_local" [L "declaration"] [("name", operandDeep 0 ".name"), ("declaration", operandSelf 0)] ["mode"],
  K "Capture_specification::Binding" [] [] ["name", "mode", "initializer"],
  K "Capture_specification::Expansion" [] [] ["what"],
  K "Substitution#elementary" [] [] [], K "Substitution#general" [] [] [],
  K "Module_name" [] [] ["stems"],
  K "Module" [] [] ["name", "interface_unit", "implementation_units"],
  K "Translation_unit" [] [] ["global_namespace", "imported_modules"],
  K "Module_unit" [] [] ["global_namespace", "imported_modules", "parent_module", "purview"],
  K "Interface_unit" [] [] ["global_namespace", "imported_modules", "parent_module", "purview", "exported_modules", "exported_declarations"],
  -- declarator forms (impl:787-1080)
  K "Constraint::Monadic" [] [] ["scope", "concept_name"], K "Constraint::Monadic#scoped" [] [] ["scope", "concept_name"],
  K "Constraint::Polyadic" [] [] ["scope", "concept_name", "trailing_arguments"],
  K "Constraint::Polyadic#scoped" [] [] ["scope", "concept_name", "trailing_arguments"],
  K "Requirement::Simple" [] [] ["expr"],
  K "Requirement::Type" [] [] ["scope", "type_name"], K "Requirement::Type#scoped" [] [] ["scope", "type_name"],
  K "Requirement::Compound" [L "type"] [("constraint", opt 2 0)] ["expr", "nothrow"],
  K "Requirement::Nested" [] [] ["condition"],
  K "Indirector::Pointer" [] [] ["attributes", "qualifiers"], K "Indirector::Reference" [] [] ["attributes", "flavor"],
  K "Indirector::Member" [] [] ["attributes", "scope", "qualifiers"],
  K "Species::Unqualified_id" [] [] ["suffix", "attributes", "name"], K "Species::Unqualified_id#named" [] [] ["suffix", "attributes", "name"],
  K "Species::Pack" [] [] ["suffix", "attributes", "name"], K "Species::Pack#named" [] [] ["suffix", "attributes", "name"],
  K "Species::Qualified_id" [] [] ["suffix", "attributes", "scope", "member"],
  K "Species::Parenthesized" [L "declarator"] [("term", ref 2 0)] ["suffix"],                                          -- impl:973-976
  K "Morphism::Function" [L "eh_spec"] [("throws", opt 2 0)] ["attributes", "parameters", "qualifiers", "binding_mode"],
  K "Morphism::Array" [L "array_bound"] [("bound", opt 2 0)] ["attributes"],
  K "Declarator::Term" [L "tail"] [("species", ref 2 0)] ["indirectors"],                                              -- impl:988-993
  K "Declarator::Targeted" [] [] ["species", "target"],
  K "Classic_provision" [] [] ["initializer"], K "Parenthesized_provision" [] [] ["initializer"],
  K "Braced_provision" [] [] ["elements"], K "Designated_list_provision" [] [] ["elements"],
  K "Field_designator" [] [] ["name"], K "Slot_designator" [] [] ["index"],
  K "Earmarked_initializer" [] [] ["subobject", "initializer"]
]

def findKind (name : String) : Option KindSpec := kinds.find? (·.name == name)

/-! ### A name carrying declarations of different kinds

The declaration kinds of a general scope are swept a second time as the declaration that comes SECOND under its name, after
a declaration of another kind (and type) took that name: `X#after-Y`.  What was declared earlier under the name is not an
operand of the node and fills in none of its links, so the specification of `X#after-Y` is the specification of `X` — the
very `KindSpec` of the table (to which the theorems of IprProps/C14.lean apply), under another name. -/

/-- The declaration kinds `Scope::make_*` produces (src/impl.cxx:1497-1636). -/
def declKindNames : List String := ["Alias", "Var", "Field", "Bitfield", "Typedecl", "Fundecl", "Template", "Template#secondary"]

/-- `X#after-Y` for every ordered pair of distinct declaration kinds, each with the rows of `X`. -/
def afterKinds : List KindSpec :=
  declKindNames.flatMap (fun x => match findKind x with
    | none => []
    | some k => (declKindNames.filter (· != x)).map (fun y => { k with name := x ++ "#after-" ++ y }))

/-- Everything the sweep visits: the table, then the second-under-a-name variants. -/
def sweptKinds : List KindSpec := kinds ++ afterKinds

def findSwept (name : String) : Option KindSpec := sweptKinds.find? (·.name == name)

/-- Table hygiene checked by `decide` in the property file: every row reads a declared link and gives an outcome for every
    state code of it; link names and accessor names are unambiguous. -/
def Sem.wellFormed (k : KindSpec) : Sem → Bool
  | .on l outs => match k.links[l]? with
    | some ls => outs.length == ls.arity
    | none => false
  | _ => true

def KindSpec.wellFormed (k : KindSpec) : Bool :=
  k.rows.all (fun r => r.2.wellFormed k) && (k.rows.map (·.1)).Nodup && (k.links.map (·.name)).Nodup
    && k.links.all (fun l => 2 ≤ l.arity)

/-- A kind leaves a link unchecked if no accessor reads it: then the sweep could not see it. -/
def KindSpec.everyLinkRead (k : KindSpec) : Bool :=
  (List.range k.links.length).all (fun l => k.rows.any (fun r => r.2.reads.contains l))

/-- All state vectors of a kind (the sweep's domain). -/
def allCodes : List LinkSpec → List (List Nat)
  | [] => [[]]
  | l :: rest => (List.range l.arity).flatMap (fun c => (allCodes rest).map (c :: ·))

/-- The line the driver prints for one state: `acc=<outcome>` for every modelled accessor. -/
def KindSpec.expected (k : KindSpec) (σ : State) : List (String × String) :=
  k.rows.map (fun r => (r.1, r.2.render k σ))

end Ipr.Outcome
