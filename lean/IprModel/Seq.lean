/-
  Model of `ipr::Sequence<T>` (include/ipr/ancillary:126-236) and of its nine implementations in include/ipr/impl:
    ref_sequence (252-267) · Warehouse (273-284) · obj_sequence (305-330) · obj_list (338-374) · empty_sequence (383-392) ·
    singleton_obj (418-436) · decl_sequence (561) · singleton_ref (568-580) · typed_sequence (615-631) ·
    homogeneous_scope (640-659).
  An accessor either returns or raises an exception derived from `std::logic_error` (`std::domain_error` thrown by the
  hand-written bounds checks, `std::out_of_range` thrown by `vector::at`, `std::logic_error` thrown by `util::check`):
  that is `Except LogicError α`.  Indices are `std::size_t`; container sizes are far below 2^64.
-/
namespace Ipr.Seq

/-- An exception derived from `std::logic_error` — the only way an accessor may refuse. -/
inductive LogicError where
  | logic
  deriving DecidableEq, Repr, Inhabited

abbrev Res (α : Type) := Except LogicError α

def failed {α : Type} : Res α → Bool
  | .error _ => true
  | .ok _ => false

/-- `SIZE_MAX`. -/
def sizeMax : Nat := 2 ^ 64 - 1

/-- What every implementation gives to `ipr::Sequence<T>`: the two virtual functions `size()` and `get(Index)`. -/
structure View (α : Type) where
  size : Nat
  get : Nat → Res α

namespace View
variable {α : Type}

/-- `Sequence<T>::empty()`: `not (size() > 0)`. -/
def empty (s : View α) : Bool := !(s.size > 0)

/- `Sequence<T>::Iterator` is the pair (sequence, index) (ancillary:168-221).  Only the index is modelled: all iterators
   below belong to the one sequence at hand.  `begin() = {this, 0}`, `end() = {this, size()}`, `position(i) = {this, i}`,
   `*it = seq->get(index)`, `++`/`--` add/subtract one in `std::size_t` arithmetic. -/
def begin_ (_ : View α) : Nat := 0
def end_ (s : View α) : Nat := s.size
def position (_ : View α) (i : Nat) : Nat := i
def deref (s : View α) (it : Nat) : Res α := s.get it
def succ (it : Nat) : Nat := if it = sizeMax then 0 else it + 1
def pred (it : Nat) : Nat := if it = 0 then sizeMax else it - 1

/-- `for (it = position(i); it != end(); ++it) visit(*it)` started at or before `end()`. -/
def forwardFrom (s : View α) (i : Nat) (h : i ≤ s.size) : List (Res α) :=
  if e : i = s.size then [] else s.get i :: s.forwardFrom (i + 1) (by omega)
termination_by s.size - i

/-- `for (it = begin(); it != end(); ++it) visit(*it)`. -/
def forward (s : View α) : List (Res α) := s.forwardFrom 0 (Nat.zero_le _)

/-- `it = position(i); while (it != begin()) { --it; visit(*it); }`. -/
def backwardFrom (s : View α) : Nat → List (Res α)
  | 0 => []
  | i + 1 => s.get i :: s.backwardFrom i

/-- `it = end(); while (it != begin()) { --it; visit(*it); }`. -/
def backward (s : View α) : List (Res α) := s.backwardFrom s.size

end View

/-! ## ref_sequence<T> : `std::vector<const void*>`; a slot holding a null pointer is `none`. -/
structure RefSeq (α : Type) where
  slots : List (Option α) := []

namespace RefSeq
variable {α : Type}

/-- `explicit ref_sequence(std::size_t n = 0) : Rep(n)`: `n` null slots. -/
def presized (n : Nat) : RefSeq α := ⟨List.replicate n none⟩
/-- `push_back(&x)`. -/
def pushBack (s : RefSeq α) (x : α) : RefSeq α := ⟨s.slots ++ [some x]⟩
/-- `push_back(nullptr)` (the vector stores `const void*`). -/
def pushNull (s : RefSeq α) : RefSeq α := ⟨s.slots ++ [none]⟩
/-- `resize(n)`: truncate, or grow with null slots. -/
def resize (s : RefSeq α) (n : Nat) : RefSeq α :=
  if n ≤ s.slots.length then ⟨s.slots.take n⟩ else ⟨s.slots ++ List.replicate (n - s.slots.length) none⟩
def size (s : RefSeq α) : Nat := s.slots.length
/-- `*util::check(pointer(this->at(p)))`: `vector::at` raises `std::out_of_range`, `util::check` raises
    `std::logic_error` on a null slot (repaired defect F7). -/
def get (s : RefSeq α) (p : Nat) : Res α :=
  match s.slots[p]? with
  | none => .error .logic
  | some none => .error .logic
  | some (some x) => .ok x
def view (s : RefSeq α) : View α := ⟨s.size, s.get⟩
end RefSeq

/-- `impl::decl_sequence : ref_sequence<ipr::Decl>`. -/
abbrev DeclSeq (α : Type) := RefSeq α

/-! ## Warehouse<T> : private `ref_sequence<T>`; clients have the sizing constructor and `push_back(const T&)`. -/
structure Warehouse (α : Type) where
  rep : RefSeq α := {}

namespace Warehouse
variable {α : Type}
def presized (n : Nat) : Warehouse α := ⟨RefSeq.presized n⟩
def pushBack (w : Warehouse α) (x : α) : Warehouse α := ⟨w.rep.pushBack x⟩
/-- The state reached by `Warehouse<T> w(n)` followed by the `push_back`s of `xs`. -/
def build (n : Nat) (xs : List α) : Warehouse α := xs.foldl pushBack (presized n)
def view (w : Warehouse α) : View α := w.rep.view
end Warehouse

/-! ## obj_sequence<T> : `std::deque<T>`. -/
structure ObjSeq (α : Type) where
  items : List α := []

namespace ObjSeq
variable {α : Type}
def pushBack (s : ObjSeq α) (x : α) : ObjSeq α := ⟨s.items ++ [x]⟩
def size (s : ObjSeq α) : Nat := s.items.length
/-- `if (p < 0 or p >= size()) throw std::domain_error; return backing_store()[p];` (`p` is unsigned). -/
def get (s : ObjSeq α) (p : Nat) : Res α :=
  if h : p < s.items.length then .ok s.items[p] else .error .logic
def view (s : ObjSeq α) : View α := ⟨s.size, s.get⟩
end ObjSeq

/-! ## obj_list<T> : `std::forward_list<T>` with `mark` on the last element; `push_back` is `emplace_after(mark)`. -/
structure ObjList (α : Type) where
  items : List α := []

namespace ObjList
variable {α : Type}
def pushBack (s : ObjList α) (x : α) : ObjList α := ⟨s.items ++ [x]⟩
/-- `std::distance(begin(), end())`. -/
def size (s : ObjList α) : Nat := s.items.length
/-- bounds check, then `b = begin(); std::advance(b, p); return *b;`. -/
def get (s : ObjList α) (p : Nat) : Res α :=
  if p ≥ s.size then .error .logic
  else match s.items.drop p with
    | x :: _ => .ok x
    | [] => .error .logic
def view (s : ObjList α) : View α := ⟨s.size, s.get⟩
end ObjList

/-! ## empty_sequence<T>. -/
def emptySeq (α : Type) : View α := ⟨0, fun _ => .error .logic⟩

/-! ## singleton_obj<T> (stores the object) and singleton_ref<T> (stores a reference). -/
structure SingletonObj (α : Type) where
  item : α
def SingletonObj.get {α : Type} (s : SingletonObj α) (i : Nat) : Res α := if i = 0 then .ok s.item else .error .logic
def SingletonObj.view {α : Type} (s : SingletonObj α) : View α := ⟨1, s.get⟩

structure SingletonRef (α : Type) where
  datum : α
def SingletonRef.get {α : Type} (s : SingletonRef α) (i : Nat) : Res α := if i = 0 then .ok s.datum else .error .logic
def SingletonRef.view {α : Type} (s : SingletonRef α) : View α := ⟨1, s.get⟩

/-! ## typed_sequence<Seq> : the Product whose i-th element is `seq.get(i).type()`; `type()` of a member may itself raise
    (an expression whose typing was never set). -/
structure TypedSeq (α τ : Type) where
  seq : View α
  typeOf : α → Res τ

namespace TypedSeq
variable {α τ : Type}
def size (t : TypedSeq α τ) : Nat := t.seq.size
def get (t : TypedSeq α τ) (i : Nat) : Res τ := t.seq.get i >>= t.typeOf
def view (t : TypedSeq α τ) : View τ := ⟨t.size, t.get⟩
end TypedSeq

/-! ## homogeneous_scope<Member, Seq> : `typed_sequence<Seq<singleton_overload<Member>>> decls`; it is both a
    `Sequence<Decl>` and a `Sequence<Expr>` with the one `get(i) = decls.seq.get(i)` (unwrapped to the member). -/
structure HomScope (α τ : Type) where
  decls : TypedSeq α τ

namespace HomScope
variable {α τ : Type}
def size (h : HomScope α τ) : Nat := h.decls.size
def get (h : HomScope α τ) (i : Nat) : Res α := h.decls.seq.get i
def view (h : HomScope α τ) : View α := ⟨h.size, h.get⟩
/-- `type()`: the Product of the members' types. -/
def type (h : HomScope α τ) : View τ := h.decls.view
end HomScope

/-! ## Look-up by name

`homogeneous_scope::operator[](const Name&)` (impl:669-677) is a linear search over the members in order, comparing
`member.name()` with the name asked for.  `name()` of a member may itself raise — `ipr::Base_type::name()` is the name of the
base class, `Udt::name()` is `id.get()` on an Optional that is empty for a class without a name (yet) — and then the search
ends there with that logic error; members in front of it are still found.  The overload set found is the member's
`singleton_overload` (impl:589-604): `type()` is the member's type, `operator[](t)` the member iff `t` is its type.
`impl::Scope::operator[]` (src/impl.cxx:1487-1492) searches a tree keyed by the name's address: no member is asked for its
name; the overload set is keyed by type and answers the FIRST declaration made with that name and type. -/

/-- Linear search: index of the first member named `q`; a member whose name cannot be read ends the search with its error. -/
def lookupFrom {ν : Type} [DecidableEq ν] (q : ν) : List (Res ν) → Nat → Res (Option Nat)
  | [], _ => .ok none
  | .error e :: _, _ => .error e
  | .ok n :: rest, i => if n = q then .ok (some i) else lookupFrom q rest (i + 1)

/-- `homogeneous_scope::operator[](const Name&)` over the members' names in order. -/
def HomScope.lookup {ν : Type} [DecidableEq ν] (names : List (Res ν)) (q : ν) : Res (Option Nat) := lookupFrom q names 0

/-- `singleton_overload::operator[](const Type&)`: the sole declaration iff the type asked for is its type. -/
def singletonSelect {τ : Type} [DecidableEq τ] (declType : Res τ) (t : τ) : Res Bool := declType.map (· = t)

/-- `impl::Scope::operator[]` then `Overload::operator[](Type)`: the first declaration with name `q` and type `t`
    (names and types of a general scope's members are stored: nothing can raise). -/
def generalSelect {ν τ : Type} [DecidableEq ν] [DecidableEq τ] (members : List (ν × τ)) (q : ν) (t : τ) : Option Nat :=
  members.findIdx? (fun m => m.1 = q ∧ m.2 = t)

/-! ## `ipr::Optional<T>` (ancillary:238-253) and `util::ref<T>` (utility:63-69): a possibly null pointer, checked on `get()`. -/
def optionalGet {α : Type} : Option α → Res α
  | some x => .ok x
  | none => .error .logic

end Ipr.Seq
