/-
  Model of `ipr::util::rb_tree` (include/ipr/utility:88-391): CLRS red-black insertion.

  The C++ keeps parent pointers and mutates in place; the model is a persistent tree and the path from the
  insertion point to the root is an explicit zipper (`Path`, innermost frame first).  `fixup` mirrors
  `core<Node>::fixup_insert`: case 1 (red uncle) recolours and climbs two frames, cases 2/3 rotate and stop.
  Comparator convention of the C++: `cmp data key`, descend LEFT when the result is negative.
  No Mathlib import: this file is compiled into the native model driver.
-/
namespace Ipr.RB

inductive Color | red | black
  deriving DecidableEq, Repr, Inhabited

inductive Tree (α : Type) where
  | nil
  | node (c : Color) (l : Tree α) (k : α) (r : Tree α)
  deriving Repr, Inhabited

inductive Dir | L | R
  deriving DecidableEq, Repr

/-- An ancestor seen from below: which arm we went down, its colour and key, and the other arm. -/
structure Frame (α : Type) where
  dir : Dir
  c : Color
  k : α
  sib : Tree α

abbrev Path (α : Type) := List (Frame α)

namespace Tree
variable {α : Type}

def plug (t : Tree α) (f : Frame α) : Tree α :=
  match f.dir with
  | .L => .node f.c t f.k f.sib
  | .R => .node f.c f.sib f.k t

def zip (t : Tree α) : Path α → Tree α
  | [] => t
  | f :: fs => zip (t.plug f) fs

def blacken : Tree α → Tree α
  | .nil => .nil
  | .node _ l k r => .node .black l k r

def isRed : Tree α → Bool
  | .node .red _ _ _ => true
  | _ => false

/-- `core::fixup_insert`.  `z` is the subtree rooted at the current red node. -/
def fixup : Tree α → Path α → Tree α
  | z, [] => z.blacken
  | z, [p] => (z.plug p).blacken
  | z, p :: g :: rest =>
    if p.c == .black then (zip z (p :: g :: rest)).blacken
    else if g.sib.isRed then
      let pT := z.plug { p with c := .black }
      let gT := pT.plug { g with c := .red, sib := g.sib.blacken }
      fixup gT rest
    else
      match z with
      | .nil => .nil
      | .node _ zl zk zr =>
      let sub : Tree α :=
        match g.dir, p.dir with
        | .L, .L => .node .black (.node .red zl zk zr) p.k (.node .red p.sib g.k g.sib)
        | .L, .R => .node .black (.node .red p.sib p.k zl) zk (.node .red zr g.k g.sib)
        | .R, .R => .node .black (.node .red g.sib g.k p.sib) p.k (.node .red zl zk zr)
        | .R, .L => .node .black (.node .red g.sib g.k zl) zk (.node .red zr p.k p.sib)
      (zip sub rest).blacken

/-- Walk down as `container::insert` / `chain::insert` do.  `none`: an equivalent key is present. -/
def descend (cmp : α → α → Int) (key : α) : Tree α → Path α → Option (Path α)
  | .nil, path => some path
  | .node c l k r, path =>
    let o := cmp k key
    if o < 0 then descend cmp key l ({ dir := .L, c := c, k := k, sib := r } :: path)
    else if o > 0 then descend cmp key r ({ dir := .R, c := c, k := k, sib := l } :: path)
    else none

/-- `container::find` / `chain::find`. -/
def find (cmp : α → α → Int) (key : α) : Tree α → Option α
  | .nil => none
  | .node _ l k r =>
    let o := cmp k key
    if o < 0 then find cmp key l
    else if o > 0 then find cmp key r
    else some k

/-- Insert-or-keep: the tree after `insert key`. -/
def insert (cmp : α → α → Int) (t : Tree α) (key : α) : Tree α :=
  match descend cmp key t [] with
  | none => t
  | some path => fixup (.node .red .nil key .nil) path

def size : Tree α → Nat
  | .nil => 0
  | .node _ l _ r => size l + size r + 1

def height : Tree α → Nat
  | .nil => 0
  | .node _ l _ r => max (height l) (height r) + 1

def inorder : Tree α → List α
  | .nil => []
  | .node _ l k r => inorder l ++ k :: inorder r

/-- Executable red-black checker: black height if the subtree obeys "no red-red" and "equal black count". -/
def blackHeight : Tree α → Option Nat
  | .nil => some 0
  | .node c l _ r =>
    match blackHeight l, blackHeight r with
    | some a, some b =>
      if a = b then
        match c with
        | .black => some (a + 1)
        | .red => if l.isRed || r.isRed then none else some a
      else none
    | _, _ => none

/-- Black root (or empty) and the red-black rules everywhere. -/
def checkRB (t : Tree α) : Bool := !t.isRed && (blackHeight t).isSome

/-- Executable order checker: the in-order key sequence strictly descends w.r.t. `cmp` (the C++ convention). -/
def descChain (cmp : α → α → Int) : List α → Bool
  | [] => true
  | [_] => true
  | a :: b :: rest => decide (0 < cmp a b) && descChain cmp (b :: rest)

def checkBST (cmp : α → α → Int) (t : Tree α) : Bool := descChain cmp (inorder t)

end Tree

/-- The owning flavour `rb_tree::container<T>`: tree plus `count`. -/
structure Container (α : Type) where
  tree : Tree α := .nil
  count : Nat := 0

/-- `container::insert`: returns the container and whether a fresh element was created. -/
def Container.insert {α} (cmp : α → α → Int) (c : Container α) (key : α) : Container α × Bool :=
  match Tree.descend cmp key c.tree [] with
  | none => (c, false)
  | some path => ({ tree := Tree.fixup (.node .red .nil key .nil) path, count := c.count + 1 }, true)

/-- `container::insert` over an element type whose construction from the key may FAIL (`mk key = none`: `T(key)` raises).
    The search comes first (utility:378-392) and `make_node` -- allocation, then construction, then the links -- runs only when
    the key is absent (utility:395-396, 317-325); the exception leaves `insert` before anything is linked or counted, so the
    caller still holds the container as it was.  `none` = the exception reaches the caller. -/
def Container.insertMk {α} (cmp : α → α → Int) (mk : α → Option α) (c : Container α) (key : α) : Option (Container α × Bool) :=
  match Tree.descend cmp key c.tree [] with
  | none => some (c, false)
  | some path =>
    match mk key with
    | none => none
    | some x => some ({ tree := Tree.fixup (.node .red .nil x .nil) path, count := c.count + 1 }, true)

/-- The intrusive flavour `rb_tree::chain<Node>`: a duplicate is not linked, but `count` is bumped regardless. -/
structure Chain (α : Type) where
  tree : Tree α := .nil
  count : Nat := 0

def Chain.insert {α} (cmp : α → α → Int) (c : Chain α) (key : α) : Chain α :=
  { tree := Tree.insert cmp c.tree key, count := c.count + 1 }

/-- Three-way comparison of integers, also used for addresses. -/
def icmp (a b : Int) : Int := if a < b then -1 else if b < a then 1 else 0

/-- Lexicographic three-way comparison of integer lists (a proper prefix is smaller). -/
def lexCmp : List Int → List Int → Int
  | [], [] => 0
  | [], _ :: _ => -1
  | _ :: _, [] => 1
  | a :: as, b :: bs => if a < b then -1 else if b < a then 1 else lexCmp as bs

end Ipr.RB
