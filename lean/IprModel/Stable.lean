/-!
# IprModel/Stable.lean — node identity is stable (C05)

A Lexicon (with its translation units, regions, scopes, classes, blocks …) is an **append-only store of node records**.
Every record keeps the operands it was built from; a container record additionally keeps its **member list**
(`mems`, append-only) and names its sequence-valued accessors as **views** of member lists (its own, the one of another
record — `Class::members()` is `scope().elements()`, a homogeneous region's `body()` is its scope — or the *types of*
the members of another record: the `Product` type of a scope, `impl::typed_sequence`, include/ipr/impl:615-631).
Links that the client sets after construction (`For::stmt`, `Var::init`, `Udt::id` …) are an association list that only
gains entries.

The store is changed only through four **guarded primitives** (`allocMany`, `appendMem`, `setLink`, `addKey`); every operation
of the line protocol (`step`) is a composition of them:

* unified factories (`get_*`, and the two `make_` documented to unify: literals and template-ids;
  src/impl.cxx:1143-1360, 1672-1789, 2147-2154, 2276-2279) are *find-or-insert* on a key table — after the normalisations
  the code performs (`get_qualified` merges with a qualified operand and rejects the empty set, `get_identifier(word)`
  interns the string first, `get_label(i)` is `get_symbol(i, void)`, `get_this(t)` is `get_symbol(this, t)`,
  `get_literal` is `make_literal`, `get_product(Warehouse)` copies the warehouse's current content);
* generative factories (the `make_` family, `get_decltype`, `get_auto`: `stable_farm::make`, include/ipr/impl:286-297)
  always append; factories that create a node together with its region / scope / parameter list append all of them;
* member additions (`Scope::make_*`/`Region::declare_*`/`Udt::declare_*`, `Parameter_list::add_member`, `Enum::add_member`,
  `Class::declare_base`, `Block::new_handler`, `Expr_list::push_back`, `Block::add_stmt`) append the new member to one
  member list (and a redeclaration to the decl-set of its master);
* `Warehouse` is client-side data, never part of a node.
* language linkages, calling conventions and transfers (`get_linkage`, `get_calling_convention`, `get_transfer*`,
  src/impl.cxx:1143-1164, 1739-1763) are find-or-insert too: a linkage / convention is keyed by its spelling (the `String`
  and `Logogram` interned on the way are not handed to the client by that call), a transfer by its operands after the
  normalisation of `get_transfer` (C++ linkage: the transfer of the convention alone; natural convention: the transfer of
  the linkage alone); `get_function` / `get_as_type` given a transfer that EQUALS the natural C++ one (compared by value,
  src/impl.cxx:1218-1219, 1288-1289) answer the plain function / as-type node;
* `lookup` reads `scope[name][type]` (`Scope::operator[]`, `Overload::operator[]`): in a general scope the first declaration
  entered with that name and type (src/impl.cxx:559-565, 1486-1491), in a homogeneous scope (parameter list, enumeration)
  the FIRST member of that name, answered when it has that type (include/ipr/impl:596-601, 662-671).  It changes nothing.

`obs` is what can be read through a node; `Obs.le` (⊑) is equality on everything but *prefix* on sequences and *gain* on links.
Growth bursts (`burst`) create nodes that are never returned to the client: the model does nothing for them — relocation of
storage is runtime behaviour that ids cannot exhibit (the property is partial there: address re-checks + ASan in the probe).
-/
namespace Ipr.Stable

abbrev Id := Nat

inductive Arg
  | node (i : Id)
  | num (n : Nat)
  | str (s : String)          -- spelling, in hex
  | seq (ids : List Id)       -- copied content of a warehouse
  | wh (i : Nat)              -- a warehouse of the client (only in requests, never stored)
  | none                      -- absent optional
deriving DecidableEq, Repr, Inhabited

inductive View
  | own
  | sameAs (j : Id)
  | typesOf (j : Id)
deriving DecidableEq, Repr, Inhabited

inductive Origin | unified | generative | part
deriving DecidableEq, Repr, Inhabited

structure Rec where
  tag : String := ""
  args : List Arg := []
  origin : Origin := .part
  typ : Option Id := none                 -- its type, as a member of a typed sequence
  links : List (String × Id) := []
  mems : List Id := []
  views : List (String × View) := []
  parts : List (String × Id) := []
deriving DecidableEq, Repr, Inhabited

abbrev Key := String × List Arg

structure State where
  nodes : Array Rec := #[]
  keys : List (Key × Id) := []
  whs : List (Option (List Id)) := []
deriving Repr, Inhabited

def State.size (s : State) : Nat := s.nodes.size
def State.get (s : State) (i : Id) : Rec := (s.nodes[i]?).getD default

/-! ## Guarded primitives -/

def Arg.ids : Arg → List Id
  | .node i => [i]
  | .seq l => l
  | _ => []

def View.ids : View → List Id
  | .own => []
  | .sameAs j => [j]
  | .typesOf j => [j]

/-- every id a record mentions -/
def Rec.ids (r : Rec) : List Id :=
  r.args.flatMap Arg.ids ++ r.typ.toList ++ r.links.map (·.2) ++ r.mems ++ r.views.flatMap (·.2.ids) ++ r.parts.map (·.2)

def Rec.okBelow (r : Rec) (bound : Nat) : Bool := r.ids.all (· < bound)

/-- Append records; refused unless every id they mention exists afterwards and no link is pre-set. -/
def State.allocMany (s : State) (rs : List Rec) : State :=
  if rs.all (fun r => r.okBelow (s.size + rs.length) && r.links.isEmpty) then { s with nodes := s.nodes ++ rs.toArray } else s

def State.appendMem (s : State) (j m : Id) : State :=
  if j < s.size ∧ m < s.size then { s with nodes := s.nodes.modify j fun r => { r with mems := r.mems ++ [m] } } else s

def State.setLink (s : State) (j : Id) (slot : String) (v : Id) : State :=
  if j < s.size ∧ v < s.size ∧ (s.get j).links.lookup slot = none then
    { s with nodes := s.nodes.modify j fun r => { r with links := r.links ++ [(slot, v)] } }
  else s

def State.addKey (s : State) (k : Key) (id : Id) : State :=
  if id < s.size ∧ (s.get id).tag = k.1 ∧ (s.get id).args = k.2 ∧ (s.get id).origin = .unified ∧ s.keys.lookup k = none then
    { s with keys := (k, id) :: s.keys }
  else s

/-! ## Observations -/

def seqOf (s : State) (r : Rec) : View → List (Option Id)
  | .own => r.mems.map some
  | .sameAs j => (s.get j).mems.map some
  | .typesOf j => (s.get j).mems.map fun m => (s.get m).typ

structure Obs where
  tag : String
  args : List Arg
  origin : Origin
  typ : Option Id
  parts : List (String × Id)
  links : List (String × Id)
  seqs : List (String × List (Option Id))
deriving DecidableEq, Repr

def obs (s : State) (i : Id) : Obs :=
  let r := s.get i
  { tag := r.tag, args := r.args, origin := r.origin, typ := r.typ, parts := r.parts, links := r.links,
    seqs := r.views.map fun p => (p.1, seqOf s r p.2) }

def SeqsLe : List (String × List (Option Id)) → List (String × List (Option Id)) → Prop
  | [], [] => True
  | p :: a, q :: b => p.1 = q.1 ∧ p.2 <+: q.2 ∧ SeqsLe a b
  | _, _ => False

/-- `a ⊑ b`: equal on every scalar / operand / type / part, links only gained, PREFIX on every member sequence. -/
def Obs.le (a b : Obs) : Prop :=
  a.tag = b.tag ∧ a.args = b.args ∧ a.origin = b.origin ∧ a.typ = b.typ ∧ a.parts = b.parts ∧
  (∀ k v, a.links.lookup k = some v → b.links.lookup k = some v) ∧ SeqsLe a.seqs b.seqs

/-! ## Factory tables (mirror of the code) -/

/-- find-or-insert factories -/
def unifiedFactories : List String :=
  ["get_string", "get_identifier", "get_identifier_s", "get_operator", "get_suffix", "get_conversion", "get_ctor_name",
   "get_dtor_name", "get_pointer", "get_reference", "get_rvalue_reference", "get_array", "get_qualified", "get_function",
   "get_ptr_to_member", "get_as_type", "get_tor", "get_forall", "get_product", "get_sum", "get_symbol", "get_label", "get_this",
   "make_literal", "make_literal_s", "get_literal", "make_template_id", "get_template_id",
   "get_linkage", "get_calling_convention", "get_transfer_from_linkage", "get_transfer_from_convention", "get_transfer",
   "get_function_x", "get_as_type_x"]

def isUnified (f : String) : Bool := unifiedFactories.contains f

/-- always-append factories: the `make_` family (except the two above) and the two `get_` that allocate from a farm -/
def isGenerative (f : String) : Bool :=
  !isUnified f && (f.startsWith "make_" || f == "get_decltype" || f == "get_auto")

/-- position of the operand that becomes `type()`, for the expressions the histories put into expression lists -/
def typIndex (f : String) : Option Nat :=
  if ["make_address", "make_complement", "make_deref", "make_alignof", "make_sizeof", "make_args_cardinality", "make_typeid",
      "make_not", "make_post_increment", "make_post_decrement", "make_pre_increment", "make_pre_decrement", "make_throw",
      "make_unary_minus", "make_unary_plus", "make_expansion", "make_noexcept", "make_block"].contains f then some 1
  else if ["make_cast", "make_const_cast", "make_dynamic_cast", "make_reinterpret_cast", "make_static_cast", "make_phantom_t",
           "make_eclipsis", "make_literal", "make_literal_s", "get_literal"].contains f then some 0
  else if ["make_plus", "make_minus", "make_mul", "make_div", "make_assign", "make_comma", "make_and", "make_or", "make_equal",
           "make_less"].contains f then some 2
  else none

def typOf (f : String) (args : List Arg) : Option Id :=
  (typIndex f).bind fun i => match args[i]? with
    | some (.node t) => some t
    | _ => none

/-- region / scope / product-of-the-scope, allocated together at `b`, `b+1`, `b+2` -/
def regionTriple (tag : String) (args : List Arg) (origin : Origin) (b : Id) : List Rec :=
  [ { tag := tag, args := args, origin := origin, views := [("body", .own)], parts := [("bindings", b + 1)] },
    { tag := "scope", views := [("elements", .own)], parts := [("type", b + 2)] },
    { tag := "product", views := [("elements", .typesOf (b + 1))] } ]

/-- homogeneous region (its body IS its scope) / scope / product -/
def hregionTriple (b : Id) : List Rec :=
  [ { tag := "hregion", views := [("body", .sameAs (b + 1))], parts := [("bindings", b + 1)] },
    { tag := "hscope", views := [("elements", .own)], parts := [("type", b + 2)] },
    { tag := "product", views := [("elements", .typesOf (b + 1))] } ]

/-- The records a composite factory allocates, first the node it returns (`b` = its id). -/
def compose (f : String) (args : List Arg) (b : Id) : Option (List Rec) :=
  let g : Rec := { tag := f, args := args, origin := .generative }
  if f == "make_class" then
    some ({ g with views := [("members", .sameAs (b + 2)), ("bases", .sameAs (b + 5))],
                   parts := [("region", b + 1), ("scope", b + 2), ("bases_region", b + 4)] }
          :: regionTriple "region" [] .part (b + 1) ++ hregionTriple (b + 4))
  else if f == "make_union" || f == "make_namespace" then
    some ({ g with views := [("members", .sameAs (b + 2))], parts := [("region", b + 1), ("scope", b + 2)] }
          :: regionTriple "region" [] .part (b + 1))
  else if f == "make_closure" then
    some ({ g with parts := [("region", b + 1), ("scope", b + 2)] } :: regionTriple "region" [] .part (b + 1))
  else if f == "make_enum" then
    some ({ g with views := [("members", .sameAs (b + 2))], parts := [("region", b + 1), ("scope", b + 2)] }
          :: hregionTriple (b + 1))
  else if f == "make_block" then
    some ({ g with typ := typOf f args, views := [("body", .sameAs (b + 1)), ("handlers", .own)], parts := [("region", b + 1)] }
          :: regionTriple "region" [] .part (b + 1))
  else if f == "make_mapping" || f == "make_lambda" || f == "make_requires" then
    some ({ g with parts := [("parameters", b + 1)] }
          :: { tag := "plist", views := [("elements", .sameAs (b + 3))], parts := [("region", b + 2), ("type", b + 4)] }
          :: hregionTriple (b + 2))
  else if f == "make_where" then
    some ({ g with parts := [("attendant", b + 2)] } :: regionTriple "region" [] .part (b + 1))
  else if f == "make_subregion" then
    some (regionTriple "make_subregion" args .generative b)
  else if f == "make_expr_list" then
    some [ { g with views := [("elements", .own)], parts := [("type", b + 1)] },
           { tag := "product", views := [("elements", .typesOf b)] } ]
  else none

def Arg.valid (s : State) : Arg → Bool
  | .node i => i < s.size
  | .seq l => l.all (· < s.size)
  | .wh _ => false
  | _ => true

/-! ## Operations -/

inductive Res
  | node (i : Id)
  | unit          -- nothing returned
  | error         -- the library raises a logic error
  | bad           -- the op cannot be carried out
deriving DecidableEq, Repr, Inhabited

/-- Allocate `rs`; answer the first of them. -/
def allocate (s : State) (rs : List Rec) : State × Res :=
  let s1 := s.allocMany rs
  if s1.size = s.size + rs.length ∧ rs ≠ [] then (s1, .node s.size) else (s, .bad)

/-- Hash-consing: the node already stored under `k`, else a new record built from the key. -/
def findOrAdd (s : State) (k : Key) (typ : Option Id := none) (mems : List Id := []) (views : List (String × View) := []) :
    State × Res :=
  match s.keys.lookup k with
  | some id => (s, .node id)
  | none =>
    let s1 := s.allocMany [{ tag := k.1, args := k.2, origin := .unified, typ := typ, mems := mems, views := views }]
    if s1.size = s.size + 1 then (s1.addKey k s.size, .node s.size) else (s, .bad)

/-- `findOrAdd` used for an operand that the code interns first (string of an identifier, `void`, `this`). -/
def intern (s : State) (k : Key) : State × Option Id :=
  match findOrAdd s k with
  | (s1, .node i) => (s1, some i)
  | _ => (s, none)

def thisHex : String := "74686973"
/-- `"C++"`, the spelling of the natural language linkage (`impl::cxx_link`, src/impl.cxx:155) -/
def cxxHex : String := "432b2b"

/-- the spelling a linkage / calling-convention record was requested with -/
def spellingOf (s : State) (i : Id) : Option String :=
  match (s.get i).args with
  | [.str w] => some w
  | _ => none

/-- the VALUE of a transfer record: (spelling of its linkage, spelling of its convention); `Transfer_from_linkage` pairs its
    linkage with the natural convention (spelled ""), `Transfer_from_cc` the C++ linkage with its convention
    (include/ipr/impl:165-182, src/impl.cxx:215-217) -/
def transferValue (s : State) (x : Id) : Option (String × String) :=
  let r := s.get x
  match r.tag, r.args with
  | "get_transfer_from_linkage", [.node l] => (spellingOf s l).map fun a => (a, "")
  | "get_transfer_from_convention", [.node c] => (spellingOf s c).map fun b => (cxxHex, b)
  | "get_transfer", [.node l, .node c] => (spellingOf s l).bind fun a => (spellingOf s c).map fun b => (a, b)
  | _, _ => none

/-- `t == impl::cxx_transfer()` (include/ipr/interface:157-160: linkage and convention compared by VALUE) -/
def isNaturalTransfer (s : State) (x : Id) : Bool := transferValue s x == some (cxxHex, "")

/-- What a unified request is looked up under, after interning what the code interns on the way
    (`none`: the call raises; the state returned contains the interned operands). -/
def resolve (s : State) (f : String) (args : List Arg) : State × Option Key :=
  match f, args with
  | "get_identifier", [.str w] =>
    match intern s ("get_string", [.str w]) with
    | (s1, some sid) => (s1, some ("get_identifier", [.node sid]))
    | _ => (s, none)
  | "get_identifier_s", [.node sid] => (s, some ("get_identifier", [.node sid]))
  | "get_operator", [.str w] =>
    match intern s ("get_string", [.str w]) with
    | (s1, some sid) => (s1, some ("get_operator", [.node sid]))
    | _ => (s, none)
  | "get_qualified", [.num q, .node t] =>
    if q = 0 then (s, none)
    else
      let r := s.get t
      match r.tag, r.args with
      | "get_qualified", [.num q1, .node t1] => (s, some ("get_qualified", [.num (q ||| q1), .node t1]))
      | _, _ => (s, some ("get_qualified", [.num q, .node t]))
  | "get_product", [.wh i] =>
    match s.whs[i]? with
    | some (some ids) => (s, some ("get_product", [.seq ids]))
    | _ => (s, none)
  | "get_sum", [.wh i] =>
    match s.whs[i]? with
    | some (some ids) => (s, some ("get_sum", [.seq ids]))
    | _ => (s, none)
  | "get_label", [.node i] =>
    match intern s ("k", [.str "void"]) with
    | (s1, some v) => (s1, some ("get_symbol", [.node i, .node v]))
    | _ => (s, none)
  | "get_this", [.node t] =>
    match intern s ("get_string", [.str thisHex]) with
    | (s1, some sid) =>
      match intern s1 ("get_identifier", [.node sid]) with
      | (s2, some iid) => (s2, some ("get_symbol", [.node iid, .node t]))
      | _ => (s, none)
    | _ => (s, none)
  | "make_literal", [.node t, .str w] =>
    match intern s ("get_string", [.str w]) with
    | (s1, some sid) => (s1, some ("make_literal", [.node t, .node sid]))
    | _ => (s, none)
  | "get_literal", [.node t, .str w] =>
    match intern s ("get_string", [.str w]) with
    | (s1, some sid) => (s1, some ("make_literal", [.node t, .node sid]))
    | _ => (s, none)
  | "make_literal_s", [.node t, .node sid] => (s, some ("make_literal", [.node t, .node sid]))
  | "get_template_id", a => (s, some ("make_template_id", a))
  | "get_transfer", [.node l, .node c] =>
    if spellingOf s l = some cxxHex then (s, some ("get_transfer_from_convention", [.node c]))
    else if spellingOf s c = some "" then (s, some ("get_transfer_from_linkage", [.node l]))
    else (s, some ("get_transfer", [.node l, .node c]))
  | "get_function_x", [.node p, .node t, .node x] =>
    if isNaturalTransfer s x then (s, some ("get_function", [.node p, .node t]))
    else (s, some ("get_function_x", [.node p, .node t, .node x]))
  | "get_as_type_x", [.node e, .node x] =>
    if isNaturalTransfer s x then (s, some ("get_as_type", [.node e]))
    else (s, some ("get_as_type_x", [.node e, .node x]))
  | f, a => (s, some (f, a))

def keyMems (k : Key) : List Id :=
  match k.2 with
  | [.seq ids] => ids
  | _ => []

def keyViews (k : Key) : List (String × View) :=
  if k.1 == "get_product" || k.1 == "get_sum" then [("elements", .own)] else []

def unify (s : State) (f : String) (args : List Arg) : State × Res :=
  match resolve s f args with
  | (s1, some k) => findOrAdd s1 k (typOf k.1 k.2) (keyMems k) (keyViews k)
  | (_, none) => (s, .error)

/-- A factory call. -/
def mkNode (s : State) (f : String) (args : List Arg) : State × Res :=
  if isUnified f then
    if args.all (fun a => a.valid s || (match a with
                                         | .wh i => (match s.whs[i]? with | some (some _) => true | _ => false)
                                         | _ => false)) then unify s f args else (s, .bad)
  else if isGenerative f ∧ args.all (·.valid s) then
    match compose f args s.size with
    | some rs => allocate s rs
    | none => allocate s [{ tag := f, args := args, origin := .generative, typ := typOf f args }]
  else (s, .bad)

inductive Op
  | mk (f : String) (args : List Arg)
  | const (name : String)
  | root
  | unit
  | part (x : Id) (acc : String)
  | decl (c : Id) (kind : String) (n t : Id)
  | param (pl n t : Id)
  | mparam (m n t : Id)
  | enumerator (e n : Id)
  | base (c t : Id)
  | handler (b n t : Id)
  | push (x e : Id)
  | stmt (b e : Id)
  | set (x : Id) (slot : String) (v : Id)
  | whNew
  | whPush (w : Nat) (t : Id)
  | whDrop (w : Nat)
  | burst
  | lookup (sc n t : Id)
  | bad
deriving Repr, Inhabited

/-- the scope record that declarations into container `c` go to -/
def scopeOf (s : State) (c : Id) : Option Id :=
  let r := s.get c
  if r.tag == "scope" then some c
  else if r.tag == "region" || r.tag == "make_subregion" || r.tag == "root" then r.parts.lookup "bindings"
  else if r.tag == "make_class" || r.tag == "make_union" || r.tag == "make_namespace" || r.tag == "make_closure" then
    r.parts.lookup "scope"
  else none

/-- the first declaration of the same name and type in the scope -/
def masterOf (s : State) (sc : Id) (n t : Id) : Option Id :=
  (s.get sc).mems.find? fun d => (s.get d).args == [.node n, .node t]

/-- `homogeneous_scope::operator[](name)` then `singleton_overload::operator[](type)`: the FIRST member whose name is `n`
    (linear search, include/ipr/impl:662-671), answered when its type is `t` (include/ipr/impl:596-601).  The name of a
    parameter / enumerator is its first operand, its type is `typ`. -/
def lookupHom (s : State) (sc n t : Id) : Option Id :=
  match (s.get sc).mems.find? fun d => (s.get d).args.head? == some (.node n) with
  | some d => if (s.get d).typ == some t then some d else none
  | none => none

/-- what `scope[n][t]` answers for the scope record `sc` (`none`: not a scope record) -/
def lookupIn (s : State) (sc n t : Id) : Option (Option Id) :=
  if (s.get sc).tag == "hscope" then some (lookupHom s sc n t)
  else if (s.get sc).tag == "scope" then some (masterOf s sc n t)
  else none

def declKinds : List String := ["var", "field", "bitfield", "typedecl", "fundecl", "primary_template", "secondary_template"]

/-- a member that cannot be redeclared: its decl-set is itself -/
def uniqueDecl (tag : String) (args : List Arg) (typ : Option Id) (self : Id) (parts : List (String × Id) := []) : Rec :=
  { tag := tag, args := args, origin := .generative, typ := typ, mems := [self], views := [("decl_set", .own)], parts := parts }

/-- allocate `rs` (the member first) and append the member to the member list of `container` -/
def addMember (s : State) (container : Id) (rs : List Rec) : State × Res :=
  if container < s.size then
    match allocate s rs with
    | (s1, .node d) => (s1.appendMem container d, .node d)
    | _ => (s, .bad)
  else (s, .bad)

def step (s : State) : Op → State × Res
  | .mk f args => mkNode s f args
  | .const name => findOrAdd s ("k", [.str name])
  | .root =>
    match s.keys.lookup ("root", []) with
    | some id => (s, .node id)
    | none =>
      match allocate s (regionTriple "root" [] .unified s.size) with
      | (s1, .node id) => (s1.addKey ("root", []) id, .node id)
      | _ => (s, .bad)
  | .unit => allocate s (regionTriple "root" [.num 1] .generative s.size)
  | .part x acc =>
    if x < s.size then
      match (s.get x).parts.lookup acc with
      | some p => if p < s.size then (s, .node p) else (s, .bad)
      | none => (s, .bad)
    else (s, .bad)
  | .decl c kind n t =>
    if c < s.size ∧ n < s.size ∧ t < s.size ∧ declKinds.contains kind then
      match scopeOf s c with
      | some sc =>
        if sc < s.size then
          let d := s.size
          match masterOf s sc n t with
          | some m =>
            if m < s.size then
              match allocate s [{ tag := "decl:" ++ kind, args := [.node n, .node t], origin := .generative, typ := some t,
                                  views := [("decl_set", .sameAs m)] }] with
              | (s1, .node _) => ((s1.appendMem m d).appendMem sc d, .node d)
              | _ => (s, .bad)
            else (s, .bad)
          | none =>
            match allocate s [{ tag := "decl:" ++ kind, args := [.node n, .node t], origin := .generative, typ := some t,
                                mems := [d], views := [("decl_set", .own)] }] with
            | (s1, .node _) => (s1.appendMem sc d, .node d)
            | _ => (s, .bad)
        else (s, .bad)
      | none => (s, .bad)
    else (s, .bad)
  | .param pl n t =>
    if pl < s.size ∧ n < s.size ∧ t < s.size ∧ (s.get pl).tag = "plist" then
      match (s.get pl).views.lookup "elements" with
      | some (.sameAs sc) => addMember s sc [uniqueDecl "param" [.node n, .node t] (some t) s.size]
      | _ => (s, .bad)
    else (s, .bad)
  | .mparam m n t =>
    if m < s.size ∧ n < s.size ∧ t < s.size ∧ (s.get m).tag = "make_mapping" then
      match (s.get m).parts.lookup "parameters" with
      | some pl =>
        match (s.get pl).views.lookup "elements" with
        | some (.sameAs sc) => addMember s sc [uniqueDecl "param" [.node n, .node t] (some t) s.size]
        | _ => (s, .bad)
      | none => (s, .bad)
    else (s, .bad)
  | .enumerator e n =>
    if e < s.size ∧ n < s.size ∧ (s.get e).tag = "make_enum" then
      match (s.get e).parts.lookup "scope" with
      | some sc => addMember s sc [uniqueDecl "enumerator" [.node n] (some e) s.size]
      | none => (s, .bad)
    else (s, .bad)
  | .base c t =>
    if c < s.size ∧ t < s.size ∧ (s.get c).tag = "make_class" then
      match (s.get c).views.lookup "bases", (s.get c).parts.lookup "bases_region" with
      | some (.sameAs sc), some br => addMember s sc [uniqueDecl "base" [.node t] (some t) s.size [("home_region", br)]]
      | _, _ => (s, .bad)
    else (s, .bad)
  | .handler b n t =>
    if b < s.size ∧ n < s.size ∧ t < s.size ∧ (s.get b).tag = "make_block" then
      let h := s.size
      addMember s b
        ({ tag := "handler", args := [.node n, .node t], origin := .generative, parts := [("exception", h + 1), ("body", h + 2)] }
         :: uniqueDecl "eh_parameter" [.node n, .node t] (some t) (h + 1)
         :: { tag := "handler_block", views := [("body", .sameAs (h + 3)), ("handlers", .own)], parts := [("region", h + 3)] }
         :: regionTriple "region" [] .part (h + 3))
    else (s, .bad)
  | .push x e =>
    if x < s.size ∧ e < s.size ∧ (s.get x).tag = "make_expr_list" then (s.appendMem x e, .unit) else (s, .bad)
  | .stmt b e =>
    if b < s.size ∧ e < s.size ∧ ((s.get b).tag = "make_block" ∨ (s.get b).tag = "handler_block") then
      match (s.get b).parts.lookup "region" with
      | some rg => if rg < s.size then (s.appendMem rg e, .unit) else (s, .bad)
      | none => (s, .bad)
    else (s, .bad)
  | .set x slot v =>
    if x < s.size ∧ v < s.size ∧ (s.get x).links.lookup slot = none then (s.setLink x slot v, .unit) else (s, .bad)
  | .whNew => ({ s with whs := s.whs ++ [some []] }, .unit)
  | .whPush w t =>
    match s.whs[w]? with
    | some (some ids) => if t < s.size then ({ s with whs := s.whs.set w (some (ids ++ [t])) }, .unit) else (s, .bad)
    | _ => (s, .bad)
  | .whDrop w =>
    match s.whs[w]? with
    | some (some _) => ({ s with whs := s.whs.set w none }, .unit)
    | _ => (s, .bad)
  | .burst => (s, .unit)
  | .lookup sc n t =>
    if sc < s.size ∧ n < s.size ∧ t < s.size then
      match lookupIn s sc n t with
      | some (some d) => if d < s.size then (s, .node d) else (s, .bad)
      | some none => (s, .unit)
      | none => (s, .bad)
    else (s, .bad)
  | .bad => (s, .bad)

def run (ops : List Op) : State := ops.foldl (fun s op => (step s op).1) {}

/-- the answers of a history, in order -/
def answers : State → List Op → List Res
  | _, [] => []
  | s, op :: ops => (step s op).2 :: answers (step s op).1 ops

/-! ## What the driver prints about a change (executable form of `¬ (old = new)` split by kind) -/

def showElem (name : Id → String) : Option Id → String
  | some i => name i
  | none => "?"

/-- tokens describing how `new` differs from `old`: `+a,b` a sequence grew by that suffix, `link` links were gained,
    `other` anything else -/
def changeTokens (name : Id → String) (old new : Obs) : List String :=
  let seqTok : List String := (old.seqs.zip new.seqs).filterMap fun (p, q) =>
    if p = q then none
    else if p.1 = q.1 ∧ p.2.isPrefixOf q.2 then some ("+" ++ ",".intercalate ((q.2.drop p.2.length).map (showElem name)))
    else some "other"
  let linkTok : List String :=
    if old.links = new.links then []
    else if old.links.all (fun (k, v) => new.links.lookup k == some v) then ["link"] else ["other"]
  let restTok : List String :=
    if old.tag = new.tag ∧ old.args = new.args ∧ old.origin = new.origin ∧ old.typ = new.typ ∧ old.parts = new.parts ∧
       old.seqs.length = new.seqs.length then [] else ["other"]
  seqTok ++ linkTok ++ restTok

end Ipr.Stable
