/-
  Model of the process-wide constants of a Lexicon (C13).

  * `src/impl.cxx:220-275`, `src/builtin.def`   the built-in types are a `constexpr` array `builtins[]` of
    `symbolic_type<std_identifier>` (one per row of builtin.def); `false/true/default/delete` are `constexpr Symbol`s,
    `nullptr` a `constexpr Nullptr` owning its own `Decltype`; the two standard linkages are `constexpr Linkage`s.
  * `src/impl.cxx:2351-2352, 2473-2504`         every `Lexicon` accessor returns a reference into those statics.
  * `src/impl.cxx:1196-1204`  `get_as_type(const Identifier& id)`: scan `builtins[]` in order, return the first whose
    `name()` is physically `id`; otherwise unify an extended type.
  * `src/impl.cxx:1739-1756`  `get_linkage`: the words "C" / "C++" (or their reserved `String` nodes) give the constants.
  * `src/impl.cxx:1779-1784`  `get_label`: the reserved identifier `default` gives `default_value()`.
  * `src/impl.cxx:1189-1194`  `get_decltype(nullptr_value())` gives `nullptr_value().type()`.

  Nodes are named by canonical numbers (0 = no node); one column per Lexicon instance observed in the same process.
-/
namespace Ipr.Const

/-- `some x` iff the list is non-empty and every entry is `x` (every Lexicon instance gave the same answer). -/
def const? {α} [DecidableEq α] : List α → Option α
  | [] => none
  | x :: xs => if xs.all (· = x) then some x else none

/-- One built-in type accessor, observed on every Lexicon instance. -/
structure TypeRow where
  accessor : String
  ids : List Nat                -- the node returned
  cats : List Nat               -- its `Category_code`
  nameIds : List Nat            -- `name()`
  nameCats : List Nat
  spellings : List String       -- characters of `name()` (an `Identifier`)
  exprIds : List Nat            -- `As_type::expr()`; 0 when the node is not an `As_type`
  typeIds : List Nat            -- `type()`
  natural : List Bool           -- `transfer()` is `impl::cxx_transfer()`: C++ linkage (the `cxx_linkage()` node), empty convention
  asked : String                -- the spelling sent through the routes below
  viaWord : List Nat            -- `get_as_type(get_identifier(word))`
  viaString : List Nat          -- `get_as_type(get_identifier(get_string(word)))`
  identWord : List Nat          -- `get_identifier(word)`
  identString : List Nat        -- `get_identifier(get_string(word))`
  deriving Repr

/-- One symbolic constant. -/
structure SymRow where
  accessor : String
  ids : List Nat
  cats : List Nat
  nameIds : List Nat
  nameCats : List Nat
  spellings : List String
  typeIds : List Nat
  typeCats : List Nat
  typeOperandIds : List Nat     -- operand of the type when it is a `Decltype`, else 0
  typeTypeIds : List Nat        -- `type().type()`
  asked : String
  identWord : List Nat
  identString : List Nat
  labelWord : List Nat          -- `get_label(get_identifier(word))`
  labelString : List Nat
  deriving Repr

/-- One standard linkage. -/
structure LinkRow where
  accessor : String
  ids : List Nat
  spellings : List String       -- `language().what()`
  asked : String
  viaWord : List Nat            -- `get_linkage(word)`
  viaString : List Nat          -- `get_linkage(get_string(word))`
  deriving Repr

/-- `type_factory::get_as_type(const Identifier&)` restricted to the built-ins: first row whose name is the identifier.
    The table lists `(name node, type node)` in `builtins[]` order. -/
def asTypeOfName (tbl : List (Nat × Nat)) (nameId : Nat) : Option Nat :=
  (tbl.find? (·.1 == nameId)).map (·.2)

end Ipr.Const
