import IprModel.RBTree
/-
  Pointer-level model of `ipr::util::rb_tree` (include/ipr/utility:88-404), written statement by statement.

  `IprModel/RBTree.lean` is a persistent tree with a zipper: it has no parent pointers.  Here the nodes live in a
  store of cells `{ key, color, left, right, parent }` addressed by natural numbers (`Option Nat` is a `Node*`,
  `none` is `nullptr`), the tree object is `{ root, count }`, and every assignment of the C++ is one store update.
  `IprProofs/RBLinked*.lean` prove that this model refines the zipper model, so the parent links are consistent
  after every insertion.

  Undefined behaviour is explicit: every function returns `Option`; `none` means that the C++ would dereference
  a null pointer (`p->…` with `p == nullptr`) or that a loop ran out of the fuel it was given.  The refinement
  theorems show that `none` is never produced on a store that represents a tree.

  Loops: `fixup_insert`'s `while`, the two descents and `find` are recursive functions over an explicit fuel
  argument (one unit per evaluation of the loop condition).  The callers hand out `count + 1` units (`count + 2`
  where `count` has not been bumped yet); `fixupLoop_spec` (IprProofs/RBLinkedFixup.lean: path length + 2 units
  are enough), `ownLoop_spec` (RBLinkedInsert.lean), `chainLoop_spec` (RBLinkedChain.lean) and `findLoop_own`
  (RBLinkedRefine.lean: height + 1 units are enough) together with `height <= size <= count` (the invariant
  `Inv`) prove that this always suffices.

  Comparator convention, checked against the source: `ordering = comp(where->data, key)` and the walk goes to
  `left()` when `ordering < 0`, to `right()` when `ordering > 0` (utility:381-389, 263-271, 350-354) — the same
  as `Tree.descend` / `Tree.find` of the zipper model.

  No Mathlib import: this file is compiled into the native model driver.
-/
namespace Ipr.RB.Linked

/-- `rb_tree::link<Node>` (utility:95-104) plus the payload: `arm[Left]`, `arm[Right]`, `arm[Parent]`, `color`. -/
structure Cell (α : Type) where
  key : α
  color : Color
  left : Option Nat
  right : Option Nat
  parent : Option Nat

/-- A never-written cell: `Node* arm[3] { }`, `Color color = Color::Red` (utility:102-103). -/
instance {α : Type} [Inhabited α] : Inhabited (Cell α) := ⟨⟨default, .red, none, none, none⟩⟩

/-- The heap: cell number `a` is the node at address `a`. -/
abbrev Mem (α : Type) := Array (Cell α)

variable {α : Type} [Inhabited α]

/-- `*a` -/
def rd (m : Mem α) (a : Nat) : Cell α := m.getD a default

/-- `*a = c` (the array is grown with never-written cells when `a` lies beyond its end). -/
def wr (m : Mem α) (a : Nat) (c : Cell α) : Mem α :=
  if a < m.size then m.setIfInBounds a c else (m ++ Array.replicate (a - m.size) default).push c

/-- `core<Node>` (utility:107-124): `root`, `count`; `mem` is the heap, `next` the next address the allocator hands out. -/
structure Store (α : Type) where
  mem : Mem α := #[]
  root : Option Nat := none
  count : Nat := 0
  next : Nat := 0

namespace Store

/-- `a->left()`, `a->right()`, `a->parent()`, `a->color` for a non-null `a`. -/
def left (s : Store α) (a : Nat) : Option Nat := (rd s.mem a).left
def right (s : Store α) (a : Nat) : Option Nat := (rd s.mem a).right
def parent (s : Store α) (a : Nat) : Option Nat := (rd s.mem a).parent
def color (s : Store α) (a : Nat) : Color := (rd s.mem a).color
def key (s : Store α) (a : Nat) : α := (rd s.mem a).key

/-- `a->left() = v` etc. -/
def setLeft (s : Store α) (a : Nat) (v : Option Nat) : Store α :=
  { s with mem := wr s.mem a { rd s.mem a with left := v } }
def setRight (s : Store α) (a : Nat) (v : Option Nat) : Store α :=
  { s with mem := wr s.mem a { rd s.mem a with right := v } }
def setParent (s : Store α) (a : Nat) (v : Option Nat) : Store α :=
  { s with mem := wr s.mem a { rd s.mem a with parent := v } }
def setColor (s : Store α) (a : Nat) (v : Color) : Store α :=
  { s with mem := wr s.mem a { rd s.mem a with color := v } }

/-- `core<Node>::rotate_left(Node* x)`, utility:126-149. -/
def rotateLeft (s : Store α) (x : Nat) : Option (Store α) := do
  let y ← s.right x                                   -- 130  Node* y = x->right();
  let s := s.setRight x (s.left y)                    -- 132  x->right() = y->left();
  let s ← match s.left y with                         -- 133  if (y->left() != nullptr)
    | some yl => pure (s.setParent yl (some x))       -- 134     y->left()->parent() = x;
    | none => pure s
  let s := s.setParent y (s.parent x)                 -- 137  y->parent() = x->parent();
  let s := match s.parent x with                      -- 138  if (x->parent() == nullptr)
    | none => { s with root := some y }               -- 140     this->root = y;
    | some xp =>
      if s.left xp = some x then                      -- 141  else if (x->parent()->left() == x)
        s.setLeft xp (some y)                         -- 142     x->parent()->left() = y;
      else
        s.setRight xp (some y)                        -- 144     x->parent()->right() = y;
  let s := s.setLeft y (some x)                       -- 147  y->left() = x;
  let s := s.setParent x (some y)                     -- 148  x->parent() = y;
  pure s

/-- `core<Node>::rotate_right(Node* x)`, utility:151-171. -/
def rotateRight (s : Store α) (x : Nat) : Option (Store α) := do
  let y ← s.left x                                    -- 155  Node* y = x->left();
  let s := s.setLeft x (s.right y)                    -- 157  x->left() = y->right();
  let s ← match s.right y with                        -- 158  if (y->right() != nullptr)
    | some yr => pure (s.setParent yr (some x))       -- 159     y->right()->parent() = x;
    | none => pure s
  let s := s.setParent y (s.parent x)                 -- 161  y->parent() = x->parent();
  let s := match s.parent x with                      -- 162  if (x->parent() == nullptr)
    | none => { s with root := some y }               -- 163     this->root = y;
    | some xp =>
      if s.right xp = some x then                     -- 164  else if (x->parent()->right() == x)
        s.setRight xp (some y)                        -- 165     x->parent()->right() = y;
      else
        s.setLeft xp (some y)                         -- 167     x->parent()->left() = y;
  let s := s.setRight y (some x)                      -- 169  y->right() = x;
  let s := s.setParent x (some y)                     -- 170  x->parent() = y;
  pure s

/-- utility:214 `root->color = Color::Black;` (after the loop of `fixup_insert`). -/
def blackenRoot (s : Store α) : Option (Store α) := do
  let r ← s.root
  pure (s.setColor r .black)

/-- `y != nullptr and y->color == Color::Red` (utility:180, 196). -/
def isRedPtr (s : Store α) : Option Nat → Bool
  | none => false
  | some y => s.color y = .red

/-- `core<Node>::fixup_insert(Node* z)`, utility:173-215; one unit of fuel per iteration of the `while`. -/
def fixupLoop : Nat → Store α → Nat → Option (Store α)
  | 0, _, _ => none
  | fuel + 1, s, z =>
    -- 177  while (z != root and z->parent()->color == Color::Red)
    if s.root = some z then s.blackenRoot
    else do
      let zp ← s.parent z
      if s.color zp ≠ .red then s.blackenRoot
      else do
        let zpp ← s.parent zp
        if some zp = s.left zpp then                      -- 178  if (z->parent() == z->parent()->parent()->left())
          let y := s.right zpp                            -- 179     Node* y = z->parent()->parent()->right();
          if s.isRedPtr y then do                         -- 180     if (y != nullptr and y->color == Color::Red)
            let zp ← s.parent z
            let s := s.setColor zp .black                 -- 181        z->parent()->color = Color::Black;
            let y ← y
            let s := s.setColor y .black                  -- 182        y->color = Color::Black;
            let zp ← s.parent z
            let zpp ← s.parent zp
            let s := s.setColor zpp .red                  -- 183        z->parent()->parent()->color = Color::Red;
            let zp ← s.parent z
            let z ← s.parent zp                           -- 184        z = z->parent()->parent();
            fixupLoop fuel s z
          else do
            let zp ← s.parent z
            let (s, z) ←
              if s.right zp = some z then do              -- 186        if (z->parent()->right() == z)
                let z := zp                               -- 187           z = z->parent();
                let s ← s.rotateLeft z                    -- 188           rotate_left(z);
                pure (s, z)
              else pure (s, z)
            let zp ← s.parent z
            let s := s.setColor zp .black                 -- 190        z->parent()->color = Color::Black;
            let zp ← s.parent z
            let zpp ← s.parent zp
            let s := s.setColor zpp .red                  -- 191        z->parent()->parent()->color = Color::Red;
            let zp ← s.parent z
            let zpp ← s.parent zp
            let s ← s.rotateRight zpp                     -- 192        rotate_right(z->parent()->parent());
            fixupLoop fuel s z
        else
          let y := s.left zpp                             -- 195     Node* y = z->parent()->parent()->left();
          if s.isRedPtr y then do                         -- 196     if (y != nullptr and y->color == Color::Red)
            let zp ← s.parent z
            let s := s.setColor zp .black                 -- 197        z->parent()->color = Color::Black;
            let y ← y
            let s := s.setColor y .black                  -- 198        y->color = Color::Black;
            let zp ← s.parent z
            let zpp ← s.parent zp
            let s := s.setColor zpp .red                  -- 199        z->parent()->parent()->color = Color::Red;
            let zp ← s.parent z
            let z ← s.parent zp                           -- 200        z = z->parent()->parent();
            fixupLoop fuel s z
          else do
            let zp ← s.parent z
            let (s, z) ←
              if s.left zp = some z then do               -- 202        if (z->parent()->left() == z)
                let z := zp                               -- 203           z = z->parent();
                let s ← s.rotateRight z                   -- 204           rotate_right(z);
                pure (s, z)
              else pure (s, z)
            let zp ← s.parent z
            let s := s.setColor zp .black                 -- 206        z->parent()->color = Color::Black;
            let zp ← s.parent z
            let zpp ← s.parent zp
            let s := s.setColor zpp .red                  -- 207        z->parent()->parent()->color = Color::Red;
            let zp ← s.parent z
            let zpp ← s.parent zp
            let s ← s.rotateLeft zpp                      -- 208        rotate_left(z->parent()->parent());
            fixupLoop fuel s z

/-- `container::make_node` (utility:317-325): a fresh address, the payload, three null arms; the colour is
    whatever the raw memory held (it is assigned by the caller before it is read). -/
def makeNode (s : Store α) (k : α) : Store α × Nat :=
  let n := s.next
  ({ s with mem := wr s.mem n { rd s.mem n with key := k, left := none, right := none, parent := none },
            next := s.next + 1 }, n)

/-- A `Node**`: the address of `root`, of a left arm or of a right arm. -/
inductive Slot
  | root
  | left (a : Nat)
  | right (a : Nat)

/-- `*slot` -/
def deref (s : Store α) : Slot → Option Nat
  | .root => s.root
  | .left a => s.left a
  | .right a => s.right a

/-- `*slot = v` -/
def assign (s : Store α) (slot : Slot) (v : Option Nat) : Store α :=
  match slot with
  | .root => { s with root := v }
  | .left a => s.setLeft a v
  | .right a => s.setRight a v

/-- The `for` loop of `container<T>::insert` (utility:380-392); state `slot, parent, where, found`.
    Returns the state at loop exit. -/
def ownLoop (cmp : α → α → Int) (key : α) :
    Nat → Store α → Slot → Option Nat → Option Nat → Bool → Option (Slot × Option Nat × Option Nat)
  | 0, _, _, _, _, _ => none
  | fuel + 1, s, slot, parent, where_, found =>
    -- 380  for (where = this->root; where != nullptr and not found; where = *slot)
    match where_, found with
    | some w, false =>
      let ordering := cmp (s.key w) key                  -- 381  auto ordering = comp(where->data, key);
      if ordering < 0 then                               -- 382
        let parent := some w                             -- 383     parent = where;
        let slot := Slot.left w                          -- 384     slot = &where->left();
        ownLoop cmp key fuel s slot parent (s.deref slot) false
      else if ordering > 0 then                          -- 386
        let parent := some w                             -- 387     parent = where;
        let slot := Slot.right w                         -- 388     slot = &where->right();
        ownLoop cmp key fuel s slot parent (s.deref slot) false
      else                                               -- 391     found = true;
        ownLoop cmp key fuel s slot parent (s.deref slot) true
    | _, _ => some (slot, parent, where_)

/-- `container<T>::insert(const Key&, Comp)`, utility:362-404.  Returns the store, the address of the node
    whose `data` is returned, and whether that node was created by this call. -/
def insertOwn (cmp : α → α → Int) (s : Store α) (key : α) : Option (Store α × Nat × Bool) :=
  match s.root with
  | none =>                                              -- 367  if (this->root == nullptr)
    let (s, n) := s.makeNode key
    let s := { s with root := some n }                   -- 369     this->root = make_node(key);
    do
      let r ← s.root
      let s := s.setColor r .black                       -- 370     this->root->color = Color::Black;
      let s := { s with count := s.count + 1 }           -- 371     ++this->count;
      let r ← s.root
      pure (s, r, true)                                  -- 372     return &this->root->data;
  | some _ => do
    -- 375-378  slot = &this->root; parent = nullptr; where = nullptr; found = false;
    let (slot, parent, where_) ← ownLoop cmp key (s.count + 1) s Slot.root none s.root false
    match where_ with
    | none =>                                            -- 394  if (where == nullptr)
      let (s, n) := s.makeNode key
      let s := s.assign slot (some n)                    -- 396     where = *slot = make_node(key);
      let where_ := n
      let s := s.setParent where_ parent                 -- 397     where->parent() = parent;
      let s := s.setColor where_ .red                    -- 398     where->color = Color::Red;
      let s := { s with count := s.count + 1 }           -- 399     ++this->count;
      let s ← fixupLoop (s.count + 1) s where_           -- 400     this->fixup_insert(where);
      pure (s, where_, true)
    | some w => pure (s, w, false)                       -- 403  return &where->data;

/-- The caller of `chain<Node>::insert` supplies a node it has just constructed: a fresh address, the key,
    `arm[3] { }` and `Color::Red` by the default member initialisers (utility:102-103). -/
def newLink (s : Store α) (k : α) : Store α × Nat :=
  let n := s.next
  ({ s with mem := wr s.mem n ⟨k, .red, none, none, none⟩, next := s.next + 1 }, n)

/-- The `while` loop of `chain<Node>::insert` (utility:262-274); state `slot, up, found`. -/
def chainLoop (cmp : α → α → Int) (key : α) :
    Nat → Store α → Slot → Option Nat → Bool → Option (Slot × Option Nat)
  | 0, _, _, _, _ => none
  | fuel + 1, s, slot, up, found =>
    -- 262  while (not found and *slot != nullptr)
    match found, s.deref slot with
    | false, some d =>
      let ordering := cmp (s.key d) key                  -- 263  auto ordering = comp(**slot, *z);
      if ordering < 0 then                               -- 264
        let up := some d                                 -- 265     up = *slot;   (the value just compared)
        chainLoop cmp key fuel s (Slot.left d) up false  -- 266     slot = &up->left();
      else if ordering > 0 then                          -- 268
        let up := some d                                 -- 269     up = *slot;
        chainLoop cmp key fuel s (Slot.right d) up false -- 270     slot = &up->right();
      else                                               -- 273     found = true;
        chainLoop cmp key fuel s slot up true
    | _, _ => some (slot, up)

/-- `chain<Node>::insert(Node* z, Comp)`, utility:253-291, applied to a freshly constructed node holding `key`.
    Returns the store and the address `z` (the function returns its argument). -/
def insertChain (cmp : α → α → Int) (s : Store α) (key : α) : Option (Store α × Nat) := do
  let (s, z) := s.newLink key
  -- 258-261  slot = &this->root; up = nullptr; found = false;
  let (slot, up) ← chainLoop cmp key (s.count + 1) s Slot.root none false
  let s ←
    if s.root = none then                                -- 276  if (this->root == nullptr)
      let s := { s with root := some z }                 -- 278     this->root = z;
      pure (s.setColor z .black)                         -- 279     z->color = Color::Black;
    else if s.deref slot = none then                     -- 281  else if (*slot == nullptr)
      let s := s.assign slot (some z)                    -- 283     *slot = z;
      let s := s.setParent z up                          -- 284     z->parent() = up;
      let s := s.setColor z .red                         -- 285     z->color = Color::Red;
      s.fixupLoop (s.count + 2) z                        -- 286     this->fixup_insert(z);
    else pure s
  let s := { s with count := s.count + 1 }               -- 289  ++this->count;
  pure (s, z)                                            -- 290  return z;

/-- `chain<Node>::insert(Node* z, Comp)`, utility:253-291, applied to a node object `z` that the caller has handed over
    BEFORE (an intrusive container does not own its nodes: nothing stops a client from offering the same object twice).
    Nothing is constructed: the cell at `z` is whatever the earlier insertion made of it, links included.  The statements
    are those of `insertChain`; the key compared is the one stored in `z`.  On a store that represents a search tree
    containing `z`, the descent stops at an element equal to `*z` (`found`), neither branch of 276/281 is taken, and only
    `count` moves — the driver prints what this function computes, so a re-offered node that disturbs the real tree
    (links of `z` written before the descent has decided) shows as a difference. -/
def insertChainAt (cmp : α → α → Int) (s : Store α) (z : Nat) : Option (Store α × Nat) := do
  let key := s.key z
  -- 258-261  slot = &this->root; up = nullptr; found = false;
  let (slot, up) ← chainLoop cmp key (s.count + 1) s Slot.root none false
  let s ←
    if s.root = none then                                -- 276  if (this->root == nullptr)
      let s := { s with root := some z }                 -- 278     this->root = z;
      pure (s.setColor z .black)                         -- 279     z->color = Color::Black;
    else if s.deref slot = none then                     -- 281  else if (*slot == nullptr)
      let s := s.assign slot (some z)                    -- 283     *slot = z;
      let s := s.setParent z up                          -- 284     z->parent() = up;
      let s := s.setColor z .red                         -- 285     z->color = Color::Red;
      s.fixupLoop (s.count + 2) z                        -- 286     this->fixup_insert(z);
    else pure s
  let s := { s with count := s.count + 1 }               -- 289  ++this->count;
  pure (s, z)                                            -- 290  return z;

/-- `container::find` (utility:344-360) / `chain::find` (utility:233-251): walk down from the root. -/
def findLoop (cmp : α → α → Int) (key : α) : Nat → Store α → Option Nat → Option (Option Nat)
  | 0, _, _ => none
  | fuel + 1, s, x =>
    match x with
    | none => some none                                  -- 359  return nullptr;
    | some x =>
      let ordering := cmp (s.key x) key                  -- 350  auto ordering = comp(x->data, key);
      if ordering < 0 then findLoop cmp key fuel s (s.left x)        -- 352  x = x->left();
      else if ordering > 0 then findLoop cmp key fuel s (s.right x)  -- 354  x = x->right();
      else some (some x)                                 -- 356  return &x->data;

/-- `find`: the address of the node found, if any. -/
def find (cmp : α → α → Int) (s : Store α) (key : α) : Option (Option Nat) :=
  findLoop cmp key (s.count + 1) s s.root

/-! ### Reading a store back (used by the driver to print what the store holds) -/

/-- The shape reachable from `x` through `left`/`right`, at most `fuel` levels deep. -/
def toTree : Nat → Store α → Option Nat → Tree α
  | 0, _, _ => .nil
  | _, _, none => .nil
  | fuel + 1, s, some x => .node (s.color x) (toTree fuel s (s.left x)) (s.key x) (toTree fuel s (s.right x))

/-- Pre-order listing with, for every node, the key of the node its `parent` field names. -/
def dumpWith (showKey : α → String) : Nat → Store α → Option Nat → String
  | 0, _, _ => "?"
  | _, _, none => "."
  | fuel + 1, s, some x =>
    "(" ++ (if s.color x = .red then "R" else "B") ++ showKey (s.key x) ++ "^"
      ++ (match s.parent x with | none => "/" | some p => showKey (s.key p)) ++ " "
      ++ dumpWith showKey fuel s (s.left x) ++ " " ++ dumpWith showKey fuel s (s.right x) ++ ")"

end Store
end Ipr.RB.Linked
