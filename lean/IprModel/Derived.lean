/-
  C15 — derived (convenience) operations of the IPR interface and the primitives they are defined from.

  A Lexicon is modelled as an append-only store of node records (`St.nodes`): each record lists the values of the
  PRIMITIVE (virtual) accessors of one node; a missing / `unset` field is a link that throws `std::logic_error` when read
  (printed `!L`).  Node identity is the index in the store (any injective assignment of addresses).  String nodes and
  Logogram objects live in two interning tables (`strs`, `logos`): identity = index, find-or-insert by spelling /
  by String, as `util::string_pool::intern` (src/impl.cxx:278-296) and `name_factory::get_logogram` (src/impl.cxx:1672-1680) do.
  Linkage / Calling_convention / Transfer / Basic_specifier / Basic_qualifier are VALUES that hold references to
  Logogram objects (include/ipr/interface:122-202).

  Every derived operation is written twice: code-shaped, as the header writes it (a composition of other accessors,
  derived or primitive), and as its definition from primitives (`spec…`, a path of primitive accessors / a statement
  about the member list).  IprProps/C15.lean proves they agree in every state; IprDriver/C15.lean executes the
  code-shaped versions next to the primitives on the op lines that harness/c15probe.cxx runs on the real library.
-/
namespace Ipr.Derived

/-- Identity of an object a field may refer to. -/
inductive Ref where
  | node (k : Nat)      -- a node of the store                         n<k>
  | str (k : Nat)       -- a String node of the intern pool            s<k>
  | logo (k : Nat)      -- a Logogram object                           g<k>
  | cap (k : Nat)       -- a Capture (member of a Closure, not a Node) c<k>
  deriving DecidableEq, Repr, Inhabited

def Ref.toString : Ref → String
  | .node k => s!"n{k}"
  | .str k => s!"s{k}"
  | .logo k => s!"g{k}"
  | .cap k => s!"c{k}"

instance : ToString Ref := ⟨Ref.toString⟩

/-- The value types of include/ipr/interface:122-202: each holds references to Logogram objects (by identity). -/
inductive Value where
  | linkage (lang : Nat)
  | cc (conv : Nat)
  | transfer (lang conv : Nat)        -- first() is a Linkage, second() a Calling_convention
  | bspec (spec : Nat)
  | bqual (qual : Nat)
  deriving DecidableEq, Repr, Inhabited

/-- What a record stores for one primitive accessor. -/
inductive Fld where
  | ref (r : Ref)
  | none                               -- an empty Optional
  | num (n : Nat)
  | seq (elems : List Ref)             -- a Sequence object owned by the node: its members in order
  | val (v : Value)
  | unset                              -- util::ref / util::check on a null pointer: std::logic_error
  deriving DecidableEq, Repr, Inhabited

structure Rec where
  kind : String
  fields : List (String × Fld)
  deriving Repr, Inhabited

/-- The result of evaluating an accessor. -/
inductive Val where
  | ref (r : Ref)
  | none
  | num (n : Nat)
  | seq (name : String) (elems : List Ref)   -- the Sequence object `name` (= owner.accessor) and its members
  | val (v : Value)
  | err                                       -- std::logic_error
  deriving DecidableEq, Repr, Inhabited

structure St where
  nodes : Array Rec := #[]
  strs : List String := []             -- spelling (hex) of String node k
  logos : List Nat := []               -- String node spelled by Logogram object k (its `operand()`)
  vals : Array Value := #[]
  caps : Nat := 0
  deriving Inhabited

/-! ## Primitive accessors -/

def Rec.get (r : Rec) (f : String) : Fld := (r.fields.lookup f).getD .unset

def seqName (n : Nat) (f : String) : String := s!"n{n}.{f}"

def Fld.toVal (n : Nat) (f : String) : Fld → Val
  | .ref x => .ref x
  | .none => .none
  | .num k => .num k
  | .seq es => .seq (seqName n f) es
  | .val v => .val v
  | .unset => .err

/-- Primitive accessor `f` of node `n`. -/
def St.prim (st : St) (n : Nat) (f : String) : Val :=
  match st.nodes[n]? with
  | none => .err
  | some r => (r.get f).toVal n f

/-- Primitive accessor `f` applied to the node a previous accessor returned. -/
def St.at (st : St) (v : Val) (f : String) : Val :=
  match v with
  | .ref (.node n) => st.prim n f
  | _ => .err

/-- A path of primitive accessors starting at node `n`: the shape of every definition-from-primitives. -/
def St.path (st : St) (n : Nat) (fs : List String) : Val := fs.foldl st.at (.ref (.node n))

/-- `Optional<T>::get()` (ancillary:246). -/
def Val.get : Val → Val
  | .none => .err
  | v => v

/-- `size()` of a Sequence value (primitive of Sequence). -/
def Val.size : Val → Val
  | .seq _ es => .num es.length
  | _ => .err

def boolVal (b : Bool) : Val := .num (if b then 1 else 0)

/-! ## Sequence<T>: empty, begin, end, position and the Iterator (include/ipr/ancillary:138-236)
    Primitives: `size()` and `get(i)`. -/

structure SeqV where
  name : String                  -- identity of the Sequence object
  elems : List Ref
  deriving Repr, Inhabited

namespace SeqV
def size (s : SeqV) : Nat := s.elems.length
/-- `get(i)`; `none` = the implementation throws (C14). -/
def get (s : SeqV) (i : Nat) : Option Ref := s.elems[i]?
/-- ancillary:154 `bool empty() const { return not (size() > 0); }` -/
def empty (s : SeqV) : Bool := !(decide (s.size > 0))
end SeqV

/-- ancillary:168-221: a pair (sequence, position). -/
structure Iter where
  seq : String
  index : Nat
  deriving DecidableEq, Repr, Inhabited

namespace Iter
/-- ancillary:212 -/
def eq (a b : Iter) : Bool := a.seq == b.seq && a.index == b.index
/-- ancillary:215 -/
def ne (a b : Iter) : Bool := !(a.eq b)
/-- ancillary:186 `++index` -/
def next (a : Iter) : Iter := { a with index := a.index + 1 }
/-- ancillary:192 `--index` (never applied at index 0 by a walk that starts at `end`) -/
def prev (a : Iter) : Iter := { a with index := a.index - 1 }
end Iter

namespace SeqV
/-- ancillary:228-236 -/
def begin (s : SeqV) : Iter := ⟨s.name, 0⟩
def end_ (s : SeqV) : Iter := ⟨s.name, s.size⟩
/-- ancillary:223-226 -/
def position (s : SeqV) (i : Nat) : Iter := ⟨s.name, i⟩
/-- ancillary:180 `operator*`: `seq->get(index)` -/
def deref (s : SeqV) (it : Iter) : Option Ref := s.get it.index

/-- `for (it = from; it != end(); ++it) visit(*it)`, cut after `fuel` steps (as the probe cuts a runaway walk). -/
def walk (s : SeqV) : Nat → Iter → List (Option Ref)
  | 0, _ => []
  | fuel + 1, it => if it.ne s.end_ then s.deref it :: walk s fuel it.next else []

/-- `for (it = from; it != begin(); ) { --it; visit(*it); }` -/
def rwalk (s : SeqV) : Nat → Iter → List (Option Ref)
  | 0, _ => []
  | fuel + 1, it => if it.ne s.begin then s.deref it.prev :: rwalk s fuel it.prev else []

/-- Forward traversal `begin() .. end()`. -/
def iterate (s : SeqV) : List (Option Ref) := s.walk (s.size + 2) s.begin
/-- Backward traversal `end() .. begin()`. -/
def riterate (s : SeqV) : List (Option Ref) := s.rwalk (s.size + 2) s.end_
end SeqV

def Val.toSeq : Val → Option SeqV
  | .seq nm es => Option.some ⟨nm, es⟩
  | _ => Option.none

/-! ## Optional<T> (ancillary:242-253): primitive = the stored pointer -/

structure Opt where
  ptr : Option Ref
  deriving DecidableEq, Repr, Inhabited

namespace Opt
def isValid (o : Opt) : Bool := o.ptr != none                       -- :247
def toBool (o : Opt) : Bool := o.isValid                            -- :248
def get (o : Opt) : Val := match o.ptr with | some r => .ref r | none => .err   -- :246 util::check
def conv (o : Opt) : Opt := ⟨o.ptr⟩                                  -- :249-250 conversion to Optional<Base>
def ofRef (r : Ref) : Opt := ⟨some r⟩                                -- :245
def default : Opt := ⟨none⟩                                          -- :244
end Opt

/-! ## Derived operations, code-shaped (the composition the header writes) -/

/-- interface:712 `const Scope& scope() const { return region().bindings(); }` -/
def Udt.scope (st : St) (n : Nat) : Val := st.at (st.prim n "region") "bindings"
/-- interface:725,730,736 `members() const final { return scope().elements(); }` -/
def Udt.members (st : St) (n : Nat) : Val := st.at (Udt.scope st n) "elements"
/-- interface:1629 `body() const { return region().body(); }` -/
def Block.body (st : St) (n : Nat) : Val := st.at (st.prim n "region") "body"
/-- interface:1631 `try_block() const { return handlers().size() != 0; }` -/
def Block.tryBlock (st : St) (n : Nat) : Val :=
  match (st.prim n "handlers").size with
  | .num k => boolVal (k != 0)
  | _ => .err
/-- interface:1789 `parameters() const { return mapping().parameters(); }` -/
def Template.parameters (st : St) (n : Nat) : Val := st.at (st.prim n "mapping") "parameters"
/-- interface:1790 `result() const { return mapping().result(); }` -/
def Template.result (st : St) (n : Nat) : Val := st.at (st.prim n "mapping") "result"
/-- impl:1897 `initializer() const final { return { mapping().result() }; }` -/
def Template.initializer (st : St) (n : Nat) : Val := Template.result st n
/-- interface:1832 `default_value() const { return initializer(); }` -/
def Parameter.defaultValue (st : St) (n : Nat) : Val := st.prim n "initializer"
/-- interface:1807,1831,1863,1870 `lexical_region() const final { return home_region(); }` -/
def Decl.lexicalRegion (st : St) (n : Nat) : Val := st.prim n "home_region"
/-- interface:1821 `name() const final { return type().name(); }` -/
def BaseType.name (st : St) (n : Nat) : Val := st.at (st.prim n "type") "name"
/-- interface:1841 `initializer() const final { return { }; }` -/
def EHParameter.initializer (_st : St) (_n : Nat) : Val := .none
/-- interface:155-156 `linkage() { return first(); }`, `convention() { return second(); }` on a Transfer value -/
def Transfer.first : Val → Val
  | .val (.transfer l _) => .val (.linkage l)
  | _ => .err
def Transfer.second : Val → Val
  | .val (.transfer _ c) => .val (.cc c)
  | _ => .err
def Transfer.linkage (v : Val) : Val := Transfer.first v
def Transfer.convention (v : Val) : Val := Transfer.second v
/-- interface:542 `linkage() const { return transfer().linkage(); }` -/
def Type.linkage (st : St) (n : Nat) : Val := Transfer.linkage (st.prim n "transfer")
/-- traversal:29 `denote_builtin_type(t) = physically_same(t, t.expr())`, `As_type::expr() = operand()` -/
def AsType.denoteBuiltin (st : St) (n : Nat) : Val :=
  match st.prim n "operand" with
  | .ref r => boolVal (r == .node n)
  | _ => .err
/-- src/impl.cxx:664-668 `Fundecl::parameters()`: with a mapping, `mapping->parameters()` -/
def Fundecl.parameters (st : St) (n : Nat) : Val :=
  match st.prim n "mapping" with
  | .ref m => st.at (.ref m) "parameters"
  | _ => .err
/-- src/impl.cxx:676-680 `Fundecl::initializer()`: the mapping, as an expression -/
def Fundecl.initializer (st : St) (n : Nat) : Val := st.prim n "mapping"
/-- interface:517,631,686,933,1439 `size() const { return elements().size(); }` -/
def Container.size (st : St) (n : Nat) (elements : String) : Val := (st.prim n elements).size
/-- interface:632,687 `operator[](i) const { return *elements().position(i); }` -/
def Product.index (st : St) (n : Nat) (i : Nat) : Val :=
  match (st.prim n "operand").toSeq with
  | some s => match s.deref (s.position i) with
    | some r => .ref r
    | none => .err
  | none => .err
/-- interface:519-520,1437-1438 `begin()/end()` of Scope and Parameter_list forward to `elements()` -/
def Container.begin (st : St) (n : Nat) : Option Iter := (st.prim n "elements").toSeq.map SeqV.begin
def Container.end_ (st : St) (n : Nat) : Option Iter := (st.prim n "elements").toSeq.map SeqV.end_
def Container.iterate (st : St) (n : Nat) : Option (List (Option Ref)) := (st.prim n "elements").toSeq.map SeqV.iterate

/-- `type()` that forwards to an operand (interface:1057 Rewrite, 1355 Where, 1386 Instantiation, 1467 Phased_evaluation,
    1599 Expr_stmt, 1617 Labeled_stmt, 1710 Goto): `operand-accessor().type()`. -/
def typeForward (st : St) (n : Nat) (via : String) : Val := st.at (st.prim n via).get "type"

/-- Named aliases of `operand()/first()/second()/third()`: kind ↦ (alias ↦ primitive), as the header defines them. -/
def aliasTable : List (String × List (String × String)) := [
  ("Identifier", [("string", "operand")]), ("Suffix", [("name", "operand")]), ("Operator", [("opname", "operand")]),
  ("Conversion", [("target", "operand")]), ("Ctor_name", [("object_type", "operand")]), ("Dtor_name", [("object_type", "operand")]),
  ("Guide_name", [("mapping_decl", "operand")]), ("Type_id", [("type_expr", "operand")]),
  ("Template_id", [("template_name", "first"), ("args", "second")]), ("Comment", [("text", "operand")]),
  ("Annotation", [("name", "first"), ("value", "second")]),
  ("Array", [("element_type", "first"), ("bound", "second")]), ("As_type", [("expr", "operand")]), ("As_type_x", [("expr", "operand")]),
  ("Decltype", [("expr", "operand")]), ("Tor", [("source", "first"), ("throws", "second")]),
  ("Function", [("source", "first"), ("target", "second"), ("throws", "third")]),
  ("Function_x", [("source", "first"), ("target", "second"), ("throws", "third")]),
  ("Pointer", [("points_to", "operand")]), ("Ptr_to_member", [("containing_type", "first"), ("member_type", "second")]),
  ("Qualified", [("qualifiers", "first"), ("main_variant", "second")]), ("Reference", [("refers_to", "operand")]),
  ("Rvalue_reference", [("refers_to", "operand")]), ("Forall", [("source", "first"), ("target", "second")]),
  ("Symbol", [("name", "operand")]), ("Array_delete", [("storage", "operand")]), ("Delete", [("storage", "operand")]),
  ("Throw", [("exception", "operand")]), ("Asm", [("text", "operand")]), ("Enclosure", [("expr", "operand")]),
  ("Id_expr", [("name", "operand")]), ("Label", [("name", "operand")]), ("Construction", [("arguments", "operand")]),
  ("Pragma", [("incantation", "operand")]), ("Expr_stmt", [("expr", "operand")]), ("Goto", [("target", "operand")]),
  ("Return", [("value", "operand")]), ("Rewrite", [("source", "first"), ("target", "second")]),
  ("Array_ref", [("base", "first"), ("member", "second")]), ("Arrow", [("base", "first"), ("member", "second")]),
  ("Arrow_star", [("base", "first"), ("member", "second")]), ("Dot", [("base", "first"), ("member", "second")]),
  ("Dot_star", [("base", "first"), ("member", "second")]),
  ("Cast", [("expr", "second")]), ("Const_cast", [("expr", "second")]), ("Dynamic_cast", [("expr", "second")]),
  ("Reinterpret_cast", [("expr", "second")]), ("Static_cast", [("expr", "second")]),
  ("Scope_ref", [("scope", "first"), ("member", "second")]), ("Call", [("function", "first"), ("args", "second")]),
  ("Coercion", [("expr", "first"), ("target", "second")]), ("Literal", [("string", "second")]),
  ("Member_init", [("member", "first"), ("initializer", "second")]), ("Narrow", [("expr", "first"), ("derived", "second")]),
  ("Pretend", [("expr", "first"), ("target", "second")]), ("Widen", [("expr", "first"), ("base", "second")]),
  ("Qualification", [("expr", "first"), ("qualifiers", "second")]),
  ("Where", [("main", "first"), ("attendant", "second")]), ("Where_decl", [("main", "first"), ("attendant", "second")]),
  ("Static_assert", [("condition", "first"), ("message", "second")]), ("New", [("placement", "first"), ("initializer", "second")]),
  ("Labeled_stmt", [("label", "first"), ("stmt", "second")]), ("Ctor_body", [("inits", "first"), ("block", "second")]),
  ("Switch", [("condition", "first"), ("body", "second")]), ("While", [("condition", "first"), ("body", "second")]),
  ("Do", [("condition", "first"), ("body", "second")]),
  ("Conditional", [("condition", "first"), ("then_expr", "second"), ("else_expr", "third")]),
  ("If", [("condition", "first"), ("consequence", "second"), ("alternative", "third")]),
  -- include/ipr/attribute:49-90
  ("BasicAttribute", [("token", "operand")]), ("ScopedAttribute", [("scope", "first"), ("member", "second")]),
  ("LabeledAttribute", [("label", "first"), ("attribute", "second")]), ("CalledAttribute", [("function", "first"), ("arguments", "second")]),
  ("ExpandedAttribute", [("expander", "first"), ("operand", "second")]), ("FactoredAttribute", [("factor", "first"), ("terms", "second")]),
  ("ElaboratedAttribute", [("elaboration", "operand")])]

def aliasesOf (kind : String) : List (String × String) := (aliasTable.lookup kind).getD []

/-- An alias evaluated the way the header writes it: the primitive it names, on the same node. -/
def aliasVal (st : St) (n : Nat) (kind alias : String) : Val :=
  match (aliasesOf kind).lookup alias with
  | some p => st.prim n p
  | none => .err

/-- Kinds whose `type()` forwards to an operand, with the accessor it forwards through. -/
def typeForwardTable : List (String × String) := [
  ("Expr_stmt", "operand"), ("Goto", "operand"), ("Rewrite", "second"), ("Where", "first"), ("Where_decl", "first"),
  ("Labeled_stmt", "second"), ("Instantiation", "instance"), ("Phased_evaluation", "expression")]

/-! ## Definitions from primitives (the specification) -/

def spec.scope (st : St) (n : Nat) : Val := st.path n ["region", "bindings"]
def spec.members (st : St) (n : Nat) : Val := st.path n ["region", "bindings", "elements"]
def spec.body (st : St) (n : Nat) : Val := st.path n ["region", "body"]
/-- true exactly when the block has handlers -/
def spec.tryBlock (st : St) (n : Nat) : Val :=
  match st.prim n "handlers" with
  | .seq _ [] => .num 0
  | .seq _ (_ :: _) => .num 1
  | _ => .err
def spec.parameters (st : St) (n : Nat) : Val := st.path n ["mapping", "parameters"]
def spec.result (st : St) (n : Nat) : Val := st.path n ["mapping", "result"]
def spec.defaultValue (st : St) (n : Nat) : Val := st.path n ["initializer"]
def spec.lexicalRegion (st : St) (n : Nat) : Val := st.path n ["home_region"]
def spec.baseName (st : St) (n : Nat) : Val := st.path n ["type", "name"]
/-- the linkage component of the node's transfer -/
def spec.linkage (st : St) (n : Nat) : Val :=
  match st.prim n "transfer" with
  | .val (.transfer l _) => .val (.linkage l)
  | _ => .err
def spec.size (st : St) (n : Nat) (elements : String) : Val :=
  match st.prim n elements with
  | .seq _ es => .num es.length
  | _ => .err
/-- the i-th member, `logic_error` when there is none -/
def spec.index (st : St) (n : Nat) (i : Nat) : Val :=
  match st.prim n "operand" with
  | .seq _ es => match es[i]? with
    | some r => .ref r
    | none => .err
  | _ => .err

/-! ## Interning and the equalities (interface:107-202)

`strs` / `logos` are the intern tables of one Lexicon together with the process-wide constants. -/

/-- `util::string_pool::intern`: the String node of a spelling, created on first request. -/
def internStr (strs : List String) (w : String) : List String × Nat :=
  let i := strs.idxOf w
  if i < strs.length then (strs, i) else (strs ++ [w], strs.length)

/-- `name_factory::get_logogram`: the Logogram object of a String node, created on first request. -/
def internLogo (logos : List Nat) (s : Nat) : List Nat × Nat :=
  let i := logos.idxOf s
  if i < logos.length then (logos, i) else (logos ++ [s], logos.length)

structure Lex where
  strs : List String := []
  logos : List Nat := []
  deriving Repr

/-- `Logogram::what()` = `operand()`: the String node (identity). -/
def Lex.what (lx : Lex) (g : Nat) : Option Nat := lx.logos[g]?
/-- The characters a logogram spells. -/
def Lex.spelling (lx : Lex) (g : Nat) : Option String := (lx.what g).bind (lx.strs[·]?)

/-- interface:109 `operator==(x) { return &what() == &x.what(); }` -/
def Lex.logoEq (lx : Lex) (a b : Nat) : Bool := lx.what a == lx.what b
/-- interface:110 `operator!=` defaulted: `!(a == b)` -/
def Lex.logoNe (lx : Lex) (a b : Nat) : Bool := !(lx.logoEq a b)

/-- interface:125,144,157-160,173,199: the equalities of the value types. -/
def Lex.valEq (lx : Lex) : Value → Value → Bool
  | .linkage a, .linkage b => lx.logoEq a b                                -- lang == x.lang
  | .cc a, .cc b => lx.logoEq a b                                          -- conv == x.conv
  | .transfer al ac, .transfer bl bc => lx.logoEq al bl && lx.logoEq ac bc -- linkage() == t.linkage() and convention() == t.convention()
  | .bspec a, .bspec b => a == b                                           -- defaulted: the stored Logogram POINTERS
  | .bqual a, .bqual b => a == b
  | _, _ => false
def Lex.valNe (lx : Lex) (a b : Value) : Bool := !(lx.valEq a b)

/-- What a value spells (the specification of its identity). -/
def Lex.valSpelling (lx : Lex) : Value → List (Option String)
  | .linkage a => [lx.spelling a]
  | .cc a => [lx.spelling a]
  | .transfer l c => [lx.spelling l, lx.spelling c]
  | .bspec a => [lx.spelling a]
  | .bqual a => [lx.spelling a]

def Value.sameSort : Value → Value → Bool
  | .linkage _, .linkage _ => true
  | .cc _, .cc _ => true
  | .transfer _ _, .transfer _ _ => true
  | .bspec _, .bspec _ => true
  | .bqual _, .bqual _ => true
  | _, _ => false

/-- Logogram objects a value refers to. -/
def Value.logos : Value → List Nat
  | .linkage a => [a]
  | .cc a => [a]
  | .transfer l c => [l, c]
  | .bspec a => [a]
  | .bqual a => [a]

def St.lex (st : St) : Lex := { strs := st.strs, logos := st.logos }

/-! ## Actions on the store: every operation of the driver is a list of these -/

inductive Act where
  | alloc (r : Rec)                              -- a factory creates a node: it gets the next identity
  | push (n : Nat) (f : String) (x : Ref)        -- a member is appended to a Sequence the node owns
  | set (n : Nat) (f : String) (v : Fld)         -- a link (never a Sequence) of the node is (re)set
  | str (w : String)
  | logo (s : Nat)
  | value (v : Value)
  | capture
  deriving Repr

def Rec.setField (r : Rec) (f : String) (v : Fld) : Rec :=
  { r with fields := (f, v) :: r.fields.filter (fun p => p.1 != f) }

def Rec.pushField (r : Rec) (f : String) (x : Ref) : Rec :=
  match r.get f with
  | .seq es => r.setField f (.seq (es ++ [x]))
  | _ => r

def Fld.isSeq : Fld → Bool
  | .seq _ => true
  | _ => false

def St.apply (st : St) : Act → St
  | .alloc r => { st with nodes := st.nodes.push r }
  | .push n f x =>
    match st.nodes[n]? with
    | some r => { st with nodes := st.nodes.set! n (r.pushField f x) }
    | none => st
  | .set n f v =>
    match st.nodes[n]? with
    | some r => if (r.get f).isSeq || v.isSeq then st else { st with nodes := st.nodes.set! n (r.setField f v) }
    | none => st
  | .str w => { st with strs := (internStr st.strs w).1 }
  | .logo s => { st with logos := (internLogo st.logos s).1 }
  | .value v => { st with vals := st.vals.push v }
  | .capture => { st with caps := st.caps + 1 }

def St.run (st : St) (acts : List Act) : St := acts.foldl St.apply st

/-- Members appended to Sequence `f` of node `n` by a list of actions, in order. -/
def pushesTo (n : Nat) (f : String) : List Act → List Ref
  | [] => []
  | .push m g x :: rest => if m = n ∧ g = f then x :: pushesTo n f rest else pushesTo n f rest
  | _ :: rest => pushesTo n f rest

end Ipr.Derived
