/-!
# Model of region creation in IPR (property C12)

A Lexicon together with the units built on it is an **append-only store**:

* `tree`  — one record per region ever created (`impl::Region`, `impl::homogeneous_region<…>`), in creation order.
  A record is written once, by the constructor, and never changes (`parent` and `owned_by` are only set there:
  `include/ipr/impl:675-693, 2034-2097`, `src/impl.cxx:1648-1656`).
* `binds` — the bindings of each region (same length as `tree`); only homogeneous regions get bindings here, and
  only by appending at the end (`Parameter_list::add_member`, `Enum::add_member`, `Class::declare_base`,
  `src/impl.cxx:922-929, 964-969, 998-1005`), or exactly one at construction (the EH region, `impl:2400-2404`).
* `nodes` — the entities that open regions, and the declarations bound in homogeneous regions.
* `units`, `mods` — translation units / module units and modules (`impl:2917-2987`, `src/impl.cxx:2536-2567`).

Indices are names: region `k` is printed `r<k>`, node `k` is `n<k>` (order of first appearance on the C++ side).
Fields marked *ghost* are never printed; they exist so that theorems can talk about them.
-/
namespace Ipr.Region

/-- What opened a region. -/
inductive RKind
  | root | sub | classBody | classBases | unionBody | enumBody | nsBody | closureBody
  | block | eh | handlerBody | mappingParms | lambdaParms | requiresParms | morphismParms | whereBody
  deriving DecidableEq, Repr, Inhabited

/-- Regions implemented by `impl::Region` (they have `make_subregion` and are a `form_factory`); the others are
    `homogeneous_region`s. -/
def RKind.hetero : RKind → Bool
  | .root | .sub | .classBody | .unionBody | .nsBody | .closureBody | .block | .handlerBody | .whereBody => true
  | _ => false

structure RegionRec where
  parent : Option Nat          -- `enclosing()`; `none` = the `Optional` is empty, `global()` is true
  owner  : Option Nat          -- `owner()` : node id
  kind   : RKind
  unit   : Nat                 -- ghost: the unit in whose tree the region was created
  depth  : Nat                 -- ghost: distance to that unit's global region
  deriving DecidableEq, Repr, Inhabited

/-- User-defined types (`impl::Udt<…>` and `impl::Enum`). -/
inductive UKind | cls | uni | enm | ns | closure
  deriving DecidableEq, Repr, Inhabited

def UKind.bodyKind : UKind → RKind
  | .cls => .classBody | .uni => .unionBody | .enm => .enumBody | .ns => .nsBody | .closure => .closureBody

/-- Things that carry a `Parameter_list`. -/
inductive CKind | mapping | lambda | requires | morphism
  deriving DecidableEq, Repr, Inhabited

def CKind.parmsKind : CKind → RKind
  | .mapping => .mappingParms | .lambda => .lambdaParms | .requires => .requiresParms | .morphism => .morphismParms

/-- `Mapping::Mapping` and `Lambda::Lambda` set `inputs.parms.owned_by = this` (`src/impl.cxx:1465-1476`);
    `Requires` and `Function_morphism` do not (`impl:1699-1706`, `src/impl.cxx:300-302`). -/
def CKind.owns : CKind → Bool
  | .mapping | .lambda => true
  | _ => false

/-- Declarations bound in homogeneous regions. -/
inductive MKind | param | enumerator | base
  deriving DecidableEq, Repr, Inhabited

def MKind.regionKindOk : MKind → RKind → Bool
  | .param, .mappingParms | .param, .lambdaParms | .param, .requiresParms | .param, .morphismParms => true
  | .enumerator, .enumBody => true
  | .base, .classBases => true
  | _, _ => false

inductive NodeRec
  /-- class / union / enum / namespace / closure created in region `inR` (`none`: the global namespace of a unit);
      `bases` is the `base_subobjects` region of a class. -/
  | udt (k : UKind) (inR : Option Nat) (body : Nat) (bases : Option Nat)
  | block (inR region : Nat)
  /-- `impl::Handler` of block `blk`: `encl` is what `lexical_region.enclosing()` answered in `Block::new_handler`. -/
  | handler (blk encl eh exc hb : Nat)
  | hblock (eh region : Nat)
  | ehparam (home : Nat)
  | callable (k : CKind) (inR plist : Nat)
  | plist (k : CKind) (host inR parms level : Nat)
  | whereN (inR region : Nat)
  | member (mk : MKind) (cont home pos : Nat)
  deriving DecidableEq, Repr, Inhabited

inductive UnitKind | tu | iface | impl
  deriving DecidableEq, Repr, Inhabited

structure UnitRec where
  kind   : UnitKind
  ns     : Nat                -- node id of `global_namespace()`
  global : Nat                -- its region
  module : Option Nat         -- `parent_module()`
  deriving DecidableEq, Repr, Inhabited

structure State where
  tree  : Array RegionRec := #[]
  binds : Array (List Nat) := #[]
  nodes : Array NodeRec := #[]
  units : Array UnitRec := #[]
  mods  : Array Nat := #[]           -- module ↦ its interface unit
  deriving Repr, Inhabited

/-- The operations of the line protocol (one per region-opening construct of the library). -/
inductive Op
  | unit                                  -- `impl::Translation_unit{lexicon}`
  | module                                -- `impl::Module{lexicon}` (constructs its `Interface_unit`)
  | munit (m : Nat)                       -- `Module::make_unit`
  | sub (r : Nat)                         -- `Region::make_subregion`
  | udt (k : UKind) (r : Nat)             -- `make_class/union/enum/namespace/closure(r)`
  | block (r : Nat)                       -- `make_block(r)`
  | handler (b : Nat)                     -- `Block::new_handler`
  | callable (k : CKind) (rf r lvl : Nat) -- `make_mapping/lambda/requires(r,l)`; `rf->make_function_morphism(r,l)`
  | whereE (r : Nat)                      -- `make_where(r)`
  | member (mk : MKind) (c : Nat)         -- `add_member` / `declare_base` on node `c`
  deriving DecidableEq, Repr, Inhabited

/-- A region enclosed by the existing region `p` whose record is `pr`. -/
def child (pr : RegionRec) (p : Nat) (owner : Option Nat) (k : RKind) : RegionRec :=
  { parent := some p, owner := owner, kind := k, unit := pr.unit, depth := pr.depth + 1 }

/-- A region constructor ran: one more record, with its initial bindings. -/
def State.pushRegion (s : State) (rec : RegionRec) (l : List Nat) : State :=
  { s with tree := s.tree.push rec, binds := s.binds.push l }

/-- A node constructor ran. -/
def State.pushNode (s : State) (nd : NodeRec) : State := { s with nodes := s.nodes.push nd }

/-- `unit_base(lexicon)`: a `Namespace{nullptr}` whose body has no parent and is owned by the namespace
    (`impl:2104-2111, 2917-2926`). -/
def State.newUnit (s : State) (kind : UnitKind) (module : Option Nat) : State :=
  { s with
    tree  := s.tree.push { parent := none, owner := some s.nodes.size, kind := .root, unit := s.units.size, depth := 0 }
    binds := s.binds.push []
    nodes := s.nodes.push (.udt .ns none s.tree.size none)
    units := s.units.push { kind := kind, ns := s.nodes.size, global := s.tree.size, module := module } }

def State.pushMod (s : State) (u : Nat) : State := { s with mods := s.mods.push u }

/-- `add_member` / `declare_base`: the declaration is appended to the bindings of `home`;
    `Decl_position pos { scope.size() }` was taken *before* the push. -/
def State.addMember (s : State) (mk : MKind) (c home pos : Nat) : State :=
  { s with
    nodes := s.nodes.push (.member mk c home pos)
    binds := s.binds.modify home (· ++ [s.nodes.size]) }

/-- Where `add_member` / `declare_base` on a node puts the new declaration. -/
def memberHome : MKind → NodeRec → Option Nat
  | .param, .plist _ _ _ parms _ => some parms
  | .enumerator, .udt .enm _ body _ => some body
  | .base, .udt .cls _ _ (some bases) => some bases
  | _, _ => none

def step (s : State) : Op → State
  | .unit => s.newUnit .tu none
  | .module => (s.newUnit .iface (some s.mods.size)).pushMod s.units.size
  | .munit m =>
    match s.mods[m]? with
    | some _ => s.newUnit .impl (some m)
    | none => s
  | .sub r =>
    match s.tree[r]? with
    | some pr => if pr.kind.hetero then s.pushRegion (child pr r none .sub) [] else s
    | none => s
  | .udt k r =>
    match s.tree[r]? with
    | some pr =>
      let n := s.nodes.size
      let b := s.tree.size
      if k = .cls then
        -- `Class::Class(pr) : Udt(&pr), base_subobjects(pr)`: both regions are enclosed by `pr`, both owned by the class
        ((s.pushRegion (child pr r (some n) .classBody) []).pushRegion (child pr r (some n) .classBases) []).pushNode
          (.udt .cls (some r) b (some (b + 1)))
      else
        (s.pushRegion (child pr r (some n) k.bodyKind) []).pushNode (.udt k (some r) b none)
    | none => s
  | .block r =>
    match s.tree[r]? with
    | some pr => (s.pushRegion (child pr r (some s.nodes.size) .block) []).pushNode (.block r s.tree.size)
    | none => s
  | .handler b =>
    -- `handler_seq.push_back(lexical_region.enclosing(), n, t)`; `Handler(r,n,t) : eh{r,n,t}, block{eh}`
    match s.nodes[b]? with
    | some (.block _ brg) =>
      match s.tree[brg]? with
      | some br =>
        match br.parent with
        | some e =>
          match s.tree[e]? with
          | some er =>
            let x := s.nodes.size           -- the EH parameter; x+1 the handler's block; x+2 the handler
            let ehR := s.tree.size
            ((((s.pushRegion (child er e none .eh) [x]).pushRegion
                  (child (child er e none .eh) ehR (some (x + 1)) .handlerBody) []).pushNode
                (.ehparam e)).pushNode (.hblock ehR (ehR + 1))).pushNode (.handler b e ehR x (x + 1))
          | none => s
        | none => s
      | none => s
    | _ => s
  | .callable k rf r lvl =>
    match s.tree[r]? with
    | some pr =>
      -- a `Function_morphism` is made by the `form_factory` base of a heterogeneous region `rf`
      if k = .morphism && !((s.tree[rf]?.map (·.kind.hetero)).getD false) then s
      else
        let n := s.nodes.size                -- the parameter list; n+1 the mapping / lambda / requires / morphism
        ((s.pushRegion (child pr r (if k.owns then some (n + 1) else none) k.parmsKind) []).pushNode
            (.plist k (n + 1) r s.tree.size lvl)).pushNode (.callable k r n)
    | none => s
  | .whereE r =>
    match s.tree[r]? with
    | some pr => (s.pushRegion (child pr r none .whereBody) []).pushNode (.whereN r s.tree.size)
    | none => s
  | .member mk c =>
    match s.nodes[c]? with
    | some nd =>
      match memberHome mk nd with
      | some home =>
        match s.binds[home]? with
        | some l => s.addMember mk c home l.length
        | none => s
      | none => s
    | none => s

def run (ops : List Op) : State := ops.foldl step {}

/-! ## Observations (what the interface lets a client read) -/

/-- `Region::enclosing()`; `none` when the region does not exist or the `Optional` is empty (then the C++ throws). -/
def State.enclosing (s : State) (r : Nat) : Option Nat := s.tree[r]?.bind (·.parent)

/-- `Region::global()`. -/
def State.isGlobal (s : State) (r : Nat) : Bool := (s.tree[r]?.map (·.parent.isNone)).getD false

/-- `Region::owner()`. -/
def State.owner (s : State) (r : Nat) : Option Nat := s.tree[r]?.bind (·.owner)

/-- `Region::bindings().elements()`. -/
def State.bindings (s : State) (r : Nat) : List Nat := (s.binds[r]?).getD []

/-- The iterative outward walk of the probe: `while (not r->global()) { r = &r->enclosing(); ++n; }`,
    returning (number of steps, region reached). -/
def outward (t : Array RegionRec) : Nat → Nat → Nat → Nat × Nat
  | 0, r, n => (n, r)
  | fuel + 1, r, n =>
    match t[r]? with
    | some rec =>
      match rec.parent with
      | some p => outward t fuel p (n + 1)
      | none => (n, r)
    | none => (n, r)

def State.walk (s : State) (r : Nat) : Nat × Nat := outward s.tree s.tree.size r 0

/-- `Parameter::home_region()`, `Enumerator::home_region()`, `Base_type::home_region()`, `EH_parameter::home_region()`. -/
def State.homeOf (s : State) (n : Nat) : Option Nat :=
  match s.nodes[n]? with
  | some (.member _ _ home _) => some home
  | some (.ehparam home) => some home
  | _ => none

/-- `position()`. -/
def State.posOf (s : State) (n : Nat) : Option Nat :=
  match s.nodes[n]? with
  | some (.member _ _ _ pos) => some pos
  | _ => none

/-- `Parameter::level()` = `where.get().level()`: the level of the list the parameter was added to. -/
def State.levelOf (s : State) (n : Nat) : Option Nat :=
  match s.nodes[n]? with
  | some (.member .param cont _ _) =>
    match s.nodes[cont]? with
    | some (.plist _ _ _ _ lvl) => some lvl
    | _ => none
  | some (.plist _ _ _ _ lvl) => some lvl
  | _ => none

/-- The name of a namespace: the global namespace of a unit gets the empty identifier (`impl:2920-2925`),
    `make_namespace` leaves `id` unset (then `name()` throws). -/
def State.nsName (s : State) (n : Nat) : Option String :=
  match s.nodes[n]? with
  | some (.udt .ns none _ _) => some ""
  | _ => none

/-- `type()` of a user-defined type: a fixed built-in per kind (`src/impl.cxx:909, 934-979`). -/
def UKind.typeName : UKind → String
  | .cls => "class" | .uni => "union" | .enm => "enum" | .ns => "namespace" | .closure => "class"

end Ipr.Region
