import IprProofs.RBOrder
import IprProofs.RBTree
