import IprProps.C08
