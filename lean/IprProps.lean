import IprProps.C03
import IprProps.C06
import IprProps.C08
import IprProps.C10
import IprProps.C12
import IprProps.C16
import IprProps.C19
