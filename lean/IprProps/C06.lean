import IprProofs.Category
import Generated.Categories
/-!
# C06 — category code, `accept()` and visitor defaults agree for every node class

`Generated/Categories.lean` is rewritten on every run from the implementation (see `vlib/c06.py`): the enumerators of
`Category_code`, the interface hierarchy, the set of concrete classes derived from `ipr::Node`, and one observation
row per implementation class taken on a live node.  The theorems below range over **all** rows / interfaces / (row, K)
pairs of those tables (kernel evaluation, `decide +kernel`), and are lifted by the general theorems about the model
(`IprProofs/Category.lean`), which hold for every hierarchy, node class and category code.
-/
set_option autoImplicit false
namespace Ipr.Cat
open Ipr.Gen.C06

/-- The interface hierarchy of the current tree. -/
def hier : Hier := Hier.ofTables absAnc ifaces

/-- Codes of the categories that have an interface class. -/
def leafCodes : List Nat := ifaces.map (·.code)

/-! ## The tables describe a well-formed category system -/

/-- The numeric value of every enumerator is its position in `node-category` (execution agrees with the source). -/
theorem C06_codes_are_positions : catCodes = catNames.zipIdx := by decide +kernel

/-- The codes of the leaf interfaces are pairwise distinct (the table lists them in increasing order). -/
theorem C06_codes_distinct : leafCodes.Nodup :=
  strictlyIncreasing_nodup (by decide +kernel)

/-- Every leaf interface `ipr::X` stamps the code that bears its name — both as executed and in the compiler's class
    dump (`Category<Category_code::X, Base>` is its only `Category` base) — and `Visitor` has a hook for it. -/
theorem C06_interface_stamps_own_code :
    ∀ i ∈ ifaces, catCodes[i.code]? = some (i.name, i.code) ∧ i.srcStamp = [i.code] ∧ i.hasHook = true := by decide +kernel

/-- Every enumerator either has an interface class or is one of the listed exceptions (never both). -/
theorem C06_every_code_accounted :
    (∀ c ∈ List.range catNames.length, (c ∈ leafCodes) ≠ (c ∈ noIface.map (·.2))) ∧
    (∀ p ∈ noIface, catCodes[p.2]? = some p) := by decide +kernel

/-- The abstract hierarchy is transitive and antisymmetric, every abstract class other than `Node` derives from
    `Node`, and the abstract bases of every leaf interface form a non-empty chain: the hypotheses of `C06_lowest_total`
    / `C06_lowest_unique` hold for the current tree. -/
theorem C06_hierarchy_wellformed :
    (∀ a ∈ Abs.all, ∀ b ∈ Abs.all, ∀ c ∈ Abs.all, a ∈ hier.anc b → b ∈ hier.anc c → a ∈ hier.anc c) ∧
    (∀ a ∈ Abs.all, ∀ b ∈ Abs.all, a ∈ hier.anc b → b ∉ hier.anc a) ∧
    (∀ a ∈ Abs.all, a = .node ∨ .node ∈ hier.anc a) ∧
    (∀ i ∈ ifaces, i.bases ≠ [] ∧ ∀ a ∈ i.bases, ∀ b ∈ i.bases, a = b ∨ a ∈ hier.anc b ∨ b ∈ hier.anc a) := by
  decide +kernel

/-- The two independent readings of the hierarchy agree: the nearest abstract super-category computed from the
    compile-time `is_base_of` facts is the first abstract base in the compiler's class dump, and both list the same
    abstract bases. -/
theorem C06_hierarchy_sources_agree :
    ∀ i ∈ ifaces, lowest hier.anc i.bases = i.srcChain.head? ∧
      (∀ a ∈ Abs.all, a ∈ i.bases ↔ a ∈ i.srcChain) := by decide +kernel

/-! ## (a) the category is the code of the node's own interface -/

/-- Every implementation class implements exactly one leaf interface (`dynamic_cast` succeeds for exactly one), and
    the category stamped in its nodes is the code of that interface. -/
theorem C06_category_is_own_interface_code :
    ∀ r ∈ rows, r.dyn = [r.category] ∧ r.category ∈ leafCodes := by decide +kernel

/-- The abstract classes a node can be cast to are exactly the abstract bases of its interface. -/
theorem C06_abstract_casts_follow_interface :
    ∀ r ∈ rows, ∀ a ∈ Abs.all, a ∈ r.absDyn ↔ a ∈ hier.bases r.category := by decide +kernel

/-! ## (b) `accept` enters exactly one hook: the one of the node's own interface -/

theorem C06_accept_fires_own_hook : ∀ r ∈ rows, r.fired = [.leaf r.category] := by decide +kernel

/-! ## (c) a hook that is not overridden hands the node to the nearest abstract super-category -/

/-- The hooks observed on a visitor overriding only `Classic` and the sinks are, for every implementation class, the
    chain the model derives from the interface hierarchy. -/
theorem C06_default_chain_is_model : ∀ r ∈ rows, r.chain = defaultChain hier r.category := by decide +kernel

/-- What that chain is: through `Classic` and then `Expr` exactly for the interfaces derived from `Classic`; otherwise
    directly the nearest abstract base, which is one of the seven sinks (expression, name, type, directive, statement,
    declaration, else node). -/
theorem C06_default_chain_shape :
    ∀ i ∈ ifaces, defaultChain hier i.code =
      (if .classic ∈ i.bases then [.abs .classic, .abs .expr] else (i.srcChain.head?.map Hook.abs).toList) ∧
      ((defaultChain hier i.code).getLast?.map Hook.isSink) = some true := by decide +kernel

/-- Seen from the nodes: the default chain passes through `Classic` exactly for classic expressions. -/
theorem C06_through_classic_exactly :
    ∀ r ∈ rows, (Hook.abs .classic ∈ r.chain) ↔ (Abs.classic ∈ r.absDyn) := by decide +kernel

/-! ## (b', c') what the hooks receive is THE NODE that was visited

`fired` / `chain` say WHICH hooks are entered; `handed` says, hook by hook, whether the object each of them received is the
visited node itself (the same most-derived object), on every live node of the class that the probe observed — first
declarations and redeclarations (nodes whose `master()` is another node of the same class) alike.  A default hook that
forwards a relative of the node (its master declaration, its definition, a cached twin) enters the right hook the right
number of times and is told apart only here. -/

/-- The leaf hook entered by `accept` and every hook of the default chain received the visited node itself, for every
    implementation class (one entry per hook of `fired` and of `chain`, all `true`). -/
theorem C06_hooks_receive_visited_node :
    handed.length = rows.length ∧
    ∀ p ∈ rows.zip handed,
      p.2.1.length = p.1.fired.length ∧ p.2.2.length = p.1.chain.length ∧
      p.2.1.all id = true ∧ p.2.2.all id = true := by decide +kernel

/-- Seen hook by hook: whatever hook `h` the default chain of a row enters at position `i`, the object it received there
    was the visited node. -/
theorem C06_default_hook_hands_over_the_node :
    ∀ p ∈ rows.zip handed, ∀ i, i < p.1.chain.length → p.2.2[i]? = some true := by
  intro p hp i hi
  obtain ⟨_, h⟩ := C06_hooks_receive_visited_node
  obtain ⟨_, hlen, _, hall⟩ := h p hp
  have hi' : i < p.2.2.length := by omega
  have := List.all_eq_true.mp hall (p.2.2[i]) (List.getElem_mem hi')
  simp [List.getElem?_eq_getElem hi', id] at this ⊢
  exact this

/-- `accept` enters the hooks once PER CALL, whatever the history of the (node, visitor) pair: after a visit whose first hook raised
    the next visit enters the same hooks as a first visit; a visit re-entered from inside its first hook enters that hook, then the
    whole chain of the inner visit, then the rest of its own; and with every hook overridden three calls enter the node's own hook
    three times.  (No memory of visits in progress or aborted.) -/
theorem C06_one_entry_per_accept_call :
    reentry.length = rows.length ∧
    ∀ p ∈ rows.zip reentry,
      p.2.1 = p.1.chain ∧
      p.2.2.1 = p.1.chain.take 1 ++ p.1.chain ++ p.1.chain.drop 1 ∧
      p.2.2.2 = [.leaf p.1.category, .leaf p.1.category, .leaf p.1.category] := by decide +kernel

/-- Coverage of that column: every declaration kind (leaf interface derived from `Decl`) was observed on a redeclaration
    too, except the kinds documented as not redeclarable — and those exceptions are declaration kinds, never observed
    redeclared. -/
theorem C06_every_declaration_kind_seen_redeclared :
    (∀ i ∈ ifaces, Abs.decl ∈ i.bases → (i.code ∈ redeclared) ≠ (i.code ∈ notRedeclarable)) ∧
    (∀ c ∈ redeclared ++ notRedeclarable, Abs.decl ∈ hier.bases c) := by decide +kernel

/-! ## (d) `view<K>` yields the node for its own category and nothing for any other leaf category -/

/-- General: for every hierarchy, node class and `K`, `view K n` answers the node iff `accept` calls the hook of `K`. -/
theorem C06_view_exact (h : Hier) (K : Nat) (n : NodeClass) : view h K n = true ↔ n.accept = .leaf K :=
  view_iff h K n

/-- The table, all rows: the set of `K` for which `util::view<ipr::K>` answered the node is `{category}`, and it never
    answered another node.  (Every `K` with an interface and a hook was asked: `C06_interface_stamps_own_code`.) -/
theorem C06_view_table_rows : ∀ r ∈ rows, r.viewSelf = [r.category] ∧ r.viewOther = [] := by decide +kernel

/-- All (implementation class, K) pairs — in fact every `K : Nat`: `util::view<ipr::K>` answered the node iff `K` is its
    category. -/
theorem C06_view_table : ∀ r ∈ rows, ∀ K : Nat, K ∈ r.viewSelf ↔ r.category = K := by
  intro r hr K
  rw [(C06_view_table_rows r hr).1, List.mem_singleton]
  exact eq_comm

/-- Lifted: any node class whose `accept` calls the hook of its own category — which `C06_accept_fires_own_hook`
    establishes for every implementation class — is viewed at `K` iff `K` is its category, for **every** `K : Nat`
    (not only the enumerated ones) and every hierarchy. -/
theorem C06_view_iff_category (h : Hier) (n : NodeClass) (hacc : n.accept = .leaf n.category) (K : Nat) :
    view h K n = true ↔ n.category = K :=
  view_own_category h n hacc K

theorem C06_rows_satisfy_view_hypothesis :
    ∀ r ∈ rows, ∃ n, r.node? = some n ∧ n.category = r.category ∧ n.accept = .leaf n.category := by
  intro r hr
  have h := C06_accept_fires_own_hook r hr
  exact ⟨{ category := r.category, accept := .leaf r.category }, by simp [Row.node?, h], rfl, rfl⟩

/-- … and that is what the model computes from the observed `accept` hook, for all (class, K) pairs. -/
theorem C06_view_matches_model :
    ∀ r ∈ rows, ∃ n, r.node? = some n ∧ ∀ K : Nat, K ∈ r.viewSelf ↔ view hier K n = true := by
  intro r hr
  obtain ⟨n, hn, hcat, hacc⟩ := C06_rows_satisfy_view_hypothesis r hr
  refine ⟨n, hn, fun K => ?_⟩
  rw [C06_view_table r hr K, view_own_category hier n hacc K, hcat]

/-! ## Coverage: the rows are all the node classes there are -/

/-- Every leaf interface was observed on at least one live node. -/
theorem C06_every_interface_exercised : ∀ i ∈ ifaces, ∃ r ∈ rows, r.category = i.code := by decide +kernel

/-- Every concrete class derived from `ipr::Node` that the compiler lays out for `src/impl.cxx` has a row. -/
theorem C06_every_class_exercised : ∀ s ∈ srcClasses, s ∈ rowKeys := by decide +kernel

/-- One row per class (the table is sorted by class key). -/
theorem C06_one_row_per_class : rowKeys.Nodup ∧ rowKeys.length = rows.length :=
  ⟨strictlyIncreasing_nodup (by decide +kernel), by decide +kernel⟩

/-! ## General facts about the nearest-super-category function (any hierarchy) -/

theorem C06_lowest_sound {anc : Abs → List Abs} {S : List Abs} {a : Abs} (h : lowest anc S = some a) :
    a ∈ S ∧ ∀ b ∈ S, b = a ∨ b ∈ anc a := lowest_sound h

theorem C06_lowest_unique {anc : Abs → List Abs} (hanti : ∀ a b, a ∈ anc b → b ∉ anc a) {S : List Abs} {a a' : Abs}
    (ha : a ∈ S) (hla : ∀ b ∈ S, b = a ∨ b ∈ anc a) (ha' : a' ∈ S) (hla' : ∀ b ∈ S, b = a' ∨ b ∈ anc a') : a = a' :=
  lowest_unique hanti ha hla ha' hla'

theorem C06_lowest_total {anc : Abs → List Abs} (htrans : ∀ a b c, a ∈ anc b → b ∈ anc c → a ∈ anc c)
    {S : List Abs} (hne : S ≠ []) (hchain : ∀ a ∈ S, ∀ b ∈ S, a = b ∨ a ∈ anc b ∨ b ∈ anc a) :
    ∃ a, lowest anc S = some a := lowest_total htrans hne hchain

/-- Dispatch stops at a sink: a sink has no default, and entering an overridden hook enters nothing else. -/
theorem C06_sink_is_terminal (h : Hier) (ov : Hook → Bool) {a : Abs} (hs : a.isSink = true) (hov : ov (.abs a) = true) :
    h.default (.abs a) = none ∧ run h ov (.abs a) = [.abs a] :=
  ⟨default_sink h hs, runAux_sink h ov 9 hov⟩

/-! ## Non-vacuity -/

example : rows.length ≥ 150 ∧ ifaces.length ≥ 150 ∧ srcClasses.length ≥ 150 := by decide +kernel
example : ∃ r ∈ rows, Hook.abs .classic ∈ r.chain := by decide +kernel
example : ∃ r ∈ rows, r.chain = [.abs .decl] := by decide +kernel
example : redeclared.length ≥ 7 ∧ notRedeclarable.length = 4 := by decide +kernel
example : ∃ p ∈ rows.zip handed, p.1.chain = [.abs .decl] ∧ p.1.category ∈ redeclared ∧ p.2.2 = [true] := by decide +kernel
example : ∃ i ∈ ifaces, i.bases = [.node] := by decide +kernel
/-- The model is not trivially true: a class stamped with a neighbour's hook is *not* viewed at its own category. -/
example : view hier 7 { category := 7, accept := .leaf 8 } = false := by decide +kernel
/-- … and a default forwarded to the wrong sink is told apart (the repaired defect F8: `Parameter_list` is an `Expr`). -/
example : ∀ i ∈ ifaces, i.name = "Parameter_list" → defaultChain hier i.code = [.abs .expr] := by decide +kernel

end Ipr.Cat
