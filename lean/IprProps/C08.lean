import IprProofs.RBOrder
/-!
# C08 — the ordered-set utility stays a valid balanced search tree for any insertions

Every theorem below quantifies over **every** finite insertion sequence `ks` (any length, any repetitions) and
**every** lawful comparator.  The model (`IprModel/RBTree.lean`) is tied to `include/ipr/utility` by the exact-shape
correspondence run by `check.py C08`.  The one conjunct of the statement not covered here — consistent parent
links — has no counterpart in a persistent tree and is checked on the real structure at every step of that run.
-/
namespace Ipr.RB
open Tree

variable {α : Type}

/-- The tree reached by inserting `ks` in order into an empty tree (both flavours link the same nodes). -/
def build (cmp : α → α → Int) (ks : List α) : Tree α := ks.foldl (Tree.insert cmp) .nil

/-- The owning container after the same history. -/
def buildC (cmp : α → α → Int) (ks : List α) : Container α :=
  ks.foldl (fun c k => (Container.insert cmp c k).1) {}

/-- The intrusive chain after the same history. -/
def buildChain (cmp : α → α → Int) (ks : List α) : Chain α := ks.foldl (Chain.insert cmp) {}

theorem build_snoc (cmp : α → α → Int) (ks : List α) (k : α) :
    build cmp (ks ++ [k]) = Tree.insert cmp (build cmp ks) k := by simp [build, List.foldl_append]

/-- Red-black rules (black root, no red-red, equal black count) after every history; needs no comparator law. -/
theorem C08_redblack (cmp : α → α → Int) (ks : List α) : RBInv (build cmp ks) := by
  induction ks using Ipr.List.snocInduction with
  | nil => exact ⟨0, .nil⟩
  | append_singleton ks k ih => rw [build_snoc]; exact insert_rb cmp _ k ih

/-- Search-tree order after every history. -/
theorem C08_ordered {cmp : α → α → Int} (hc : Lawful cmp) (ks : List α) : Desc cmp (inorder (build cmp ks)) := by
  induction ks using Ipr.List.snocInduction with
  | nil => simp [build, inorder, Desc]
  | append_singleton ks k ih => rw [build_snoc]; exact insert_desc hc _ k ih

/-- The tree holds exactly the keys that were inserted. -/
theorem C08_members {cmp : α → α → Int} (hc : Lawful cmp) (ks : List α) (x : α) :
    x ∈ inorder (build cmp ks) ↔ x ∈ ks := by
  induction ks using Ipr.List.snocInduction with
  | nil => simp [build, inorder]
  | append_singleton ks k ih =>
    rw [build_snoc, mem_insert hc _ k x (C08_ordered hc ks), ih]; simp [or_comm]

/-- Every inserted key is found … -/
theorem C08_find_inserted {cmp : α → α → Int} (hc : Lawful cmp) (ks : List α) (x : α) (h : x ∈ ks) :
    find cmp x (build cmp ks) = some x :=
  find_complete hc x _ (C08_ordered hc ks) ((C08_members hc ks x).mpr h)

/-- … and a key never inserted is not. -/
theorem C08_find_absent {cmp : α → α → Int} (hc : Lawful cmp) (ks : List α) (x : α) (h : x ∉ ks) :
    find cmp x (build cmp ks) = none :=
  (find_none_iff hc x _ (C08_ordered hc ks)).mpr (fun hm => h ((C08_members hc ks x).mp hm))

/-- Height bound `2·log2(n+1)`. -/
theorem C08_height (cmp : α → α → Int) (ks : List α) :
    height (build cmp ks) ≤ 2 * Nat.log2 (size (build cmp ks) + 1) :=
  height_le_log (C08_redblack cmp ks)

theorem Container.insert_tree (cmp : α → α → Int) (c : Container α) (k : α) :
    (Container.insert cmp c k).1.tree = Tree.insert cmp c.tree k := by
  unfold Container.insert Tree.insert
  cases descend cmp k c.tree [] <;> rfl

theorem buildC_snoc (cmp : α → α → Int) (ks : List α) (k : α) :
    buildC cmp (ks ++ [k]) = (Container.insert cmp (buildC cmp ks) k).1 := by simp [buildC, List.foldl_append]

theorem buildC_tree (cmp : α → α → Int) (ks : List α) : (buildC cmp ks).tree = build cmp ks := by
  induction ks using Ipr.List.snocInduction with
  | nil => rfl
  | append_singleton ks k ih => rw [buildC_snoc, build_snoc, Container.insert_tree, ih]

/-- Owning flavour: inserting a key that is present returns the existing element and changes nothing. -/
theorem C08_owning_duplicate {cmp : α → α → Int} (hc : Lawful cmp) (ks : List α) (k : α) (h : k ∈ ks) :
    Container.insert cmp (buildC cmp ks) k = (buildC cmp ks, false) := by
  have hm := (C08_members hc ks k).mpr h
  have hf := find_complete hc k _ (C08_ordered hc ks) hm
  have hn := (descend_none_iff_find cmp k (build cmp ks) []).mpr (by simp [hf])
  simp [Container.insert, buildC_tree, hn]

/-- Owning flavour: inserting an absent key creates exactly one element. -/
theorem C08_owning_fresh {cmp : α → α → Int} (hc : Lawful cmp) (ks : List α) (k : α) (h : k ∉ ks) :
    (Container.insert cmp (buildC cmp ks) k).2 = true ∧
    (Container.insert cmp (buildC cmp ks) k).1.count = (buildC cmp ks).count + 1 := by
  have hm : k ∉ inorder (build cmp ks) := fun hm => h ((C08_members hc ks k).mp hm)
  have hf := (find_none_iff hc k _ (C08_ordered hc ks)).mpr hm
  cases hd : descend cmp k (build cmp ks) [] with
  | none => have := (descend_none_iff_find cmp k _ []).mp hd; simp [hf] at this
  | some path => simp [Container.insert, buildC_tree, hd]

/-- Owning flavour: `size()` is the number of nodes, i.e. of distinct keys inserted. -/
theorem C08_owning_count {cmp : α → α → Int} (hc : Lawful cmp) (ks : List α) :
    (buildC cmp ks).count = size (build cmp ks) := by
  induction ks using Ipr.List.snocInduction with
  | nil => rfl
  | append_singleton ks k ih =>
    have hs := size_insert hc (build cmp ks) k (C08_ordered hc ks)
    rw [build_snoc]
    rw [buildC_snoc]
    by_cases hk : k ∈ ks
    · rw [C08_owning_duplicate hc ks k hk, hs.1 ((C08_members hc ks k).mpr hk)]; exact ih
    · rw [(C08_owning_fresh hc ks k hk).2, hs.2 (fun hm => hk ((C08_members hc ks k).mp hm)), ih]

/-- No key is stored twice. -/
theorem C08_nodup {cmp : α → α → Int} (hc : Lawful cmp) (ks : List α) : (inorder (build cmp ks)).Nodup := by
  have := C08_ordered hc ks
  unfold Desc at this
  exact this.imp (fun {a b} h hab => by subst hab; exact Lawful.irrefl hc a h)

/-- Intrusive flavour: links the same tree; `count` counts calls (a duplicate is ignored but counted, as the code does). -/
theorem C08_chain (cmp : α → α → Int) (ks : List α) :
    (buildChain cmp ks).tree = build cmp ks ∧ (buildChain cmp ks).count = ks.length := by
  induction ks using Ipr.List.snocInduction with
  | nil => exact ⟨rfl, rfl⟩
  | append_singleton ks k ih =>
    simp only [buildChain, build, List.foldl_append, List.foldl_cons, List.foldl_nil, List.length_append,
      List.length_cons, List.length_nil] at ih ⊢
    simp [Chain.insert, ih.1, ih.2]

/-- The executable checkers run on real dumped shapes decide exactly the invariants. -/
theorem C08_checkRB_iff (t : Tree α) : checkRB t = true ↔ RBInv t := checkRB_iff t
theorem C08_checkBST_iff {cmp : α → α → Int} (hc : Lawful cmp) (t : Tree α) :
    checkBST cmp t = true ↔ Desc cmp (inorder t) := checkBST_iff hc t

/-- The comparators exercised by the correspondence are lawful. -/
theorem C08_icmp_lawful : Lawful icmp := icmp_lawful
theorem C08_lexCmp_lawful : Lawful lexCmp := lexCmp_lawful

/-! Non-vacuity: a concrete history with duplicates, rotations and a recolouring climb meets every hypothesis. -/
example : checkRB (build icmp [5, 3, 8, 1, 4, 7, 9, 2, 6, 10, 5, 3]) = true := by decide +kernel
example : checkBST icmp (build icmp [5, 3, 8, 1, 4, 7, 9, 2, 6, 10, 5, 3]) = true := by decide +kernel
example : size (build icmp [5, 3, 8, 1, 4, 7, 9, 2, 6, 10, 5, 3]) = 10 := by decide +kernel
example : find icmp 11 (build icmp [5, 3, 8, 1, 4, 7, 9, 2, 6, 10, 5, 3]) = none := by decide +kernel
/-- The checker is not trivially true: a red root with a red child is rejected. -/
example : checkRB (Tree.node .black (.node .red (.node .red .nil (1:Int) .nil) 2 .nil) 3 .nil) = false := by decide +kernel

end Ipr.RB
