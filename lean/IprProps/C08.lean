import IprProofs.RBOrder
import IprProofs.RBLinkedRefine
/-!
# C08 — the ordered-set utility stays a valid balanced search tree for any insertions

Every theorem below quantifies over **every** finite insertion sequence `ks` (any length, any repetitions) and
**every** lawful comparator.  The zipper model (`IprModel/RBTree.lean`) is tied to `include/ipr/utility` by the
exact-shape correspondence run by `check.py C08`.

The conjunct "consistent parent links" has no counterpart in a persistent tree.  It is proved in the second half of
this file (`C08_linked_*`) on the pointer-level model `IprModel/RBLinked.lean` — a store of cells with `left`, `right`
and `parent` fields updated statement by statement as the C++ does — which is shown to refine the zipper model for
every insertion sequence (`Linked.Repr`, `IprProofs/RBLinked*.lean`).  That model, too, is run by `check.py C08`
against the real structure: shape, colours, `count` and every node's parent are compared after every insertion.
-/
namespace Ipr.RB
open Tree

variable {α : Type}

/-- The tree reached by inserting `ks` in order into an empty tree (both flavours link the same nodes). -/
def build (cmp : α → α → Int) (ks : List α) : Tree α := ks.foldl (Tree.insert cmp) .nil

/-- The owning container after the same history. -/
def buildC (cmp : α → α → Int) (ks : List α) : Container α :=
  ks.foldl (fun c k => (Container.insert cmp c k).1) {}

/-- The intrusive chain after the same history. -/
def buildChain (cmp : α → α → Int) (ks : List α) : Chain α := ks.foldl (Chain.insert cmp) {}

theorem build_snoc (cmp : α → α → Int) (ks : List α) (k : α) :
    build cmp (ks ++ [k]) = Tree.insert cmp (build cmp ks) k := by simp [build, List.foldl_append]

/-- Red-black rules (black root, no red-red, equal black count) after every history; needs no comparator law. -/
theorem C08_redblack (cmp : α → α → Int) (ks : List α) : RBInv (build cmp ks) := by
  induction ks using Ipr.List.snocInduction with
  | nil => exact ⟨0, .nil⟩
  | append_singleton ks k ih => rw [build_snoc]; exact insert_rb cmp _ k ih

/-- Search-tree order after every history. -/
theorem C08_ordered {cmp : α → α → Int} (hc : Lawful cmp) (ks : List α) : Desc cmp (inorder (build cmp ks)) := by
  induction ks using Ipr.List.snocInduction with
  | nil => simp [build, inorder, Desc]
  | append_singleton ks k ih => rw [build_snoc]; exact insert_desc hc _ k ih

/-- The tree holds exactly the keys that were inserted. -/
theorem C08_members {cmp : α → α → Int} (hc : Lawful cmp) (ks : List α) (x : α) :
    x ∈ inorder (build cmp ks) ↔ x ∈ ks := by
  induction ks using Ipr.List.snocInduction with
  | nil => simp [build, inorder]
  | append_singleton ks k ih =>
    rw [build_snoc, mem_insert hc _ k x (C08_ordered hc ks), ih]; simp [or_comm]

/-- Every inserted key is found … -/
theorem C08_find_inserted {cmp : α → α → Int} (hc : Lawful cmp) (ks : List α) (x : α) (h : x ∈ ks) :
    find cmp x (build cmp ks) = some x :=
  find_complete hc x _ (C08_ordered hc ks) ((C08_members hc ks x).mpr h)

/-- … and a key never inserted is not. -/
theorem C08_find_absent {cmp : α → α → Int} (hc : Lawful cmp) (ks : List α) (x : α) (h : x ∉ ks) :
    find cmp x (build cmp ks) = none :=
  (find_none_iff hc x _ (C08_ordered hc ks)).mpr (fun hm => h ((C08_members hc ks x).mp hm))

/-- Height bound `2·log2(n+1)`. -/
theorem C08_height (cmp : α → α → Int) (ks : List α) :
    height (build cmp ks) ≤ 2 * Nat.log2 (size (build cmp ks) + 1) :=
  height_le_log (C08_redblack cmp ks)

theorem Container.insert_tree (cmp : α → α → Int) (c : Container α) (k : α) :
    (Container.insert cmp c k).1.tree = Tree.insert cmp c.tree k := by
  unfold Container.insert Tree.insert
  cases descend cmp k c.tree [] <;> rfl

theorem buildC_snoc (cmp : α → α → Int) (ks : List α) (k : α) :
    buildC cmp (ks ++ [k]) = (Container.insert cmp (buildC cmp ks) k).1 := by simp [buildC, List.foldl_append]

theorem buildC_tree (cmp : α → α → Int) (ks : List α) : (buildC cmp ks).tree = build cmp ks := by
  induction ks using Ipr.List.snocInduction with
  | nil => rfl
  | append_singleton ks k ih => rw [buildC_snoc, build_snoc, Container.insert_tree, ih]

/-- Owning flavour: inserting a key that is present returns the existing element and changes nothing. -/
theorem C08_owning_duplicate {cmp : α → α → Int} (hc : Lawful cmp) (ks : List α) (k : α) (h : k ∈ ks) :
    Container.insert cmp (buildC cmp ks) k = (buildC cmp ks, false) := by
  have hm := (C08_members hc ks k).mpr h
  have hf := find_complete hc k _ (C08_ordered hc ks) hm
  have hn := (descend_none_iff_find cmp k (build cmp ks) []).mpr (by simp [hf])
  simp [Container.insert, buildC_tree, hn]

/-- Owning flavour: inserting an absent key creates exactly one element. -/
theorem C08_owning_fresh {cmp : α → α → Int} (hc : Lawful cmp) (ks : List α) (k : α) (h : k ∉ ks) :
    (Container.insert cmp (buildC cmp ks) k).2 = true ∧
    (Container.insert cmp (buildC cmp ks) k).1.count = (buildC cmp ks).count + 1 := by
  have hm : k ∉ inorder (build cmp ks) := fun hm => h ((C08_members hc ks k).mp hm)
  have hf := (find_none_iff hc k _ (C08_ordered hc ks)).mpr hm
  cases hd : descend cmp k (build cmp ks) [] with
  | none => have := (descend_none_iff_find cmp k _ []).mp hd; simp [hf] at this
  | some path => simp [Container.insert, buildC_tree, hd]

/-- Owning flavour, element types whose construction can fail: with every construction succeeding, `insertMk` is `insert`. -/
theorem C08_insertMk_total (cmp : α → α → Int) (c : Container α) (k : α) :
    Container.insertMk cmp some c k = some (Container.insert cmp c k) := by
  unfold Container.insertMk Container.insert
  cases descend cmp k c.tree [] <;> rfl

/-- A key that is present is answered WITHOUT constructing anything: whatever `mk` would do (fail included), the existing
    element is returned and the container is unchanged. -/
theorem C08_present_key_constructs_nothing {cmp : α → α → Int} (hc : Lawful cmp) (mk : α → Option α) (ks : List α) (k : α)
    (h : k ∈ ks) : Container.insertMk cmp mk (buildC cmp ks) k = some (buildC cmp ks, false) := by
  have hm := (C08_members hc ks k).mpr h
  have hf := find_complete hc k _ (C08_ordered hc ks) hm
  have hn := (descend_none_iff_find cmp k (build cmp ks) []).mpr (by simp [hf])
  simp [Container.insertMk, buildC_tree, hn]

/-- A construction that fails is refused exactly when an element would have to be made (the key is absent) -- and then
    the caller's container is the one it had: `insertMk` returns no new container at all. -/
theorem C08_failed_construction_iff_absent {cmp : α → α → Int} (hc : Lawful cmp) (ks : List α) (k : α) :
    Container.insertMk cmp (fun _ => none) (buildC cmp ks) k = none ↔ k ∉ ks := by
  constructor
  · intro hnone hk
    rw [C08_present_key_constructs_nothing hc _ ks k hk] at hnone
    cases hnone
  · intro hk
    have hm : k ∉ inorder (build cmp ks) := fun hm => hk ((C08_members hc ks k).mp hm)
    have hf := (find_none_iff hc k _ (C08_ordered hc ks)).mpr hm
    cases hd : descend cmp k (build cmp ks) [] with
    | none => have := (descend_none_iff_find cmp k _ []).mp hd; simp [hf] at this
    | some path => simp [Container.insertMk, buildC_tree, hd]

/-- A client's history in which some constructions fail and are caught: each key is offered through `insertMk`; a refusal
    leaves the client with the container it had. -/
def buildMk (cmp : α → α → Int) (mk : α → Option α) (ks : List α) : Container α :=
  ks.foldl (fun c k => match Container.insertMk cmp mk c k with | some r => r.1 | none => c) {}

theorem buildMk_snoc (cmp : α → α → Int) (mk : α → Option α) (ks : List α) (k : α) :
    buildMk cmp mk (ks ++ [k]) =
      (match Container.insertMk cmp mk (buildMk cmp mk ks) k with | some r => r.1 | none => buildMk cmp mk ks) := by
  simp [buildMk, List.foldl_append]

/-- After any such history the container is exactly the one built from the keys whose construction succeeds, in the same
    order: failed attempts (keys absent or present) leave no trace -- no node, no count, no rebalancing. -/
theorem C08_failed_attempts_leave_no_trace (cmp : α → α → Int) (ok : α → Bool) (ks : List α) :
    buildMk cmp (fun k => if ok k then some k else none) ks = buildC cmp (ks.filter ok) := by
  induction ks using Ipr.List.snocInduction with
  | nil => rfl
  | append_singleton ks k ih =>
    rw [buildMk_snoc, ih, List.filter_append]
    by_cases hk : ok k = true
    · have : [k].filter ok = [k] := by simp [hk]
      rw [this, buildC_snoc]
      simp only [Container.insertMk, Container.insert, hk, if_true]
      cases descend cmp k (buildC cmp (ks.filter ok)).tree [] <;> rfl
    · have hk' : ok k = false := by simpa using hk
      have : [k].filter ok = [] := by simp [hk']
      rw [this, List.append_nil]
      simp only [Container.insertMk, hk']
      cases descend cmp k (buildC cmp (ks.filter ok)).tree [] <;> simp

-- non-vacuity: a refusal, an answer without construction, and a history with failures in it
example : Container.insertMk icmp (fun _ => none) (buildC icmp [5, 3, 7]) 6 = none := by decide
example : (Container.insertMk icmp (fun _ => none) (buildC icmp [5, 3, 7]) 3).isSome = true := by decide
example : (buildMk icmp (fun k => if k % 2 == 1 then some k else none) [5, 4, 3, 8, 7, 4]).count = 3 := by decide

/-- Owning flavour: `size()` is the number of nodes, i.e. of distinct keys inserted. -/
theorem C08_owning_count {cmp : α → α → Int} (hc : Lawful cmp) (ks : List α) :
    (buildC cmp ks).count = size (build cmp ks) := by
  induction ks using Ipr.List.snocInduction with
  | nil => rfl
  | append_singleton ks k ih =>
    have hs := size_insert hc (build cmp ks) k (C08_ordered hc ks)
    rw [build_snoc]
    rw [buildC_snoc]
    by_cases hk : k ∈ ks
    · rw [C08_owning_duplicate hc ks k hk, hs.1 ((C08_members hc ks k).mpr hk)]; exact ih
    · rw [(C08_owning_fresh hc ks k hk).2, hs.2 (fun hm => hk ((C08_members hc ks k).mp hm)), ih]

/-- No key is stored twice. -/
theorem C08_nodup {cmp : α → α → Int} (hc : Lawful cmp) (ks : List α) : (inorder (build cmp ks)).Nodup := by
  have := C08_ordered hc ks
  unfold Desc at this
  exact this.imp (fun {a b} h hab => by subst hab; exact Lawful.irrefl hc a h)

/-- Intrusive flavour: links the same tree; `count` counts calls (a duplicate is ignored but counted, as the code does). -/
theorem C08_chain (cmp : α → α → Int) (ks : List α) :
    (buildChain cmp ks).tree = build cmp ks ∧ (buildChain cmp ks).count = ks.length := by
  induction ks using Ipr.List.snocInduction with
  | nil => exact ⟨rfl, rfl⟩
  | append_singleton ks k ih =>
    simp only [buildChain, build, List.foldl_append, List.foldl_cons, List.foldl_nil, List.length_append,
      List.length_cons, List.length_nil] at ih ⊢
    simp [Chain.insert, ih.1, ih.2]

/-- The executable checkers run on real dumped shapes decide exactly the invariants. -/
theorem C08_checkRB_iff (t : Tree α) : checkRB t = true ↔ RBInv t := checkRB_iff t
theorem C08_checkBST_iff {cmp : α → α → Int} (hc : Lawful cmp) (t : Tree α) :
    checkBST cmp t = true ↔ Desc cmp (inorder t) := checkBST_iff hc t

/-- The comparators exercised by the correspondence are lawful. -/
theorem C08_icmp_lawful : Lawful icmp := icmp_lawful
theorem C08_lexCmp_lawful : Lawful lexCmp := lexCmp_lawful

/-! Non-vacuity: a concrete history with duplicates, rotations and a recolouring climb meets every hypothesis. -/
example : checkRB (build icmp [5, 3, 8, 1, 4, 7, 9, 2, 6, 10, 5, 3]) = true := by decide +kernel
example : checkBST icmp (build icmp [5, 3, 8, 1, 4, 7, 9, 2, 6, 10, 5, 3]) = true := by decide +kernel
example : size (build icmp [5, 3, 8, 1, 4, 7, 9, 2, 6, 10, 5, 3]) = 10 := by decide +kernel
example : find icmp 11 (build icmp [5, 3, 8, 1, 4, 7, 9, 2, 6, 10, 5, 3]) = none := by decide +kernel
/-- The checker is not trivially true: a red root with a red child is rejected. -/
example : checkRB (Tree.node .black (.node .red (.node .red .nil (1:Int) .nil) 2 .nil) 3 .nil) = false := by decide +kernel

/-! ## The pointer-level model -/
section Linked
variable [Inhabited α]
open Linked

/-- The store of linked cells reached by running `container<T>::insert` for `ks` in order from the empty container;
    `none` would mean undefined behaviour (null dereference) or an exhausted loop budget somewhere on the way. -/
def buildL (cmp : α → α → Int) (ks : List α) : Option (Store α) :=
  ks.foldlM (fun s k => (s.insertOwn cmp k).map (·.1)) {}

/-- The same for the intrusive flavour, every call bringing a freshly constructed node. -/
def buildLChain (cmp : α → α → Int) (ks : List α) : Option (Store α) :=
  ks.foldlM (fun s k => (s.insertChain cmp k).map (·.1)) {}

theorem buildL_snoc (cmp : α → α → Int) (ks : List α) (k : α) :
    buildL cmp (ks ++ [k]) = (buildL cmp ks).bind fun s => (s.insertOwn cmp k).map (·.1) := by
  simp [buildL, List.foldlM_append]

theorem buildLChain_snoc (cmp : α → α → Int) (ks : List α) (k : α) :
    buildLChain cmp (ks ++ [k]) = (buildLChain cmp ks).bind fun s => (s.insertChain cmp k).map (·.1) := by
  simp [buildLChain, List.foldlM_append]

/-- **Refinement, owning flavour.**  For every insertion sequence the pointer-level run is defined (no null
    dereference, the fuel handed to the three loops suffices) and the store it reaches represents exactly the tree of
    the zipper model: same keys, colours and shape, every child's `parent` naming its parent, null `parent` at the root,
    pairwise distinct addresses; `count` agrees with the zipper model's container. -/
theorem C08_linked_refines (cmp : α → α → Int) (ks : List α) :
    ∃ s, buildL cmp ks = some s ∧ Repr s (build cmp ks) ∧ s.count = (buildC cmp ks).count := by
  induction ks using Ipr.List.snocInduction with
  | nil => exact ⟨{}, rfl, repr_empty, rfl⟩
  | append_singleton ks k ih =>
    obtain ⟨s, hs, hr, hc⟩ := ih
    obtain ⟨s', w, fresh, h1, h2, h3, h4, _⟩ := insertOwn_refines cmp s _ k hr (C08_redblack cmp ks)
    refine ⟨s', by simp [buildL_snoc, hs, h1], by rw [build_snoc]; exact h2, ?_⟩
    rw [h4, buildC_snoc, hc]
    have : buildC cmp ks = ⟨build cmp ks, (buildC cmp ks).count⟩ := by rw [← buildC_tree]
    rw [← this]

/-- **Refinement, intrusive flavour.** -/
theorem C08_linked_chain_refines (cmp : α → α → Int) (ks : List α) :
    ∃ s, buildLChain cmp ks = some s ∧ Repr s (build cmp ks) ∧ s.count = ks.length := by
  induction ks using Ipr.List.snocInduction with
  | nil => exact ⟨{}, rfl, repr_empty, rfl⟩
  | append_singleton ks k ih =>
    obtain ⟨s, hs, hr, hc⟩ := ih
    obtain ⟨s', h1, h2, h3, _⟩ := insertChain_refines cmp s _ k hr (C08_redblack cmp ks)
    exact ⟨s', by simp [buildLChain_snoc, hs, h1], by rw [build_snoc]; exact h2, by simp [h3, hc]⟩

/-- **Shape.**  Reading the store back through `left`/`right` gives the zipper model's tree, in both flavours. -/
theorem C08_linked_shape (cmp : α → α → Int) (ks : List α) :
    (∃ s, buildL cmp ks = some s ∧ s.toTree (s.count + 1) s.root = build cmp ks) ∧
    (∃ s, buildLChain cmp ks = some s ∧ s.toTree (s.count + 1) s.root = build cmp ks) := by
  obtain ⟨s, h1, h2, _⟩ := C08_linked_refines cmp ks
  obtain ⟨s', h1', h2', _⟩ := C08_linked_chain_refines cmp ks
  exact ⟨⟨s, h1, h2.toTree⟩, ⟨s', h1', h2'.toTree⟩⟩

/-- **Consistent parent links after every insertion sequence** (the conjunct the zipper model could not express),
    stated on the raw cells: there is a duplicate-free list `fp` of as many addresses as the tree has nodes such that the
    root is in `fp` and has a null `parent`, and for every `a ∈ fp` a non-null `left`/`right` child `c` is again in `fp`
    and `c`'s `parent` field is `a`; an empty container has a null root. -/
theorem C08_linked_parent_links (cmp : α → α → Int) (ks : List α) :
    ∃ s fp, buildL cmp ks = some s ∧ LinksOK s fp ∧ fp.length = size (build cmp ks) := by
  obtain ⟨s, h1, h2, _⟩ := C08_linked_refines cmp ks
  obtain ⟨fp, h3, h4⟩ := h2.links
  exact ⟨s, fp, h1, h3, h4⟩

theorem C08_linked_chain_parent_links (cmp : α → α → Int) (ks : List α) :
    ∃ s fp, buildLChain cmp ks = some s ∧ LinksOK s fp ∧ fp.length = size (build cmp ks) := by
  obtain ⟨s, h1, h2, _⟩ := C08_linked_chain_refines cmp ks
  obtain ⟨fp, h3, h4⟩ := h2.links
  exact ⟨s, fp, h1, h3, h4⟩

/-- The red-black rules, the search order and the height bound transfer to the linked structure. -/
theorem C08_linked_invariants {cmp : α → α → Int} (hc : Lawful cmp) (ks : List α) :
    ∃ s, buildL cmp ks = some s ∧ RBInv (s.toTree (s.count + 1) s.root) ∧
      Desc cmp (inorder (s.toTree (s.count + 1) s.root)) ∧
      height (s.toTree (s.count + 1) s.root) ≤ 2 * Nat.log2 (size (s.toTree (s.count + 1) s.root) + 1) ∧
      s.count = size (s.toTree (s.count + 1) s.root) := by
  obtain ⟨s, h1, h2, h3⟩ := C08_linked_refines cmp ks
  refine ⟨s, h1, ?_⟩
  rw [h2.toTree]
  exact ⟨C08_redblack cmp ks, C08_ordered hc ks, C08_height cmp ks, by rw [h3, C08_owning_count hc]⟩

/-- `find` on the linked structure: every inserted key is found at a node holding it, a key never inserted is not. -/
theorem C08_linked_find {cmp : α → α → Int} (hc : Lawful cmp) (ks : List α) (x : α) :
    ∃ s r, buildL cmp ks = some s ∧ Store.find cmp s x = some r ∧
      (x ∈ ks → r.map s.key = some x) ∧ (x ∉ ks → r = none) := by
  obtain ⟨s, h1, h2, _⟩ := C08_linked_refines cmp ks
  obtain ⟨r, h3, h4⟩ := h2.find cmp x
  refine ⟨s, r, h1, h3, ?_, ?_⟩
  · intro hx; rw [h4, C08_find_inserted hc ks x hx]
  · intro hx
    rw [C08_find_absent hc ks x hx] at h4
    cases r <;> simp_all

/-- Owning flavour on the linked structure: an equal key returns the existing node and changes nothing at all … -/
theorem C08_linked_owning_duplicate {cmp : α → α → Int} (hc : Lawful cmp) (ks : List α) (k : α) (h : k ∈ ks) :
    ∃ s w, buildL cmp ks = some s ∧ s.insertOwn cmp k = some (s, w, false) ∧ s.key w = k := by
  obtain ⟨s, h1, h2, h3⟩ := C08_linked_refines cmp ks
  obtain ⟨s', w, fresh, e1, _, e3, _, _, e6⟩ := insertOwn_refines cmp s _ k h2 (C08_redblack cmp ks)
  have hdup := C08_owning_duplicate hc ks k h
  have hb : buildC cmp ks = ⟨build cmp ks, s.count⟩ := by rw [h3, ← buildC_tree]
  rw [← hb, hdup] at e3
  subst e3
  obtain ⟨rfl, hf⟩ := e6 rfl
  rw [C08_find_inserted hc ks k h] at hf
  exact ⟨s', w, h1, e1, by simpa using hf.symm⟩

/-- … and an absent key links exactly one new node, which holds the key. -/
theorem C08_linked_owning_fresh {cmp : α → α → Int} (hc : Lawful cmp) (ks : List α) (k : α) (h : k ∉ ks) :
    ∃ s s' w, buildL cmp ks = some s ∧ s.insertOwn cmp k = some (s', w, true) ∧ s'.key w = k ∧ s'.count = s.count + 1 := by
  obtain ⟨s, h1, h2, h3⟩ := C08_linked_refines cmp ks
  obtain ⟨s', w, fresh, e1, _, e3, e4, e5, _⟩ := insertOwn_refines cmp s _ k h2 (C08_redblack cmp ks)
  have hfr := C08_owning_fresh hc ks k h
  have hb : buildC cmp ks = ⟨build cmp ks, s.count⟩ := by rw [h3, ← buildC_tree]
  rw [← hb] at e3 e4
  rw [hfr.1] at e3
  subst e3
  exact ⟨s, s', w, h1, e1, e5 rfl, by rw [e4, hfr.2, h3]⟩

/-! Non-vacuity of the pointer-level theorems: the same concrete history as above (duplicates, rotations, a recolouring
    climb) runs to completion on the store, and the cells hold the expected links. -/
example : (match buildL icmp [5, 3, 8, 1, 4, 7, 9, 2, 6, 10, 5, 3] with
    | some s => s.root == some 0 && s.count == 10 && s.next == 10 && s.parent 0 == none && s.parent 7 == some 3 &&
        s.left 3 == some 7 && s.key 7 == 2 &&
        (s.toTree (s.count + 1) s.root).inorder == (build icmp [5, 3, 8, 1, 4, 7, 9, 2, 6, 10, 5, 3]).inorder &&
        (s.toTree (s.count + 1) s.root).checkRB
    | none => false) = true := by decide +kernel
example : (match buildLChain icmp [5, 3, 8, 5, 1, 4, 3] with
    | some s => s.root == some 0 && s.count == 7 && s.next == 7 && s.parent 5 == some 1 && s.parent 3 == none
    | none => false) = true := by decide +kernel
/-- `LinksOK` is not trivially true: a child whose `parent` field was forgotten is rejected, whatever `fp`. -/
example : ¬ ∃ fp, LinksOK ({ mem := #[⟨(1 : Int), .black, some 1, none, none⟩, ⟨2, .red, none, none, none⟩],
                             root := some 0, count := 2, next := 2 } : Store Int) fp := by
  rintro ⟨fp, h⟩
  have h0 := (h.root 0 rfl).1
  have := (h.left 0 h0 1 rfl).2
  exact absurd this (by decide)

end Linked
end Ipr.RB
