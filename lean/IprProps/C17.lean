import IprProofs.Printer
import IprProofs.PrinterGood
import IprProofs.PrinterLoc
import IprProofs.PrinterExamples
/-!
# C17 — printed text depends only on graph structure and printer options

Model: `IprModel/Printer.lean` (`dispatch` / `print`), the interpreter of the production table of `src/io.cxx`.
A print is a function `Heap → Opts → … → Res`; its result holds the text, the printer state and an outcome — never a heap and
never an address: that printing leaves the graph untouched and that a fresh printer reproduces the same text are facts of
the model's type.  What needs proof is that the *addresses* inside the heap do not matter, that nothing outside the printed
part of the graph matters, and how the option `print_locations` changes the text.
-/
namespace Ipr.Printer

/-- **Address independence, general form.** If on a set `R` of addresses closed under operands the heap `h'` is `h` with all
    addresses renamed by `σ`, and `σ` is injective on `R`, then offering `σ a` in `h'` gives *the same result* (text, printer
    state, outcome) as offering `a` in `h` — for every visitor entry, every fuel, every options, every initial printer state.
    Outside `R` the two heaps are unrelated (other allocations, other Lexicons' nodes). -/
theorem C17_rename {σ : Addr → Addr} {R : Addr → Prop} {h h' : Heap} (iso : Iso σ R h h') (o : Opts) (n : Nat) (e : Entry)
    (a : Addr) (ha : R a) (st : PState) : dispatch h' o n e (σ a) st = dispatch h o n e a st :=
  dispatch_iso iso o n e a st ha

/-- **Address independence for an injective renaming:** if `σ` is injective and `h'` stores at `σ a` the node of `h` at `a` with
    its addresses renamed (whatever `h'` holds elsewhere), then `print h' (σ root) = print h root`. -/
theorem C17_rename_injective (σ : Addr → Addr) (hinj : Function.Injective σ) (h h' : Heap)
    (hom : ∀ a, h' (σ a) = (h a).rename σ) (o : Opts) (fuel : Nat) (route : Route) (root : Addr) (fmt : Fmt) :
    print h' o fuel route (σ root) fmt = print h o fuel route root fmt :=
  dispatch_iso (R := fun _ => True) ⟨fun a _ => hom a, fun _ _ _ _ => trivial, fun _ _ _ _ e => hinj e⟩ o fuel route.entry root _ trivial

/-- **Two builds of one structure print alike.**  If two heaps (two Lexicons, two runs, two allocation orders) each hold a copy
    of the same abstract graph `h` — at addresses given by two *different* injective placements `σ₁`, `σ₂` — then offering the
    two copies of any root gives the same result, byte for byte, whatever else either heap holds. -/
theorem C17_isomorphic_graphs (σ₁ σ₂ : Addr → Addr) (h₁inj : Function.Injective σ₁) (h₂inj : Function.Injective σ₂)
    (h h₁ h₂ : Heap) (hom₁ : ∀ a, h₁ (σ₁ a) = (h a).rename σ₁) (hom₂ : ∀ a, h₂ (σ₂ a) = (h a).rename σ₂)
    (o : Opts) (fuel : Nat) (route : Route) (root : Addr) (fmt : Fmt) :
    print h₁ o fuel route (σ₁ root) fmt = print h₂ o fuel route (σ₂ root) fmt :=
  (C17_rename_injective σ₁ h₁inj h h₁ hom₁ o fuel route root fmt).trans
    (C17_rename_injective σ₂ h₂inj h h₂ hom₂ o fuel route root fmt).symm

/-- … in particular the *text* and the outcome are the same (what a client of `Printer` can observe). -/
theorem C17_isomorphic_graphs_text (σ₁ σ₂ : Addr → Addr) (h₁inj : Function.Injective σ₁) (h₂inj : Function.Injective σ₂)
    (h h₁ h₂ : Heap) (hom₁ : ∀ a, h₁ (σ₁ a) = (h a).rename σ₁) (hom₂ : ∀ a, h₂ (σ₂ a) = (h a).rename σ₂)
    (o : Opts) (fuel : Nat) (route : Route) (root : Addr) (fmt : Fmt) :
    (print h₁ o fuel route (σ₁ root) fmt).st.text = (print h₂ o fuel route (σ₂ root) fmt).st.text ∧
    (print h₁ o fuel route (σ₁ root) fmt).status = (print h₂ o fuel route (σ₂ root) fmt).status := by
  rw [C17_isomorphic_graphs σ₁ σ₂ h₁inj h₂inj h h₁ h₂ hom₁ hom₂ o fuel route root fmt]; exact ⟨rfl, rfl⟩

/-- **Address independence, as stated in the design:** for every heap, root, route, options and every renaming `σ` of addresses
    that has a left inverse (i.e. every injective renaming), `print (σ • heap) (σ root) = print heap root`. -/
theorem C17_rename_heap (σ τ : Addr → Addr) (hinv : ∀ a, τ (σ a) = a) (h : Heap) (o : Opts) (fuel : Nat) (route : Route)
    (root : Addr) (fmt : Fmt) : print (renameHeap σ τ h) o fuel route (σ root) fmt = print h o fuel route root fmt :=
  dispatch_iso (renameHeap_iso hinv h) o fuel route.entry root _ trivial

/-- **Unrelated allocations do not matter:** two heaps that agree on a set closed under operands print every node of that
    set alike. -/
theorem C17_unrelated_allocations {R : Addr → Prop} {h h' : Heap} (hag : ∀ a, R a → h' a = h a)
    (hcl : ∀ a, R a → ∀ b ∈ (h a).children, R b) (o : Opts) (fuel : Nat) (route : Route) (root : Addr) (hr : R root) (fmt : Fmt) :
    print h' o fuel route root fmt = print h o fuel route root fmt :=
  dispatch_iso (agree_iso hag hcl) o fuel route.entry root _ hr

/-- **Location erasure.** The run with `print_locations` and the run without have the same outcome, and the same chunks once
    location tokens and identifier-padding blanks are removed; they leave the printer with the same pending newline and
    indentation, and have met the same number of located statements / declarations.
    (Equality of the raw texts after erasing the tokens does *not* hold for the code as it is: a location token resets the
    padding, so `(p : int,  q : int)` becomes `(F1:1 p : int, F2:3 q : int)` — one blank fewer. The theorem is exact about
    which bytes may differ.) -/
theorem C17_loc_erase (h : Heap) (fuel : Nat) (route : Route) (root : Addr) (fmt : Fmt) :
    let r1 := print h withLoc fuel route root fmt
    let r0 := print h noLoc fuel route root fmt
    r1.status = r0.status ∧ strip r1.st.out = strip r0.st.out ∧ renderChunks (strip r1.st.out) = renderChunks (strip r0.st.out) ∧
      r1.st.nl = r0.st.nl ∧ r1.st.indent = r0.st.indent ∧ r1.st.located = r0.st.located := by
  have := dispatch_sim h fuel route.entry root (PState.fresh fmt) (PState.fresh fmt) (Sim.refl _)
  exact ⟨this.1, this.2.out, congrArg renderChunks this.2.out, this.2.nl, this.2.indent, this.2.located⟩

/-- **No location token unless enabled:** with `print_locations` off no chunk of the output belongs to a location token. -/
theorem C17_loc_only_when_enabled (h : Heap) (fuel : Nat) (route : Route) (root : Addr) (fmt : Fmt) :
    ∀ c ∈ (print h noLoc fuel route root fmt).st.out, c.inLoc = false := by
  obtain ⟨_, _, _, new, hout, hgood⟩ := dispatch_good h noLoc fuel route.entry root (PState.fresh fmt)
  intro c hc
  have hout' : (print h noLoc fuel route root fmt).st.out = new := by simpa [print, PState.fresh] using hout
  rw [hout'] at hc
  exact (hgood c hc).1 rfl

/-- **A location token exactly for every located statement / declaration:** with `print_locations` on, the number of
    location tokens (`F<file>:<line>[:<column>] `) in the output equals the number of statement / declaration entries
    (`xpr_stmt` / `xpr_decl`) made on a node with a non-zero file index — the same number as in the run without locations. -/
theorem C17_loc_count (h : Heap) (fuel : Nat) (route : Route) (root : Addr) (fmt : Fmt) :
    countHeads (print h withLoc fuel route root fmt).st.out = (print h withLoc fuel route root fmt).st.located ∧
    (print h withLoc fuel route root fmt).st.located = (print h noLoc fuel route root fmt).st.located := by
  have hc := dispatch_count h fuel route.entry root (PState.fresh fmt)
  have hs := dispatch_sim h fuel route.entry root (PState.fresh fmt) (PState.fresh fmt) (Sim.refl _)
  refine ⟨?_, hs.2.located⟩
  simpa [print, QCount, PState.fresh, countHeads] using hc

/-! ## Non-vacuity: a concrete heap, a genuine renaming, the texts -/

/-- The sample program prints as expected, with and without locations. -/
example : (print (heapOf sampleHeap) noLoc 88 .stmt 9).st.text = strBytes "{\n   x : static int(7);\n   while (x)\n      {\n         x;\n      }\n}" := by
  decide +kernel
example : (print (heapOf sampleHeap) withLoc 88 .stmt 9).st.text = strBytes "{\n   F3:12:5 F3:12:5 x : static int(7);\n   while (x)\n      {\n         F3:13 x;\n      }\n}" := by
  decide +kernel
/-- (The declaration statement is entered twice — `xpr_stmt`, then `xpr::Stmt::visit(const Decl&)` → `xpr_decl` — and each
    entry prints the location: three tokens for two located nodes. That is what the code does.) -/
example : (print (heapOf sampleHeap) withLoc 88 .stmt 9).st.located = 3 := by decide +kernel
example : (print (heapOf sampleHeap) noLoc 88 .stmt 9).status = .ok := by decide +kernel

/-- A renaming that is not the identity (shift every address by 100; left inverse: subtract 100). -/
example : print (renameHeap (· + 100) (· - 100) (heapOf sampleHeap)) withLoc 88 .stmt 109 = print (heapOf sampleHeap) withLoc 88 .stmt 9 :=
  C17_rename_heap (· + 100) (· - 100) (fun a => by simp) _ _ _ _ _ _

/-- The padding blank that location printing removes (second of two parameters): the texts differ by exactly that blank. -/
example : (strip (print (heapOf sampleHeap) withLoc 88 .stmt 9).st.out).length = (strip (print (heapOf sampleHeap) noLoc 88 .stmt 9).st.out).length := by
  decide +kernel

end Ipr.Printer
