import IprProofs.Intern
import Generated.KnownWords
/-!
# C03 — words are interned: one String node per distinct byte content, content preserved

Model: `IprModel/Arena.lean` (`util::string::arena`: pools, 16-byte headers, the three branches of `allocate`, the
byte-vs-header comparison, the oversize pool spliced behind the head, memory as bytes) and `IprModel/Intern.lean`
(`string_pool::intern`: empty word, binary search over the reserved-word table, hash buckets searched by content).

Every theorem quantifies over **every** pool capacity `B ≥ 1` (65 536 in the repository), **every** hash function `h`,
**every** reserved-word table `tbl` (sortedness is assumed only where stated) and **every** finite history of words of any
lengths and byte values.  The model is tied to the C++ by the white-box correspondence run of `check.py C03`; the table
`Generated.knownWords` is regenerated from src/impl.cxx on every run.
-/
namespace Ipr.Intern
open Ipr.Arena

/-! ## (a) allocation geometry -/

/-- The headers granted hold the string: `8 + 16·(m − 1) ≥ n` for `m = (n + 7) / 16 + 1`. -/
theorem C03_granules_fit (n : Nat) : n ≤ 8 + 16 * (hdrs n - 1) := by unfold hdrs; omega

/-- For every sequence of requested lengths: one allocation per request; each lies inside the storage of an existing pool
    (length field and all characters); the header ranges of any two are disjoint (or in different pools). -/
theorem C03_alloc_in_bounds_disjoint (B : Nat) (hB : 1 ≤ B) (ns : List Nat) :
    (allocAll (Arena.init B) ns).2.map Prod.snd = ns ∧
    (∀ a ∈ (allocAll (Arena.init B) ns).2, InBounds (allocAll (Arena.init B) ns).1 a) ∧
    (allocAll (Arena.init B) ns).2.Pairwise Disj := by
  obtain ⟨hwf, hmap, _, hlive, hpw⟩ := allocAll_spec ns (Arena.init B) (WF_init B hB)
  exact ⟨hmap, fun a ha => Live.inBounds hwf (hlive a ha), hpw⟩

/-- Disjoint header ranges mean disjoint bytes: the bytes written for `a` (length field and characters,
    `[16·hdr, 16·hdr + 8 + n)`) and those written for `b` do not meet when they are in the same pool. -/
theorem C03_disjoint_bytes (a b : Loc × Nat) (h : Disj a b) (hp : a.1.pool = b.1.pool) :
    16 * a.1.hdr + 8 + a.2 ≤ 16 * b.1.hdr ∨ 16 * b.1.hdr + 8 + b.2 ≤ 16 * a.1.hdr := by
  have h1 := hdrs_fits a.2
  have h2 := hdrs_fits b.2
  rcases h with h | h | h
  · exact absurd hp h
  · left; omega
  · right; omega

/-- The invariant (well-formed arena; every node allocated in bounds; nodes pairwise disjoint; contents pairwise distinct,
    non-empty, not reserved, filed under their hash) holds in every state reachable from a fresh pool. -/
theorem C03_reachable_invariant (tbl : List Word) (h : Word → Nat) (B : Nat) (hB : 1 ≤ B) (ws : List Word) :
    Inv tbl h (internAll tbl h (StringPool.init B) ws).1 :=
  (internAll_spec tbl h ws _ (Inv_init tbl h B hB)).1

/-- In every reachable pool state every node's bytes are inside its arena pool and any two nodes are disjoint. -/
theorem C03_nodes_in_bounds_disjoint (tbl : List Word) (h : Word → Nat) (B : Nat) (hB : 1 ≤ B) (ws : List Word)
    (k k' : Nat) (x y : StrNode)
    (hx : x ∈ Buckets.get (internAll tbl h (StringPool.init B) ws).1.buckets k)
    (hy : y ∈ Buckets.get (internAll tbl h (StringPool.init B) ws).1.buckets k') :
    InBounds (internAll tbl h (StringPool.init B) ws).1.arena x.alloc ∧ (x ≠ y → Disj x.alloc y.alloc) := by
  have hI := C03_reachable_invariant tbl h B hB ws
  exact ⟨Live.inBounds hI.wf (hI.live k x hx), hI.disj k x k' y hx hy⟩

/-! ## (b) content preservation -/

/-- `make_string` never changes the characters of a string allocated earlier (arena level). -/
theorem C03_make_string_preserves (A : Arena) (hA : WF A) (w : Word) (l : Loc) (k : Nat) (hl : Live A l k) :
    (A.makeString w).1.read l k = A.read l k :=
  ((makeString_spec A w hA).2.2.2.2 l k hl).2.2

/-- … and returns a view that reads back exactly the bytes given. -/
theorem C03_make_string_reads_back (A : Arena) (hA : WF A) (w : Word) :
    (A.makeString w).1.read (A.makeString w).2 w.length = w :=
  (makeString_spec A w hA).2.2.1

/-- One more `intern`, of any word, leaves every reference handed out before valid and with the same characters. -/
theorem C03_later_intern_preserves (tbl : List Word) (h : Word → Nat) (S : StringPool) (hS : Inv tbl h S)
    (r : Ref) (hr : Valid tbl S r) (w : Word) :
    Valid tbl (intern tbl h S w).1 r ∧ characters tbl (intern tbl h S w).1 r = characters tbl S r :=
  (intern_spec tbl h S w hS).2.2.2 r hr

/-! ## (c), (d) the interning law, for whole histories -/

/-- One reference per interned word. -/
theorem C03_one_result_per_word (tbl : List Word) (h : Word → Nat) (B : Nat) (hB : 1 ≤ B) (ws : List Word) :
    (internAll tbl h (StringPool.init B) ws).2.length = ws.length :=
  (internAll_spec tbl h ws _ (Inv_init tbl h B hB)).2.1

/-- (d) + (b): after the **whole** history — i.e. after every later interning, pool roll-over and oversize allocation —
    the `i`-th returned String still reads exactly the `i`-th word: all bytes, embedded NULs included. -/
theorem C03_characters (tbl : List Word) (h : Word → Nat) (B : Nat) (hB : 1 ≤ B) (ws : List Word)
    (i : Nat) (r : Ref) (w : Word)
    (hr : (internAll tbl h (StringPool.init B) ws).2[i]? = some r) (hw : ws[i]? = some w) :
    characters tbl (internAll tbl h (StringPool.init B) ws).1 r = w :=
  ((internAll_spec tbl h ws _ (Inv_init tbl h B hB)).2.2.2 i r w hr hw).2

/-- (c) Two requests of a history return the same node **iff** they interned the same bytes — for any hash function,
    colliding or not, and whatever happened in between. -/
theorem C03_intern_iff (tbl : List Word) (h : Word → Nat) (B : Nat) (hB : 1 ≤ B) (ws : List Word)
    (i j : Nat) (hi : i < ws.length) (hj : j < ws.length) :
    (internAll tbl h (StringPool.init B) ws).2[i]? = (internAll tbl h (StringPool.init B) ws).2[j]? ↔ ws[i] = ws[j] := by
  obtain ⟨hI, hL, _, hR⟩ := internAll_spec tbl h ws _ (Inv_init tbl h B hB)
  have hi' : i < (internAll tbl h (StringPool.init B) ws).2.length := by omega
  have hj' : j < (internAll tbl h (StringPool.init B) ws).2.length := by omega
  obtain ⟨vi, ci⟩ := hR i _ _ (List.getElem?_eq_getElem hi') (List.getElem?_eq_getElem hi)
  obtain ⟨vj, cj⟩ := hR j _ _ (List.getElem?_eq_getElem hj') (List.getElem?_eq_getElem hj)
  rw [List.getElem?_eq_getElem hi', List.getElem?_eq_getElem hj', Option.some.injEq]
  constructor
  · intro he; rw [← ci, ← cj, he]
  · intro he; exact characters_inj hI vi vj (by rw [ci, cj, he])

/-- The identity the C++ compares (the node's address, here its creation ordinal) determines the node. -/
theorem C03_identity (tbl : List Word) (h : Word → Nat) (B : Nat) (hB : 1 ≤ B) (ws : List Word)
    (i j : Nat) (x y : StrNode)
    (hx : (internAll tbl h (StringPool.init B) ws).2[i]? = some (.dyn x))
    (hy : (internAll tbl h (StringPool.init B) ws).2[j]? = some (.dyn y)) (hid : x.id = y.id) : x = y := by
  obtain ⟨hI, hL, _, hR⟩ := internAll_spec tbl h ws _ (Inv_init tbl h B hB)
  have hi : i < ws.length := by
    have := (List.getElem?_eq_some_iff.mp hx).1; omega
  have hj : j < ws.length := by
    have := (List.getElem?_eq_some_iff.mp hy).1; omega
  obtain ⟨⟨k, hkx⟩, _⟩ := hR i _ _ hx (List.getElem?_eq_getElem hi)
  obtain ⟨⟨k', hky⟩, _⟩ := hR j _ _ hy (List.getElem?_eq_getElem hj)
  exact hI.iduniq k x k' y hkx hky hid

/-! ## (e) reserved words and the empty word -/

/-- For a strictly sorted table the binary search finds exactly the members. -/
theorem C03_word_if_known_iff (tbl : List Word) (hs : StrictSorted tbl) (w : Word) (i : Nat) :
    wordIfKnown tbl w = some i ↔ tbl[i]? = some w := wordIfKnown_iff hs w i

/-- The order the search relies on (`std::u8string_view::operator<`) is a strict **total** order on all byte strings —
    irreflexive, transitive, and two words neither of which precedes the other are the same bytes (embedded NULs and
    prefixes included): a sorted table therefore has no two entries the search could confuse. -/
theorem C03_word_order_strict_total (a b c : Word) :
    wordLt a a = false ∧ (wordLt a b = true → wordLt b c = true → wordLt a c = true) ∧
    (wordLt a b = false → wordLt b a = false → a = b) := by
  refine ⟨wordLt_irrefl a, wordLt_trans, ?_⟩
  induction a generalizing b with
  | nil => cases b <;> simp [wordLt]
  | cons x xs ih =>
    cases b with
    | nil => simp [wordLt]
    | cons y ys =>
      simp only [wordLt, Bool.or_eq_false_iff, Bool.and_eq_false_imp, decide_eq_false_iff_not, beq_iff_eq, and_imp]
      intro h1 h2 h3 h4
      have hxy : x = y := by
        apply UInt8.toNat_inj.mp
        have h1' : ¬ x.toNat < y.toNat := fun h => h1 (UInt8.lt_iff_toNat_lt.mpr h)
        have h3' : ¬ y.toNat < x.toNat := fun h => h3 (UInt8.lt_iff_toNat_lt.mpr h)
        omega
      subst hxy
      rw [ih ys (h2 rfl) (h4 rfl)]

/-- The table regenerated from src/impl.cxx is strictly sorted in the byte order the C++ uses … -/
theorem C03_known_words_sorted : StrictSorted Ipr.Generated.knownWords :=
  sortedB_sound (by decide +kernel)

/-- … and contains no empty word (so the empty-word test never shadows a table entry). -/
theorem C03_known_words_nonempty : ∀ w ∈ Ipr.Generated.knownWords, w ≠ [] := by decide +kernel

/-- The empty word is the constant node, in any pool state; the pool is left untouched. -/
theorem C03_empty_word_constant (tbl : List Word) (h : Word → Nat) (S : StringPool) :
    intern tbl h S [] = (S, .empty) := by simp [intern]

/-- Every word of the regenerated table is answered with its table entry's constant node — the same answer whatever the
    pool state `S` (hence from every Lexicon) and whatever the hash function — and the pool is left untouched. -/
theorem C03_reserved_word_constant (h : Word → Nat) (S : StringPool) (w : Word) (i : Nat)
    (hw : Ipr.Generated.knownWords[i]? = some w) :
    intern Ipr.Generated.knownWords h S w = (S, .known i) := by
  have hk := (wordIfKnown_iff C03_known_words_sorted w i).mpr hw
  have hne : w ≠ [] := C03_known_words_nonempty w (List.mem_of_getElem? hw)
  rcases intern_cases Ipr.Generated.knownWords h S w with ⟨h0, _⟩ | ⟨_, i', hk', he⟩ | ⟨_, hk', _⟩ | ⟨_, hk', _⟩
  · exact absurd h0 hne
  · rw [hk] at hk'; cases hk'; exact he
  · rw [hk] at hk'; cases hk'
  · rw [hk] at hk'; cases hk'

/-- A word that is neither empty nor in the table never gets a constant node. -/
theorem C03_other_words_dynamic (h : Word → Nat) (S : StringPool) (w : Word) (hne : w ≠ [])
    (hw : w ∉ Ipr.Generated.knownWords) : ∃ x, (intern Ipr.Generated.knownWords h S w).2 = .dyn x := by
  have hk : wordIfKnown Ipr.Generated.knownWords w = none := by
    cases hk : wordIfKnown Ipr.Generated.knownWords w with
    | none => rfl
    | some i => exact absurd (List.mem_of_getElem? (wordIfKnown_some hk)) hw
  rcases intern_cases Ipr.Generated.knownWords h S w with ⟨h0, _⟩ | ⟨_, i', hk', he⟩ | ⟨_, _, x, _, _, he⟩ | ⟨_, _, _, he⟩
  · exact absurd h0 hne
  · rw [hk] at hk'; cases hk'
  · exact ⟨x, by rw [he]⟩
  · exact ⟨_, by rw [he]⟩

/-! ## Non-vacuity: concrete histories on a tiny arena (4 headers per pool) with a constant hash (everything collides) -/

private def demo : List Word :=
  [[1, 0, 2], [105, 110, 116], [], [1, 0, 2, 0], List.replicate 30 7, [1, 0, 2], List.replicate 9 0, [1, 0], List.replicate 30 7]

-- oversize (30 bytes need 3 headers, 2 are left, 30 > 4: own pool behind the head), roll-over (`[1, 0]` finds no header left:
-- fresh pool in front), embedded NULs, a reserved word, the empty word, repeats:
example : ((internAll Ipr.Generated.knownWords (fun _ => 0) (StringPool.init 4) demo).2.map
    (fun r => match r with | .empty => 1000 | .known i => 2000 + i | .dyn x => x.id)) =
    [0, 2026, 1000, 1, 2, 0, 3, 4, 2] := by decide +kernel
example : (demo.zip (internAll Ipr.Generated.knownWords (fun _ => 0) (StringPool.init 4) demo).2).all
    (fun p => characters Ipr.Generated.knownWords (internAll Ipr.Generated.knownWords (fun _ => 0) (StringPool.init 4) demo).1 p.2 == p.1)
    = true := by decide +kernel
example : (internAll Ipr.Generated.knownWords (fun _ => 0) (StringPool.init 4) demo).1.arena.pools.length = 3 := by
  decide +kernel
/-- The sortedness checker is not trivially true. -/
example : sortedB [[1, 2], [1]] = false := by decide +kernel
example : sortedB [[1], [1]] = false := by decide +kernel

end Ipr.Intern
