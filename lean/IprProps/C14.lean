import IprProofs.Seq
import IprProofs.Outcome
/-!
# C14 — missing or out-of-range data raises a logic error, never undefined behaviour  (PARTIAL in the last conjunct)

Two models, both executed by `IprDriver/C14.lean` and compared with the real library by `check.py C14`:

* `IprModel/Seq.lean` — `ipr::Sequence<T>` (size / get / the iterator loops) and its implementations.  Part A states the
  bounds and iteration laws ONCE, for any `View` that is positional access into a list of *slots* (`View.Meets`: a slot is
  `some x`, an element, or `none`, a place made by the sizing constructor / `resize` / `push_back(nullptr)` and never
  filled), and then shows, for every implementation and EVERY slot list / member list, that its view is of that form.
* `IprModel/Outcome.lean` — what each interface accessor answers on a partially built node.  Part B is about every
  history of link assignments from the state the factory returns (`State.initial`, `State.run`); Part C lifts the
  hygiene of the hand-written table `kinds` (kernel evaluation over the whole table — these ARE finite facts) to every
  kind, every accessor row and every history by the general lemmas of Part B.

What is NOT a theorem (and cannot be: Lean functions are total): that the C++ never runs into undefined behaviour.
The theorems fix WHICH outcome is required in which state; that nothing else happens is observed by ASan+UBSan
(`-fno-sanitize-recover=all`) on the states and index ranges the check sweeps.  Which accessor reads which link is the
content of the table, tied to the code by that sweep, not proved.
-/
namespace Ipr.Seq
variable {α τ : Type}

/-! ## Part A — sequences

### A.1 laws of any implementation that is positional access into a slot list -/

/-- `get(i)` is refused (an exception derived from `std::logic_error`) exactly when `i ≥ size()` or slot `i` was never filled. -/
theorem C14_get_refused_iff (v : View α) (slots : List (Option α)) (hv : v.Meets slots) (i : Nat) :
    failed (v.get i) = true ↔ v.size ≤ i ∨ slots[i]? = some none := by
  rw [hv.get_eq, hv.size_eq]; exact slotGet_failed_iff slots i

/-- … and it returns `x` exactly when slot `i` holds `x`: within bounds, the `i`-th element. -/
theorem C14_get_ok_iff (v : View α) (slots : List (Option α)) (hv : v.Meets slots) (i : Nat) (x : α) :
    v.get i = .ok x ↔ slots[i]? = some (some x) := by
  rw [hv.get_eq]; exact slotGet_ok_iff slots i x

/-- A sequence all of whose places hold an element (every implementation but a pre-sized `ref_sequence`): `get(i)` is the
    `i`-th member for `i < size()`, and is refused iff `i ≥ size()`. -/
theorem C14_get_filled (v : View α) (xs : List α) (hv : v.Meets (xs.map some)) (i : Nat) :
    (∀ h : i < xs.length, v.get i = .ok xs[i]) ∧ (failed (v.get i) = true ↔ v.size ≤ i) := by
  constructor
  · intro h
    rw [hv.get_eq, slotGet_map_some, List.getElem?_eq_getElem h]
  · rw [C14_get_refused_iff v _ hv i]
    constructor
    · rintro (h | h)
      · exact h
      · simp only [List.getElem?_map] at h
        cases hx : xs[i]? <;> simp [hx] at h
    · exact Or.inl

/-- `empty() ↔ size() = 0` (any implementation: `empty` is defined in the base class). -/
theorem C14_empty_iff (v : View α) : v.empty = true ↔ v.size = 0 := View.empty_iff v

/-- Forward iteration `for (it = begin(); it != end(); ++it)` visits exactly `size()` elements, the `i`-th visit being
    `*position(i) = get(i)` — whatever `get` answers there, a refusal included.  (Any implementation: the iterator is the
    base class's pair (sequence, index).) -/
theorem C14_forward_visits (v : View α) :
    v.forward.length = v.size ∧ ∀ i, i < v.size → v.forward[i]? = some (v.deref (v.position i)) :=
  ⟨View.forward_length v, fun i h => View.forward_getElem? v i h⟩

/-- Backward iteration `it = end(); while (it != begin()) { --it; … }` is the reverse of forward iteration. -/
theorem C14_backward_reverse (v : View α) :
    v.backward = v.forward.reverse ∧ v.backward.length = v.size ∧
      ∀ i, i < v.size → v.backward[i]? = some (v.get (v.size - 1 - i)) :=
  ⟨View.backward_eq v, View.backward_length v, fun i h => View.backward_getElem? v i h⟩

/-- Both loops started in the middle (`position(i)`, `i ≤ size()`): the forward one visits `get i … get (size-1)`, the
    backward one `get (i-1) … get 0`. -/
theorem C14_iteration_from (v : View α) (i : Nat) (h : i ≤ v.size) :
    v.forwardFrom i h = (List.range' i (v.size - i)).map v.get ∧ v.backwardFrom i = ((List.range i).map v.get).reverse :=
  ⟨View.forwardFrom_eq v (v.size - i) i h rfl, View.backwardFrom_eq v i⟩

/-- Iterator arithmetic is `std::size_t` arithmetic; below `SIZE_MAX` (sizes of real containers are far below) `++` and
    `--` do not wrap, so the loops above are the loops the C++ runs. -/
theorem C14_iterator_no_wrap (i : Nat) (h : i < sizeMax) :
    View.succ i = i + 1 ∧ View.pred (i + 1) = i ∧ View.pred (View.succ i) = i := by
  have h1 : View.succ i = i + 1 := by unfold View.succ; simp; omega
  have h2 : View.pred (i + 1) = i := by unfold View.pred; simp
  exact ⟨h1, h2, by rw [h1, h2]⟩

/-- Dereferencing `end()`, `--begin()` (index `SIZE_MAX`) or `position(SIZE_MAX)` is refused. -/
theorem C14_past_the_end_refused (v : View α) (slots : List (Option α)) (hv : v.Meets slots) (hs : v.size ≤ sizeMax) :
    v.deref v.end_ = .error .logic ∧ v.deref (View.pred v.begin_) = .error .logic ∧
      v.deref (v.position sizeMax) = .error .logic := by
  have key : ∀ i, v.size ≤ i → v.get i = .error .logic := fun i hi =>
    (failed_iff_error _).mp ((C14_get_refused_iff v slots hv i).mpr (Or.inl hi))
  refine ⟨key _ (Nat.le_refl _), ?_, key _ hs⟩
  have : View.pred v.begin_ = sizeMax := by simp [View.pred, View.begin_]
  show v.get (View.pred v.begin_) = _
  rw [this]; exact key _ hs

/-! ### A.2 every implementation, for every slot list / member list, is of that form -/

/-- `ref_sequence<T>` in ANY state of its `std::vector<const void*>` (every pattern of filled and null slots). -/
theorem C14_ref_sequence_view (s : RefSeq α) : s.view.Meets s.slots := RefSeq.meets s

/-- How the slot list of a `ref_sequence` evolves: the sizing constructor makes `n` unfilled slots, `push_back(&x)` appends
    a filled one, `push_back(nullptr)` an unfilled one, `resize(n)` truncates or appends unfilled ones.  Hence every slot
    list is reachable, and after any such history `C14_ref_sequence_view` applies. -/
theorem C14_ref_sequence_ops (s : RefSeq α) (x : α) (n : Nat) :
    (RefSeq.presized n : RefSeq α).slots = List.replicate n none ∧ (s.pushBack x).slots = s.slots ++ [some x] ∧
      s.pushNull.slots = s.slots ++ [none] ∧
      (s.resize n).slots = (s.slots ++ List.replicate (n - s.slots.length) none).take n := by
  refine ⟨rfl, rfl, rfl, ?_⟩
  unfold RefSeq.resize
  by_cases h : n ≤ s.slots.length
  · have : n - s.slots.length = 0 := by omega
    simp [h, this]
  · simp only [h, if_false]
    rw [List.take_of_length_le]; simp; omega

theorem C14_ref_sequence_reachable (slots : List (Option α)) :
    slots.foldl (fun (s : RefSeq α) o => match o with | some x => s.pushBack x | none => s.pushNull) {} = ⟨slots⟩ := by
  suffices h : ∀ s : RefSeq α,
      slots.foldl (fun (s : RefSeq α) o => match o with | some x => s.pushBack x | none => s.pushNull) s = ⟨s.slots ++ slots⟩ by
    simpa using h {}
  induction slots with
  | nil => intro s; simp
  | cons o rest ih =>
    intro s
    rw [List.foldl_cons, ih]
    cases o <;> simp [RefSeq.pushBack, RefSeq.pushNull]

/-- `decl_sequence` is a `ref_sequence<ipr::Decl>`. -/
theorem C14_decl_sequence_view (s : DeclSeq α) : s.view.Meets s.slots := RefSeq.meets s

/-- `Warehouse<T> w(n)` followed by any `push_back`s: `n` unfilled slots (repaired defect F7: they are refused, not
    dereferenced), then the pushed items in order. -/
theorem C14_warehouse_view (n : Nat) (xs : List α) :
    (Warehouse.build n xs).view.Meets (List.replicate n none ++ xs.map some) := Warehouse.meets n xs

/-- `obj_sequence<T>` (`std::deque`) in any state, and the state reached by any list of `push_back`s. -/
theorem C14_obj_sequence_view (s : ObjSeq α) (xs : List α) :
    s.view.Meets (s.items.map some) ∧ (xs.foldl ObjSeq.pushBack ({} : ObjSeq α)).view.Meets (xs.map some) := by
  refine ⟨ObjSeq.meets s, ?_⟩
  have := ObjSeq.meets (xs.foldl ObjSeq.pushBack ({} : ObjSeq α))
  rwa [ObjSeq.items_of_pushes] at this

/-- `obj_list<T>` (`std::forward_list` + `mark`) in any state, and the state reached by any list of `push_back`s. -/
theorem C14_obj_list_view (s : ObjList α) (xs : List α) :
    s.view.Meets (s.items.map some) ∧ (xs.foldl ObjList.pushBack ({} : ObjList α)).view.Meets (xs.map some) := by
  refine ⟨ObjList.meets s, ?_⟩
  have := ObjList.meets (xs.foldl ObjList.pushBack ({} : ObjList α))
  rwa [ObjList.items_of_pushes] at this

/-- `empty_sequence<T>`: no slot; every `get` is refused. -/
theorem C14_empty_sequence_view : (emptySeq α).Meets [] := emptySeq_meets

/-- `singleton_obj<T>` / `singleton_ref<T>`: one filled slot. -/
theorem C14_singleton_obj_view (s : SingletonObj α) : s.view.Meets [some s.item] := SingletonObj.meets s
theorem C14_singleton_ref_view (s : SingletonRef α) : s.view.Meets [some s.datum] := SingletonRef.meets s

/-- `typed_sequence<Seq>` over any member sequence: slot `i` holds the type of member `i`; it is unfilled when the member
    slot is, *or when the member's own `type()` raises* (an expression whose typing was never set) — the one further
    cause of refusal within bounds, and it is a refusal, not a null dereference. -/
theorem C14_typed_sequence_view (t : TypedSeq α τ) (slots : List (Option α)) (h : t.seq.Meets slots) :
    t.view.Meets (slots.map (typedSlot t.typeOf)) := TypedSeq.meets t slots h

/-- `homogeneous_scope<Member, Seq>`: as a `Sequence<Decl>` / `Sequence<Expr>` it is its member sequence, its `type()` is the
    typed sequence over it, of the same size. -/
theorem C14_homogeneous_scope_view (h : HomScope α τ) (slots : List (Option α)) (hm : h.decls.seq.Meets slots) :
    h.view.Meets slots ∧ h.type.Meets (slots.map (typedSlot h.decls.typeOf)) ∧ h.type.size = h.view.size :=
  ⟨(HomScope.meets h slots hm).1, (HomScope.meets h slots hm).2, rfl⟩

/-- `Optional<T>::get()` / `util::ref<T>::get()` / `util::check`: refused iff empty, else the object held. -/
theorem C14_optional_get (o : Option α) :
    (failed (optionalGet o) = true ↔ o = none) ∧ ∀ x, o = some x → optionalGet o = .ok x :=
  ⟨optionalGet_failed_iff o, fun x h => by rw [h]; rfl⟩

/-! ### A.3 non-vacuity -/

/-- a pre-sized `ref_sequence(2)`, then `push_back(&a)`, `push_back(nullptr)`, `push_back(&b)`, `resize(6)` -/
example : (((((RefSeq.presized 2 : RefSeq Nat).pushBack 10).pushNull).pushBack 11).resize 6).slots
    = [none, none, some 10, none, some 11, none] := by decide
example : (((((RefSeq.presized 2 : RefSeq Nat).pushBack 10).pushNull).pushBack 11).resize 6).view.forward
    = [.error .logic, .error .logic, .ok 10, .error .logic, .ok 11, .error .logic] := by rw [View.forward_eq]; rfl
example : (Warehouse.build 1 [7, 8]).view.backward = [.ok 8, .ok 7, .error .logic] := rfl
example : (Warehouse.build 1 [7, 8]).view.Meets [none, some 7, some 8] := C14_warehouse_view 1 [7, 8]
/-- a typed sequence over [e0 typed, e1 untyped, unfilled slot] -/
example : (TypedSeq.mk ((RefSeq.mk [some 0, some 1, none]).view) (fun k => if k = 1 then .error .logic else .ok (100 + k))).view.forward
    = [.ok 100, .error .logic, .error .logic] := by rw [View.forward_eq]; rfl
example : ((emptySeq Nat).forward = []) ∧ (emptySeq Nat).empty = true := ⟨by rw [View.forward_eq]; rfl, rfl⟩

end Ipr.Seq

namespace Ipr.Outcome
open Ipr.Seq (LogicError Res failed)

/-! ## Part B — accessor outcomes over every history of link assignments

`σ₀ = State.initial n` is the node as its factory returns it (`n` links, all unset); a history `h` is any list of client
assignments `link l := (code, target)`; `σ₀.run h` is the node after them. -/

/-- Every answer is a value or a logic error.  This is true *by typing* (`Res Val = Except LogicError Val` and `LogicError`
    has one constructor) and says nothing about the C++ beyond the shape of the model: that the real accessors raise
    nothing else and do nothing undefined is what the sweep under the sanitizers observes. -/
theorem C14_outcome_total (sem : Sem) (σ : State) : (∃ v, sem.eval σ = .ok v) ∨ sem.eval σ = .error .logic := by
  cases h : sem.eval σ with
  | ok v => exact Or.inl ⟨v, rfl⟩
  | error e => cases e; exact Or.inr rfl

/-- Master closed form.  After ANY history from the factory's state, an accessor that reads link `l` answers with the
    outcome its row gives for the code LAST assigned to `l` (code 0 if `l` was never assigned), about the target LAST
    assigned to `l`. -/
theorem C14_eval_history (n l : Nat) (outs : List Out) (h : History) (hl : l < n) :
    (Sem.on l outs).eval ((State.initial n).run h)
      = (outs.getD ((lastAssign h l).getD {}).code .err).eval ((lastAssign h l).getD {}).target := by
  have : ((State.initial n).run h).link l = (lastAssign h l).getD {} := by
    rw [State.link_run, State.length_initial, if_pos hl, State.link_initial]
  simp only [Sem.eval, this]

/-- Reading a link that was never set through a checking accessor (`util::ref<T>::get`, `Optional<T>::get`,
    `util::check`: the row's outcome for code 0 is `err`) is a logic error — whatever else was assigned, in any order. -/
theorem C14_unset_link_refused (n l : Nat) (outs : List Out) (h : History) (hc : outs.head? = some .err)
    (hfree : ∀ a ∈ h, a.1 ≠ l) : (Sem.on l outs).eval ((State.initial n).run h) = .error .logic := by
  have h0 : ((State.initial n).run h).link l = {} := by
    rw [State.link_run, (lastAssign_none_iff h l).mpr hfree, State.link_initial]; simp
  cases outs with
  | nil => simp [Sem.eval, h0, Out.eval]
  | cons o rest =>
    have : o = .err := by simpa using hc
    subst this
    simp [Sem.eval, h0, Out.eval]

/-- The four checking forms found in the code all refuse a never-set link. -/
theorem C14_unset_forms_refused (n arity l : Nat) (sub : String) (h : History) (hfree : ∀ a ∈ h, a.1 ≠ l) :
    (ref arity l).eval ((State.initial n).run h) = .error .logic ∧
    (part arity l sub).eval ((State.initial n).run h) = .error .logic ∧
    (deep l sub).eval ((State.initial n).run h) = .error .logic :=
  ⟨C14_unset_link_refused n l _ h rfl hfree, C14_unset_link_refused n l _ h rfl hfree,
   C14_unset_link_refused n l _ h rfl hfree⟩

/-- Reading a set link returns the node LAST assigned: if the history is `h₁`, then `l := v`, then assignments to other
    links only, and the row answers code `v.code` with (the part `sub` of) the target, the answer is `v.target`'s. -/
theorem C14_set_link_returns_last (n l : Nat) (outs : List Out) (h₁ h₂ : History) (v : LinkVal) (sub : String)
    (hl : l < n) (hfree : ∀ a ∈ h₂, a.1 ≠ l) (ho : outs[v.code]? = some (.tgt sub)) :
    (Sem.on l outs).eval ((State.initial n).run (h₁ ++ (l, v) :: h₂)) = .ok (.node v.target sub) := by
  rw [C14_eval_history n l outs _ hl, lastAssign_decomp h₁ h₂ l v hfree]
  simp [List.getD_eq_getElem?_getD, ho, Out.eval]

/-- `util::ref` / `Optional::get` accessor (`ref arity l`), complete description over all histories: refused while the link
    was never assigned, else the node of the last assignment. -/
theorem C14_ref_accessor (n arity l : Nat) (h : History) (hl : l < n)
    (hv : ∀ a ∈ h, a.1 = l → 1 ≤ a.2.code ∧ a.2.code < arity) :
    (ref arity l).eval ((State.initial n).run h) =
      match lastAssign h l with
      | none => .error .logic
      | some v => .ok (.node v.target "") := by
  rw [ref, C14_eval_history n l _ h hl]
  cases hs : lastAssign h l with
  | none => simp [Out.eval]
  | some v =>
    obtain ⟨h₁, h₂, rfl, _⟩ := lastAssign_some_decomp h l v hs
    have hc : 1 ≤ v.code ∧ v.code < arity := hv (l, v) (by simp) rfl
    simp only [Option.getD_some]
    have : (Out.err :: List.replicate (arity - 1) (Out.tgt ""))[v.code]? = some (.tgt "") := by
      obtain ⟨c, hc'⟩ : ∃ c, v.code = c + 1 := ⟨v.code - 1, by omega⟩
      rw [hc', List.getElem?_cons_succ, List.getElem?_replicate]
      simp; omega
    simp [List.getD_eq_getElem?_getD, this, Out.eval]

/-- An accessor that hands out the `Optional<T>` member itself (`opt arity l`) never raises: empty while the link was
    never assigned, else the node of the last assignment. -/
theorem C14_opt_accessor (n arity l : Nat) (h : History) (hl : l < n)
    (hv : ∀ a ∈ h, a.1 = l → 1 ≤ a.2.code ∧ a.2.code < arity) :
    (opt arity l).eval ((State.initial n).run h) =
      match lastAssign h l with
      | none => .ok .absent
      | some v => .ok (.node v.target "") := by
  rw [opt, C14_eval_history n l _ h hl]
  cases hs : lastAssign h l with
  | none => simp [Out.eval]
  | some v =>
    obtain ⟨h₁, h₂, rfl, _⟩ := lastAssign_some_decomp h l v hs
    have hc : 1 ≤ v.code ∧ v.code < arity := hv (l, v) (by simp) rfl
    simp only [Option.getD_some]
    have : (Out.absent :: List.replicate (arity - 1) (Out.tgt ""))[v.code]? = some (.tgt "") := by
      obtain ⟨c, hc'⟩ : ∃ c, v.code = c + 1 := ⟨v.code - 1, by omega⟩
      rw [hc', List.getElem?_cons_succ, List.getElem?_replicate]
      simp; omega
    simp [List.getD_eq_getElem?_getD, this, Out.eval]

/-- Whatever node any accessor hands out comes from the LAST assignment of the link it reads (no stale target). -/
theorem C14_value_is_last_assigned (n l : Nat) (outs : List Out) (h : History) (hl : l < n) (t : Nat) (sub : String)
    (he : (Sem.on l outs).eval ((State.initial n).run h) = .ok (.node t sub)) :
    t = ((lastAssign h l).getD {}).target := by
  rw [C14_eval_history n l outs h hl] at he
  generalize outs.getD ((lastAssign h l).getD {}).code .err = o at he
  cases o <;> simp [Out.eval] at he
  exact he.1.symm

/-- An accessor's answer depends only on the link(s) it reads (`Sem.reads`) … -/
theorem C14_depends_only_on_reads (sem : Sem) (σ σ' : State) (h : ∀ l ∈ sem.reads, σ.link l = σ'.link l) :
    sem.eval σ = sem.eval σ' := Sem.eval_congr sem σ σ' h

/-- … so assigning a different link never changes it (frame), in any state … -/
theorem C14_frame (sem : Sem) (σ : State) (l : Nat) (v : LinkVal) (h : l ∉ sem.reads) :
    sem.eval (σ.assign l v) = sem.eval σ := by
  apply Sem.eval_congr
  intro l' hl'
  rw [State.link_assign]
  have : l ≠ l' := fun e => h (e ▸ hl')
  simp [this]

/-- … and over whole histories: deleting every assignment to links the accessor does not read changes nothing. -/
theorem C14_frame_history (sem : Sem) (σ : State) (h : History) :
    sem.eval (σ.run h) = sem.eval (σ.run (h.filter (fun a => sem.reads.contains a.1))) := by
  apply Sem.eval_congr
  intro l hl
  rw [State.link_run, State.link_run, lastAssign_filter h (fun l => sem.reads.contains l) l (by simpa using hl)]

/-- An accessor that reads no link (`const`: operands and data fixed by the factory; `fails`: `Base_type::initializer`,
    `enclosing()` of the global region) answers the same in every state. -/
theorem C14_no_link_state_independent (sem : Sem) (hr : sem.reads = []) (σ σ' : State) : sem.eval σ = sem.eval σ' :=
  Sem.eval_congr sem σ σ' (by simp [hr])

/-! ## Part C — the table `kinds`

### C.1 hygiene, by kernel evaluation over the whole table (finite facts about the 225 hand-written kinds and their rows) -/

/-- Every kind: each row reads a declared link and lists one outcome per state code of it; accessor names and link names
    are unambiguous; every link has at least the two states unset / set. -/
theorem C14_table_wellformed : kinds.all KindSpec.wellFormed = true := by decide +kernel

/-- Every link of every kind is read by some accessor row (else the sweep could not see it). -/
theorem C14_table_every_link_read : kinds.all KindSpec.everyLinkRead = true := by decide +kernel

/-- Kind names are unique (the driver's `findKind` is a function of the name). -/
theorem C14_table_names_unique : (kinds.map (·.name)).Nodup := by decide +kernel

/-- The table uses no literal outcome, so the printed token determines the outcome class (see `C14_render_faithful`). -/
theorem C14_table_no_literal : kinds.all (fun k => k.rows.all (fun r => r.2.noLit)) = true := by decide +kernel

/-! ### C.2 lifted to every kind, every accessor row, every history -/

/-- The driver's lookup finds every kind of the table by its name. -/
theorem C14_findKind_complete (k : KindSpec) (hk : k ∈ kinds) : findKind k.name = some k := by
  unfold findKind
  have hn := C14_table_names_unique
  generalize kinds = ks at hk hn
  induction ks with
  | nil => cases hk
  | cons a t ih =>
    rw [List.map_cons, List.nodup_cons] at hn
    rw [List.find?_cons]
    by_cases e : a.name = k.name
    · rcases List.mem_cons.mp hk with hk | hk
      · subst hk; simp
      · exact absurd (List.mem_map.mpr ⟨k, hk, rfl⟩) (e ▸ hn.1)
    · have : (a.name == k.name) = false := by simpa using e
      rw [this]
      rcases List.mem_cons.mp hk with hk | hk
      · exact absurd (hk ▸ rfl) e
      · exact ih hk hn.2

/-- Every link is read: for every kind and every link of it there is an accessor row that reads it. -/
theorem C14_every_link_read (k : KindSpec) (hk : k ∈ kinds) (l : Nat) (hl : l < k.links.length) :
    ∃ r ∈ k.rows, l ∈ r.2.reads := by
  have := List.all_eq_true.mp C14_table_every_link_read k hk
  simp only [KindSpec.everyLinkRead, List.all_eq_true, List.mem_range, List.any_eq_true, List.contains_iff_mem] at this
  exact this l hl

/-- For every kind of the table, every accessor row and every client history, the link read is in a state the row has an
    explicit outcome for: the answer is never the model's fall-back refusal, it is the listed outcome for the code last
    assigned, about the target last assigned. -/
theorem C14_table_outcome_explicit (k : KindSpec) (hk : k ∈ kinds) (acc : String) (l : Nat) (outs : List Out)
    (hr : (acc, Sem.on l outs) ∈ k.rows) (h : History) (hv : ValidHistory k h) :
    ∃ o, o ∈ outs ∧ outs[((lastAssign h l).getD {}).code]? = some o ∧
      (Sem.on l outs).eval ((State.initial k.links.length).run h) = o.eval ((lastAssign h l).getD {}).target := by
  obtain ⟨ls, hls, hlen, h2⟩ := wellFormed_row (List.all_eq_true.mp C14_table_wellformed k hk) hr
  have hl : l < k.links.length := (List.getElem?_eq_some_iff.mp hls).1
  have hcode : ((lastAssign h l).getD {}).code < outs.length := by
    cases hs : lastAssign h l with
    | none => show (0 : Nat) < _; omega
    | some v =>
      obtain ⟨h₁, h₂, rfl, _⟩ := lastAssign_some_decomp h l v hs
      have hc := hv (l, v) (by simp)
      simpa [hls, hlen] using hc
  refine ⟨outs[((lastAssign h l).getD {}).code], List.getElem_mem _, List.getElem?_eq_getElem hcode, ?_⟩
  rw [C14_eval_history _ l outs h hl, List.getD_eq_getElem?_getD, List.getElem?_eq_getElem hcode]; rfl

/-- Accessors whose row lists no refusal (the `Optional`-returning ones, `Fundecl::mapping`, `Instantiation::instance` …)
    never raise, for every kind, every client history. -/
theorem C14_table_opt_never_raises (k : KindSpec) (hk : k ∈ kinds) (acc : String) (l : Nat) (outs : List Out)
    (hr : (acc, Sem.on l outs) ∈ k.rows) (hne : Out.err ∉ outs) (h : History) (hv : ValidHistory k h) :
    ∃ v, (Sem.on l outs).eval ((State.initial k.links.length).run h) = .ok v := by
  obtain ⟨o, ho, _, he⟩ := C14_table_outcome_explicit k hk acc l outs hr h hv
  rw [he]
  cases o with
  | err => exact absurd ho hne
  | absent => exact ⟨_, rfl⟩
  | tgt sub => exact ⟨_, rfl⟩
  | lit s => exact ⟨_, rfl⟩

/-- Checking accessors of the table (outcome `err` for code 0) refuse while their link is unset, for every kind and every
    history that does not assign it — and, by `C14_table_outcome_explicit`, answer from the last assignment once it is. -/
theorem C14_table_unset_refused (k : KindSpec) (_ : k ∈ kinds) (acc : String) (l : Nat) (outs : List Out)
    (_ : (acc, Sem.on l outs) ∈ k.rows) (hc : outs.head? = some .err) (h : History) (hfree : ∀ a ∈ h, a.1 ≠ l) :
    (Sem.on l outs).eval ((State.initial k.links.length).run h) = .error .logic :=
  C14_unset_link_refused _ l outs h hc hfree

/-! ### C.3 what the driver prints determines the outcome class -/

/-- For a row without literal outcomes (every row of the table, `C14_table_no_literal`) the printed token is `!L` exactly
    for a refusal, `-` exactly for an empty Optional, `*` exactly for a link-independent value. -/
theorem C14_render_faithful (k : KindSpec) (sem : Sem) (σ : State) (hn : sem.noLit = true) :
    (sem.render k σ = "!L" ↔ sem.eval σ = .error .logic) ∧ (sem.render k σ = "-" ↔ sem.eval σ = .ok .absent) ∧
      (sem.render k σ = "*" ↔ sem.eval σ = .ok .any) := by
  unfold Sem.render
  cases sem with
  | const => simp [Sem.eval, renderRes, Val.render]
  | fails => simp [Sem.eval, renderRes]
  | on l outs =>
    simp only [Sem.noLit, List.all_eq_true] at hn
    simp only [Sem.eval]
    generalize hσ : σ.link l = lv
    have hmem : outs.getD lv.code .err = .err ∨ outs.getD lv.code .err ∈ outs := by
      rw [List.getD_eq_getElem?_getD]
      cases ho : outs[lv.code]? with
      | none => exact Or.inl rfl
      | some o => exact Or.inr (List.mem_of_getElem? ho)
    generalize outs.getD lv.code .err = o at hmem
    cases o with
    | err => simp [Out.eval, renderRes]
    | absent => simp [Out.eval, renderRes, Val.render]
    | tgt sub =>
      have d := dollar_ne ((Sem.linkName k (Sem.on l outs)) ++ sub)
      rw [← String.append_assoc] at d
      simp [Out.eval, renderRes, Val.render, d.1, d.2.1, d.2.2]
    | lit s =>
      rcases hmem with hmem | hmem
      · cases hmem
      · exact absurd (hn _ hmem) (by simp)

/-! ### C.4 non-vacuity: concrete kinds, concrete histories -/

/-- `Var`: links `init lexreg home langlinkage def`. -/
def varKind : KindSpec := (findKind "Var").getD ⟨"", [], []⟩
/-- `For`: links `init cond inc stmt(3 states)`. -/
def forKind : KindSpec := (findKind "For").getD ⟨"", [], []⟩

example : kinds.length = 225 := by decide +kernel
example : varKind ∈ kinds ∧ forKind ∈ kinds := by decide +kernel
example : varKind.links.map (·.name) = ["init", "lexreg", "home", "langlinkage", "def"] := by decide +kernel

/-- a client history on a Var: home := n1, init := n2, home := n3 (re-assigned), def := n4 -/
def varHist : History := [(2, ⟨1, 1⟩), (0, ⟨1, 2⟩), (2, ⟨1, 3⟩), (4, ⟨1, 4⟩)]

example : ValidHistory varKind varHist := by unfold ValidHistory; decide +kernel

/-- after it: `home_region` is the LAST target (n3), `initializer` n2, `lexical_region` (never set) and `linkage` refuse,
    `definition` n4 -/
example : (varKind.rows.map (fun r => (r.1, r.2.eval ((State.initial 5).run varHist)))).take 5 =
    [("linkage", .error .logic), ("home_region", .ok (.node 3 "")), ("lexical_region", .error .logic),
     ("initializer", .ok (.node 2 "")), ("definition", .ok (.node 4 ""))] := by decide +kernel

/-- the node as the factory returns it -/
example : (varKind.rows.map (fun r => (r.1, r.2.eval (State.initial 5)))).take 5 =
    [("linkage", .error .logic), ("home_region", .error .logic), ("lexical_region", .error .logic),
     ("initializer", .ok .absent), ("definition", .ok .absent)] := by decide +kernel

/-- `For`: body set to a statement whose own type was never set (code 1), then to a complete one (code 2) -/
example : (forKind.rows.map (fun r => (r.1, r.2.eval ((State.initial 4).run [(3, ⟨1, 8⟩)])))).take 5 =
    [("initializer", .error .logic), ("condition", .error .logic), ("increment", .error .logic),
     ("body", .ok (.node 8 "")), ("type", .error .logic)] := by decide +kernel
example : (forKind.rows.map (fun r => (r.1, r.2.eval ((State.initial 4).run [(3, ⟨1, 8⟩), (1, ⟨1, 5⟩), (3, ⟨2, 9⟩)])))).take 5 =
    [("initializer", .error .logic), ("condition", .ok (.node 5 "")), ("increment", .error .logic),
     ("body", .ok (.node 9 "")), ("type", .ok (.node 9 ".type"))] := by decide +kernel

example : lastAssign varHist 2 = some ⟨1, 3⟩ ∧ lastAssign varHist 1 = none := by decide

end Ipr.Outcome
