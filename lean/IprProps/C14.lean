import IprModel.Outcome
import IprModel.Seq
namespace Ipr.Outcome
theorem C14_placeholder_partial : True := trivial
end Ipr.Outcome
