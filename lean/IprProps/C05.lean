import IprProofs.StableHist
/-!
# C05 — node identity is stable: nodes never silently change, never alias

Every theorem is about the definitions of `IprModel/Stable.lean` that the driver `IprDriver/C05.lean` executes
(`step`, `run`, `answers`, `obs`, `Obs.le`) and quantifies over **every** history `ops : List Op` (any length, any
interleaving of factory calls, member additions, link settings and warehouse manipulations, valid or not) or over every
state satisfying the invariant `WF`, which `C05_no_dangling` shows to hold after every history.
The model is tied to `impl::Lexicon` by the differential run of `check.py C05` (`harness/c05probe.cxx`).
Relocation of storage is outside the model (ids are stable by construction); see the MANIFEST text.

Reading guide (statement of C05 → theorem):
* everything observable through an earlier node stays as it was, except growth at the end of member sequences and links
  the client sets → `C05_monotone_step`, `C05_monotone`, `C05_monotone_append`;
* whatever is created afterwards touches no other node → `C05_step_primitives` (every operation is a chain of the four
  guarded primitives over named targets), `C05_frame_alloc` / `_appendMem` / `_setLink` / `_addKey` (which observations a
  primitive can change), `C05_frame` and `C05_frame_history` (lifted to `step`);
* each generative constructor yields a node distinct from every other → `C05_fresh`, `C05_fresh_history`,
  `C05_fresh_distinct`;
* the unifying factories alias exactly on equal keys and never with a generative node → `C05_unified_key`,
  `C05_unified_alias_iff`, `C05_unified_never_generative`, `C05_generative_never_unified`;
* no reference dangles → `C05_no_dangling`, `C05_answer_exists`;
* what `scope[name][type]` answered stays the answer, whatever is appended afterwards (a homogeneous scope answers the
  FIRST member of a name) → `C05_lookup_pure`, `C05_lookup_answer`, `C05_lookup_stable_step`, `C05_lookup_stable`;
* transfers: `get_transfer` normalises to the transfer of the convention / of the linkage alone, a function or as-type
  requested with a transfer equal to the natural one is the plain node → `C05_transfer_normal`,
  `C05_natural_transfer_plain`, `C05_other_transfer_kept` (aliasing then follows from `C05_unified_alias_iff`).
-/
namespace Ipr.Stable

/-! ## No dangling reference -/

/-- After every history every id mentioned by a record, a key or a warehouse exists, and the key table is a
    duplicate-free table whose entries carry exactly their key (origin `unified`). -/
theorem C05_no_dangling (ops : List Op) : WF (run ops) := WF.run ops

/-- Every node answer of every history exists in the state reached by that operation (and in every later one). -/
theorem C05_answer_exists (ops : List Op) (a : Nat) (i : Id) (h : (answers {} ops)[a]? = some (.node i)) :
    i < (run (ops.take (a + 1))).size ∧ i < (run ops).size := by
  obtain ⟨op, hop, hr⟩ := answers_getElem? h
  have w : WF (run (ops.take a)) := WF.run _
  have h1 : i < (run (ops.take (a + 1))).size := by
    rw [run_eq, runFrom_take_succ {} ops a op hop]
    exact answer_lt_step w op hr.symm
  refine ⟨h1, Nat.lt_of_lt_of_le h1 ?_⟩
  rw [run_split ops (a + 1)]
  exact size_le_runFrom _ _

/-! ## Observations only grow -/

/-- One operation, from any well-formed state: what is observable through an existing node only grows
    (equal on tag / operands / origin / type / parts, links only gained, every member sequence extended at its end). -/
theorem C05_monotone_step (s : State) (w : WF s) (op : Op) (i : Id) (hi : i < s.size) :
    Obs.le (obs s i) (obs (step s op).1 i) := obs_le_step w op hi

/-- The same along a history: appending one more operation. -/
theorem C05_monotone_append (ops : List Op) (op : Op) (i : Id) (hi : i < (run ops).size) :
    Obs.le (obs (run ops) i) (obs (run (ops ++ [op])) i) := by
  have : run (ops ++ [op]) = (step (run ops) op).1 := by simp [run, List.foldl_append]
  rw [this]
  exact obs_le_step (WF.run ops) op hi

/-- For every history, every prefix of it and every node allocated within the prefix: the observation after the prefix is
    below the observation after the whole history. -/
theorem C05_monotone (ops : List Op) (k : Nat) (i : Id) (hi : i < (run (ops.take k)).size) :
    Obs.le (obs (run (ops.take k)) i) (obs (run ops) i) := by
  rw [run_split ops k]
  exact obs_le_runFrom (WF.run _) _ hi

/-- `⊑` is a preorder (so the statements above compose). -/
theorem C05_le_preorder : (∀ a : Obs, Obs.le a a) ∧ (∀ a b c : Obs, Obs.le a b → Obs.le b c → Obs.le a c) :=
  ⟨Obs.le_refl, fun _ _ _ => Obs.le_trans⟩

/-! ## The frame: what an operation can change -/

/-- Every operation is a composition of the guarded primitives `allocMany`, `appendMem`, `setLink`, `addKey` and
    warehouse-only changes; members are appended only to `memTargets s op`, links set only on `linkTargets op`. -/
theorem C05_step_primitives (s : State) (op : Op) : Chain (memTargets s op) (linkTargets op) s (step s op).1 :=
  step_chain s op

/-- Allocation changes no observation of an existing node. -/
theorem C05_frame_alloc (s : State) (w : WF s) (rs : List Rec) (i : Id) (hi : i < s.size) :
    obs (s.allocMany rs) i = obs s i :=
  (Ext.allocMany [] [] s rs).obs_eq w hi (fun _ _ h => by cases h) (fun h => by cases h)

/-- Appending a member to record `j` changes only the observations that read the member list of `j`. -/
theorem C05_frame_appendMem (s : State) (w : WF s) (j m i : Id) (hi : i < s.size) (hj : j ∉ watch s i) :
    obs (s.appendMem j m) i = obs s i :=
  (Ext.appendMem [j] [] s j m (by simp)).obs_eq w hi
    (fun x hx h => by have : x = j := by simpa using h
                      exact hj (this ▸ hx))
    (fun h => by cases h)

/-- Setting a link of record `j` changes only the observation of `j`. -/
theorem C05_frame_setLink (s : State) (w : WF s) (j : Id) (slot : String) (v i : Id) (hi : i < s.size) (hj : i ≠ j) :
    obs (s.setLink j slot v) i = obs s i :=
  (Ext.setLink [] [j] s j slot v (by simp)).obs_eq w hi (fun _ _ h => by cases h)
    (fun h => by have : i = j := by simpa using h
                 exact hj this)

/-- Entering a key changes no observation. -/
theorem C05_frame_addKey (s : State) (w : WF s) (k : Key) (id i : Id) (hi : i < s.size) : obs (s.addKey k id) i = obs s i :=
  (Ext.addKey [] [] s k id).obs_eq w hi (fun _ _ h => by cases h) (fun h => by cases h)

/-- One operation changes no observation except of the nodes that read a member list the operation appends to
    (`memTargets`) and of the node whose link it sets (`linkTargets`). -/
theorem C05_frame (s : State) (w : WF s) (op : Op) (i : Id) (hi : i < s.size)
    (hM : ∀ j ∈ watch s i, j ∉ memTargets s op) (hL : i ∉ linkTargets op) : obs (step s op).1 i = obs s i :=
  (step_chain s op).ext.obs_eq w hi hM hL

/-- The same in every reachable state. -/
theorem C05_frame_history (ops : List Op) (op : Op) (i : Id) (hi : i < (run ops).size)
    (hM : ∀ j ∈ watch (run ops) i, j ∉ memTargets (run ops) op) (hL : i ∉ linkTargets op) :
    obs (run (ops ++ [op])) i = obs (run ops) i := by
  have : run (ops ++ [op]) = (step (run ops) op).1 := by simp [run, List.foldl_append]
  rw [this]
  exact C05_frame _ (WF.run ops) op i hi hM hL

/-- In particular factory calls, constants, units, warehouse manipulations and part selections change no observation
    of any existing node. -/
theorem C05_frame_factories (s : State) (w : WF s) (op : Op) (i : Id) (hi : i < s.size)
    (hop : memTargets s op = [] ∧ linkTargets op = []) : obs (step s op).1 i = obs s i :=
  C05_frame s w op i hi (fun _ _ h => by rw [hop.1] at h; cases h) (fun h => by rw [hop.2] at h; cases h)

theorem C05_factories_touch_nothing (s : State) (f : String) (args : List Arg) :
    memTargets s (.mk f args) = [] ∧ linkTargets (.mk f args) = [] := ⟨rfl, rfl⟩

/-! ## Generative constructors are fresh -/

/-- A generative constructor (`mk f` with `isGenerative f`, `unit`, `decl`, `param`, `mparam`, `enumerator`, `base`,
    `handler`) that answers a node answers the id `s.size`: never allocated before; the record is marked `generative`. -/
theorem C05_fresh (s : State) (op : Op) (hg : op.generative = true) (i : Id) (h : (step s op).2 = .node i) :
    i = s.size ∧ s.size < (step s op).1.size ∧ ((step s op).1.get i).origin = .generative :=
  fresh_step s op hg h

/-- In every history a generative answer is larger than (so different from) every node answered earlier,
    by whatever operation. -/
theorem C05_fresh_history (ops : List Op) (a b : Nat) (hab : a < b) (i j : Id) (op : Op)
    (ha : (answers {} ops)[a]? = some (.node i)) (hb : (answers {} ops)[b]? = some (.node j))
    (hop : ops[b]? = some op) (hg : op.generative = true) : i < j := by
  obtain ⟨op', hop', hr⟩ := answers_getElem? hb
  rw [hop] at hop'; cases hop'
  have hj : j = (run (ops.take b)).size := (fresh_step _ op hg hr.symm).1
  have hi := (C05_answer_exists ops a i ha).1
  rw [hj, run_eq, runFrom_take_le {} ops (Nat.succ_le_of_lt hab)]
  exact Nat.lt_of_lt_of_le hi (size_le_runFrom _ _)

/-- Hence the nodes returned by generative constructors are pairwise distinct over every history. -/
theorem C05_fresh_distinct (ops : List Op) (a b : Nat) (hab : a ≠ b) (i j : Id) (opa opb : Op)
    (ha : (answers {} ops)[a]? = some (.node i)) (hb : (answers {} ops)[b]? = some (.node j))
    (hopa : ops[a]? = some opa) (hopb : ops[b]? = some opb) (hga : opa.generative = true) (hgb : opb.generative = true) :
    i ≠ j := by
  rcases Nat.lt_or_gt_of_ne hab with h | h
  · exact Nat.ne_of_lt (C05_fresh_history ops a b h i j opb ha hb hopb hgb)
  · exact (Nat.ne_of_lt (C05_fresh_history ops b a h j i opa hb ha hopa hga)).symm

/-! ## Unified requests -/

/-- A unified request that answers a node answers the node stored under its resolved key; that node exists, its tag and
    operands are exactly the key, and its origin is `unified`. -/
theorem C05_unified_key (s : State) (w : WF s) (f : String) (args : List Arg) (hu : isUnified f = true) (s' : State) (i : Id)
    (h : step s (.mk f args) = (s', .node i)) :
    ∃ k, resolvedKey s f args = some k ∧ s'.keys.lookup k = some i ∧ i < s'.size ∧
      (obs s' i).tag = k.1 ∧ (obs s' i).args = k.2 ∧ (obs s' i).origin = .unified :=
  unified_answer w hu h

/-- Two unified requests of one history return the same node exactly when their resolved keys are equal. -/
theorem C05_unified_alias_iff (ops : List Op) (a b : Nat) (hab : a < b) (f f' : String) (args args' : List Arg) (i j : Id)
    (k k' : Key) (hu : isUnified f = true) (hu' : isUnified f' = true)
    (hopa : ops[a]? = some (.mk f args)) (hopb : ops[b]? = some (.mk f' args'))
    (ha : (answers {} ops)[a]? = some (.node i)) (hb : (answers {} ops)[b]? = some (.node j))
    (hk : resolvedKey (run (ops.take a)) f args = some k) (hk' : resolvedKey (run (ops.take b)) f' args' = some k') :
    i = j ↔ k = k' := by
  obtain ⟨opa, hopa', hra⟩ := answers_getElem? ha
  rw [hopa] at hopa'; cases hopa'
  obtain ⟨opb, hopb', hrb⟩ := answers_getElem? hb
  rw [hopb] at hopb'; cases hopb'
  have e : run (ops.take b) = runFrom (step (run (ops.take a)) (.mk f args)).1 ((ops.take b).drop (a + 1)) := by
    rw [run_eq, runFrom_take_le {} ops (Nat.succ_le_of_lt hab), runFrom_take_succ {} ops a _ hopa]; rfl
  rw [e] at hk'
  refine unified_alias_iff (WF.run (ops.take a)) hu hu' (s1 := (step (run (ops.take a)) (.mk f args)).1)
    (Prod.ext rfl hra.symm) hk ((ops.take b).drop (a + 1)) (s3 := (step (run (ops.take b)) (.mk f' args')).1) ?_ hk'
  rw [← e]
  exact Prod.ext rfl hrb.symm

/-- A unified answer is never a node that a generative constructor returned earlier in the history … -/
theorem C05_unified_never_generative (ops : List Op) (a b : Nat) (hab : a < b) (opa : Op) (f : String) (args : List Arg) (g u : Id)
    (hga : opa.generative = true) (hu : isUnified f = true)
    (hopa : ops[a]? = some opa) (hopb : ops[b]? = some (.mk f args))
    (ha : (answers {} ops)[a]? = some (.node g)) (hb : (answers {} ops)[b]? = some (.node u)) : u ≠ g := by
  obtain ⟨opa', hopa', hra⟩ := answers_getElem? ha
  rw [hopa] at hopa'; cases hopa'
  obtain ⟨opb, hopb', hrb⟩ := answers_getElem? hb
  rw [hopb] at hopb'; cases hopb'
  have e : run (ops.take b) = runFrom (step (run (ops.take a)) opa).1 ((ops.take b).drop (a + 1)) := by
    rw [run_eq, runFrom_take_le {} ops (Nat.succ_le_of_lt hab), runFrom_take_succ {} ops a _ hopa]; rfl
  refine unified_ne_generative (WF.run (ops.take a)) hga (s1 := (step (run (ops.take a)) opa).1) (Prod.ext rfl hra.symm)
    ((ops.take b).drop (a + 1)) hu (s3 := (step (run (ops.take b)) (.mk f args)).1) (args := args) ?_
  rw [← e]
  exact Prod.ext rfl hrb.symm

/-- … nor one that a generative constructor returns later. -/
theorem C05_generative_never_unified (ops : List Op) (a b : Nat) (hab : a < b) (opb : Op) (g u : Id)
    (hgb : opb.generative = true) (hopb : ops[b]? = some opb)
    (ha : (answers {} ops)[a]? = some (.node u)) (hb : (answers {} ops)[b]? = some (.node g)) : u ≠ g :=
  Nat.ne_of_lt (C05_fresh_history ops a b hab u g opb ha hb hopb hgb)

/-! ## Look-ups by name and type -/

/-- A look-up changes nothing. -/
theorem C05_lookup_pure (s : State) (sc n t : Id) : (step s (.lookup sc n t)).1 = s := by
  simp only [step]
  repeat' split
  all_goals rfl

/-- The node a `lookup` operation answers is what `lookupIn` (first declaration of that name and type in a general scope,
    first member of that name -- if it has that type -- in a homogeneous one) prescribes. -/
theorem C05_lookup_answer (s : State) (sc n t d : Id) (h : (step s (.lookup sc n t)).2 = .node d) :
    lookupIn s sc n t = some (some d) := by
  simp only [step] at h
  split at h
  · split at h
    · rename_i d' heq
      split at h
      · cases h; exact heq
      · cases h
    · cases h
    · cases h
  · cases h

/-- One operation, from any well-formed state: a look-up that answered a declaration keeps answering it. -/
theorem C05_lookup_stable_step (s : State) (w : WF s) (op : Op) (sc n t d : Id) (hsc : sc < s.size)
    (h : lookupIn s sc n t = some (some d)) : lookupIn (step s op).1 sc n t = some (some d) :=
  lookupIn_step w op hsc h

/-- For every history and every prefix of it: what `scope[n][t]` answered after the prefix is what it answers after the
    whole history (in particular appending members of the same name to a parameter list or an enumeration does not move
    the answer to a later member). -/
theorem C05_lookup_stable (ops : List Op) (k : Nat) (sc n t d : Id) (hsc : sc < (run (ops.take k)).size)
    (h : lookupIn (run (ops.take k)) sc n t = some (some d)) : lookupIn (run ops) sc n t = some (some d) := by
  rw [run_split ops k]
  exact lookupIn_runFrom (WF.run _) _ hsc h

/-! ## Linkages, calling conventions, transfers -/

/-- `get_transfer(l, c)`: over the C++ linkage it is the transfer of the convention alone, else over the natural
    convention the transfer of the linkage alone, else the pair (src/impl.cxx:1155-1164). -/
theorem C05_transfer_normal (s : State) (l c : Id) :
    (spellingOf s l = some cxxHex →
      resolvedKey s "get_transfer" [.node l, .node c] = resolvedKey s "get_transfer_from_convention" [.node c]) ∧
    (spellingOf s l ≠ some cxxHex → spellingOf s c = some "" →
      resolvedKey s "get_transfer" [.node l, .node c] = resolvedKey s "get_transfer_from_linkage" [.node l]) ∧
    (spellingOf s l ≠ some cxxHex → spellingOf s c ≠ some "" →
      resolvedKey s "get_transfer" [.node l, .node c] = some ("get_transfer", [.node l, .node c])) := by
  refine ⟨fun h => ?_, fun h1 h2 => ?_, fun h1 h2 => ?_⟩
  · simp [resolvedKey, resolve, h]
  · simp [resolvedKey, resolve, h1, h2]
  · simp [resolvedKey, resolve, h1, h2]

/-- A function type / as-type requested with a transfer that equals the natural C++ one is the plain node. -/
theorem C05_natural_transfer_plain (s : State) (p t e x : Id) (h : isNaturalTransfer s x = true) :
    resolvedKey s "get_function_x" [.node p, .node t, .node x] = resolvedKey s "get_function" [.node p, .node t] ∧
    resolvedKey s "get_as_type_x" [.node e, .node x] = resolvedKey s "get_as_type" [.node e] := by
  constructor <;> simp [resolvedKey, resolve, h]

/-- With any other transfer the node is keyed by that transfer too. -/
theorem C05_other_transfer_kept (s : State) (p t e x : Id) (h : isNaturalTransfer s x = false) :
    resolvedKey s "get_function_x" [.node p, .node t, .node x] = some ("get_function_x", [.node p, .node t, .node x]) ∧
    resolvedKey s "get_as_type_x" [.node e, .node x] = some ("get_as_type_x", [.node e, .node x]) := by
  constructor <;> simp [resolvedKey, resolve, h]

/-! ## Non-vacuity: a concrete history with a class, members, a redeclaration, a base, a link and unified hits -/

/-- ids: 0-2 global region/scope/product, 3 `int`, 4 string, 5 identifier, 6-12 class with its regions,
    13 field, 14 its redeclaration, 15 base, 16 `for`, 17 pointer -/
def demo : List Op :=
  [ .root, .const "int", .mk "get_identifier" [.str "78"], .mk "make_class" [.node 0],
    .decl 6 "field" 5 3, .decl 6 "field" 5 3, .base 6 3, .mk "make_for" [], .set 16 "stmt" 13,
    .mk "get_identifier" [.str "78"], .mk "get_pointer" [.node 3], .mk "get_pointer" [.node 3], .root,
    .mk "get_qualified" [.num 0, .node 3], .set 16 "stmt" 14 ]

example : answers {} demo =
    [.node 0, .node 3, .node 5, .node 6, .node 13, .node 14, .node 15, .node 16, .unit, .node 5, .node 17, .node 17, .node 0,
     .error, .bad] := by decide +kernel

example : (run demo).size = 18 := by decide +kernel

/-- the class gained its two members and its base between op 4 and the end, and nothing else about it changed -/
example : (obs (run (demo.take 4)) 6).seqs = [("members", []), ("bases", [])] ∧
    (obs (run demo) 6).seqs = [("members", [some 13, some 14]), ("bases", [some 15])] := by decide +kernel

/-- the product type of the class scope reads the types of the members: it grew too -/
example : (obs (run (demo.take 4)) 9).seqs = [("elements", [])] ∧
    (obs (run demo) 9).seqs = [("elements", [some 3, some 3])] := by decide +kernel

/-- the redeclaration joined the decl-set of its master; the link was set once and kept -/
example : (obs (run demo) 13).seqs = [("decl_set", [some 13, some 14])] ∧ (obs (run demo) 16).links = [("stmt", 13)] := by
  decide +kernel

/-- the hypotheses of `C05_frame` are satisfiable with a non-trivial watch list: declaring a base touches the base
    scope 11 only, the scope product 9 reads scope 8 -/
example : watch (run (demo.take 6)) 9 = [8] ∧ memTargets (run (demo.take 6)) (.base 6 3) = [11] ∧
    watch (run (demo.take 6)) 6 = [8, 11] := by decide +kernel

/-- the hypotheses of `C05_unified_alias_iff` are satisfiable (ops 2 and 9, and 10 and 11, are unified hits) -/
example : resolvedKey (run (demo.take 9)) "get_identifier" [.str "78"] = some ("get_identifier", [.node 4]) ∧
    isUnified "get_identifier" = true ∧ (Op.mk "make_class" [.node 0]).generative = true ∧
    (Op.mk "make_literal" [.node 3, .str "31"]).generative = false := by decide +kernel

/-- ids: 0-2 global region/scope/product, 3 `int`, 4 `char`, 5/6 string and identifier "" (unnamed), 7/8 string and
    identifier `x`, 9-13 mapping / parameter list / region / scope / product, 14-17 parameters `x:int`, `"":char`,
    `"":int`, `"":char`; 18 Java, 19 C++, 20 natural convention, 21 `__fastcall`, 22-25 transfers, 26 product (),
    27 the plain function type, 28 the Java one -/
def demo2 : List Op :=
  [ .root, .const "int", .const "char", .mk "get_identifier" [.str ""], .mk "get_identifier" [.str "78"],
    .mk "make_mapping" [.node 0, .num 0], .mparam 9 8 3, .mparam 9 6 4, .lookup 12 6 4, .mparam 9 6 3, .mparam 9 6 4,
    .lookup 12 6 4, .lookup 12 6 3, .lookup 12 8 3, .lookup 12 8 4,
    .mk "get_linkage" [.str "4a617661"], .mk "get_linkage" [.str cxxHex], .mk "get_calling_convention" [.str ""],
    .mk "get_calling_convention" [.str "5f5f6661737463616c6c"],
    .mk "get_transfer" [.node 18, .node 20], .mk "get_transfer_from_linkage" [.node 18],
    .mk "get_transfer" [.node 19, .node 21], .mk "get_transfer" [.node 18, .node 21], .mk "get_transfer" [.node 19, .node 20],
    .whNew, .mk "get_product" [.wh 0], .mk "get_function" [.node 26, .node 3],
    .mk "get_function_x" [.node 26, .node 3, .node 25], .mk "get_function_x" [.node 26, .node 3, .node 22] ]

/-- the second unnamed parameter does not displace the first; selection by another type than the first member's finds
    nothing; transfers are normalised; a transfer equal to the natural one gives the plain function type -/
example : answers {} demo2 =
    [.node 0, .node 3, .node 4, .node 6, .node 8, .node 9, .node 14, .node 15, .node 15, .node 16, .node 17,
     .node 15, .unit, .node 14, .unit,
     .node 18, .node 19, .node 20, .node 21, .node 22, .node 22, .node 23, .node 24, .node 25,
     .unit, .node 26, .node 27, .node 27, .node 28] := by decide +kernel

/-- the hypotheses of `C05_lookup_stable`, `C05_natural_transfer_plain` and `C05_other_transfer_kept` are satisfiable -/
example : lookupIn (run (demo2.take 8)) 12 6 4 = some (some 15) ∧ 12 < (run (demo2.take 8)).size ∧
    isNaturalTransfer (run demo2) 25 = true ∧ isNaturalTransfer (run demo2) 22 = false ∧
    transferValue (run demo2) 24 = some ("4a617661", "5f5f6661737463616c6c") := by decide +kernel

end Ipr.Stable
