import IprProofs.UnifyTop
/-!
# C11 — qualified types are in normal form

`get_qualified` of `IprModel/Unify.lean` (src/impl.cxx:1172-1187): an empty qualifier set is refused; when the
operand views as `Qualified(q', T')` the request is re-issued for `(q ∪ q', T')`.  Theorems over every history.
-/
namespace Ipr.Unify
open Ipr.RB

/-- An empty qualifier set is refused, in every state, and nothing changes. -/
theorem C11_empty_refused (addr : Ref → Int) (cfg : Config) (s : State1) (t : Ref) :
    exec1 addr cfg s (.qualified 0 t) = (s, none) := by
  unfold exec1 execWith
  simp only [plan, ↓reduceIte, runPlan]
  split <;> rfl

/-- After any history, every `Qualified` node of the Lexicon has a non-empty qualifier set and a main variant that
    is a live node and not itself a `Qualified`. -/
theorem C11_main_variant_unqualified {addr : Ref → Int} (hinj : Injective addr) (cfg : Config) (reqs : List Req)
    (r : Ref) (q : Nat) (m : Ref) (hq : qualView (run1 addr cfg {} reqs).1.heap r = some (q, m)) :
    q ≠ 0 ∧ m.valid (run1 addr cfg {} reqs).1.heap = true ∧ qualView (run1 addr cfg {} reqs).1.heap m = none :=
  qualified_normal (reach1_inv hinj cfg reqs) hq

/-- Every answer of `get_qualified` is such a node: qualifiers non-empty, main variant unqualified. -/
theorem C11_result_normal {addr : Ref → Int} (hinj : Injective addr) (cfg : Config) (reqs : List Req) (q : Nat) (t r : Ref)
    (hr : (exec1 addr cfg (run1 addr cfg {} reqs).1 (.qualified q t)).2 = some r) :
    ∃ q' m, qualView (exec1 addr cfg (run1 addr cfg {} reqs).1 (.qualified q t)).1.heap r = some (q', m) ∧ q' ≠ 0 ∧
      qualView (exec1 addr cfg (run1 addr cfg {} reqs).1 (.qualified q t)).1.heap m = none := by
  have hrel := (run1_refines hinj cfg reqs {} (Rel.init addr)).2.2
  obtain ⟨e1, e2, _⟩ := exec1_refines hinj cfg _ hrel (.qualified q t)
  have hi := reach1_inv hinj cfg reqs
  obtain ⟨hi1, _, hn1, _⟩ := exec0_spec hi (.qualified q t)
  rw [e2] at hr
  rw [e1]
  rw [hr, Option.bind_some] at hn1
  have hk : ∃ a u, normV cfg (run1 addr cfg {} reqs).1.heap (.qualified q t) = some (.qualifieds, [.num a, .node u]) := by
    cases hnv : normV cfg (run1 addr cfg {} reqs).1.heap (.qualified q t) with
    | none =>
      rw [hnv] at hn1
      cases r with
      | stat s => simp [nkOfRef] at hn1
      | dyn i =>
        have hv := (exec0_spec hi (.qualified q t)).2.2.2 _ hr
        obtain ⟨k, hk⟩ := nkOfRef_isSome hv
        rw [hk] at hn1; cases hn1
    | some k =>
      simp only [normV, norm] at hnv
      split at hnv
      · split at hnv
        · cases hnv
        · split at hnv <;> (simp only [Option.some.injEq] at hnv; subst hnv; exact ⟨_, _, rfl⟩)
      · cases hnv
  obtain ⟨a, u, hk⟩ := hk
  rw [hk] at hn1
  have hv := qualView_of_nk hn1
  obtain ⟨h1, _, h3⟩ := qualified_normal hi1 hv
  exact ⟨a, u, hv, h1, h3⟩

/-- **Successive qualification.**  For every unqualified live type `t` and every non-empty list `q₁ … q_k` of
    non-empty qualifier sets, asking `get_qualified(q₁, t)`, then `get_qualified(q₂, ·)` of the answer, … yields the node
    filed under `(q₁ ∪ … ∪ q_k, t)` — starting from the state reached by any history. -/
theorem C11_successive_qualification {cfg : Config} {h : Heap} (hi : Inv cfg h) (t : Ref) (qs : List Nat)
    (ht : t.valid h = true) (hut : qualView h t = none) (hne : qs ≠ []) (hall : ∀ q ∈ qs, q ≠ 0) :
    ∃ r, (qualChain cfg h t qs).2 = some r ∧
      nkOfRef (qualChain cfg h t qs).1 r = some (.qualifieds, [.num (qs.foldl (· ||| ·) 0), .node t]) ∧
      qualView (qualChain cfg h t qs).1 r = some (qs.foldl (· ||| ·) 0, t) := by
  obtain ⟨r, h1, h2, _, _, _⟩ := qualChain_spec cfg qs h t t 0 hi hall ht hut (Or.inl ⟨rfl, rfl⟩) hne
  exact ⟨r, h1, h2, qualView_of_nk h2⟩

/-- … hence the result is independent of order and grouping: two chains with the same union, run one after the
    other (so with anything the first one built in between), end at the same node; in particular both equal the
    node of the single request `get_qualified(q₁ ∪ … ∪ q_k, t)`. -/
theorem C11_order_and_grouping_independent {cfg : Config} {h : Heap} (hi : Inv cfg h) (t : Ref) (qs qs' : List Nat)
    (ht : t.valid h = true) (hut : qualView h t = none) (hne : qs ≠ []) (hne' : qs' ≠ [])
    (hall : ∀ q ∈ qs, q ≠ 0) (hall' : ∀ q ∈ qs', q ≠ 0)
    (hunion : qs.foldl (· ||| ·) 0 = qs'.foldl (· ||| ·) 0) :
    (qualChain cfg (qualChain cfg h t qs).1 t qs').2 = (qualChain cfg h t qs).2 := by
  obtain ⟨r, h1, h2, hv, hi1, he1⟩ := qualChain_spec cfg qs h t t 0 hi hall ht hut (Or.inl ⟨rfl, rfl⟩) hne
  obtain ⟨r', g1, g2, gv, gi, ge⟩ := qualChain_spec cfg qs' (qualChain cfg h t qs).1 t t 0 hi1 hall' (he1.valid ht)
    (by rw [qualView_ext he1 ht]; exact hut) (Or.inl ⟨rfl, rfl⟩) hne'
  rw [h1, g1]
  have : nkOfRef (qualChain cfg (qualChain cfg h t qs).1 t qs').1 r' = nkOfRef (qualChain cfg (qualChain cfg h t qs).1 t qs').1 r := by
    rw [g2, nkOfRef_ext ge hv, h2, hunion]
  rw [nkOfRef_inj gi gv (ge.valid hv) this]

/-- **Re-qualifying is idempotent.**  Asking `get_qualified(q, c)` of the node `c` filed under `(acc, t)` with qualifiers it
    already carries (`acc ∪ q = acc`, in particular `q = acc`) answers `c` itself — no second node for `const const T`. -/
theorem C11_requalify_idempotent {cfg : Config} {h : Heap} (hi : Inv cfg h) {t c : Ref} {acc q : Nat} (hq : q ≠ 0)
    (ht : t.valid h = true) (hut : qualView h t = none) (hacc : acc ≠ 0)
    (hk : nkOfRef h c = some (.qualifieds, [.num acc, .node t])) (hcv : c.valid h = true) (hsub : acc ||| q = acc) :
    (exec0 cfg h (.qualified q c)).2 = some c := by
  obtain ⟨r, hres, hkr, hrv, hi1, he1⟩ := qual_step hi hq ht hut (Or.inr ⟨hacc, hk, hcv⟩)
  rw [hres]
  have : nkOfRef (exec0 cfg h (.qualified q c)).1 r = nkOfRef (exec0 cfg h (.qualified q c)).1 c := by
    rw [hkr, nkOfRef_ext he1 hcv, hk, hsub]
  rw [nkOfRef_inj hi1 hrv (he1.valid hcv) this]

/-- The states reached by histories (at L1, any injective `addr`) are admissible starting points for the two theorems above. -/
theorem C11_reachable_admissible {addr : Ref → Int} (hinj : Injective addr) (cfg : Config) (reqs : List Req) :
    Inv cfg (run1 addr cfg {} reqs).1.heap := reach1_inv hinj cfg reqs

/-- **In every Lexicon of a process.**  After any process history (requests addressed to any number of Lexicons in any
    interleaving, Lexicons destroyed and replaced by fresh ones at any time — `procRun`), every `Qualified` node that
    Lexicon `k` holds has a non-empty qualifier set and a live, unqualified main variant. -/
theorem C11_main_variant_unqualified_in_process {addr : Ref → Int} (hinj : Injective addr) (cfg : Config) (evs : List Ev)
    (k : Nat) (r : Ref) (q : Nat) (m : Ref)
    (hq : qualView ((procRun addr cfg Proc.fresh evs).1 k).heap r = some (q, m)) :
    q ≠ 0 ∧ m.valid ((procRun addr cfg Proc.fresh evs).1 k).heap = true ∧
      qualView ((procRun addr cfg Proc.fresh evs).1 k).heap m = none := by
  have hst := procRun_state addr cfg evs Proc.fresh (fun _ => []) (by intro i; simp [Proc.fresh, run1, runWith]) k
  rw [hst] at hq ⊢
  exact C11_main_variant_unqualified hinj cfg _ r q m hq

/-- … and the state of Lexicon `k` is an admissible starting point of `C11_successive_qualification` /
    `C11_order_and_grouping_independent`: what other Lexicons were asked in between, and what a predecessor at the same
    place had been asked, does not matter. -/
theorem C11_process_state_admissible {addr : Ref → Int} (hinj : Injective addr) (cfg : Config) (evs : List Ev) (k : Nat) :
    Inv cfg ((procRun addr cfg Proc.fresh evs).1 k).heap := by
  rw [procRun_state addr cfg evs Proc.fresh (fun _ => []) (by intro i; simp [Proc.fresh, run1, runWith]) k]
  exact reach1_inv hinj cfg _

/-! ### Non-vacuity -/

def exCfg11 : Config := { words := [[105, 110, 116]], builtinWords := [0] }
def exInt11 : Ref := .stat (.builtin 0)

/-- const, then volatile on the result, then the union directly, then the other order: one node for `const volatile int`;
    its main variant is `int`; the empty set is refused. -/
example : answers1 defaultAddr exCfg11
    [.qualified 1 exInt11, .qualified 2 (.dyn 0), .qualified 3 exInt11, .qualified 2 exInt11, .qualified 1 (.dyn 2),
     .qualified 0 exInt11, .qualified 4 (.dyn 1)]
    = [some (.dyn 0), some (.dyn 1), some (.dyn 1), some (.dyn 2), some (.dyn 1), none, some (.dyn 3)] := by decide +kernel
/-- `const` on `const int`, and `const` on `const volatile int`: the node asked about is the answer. -/
example : answers1 defaultAddr exCfg11 [.qualified 1 exInt11, .qualified 1 (.dyn 0), .qualified 2 (.dyn 0), .qualified 1 (.dyn 1)]
    = [some (.dyn 0), some (.dyn 0), some (.dyn 1), some (.dyn 1)] := by decide +kernel
example : qualView (run1 defaultAddr exCfg11 {} [.qualified 1 exInt11, .qualified 2 (.dyn 0), .qualified 4 (.dyn 1)]).1.heap (.dyn 2)
    = some (7, exInt11) := by decide +kernel
example : (qualChain exCfg11 #[] exInt11 [1, 4, 2]).2 = (qualChain exCfg11 (qualChain exCfg11 #[] exInt11 [1, 4, 2]).1 exInt11 [6, 1]).2 := by
  decide +kernel

end Ipr.Unify
