import IprModel.Subst
import IprProofs.RBTree
/-!
# C16 — substitutions behave as finite maps from parameters to expressions
For every parameter, value, query and every history of bindings (any length, any rebinding).
-/
namespace Ipr.Subst

/-- An elementary substitution maps its parameter to its value … -/
theorem C16_elementary_bound (p v : Node) : (Elementary.mk p v).apply p = v := by simp [Elementary.apply]

/-- … and every other parameter to itself. -/
theorem C16_elementary_other (p v q : Node) (h : q ≠ p) : (Elementary.mk p v).apply q = q := by
  simp [Elementary.apply, h]

theorem lookup_cons_eq (k w q : Node) (rest : List (Node × Node)) :
    List.lookup q ((k, w) :: rest) = if q = k then some w else List.lookup q rest := by
  by_cases h : q = k
  · subst h; simp [List.lookup]
  · have hb : (q == k) = false := by simpa using h
    simp [List.lookup, hb, h]

theorem lookup_insertOrAssign (m : List (Node × Node)) (p v q : Node) :
    (insertOrAssign m p v).lookup q = if q = p then some v else m.lookup q := by
  induction m with
  | nil => simp only [insertOrAssign, lookup_cons_eq, List.lookup]
  | cons e rest ih =>
    obtain ⟨k, w⟩ := e
    simp only [insertOrAssign]
    by_cases hk : k = p
    · subst hk
      simp only [if_true, lookup_cons_eq]
      by_cases hq : q = k <;> simp [hq]
    · simp only [hk, if_false, lookup_cons_eq, ih]
      by_cases hq : q = k
      · subst hq; simp [hk]
      · simp [hq]

/-- The latest binding of `q` in a history, if any. -/
def latest (bs : List (Node × Node)) (q : Node) : Option Node :=
  (bs.reverse.find? (fun b => b.1 == q)).map (·.2)

theorem latest_snoc (bs : List (Node × Node)) (p v q : Node) :
    latest (bs ++ [(p, v)]) q = if q = p then some v else latest bs q := by
  simp only [latest, List.reverse_append, List.reverse_cons, List.reverse_nil, List.nil_append, List.singleton_append,
    List.find?_cons]
  by_cases h : q = p
  · subst h; simp
  · have : (p == q) = false := by simp; exact fun e => h e.symm
    simp [this, h]

theorem ofHistory_snoc (bs : List (Node × Node)) (p v : Node) :
    General.ofHistory (bs ++ [(p, v)]) = (General.ofHistory bs).subst p v := by
  simp [General.ofHistory, List.foldl_append]

theorem lookup_ofHistory (bs : List (Node × Node)) (q : Node) :
    (General.ofHistory bs).mapping.lookup q = latest bs q := by
  induction bs using Ipr.List.snocInduction with
  | nil => simp [General.ofHistory, latest]
  | append_singleton bs b ih =>
    obtain ⟨p, v⟩ := b
    rw [ofHistory_snoc, latest_snoc]
    simp only [General.subst, lookup_insertOrAssign, ih]

/-- A general substitution has exactly the latest binding given for each parameter: a bound parameter yields the
    expression of its last binding, any other parameter yields itself. -/
theorem C16_general_latest (bs : List (Node × Node)) (q : Node) :
    (General.ofHistory bs).apply q = (latest bs q).getD q := by
  simp only [General.apply, lookup_ofHistory]
  cases latest bs q <;> rfl

/-- Outside the domain the parameter is unchanged. -/
theorem C16_general_outside (bs : List (Node × Node)) (q : Node) (h : ∀ b ∈ bs, b.1 ≠ q) :
    (General.ofHistory bs).apply q = q := by
  rw [C16_general_latest]
  have : latest bs q = none := by
    simp only [latest, Option.map_eq_none_iff, List.find?_eq_none, List.mem_reverse]
    intro b hb; simpa using h b hb
  simp [this]

/-- Inside the domain the answer is the value of the last binding: any later binding of another parameter is irrelevant. -/
theorem C16_general_last_wins (bs cs : List (Node × Node)) (p v : Node) (h : ∀ b ∈ cs, b.1 ≠ p) :
    (General.ofHistory (bs ++ (p, v) :: cs)).apply p = v := by
  rw [C16_general_latest]
  have : latest (bs ++ (p, v) :: cs) p = some v := by
    simp only [latest, List.reverse_append, List.reverse_cons, List.append_assoc, List.singleton_append]
    rw [List.find?_append]
    have hn : cs.reverse.find? (fun b => b.1 == p) = none := by
      simp only [List.find?_eq_none, List.mem_reverse]; intro b hb; simpa using h b hb
    simp [hn]
  simp [this]

/-! ## The map itself: one entry per parameter (std::map has unique keys), domain = the parameters ever bound -/

theorem keys_insertOrAssign (m : List (Node × Node)) (p v : Node) :
    (insertOrAssign m p v).map Prod.fst = if p ∈ m.map Prod.fst then m.map Prod.fst else m.map Prod.fst ++ [p] := by
  induction m with
  | nil => simp [insertOrAssign]
  | cons e rest ih =>
    obtain ⟨k, w⟩ := e
    simp only [insertOrAssign]
    by_cases hk : k = p
    · subst hk; simp
    · have hk' : p ≠ k := fun e => hk e.symm
      simp only [hk, if_false, List.map_cons, ih, List.mem_cons, hk', false_or]
      by_cases hm : p ∈ rest.map Prod.fst <;> simp [hm]

/-- However many times parameters are bound and rebound, the mapping holds at most one entry per parameter. -/
theorem C16_general_keys_nodup (bs : List (Node × Node)) : ((General.ofHistory bs).mapping.map Prod.fst).Nodup := by
  induction bs using Ipr.List.snocInduction with
  | nil => simp [General.ofHistory]
  | append_singleton bs b ih =>
    obtain ⟨p, v⟩ := b
    rw [ofHistory_snoc]
    simp only [General.subst, keys_insertOrAssign]
    by_cases hm : p ∈ (General.ofHistory bs).mapping.map Prod.fst
    · simpa [hm] using ih
    · simp only [hm, if_false]
      rw [List.nodup_append]
      refine ⟨ih, by simp, ?_⟩
      intro a ha b hb
      simp only [List.mem_singleton] at hb
      subst hb
      intro e; subst e; exact hm ha

/-- The domain of the mapping is exactly the set of parameters that occur in the history. -/
theorem C16_general_domain (bs : List (Node × Node)) (q : Node) :
    q ∈ (General.ofHistory bs).mapping.map Prod.fst ↔ ∃ b ∈ bs, b.1 = q := by
  induction bs using Ipr.List.snocInduction with
  | nil => simp [General.ofHistory]
  | append_singleton bs b ih =>
    obtain ⟨p, v⟩ := b
    rw [ofHistory_snoc]
    simp only [General.subst, keys_insertOrAssign]
    by_cases hm : p ∈ (General.ofHistory bs).mapping.map Prod.fst
    · simp only [hm, if_true, ih, List.mem_append, List.mem_singleton]
      constructor
      · rintro ⟨b, hb, e⟩; exact ⟨b, Or.inl hb, e⟩
      · rintro ⟨b, hb | hb, e⟩
        · exact ⟨b, hb, e⟩
        · subst hb; subst e; exact ih.mp hm
    · simp only [hm, if_false, List.mem_append, List.mem_singleton, ih]
      constructor
      · rintro (⟨b, hb, e⟩ | e)
        · exact ⟨b, Or.inl hb, e⟩
        · exact ⟨(p, v), Or.inr rfl, e.symm⟩
      · rintro ⟨b, hb | hb, e⟩
        · exact Or.inl ⟨b, hb, e⟩
        · subst hb; exact Or.inr e.symm

/-- The number of entries never exceeds the number of bindings made. -/
theorem C16_general_size_le (bs : List (Node × Node)) : (General.ofHistory bs).mapping.length ≤ bs.length := by
  induction bs using Ipr.List.snocInduction with
  | nil => simp [General.ofHistory]
  | append_singleton bs b ih =>
    obtain ⟨p, v⟩ := b
    rw [ofHistory_snoc]
    have h := congrArg List.length (keys_insertOrAssign (General.ofHistory bs).mapping p v)
    simp only [General.subst, List.length_map, List.length_append, List.length_singleton] at h ⊢
    split at h <;> simp_all <;> omega

/-- Binding the same parameter to the same value twice is the same as binding it once (as a function on parameters). -/
theorem C16_general_rebind_idem (bs : List (Node × Node)) (p v q : Node) :
    (General.ofHistory (bs ++ [(p, v), (p, v)])).apply q = (General.ofHistory (bs ++ [(p, v)])).apply q := by
  have e : bs ++ [(p, v), (p, v)] = (bs ++ [(p, v)]) ++ [(p, v)] := by simp
  rw [C16_general_latest, C16_general_latest, e, latest_snoc, latest_snoc]
  by_cases h : q = p <;> simp [h]

/-- Bindings of two different parameters commute: the order in which they were recorded cannot be observed. -/
theorem C16_general_commute (bs : List (Node × Node)) (p v p' v' q : Node) (hne : p ≠ p') :
    (General.ofHistory (bs ++ [(p, v), (p', v')])).apply q = (General.ofHistory (bs ++ [(p', v'), (p, v)])).apply q := by
  have e1 : bs ++ [(p, v), (p', v')] = (bs ++ [(p, v)]) ++ [(p', v')] := by simp
  have e2 : bs ++ [(p', v'), (p, v)] = (bs ++ [(p', v')]) ++ [(p, v)] := by simp
  rw [C16_general_latest, C16_general_latest, e1, e2, latest_snoc, latest_snoc, latest_snoc, latest_snoc]
  by_cases h : q = p
  · subst h; simp [hne]
  · by_cases h' : q = p'
    · subst h'; simp [Ne.symm hne]
    · simp [h, h']

example : ((General.ofHistory [(1, 10), (2, 20), (1, 11)]).mapping.map Prod.fst) = [1, 2] := by decide
example : (General.ofHistory [(1, 10), (2, 20), (1, 11)]).mapping.length = 2 := by decide

example : (General.ofHistory [(1, 10), (2, 20), (1, 11)]).apply 1 = 11 := by decide
example : (General.ofHistory [(1, 10), (2, 20), (1, 11)]).apply 3 = 3 := by decide
example : (Elementary.mk 1 10).apply 2 = 2 ∧ (Elementary.mk 1 10).apply 1 = 10 := by decide

end Ipr.Subst
