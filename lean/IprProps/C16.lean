import IprModel.Subst
import IprProofs.RBTree
/-!
# C16 — substitutions behave as finite maps from parameters to expressions
For every parameter, value, query and every history of bindings (any length, any rebinding).
-/
namespace Ipr.Subst

/-- An elementary substitution maps its parameter to its value … -/
theorem C16_elementary_bound (p v : Node) : (Elementary.mk p v).apply p = v := by simp [Elementary.apply]

/-- … and every other parameter to itself. -/
theorem C16_elementary_other (p v q : Node) (h : q ≠ p) : (Elementary.mk p v).apply q = q := by
  simp [Elementary.apply, h]

theorem lookup_cons_eq (k w q : Node) (rest : List (Node × Node)) :
    List.lookup q ((k, w) :: rest) = if q = k then some w else List.lookup q rest := by
  by_cases h : q = k
  · subst h; simp [List.lookup]
  · have hb : (q == k) = false := by simpa using h
    simp [List.lookup, hb, h]

theorem lookup_insertOrAssign (m : List (Node × Node)) (p v q : Node) :
    (insertOrAssign m p v).lookup q = if q = p then some v else m.lookup q := by
  induction m with
  | nil => simp only [insertOrAssign, lookup_cons_eq, List.lookup]
  | cons e rest ih =>
    obtain ⟨k, w⟩ := e
    simp only [insertOrAssign]
    by_cases hk : k = p
    · subst hk
      simp only [if_true, lookup_cons_eq]
      by_cases hq : q = k <;> simp [hq]
    · simp only [hk, if_false, lookup_cons_eq, ih]
      by_cases hq : q = k
      · subst hq; simp [hk]
      · simp [hq]

/-- The latest binding of `q` in a history, if any. -/
def latest (bs : List (Node × Node)) (q : Node) : Option Node :=
  (bs.reverse.find? (fun b => b.1 == q)).map (·.2)

theorem latest_snoc (bs : List (Node × Node)) (p v q : Node) :
    latest (bs ++ [(p, v)]) q = if q = p then some v else latest bs q := by
  simp only [latest, List.reverse_append, List.reverse_cons, List.reverse_nil, List.nil_append, List.singleton_append,
    List.find?_cons]
  by_cases h : q = p
  · subst h; simp
  · have : (p == q) = false := by simp; exact fun e => h e.symm
    simp [this, h]

theorem ofHistory_snoc (bs : List (Node × Node)) (p v : Node) :
    General.ofHistory (bs ++ [(p, v)]) = (General.ofHistory bs).subst p v := by
  simp [General.ofHistory, List.foldl_append]

theorem lookup_ofHistory (bs : List (Node × Node)) (q : Node) :
    (General.ofHistory bs).mapping.lookup q = latest bs q := by
  induction bs using Ipr.List.snocInduction with
  | nil => simp [General.ofHistory, latest]
  | append_singleton bs b ih =>
    obtain ⟨p, v⟩ := b
    rw [ofHistory_snoc, latest_snoc]
    simp only [General.subst, lookup_insertOrAssign, ih]

/-- A general substitution has exactly the latest binding given for each parameter: a bound parameter yields the
    expression of its last binding, any other parameter yields itself. -/
theorem C16_general_latest (bs : List (Node × Node)) (q : Node) :
    (General.ofHistory bs).apply q = (latest bs q).getD q := by
  simp only [General.apply, lookup_ofHistory]
  cases latest bs q <;> rfl

/-- Outside the domain the parameter is unchanged. -/
theorem C16_general_outside (bs : List (Node × Node)) (q : Node) (h : ∀ b ∈ bs, b.1 ≠ q) :
    (General.ofHistory bs).apply q = q := by
  rw [C16_general_latest]
  have : latest bs q = none := by
    simp only [latest, Option.map_eq_none_iff, List.find?_eq_none, List.mem_reverse]
    intro b hb; simpa using h b hb
  simp [this]

/-- Inside the domain the answer is the value of the last binding: any later binding of another parameter is irrelevant. -/
theorem C16_general_last_wins (bs cs : List (Node × Node)) (p v : Node) (h : ∀ b ∈ cs, b.1 ≠ p) :
    (General.ofHistory (bs ++ (p, v) :: cs)).apply p = v := by
  rw [C16_general_latest]
  have : latest (bs ++ (p, v) :: cs) p = some v := by
    simp only [latest, List.reverse_append, List.reverse_cons, List.append_assoc, List.singleton_append]
    rw [List.find?_append]
    have hn : cs.reverse.find? (fun b => b.1 == p) = none := by
      simp only [List.find?_eq_none, List.mem_reverse]; intro b hb; simpa using h b hb
    simp [hn]
  simp [this]

example : (General.ofHistory [(1, 10), (2, 20), (1, 11)]).apply 1 = 11 := by decide
example : (General.ofHistory [(1, 10), (2, 20), (1, 11)]).apply 3 = 3 := by decide
example : (Elementary.mk 1 10).apply 2 = 2 ∧ (Elementary.mk 1 10).apply 1 = 10 := by decide

end Ipr.Subst
