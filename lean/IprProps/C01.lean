import IprProofs.UnifyTop
/-!
# C01 — types are unified

Model: `IprModel/Unify.lean` (`plan` = the code-shaped part of every `type_factory::get_*`, `norm` = the documented
normal form, L0 = duplicate-free key table, L1 = one red-black tree per table searched with a model of each
comparator of src/impl.cxx over an address assignment `addr`).  Every theorem quantifies over **every** finite
request history (any interleaving of type, name, atom and generative requests), every table of reserved words
`cfg`, and — at L1 — **every** injective address assignment.  Tie to the C++: `check.py C01` (harness/unifyprobe.cxx).
-/
namespace Ipr.Unify
open Ipr.RB

/-- (a) Every comparator model is a lawful total order whose zero set is key equality — for every injective `addr`. -/
theorem C01_comparators_lawful {addr : Ref → Int} (hinj : Injective addr) (tag : Tag) : Lawful (tableCmp addr tag) :=
  tableCmp_lawful hinj tag
theorem C01_unified_type_compare_lawful {addr : Ref → Int} (hinj : Injective addr) : Lawful (unifiedTypeCompare addr) := by
  rw [unifiedTypeCompare_eq]; exact keyCmp_lawful hinj
theorem C01_unary_compare_lawful {addr : Ref → Int} (hinj : Injective addr) : Lawful (unaryCompare addr) := by
  rw [unaryCompare_eq]; exact keyCmp_lawful hinj
theorem C01_binary_compare_lawful {addr : Ref → Int} (hinj : Injective addr) : Lawful (binaryCompare addr) := by
  rw [binaryCompare_eq]; exact keyCmp_lawful hinj
theorem C01_ternary_compare_lawful {addr : Ref → Int} (hinj : Injective addr) : Lawful (ternaryCompare addr) := by
  rw [ternaryCompare_eq]; exact keyCmp_lawful hinj
theorem C01_unary_lexicographic_compare_lawful {addr : Ref → Int} (hinj : Injective addr) : Lawful (unaryLexCompare addr) := by
  rw [unaryLexCompare_eq]; exact keyCmp_lawful hinj
theorem C01_as_type_transfer_compare_lawful {addr : Ref → Int} (hinj : Injective addr) : Lawful (asTypeXferCompare addr) := by
  rw [asTypeXferCompare_eq]; exact keyCmp_lawful hinj
theorem C01_function_transfer_compare_lawful {addr : Ref → Int} (hinj : Injective addr) : Lawful (funXferCompare addr) := by
  rw [funXferCompare_eq]; exact keyCmp_lawful hinj
theorem C01_transfer_spelling_compare_lawful {addr : Ref → Int} (hinj : Injective addr) : Lawful (spellingCompare addr) := by
  rw [spellingCompare_eq]; exact keyCmp_lawful hinj

/-- (b) L1 refines L0: for every history and every injective address assignment the trees answer what the key
    table answers, allocate the same nodes, and every tree stays balanced, ordered and complete. -/
theorem C01_L1_refines_L0 {addr : Ref → Int} (hinj : Injective addr) (cfg : Config) (reqs : List Req) :
    (run1 addr cfg {} reqs).1.heap = (run0 cfg #[] reqs).1 ∧
    (run1 addr cfg {} reqs).2 = (run0 cfg #[] reqs).2 ∧
    ∀ tag, TreeInv addr (run1 addr cfg {} reqs).1.heap tag ((run1 addr cfg {} reqs).1.tables.get tag) := by
  obtain ⟨h1, h2, h3⟩ := run1_refines hinj cfg reqs {} (Rel.init addr)
  exact ⟨h1, h2, h3.trees⟩

/-- (c) **Unification.**  In every finite history, requests `i` and `j` are answered with the same node if and only
    if their normal forms are equal — whatever was built in between, for every injective address assignment. -/
theorem C01_unified {addr : Ref → Int} (hinj : Injective addr) (cfg : Config) (reqs : List Req) (i j : Nat)
    (hi : i < reqs.length) (hj : j < reqs.length) :
    (answers1 addr cfg reqs)[i]? = (answers1 addr cfg reqs)[j]? ↔ (keysOf cfg reqs)[i]? = (keysOf cfg reqs)[j]? := by
  rw [answers1_eq hinj]; exact unified_index cfg reqs i j hi hj

/-- A request is refused exactly when it has no normal form (an empty qualifier set, or an operand that is not a
    live node / not of the sort the function takes). -/
theorem C01_refused_iff {addr : Ref → Int} (hinj : Injective addr) (cfg : Config) (reqs : List Req) (i : Nat)
    (hi : i < reqs.length) :
    (answers1 addr cfg reqs)[i]? = some none ↔ (keysOf cfg reqs)[i]? = some none := by
  rw [answers1_eq hinj, answers0_eq]
  have hl := trace0_length cfg reqs #[]
  have hi' : i < (trace0 cfg #[] reqs).length := by omega
  obtain ⟨_, _, hall⟩ := trace0_spec cfg reqs #[] (Inv.empty cfg)
  obtain ⟨hk, hv⟩ := hall _ (List.getElem_mem hi')
  simp only [keysOf, List.getElem?_map, List.getElem?_eq_getElem hi', Option.map_some, Option.some.injEq]
  constructor
  · intro h; rw [← hk, h]; rfl
  · intro h
    cases hres : ((trace0 cfg #[] reqs)[i]).2 with
    | none => rfl
    | some x =>
      obtain ⟨k, hkk⟩ := nkOfRef_isSome (hv x hres)
      rw [hres, Option.bind_some, hkk] at hk
      rw [h] at hk; cases hk

/-- The answer of every request is the node filed under the request's normal form in the final heap. -/
theorem C01_answer_filed_under_key {addr : Ref → Int} (hinj : Injective addr) (cfg : Config) (reqs : List Req) (i : Nat)
    (hi : i < reqs.length) (r : Ref) (hr : (answers1 addr cfg reqs)[i]? = some (some r)) :
    some (nkOfRef (run1 addr cfg {} reqs).1.heap r) = (keysOf cfg reqs)[i]? := by
  rw [answers1_eq hinj, answers0_eq] at hr
  rw [(run1_refines hinj cfg reqs {} (Rel.init addr)).1]
  have hl := trace0_length cfg reqs #[]
  have hi' : i < (trace0 cfg #[] reqs).length := by omega
  obtain ⟨_, _, hall⟩ := trace0_spec cfg reqs #[] (Inv.empty cfg)
  obtain ⟨hk, _⟩ := hall _ (List.getElem_mem hi')
  simp only [List.getElem?_map, List.getElem?_eq_getElem hi', Option.map_some, Option.some.injEq] at hr
  simp only [keysOf, List.getElem?_map, List.getElem?_eq_getElem hi', Option.map_some, Option.some.injEq]
  rw [← hk, hr]; rfl

/-- (d) Nodes of different constructors (tables) never coincide. -/
theorem C01_distinct_constructors {addr : Ref → Int} (hinj : Injective addr) (cfg : Config) (reqs : List Req) (i j : Nat)
    (hi : i < reqs.length) (hj : j < reqs.length) (t1 t2 : Tag) (k1 k2 : Key)
    (h1 : (keysOf cfg reqs)[i]? = some (some (t1, k1))) (h2 : (keysOf cfg reqs)[j]? = some (some (t2, k2)))
    (hne : t1 ≠ t2) : (answers1 addr cfg reqs)[i]? ≠ (answers1 addr cfg reqs)[j]? := by
  intro he
  have := (C01_unified hinj cfg reqs i j hi hj).mp he
  rw [h1, h2] at this
  simp only [Option.some.injEq, Prod.mk.injEq] at this
  exact hne this.1

/-- The heap of every history is a duplicate-free key table (the invariant behind the iff-law), at L1 too. -/
theorem C01_tables_duplicate_free {addr : Ref → Int} (hinj : Injective addr) (cfg : Config) (reqs : List Req) :
    NodupTK (run1 addr cfg {} reqs).1.heap := by
  rw [(run1_refines hinj cfg reqs {} (Rel.init addr)).1]
  exact (trace0_spec cfg reqs #[] (Inv.empty cfg)).1.nodup

/-! The documented normal forms themselves (what `norm` says about alternative spellings of one request). -/

/-- Omitted throws = the `false` constant. -/
theorem C01_norm_default_throws (cfg : Config) (h : Heap) (s t : Ref) :
    norm cfg h (.function s t) = norm cfg h (.functionE s t (.stat .falseC)) ∧
    ∀ x, norm cfg h (.functionX s t x) = norm cfg h (.functionEX s t (.stat .falseC) x) := ⟨rfl, fun _ => rfl⟩

/-- Spelling out a transfer that is value-equal to `cxx_transfer()` is the same request as omitting it. -/
theorem C01_norm_natural_transfer (cfg : Config) (h : Heap) (s t e x : Ref) (hx : xferEq cfg h x (.stat .naturalXfer) = true) :
    norm cfg h (.functionEX s t e x) = norm cfg h (.functionE s t e) ∧
    norm cfg h (.functionX s t x) = norm cfg h (.function s t) ∧
    norm cfg h (.asTypeX e x) = norm cfg h (.asTypeExpr e) := by
  simp [norm, normFunction, isNatural, hx]

/-- A Warehouse and a client sequence with the same elements are the same request. -/
theorem C01_norm_warehouse (cfg : Config) (h : Heap) (ts : List Ref) :
    norm cfg h (.productWh ts) = norm cfg h (.productSeq ts) ∧ norm cfg h (.sumWh ts) = norm cfg h (.sumSeq ts) := ⟨rfl, rfl⟩

/-- Different arguments, different normal forms (the keys are the arguments themselves). -/
theorem C01_norm_injective_samples (cfg : Config) (h : Heap) (t t' : Ref) (ts ts' : List Ref) :
    (norm cfg h (.pointer t) = norm cfg h (.pointer t') ↔ t = t') ∧
    (norm cfg h (.productSeq ts) = norm cfg h (.productSeq ts') ↔ ts = ts') ∧
    norm cfg h (.pointer t) ≠ norm cfg h (.reference t) := by
  refine ⟨by simp [norm], ?_, by simp [norm]⟩
  simp only [norm, Option.some.injEq, Prod.mk.injEq, true_and]
  constructor
  · exact map_node_injective ts ts'
  · intro he; rw [he]

/-! ### Non-vacuity: a concrete configuration and history (three reserved words; `int` is a built-in) -/

def exCfg : Config := { words := [wC, wCxx, wFalse, [105, 110, 116]], builtinWords := [3] }
def exInt : Ref := .stat (.builtin 3)

example : Injective defaultAddr := defaultAddr_injective
/-- pointer(int), a product via client sequence, the same product via Warehouse, function with omitted and with
    explicit `false` / natural transfer, pointer(int) again after the trees grew: same nodes. -/
example : answers1 defaultAddr exCfg
    [.pointer exInt, .productSeq [exInt, .dyn 0], .productWh [exInt, .dyn 0], .function (.dyn 1) exInt,
     .functionEX (.dyn 1) exInt (.stat .falseC) (.stat .naturalXfer), .reference exInt, .pointer exInt,
     .qualified 0 exInt, .pointer (.dyn 99)]
    = [some (.dyn 0), some (.dyn 1), some (.dyn 1), some (.dyn 3), some (.dyn 3), some (.dyn 4), some (.dyn 0),
       none, none] := by decide +kernel
example : (keysOf exCfg [.pointer exInt, .reference exInt, .pointer exInt]) =
    [some (.pointers, [.node exInt]), some (.references, [.node exInt]), some (.pointers, [.node exInt])] := by decide +kernel

end Ipr.Unify
