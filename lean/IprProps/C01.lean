import IprProofs.UnifyTop
/-!
# C01 — types are unified

Model: `IprModel/Unify.lean` (`plan` = the code-shaped part of every `type_factory::get_*`, `norm` = the documented
normal form, L0 = duplicate-free key table, L1 = one red-black tree per table searched with a model of each
comparator of src/impl.cxx over an address assignment `addr`).  Every theorem quantifies over **every** finite
request history (any interleaving of type, name, atom and generative requests), every table of reserved words
`cfg`, and — at L1 — **every** injective address assignment.  Tie to the C++: `check.py C01` (harness/unifyprobe.cxx).
-/
namespace Ipr.Unify
open Ipr.RB

/-- (a) Every comparator model is a lawful total order whose zero set is key equality — for every injective `addr`. -/
theorem C01_comparators_lawful {addr : Ref → Int} (hinj : Injective addr) (tag : Tag) : Lawful (tableCmp addr tag) :=
  tableCmp_lawful hinj tag
theorem C01_unified_type_compare_lawful {addr : Ref → Int} (hinj : Injective addr) : Lawful (unifiedTypeCompare addr) := by
  rw [unifiedTypeCompare_eq]; exact keyCmp_lawful hinj
theorem C01_unary_compare_lawful {addr : Ref → Int} (hinj : Injective addr) : Lawful (unaryCompare addr) := by
  rw [unaryCompare_eq]; exact keyCmp_lawful hinj
theorem C01_binary_compare_lawful {addr : Ref → Int} (hinj : Injective addr) : Lawful (binaryCompare addr) := by
  rw [binaryCompare_eq]; exact keyCmp_lawful hinj
theorem C01_ternary_compare_lawful {addr : Ref → Int} (hinj : Injective addr) : Lawful (ternaryCompare addr) := by
  rw [ternaryCompare_eq]; exact keyCmp_lawful hinj
theorem C01_unary_lexicographic_compare_lawful {addr : Ref → Int} (hinj : Injective addr) : Lawful (unaryLexCompare addr) := by
  rw [unaryLexCompare_eq]; exact keyCmp_lawful hinj
theorem C01_as_type_transfer_compare_lawful {addr : Ref → Int} (hinj : Injective addr) : Lawful (asTypeXferCompare addr) := by
  rw [asTypeXferCompare_eq]; exact keyCmp_lawful hinj
theorem C01_function_transfer_compare_lawful {addr : Ref → Int} (hinj : Injective addr) : Lawful (funXferCompare addr) := by
  rw [funXferCompare_eq]; exact keyCmp_lawful hinj
theorem C01_transfer_spelling_compare_lawful {addr : Ref → Int} (hinj : Injective addr) : Lawful (spellingCompare addr) := by
  rw [spellingCompare_eq]; exact keyCmp_lawful hinj

/-- (b) L1 refines L0: for every history and every injective address assignment the trees answer what the key
    table answers, allocate the same nodes, and every tree stays balanced, ordered and complete. -/
theorem C01_L1_refines_L0 {addr : Ref → Int} (hinj : Injective addr) (cfg : Config) (reqs : List Req) :
    (run1 addr cfg {} reqs).1.heap = (run0 cfg #[] reqs).1 ∧
    (run1 addr cfg {} reqs).2 = (run0 cfg #[] reqs).2 ∧
    ∀ tag, TreeInv addr (run1 addr cfg {} reqs).1.heap tag ((run1 addr cfg {} reqs).1.tables.get tag) := by
  obtain ⟨h1, h2, h3⟩ := run1_refines hinj cfg reqs {} (Rel.init addr)
  exact ⟨h1, h2, h3.trees⟩

/-- (c) **Unification.**  In every finite history, requests `i` and `j` are answered with the same node if and only
    if their normal forms are equal — whatever was built in between, for every injective address assignment. -/
theorem C01_unified {addr : Ref → Int} (hinj : Injective addr) (cfg : Config) (reqs : List Req) (i j : Nat)
    (hi : i < reqs.length) (hj : j < reqs.length) :
    (answers1 addr cfg reqs)[i]? = (answers1 addr cfg reqs)[j]? ↔ (keysOf cfg reqs)[i]? = (keysOf cfg reqs)[j]? := by
  rw [answers1_eq hinj]; exact unified_index cfg reqs i j hi hj

/-- A request is refused exactly when it has no normal form (an empty qualifier set, or an operand that is not a
    live node / not of the sort the function takes). -/
theorem C01_refused_iff {addr : Ref → Int} (hinj : Injective addr) (cfg : Config) (reqs : List Req) (i : Nat)
    (hi : i < reqs.length) :
    (answers1 addr cfg reqs)[i]? = some none ↔ (keysOf cfg reqs)[i]? = some none := by
  rw [answers1_eq hinj, answers0_eq]
  have hl := trace0_length cfg reqs #[]
  have hi' : i < (trace0 cfg #[] reqs).length := by omega
  obtain ⟨_, _, hall⟩ := trace0_spec cfg reqs #[] (Inv.empty cfg)
  obtain ⟨hk, hv⟩ := hall _ (List.getElem_mem hi')
  simp only [keysOf, List.getElem?_map, List.getElem?_eq_getElem hi', Option.map_some, Option.some.injEq]
  constructor
  · intro h; rw [← hk, h]; rfl
  · intro h
    cases hres : ((trace0 cfg #[] reqs)[i]).2 with
    | none => rfl
    | some x =>
      obtain ⟨k, hkk⟩ := nkOfRef_isSome (hv x hres)
      rw [hres, Option.bind_some, hkk] at hk
      rw [h] at hk; cases hk

/-- The answer of every request is the node filed under the request's normal form in the final heap. -/
theorem C01_answer_filed_under_key {addr : Ref → Int} (hinj : Injective addr) (cfg : Config) (reqs : List Req) (i : Nat)
    (hi : i < reqs.length) (r : Ref) (hr : (answers1 addr cfg reqs)[i]? = some (some r)) :
    some (nkOfRef (run1 addr cfg {} reqs).1.heap r) = (keysOf cfg reqs)[i]? := by
  rw [answers1_eq hinj, answers0_eq] at hr
  rw [(run1_refines hinj cfg reqs {} (Rel.init addr)).1]
  have hl := trace0_length cfg reqs #[]
  have hi' : i < (trace0 cfg #[] reqs).length := by omega
  obtain ⟨_, _, hall⟩ := trace0_spec cfg reqs #[] (Inv.empty cfg)
  obtain ⟨hk, _⟩ := hall _ (List.getElem_mem hi')
  simp only [List.getElem?_map, List.getElem?_eq_getElem hi', Option.map_some, Option.some.injEq] at hr
  simp only [keysOf, List.getElem?_map, List.getElem?_eq_getElem hi', Option.map_some, Option.some.injEq]
  rw [← hk, hr]; rfl

/-- (d) Nodes of different constructors (tables) never coincide. -/
theorem C01_distinct_constructors {addr : Ref → Int} (hinj : Injective addr) (cfg : Config) (reqs : List Req) (i j : Nat)
    (hi : i < reqs.length) (hj : j < reqs.length) (t1 t2 : Tag) (k1 k2 : Key)
    (h1 : (keysOf cfg reqs)[i]? = some (some (t1, k1))) (h2 : (keysOf cfg reqs)[j]? = some (some (t2, k2)))
    (hne : t1 ≠ t2) : (answers1 addr cfg reqs)[i]? ≠ (answers1 addr cfg reqs)[j]? := by
  intro he
  have := (C01_unified hinj cfg reqs i j hi hj).mp he
  rw [h1, h2] at this
  simp only [Option.some.injEq, Prod.mk.injEq] at this
  exact hne this.1

/-- The heap of every history is a duplicate-free key table (the invariant behind the iff-law), at L1 too. -/
theorem C01_tables_duplicate_free {addr : Ref → Int} (hinj : Injective addr) (cfg : Config) (reqs : List Req) :
    NodupTK (run1 addr cfg {} reqs).1.heap := by
  rw [(run1_refines hinj cfg reqs {} (Rel.init addr)).1]
  exact (trace0_spec cfg reqs #[] (Inv.empty cfg)).1.nodup

/-! The documented normal forms themselves (what `norm` says about alternative spellings of one request). -/

/-- Omitted throws = the `false` constant. -/
theorem C01_norm_default_throws (cfg : Config) (h : Heap) (s t : Ref) :
    norm cfg h (.function s t) = norm cfg h (.functionE s t (.stat .falseC)) ∧
    ∀ x, norm cfg h (.functionX s t x) = norm cfg h (.functionEX s t (.stat .falseC) x) := ⟨rfl, fun _ => rfl⟩

/-- Spelling out a transfer that is value-equal to `cxx_transfer()` is the same request as omitting it. -/
theorem C01_norm_natural_transfer (cfg : Config) (h : Heap) (s t e x : Ref) (hx : xferEq cfg h x (.stat .naturalXfer) = true) :
    norm cfg h (.functionEX s t e x) = norm cfg h (.functionE s t e) ∧
    norm cfg h (.functionX s t x) = norm cfg h (.function s t) ∧
    norm cfg h (.asTypeX e x) = norm cfg h (.asTypeExpr e) := by
  simp [norm, normFunction, isNatural, hx]

/-- A Warehouse and a client sequence with the same elements are the same request. -/
theorem C01_norm_warehouse (cfg : Config) (h : Heap) (ts : List Ref) :
    norm cfg h (.productWh ts) = norm cfg h (.productSeq ts) ∧ norm cfg h (.sumWh ts) = norm cfg h (.sumSeq ts) := ⟨rfl, rfl⟩

/-- Different arguments, different normal forms (the keys are the arguments themselves). -/
theorem C01_norm_injective_samples (cfg : Config) (h : Heap) (t t' : Ref) (ts ts' : List Ref) :
    (norm cfg h (.pointer t) = norm cfg h (.pointer t') ↔ t = t') ∧
    (norm cfg h (.productSeq ts) = norm cfg h (.productSeq ts') ↔ ts = ts') ∧
    norm cfg h (.pointer t) ≠ norm cfg h (.reference t) := by
  refine ⟨by simp [norm], ?_, by simp [norm]⟩
  simp only [norm, Option.some.injEq, Prod.mk.injEq, true_and]
  constructor
  · exact map_node_injective ts ts'
  · intro he; rw [he]

/-! ### Non-vacuity: a concrete configuration and history (three reserved words; `int` is a built-in) -/

def exCfg : Config := { words := [wC, wCxx, wFalse, [105, 110, 116]], builtinWords := [3] }
def exInt : Ref := .stat (.builtin 3)

example : Injective defaultAddr := defaultAddr_injective
/-- pointer(int), a product via client sequence, the same product via Warehouse, function with omitted and with
    explicit `false` / natural transfer, pointer(int) again after the trees grew: same nodes. -/
example : answers1 defaultAddr exCfg
    [.pointer exInt, .productSeq [exInt, .dyn 0], .productWh [exInt, .dyn 0], .function (.dyn 1) exInt,
     .functionEX (.dyn 1) exInt (.stat .falseC) (.stat .naturalXfer), .reference exInt, .pointer exInt,
     .qualified 0 exInt, .pointer (.dyn 99)]
    = [some (.dyn 0), some (.dyn 1), some (.dyn 1), some (.dyn 3), some (.dyn 3), some (.dyn 4), some (.dyn 0),
       none, none] := by decide +kernel
example : (keysOf exCfg [.pointer exInt, .reference exInt, .pointer exInt]) =
    [some (.pointers, [.node exInt]), some (.references, [.node exInt]), some (.pointers, [.node exInt])] := by decide +kernel

/-! ### Several Lexicons in one process (`procRun`: requests addressed to any number of Lexicons, interleaved in any way,
    Lexicons destroyed and replaced by fresh ones at any time) -/

/-- **Lexicons are independent.**  After any process history the state of Lexicon `k` is the state that its *own* history
    — the requests addressed to it since it was (last) created — produces from a fresh Lexicon: nothing done to another
    Lexicon, and nothing done to a predecessor that lived in the same place, has any effect on it. -/
theorem C01_lexicons_independent_state (addr : Ref → Int) (cfg : Config) (evs : List Ev) (k : Nat) :
    (procRun addr cfg Proc.fresh evs).1 k = (run1 addr cfg {} (lifeOf k [] evs)).1 :=
  procRun_state addr cfg evs Proc.fresh (fun _ => []) (by intro i; simp [Proc.fresh, run1, runWith]) k

/-- … and every answer given in the process is the answer of that single-Lexicon history (its last one). -/
theorem C01_lexicons_independent (addr : Ref → Int) (cfg : Config) (pre post : List Ev) (k : Nat) (r : Req) :
    (procRun addr cfg Proc.fresh (pre ++ .req k r :: post)).2[pre.length]? =
      some ((answers1 addr cfg (lifeOf k [] pre ++ [r]))[(lifeOf k [] pre).length]?) := by
  have hl := procRun_length addr cfg Proc.fresh pre
  have hr := runWith_length (intern1 addr) State1.heap cfg ({} : State1) (lifeOf k [] pre)
  rw [procRun_append]
  simp only [procRun, procStep]
  rw [List.getElem?_append_right (by omega)]
  simp only [hl, Nat.sub_self, List.getElem?_cons_zero, Option.some.injEq]
  rw [C01_lexicons_independent_state]
  simp only [answers1, run1, runWith_snoc]
  rw [List.getElem?_append_right (by omega)]
  simp [hr, exec1]

theorem lifeOf_append (k : Nat) (a b : List Ev) (acc : List Req) : lifeOf k acc (a ++ b) = lifeOf k (lifeOf k acc a) b := by
  induction a generalizing acc with
  | nil => rfl
  | cons e es ih => cases e <;> simp [lifeOf, ih]

theorem lifeOf_alive (k : Nat) (mid : List Ev) (h : ∀ e ∈ mid, e ≠ Ev.renew k) (acc : List Req) :
    lifeOf k acc mid = acc ++ lifeOf k [] mid := by
  induction mid generalizing acc with
  | nil => simp [lifeOf]
  | cons e es ih =>
    have hes : ∀ e ∈ es, e ≠ Ev.renew k := fun x hx => h x (List.mem_cons_of_mem _ hx)
    cases e with
    | req j r =>
      simp only [lifeOf]
      by_cases hj : j = k
      · simp only [hj, ↓reduceIte, List.nil_append]
        rw [ih hes (acc ++ [r]), ih hes [r]]; simp
      · simp only [hj, ↓reduceIte]; exact ih hes acc
    | renew j =>
      have hj : ¬ j = k := fun e => h (Ev.renew j) (List.mem_cons_self ..) (by rw [e])
      simp only [lifeOf, hj, ↓reduceIte]; exact ih hes acc

theorem answers1_prefix (addr : Ref → Int) (cfg : Config) (a b : List Req) (i : Nat) (hi : i < a.length) :
    (answers1 addr cfg (a ++ b))[i]? = (answers1 addr cfg a)[i]? := by
  have hr := runWith_length (intern1 addr) State1.heap cfg ({} : State1) a
  simp only [answers1, run1, runWith_append]
  rw [List.getElem?_append_left (by omega)]

/-- **Unification inside a process.**  Two requests made of the same Lexicon `k` — with whatever requests to other
    Lexicons, creations and destructions of other Lexicons in between, `k` itself not being destroyed — are answered with
    the same node iff their normal forms in `k`'s own history are equal. -/
theorem C01_unified_in_process {addr : Ref → Int} (hinj : Injective addr) (cfg : Config) (pre mid post : List Ev) (k : Nat)
    (r1 r2 : Req) (hmid : ∀ e ∈ mid, e ≠ Ev.renew k) :
    ((procRun addr cfg Proc.fresh (pre ++ .req k r1 :: (mid ++ .req k r2 :: post))).2[pre.length]? =
      (procRun addr cfg Proc.fresh (pre ++ .req k r1 :: (mid ++ .req k r2 :: post))).2[pre.length + 1 + mid.length]?) ↔
    (keysOf cfg (lifeOf k [] (pre ++ .req k r1 :: mid) ++ [r2]))[(lifeOf k [] pre).length]? =
      (keysOf cfg (lifeOf k [] (pre ++ .req k r1 :: mid) ++ [r2]))[(lifeOf k [] (pre ++ .req k r1 :: mid)).length]? := by
  have h1 := C01_lexicons_independent addr cfg pre (mid ++ .req k r2 :: post) k r1
  have h2 := C01_lexicons_independent addr cfg (pre ++ .req k r1 :: mid) post k r2
  have e2 : (pre ++ .req k r1 :: mid) ++ .req k r2 :: post = pre ++ .req k r1 :: (mid ++ .req k r2 :: post) := by simp
  have l2 : (pre ++ .req k r1 :: mid).length = pre.length + 1 + mid.length := by simp; omega
  rw [e2, l2] at h2
  have hM : lifeOf k [] (pre ++ .req k r1 :: mid) = (lifeOf k [] pre ++ [r1]) ++ lifeOf k [] mid := by
    rw [lifeOf_append]; simp only [lifeOf, ↓reduceIte]; exact lifeOf_alive k mid hmid _
  have hpre : (answers1 addr cfg (lifeOf k [] pre ++ [r1]))[(lifeOf k [] pre).length]? =
      (answers1 addr cfg (lifeOf k [] (pre ++ .req k r1 :: mid) ++ [r2]))[(lifeOf k [] pre).length]? := by
    rw [hM, List.append_assoc]
    exact (answers1_prefix addr cfg (lifeOf k [] pre ++ [r1]) (lifeOf k [] mid ++ [r2]) _ (by simp)).symm
  rw [h1, h2, hpre, Option.some.injEq]
  apply C01_unified hinj
  · rw [hM]; simp
  · simp

/-- Non-vacuity: two Lexicons asked alternately, the first one then replaced: each is answered as if it were alone. -/
example : (procRun defaultAddr exCfg Proc.fresh
    [.req 0 (.pointer exInt), .req 1 (.reference exInt), .req 1 (.pointer exInt), .req 0 (.pointer exInt), .renew 0,
     .req 0 (.reference exInt), .req 1 (.pointer exInt)]).2
    = [some (some (.dyn 0)), some (some (.dyn 0)), some (some (.dyn 1)), some (some (.dyn 0)), none, some (some (.dyn 0)),
       some (some (.dyn 1))] := by decide +kernel

end Ipr.Unify
