import IprProofs.ScopeHom
/-!
# C07 — scopes, overload sets and declaration sets are mutually consistent

`run h` is the code-shaped scope (`IprModel/Scope.lean`: red-black tree of overloads keyed by name address, per overload a
chain of entries keyed by type address, per entry the declaration set and its master, the declaration sequence) reached
from an empty `impl::Scope` by the declaration history `h` — **any** list of `Scope::make_*` requests, any length, any
repetition of names and types, any address assignment.  `Spec.*` are the answers the statement prescribes, written as
list functions of the history (L0).  Every theorem below says: the code-shaped scope answers what the specification
prescribes (L1 refines L0).  The proofs go through the invariant `Inv` (`IprProofs/ScopeInv.lean`), preserved by every
`make_*` step.  The model is tied to include/ipr/impl + src/impl.cxx by the correspondence run of `check.py C07`.
-/
namespace Ipr.Scope
open Ipr.RB

/-! ## The specification says what the statement says -/

/-- `Spec.select` is the *first* declaration entered with that name and type. -/
theorem C07_spec_select_first (h : History) (n t : Int) (i : Nat) :
    Spec.select h n t = some i ↔
      ∃ r, h[i]? = some r ∧ r.name = n ∧ r.type = t ∧
        ∀ (j : Nat) (r' : Req), j < i → h[j]? = some r' → ¬ (r'.name = n ∧ r'.type = t) := by
  simp only [Spec.select, List.findIdx?_eq_some_iff_getElem]
  constructor
  · rintro ⟨hi, hp, hlt⟩
    simp only [Bool.and_eq_true, beq_iff_eq] at hp
    refine ⟨h[i], by simp [hi], hp.1, hp.2, ?_⟩
    · intro j r' hj hr' hnt
      have hjl : j < h.length := Nat.lt_trans hj hi
      have := hlt j hj
      have hr'' : h[j] = r' := by
        have : h[j]? = some h[j] := by simp [hjl]
        rw [this] at hr'; exact Option.some.inj hr'
      rw [hr''] at this
      simp [hnt.1, hnt.2] at this
  · rintro ⟨r, hr, hn, ht, hlt⟩
    have hi : i < h.length := lt_of_getElem? hr
    have hri : h[i] = r := by
      have : h[i]? = some h[i] := by simp [hi]
      rw [this] at hr; exact Option.some.inj hr
    refine ⟨hi, by simp [hri, hn, ht], ?_⟩
    intro j hj
    have hjl : j < h.length := Nat.lt_trans hj hi
    have := hlt j h[j] hj (by simp [hjl])
    simpa using this

/-- `Spec.declSet i` holds exactly the declarations sharing `i`'s name and type … -/
theorem C07_spec_declset_mem (h : History) (i : Nat) (r : Req) (hr : h[i]? = some r) (j : Nat) :
    j ∈ Spec.declSet h i ↔ ∃ r', h[j]? = some r' ∧ r'.name = r.name ∧ r'.type = r.type := by
  simp only [Spec.declSet, hr, List.mem_filter, List.mem_range]
  constructor
  · rintro ⟨hj, hp⟩
    have : h[j]? = some h[j] := by simp [hj]
    rw [this] at hp
    simp only [Spec.sameKey, Bool.and_eq_true, beq_iff_eq] at hp
    exact ⟨h[j], this, hp.1, hp.2⟩
  · rintro ⟨r', hr', hn, ht⟩
    exact ⟨lt_of_getElem? hr', by simp [hr', Spec.sameKey, hn, ht]⟩

/-- … in entry order, each once. -/
theorem C07_spec_declset_sorted (h : History) (i : Nat) : (Spec.declSet h i).Pairwise (· < ·) := by
  unfold Spec.declSet
  split
  · exact List.Pairwise.nil
  · exact List.Pairwise.sublist List.filter_sublist List.pairwise_lt_range

/-- The master is the first element of the declaration set, and a declaration belongs to its own set. -/
theorem C07_spec_master_head (h : History) (i : Nat) (hi : i < h.length) :
    Spec.master h i = (Spec.declSet h i)[0]? ∧ i ∈ Spec.declSet h i := by
  have hr : h[i]? = some h[i] := by simp [hi]
  refine ⟨?_, (C07_spec_declset_mem h i h[i] hr i).mpr ⟨h[i], hr, rfl, rfl⟩⟩
  rw [spec_declSet_head h hr]; simp [Spec.master, hr]

/-! ## The code-shaped scope answers what the specification prescribes, after every history -/

/-- The scope lists every declaration, in entry order. -/
theorem C07_elements (h : History) : (run h).elements = Spec.elements h := (inv_run h).seq

/-- Declaration `i` reports the kind, name and type of the `i`-th request. -/
theorem C07_decl_fields (h : History) (i : Nat) (r : Req) (hr : h[i]? = some r) :
    (run h).declKind i = some r.kind ∧ (run h).declType i = some r.type ∧ (run h).declName i = some r.name :=
  decl_obs (inv_run h).toInv0 hr

/-- The scope's type is the product of the members' types, in entry order. -/
theorem C07_scope_type (h : History) : (run h).typeElems = (Spec.typeElems h).map some := by
  rw [typeElems_eq (inv_run h).toInv0]; simp [Spec.typeElems]

/-- … after every prefix: entering more declarations only appends to the product. -/
theorem C07_scope_type_prefix (h h' : History) :
    (run (h ++ h')).typeElems = (run h).typeElems ++ (Spec.typeElems h').map some := by
  rw [C07_scope_type, C07_scope_type]; simp [Spec.typeElems]

/-- Looking a name up yields an overload set exactly when the name was declared … -/
theorem C07_lookup_iff (h : History) (n : Int) : ((run h).lookup n).isSome = Spec.declared h n := by
  rw [Bool.eq_iff_iff, lookup_isSome_iff (inv_run h) n]
  simp [Spec.declared]

/-- … and it is the overload set of that name. -/
theorem C07_lookup_name (h : History) (n : Int) (oid : Nat) (hl : (run h).lookup n = some oid) :
    ((run h).ovls[oid]?).map (·.name) = some n := by
  obtain ⟨o, ho, hn⟩ := lookup_some_name (inv_run h).toInv0 hl
  simp [ho, hn]

/-- Selecting by type yields the first declaration entered with that name and type (none if there is none). -/
theorem C07_select (h : History) (n t : Int) (oid : Nat) (hl : (run h).lookup n = some oid) :
    (run h).select oid t = Spec.select h n t := by
  obtain ⟨o, ho, hn⟩ := lookup_some_name (inv_run h).toInv0 hl
  exact select_eq (inv_run h).toInv0 ho hn t

/-- A declaration's master is the first declaration with its name and type (never the `logic_error`). -/
theorem C07_master (h : History) (i : Nat) (hi : i < h.length) : (run h).master i = Spec.master h i :=
  master_eq (inv_run h).toInv0 hi

/-- A declaration's declaration-set is exactly the declarations sharing its name and type, in entry order. -/
theorem C07_declset (h : History) (i : Nat) : (run h).declSet i = Spec.declSet h i :=
  declSet_eq (inv_run h).toInv0 i

/-- "Each name–type pair is used by one declaration kind". -/
def OneKind (h : History) : Prop := ∀ a ∈ h, ∀ b ∈ h, a.name = b.name → a.type = b.type → a.kind = b.kind

instance (h : History) : Decidable (OneKind h) := by unfold OneKind; infer_instance

/-- Under that premise the `static_cast` of `decl_factory::redeclare` is to the right type: the bookkeeping object a
    declaration points to lives in the farm of the declaration's own factory. -/
theorem C07_cast_safe (h : History) (hone : OneKind h) (i : Nat) (r : Req) (hr : h[i]? = some r) :
    ((run h).entryOf i).map (·.kind) = some r.kind := by
  obtain ⟨j, rj, hm, hrj, hk⟩ := entry_kind (inv_run h).toInv0 hr
  simp only [Spec.master, hr, Option.bind_some] at hm
  obtain ⟨r', hr', hn, ht, _⟩ := (C07_spec_select_first h r.name r.type j).mp hm
  rw [hrj] at hr'; cases hr'
  rw [hk, hone rj (List.mem_of_getElem? hrj) r (List.mem_of_getElem? hr) hn ht]

/-- L1 refines L0: one statement bundling every observation of the interface. -/
structure Refines (s : State) (h : History) : Prop where
  elements : s.elements = Spec.elements h
  type : s.typeElems = (Spec.typeElems h).map some
  lookup : ∀ n, (s.lookup n).isSome = Spec.declared h n
  select : ∀ n t oid, s.lookup n = some oid → s.select oid t = Spec.select h n t
  master : ∀ i, i < h.length → s.master i = Spec.master h i
  declset : ∀ i, s.declSet i = Spec.declSet h i

theorem C07_refines (h : History) : Refines (run h) h where
  elements := C07_elements h
  type := C07_scope_type h
  lookup := C07_lookup_iff h
  select := fun n t oid hl => C07_select h n t oid hl
  master := C07_master h
  declset := C07_declset h

/-- The refinement is a simulation: it is kept by every single `Scope::make_*` call. -/
theorem C07_refines_step (h : History) (r : Req) : Refines ((run h).make r) (h ++ [r]) := by
  rw [← run_snoc]; exact C07_refines (h ++ [r])

/-! ## Homogeneous scopes: parameter lists, enumerators, base lists, handler regions -/

theorem C07_hom_elements (l : List (Int × Int)) : (hrun l).elements = List.range l.length := by
  simp [HScope.elements, hrun_length]

theorem C07_hom_type (l : List (Int × Int)) : (hrun l).typeElems = l.map (·.2) := by
  apply List.ext_getElem?
  intro i
  simp only [HScope.typeElems, List.getElem?_map, hrun_member]
  cases l[i]? <;> rfl

/-- Positions equal the index. -/
theorem C07_hom_position (l : List (Int × Int)) (i : Nat) (hi : i < l.length) : (hrun l).position i = some i := by
  have : l[i]? = some l[i] := by simp [hi]
  simp [HScope.position, hrun_member, this]

/-- Every member is its own master and its declaration set is the singleton of itself. -/
theorem C07_hom_singleton (l : List (Int × Int)) (i : Nat) (hi : i < l.length) :
    (hrun l).master i = some i ∧ (hrun l).declSet i = [i] := by
  simp [HScope.master, HScope.declSet, hrun_length, hi]

/-- Lookup by name finds the first member with that name; selecting by type yields it iff it has that type. -/
theorem C07_hom_lookup (l : List (Int × Int)) (n : Int) : (hrun l).lookup n = l.findIdx? (fun p => p.1 == n) :=
  hlookup_eq l n

theorem C07_hom_select (l : List (Int × Int)) (i : Nat) (t : Int) :
    (hrun l).select i t = (l[i]?).bind (fun p => if p.2 == t then some i else none) := by
  simp only [HScope.select, hrun_member]
  cases l[i]? <;> rfl


theorem sorted_singleton {l : List Nat} {i : Nat} (hs : l.Pairwise (· < ·)) (hm : ∀ j, j ∈ l ↔ j = i) : l = [i] := by
  cases l with
  | nil => exact absurd ((hm i).mpr rfl) (by simp)
  | cons a t =>
    have ha : a = i := (hm a).mp (by simp)
    cases t with
    | nil => rw [ha]
    | cons b t' =>
      have hb : b = i := (hm b).mp (by simp)
      have := (List.pairwise_cons.mp hs).1 b (by simp)
      omega

theorem nodup_names_inj {l : List (Int × Int)} (hnd : (l.map (·.1)).Nodup) {i j : Nat} {p q : Int × Int}
    (hp : l[i]? = some p) (hq : l[j]? = some q) (hpq : p.1 = q.1) : i = j := by
  have hi := lt_of_getElem? hp
  have hj := lt_of_getElem? hq
  have hpi : l[i] = p := by have : l[i]? = some l[i] := by simp [hi]
                            rw [this] at hp; exact Option.some.inj hp
  have hqj : l[j] = q := by have : l[j]? = some l[j] := by simp [hj]
                            rw [this] at hq; exact Option.some.inj hq
  have hpw := List.pairwise_iff_getElem.mp hnd
  rcases Nat.lt_trichotomy i j with h | h | h
  · have := hpw i j (by simpa using hi) (by simpa using hj) h
    simp [hpi, hqj, hpq] at this
  · exact h
  · have := hpw j i (by simpa using hj) (by simpa using hi) h
    simp [hpi, hqj, hpq] at this

/-- With pairwise distinct member names (the documented precondition of these scopes: a parameter, enumerator or base
    cannot be declared twice, impl:582-588) a homogeneous scope obeys the rules of the general scope. -/
theorem C07_hom_same_rules (l : List (Int × Int)) (hnd : (l.map (·.1)).Nodup) :
    (∀ n, ((hrun l).lookup n).isSome = Spec.declared (toHist l) n) ∧
    (∀ n t i, (hrun l).lookup n = some i → (hrun l).select i t = Spec.select (toHist l) n t) ∧
    (∀ i, i < l.length → (hrun l).master i = Spec.master (toHist l) i ∧
                         (hrun l).declSet i = Spec.declSet (toHist l) i) := by
  refine ⟨?_, ?_, ?_⟩
  · intro n
    rw [hlookup_eq, List.findIdx?_isSome]
    simp [Spec.declared, toHist, List.any_map, Function.comp_def]
  · intro n t i hl
    rw [hlookup_eq, List.findIdx?_eq_some_iff_getElem] at hl
    obtain ⟨hi, hp, hlt⟩ := hl
    have hli : l[i]? = some l[i] := by simp [hi]
    have hn : l[i].1 = n := by simpa using hp
    rw [C07_hom_select, hli]
    simp only [Option.bind_some]
    by_cases ht : l[i].2 = t
    · simp only [ht, beq_self_eq_true, if_true]
      symm
      rw [C07_spec_select_first]
      refine ⟨_, by rw [toHist_getElem?, hli]; rfl, hn, ht, ?_⟩
      intro j r' hj hr' hnt
      rw [toHist_getElem?] at hr'
      have hjl : j < l.length := Nat.lt_trans hj hi
      have hlj : l[j]? = some l[j] := by simp [hjl]
      rw [hlj] at hr'; simp at hr'; subst hr'
      have := hlt j hj
      simp at this
      exact this hnt.1
    · have : (l[i].2 == t) = false := by simpa using ht
      simp only [this, Bool.false_eq_true, if_false]
      symm
      simp only [Spec.select]
      rw [List.findIdx?_eq_none_iff]
      intro r hr
      obtain ⟨j, hjl, hrj⟩ := List.getElem_of_mem hr
      have hjl' : j < l.length := by simpa [toHist] using hjl
      have hlj : l[j]? = some l[j] := by simp [hjl']
      have hr' : r = { kind := .var, name := l[j].1, type := l[j].2 } := by
        rw [← hrj]; simp [toHist]
      rw [Bool.and_eq_false_iff]
      by_cases hname : r.name = n
      · right
        have hji : j = i := nodup_names_inj hnd hlj hli (by rw [hn, ← hname, hr'])
        subst hji
        rw [hr']; simpa using ht
      · left; simpa using hname
  · intro i hi
    have hli : l[i]? = some l[i] := by simp [hi]
    have hri : (toHist l)[i]? = some { kind := .var, name := l[i].1, type := l[i].2 } := by
      rw [toHist_getElem?, hli]; rfl
    have huniq : ∀ (j : Nat) (r' : Req), (toHist l)[j]? = some r' → r'.name = l[i].1 → j = i := by
      intro j r' hr' hn'
      rw [toHist_getElem?] at hr'
      cases hlj : l[j]? with
      | none => rw [hlj] at hr'; simp at hr'
      | some q =>
        rw [hlj] at hr'; simp at hr'; subst hr'
        exact nodup_names_inj hnd hlj hli hn'
    obtain ⟨hm, hs⟩ := C07_hom_singleton l i hi
    constructor
    · rw [hm]
      symm
      simp only [Spec.master, hri, Option.bind_some]
      rw [C07_spec_select_first]
      refine ⟨_, hri, rfl, rfl, ?_⟩
      intro j r' hj hr' hnt
      have := huniq j r' hr' hnt.1
      omega
    · rw [hs]
      symm
      apply sorted_singleton (C07_spec_declset_sorted _ _)
      intro j
      rw [C07_spec_declset_mem _ _ _ hri]
      constructor
      · rintro ⟨r', hr', hn', _⟩
        exact huniq j r' hr' hn'
      · rintro rfl
        exact ⟨_, hri, rfl, rfl⟩

/-! ## Addresses are a parameter: the answers depend only on which names / types are the same node -/

/-- Relocating every name node and every type node (injectively) changes no answer about declarations. -/
theorem C07_address_independent (h : History) (f g : Int → Int) (hf : Function.Injective f) (hg : Function.Injective g) (i : Nat) :
    let h' : History := h.map (fun r : Req => { r with name := f r.name, type := g r.type })
    (run h').elements = (run h).elements ∧ (run h').declSet i = (run h).declSet i ∧
    (i < h.length → (run h').master i = (run h).master i) ∧
    (∀ n, ((run h').lookup (f n)).isSome = ((run h).lookup n).isSome) := by
  intro h'
  have hlen : h'.length = h.length := by simp [h']
  have hget : ∀ j : Nat, h'[j]? = (h[j]?).map (fun r : Req => { r with name := f r.name, type := g r.type }) := by
    intro j; simp [h']
  have hkey : ∀ a b : Req, Spec.sameKey { a with name := f a.name, type := g a.type } { b with name := f b.name, type := g b.type }
      = Spec.sameKey a b := by
    intro a b
    simp only [Spec.sameKey]
    rw [Bool.eq_iff_iff]
    simp only [Bool.and_eq_true, beq_iff_eq]
    exact ⟨fun ⟨h1, h2⟩ => ⟨hf h1, hg h2⟩, fun ⟨h1, h2⟩ => ⟨by rw [h1], by rw [h2]⟩⟩
  have hds : Spec.declSet h' i = Spec.declSet h i := by
    simp only [Spec.declSet, hget, hlen]
    cases hi : h[i]? with
    | none => simp
    | some d =>
      simp only [Option.map_some]
      apply List.filter_congr
      intro j _
      cases hj : h[j]? with
      | none => simp
      | some e => simp only [Option.map_some]; exact hkey e d
  refine ⟨by rw [C07_elements, C07_elements]; simp [Spec.elements, hlen], by rw [C07_declset, C07_declset, hds], ?_, ?_⟩
  · intro hi
    rw [C07_master h' i (by omega), C07_master h i hi, (C07_spec_master_head h' i (by omega)).1,
      (C07_spec_master_head h i hi).1, hds]
  · intro n
    rw [C07_lookup_iff, C07_lookup_iff]
    simp only [Spec.declared, h', List.any_map, Function.comp_def]
    congr 1
    funext r
    rw [Bool.eq_iff_iff]
    simp only [beq_iff_eq]
    exact ⟨fun h1 => hf h1, fun h1 => by rw [h1]⟩

/-! ## Non-vacuity: concrete histories exercise every branch (new name, new type under a name, redeclaration) -/

/-- d0 `x:int` (var), d1 `x:F` (function), d2 `x:int` again, d3 `y:int`, d4 `x:F` again, d5 `x:int` a third time. -/
def sample : History :=
  [⟨.var, 7, 100⟩, ⟨.fundecl, 7, 200⟩, ⟨.var, 7, 100⟩, ⟨.var, 3, 100⟩, ⟨.fundecl, 7, 200⟩, ⟨.var, 7, 100⟩]

example : OneKind sample := by decide
example : (run sample).elements = [0, 1, 2, 3, 4, 5] := by decide +kernel
example : (run sample).typeElems = [some 100, some 200, some 100, some 100, some 200, some 100] := by decide +kernel
example : (run sample).declSet 2 = [0, 2, 5] := by decide +kernel
example : (run sample).master 4 = some 1 := by decide +kernel
example : (run sample).lookup 5 = none := by decide +kernel
example : ((run sample).lookup 7).bind (fun o => (run sample).select o 200) = some 1 := by decide +kernel
example : ((run sample).lookup 3).bind (fun o => (run sample).select o 200) = none := by decide +kernel
example : (run sample).mastersOf 0 = [some 0, some 1] := by decide +kernel
/-- The specification is not trivially permissive: it distinguishes the second declaration from the first. -/
example : Spec.master sample 2 ≠ some 2 := by decide
example : (hrun [(1, 10), (2, 20), (3, 10)]).lookup 3 = some 2 := by decide
example : (hrun [(1, 10), (2, 20), (3, 10)]).position 2 = some 2 := by decide
example : ([(1, 10), (2, 20), (3, 10)].map (·.1) : List Int).Nodup := by decide
/-- Outside the precondition (a repeated name) selection by type sees only the first member of that name. -/
example : ((hrun [(1, 10), (1, 20)]).lookup 1).bind (fun i => (hrun [(1, 10), (1, 20)]).select i 20) = none := by decide

end Ipr.Scope
