import IprProofs.Bits
import Generated.Bits
/-!
# C10 — specifier and qualifier sets are a Boolean algebra with exact decomposition

General theorems hold for ANY duplicate-free basis of at most 32 names (the `1u << pos` of the code is a 32-bit
shift) and ANY list of names / ANY set values — so all 2^18 + 2^3 subsets and all pairs are covered by proof, not by
enumeration.  They are instantiated, by kernel evaluation, on the tables regenerated on every run from the library
(`Generated/Bits.lean`).  The documented accessor ↦ name map below is written by hand from include/ipr/interface.
-/
namespace Ipr.Bits
open Ipr.Generated

variable {α : Type} [DecidableEq α]

/-- Well-formed basis: what the general theorems assume and the regenerated tables are checked to satisfy. -/
def WF (tbl : List α) : Prop := tbl.Nodup ∧ tbl.length ≤ 32

/-- Every basic name maps to a non-empty single-element set: decomposing it gives back exactly that name. -/
theorem C10_singleton {tbl : List α} (h : WF tbl) (s : α) (hs : s ∈ tbl) :
    ∃ v, project tbl s = some v ∧ v ≠ 0 ∧ decompose tbl v = [s] := by
  obtain ⟨i, hi⟩ := indexFrom_isSome (pos := 0) hs
  have hi32 : i < 32 := by have := (indexFrom_some hi).2.1; have := h.2; omega
  refine ⟨bit i, by simp [project, projectFrom_eq, hi], by rw [bit_eq hi32]; exact Nat.ne_of_gt (Nat.two_pow_pos i), ?_⟩
  have hf : decompose tbl (bit i) = tbl.filter (fun t => decide (t = s)) := by
    apply decompose_eq_filter _ h.1
    intro t _
    rw [mem_decompose _ h.1 h.2, bit_eq hi32]
    simp only [Nat.testBit_two_pow, decide_eq_true_eq]
    constructor
    · rintro ⟨j, hj, hij⟩; subst hij; exact indexFrom_inj hj hi
    · intro e; subst e; exact ⟨i, hi, rfl⟩
  rw [hf]
  apply sublist_ext h.1 List.filter_sublist (List.singleton_sublist.mpr hs)
  intro t; simp only [List.mem_filter, decide_eq_true_eq, List.mem_singleton]
  exact ⟨fun x => x.2, fun e => ⟨e ▸ hs, e⟩⟩

/-- Distinct names map to distinct sets. -/
theorem C10_distinct {tbl : List α} (h : WF tbl) (s t : α) (hs : s ∈ tbl) (ht : t ∈ tbl) (hne : s ≠ t) :
    project tbl s ≠ project tbl t := by
  obtain ⟨i, hi⟩ := indexFrom_isSome (pos := 0) hs
  obtain ⟨j, hj⟩ := indexFrom_isSome (pos := 0) ht
  have hi32 : i < 32 := by have := (indexFrom_some hi).2.1; have := h.2; omega
  have hj32 : j < 32 := by have := (indexFrom_some hj).2.1; have := h.2; omega
  simp only [project, projectFrom_eq, hi, hj, Option.map_some, bit_eq hi32, bit_eq hj32, ne_eq, Option.some.injEq]
  intro e
  have : i = j := (Nat.pow_right_inj (by omega)).mp e
  subst this; exact hne (indexFrom_inj hi hj)

/-- Asking for the set of an unknown name is refused. -/
theorem C10_unknown_refused (tbl : List α) (s : α) (hs : s ∉ tbl) : project tbl s = none := by
  simp [project, projectFrom_eq, indexFrom_none.mpr hs]

/-- For every list of basic names (any order, repetitions allowed) decomposing the union of their sets returns
    exactly that subset, in table order: nothing lost, nothing invented, nothing repeated. -/
theorem C10_decompose_compose {tbl : List α} (h : WF tbl) (S : List α) (hS : ∀ s ∈ S, s ∈ tbl) :
    ∃ v, compose tbl S = some v ∧ decompose tbl v = tbl.filter (fun t => decide (t ∈ S)) := by
  obtain ⟨v, hv⟩ := compose_isSome hS
  refine ⟨v, hv, decompose_eq_filter _ h.1 _ ?_⟩
  intro t _
  rw [mem_decompose _ h.1 h.2]
  simp only [decide_eq_true_eq]
  constructor
  · rintro ⟨i, hi, hb⟩
    obtain ⟨s, hs, hsi⟩ := (testBit_compose h.2 hv i).mp hb
    exact indexFrom_inj hsi hi ▸ hs
  · intro ht
    obtain ⟨i, hi⟩ := indexFrom_isSome (pos := 0) (hS t ht)
    exact ⟨i, hi, (testBit_compose h.2 hv i).mpr ⟨t, ht, hi⟩⟩

/-- In particular a subset listed in table order is recovered verbatim. -/
theorem C10_decompose_compose_sublist {tbl : List α} (h : WF tbl) (S : List α) (hS : S.Sublist tbl) :
    ∃ v, compose tbl S = some v ∧ decompose tbl v = S := by
  obtain ⟨v, hv, hd⟩ := C10_decompose_compose h S (fun s hs => hS.subset hs)
  refine ⟨v, hv, ?_⟩
  rw [hd]
  apply sublist_ext h.1 List.filter_sublist hS
  intro t; simp only [List.mem_filter, decide_eq_true_eq]
  exact ⟨fun x => x.2, fun x => ⟨hS.subset x, x⟩⟩

/-- `|` is set union, `&` intersection, `^` symmetric difference — for ALL values, not only composed ones. -/
theorem C10_union {tbl : List α} (h : WF tbl) (a b : Nat) :
    decompose tbl (a ||| b) = tbl.filter (fun t => decide (t ∈ decompose tbl a ∨ t ∈ decompose tbl b)) := by
  apply decompose_eq_filter _ h.1
  intro t _
  simp only [mem_decompose _ h.1 h.2, Nat.testBit_or, Bool.or_eq_true, decide_eq_true_eq]
  constructor
  · rintro ⟨i, hi, hb | hb⟩
    · exact Or.inl ⟨i, hi, hb⟩
    · exact Or.inr ⟨i, hi, hb⟩
  · rintro (⟨i, hi, hb⟩ | ⟨i, hi, hb⟩)
    · exact ⟨i, hi, Or.inl hb⟩
    · exact ⟨i, hi, Or.inr hb⟩

theorem C10_inter {tbl : List α} (h : WF tbl) (a b : Nat) :
    decompose tbl (a &&& b) = tbl.filter (fun t => decide (t ∈ decompose tbl a ∧ t ∈ decompose tbl b)) := by
  apply decompose_eq_filter _ h.1
  intro t _
  simp only [mem_decompose _ h.1 h.2, Nat.testBit_and, Bool.and_eq_true, decide_eq_true_eq]
  constructor
  · rintro ⟨i, hi, ha, hb⟩; exact ⟨⟨i, hi, ha⟩, ⟨i, hi, hb⟩⟩
  · rintro ⟨⟨i, hi, ha⟩, ⟨j, hj, hb⟩⟩
    rw [hi] at hj; cases hj; exact ⟨i, hi, ha, hb⟩

theorem C10_symmdiff {tbl : List α} (h : WF tbl) (a b : Nat) :
    decompose tbl (a ^^^ b) = tbl.filter (fun t => decide ((t ∈ decompose tbl a) ≠ (t ∈ decompose tbl b))) := by
  apply decompose_eq_filter _ h.1
  intro t ht
  obtain ⟨i, hi⟩ := indexFrom_isSome (pos := 0) ht
  have key : ∀ x : Nat, t ∈ decompose tbl x ↔ x.testBit i = true := by
    intro x; rw [mem_decompose _ h.1 h.2]
    constructor
    · rintro ⟨j, hj, hb⟩; rw [hi] at hj; cases hj; exact hb
    · intro hb; exact ⟨i, hi, hb⟩
  simp only [key, Nat.testBit_xor, decide_eq_true_eq, ne_eq]
  cases a.testBit i <;> cases b.testBit i <;> simp

/-- `implies a b` is `b ⊆ a` on values built from the basis. -/
theorem C10_implies {tbl : List α} (h : WF tbl) (a b : Nat) (hb : b < 2 ^ tbl.length) :
    implies a b = true ↔ ∀ t ∈ decompose tbl b, t ∈ decompose tbl a := by
  have hbits : implies a b = true ↔ ∀ i, b.testBit i = true → a.testBit i = true := by
    simp only [implies, beq_iff_eq]
    constructor
    · intro e i hi
      have := congrArg (fun y => y.testBit i) e
      simp only [Nat.testBit_and, hi, Bool.and_true] at this; exact this
    · intro hall
      apply Nat.eq_of_testBit_eq; intro i
      rw [Nat.testBit_and]
      cases hbi : b.testBit i
      · simp
      · simp [hall i hbi]
  rw [hbits]
  constructor
  · intro hall t ht
    obtain ⟨i, hi, hbi⟩ := (mem_decompose _ h.1 h.2 t).mp ht
    exact (mem_decompose _ h.1 h.2 t).mpr ⟨i, hi, hall i hbi⟩
  · intro hsub i hbi
    have hilt : i < tbl.length := by
      by_cases hlt : i < tbl.length
      · exact hlt
      · have : b < 2 ^ i := Nat.lt_of_lt_of_le hb (Nat.pow_le_pow_right (by omega) (by omega))
        rw [Nat.testBit_lt_two_pow this] at hbi; cases hbi
    have hidx : indexFrom 0 tbl tbl[i] = some i := by simpa using indexFrom_getElem (pos := 0) h.1 hilt
    have hm := hsub tbl[i] ((mem_decompose _ h.1 h.2 _).mpr ⟨i, hidx, hbi⟩)
    obtain ⟨j, hj, ha⟩ := (mem_decompose _ h.1 h.2 _).mp hm
    rw [hidx] at hj; cases hj; exact ha

/-- **None invented, none repeated** — for EVERY value (also one that is no union of basic sets): the answer of
    `decompose` lists names of the basis only, in table order, each at most once. -/
theorem C10_decompose_exact {tbl : List α} (h : WF tbl) (x : Nat) :
    (decompose tbl x).Sublist tbl ∧ (decompose tbl x).Nodup :=
  ⟨decompose_sublist tbl x, (decompose_sublist tbl x).nodup h.1⟩

/-- The empty set decomposes to no name at all. -/
theorem C10_empty {tbl : List α} (h : WF tbl) : decompose tbl 0 = [] := by
  have := decompose_eq_filter (tbl := tbl) 0 h.1 (fun _ => false) (by
    intro t _
    simp only [mem_decompose _ h.1 h.2, Nat.zero_testBit]
    constructor
    · rintro ⟨_, _, hb⟩; cases hb
    · intro hb; cases hb)
  rw [this]; exact List.filter_eq_nil_iff.mpr (by intro a _; simp)

omit [DecidableEq α] in
/-- The lattice laws at the level of the *names* a client reads back: absorption both ways (every value). -/
theorem C10_absorption {tbl : List α} (a b : Nat) :
    decompose tbl (a ||| (a &&& b)) = decompose tbl a ∧ decompose tbl (a &&& (a ||| b)) = decompose tbl a := by
  have e1 : a ||| (a &&& b) = a := by
    apply Nat.eq_of_testBit_eq; intro i
    simp only [Nat.testBit_or, Nat.testBit_and]; cases a.testBit i <;> simp
  have e2 : a &&& (a ||| b) = a := by
    apply Nat.eq_of_testBit_eq; intro i
    simp only [Nat.testBit_or, Nat.testBit_and]; cases a.testBit i <;> simp
  rw [e1, e2]; exact ⟨rfl, rfl⟩

/-- `implies` is a partial order on sets: reflexive, and transitive for all values. -/
theorem C10_implies_refl_trans (a b c : Nat) :
    implies a a = true ∧ (implies a b = true → implies b c = true → implies a c = true) := by
  simp only [implies, beq_iff_eq, Nat.and_self, true_and]
  intro h1 h2
  calc a &&& c = a &&& (b &&& c) := by rw [h2]
    _ = (a &&& b) &&& c := by rw [Nat.and_assoc]
    _ = b &&& c := by rw [h1]
    _ = c := h2

/-- Composed values stay inside the basis (so `C10_implies` applies to them). -/
theorem C10_compose_bounded {tbl : List α} (h : WF tbl) (S : List α) (v : Nat) (hv : compose tbl S = some v) :
    v < 2 ^ tbl.length := by
  apply Nat.lt_pow_two_of_testBit
  intro i hi
  have hi : tbl.length ≤ i := hi
  cases hb : v.testBit i with
  | false => rfl
  | true =>
    obtain ⟨s, _, hsi⟩ := (testBit_compose h.2 hv i).mp hb
    have := (indexFrom_some hsi).2.1; omega

/-! ## Instantiation on the tables regenerated from the library on this run -/

theorem C10_std_specifiers_wf : WF stdSpecifiers := by unfold WF; decide +kernel
theorem C10_std_qualifiers_wf : WF stdQualifiers := by unfold WF; decide +kernel

/-- The value the library reports for each basic name is the one the model computes. -/
theorem C10_specifier_bits_match :
    specifierBits.all (fun (n, v) => project stdSpecifiers n == some v) = true
    ∧ specifierBits.map (·.1) = stdSpecifiers := by decide +kernel
theorem C10_qualifier_bits_match :
    qualifierBits.all (fun (n, v) => project stdQualifiers n == some v) = true
    ∧ qualifierBits.map (·.1) = stdQualifiers := by decide +kernel

/-- The documented basis: 18 basic specifiers, 3 basic qualifiers (written by hand from the interface). -/
def documentedSpecifiers : List String :=
  ["export", "static", "extern", "mutable", "thread_local", "register", "inline", "constexpr", "consteval", "constinit",
   "virtual", "=0", "explicit", "friend", "typedef", "public", "protected", "private"]
def documentedQualifiers : List String := ["const", "volatile", "restrict"]

theorem C10_basis_is_documented :
    (documentedSpecifiers.all (· ∈ stdSpecifiers) && stdSpecifiers.all (· ∈ documentedSpecifiers)
      && documentedQualifiers.all (· ∈ stdQualifiers) && stdQualifiers.all (· ∈ documentedQualifiers)) = true := by
  decide +kernel

/-- Accessor ↦ the name it documents (hand-written). -/
def accessorName : List (String × Bool × String) :=
  [("export_specifier", true, "export"), ("static_specifier", true, "static"), ("extern_specifier", true, "extern"),
   ("mutable_specifier", true, "mutable"), ("thread_local_specifier", true, "thread_local"),
   ("register_specifier", true, "register"), ("inline_specifier", true, "inline"), ("constexpr_specifier", true, "constexpr"),
   ("consteval_specifier", true, "consteval"), ("virtual_specifier", true, "virtual"), ("abstract_specifier", true, "=0"),
   ("explicit_specifier", true, "explicit"), ("friend_specifier", true, "friend"), ("typedef_specifier", true, "typedef"),
   ("public_specifier", true, "public"), ("protected_specifier", true, "protected"), ("private_specifier", true, "private"),
   ("const_qualifier", false, "const"), ("volatile_qualifier", false, "volatile"), ("restrict_qualifier", false, "restrict")]

/-- Each named accessor of the Lexicon equals the mapping of its own name. -/
theorem C10_named_accessors :
    accessorName.all (fun (acc, isSpec, name) =>
      (namedAccessors.lookup acc) == project (if isSpec then stdSpecifiers else stdQualifiers) name
      && (namedAccessors.lookup acc).isSome) = true
    ∧ namedAccessors.length = accessorName.length := by decide +kernel

/-! Non-vacuity -/
example : WF (["a", "b", "c"] : List String) := by unfold WF; decide
example : decompose stdQualifiers 5 = ["const", "restrict"] := by decide +kernel
example : compose stdSpecifiers ["virtual", "=0", "virtual"] = some 131073 := by decide +kernel
example : project stdSpecifiers "int" = none := by decide +kernel

end Ipr.Bits
