import IprProofs.RegionStep
/-!
# C12 — regions form a tree rooted at the global region; owners and positions are right

Every theorem quantifies over **every** construction history `ops : List Op` (any length, any interleaving of the
region-opening constructs, any choice of — valid or invalid — region / node arguments) of the model
`IprModel/Region.lean`, whose `step` mirrors the constructors of `include/ipr/impl` / `src/impl.cxx`.
The model is tied to the C++ by the differential run of `check.py C12` (`harness/c12probe.cxx`).

Reading guide (statement of C12 → theorem):
* enclosed by the region it was created in → `C12_creates_*` (what an operation writes) + `C12_stable_*` (never changes);
* outward walk reaches the unit's global region in finitely many steps → `C12_enclosing_earlier`, `C12_walk_reaches_root`;
* only that root reports itself global → `C12_global_iff_unit_root`, `C12_walk_stops_only_at_global`;
* owners → `C12_owner_udt`, `C12_owner_class_bases`, `C12_owner_block`, `C12_owner_parms`, `C12_unowned_where`;
* handler shape → `C12_handler_shape`;
* home region, level, zero-based position → `C12_member_position`, `C12_binding_position`, `C12_param_level`;
* units → `C12_unit_namespace`, `C12_module_link`, `C12_unit_module_iff`.
-/
namespace Ipr.Region

/-! ## The tree -/

/-- `enclosing` is well-founded: the enclosing region was created strictly earlier. -/
theorem C12_enclosing_earlier (ops : List Op) (r p : Nat) (h : (run ops).enclosing r = some p) : p < r := by
  unfold State.enclosing at h
  cases hr : (run ops).tree[r]? with
  | none => simp [hr] at h
  | some rr =>
    simp [hr] at h
    exact ((Inv.run ops).tree.up r rr p hr h).1

/-- Walking outward from any region takes exactly `depth ≤ index` steps and ends in the global region of the unit in
    whose tree the region was created; that region reports `global()`. -/
theorem C12_walk_reaches_root (ops : List Op) (r : Nat) (hr : r < (run ops).tree.size) :
    ∃ (rr : RegionRec) (u : UnitRec), (run ops).tree[r]? = some rr ∧ (run ops).units[rr.unit]? = some u ∧
      (run ops).walk r = (rr.depth, u.global) ∧ rr.depth ≤ r ∧ (run ops).isGlobal u.global = true := by
  have hI := Inv.run ops
  have hrr : (run ops).tree[r]? = some (run ops).tree[r] := Array.getElem?_eq_getElem hr
  have hd := hI.tree.depth_le r _ hrr
  obtain ⟨u, hu, hw⟩ := hI.tree.outward (run ops).tree.size r _ 0 hrr (by omega)
  obtain ⟨g, hg, hgp, _⟩ := hI.tree.unitRoot _ u hu
  refine ⟨_, u, hrr, hu, ?_, hd, ?_⟩
  · simpa [State.walk] using hw
  · simp [State.isGlobal, hg, hgp]

/-- A region reports `global()` exactly when it is the global region of some unit. -/
theorem C12_global_iff_unit_root (ops : List Op) (r : Nat) :
    (run ops).isGlobal r = true ↔ ∃ (j : Nat) (u : UnitRec), (run ops).units[j]? = some u ∧ u.global = r := by
  have hI := Inv.run ops
  constructor
  · intro h
    unfold State.isGlobal at h
    cases hr : (run ops).tree[r]? with
    | none => simp [hr] at h
    | some rr =>
      simp [hr] at h
      obtain ⟨_, _, u, hu, hg⟩ := hI.tree.top r rr hr h
      exact ⟨_, u, hu, hg⟩
  · rintro ⟨j, u, hu, rfl⟩
    obtain ⟨g, hg, hgp, _⟩ := hI.tree.unitRoot j u hu
    simp [State.isGlobal, hg, hgp]

/-- The walk stops only at a region that reports `global()` (so no region strictly inside a unit's tree does). -/
theorem C12_walk_stops_only_at_global (ops : List Op) (r : Nat) (hr : r < (run ops).tree.size) :
    (run ops).isGlobal ((run ops).walk r).2 = true := by
  obtain ⟨rr, u, _, _, hw, _, hg⟩ := C12_walk_reaches_root ops r hr
  rw [hw]; exact hg

/-- `p` lies on the outward path of `r` (one or more `enclosing()` steps). -/
inductive Encloses (s : State) : Nat → Nat → Prop
  | step {r p : Nat} : s.enclosing r = some p → Encloses s p r
  | more {r p q : Nat} : s.enclosing r = some p → Encloses s q p → Encloses s q r

/-- **No cycle, after any history:** every region on the outward path of `r` was created strictly before `r`;
    in particular no region encloses itself, however many steps are taken. -/
theorem C12_no_cycle (ops : List Op) (r q : Nat) (h : Encloses (run ops) q r) : q < r ∧ q ≠ r := by
  have key : q < r := by
    induction h with
    | step h1 => exact C12_enclosing_earlier ops _ _ h1
    | more h1 _ ih => exact Nat.lt_trans ih (C12_enclosing_earlier ops _ _ h1)
  exact ⟨key, Nat.ne_of_lt key⟩

/-- One `enclosing()` step stays inside the tree of the same unit and goes up by exactly one level. -/
theorem C12_enclosing_same_unit_one_level (ops : List Op) (r p : Nat) (rr : RegionRec)
    (hr : (run ops).tree[r]? = some rr) (h : (run ops).enclosing r = some p) :
    ∃ pr : RegionRec, (run ops).tree[p]? = some pr ∧ pr.unit = rr.unit ∧ rr.depth = pr.depth + 1 := by
  unfold State.enclosing at h
  simp [hr] at h
  exact ((Inv.run ops).tree.up r rr p hr h).2

/-- A region that is not global has an enclosing region (the C++ `enclosing()` does not throw). -/
theorem C12_enclosing_total (ops : List Op) (r : Nat) (hr : r < (run ops).tree.size)
    (hg : (run ops).isGlobal r = false) : ∃ p, (run ops).enclosing r = some p := by
  have hrr : (run ops).tree[r]? = some (run ops).tree[r] := Array.getElem?_eq_getElem hr
  simp only [State.isGlobal, hrr, Option.map_some, Option.getD_some] at hg
  cases hp : ((run ops).tree[r]).parent with
  | none => simp [hp] at hg
  | some p => exact ⟨p, by simp [State.enclosing, hrr, hp]⟩

/-! ## Owners -/

private theorem obs_of_opens {s : State} {r : Nat} {p o : Option Nat} {k : RKind} (h : Opens s.tree r p o k) :
    s.enclosing r = p ∧ s.owner r = o ∧ s.isGlobal r = p.isNone := by
  obtain ⟨rr, h1, h2, h3, _⟩ := h
  simp [State.enclosing, State.owner, State.isGlobal, h1, h2, h3]

/-- Class, union, enum, namespace, closure: the body region is enclosed by the region the type was made in and names
    the type as its owner. -/
theorem C12_owner_udt (ops : List Op) (n : Nat) (k : UKind) (r body : Nat) (bases : Option Nat)
    (h : (run ops).nodes[n]? = some (.udt k (some r) body bases)) :
    (run ops).enclosing body = some r ∧ (run ops).owner body = some n ∧ (run ops).isGlobal body = false := by
  have := obs_of_opens ((Inv.run ops).facts n _ h).1
  simpa using this

/-- The base-subobject region of a class is enclosed by the region the class was made in (not by its body) and is
    owned by the class; only classes have one. -/
theorem C12_owner_class_bases (ops : List Op) (n : Nat) (k : UKind) (r body b : Nat)
    (h : (run ops).nodes[n]? = some (.udt k (some r) body (some b))) :
    k = .cls ∧ (run ops).enclosing b = some r ∧ (run ops).owner b = some n := by
  have hf := ((Inv.run ops).facts n _ h).2
  have := obs_of_opens hf.2
  exact ⟨hf.1, this.1, this.2.1⟩

/-- A block's region is enclosed by the region the block was made in and is owned by the block. -/
theorem C12_owner_block (ops : List Op) (n inR rg : Nat) (h : (run ops).nodes[n]? = some (.block inR rg)) :
    (run ops).enclosing rg = some inR ∧ (run ops).owner rg = some n := by
  have := obs_of_opens ((Inv.run ops).facts n _ h)
  exact ⟨this.1, this.2.1⟩

/-- The parameter region of a mapping / lambda / requires / function declarator `c` is enclosed by the region it was
    made in; it is owned by `c` for mappings and lambdas and has no owner for requires-expressions and declarators
    (which the library leaves to the client to set). -/
theorem C12_owner_parms (ops : List Op) (c : Nat) (k : CKind) (inR pl : Nat)
    (h : (run ops).nodes[c]? = some (.callable k inR pl)) :
    ∃ parms lvl, (run ops).nodes[pl]? = some (.plist k c inR parms lvl) ∧ (run ops).enclosing parms = some inR ∧
      (run ops).owner parms = (if k.owns then some c else none) := by
  obtain ⟨parms, lvl, hp⟩ := (Inv.run ops).facts c _ h
  have := obs_of_opens ((Inv.run ops).facts pl _ hp)
  exact ⟨parms, lvl, hp, this.1, this.2.1⟩

/-- The region of a `Where` is enclosed by the region it was made in; the library gives it no owner. -/
theorem C12_unowned_where (ops : List Op) (n inR rg : Nat) (h : (run ops).nodes[n]? = some (.whereN inR rg)) :
    (run ops).enclosing rg = some inR ∧ (run ops).owner rg = none := by
  have := obs_of_opens ((Inv.run ops).facts n _ h)
  exact ⟨this.1, this.2.1⟩

/-! ## Handlers -/

/-- A handler `h` of block `blk`: the body's region is owned by the body and enclosed by the EH region; the EH region
    binds exactly the exception parameter, has no owner, and is enclosed by the region that encloses the guarded
    block's region. -/
theorem C12_handler_shape (ops : List Op) (h blk encl eh exc hb : Nat)
    (hh : (run ops).nodes[h]? = some (.handler blk encl eh exc hb)) :
    ∃ brg rg, (run ops).nodes[blk]? = some (.block encl brg) ∧ (run ops).enclosing brg = some encl ∧
      (run ops).enclosing eh = some encl ∧ (run ops).owner eh = none ∧ (run ops).bindings eh = [exc] ∧
      (run ops).nodes[exc]? = some (.ehparam encl) ∧
      (run ops).nodes[hb]? = some (.hblock eh rg) ∧ (run ops).enclosing rg = some eh ∧ (run ops).owner rg = some hb := by
  have hI := Inv.run ops
  obtain ⟨h1, ⟨brg, h2⟩, h3, ⟨rg, h4⟩, h5⟩ := hI.facts h _ hh
  have o1 := obs_of_opens h1
  have o2 := obs_of_opens (hI.facts blk _ h2)
  have o3 := obs_of_opens (hI.facts hb _ h4)
  exact ⟨brg, rg, h2, o2.1, o1.1, o1.2.1, by simp [State.bindings, h5], h3, h4, o3.1, o3.2.1⟩

/-! ## Parameters, enumerators, bases -/

/-- A parameter / enumerator / base `x` created with position `pos` in region `home` is the `pos`-th binding of
    `home`, reports `home` and `pos`, and `home` is the region of the list / enum / class it was added to. -/
theorem C12_member_position (ops : List Op) (x : Nat) (mk : MKind) (c home pos : Nat)
    (h : (run ops).nodes[x]? = some (.member mk c home pos)) :
    ((run ops).bindings home)[pos]? = some x ∧ (run ops).homeOf x = some home ∧ (run ops).posOf x = some pos ∧
      ∃ cn, (run ops).nodes[c]? = some cn ∧ memberHome mk cn = some home := by
  obtain ⟨⟨l, h1, h2⟩, h3⟩ := (Inv.run ops).facts x _ h
  exact ⟨by simp [State.bindings, h1, h2], by simp [State.homeOf, h], by simp [State.posOf, h], h3⟩

/-- `position i = i`: the `i`-th binding of any region other than an EH region is a declaration that reports
    position `i` and that region as its home. -/
theorem C12_binding_position (ops : List Op) (r i x : Nat) (rr : RegionRec) (hr : (run ops).tree[r]? = some rr)
    (hk : rr.kind ≠ .eh) (hx : ((run ops).bindings r)[i]? = some x) :
    (run ops).posOf x = some i ∧ (run ops).homeOf x = some r := by
  have hI := Inv.run ops
  have hb : (run ops).binds[r]? = some ((run ops).bindings r) := by
    have : r < (run ops).binds.size := by rw [hI.bsize]; exact lt_of_get hr
    simp [State.bindings, Array.getElem?_eq_getElem this]
  obtain ⟨mk, c, hn⟩ := hI.bound r rr _ i x hr hk hb hx
  exact ⟨by simp [State.posOf, hn], by simp [State.homeOf, hn]⟩

/-- A parameter reports the nesting level of the parameter list it was added to, and its home is that list's region. -/
theorem C12_param_level (ops : List Op) (x c home pos : Nat)
    (h : (run ops).nodes[x]? = some (.member .param c home pos)) :
    ∃ k host inR lvl, (run ops).nodes[c]? = some (.plist k host inR home lvl) ∧ (run ops).levelOf x = some lvl ∧
      (run ops).levelOf c = some lvl := by
  obtain ⟨_, ⟨cn, h3, h4⟩⟩ := (Inv.run ops).facts x _ h
  cases cn <;> simp [memberHome] at h4
  rename_i k host inR parms lvl
  subst h4
  exact ⟨k, host, inR, lvl, h3, by simp [State.levelOf, h, h3], by simp [State.levelOf, h3]⟩

/-! ## Units and modules -/

/-- Every unit owns a global namespace that is unnamed (empty identifier), typed `namespace`, whose region is the
    unit's global region: parentless, reporting `global()`, owned by that namespace. -/
theorem C12_unit_namespace (ops : List Op) (j : Nat) (u : UnitRec) (h : (run ops).units[j]? = some u) :
    (run ops).nodes[u.ns]? = some (.udt .ns none u.global none) ∧ (run ops).nsName u.ns = some "" ∧
      UKind.ns.typeName = "namespace" ∧ (run ops).enclosing u.global = none ∧ (run ops).isGlobal u.global = true ∧
      (run ops).owner u.global = some u.ns := by
  have hI := Inv.run ops
  have hn := (hI.units j u h).1
  have := obs_of_opens (hI.facts u.ns _ hn).2.2
  exact ⟨hn, by simp [State.nsName, hn], rfl, this.1, by simpa using this.2.2, this.2.1⟩

/-- The interface unit of a module links back to it. -/
theorem C12_module_link (ops : List Op) (m u : Nat) (h : (run ops).mods[m]? = some u) :
    ∃ ur : UnitRec, (run ops).units[u]? = some ur ∧ ur.kind = .iface ∧ ur.module = some m :=
  (Inv.run ops).mods m u h

/-- Exactly the plain translation units have no parent module. -/
theorem C12_unit_module_iff (ops : List Op) (j : Nat) (u : UnitRec) (h : (run ops).units[j]? = some u) :
    u.kind = .tu ↔ u.module = none := ((Inv.run ops).units j u h).2

/-! ## What each operation creates (the arguments of the operation are what the records say) -/

theorem C12_creates_unit (ops : List Op) :
    let s := run ops
    (run (ops ++ [.unit])).units[s.units.size]? = some ⟨.tu, s.nodes.size, s.tree.size, none⟩ := by
  simp [run_snoc, step]

/-- `Module::make_unit` on an existing module `m`: the new unit's parent module is `m`. -/
theorem C12_creates_munit (ops : List Op) (m : Nat) (hm : m < (run ops).mods.size) :
    let s := run ops
    (run (ops ++ [.munit m])).units[s.units.size]? = some ⟨.impl, s.nodes.size, s.tree.size, some m⟩ := by
  have : (run ops).mods[m]? = some (run ops).mods[m] := Array.getElem?_eq_getElem hm
  simp [run_snoc, step, this]

theorem C12_creates_module (ops : List Op) :
    let s := run ops
    (run (ops ++ [.module])).mods[s.mods.size]? = some s.units.size ∧
      (run (ops ++ [.module])).units[s.units.size]? = some ⟨.iface, s.nodes.size, s.tree.size, some s.mods.size⟩ := by
  simp [run_snoc, step]

/-- `make_subregion` on an existing heterogeneous region `r`: a new region enclosed by `r`, without owner. -/
theorem C12_creates_sub (ops : List Op) (r : Nat) (rr : RegionRec) (hr : (run ops).tree[r]? = some rr)
    (hh : rr.kind.hetero = true) :
    let s := run ops
    (run (ops ++ [.sub r])).enclosing s.tree.size = some r ∧ (run (ops ++ [.sub r])).owner s.tree.size = none := by
  simp [run_snoc, step, hr, hh, State.enclosing, State.owner, child]

theorem C12_creates_udt (ops : List Op) (k : UKind) (r : Nat) (hr : r < (run ops).tree.size) :
    let s := run ops
    (run (ops ++ [.udt k r])).nodes[s.nodes.size]? =
      some (.udt k (some r) s.tree.size (if k = .cls then some (s.tree.size + 1) else none)) := by
  have : (run ops).tree[r]? = some (run ops).tree[r] := Array.getElem?_eq_getElem hr
  by_cases hk : k = .cls <;> simp [run_snoc, step, this, hk]

theorem C12_creates_block (ops : List Op) (r : Nat) (hr : r < (run ops).tree.size) :
    let s := run ops
    (run (ops ++ [.block r])).nodes[s.nodes.size]? = some (.block r s.tree.size) := by
  have : (run ops).tree[r]? = some (run ops).tree[r] := Array.getElem?_eq_getElem hr
  simp [run_snoc, step, this]

/-- `Block::new_handler` on an existing block: the handler, its parameter and its body are created, the recorded
    enclosing region is the one the block was made in. -/
theorem C12_creates_handler (ops : List Op) (b inR brg : Nat) (hb : (run ops).nodes[b]? = some (.block inR brg)) :
    let s := run ops
    (run (ops ++ [.handler b])).nodes[s.nodes.size + 2]? =
      some (.handler b inR s.tree.size s.nodes.size (s.nodes.size + 1)) := by
  have hI := Inv.run ops
  obtain ⟨br, h1, h2, _⟩ := hI.facts b _ hb
  obtain ⟨_, er, h3, _⟩ := hI.tree.up brg br inR h1 h2
  simp only [run_snoc, step, hb, h1, h2, h3, pushNode_nodes, pushRegion_nodes]
  grind

theorem C12_creates_callable (ops : List Op) (k : CKind) (rf r lvl : Nat) (hr : r < (run ops).tree.size)
    (hf : k = .morphism → ∃ fr : RegionRec, (run ops).tree[rf]? = some fr ∧ fr.kind.hetero = true) :
    let s := run ops
    (run (ops ++ [.callable k rf r lvl])).nodes[s.nodes.size + 1]? = some (.callable k r s.nodes.size) ∧
      (run (ops ++ [.callable k rf r lvl])).nodes[s.nodes.size]? = some (.plist k (s.nodes.size + 1) r s.tree.size lvl) := by
  have : (run ops).tree[r]? = some (run ops).tree[r] := Array.getElem?_eq_getElem hr
  by_cases hk : k = .morphism
  · obtain ⟨fr, h1, h2⟩ := hf hk
    simp [run_snoc, step, this, hk, h1, h2, Array.getElem?_push]
    grind
  · simp [run_snoc, step, this, hk, Array.getElem?_push]
    grind

theorem C12_creates_where (ops : List Op) (r : Nat) (hr : r < (run ops).tree.size) :
    let s := run ops
    (run (ops ++ [.whereE r])).nodes[s.nodes.size]? = some (.whereN r s.tree.size) := by
  have : (run ops).tree[r]? = some (run ops).tree[r] := Array.getElem?_eq_getElem hr
  simp [run_snoc, step, this]

/-- `add_member` / `declare_base`: the new declaration's position is the number of bindings *before* the call. -/
theorem C12_creates_member (ops : List Op) (mk : MKind) (c home : Nat) (cn : NodeRec)
    (hc : (run ops).nodes[c]? = some cn) (hh : memberHome mk cn = some home) :
    let s := run ops
    (run (ops ++ [.member mk c])).nodes[s.nodes.size]? = some (.member mk c home (s.bindings home).length) ∧
      (run (ops ++ [.member mk c])).bindings home = s.bindings home ++ [s.nodes.size] := by
  have hI := Inv.run ops
  obtain ⟨rr, hr, _⟩ := memberHome_kind hI hc hh
  have hlt : home < (run ops).binds.size := by rw [hI.bsize]; exact lt_of_get hr
  have hb : (run ops).binds[home]? = some (run ops).binds[home] := Array.getElem?_eq_getElem hlt
  simp [run_snoc, step, hc, hh, hb, State.bindings, Array.getElem?_modify]

/-! ## Nothing observed ever changes -/

theorem C12_stable_region (ops more : List Op) (r : Nat) (hr : r < (run ops).tree.size) :
    (run (ops ++ more)).enclosing r = (run ops).enclosing r ∧ (run (ops ++ more)).owner r = (run ops).owner r ∧
      (run (ops ++ more)).isGlobal r = (run ops).isGlobal r ∧
      ∃ l', (run (ops ++ more)).bindings r = (run ops).bindings r ++ l' := by
  have e := Ext.run ops more
  have hI := Inv.run ops
  have hrr : (run ops).tree[r]? = some (run ops).tree[r] := Array.getElem?_eq_getElem hr
  have hlt : r < (run ops).binds.size := by rw [hI.bsize]; exact hr
  have hb : (run ops).binds[r]? = some ((run ops).binds[r]'hlt) := Array.getElem?_eq_getElem hlt
  have h1 := e.tree r _ hrr
  obtain ⟨l', h2⟩ := e.binds r _ hb
  refine ⟨?_, ?_, ?_, l', ?_⟩ <;> simp [State.enclosing, State.owner, State.isGlobal, State.bindings, h1, hrr, hb, h2]

theorem C12_stable_node (ops more : List Op) (n : Nat) (hn : n < (run ops).nodes.size) :
    (run (ops ++ more)).nodes[n]? = (run ops).nodes[n]? ∧ (run (ops ++ more)).homeOf n = (run ops).homeOf n ∧
      (run (ops ++ more)).posOf n = (run ops).posOf n ∧ (run (ops ++ more)).levelOf n = (run ops).levelOf n := by
  have e := Ext.run ops more
  have hI := Inv.run ops
  have hnn : (run ops).nodes[n]? = some (run ops).nodes[n] := Array.getElem?_eq_getElem hn
  have h1 := e.nodes n _ hnn
  refine ⟨by rw [h1, hnn], by simp [State.homeOf, h1, hnn], by simp [State.posOf, h1, hnn], ?_⟩
  simp only [State.levelOf, h1, hnn]
  cases hnd : (run ops).nodes[n] with
  | member mk c home pos =>
    have hf := hI.facts n _ hnn
    rw [hnd] at hf
    obtain ⟨_, ⟨cn, hc, _⟩⟩ := hf
    cases mk <;> simp [e.nodes c _ hc, hc]
  | _ => simp

theorem C12_stable_unit (ops more : List Op) (j : Nat) (u : UnitRec) (h : (run ops).units[j]? = some u) :
    (run (ops ++ more)).units[j]? = some u := (Ext.run ops more).units j u h

/-! ## Non-vacuity: a concrete history exercising every construct satisfies the hypotheses used above -/

/-- unit; module; impl unit; class in r0; block in the class body; handler; mapping in the handler body; two
    parameters; enum with two enumerators; a base; lambda, requires, declarator, where, sub-region. -/
def demo : List Op :=
  [.unit, .module, .munit 0, .udt .cls 0, .block 3, .handler 1 /- not a block: ignored -/, .handler 4,
   .callable .mapping 0 7 2, .member .param 8, .member .param 8, .udt .enm 8, .member .enumerator 12,
   .member .enumerator 12, .member .base 3, .callable .lambda 0 5 0, .callable .requires 0 9 1,
   .callable .morphism 0 10 3, .whereE 11, .sub 13, .sub 8 /- homogeneous: ignored -/]

example : (run demo).tree.size = 15 ∧ (run demo).nodes.size = 23 := by decide +kernel
example : (run demo).nodes[7]? = some (.handler 4 3 6 5 6) := by decide +kernel
example : (run demo).enclosing 6 = some 3 ∧ (run demo).bindings 6 = [5] ∧ (run demo).enclosing 7 = some 6 := by
  decide +kernel
example : (run demo).walk 8 = (4, 0) ∧ (run demo).walk 1 = (0, 1) := by decide +kernel
/-- Region 3 lies two steps out of region 7 (7 → 6 → 3): the hypothesis of `C12_no_cycle` is met by a real history. -/
example : Encloses (run demo) 3 7 := .more (p := 6) (by decide +kernel) (.step (by decide +kernel))
example : (run demo).nodes[11]? = some (.member .param 8 8 1) ∧ (run demo).levelOf 11 = some 2 := by decide +kernel
example : (run demo).bindings 9 = [13, 14] ∧ (run demo).bindings 4 = [15] := by decide +kernel
example : (run demo).owner 8 = some 9 ∧ (run demo).owner 11 = none ∧ (run demo).owner 13 = none := by decide +kernel
example : (run demo).mods[0]? = some 1 ∧ ((run demo).units[2]?.map (·.module)) = some (some 0) := by decide +kernel
/-- The statement is not trivially true of any store: a region enclosing itself is rejected by the invariant. -/
example : ¬ TreeInv #[{ parent := some 0, owner := none, kind := .sub, unit := 0, depth := 1 }] #[] := by
  intro h; have := (h.up 0 _ 0 rfl rfl).1; omega

end Ipr.Region
