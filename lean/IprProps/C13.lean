import IprProofs.Constants
import Generated.Constants
/-!
# C13 — Lexicon constants are distinct, correctly spelled, self-describing, process-wide

`Generated/Constants.lean` is rewritten on every run from the implementation (`vlib/c13.py`, `harness/c13probe.cxx`):
every constant accessor of `ipr::Lexicon`, observed on several Lexicon instances living in one process (the last
column(s) belong to instances created after another instance was destroyed), together with the answers of every public
route from a spelling to a node.  Nodes carry canonical numbers.  The theorems range over the whole table
(`decide +kernel`) and are lifted by the general lemmas of `IprProofs/Constants.lean`.

The **documented** spellings below are written once, by hand, from the comments of the accessors in
`include/ipr/interface:1913-1947` and the rows of `src/builtin.def` — never copied from what the library answers.
(`ushort_type()` is commented `"unsigned char"` in the interface, an evident slip; the C++ name is required here.)
-/
set_option autoImplicit false
namespace Ipr.Const
open Ipr.Gen.C13

/-- accessor ↦ C++ spelling, in the order of the interface. -/
def documentedTypes : List (String × String) := [
  ("void_type", "void"), ("bool_type", "bool"), ("char_type", "char"), ("schar_type", "signed char"),
  ("uchar_type", "unsigned char"), ("wchar_t_type", "wchar_t"), ("char8_t_type", "char8_t"),
  ("char16_t_type", "char16_t"), ("char32_t_type", "char32_t"), ("short_type", "short"),
  ("ushort_type", "unsigned short"), ("int_type", "int"), ("uint_type", "unsigned int"), ("long_type", "long"),
  ("ulong_type", "unsigned long"), ("long_long_type", "long long"), ("ulong_long_type", "unsigned long long"),
  ("float_type", "float"), ("double_type", "double"), ("long_double_type", "long double"), ("ellipsis_type", "..."),
  ("typename_type", "typename"), ("class_type", "class"), ("union_type", "union"), ("enum_type", "enum"),
  ("namespace_type", "namespace")]

/-- accessor ↦ spelling, type.  The type is named by a type accessor, or `auto` (the 27th built-in, without accessor),
    or `decltype(nullptr)` (the constant's own irreducible type, `src/impl.cxx:260-272`). -/
def documentedSymbols : List (String × String × String) := [
  ("false_value", "false", "bool_type"), ("true_value", "true", "bool_type"),
  ("nullptr_value", "nullptr", "decltype(nullptr)"), ("default_value", "default", "auto"),
  ("delete_value", "delete", "void_type")]

def documentedLinkages : List (String × String) := [("c_linkage", "C"), ("cxx_linkage", "C++")]

/-! ## Reading the table -/

def allTypeRows : List TypeRow := typeRows ++ [autoRow]

/-- The node an accessor returns — defined only if every instance returned the same one. -/
def TypeRow.id? (r : TypeRow) : Option Nat := const? r.ids
def TypeRow.nameId? (r : TypeRow) : Option Nat := const? r.nameIds

def typeNamed (acc : String) : Option Nat := (allTypeRows.find? (·.accessor == acc)).bind TypeRow.id?

/-- `(name node, type node)` of the 27 built-ins: the table `get_as_type(const Identifier&)` scans. -/
def builtinTable : List (Nat × Nat) :=
  allTypeRows.filterMap fun r => match r.nameId?, r.id? with
    | some n, some t => some (n, t)
    | _, _ => none

def typeNodes : List Nat := typeRows.filterMap TypeRow.id?
def symNodes : List Nat := symRows.filterMap (const? ·.ids)
def linkNodes : List Nat := linkRows.filterMap (const? ·.ids)

/-! ## The table is complete and every instance agrees (process-wide) -/

/-- The rows are exactly the documented accessors, in order. -/
theorem C13_accessors_complete :
    typeRows.map (·.accessor) = documentedTypes.map (·.1) ∧ autoRow.accessor = "default_value.type" ∧
    symRows.map (·.accessor) = documentedSymbols.map (·.1) ∧
    linkRows.map (·.accessor) = documentedLinkages.map (·.1) := by decide +kernel

/-- At least three Lexicon instances were alive in the process, and every row has one observation per instance. -/
theorem C13_instances :
    instances ≥ 3 ∧
    (∀ r ∈ allTypeRows, r.ids.length = instances ∧ r.viaWord.length = instances ∧ r.identWord.length = instances) ∧
    (∀ r ∈ symRows, r.ids.length = instances ∧ r.labelWord.length = instances) ∧
    (∀ r ∈ linkRows, r.ids.length = instances ∧ r.viaWord.length = instances) ∧
    decltypeNullptr.length = 2 * instances := by decide +kernel

/-- **Process-wide**: every Lexicon instance — including those created after another instance died — returns the same
    node for every constant, with the same name node and the same type node. -/
theorem C13_same_nodes_from_every_instance :
    (∀ r ∈ allTypeRows, (const? r.ids).isSome ∧ (const? r.nameIds).isSome ∧ (const? r.typeIds).isSome ∧ (const? r.exprIds).isSome) ∧
    (∀ r ∈ symRows, (const? r.ids).isSome ∧ (const? r.nameIds).isSome ∧ (const? r.typeIds).isSome) ∧
    (∀ r ∈ linkRows, (const? r.ids).isSome) := by decide +kernel

/-! ## The built-in types -/

/-- The 26 accessors return pairwise distinct nodes … -/
theorem C13_types_distinct : typeNodes.length = 26 ∧ typeNodes.Nodup := by decide +kernel

/-- … that is, all 325 pairs of different accessors differ. -/
theorem C13_types_pairwise_distinct (i j : Nat) (hi : i < typeNodes.length) (hj : j < typeNodes.length) (hij : i ≠ j) :
    typeNodes[i] ≠ typeNodes[j] :=
  nodup_pairwise C13_types_distinct.2 hi hj hij

/-- With `auto` (no accessor, reached through `default_value().type()`): 27 distinct nodes with 27 distinct names. -/
theorem C13_builtins_distinct :
    builtinTable.length = 27 ∧ (builtinTable.map (·.1)).Nodup ∧ (builtinTable.map (·.2)).Nodup := by decide +kernel

/-- Those 27 are all the built-ins there are: the rows of `src/builtin.def` are exactly the spellings covered. -/
theorem C13_builtin_def_covered :
    builtinDef.length = 27 ∧ (∀ s ∈ builtinDef, s ∈ allTypeRows.map (·.asked)) ∧
    (∀ r ∈ allTypeRows, r.asked ∈ builtinDef) := by decide +kernel

/-- Each built-in type names itself with the documented C++ spelling, through an `Identifier`. -/
theorem C13_types_spelled_as_documented :
    ∀ r ∈ typeRows, (documentedTypes.lookup r.accessor) = const? r.spellings ∧ const? r.nameCats = some catIdentifier := by
  decide +kernel

theorem C13_auto_spelled : const? autoRow.spellings = some "auto" ∧ const? autoRow.nameCats = some catIdentifier := by
  decide +kernel

/-- Self-describing: each is an `As_type` whose underlying expression is itself, has type `typename` (which is its own
    type), and the natural C++ transfer (C++ linkage — the very `cxx_linkage()` object — and the empty convention). -/
theorem C13_types_self_describing :
    (typeNamed "typename_type").isSome ∧
    ∀ r ∈ allTypeRows, const? r.cats = some catAsType ∧ const? r.exprIds = r.id? ∧
      const? r.typeIds = typeNamed "typename_type" ∧ const? r.natural = some true := by decide +kernel

/-! ## Symbols and linkages -/

/-- The five symbolic constants are distinct `Symbol`s spelled as documented (their names are `Identifier`s). -/
theorem C13_symbols_distinct_and_spelled :
    symNodes.length = 5 ∧ symNodes.Nodup ∧
    ∀ r ∈ symRows, const? r.cats = some catSymbol ∧ const? r.nameCats = some catIdentifier ∧
      ((documentedSymbols.lookup r.accessor).map (·.1)) = const? r.spellings := by decide +kernel

/-- `r` has the type the documentation names `ty`. -/
def SymRow.typedAs (r : SymRow) (ty : String) : Bool :=
  if ty == "decltype(nullptr)" then
    const? r.typeCats == some catDecltype && const? r.typeOperandIds == const? r.ids && (const? r.ids).isSome
  else if ty == "auto" then const? r.typeIds == autoRow.id? && autoRow.id?.isSome
  else const? r.typeIds == typeNamed ty && (typeNamed ty).isSome

/-- Typed as documented: `true`/`false` : `bool`, `delete` : `void`, `default` : `auto`; `nullptr` has its own
    `Decltype` whose operand is the constant itself; every one of those types has type `typename`. -/
theorem C13_symbols_typed :
    ∀ r ∈ symRows, const? r.typeTypeIds = typeNamed "typename_type" ∧
      ∃ d ∈ documentedSymbols, d.1 = r.accessor ∧ r.typedAs d.2.2 = true := by decide +kernel

/-- The two standard linkages are distinct objects spelled `C` and `C++`. -/
theorem C13_linkages_distinct_and_spelled :
    linkNodes.length = 2 ∧ linkNodes.Nodup ∧
    ∀ r ∈ linkRows, documentedLinkages.lookup r.accessor = const? r.spellings := by decide +kernel

/-! ## Every route from a spelling returns the constant -/

/-- The words sent through the routes are the documented spellings. -/
theorem C13_routes_ask_documented_spellings :
    (∀ r ∈ typeRows, documentedTypes.lookup r.accessor = some r.asked) ∧ autoRow.asked = "auto" ∧
    (∀ r ∈ symRows, (documentedSymbols.lookup r.accessor).map (·.1) = some r.asked) ∧
    (∀ r ∈ linkRows, documentedLinkages.lookup r.accessor = some r.asked) := by decide +kernel

/-- identifier → as-type: `get_as_type(get_identifier(s))`, through the word and the `String` overloads, on every
    instance, is the accessor's node; and `get_identifier(s)` is the node the type bears as its name. -/
theorem C13_route_identifier_to_type :
    ∀ r ∈ allTypeRows, r.id?.isSome ∧ const? r.viaWord = r.id? ∧ const? r.viaString = r.id? ∧
      r.nameId?.isSome ∧ const? r.identWord = r.nameId? ∧ const? r.identString = r.nameId? := by decide +kernel

/-- The same, from the model of the scan (`asTypeOfName`, any table): since the 27 names are pairwise distinct, the
    scan answers each built-in's own node for its name — no neighbour, no look-alike — and that is what was observed. -/
theorem C13_route_identifier_to_type_model :
    ∀ p ∈ builtinTable, asTypeOfName builtinTable p.1 = some p.2 := by
  intro p hp
  exact asTypeOfName_hit builtinTable C13_builtins_distinct.2.1 p.1 p.2 hp

/-- word → linkage, through both overloads. -/
theorem C13_route_word_to_linkage :
    ∀ r ∈ linkRows, (const? r.ids).isSome ∧ const? r.viaWord = const? r.ids ∧ const? r.viaString = const? r.ids := by
  decide +kernel

/-- identifier → label: `get_label(get_identifier("default"))` is `default_value()`; and the reserved identifiers are
    the names of the symbols. -/
theorem C13_route_identifier_to_label :
    (∀ r ∈ symRows, (const? r.nameIds).isSome ∧ const? r.identWord = const? r.nameIds ∧ const? r.identString = const? r.nameIds) ∧
    (∀ r ∈ symRows, r.accessor = "default_value" → (const? r.ids).isSome ∧ const? r.labelWord = const? r.ids ∧ const? r.labelString = const? r.ids) ∧
    (∃ r ∈ symRows, r.accessor = "default_value") := by decide +kernel

/-- expression → decltype: `get_decltype(nullptr_value())` is `nullptr_value().type()` on every instance. -/
theorem C13_route_expression_to_decltype :
    ∃ r ∈ symRows, r.accessor = "nullptr_value" ∧ (const? r.typeIds).isSome ∧ const? decltypeNullptr = const? r.typeIds := by
  decide +kernel

/-! ## Non-vacuity -/

example : documentedTypes.length = 26 ∧ 26 * 25 / 2 = 325 := by decide
example : typeRows.length = 26 ∧ symRows.length = 5 ∧ linkRows.length = 2 := by decide +kernel
/-- The checks discriminate: a table in which two instances disagree has no `const?`. -/
example : const? [3, 3, 4] = none ∧ const? [3, 3, 3] = some 3 ∧ const? ([] : List Nat) = none := by decide
/-- … and a scan over a table with a duplicated name does return the neighbour. -/
example : asTypeOfName [(1, 10), (1, 11)] 1 = some 10 := by decide

end Ipr.Const
