import IprProofs.Isolation
import Generated.Statics
/-!
# C20 — Lexicons are isolated: independent instances can be used from different threads  *(partial)*

Proved here, for the isolation model `IprModel/Isolation.lean`:
* `C20_no_shared_mutable` — the table of writable statics **regenerated on every run** from the freshly built objects
  (`Generated/Statics.lean`: every symbol in `.data* / .bss* / .tdata / .tbss`, not `.data.rel.ro*`) contains nothing
  beyond the allow-list (`decide` by kernel evaluation over the whole table);
* `C20_interleave` — whenever there is no writable static, for every semantics of the operations, every family of
  programs on distinct Lexicons and **every** interleaving of them, each thread observes exactly the outputs, and its
  Lexicon ends in exactly the state, of its sequential run;
* `C20_isolated` — the two combined, for the table of the code as it is now.

Not proved (observed at run time by `check.py C20`): that the C++ operations really have the footprint the model gives
them (one Lexicon + the statics) and data-race freedom itself — ThreadSanitizer searches schedules of 2–16 threads, the
per-thread traces are compared with the sequential run, and the addresses two Lexicons have in common must lie in
read-only storage.
-/
namespace Ipr.Iso

variable {κ σ ω o : Type} {syms : List String}

/-- The rows of the regenerated table that are not allowed: the process-wide mutable state of the library. -/
def sharedMutable : List (String × String × String) := sharedMutableOf Ipr.Generated.writableStatics

/-- Nothing mutable is shared: every writable static of the freshly built objects is on the allow-list. -/
theorem C20_no_shared_mutable : sharedMutable = [] := by decide +kernel

/-- **Interleaving independence.**  No writable static ⇒ for every operation semantics `S`, constants `k`, initial
    states `g`, every interleaving `tr` and every Lexicon `ℓ`: the outputs seen by the thread working on `ℓ` and the final
    state of `ℓ` are those of running that thread's program alone. -/
theorem C20_interleave (S : Sys κ σ ω o syms) (k : κ) (hs : syms = []) (g : Global σ syms) (tr : List (Ev ω)) (ℓ : Nat) :
    outs ℓ (exec S k g tr).2 = (runAlone S k g.shared (g.lex ℓ) (proj ℓ tr)).2 ∧
    (exec S k g tr).1.lex ℓ = (runAlone S k g.shared (g.lex ℓ) (proj ℓ tr)).1.2 :=
  exec_proj S k hs ℓ tr g

/-- The same, stated for a given family of per-thread programs: ANY merge of them (any event list whose projections
    are the programs) gives every thread the outputs of its sequential run. -/
theorem C20_any_merge (S : Sys κ σ ω o syms) (k : κ) (hs : syms = []) (g : Global σ syms)
    (progs : Nat → List ω) (tr : List (Ev ω)) (hmerge : ∀ ℓ, proj ℓ tr = progs ℓ) (ℓ : Nat) :
    outs ℓ (exec S k g tr).2 = (runAlone S k g.shared (g.lex ℓ) (progs ℓ)).2 ∧
    (exec S k g tr).1.lex ℓ = (runAlone S k g.shared (g.lex ℓ) (progs ℓ)).1.2 := by
  rw [← hmerge ℓ]; exact C20_interleave S k hs g tr ℓ

/-- Two schedules of the same programs cannot be told apart by any thread. -/
theorem C20_schedule_independent (S : Sys κ σ ω o syms) (k : κ) (hs : syms = []) (g : Global σ syms)
    (tr₁ tr₂ : List (Ev ω)) (hsame : ∀ ℓ, proj ℓ tr₁ = proj ℓ tr₂) (ℓ : Nat) :
    outs ℓ (exec S k g tr₁).2 = outs ℓ (exec S k g tr₂).2 ∧ (exec S k g tr₁).1.lex ℓ = (exec S k g tr₂).1.lex ℓ := by
  have h1 := C20_interleave S k hs g tr₁ ℓ
  have h2 := C20_interleave S k hs g tr₂ ℓ
  rw [hsame ℓ] at h1
  exact ⟨h1.1.trans h2.1.symm, h1.2.trans h2.2.symm⟩

/-- **Frame.**  A Lexicon no event of the run works on is left exactly as it was, and its thread sees nothing. -/
theorem C20_untouched (S : Sys κ σ ω o syms) (k : κ) (hs : syms = []) (g : Global σ syms) (tr : List (Ev ω)) (ℓ : Nat)
    (hnone : ∀ e ∈ tr, e.lex ≠ ℓ) :
    outs ℓ (exec S k g tr).2 = [] ∧ (exec S k g tr).1.lex ℓ = g.lex ℓ := by
  have hp : proj ℓ tr = [] := by
    induction tr with
    | nil => rfl
    | cons e tr ih =>
      have h1 : e.lex ≠ ℓ := hnone e (by simp)
      simp only [proj, h1, if_false]
      exact ih (fun e' he' => hnone e' (by simp [he']))
  have h := C20_interleave S k hs g tr ℓ
  rw [hp] at h
  simpa [runAlone] using h

theorem proj_swap (ℓ : Nat) (pre post : List (Ev ω)) (a b : Ev ω) (hne : a.lex ≠ b.lex) :
    proj ℓ (pre ++ a :: b :: post) = proj ℓ (pre ++ b :: a :: post) := by
  induction pre with
  | nil =>
    simp only [List.nil_append, proj]
    by_cases ha : a.lex = ℓ
    · have hb : b.lex ≠ ℓ := fun e => hne (ha.trans e.symm)
      simp [ha, hb]
    · simp [ha]
  | cons e pre ih => simp only [List.cons_append, proj, ih]

/-- **Adjacent events on different Lexicons commute.**  Exchanging two neighbouring steps of different threads — the
    elementary move that generates every re-scheduling — changes no thread's outputs and no Lexicon's final state. -/
theorem C20_swap_adjacent (S : Sys κ σ ω o syms) (k : κ) (hs : syms = []) (g : Global σ syms)
    (pre post : List (Ev ω)) (a b : Ev ω) (hne : a.lex ≠ b.lex) (ℓ : Nat) :
    outs ℓ (exec S k g (pre ++ a :: b :: post)).2 = outs ℓ (exec S k g (pre ++ b :: a :: post)).2 ∧
    (exec S k g (pre ++ a :: b :: post)).1.lex ℓ = (exec S k g (pre ++ b :: a :: post)).1.lex ℓ :=
  C20_schedule_independent S k hs g _ _ (fun j => proj_swap j pre post a b hne) ℓ

theorem length_runAlone (S : Sys κ σ ω o syms) (k : κ) (sh : Shared syms) (s : σ) (ops : List ω) :
    (runAlone S k sh s ops).2.length = ops.length := by
  induction ops generalizing sh s with
  | nil => rfl
  | cons op ops ih => simp only [runAlone, List.length_cons, ih]

/-- Every operation of a thread yields exactly one output to that thread, whatever the other threads do in between. -/
theorem C20_one_output_per_op (S : Sys κ σ ω o syms) (k : κ) (hs : syms = []) (g : Global σ syms) (tr : List (Ev ω)) (ℓ : Nat) :
    (outs ℓ (exec S k g tr).2).length = (proj ℓ tr).length := by
  rw [(C20_interleave S k hs g tr ℓ).1, length_runAlone]

/-- The library as built now: operations whose only process-wide mutable state is `sharedMutable` are isolated. -/
theorem C20_isolated (S : Sys κ σ ω o (sharedMutable.map (·.2.2))) (k : κ)
    (g : Global σ (sharedMutable.map (·.2.2))) (tr : List (Ev ω)) (ℓ : Nat) :
    outs ℓ (exec S k g tr).2 = (runAlone S k g.shared (g.lex ℓ) (proj ℓ tr)).2 ∧
    (exec S k g tr).1.lex ℓ = (runAlone S k g.shared (g.lex ℓ) (proj ℓ tr)).1.2 :=
  C20_interleave S k (by rw [C20_no_shared_mutable]; rfl) g tr ℓ

/-! ## Non-vacuity and sensitivity -/

/-- A semantics with one writable static (a process-wide counter handed out as node id): the premise matters. -/
def leaky : Sys Unit Nat Unit Nat ["counter"] where
  step := fun _ sh s _ =>
    let c := sh ⟨"counter", by simp⟩
    (fun _ => c + 1, s + 1, c)

def g0 : Global Nat ["counter"] := { shared := fun _ => 0, lex := fun _ => 0 }

/-- thread 0 alone sees ids 0,1 — interleaved with thread 1 it sees 0,2 -/
example : (runAlone leaky () g0.shared (g0.lex 0) [(), ()]).2 = [0, 1] := by decide
example : outs 0 (exec leaky () g0 [⟨0, ()⟩, ⟨1, ()⟩, ⟨0, ()⟩]).2 = [0, 2] := by decide

/-- The same counter kept per Lexicon is isolated (an instance of the theorem's hypotheses, with visible outputs). -/
def sound : Sys Unit Nat Unit Nat [] where
  step := fun _ sh s _ => (sh, s + 1, s)

def g1 : Global Nat [] := { shared := fun x => absurd x.2 (by simp), lex := fun _ => 0 }

example : outs 0 (exec sound () g1 [⟨0, ()⟩, ⟨1, ()⟩, ⟨0, ()⟩]).2 = [0, 1] := by decide
/-- … and the premise of `C20_swap_adjacent` matters: with the writable static, exchanging two neighbours of different threads is observable. -/
example : outs 0 (exec leaky () g0 [⟨0, ()⟩, ⟨1, ()⟩]).2 ≠ outs 0 (exec leaky () g0 [⟨1, ()⟩, ⟨0, ()⟩]).2 := by decide

/-- The table check is not vacuous: a function-local static with dynamic initialisation is rejected. -/
example : sharedMutableOf [("impl.o", ".bss", "std::__ioinit"),
    ("impl.o", ".bss._ZGVZN3ipr6String12empty_stringEvE5empty", "guard variable for ipr::String::empty_string()::empty")] ≠ [] := by
  decide +kernel

end Ipr.Iso
