import IprProofs.Isolation
import Generated.Statics
/-!
# C20 — Lexicons are isolated: independent instances can be used from different threads  *(partial)*

Proved here, for the isolation model `IprModel/Isolation.lean`:
* `C20_no_shared_mutable` — the table of writable statics **regenerated on every run** from the freshly built objects
  (`Generated/Statics.lean`: every symbol in `.data* / .bss* / .tdata / .tbss`, not `.data.rel.ro*`) contains nothing
  beyond the allow-list (`decide` by kernel evaluation over the whole table);
* `C20_interleave` — whenever there is no writable static, for every semantics of the operations, every family of
  programs on distinct Lexicons and **every** interleaving of them, each thread observes exactly the outputs, and its
  Lexicon ends in exactly the state, of its sequential run;
* `C20_isolated` — the two combined, for the table of the code as it is now.

Not proved (observed at run time by `check.py C20`): that the C++ operations really have the footprint the model gives
them (one Lexicon + the statics) and data-race freedom itself — ThreadSanitizer searches schedules of 2–16 threads, the
per-thread traces are compared with the sequential run, and the addresses two Lexicons have in common must lie in
read-only storage.
-/
namespace Ipr.Iso

variable {κ σ ω o : Type} {syms : List String}

/-- The rows of the regenerated table that are not allowed: the process-wide mutable state of the library. -/
def sharedMutable : List (String × String × String) := sharedMutableOf Ipr.Generated.writableStatics

/-- Nothing mutable is shared: every writable static of the freshly built objects is on the allow-list. -/
theorem C20_no_shared_mutable : sharedMutable = [] := by decide +kernel

/-- **Interleaving independence.**  No writable static ⇒ for every operation semantics `S`, constants `k`, initial
    states `g`, every interleaving `tr` and every Lexicon `ℓ`: the outputs seen by the thread working on `ℓ` and the final
    state of `ℓ` are those of running that thread's program alone. -/
theorem C20_interleave (S : Sys κ σ ω o syms) (k : κ) (hs : syms = []) (g : Global σ syms) (tr : List (Ev ω)) (ℓ : Nat) :
    outs ℓ (exec S k g tr).2 = (runAlone S k g.shared (g.lex ℓ) (proj ℓ tr)).2 ∧
    (exec S k g tr).1.lex ℓ = (runAlone S k g.shared (g.lex ℓ) (proj ℓ tr)).1.2 :=
  exec_proj S k hs ℓ tr g

/-- The same, stated for a given family of per-thread programs: ANY merge of them (any event list whose projections
    are the programs) gives every thread the outputs of its sequential run. -/
theorem C20_any_merge (S : Sys κ σ ω o syms) (k : κ) (hs : syms = []) (g : Global σ syms)
    (progs : Nat → List ω) (tr : List (Ev ω)) (hmerge : ∀ ℓ, proj ℓ tr = progs ℓ) (ℓ : Nat) :
    outs ℓ (exec S k g tr).2 = (runAlone S k g.shared (g.lex ℓ) (progs ℓ)).2 ∧
    (exec S k g tr).1.lex ℓ = (runAlone S k g.shared (g.lex ℓ) (progs ℓ)).1.2 := by
  rw [← hmerge ℓ]; exact C20_interleave S k hs g tr ℓ

/-- Two schedules of the same programs cannot be told apart by any thread. -/
theorem C20_schedule_independent (S : Sys κ σ ω o syms) (k : κ) (hs : syms = []) (g : Global σ syms)
    (tr₁ tr₂ : List (Ev ω)) (hsame : ∀ ℓ, proj ℓ tr₁ = proj ℓ tr₂) (ℓ : Nat) :
    outs ℓ (exec S k g tr₁).2 = outs ℓ (exec S k g tr₂).2 ∧ (exec S k g tr₁).1.lex ℓ = (exec S k g tr₂).1.lex ℓ := by
  have h1 := C20_interleave S k hs g tr₁ ℓ
  have h2 := C20_interleave S k hs g tr₂ ℓ
  rw [hsame ℓ] at h1
  exact ⟨h1.1.trans h2.1.symm, h1.2.trans h2.2.symm⟩

/-- The library as built now: operations whose only process-wide mutable state is `sharedMutable` are isolated. -/
theorem C20_isolated (S : Sys κ σ ω o (sharedMutable.map (·.2.2))) (k : κ)
    (g : Global σ (sharedMutable.map (·.2.2))) (tr : List (Ev ω)) (ℓ : Nat) :
    outs ℓ (exec S k g tr).2 = (runAlone S k g.shared (g.lex ℓ) (proj ℓ tr)).2 ∧
    (exec S k g tr).1.lex ℓ = (runAlone S k g.shared (g.lex ℓ) (proj ℓ tr)).1.2 :=
  C20_interleave S k (by rw [C20_no_shared_mutable]; rfl) g tr ℓ

/-! ## Non-vacuity and sensitivity -/

/-- A semantics with one writable static (a process-wide counter handed out as node id): the premise matters. -/
def leaky : Sys Unit Nat Unit Nat ["counter"] where
  step := fun _ sh s _ =>
    let c := sh ⟨"counter", by simp⟩
    (fun _ => c + 1, s + 1, c)

def g0 : Global Nat ["counter"] := { shared := fun _ => 0, lex := fun _ => 0 }

/-- thread 0 alone sees ids 0,1 — interleaved with thread 1 it sees 0,2 -/
example : (runAlone leaky () g0.shared (g0.lex 0) [(), ()]).2 = [0, 1] := by decide
example : outs 0 (exec leaky () g0 [⟨0, ()⟩, ⟨1, ()⟩, ⟨0, ()⟩]).2 = [0, 2] := by decide

/-- The same counter kept per Lexicon is isolated (an instance of the theorem's hypotheses, with visible outputs). -/
def sound : Sys Unit Nat Unit Nat [] where
  step := fun _ sh s _ => (sh, s + 1, s)

def g1 : Global Nat [] := { shared := fun x => absurd x.2 (by simp), lex := fun _ => 0 }

example : outs 0 (exec sound () g1 [⟨0, ()⟩, ⟨1, ()⟩, ⟨0, ()⟩]).2 = [0, 1] := by decide

/-- The table check is not vacuous: a function-local static with dynamic initialisation is rejected. -/
example : sharedMutableOf [("impl.o", ".bss", "std::__ioinit"),
    ("impl.o", ".bss._ZGVZN3ipr6String12empty_stringEvE5empty", "guard variable for ipr::String::empty_string()::empty")] ≠ [] := by
  decide +kernel

end Ipr.Iso
