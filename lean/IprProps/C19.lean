import IprProofs.Own
import IprProofs.OwnLinks
/-!
# C19 — destroying a Lexicon frees all its memory  *(partial)*

Proved here, for the ownership model `IprModel/Own.lean` (tied to the real library by `check.py C19`):
every storage-level construction history — any number and order of table / farm creations, unify-inserts with any
keys (fresh or duplicate), farm `make`s and string allocations of any length (oversize included) — ends, after
destruction, with **exactly** the free store that existed before the Lexicon was constructed, without a single
erroneous release; the destruction of a table releases each node exactly once and nothing else; the arena's destructor
releases every pool ever created.

Not proved (observed at run time by the probe: counting `operator new/delete`, LeakSanitizer, AddressSanitizer):
* that `std::forward_list / deque / vector / map` release what they own (farms are opaque owners here);
* "live use never touches dead storage": memory safety is a property of the C++ execution, not of this model.
-/
namespace Ipr.Own
open Ipr.RB Ipr.RB.Tree

/-- `destroy_subtree` as written (loop on the right spine, recursion on the left arm) visits the nodes of **every** tree
    in order: each node once, nothing else.  (That the function is total — accepted by structural recursion — is the
    termination argument of the loop.) -/
theorem C19_destroySubtree_visits {α : Type} (t : Tree α) : destroySubtree t [] = inorder t := by
  simpa using destroySubtree_eq t []

/-- `~container()` hands to `deallocate` exactly the blocks of the table's nodes. -/
theorem C19_destroyTree_exact (t : Tree Node) : (destroyTree t).Perm (treeBlocks t) := by
  rw [destroyTree_eq]

/-- … each exactly once, and no other block, whenever the nodes live in distinct blocks (which `C19_blocks_distinct`
    shows for every construction history). -/
theorem C19_destroyTree_once (t : Tree Node) (hd : (treeBlocks t).Nodup) (b : Nat) :
    (destroyTree t).count b = if b ∈ treeBlocks t then 1 else 0 := by
  rw [destroyTree_eq]
  exact hd.count

/-- Destroying a table whose nodes are live gives the store back, no erroneous release, for every tree and every store. -/
theorem C19_destroyTree_frees (t : Tree Node) (h : Heap) (new old : List Nat) (hl : h.live = new ++ old)
    (hown : new.Perm (treeBlocks t)) :
    (h.freeAll (destroyTree t)).live = old ∧ (h.freeAll (destroyTree t)).bad = h.bad := by
  have := freeAll_perm (destroyTree t) new old h hl (by rw [destroyTree_eq]; exact hown)
  exact ⟨this.1, this.2.1⟩

/-- **`destroy_subtree` on the linked structure.**  For every tree laid out at distinct addresses in any store of linked
    cells (other live cells may surround it), the destructor — run on the links, as written: recurse into `n->left()`,
    read `n->right()`, release `n`, continue — never reads or releases a cell that is not live, terminates within
    `size t` visits, releases exactly the cells of the tree and leaves every other cell as it was. -/
theorem C19_destroy_links_safe (t : Tree Nat) (hnd : (inorder t).Nodup) (pre post : Cells)
    (hpre : ∀ p ∈ pre, p.1 ∉ inorder t) (fuel : Nat) (hf : size t ≤ fuel) :
    destroyLinks fuel (pre ++ layout t ++ post) (rootAddr t) = some (without (pre ++ layout t ++ post) (inorder t)) :=
  destroyLinks_ok t fuel _ hf hnd (laid_layout t hnd pre post hpre)

/-- What is left contains no cell of the tree (each was released) … -/
theorem C19_destroy_links_releases_all (h : Cells) (as : List Nat) (p : Nat × Cell) (hp : p ∈ without h as) : p.1 ∉ as := by
  simp [without] at hp; exact hp.2

/-- … and every other cell is still there, unchanged. -/
theorem C19_destroy_links_keeps_rest (h : Cells) (as : List Nat) (p : Nat × Cell) (hp : p ∈ h) (hn : p.1 ∉ as) : p ∈ without h as := by
  simp [without, hp, hn]

/-- The ownership invariant holds after **every** construction history: the store consists of the baseline plus exactly
    the blocks the Lexicon owns. -/
theorem C19_owns (h0 : Heap) (hwf : h0.WF) (nT nF : Nat) (ops : List Op) :
    Owns h0.live h0.bad (run (construct h0 nT nF) ops) :=
  run_owns ops _ (construct_owns h0 hwf nT nF)

/-- Every block owned is owned once: table nodes, farm cells and pools never share a block. -/
theorem C19_blocks_distinct (h0 : Heap) (hwf : h0.WF) (nT nF : Nat) (ops : List Op) :
    (blocks (run (construct h0 nT nF) ops).lex).Nodup :=
  (C19_owns h0 hwf nT nF ops).nodup

/-- What `~Lexicon` releases is exactly what the Lexicon owns, in the order the three destructors produce. -/
theorem C19_release_log_exact (l : Lex) : destroyLog l = blocks l := destroyLog_eq l

/-- **Main theorem.**  For every baseline store, every number of tables and farms and **every** construction history,
    destroying the Lexicon returns the free store to exactly the baseline, and no release was erroneous (no double free,
    no release of a block never allocated). -/
theorem C19_lexicon_balance (h0 : Heap) (hwf : h0.WF) (nT nF : Nat) (ops : List Op) :
    (destroy (run (construct h0 nT nF) ops)).live = h0.live ∧
    (destroy (run (construct h0 nT nF) ops)).bad = h0.bad :=
  destroy_owns _ (C19_owns h0 hwf nT nF ops)

/-- An arena (a Lexicon with no table and no farm) after the strings of the given lengths were made. -/
def arenaRun (h0 : Heap) (lens : List Nat) : World := run (construct h0 0 0) (lens.map Op.str)

/-- The arena alone: `~arena` releases every pool ever created — the first one, every regular one and every oversize one —
    for every sequence of string lengths. -/
theorem C19_destroyArena_all (h0 : Heap) (hwf : h0.WF) (lens : List Nat) :
    (∃ new, (arenaRun h0 lens).heap.live = new ++ h0.live ∧ new.Perm (destroyArena (arenaRun h0 lens).lex.arena.chain)) ∧
    (destroyArena (arenaRun h0 lens).lex.arena.chain).Nodup ∧
    ((arenaRun h0 lens).heap.freeAll (destroyArena (arenaRun h0 lens).lex.arena.chain)).live = h0.live := by
  have ho : Owns h0.live h0.bad (arenaRun h0 lens) := C19_owns h0 hwf 0 0 _
  have htr : ∀ (ops : List Op) (w0 : World), (∀ op ∈ ops, ∃ n, op = Op.str n) →
      (run w0 ops).lex.trees = w0.lex.trees ∧ (run w0 ops).lex.farms = w0.lex.farms := by
    intro ops
    induction ops with
    | nil => intro w0 _; simp [run]
    | cons op ops ih =>
      intro w0 hall
      obtain ⟨n, rfl⟩ := hall op (by simp)
      have := ih (step w0 (.str n)) (fun o ho => hall o (by simp [ho]))
      simpa [run, step] using this
  have hb : blocks (arenaRun h0 lens).lex = destroyArena (arenaRun h0 lens).lex.arena.chain := by
    have := htr (lens.map Op.str) (construct h0 0 0) (by intro op hop; simp at hop; obtain ⟨n, _, rfl⟩ := hop; exact ⟨n, rfl⟩)
    have h1 : (arenaRun h0 lens).lex.trees = [] := by rw [arenaRun, this.1]; simp [construct]
    have h2 : (arenaRun h0 lens).lex.farms = [] := by rw [arenaRun, this.2]; simp [construct]
    simp [blocks, h1, h2, destroyArena_eq]
  obtain ⟨new, hl, hp⟩ := ho.split
  refine ⟨⟨new, hl, by rw [← hb]; exact hp⟩, by rw [← hb]; exact ho.nodup, ?_⟩
  exact (freeAll_perm _ new h0.live _ hl (by rw [← hb]; exact hp)).1

/-- An oversize request that does not fit the head pool gets a pool of its own of `poolsz + (n - bufsz)` bytes, spliced
    into the chain (hence owned and released by `C19_destroyArena_all`). -/
theorem C19_oversize_pool_owned (a : Arena) (h : Heap) (n : Nat) (hfit : ¬ hdrs n ≤ a.remaining) (hbig : n > bufSz) :
    (h.next, poolSz + (n - bufSz)) ∈ (a.allocate h n).2.chain ∧ (a.allocate h n).1 = h.alloc.1 := by
  unfold Arena.allocate
  simp only [hfit, hbig, if_true, if_false]
  cases a.chain <;> simp [Heap.alloc]

/-- Every state a Lexicon session of the drivers can reach (`Sess.step`: factory calls expressed as storage steps) is
    covered: destruction returns the store to the baseline taken at `new`. -/
theorem C19_session_balance (r : LexRun) (hwf : r.h0.WF) :
    (destroy r.w).live = r.h0.live ∧ (destroy r.w).bad = r.h0.bad := by
  rw [r.inv]; exact C19_lexicon_balance r.h0 hwf r.nT r.nF _

/-- The model is sensitive to the defect repaired by commit 0dd07e9: a Lexicon whose tables have no destructor leaks
    exactly the nodes of its tables, for every history. -/
theorem C19_leak_without_table_destructor (h0 : Heap) (hwf : h0.WF) (nT nF : Nat) (ops : List Op) :
    let w := run (construct h0 nT nF) ops
    ∃ leaked, (w.heap.freeAll (destroyLogNoTreeDtor w.lex)).live = leaked ++ h0.live ∧
      leaked.Perm (w.lex.trees.flatMap (fun c => treeBlocks c.tree)) := by
  intro w
  have ho : Owns h0.live h0.bad w := C19_owns h0 hwf nT nF ops
  obtain ⟨new, hl, hp⟩ := ho.split
  have hp' : new.Perm (destroyLogNoTreeDtor w.lex ++ w.lex.trees.flatMap (fun c => treeBlocks c.tree)) := by
    refine hp.trans ?_
    simp only [blocks, destroyLogNoTreeDtor, destroyArena_eq]
    exact List.perm_append_comm
  obtain ⟨new', h1, h2, _⟩ := freeAll_part _ _ new h0.live w.heap hl hp'
  exact ⟨new', h1, h2⟩

/-! ## Non-vacuity -/

/-- A baseline with live blocks, a history with fresh and duplicate keys in two tables, a farm, a string that fits, a string
    that rolls the pool over and an oversize one. -/
def sampleHistory : List Op :=
  [.ins 0 [1], .ins 0 [2], .ins 0 [1], .newTree, .ins 2 [7, 7], .ins 1 [], .newFarm, .make 0, .make 1, .make 0,
   .str 10, .str 1040000, .str 70000, .str 20000, .ins 0 [3], .ins 0 [4], .ins 0 [5]]

def sampleBase : Heap := { live := [5, 3], next := 9, bad := 0 }

example : sampleBase.WF := by unfold Heap.WF; decide
example : (run (construct sampleBase 2 1) sampleHistory).lex.treeNodes = 7 := by decide +kernel
example : (run (construct sampleBase 2 1) sampleHistory).lex.poolSizes = [1048584, 1048584, 1053048] := by decide +kernel
example : (run (construct sampleBase 2 1) sampleHistory).heap.live.length = 15 := by decide +kernel
example : (destroy (run (construct sampleBase 2 1) sampleHistory)).live = [5, 3] := by decide +kernel
/-- without the table destructor the same history leaks its seven nodes -/
example : ((run (construct sampleBase 2 1) sampleHistory).heap.freeAll
    (destroyLogNoTreeDtor (run (construct sampleBase 2 1) sampleHistory).lex)).live.length = 9 := by decide +kernel
/-- the linked destructor on a concrete 5-node tree surrounded by other cells; and the version with the two statements
    swapped (release `n`, then read `n->right()`) touches dead storage on the very first node -/
def sampleTree : Tree Nat :=
  .node .black (.node .red (.node .black .nil 11 .nil) 12 (.node .black .nil 13 .nil)) 14 (.node .black .nil 15 .nil)
def sampleCells : Cells := [(7, ⟨none, none⟩)] ++ layout sampleTree ++ [(99, ⟨some 7, none⟩)]
example : destroyLinks 5 sampleCells (rootAddr sampleTree) = some [(7, ⟨none, none⟩), (99, ⟨some 7, none⟩)] := by decide +kernel
example : destroyLinksSwapped 5 sampleCells (rootAddr sampleTree) = none := by decide +kernel
example : destroyLinksSwapped 9 (layout (.node .black .nil 1 .nil)) (some 1) = none := by decide +kernel

/-- a double release is seen by the store (so "bad = baseline" in the theorems says something) -/
example : ((sampleBase.free 5).free 5).bad = 1 := by decide +kernel

end Ipr.Own
