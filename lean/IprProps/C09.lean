import IprProofs.Graph
import IprProps.C02Table
import Generated.Wiring
/-!
# C09 — every node has the type its kind prescribes; sequence types track their members

`prescribe` transcribes the statement of the property (and the interface documentation it summarises) kind by kind.
`C09_type_column` checks, by kernel evaluation, that the `type` column of the wiring table **regenerated from the
implementation on this run** conforms to the prescription for every factory row; the clause theorems lift that check to
every store and every operand vector of the model; `C09_typed_sequence` covers every history of additions.
-/
namespace Ipr.Graph

/-- How the type of a node of some kind is determined. -/
inductive TypeRule
  | fixed (k : Konst)        -- fixed by the kind
  | target (acc : String)    -- the operand read under `acc` IS the type (casts, literals: the target type)
  | borrowed (acc : String)  -- the type of the part read under `acc` (the designated sub-node)
  | idExpr                   -- id-expression: the declaration's type, else as given
  | symbol                   -- symbols: as given; a label is `void`
  | given                    -- given at construction, reported exactly (a raise while it has not been given)
  | product                  -- the product of the current members' types (an object of its own, read on demand)
  | notExpr                  -- not an expression: no `type()`
deriving Repr, DecidableEq

/-- kinds of objects that are not nodes come after `Classic` in `Kind` -/
def Kind.isNode (k : Kind) : Bool := k.ctorIdx ≤ Kind.Classic.ctorIdx

/-- The prescription, kind by kind (statement of C09; interface lines cited in `IprProps/C02Table.lean`). -/
def prescribe : Kind → TypeRule
  -- void: break, continue, asm
  | .Break | .Continue | .Asm => .fixed .k_void
  -- bool: static assertions, requires-expressions, requires-clauses
  | .Static_assert | .Requires | .Restriction => .fixed .k_bool
  -- the kind type for classes, unions, enums, namespaces and closures (a closure is a class type)
  | .Class | .Closure => .fixed .k_class
  | .Union => .fixed .k_union
  | .Enum => .fixed .k_enum
  | .Namespace => .fixed .k_namespace
  -- typename for every compound type
  | .Array | .Decltype | .As_type | .Tor | .Function | .Pointer | .Ptr_to_member | .Product | .Qualified | .Reference
  | .Rvalue_reference | .Sum | .Forall | .Auto => .fixed .k_typename
  -- casts and literals: the target type
  | .Cast | .Const_cast | .Dynamic_cast | .Reinterpret_cast | .Static_cast | .Literal => .target "first"
  -- borrowed from the designated sub-node
  | .Rewrite => .borrowed "target"
  | .Where => .borrowed "main"
  | .Expr_stmt => .borrowed "expr"
  | .Labeled_stmt => .borrowed "stmt"
  | .Goto => .borrowed "target"
  | .While | .Do | .Switch | .For | .For_in | .Handler => .borrowed "body"
  | .Phased_evaluation => .borrowed "expression"
  | .Instantiation => .borrowed "instance"
  | .Alias => .borrowed "initializer"
  | .Id_expr => .idExpr
  | .Symbol => .symbol
  | .Expr_list | .Scope | .Parameter_list => .product
  -- not expressions
  | .NotANode | .Unknown_kind | .Unknown | .Annotation | .Region | .Comment | .String | .Identifier | .Operator | .Suffix
  | .Conversion | .Template_id | .Type_id | .Ctor_name | .Dtor_name | .Guide_name | .Unit | .last_code_cat | .Node | .Name => .notExpr
  -- every other expression kind (and declarations): the type given at construction
  | k => if k.isNode then .given else .notExpr

/-- Does the `type` column of row `r` have the shape rule `t` demands? -/
def conforms (r : Row) : TypeRule → Bool
  | .fixed k => r.typ == some (.const k)
  | .target acc => match r.typ with
    | some (.arg i) => r.src? acc == some (.arg i)
    | _ => false
  | .borrowed acc => match r.typ, r.src? acc with
    | some (.via i .h_type), some (.arg j) => i == j            -- the part is an operand: its type, on demand
    | some .unset, some .unset => true                          -- the part is not set yet: reading the type raises
    | some .unset, some .absent => true                         -- (Instantiation without instance)
    | some t, some .own => r.src? (acc ++ ".type") == some t    -- the part is created with the node: the same source
    | some (.const .k_typename), some (.arg j) => r.sorts.getD j "" == "Type"   -- alias of a type: the type of a type
    | _, _ => false
  | .idExpr => match r.typ with
    | some (.via i .h_type) => r.src? "resolution" == some (.arg i)
    | some (.arg _) => true
    | some .unset => true
    | _ => false
  | .symbol => match r.typ with
    | some (.arg _) => true
    | some (.const .k_void) => true
    | _ => false
  | .given => match r.typ with
    | some (.arg _) => true
    | some .unset => r.sorts.getLast? != some "Type"   -- unset only when no type was passed (a dropped type is not `given`)
    | _ => false
  | .product => r.typ == some .own
  | .notExpr => r.typ == none

def typeColumnOk (T : Table) : Bool := T.all fun r => conforms r (prescribe r.kind)

/-- **T-regen.** The `type` column regenerated from the implementation conforms to the prescription for every factory. -/
theorem C09_type_column : typeColumnOk Ipr.Generated.wiring = true := by decide +kernel

/-- The Lexicon constants: truth values are `bool`, `nullptr` is `decltype(nullptr)`, the deleted-definition constant is
    `void`, the defaulted one `auto`; every constant that is a type has type `typename`. -/
theorem C09_constants : Ipr.Generated.constTypes =
    [(.k_void, .k_typename), (.k_bool, .k_typename), (.k_char, .k_typename), (.k_int, .k_typename), (.k_typename, .k_typename),
     (.k_class, .k_typename), (.k_union, .k_typename), (.k_enum, .k_typename), (.k_namespace, .k_typename), (.k_ellipsis, .k_typename),
     (.k_auto, .k_typename), (.k_false, .k_bool), (.k_true, .k_bool), (.k_nullptr, .k_decltype_nullptr), (.k_default, .k_auto),
     (.k_delete, .k_void), (.k_decltype_nullptr, .k_typename)] := by decide +kernel

/-- All 26 built-in types have type `typename`. -/
theorem C09_builtins : Ipr.Generated.builtinTypes.length = 26 ∧ Ipr.Generated.builtinTypes.all (fun p => p.2 == .k_typename) = true := by
  decide +kernel

/-! ## From the table to every store and every operand vector -/

theorem conforms_of_mem {T : Table} (h : typeColumnOk T = true) {r : Row} (hr : r ∈ T) : conforms r (prescribe r.kind) = true := by
  unfold typeColumnOk at h
  rw [List.all_eq_true] at h
  exact h r hr

/-- the `type` accessor of a node built by row `r` -/
abbrev typeOfMade (T : Table) (fuel : Nat) (s : State) (r : Row) (args : List Val) : Val :=
  read T (make T fuel s r.key args).1 (fuel + 1) (make T fuel s r.key args).2 "type"

theorem src_type (r : Row) : r.src? "type" = r.typ := by simp [Row.src?]

/-- **Kind-fixed types** (void / bool / kind type / typename), for all operands. -/
theorem C09_fixed (T : Table) (h : typeColumnOk T = true) (r : Row) (hr : r ∈ T) (hf : T.find? r.key = some r)
    (k : Konst) (hk : prescribe r.kind = .fixed k) (fuel : Nat) (s : State) (args : List Val) :
    typeOfMade T fuel s r args = .konst k := by
  have hc := conforms_of_mem h hr
  rw [hk] at hc
  have ht : r.typ = some (.const k) := by simpa [conforms] using hc
  have := make_readback T fuel s r.key args r hf "type" (.const k) (by rw [src_type, ht])
  simpa [typeOfMade, interp] using this

/-- break, continue and asm are `void` … -/
theorem C09_void (T : Table) (h : typeColumnOk T = true) (r : Row) (hr : r ∈ T) (hf : T.find? r.key = some r)
    (hk : r.kind = .Break ∨ r.kind = .Continue ∨ r.kind = .Asm) (fuel : Nat) (s : State) (args : List Val) :
    typeOfMade T fuel s r args = .konst .k_void :=
  C09_fixed T h r hr hf .k_void (by rcases hk with hk | hk | hk <;> rw [hk] <;> rfl) fuel s args

/-- … static assertions, requires-expressions and requires-clauses are `bool` … -/
theorem C09_bool (T : Table) (h : typeColumnOk T = true) (r : Row) (hr : r ∈ T) (hf : T.find? r.key = some r)
    (hk : r.kind = .Static_assert ∨ r.kind = .Requires ∨ r.kind = .Restriction) (fuel : Nat) (s : State) (args : List Val) :
    typeOfMade T fuel s r args = .konst .k_bool :=
  C09_fixed T h r hr hf .k_bool (by rcases hk with hk | hk | hk <;> rw [hk] <;> rfl) fuel s args

/-- … classes, closures, unions, enums and namespaces have the type of their kind … -/
theorem C09_kind_type (T : Table) (h : typeColumnOk T = true) (r : Row) (hr : r ∈ T) (hf : T.find? r.key = some r)
    (fuel : Nat) (s : State) (args : List Val) :
    (r.kind = .Class ∨ r.kind = .Closure → typeOfMade T fuel s r args = .konst .k_class) ∧
    (r.kind = .Union → typeOfMade T fuel s r args = .konst .k_union) ∧
    (r.kind = .Enum → typeOfMade T fuel s r args = .konst .k_enum) ∧
    (r.kind = .Namespace → typeOfMade T fuel s r args = .konst .k_namespace) := by
  refine ⟨fun hk => ?_, fun hk => ?_, fun hk => ?_, fun hk => ?_⟩
  · exact C09_fixed T h r hr hf .k_class (by rcases hk with hk | hk <;> rw [hk] <;> rfl) fuel s args
  · exact C09_fixed T h r hr hf .k_union (by rw [hk]; rfl) fuel s args
  · exact C09_fixed T h r hr hf .k_enum (by rw [hk]; rfl) fuel s args
  · exact C09_fixed T h r hr hf .k_namespace (by rw [hk]; rfl) fuel s args

/-- … and every compound type has type `typename`. -/
theorem C09_typename (T : Table) (h : typeColumnOk T = true) (r : Row) (hr : r ∈ T) (hf : T.find? r.key = some r)
    (hk : prescribe r.kind = .fixed .k_typename) (fuel : Nat) (s : State) (args : List Val) :
    typeOfMade T fuel s r args = .konst .k_typename :=
  C09_fixed T h r hr hf .k_typename hk fuel s args

/-- **Casts and literals** report the target type: `type()` is the very operand read under `first()`. -/
theorem C09_target (T : Table) (h : typeColumnOk T = true) (r : Row) (hr : r ∈ T) (hf : T.find? r.key = some r)
    (acc : String) (hk : prescribe r.kind = .target acc) (fuel : Nat) (s : State) (args : List Val) :
    ∃ i, r.typ = some (.arg i) ∧ r.src? acc = some (.arg i) ∧
      typeOfMade T fuel s r args = args.getD i .error ∧
      typeOfMade T fuel s r args = read T (make T fuel s r.key args).1 (fuel + 1) (make T fuel s r.key args).2 acc := by
  have hc := conforms_of_mem h hr
  rw [hk] at hc
  cases ht : r.typ with
  | none => simp [conforms, ht] at hc
  | some t =>
    cases t with
    | arg i =>
      have ha : r.src? acc = some (.arg i) := by simpa [conforms, ht] using hc
      have h1 := make_readback T fuel s r.key args r hf "type" (.arg i) (by rw [src_type, ht])
      have h2 := make_readback T fuel s r.key args r hf acc (.arg i) ha
      refine ⟨i, rfl, ha, ?_, ?_⟩
      · simpa [typeOfMade, interp] using h1
      · simp only [typeOfMade, h1, h2, interp]
    | _ => simp [conforms, ht] at hc

/-- **Borrowed types** (rewrite, where, expression / labeled / goto statements, loops, handlers, phased evaluation,
    instantiations, aliases): when the designated part is the operand `j`, `type()` is that operand's `type()`, read on
    demand from the current store. -/
theorem C09_borrowed (T : Table) (r : Row) (hf : T.find? r.key = some r) (i : Nat) (ht : r.typ = some (.via i .h_type))
    (fuel : Nat) (s : State) (args : List Val) (j : Nat) (hj : args.getD i .error = .node j) :
    typeOfMade T fuel s r args = read T (make T fuel s r.key args).1 fuel j "type" := by
  have := make_readback T fuel s r.key args r hf "type" (.via i .h_type) (by rw [src_type, ht])
  simp only [typeOfMade, this, interp, hj, Hop.name]

/-- For the borrowed kinds the designated part of the regenerated table is exactly the operand the type is taken from
    (or the part is still unset / absent and reading the type raises, or it is created with the node and shares its source). -/
theorem C09_borrowed_designated (T : Table) (h : typeColumnOk T = true) (r : Row) (hr : r ∈ T)
    (acc : String) (hk : prescribe r.kind = .borrowed acc) (i : Nat) (ht : r.typ = some (.via i .h_type)) :
    r.src? acc = some (.arg i) ∨ (r.src? acc = some .own ∧ r.src? (acc ++ ".type") = some (.via i .h_type)) := by
  have hc := conforms_of_mem h hr
  rw [hk] at hc
  cases hs : r.src? acc with
  | none => simp [conforms, ht, hs] at hc
  | some x =>
    cases x with
    | arg j =>
      have : i = j := by simpa [conforms, ht, hs] using hc
      subst this; exact Or.inl rfl
    | own => exact Or.inr ⟨rfl, by simpa [conforms, ht, hs] using hc⟩
    | _ => simp [conforms, ht, hs] at hc

/-- While the designated part is unset, `type()` raises a logic error (shared with C14). -/
theorem C09_unset_raises (T : Table) (r : Row) (hf : T.find? r.key = some r) (ht : r.typ = some .unset)
    (fuel : Nat) (s : State) (args : List Val) : typeOfMade T fuel s r args = .error := by
  have := make_readback T fuel s r.key args r hf "type" .unset (by rw [src_type, ht])
  simpa [typeOfMade, interp] using this

/-- **Id-expression of a declaration**: that declaration's type (and name), and the declaration is the resolution. -/
theorem C09_id_expr_decl (T : Table) (h : typeColumnOk T = true) (r : Row) (hr : r ∈ T) (hf : T.find? r.key = some r)
    (hk : r.kind = .Id_expr) (i : Nat) (ht : r.typ = some (.via i .h_type))
    (fuel : Nat) (s : State) (args : List Val) (d : Nat) (hd : args.getD i .error = .node d) :
    typeOfMade T fuel s r args = read T (make T fuel s r.key args).1 fuel d "type" ∧
    read T (make T fuel s r.key args).1 (fuel + 1) (make T fuel s r.key args).2 "resolution" = .node d := by
  have hc := conforms_of_mem h hr
  rw [hk] at hc
  have hres : r.src? "resolution" = some (.arg i) := by
    simpa [prescribe, conforms, ht] using hc
  refine ⟨C09_borrowed T r hf i ht fuel s args d hd, ?_⟩
  rw [make_readback T fuel s r.key args r hf "resolution" (.arg i) hres]
  simpa [interp] using hd

/-- **Given types** are reported exactly. -/
theorem C09_given (T : Table) (r : Row) (hf : T.find? r.key = some r) (i : Nat) (ht : r.typ = some (.arg i))
    (fuel : Nat) (s : State) (args : List Val) : typeOfMade T fuel s r args = args.getD i .error := by
  have := make_readback T fuel s r.key args r hf "type" (.arg i) (by rw [src_type, ht])
  simpa [typeOfMade, interp] using this

/-! ## Operand forms and builder calls: the type does not depend on how an operand was built, nor on later client actions -/

/-- The prescription is met by a base row of the documented table exactly when it is met by each of its operand forms
    (`#nested`, `#resolved-operand`, `#reserved-spelling`, `#list-filled-later`): they have the same type column, accessors and sorts. -/
theorem C09_operand_forms_conform (r f : Row) (hf : f ∈ Spec.operandForms r) (hw : "word_view" ∉ r.sorts) (t : TypeRule) :
    conforms f t = conforms r t := by
  obtain ⟨_, _, _, hs, ht, ha⟩ := Spec.operandForms_same r f hf hw
  cases t <;> simp [conforms, Row.src?, hs, ht, ha]

/-- A reserved spelling (`nullptr`, `true`, `int` …), however it is passed, leaves the type column alone: a literal spelled
    `nullptr` and given the type `int*` has the type `int*`. -/
theorem C09_reserved_spelling_keeps_type (r : Row) : (Spec.reservedForm r).typ = r.typ := by
  unfold Spec.reservedForm
  split <;> rfl

/-- **The type is independent of the operand form.**  For every table holding an operand-form row `f` of a base row `r`, every store
    and every operand vector -- a rewrite whose target is itself a rewrite, a qualified name whose member is an id-expression with a
    resolution, a call whose argument list is still empty -- `type()` of the node made through `f` is what the type column of the
    BASE row says, interpreted on the operands of this call. -/
theorem C09_type_independent_of_operand_form (T : Table) (r f : Row) (hf : f ∈ Spec.operandForms r) (hw : "word_view" ∉ r.sorts)
    (hfind : T.find? f.key = some f) (src : Src) (ht : r.typ = some src) (fuel : Nat) (s : State) (args : List Val) :
    typeOfMade T fuel s f args
      = interp (read T (make T fuel s f.key args).1 fuel) (make T fuel s f.key args).2 "type" args src := by
  obtain ⟨_, _, _, _, ht', _⟩ := Spec.operandForms_same r f hf hw
  exact make_readback T fuel s f.key args f hfind "type" src (by rw [src_type, ht', ht])

/-- In particular a type GIVEN to the factory is reported exactly, whatever the form of the other operands … -/
theorem C09_given_whatever_the_operands (T : Table) (r f : Row) (hf : f ∈ Spec.operandForms r) (hw : "word_view" ∉ r.sorts)
    (hfind : T.find? f.key = some f) (i : Nat) (ht : r.typ = some (.arg i)) (fuel : Nat) (s : State) (args : List Val) :
    typeOfMade T fuel s f args = args.getD i .error := by
  rw [C09_type_independent_of_operand_form T r f hf hw hfind (.arg i) ht]; rfl

/-- … and a borrowed type is the type of the designated operand, also when that operand was built by the same factory. -/
theorem C09_borrowed_whatever_the_operands (T : Table) (r f : Row) (hf : f ∈ Spec.operandForms r) (hw : "word_view" ∉ r.sorts)
    (hfind : T.find? f.key = some f) (i : Nat) (ht : r.typ = some (.via i .h_type)) (fuel : Nat) (s : State) (args : List Val)
    (j : Nat) (hj : args.getD i .error = .node j) :
    typeOfMade T fuel s f args = read T (make T fuel s f.key args).1 fuel j "type" := by
  rw [C09_type_independent_of_operand_form T r f hf hw hfind (.via i .h_type) ht]
  simp only [interp, hj, Hop.name]

/-- **A type assigned later is the type from then on** (`typing = t` on a node made without a type, or assigned again with another
    value: the latest assignment wins), whatever the factory had recorded. -/
theorem C09_typing_assigned_later (T : Table) (s : State) (id : Nat) (t₁ t₂ : Val) (fuel : Nat) (h : id < s.nodes.length) :
    read T (Spec.setLink s id "type" t₁) (fuel + 1) id "type" = t₁ ∧
    read T (Spec.setLink (Spec.setLink s id "type" t₁) id "type" t₂) (fuel + 1) id "type" = t₂ :=
  ⟨Spec.read_setLink_self T s id "type" t₁ fuel h,
   Spec.read_setLink_self T (Spec.setLink s id "type" t₁) id "type" t₂ fuel (by simpa [Spec.setLink] using h)⟩

/-! ## Typed sequences -/

/-- **typed_sequence.**  For every history of additions (to any sequence) interleaved with arbitrary factory calls, and
    after EVERY PREFIX of it: the type of sequence `q` has one element per current member, and it is that member's
    `type()` in the current store, in order; the members are the initial ones followed by the additions to `q`. -/
theorem C09_typed_sequence (T : Table) (fuel : Nat) (s : State) (q : Nat) (hq : q < s.nodes.length)
    (history pref : List Op) (_hp : pref <+: history) :
    typeElems T (runOps T fuel s pref) fuel q
      = (membersOf s q ++ addedTo q pref).map (fun m => read T (runOps T fuel s pref) fuel m "type") := by
  unfold typeElems
  rw [membersOf_runOps T fuel q pref s hq]

/-- Its size follows the members. -/
theorem C09_typed_sequence_size (T : Table) (fuel : Nat) (s : State) (q : Nat) (hq : q < s.nodes.length) (ops : List Op) :
    (typeElems T (runOps T fuel s ops) fuel q).length = (membersOf s q).length + (addedTo q ops).length := by
  rw [C09_typed_sequence T fuel s q hq ops ops (List.prefix_refl _)]
  simp

/-- An addition to a sequence changes no accessor of any node (in particular no member's type): the product only grows. -/
theorem C09_addition_frame (T : Table) (s : State) (q m : Nat) (fuel id : Nat) (a : String) :
    read T (addMember s q m) fuel id a = read T s fuel id a := read_addMember T s q m fuel id a

theorem C09_typed_sequence_step (T : Table) (s : State) (q m : Nat) (fuel : Nat) (hq : q < s.nodes.length) :
    typeElems T (addMember s q m) fuel q = typeElems T s fuel q ++ [read T s fuel m "type"] := by
  unfold typeElems
  rw [membersOf_addMember]
  simp [hq, read_addMember]

/-! ## Near-equal requests, repeated keys, filled sequences -/

/-- **Near-equal requests report their own types.**  A type GIVEN is reported exactly by each of two requests that differ only in that
    type -- `(int, "42")` and `(const int, "42")`, two function declarations of one name whose types differ only in the exception
    specification -- in either order: the one made first (`args'`) and the one made after it in the store the first left behind. -/
theorem C09_near_equal_types_are_own (T : Table) (r : Row) (hf : T.find? r.key = some r) (i : Nat) (ht : r.typ = some (.arg i))
    (fuel : Nat) (s : State) (args args' : List Val) :
    typeOfMade T fuel s r args' = args'.getD i .error ∧
    typeOfMade T fuel (make T fuel s r.key args').1 r args = args.getD i .error :=
  ⟨C09_given T r hf i ht fuel s args', C09_given T r hf i ht fuel (make T fuel s r.key args').1 args⟩

/-- The `#near-equal` form of a documented row has the type column of the base row. -/
theorem C09_near_equal_form_keeps_type (r : Row) : (Spec.form r "#near-equal").typ = r.typ := rfl

/-- **A later addition never merges with an earlier member.**  Two additions to sequence `q` -- of members with the same type (and
    name), of the very same member twice, of anything -- leave a sequence with two more members, the new ones LAST and in the order
    of the additions, and the type of the sequence gains exactly their two types as its last components. -/
theorem C09_addition_never_merges (T : Table) (s : State) (q m₁ m₂ : Nat) (fuel : Nat) (hq : q < s.nodes.length) :
    membersOf (addMember (addMember s q m₁) q m₂) q = membersOf s q ++ [m₁, m₂] ∧
    typeElems T (addMember (addMember s q m₁) q m₂) fuel q = typeElems T s fuel q ++ [read T s fuel m₁ "type", read T s fuel m₂ "type"] := by
  have hq' : q < (addMember s q m₁).nodes.length := by rw [addMember_length]; exact hq
  constructor
  · rw [membersOf_addMember, membersOf_addMember]
    simp [hq, hq']
  · rw [C09_typed_sequence_step T (addMember s q m₁) q m₂ fuel hq', C09_typed_sequence_step T s q m₁ fuel hq, read_addMember]
    simp

/-- … so the size grows by one per addition and the member added k-th from now sits at index `old size + k`: positions are indices. -/
theorem C09_addition_position (T : Table) (s : State) (q m : Nat) (hq : q < s.nodes.length) :
    (membersOf (addMember s q m) q).length = (membersOf s q).length + 1 ∧
    (membersOf (addMember s q m) q)[(membersOf s q).length]? = some m := by
  have _ := T
  rw [membersOf_addMember]
  simp [hq]

/-- The documented row of a member added after one whose key it repeats has the type column of the base row: the type given to THIS
    addition; the row of a result whose member sequences were filled has the type column of the base row. -/
theorem C09_later_member_keeps_given_type (r : Row) (sfx : String) (extra : List String) (name : Option Src) :
    (Spec.secondMember r sfx extra name).typ = r.typ ∧ (Spec.filledForm r).typ = r.typ := ⟨rfl, rfl⟩

/-! Non-vacuity, and the contrast with an eager product. -/
section examples
def T0 : Table := [{ key := "mk", kind := .Phantom, cat := .Phantom, storage := .generative, sorts := ["Type"], typ := some (.arg 0), acc := [] }]
def s0 : State := { nodes := [{ key := "" }, { key := "" }, { key := "" }] }         -- 0: a sequence, 1 and 2: two types
def hist : List Op := [.mk "mk" [.node 1], .add 0 3, .mk "mk" [.node 2], .add 0 4, .add 0 3]
example : typeElems T0 (runOps T0 2 s0 hist) 2 0 = [.node 1, .node 2, .node 1] := by decide +kernel
example : typeElems T0 (runOps T0 2 s0 (hist.take 2)) 2 0 = [.node 1] := by decide +kernel
/-- an eager product (frozen at creation) would not track the members: the law is not trivially true -/
example : eagerTypeElems T0 s0 2 0 ≠ typeElems T0 (runOps T0 2 s0 hist) 2 0 := by decide +kernel
example : prescribe .Cast = .target "first" ∧ prescribe .Break = .fixed .k_void ∧ prescribe .Plus = .given ∧ prescribe .Token = .notExpr := by
  decide +kernel
end examples

end Ipr.Graph
