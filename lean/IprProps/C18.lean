import IprProofs.PrinterMono
import IprProofs.PrinterGood
import IprProofs.PrinterIndent
import IprProofs.PrinterFuel
import IprProofs.PrinterExamples
/-!
# C18 — printing terminates and leaves the stream and the printer as it found them

Same model as C17 (`IprModel/Printer.lean`).  Fuel counts nested `accept`s (C++ stack frames).
-/
namespace Ipr.Printer

/-- **Bounded recursion.** On a heap whose stored addresses decrease a rank — except that a built-in type is its own
    `expr()` — offering any node through any visitor entry with fuel `8·(rank + 1)` never runs out of fuel: the outcome is
    text or `std::logic_error`.  (`rank ≤ number of reachable nodes`, so the bound is linear in the reachable size.)
    The measure is (rank of the node, `selfRank` of the visitor on that node's category); `table_decreases` checks by kernel
    evaluation over the whole table that every re-dispatch on the same node lowers `selfRank` — a fallback that re-enters on
    the same node with the same visitor (F13, F15) makes that check fail. -/
theorem C18_fuel {h : Heap} {rank : Addr → Nat} (hr : Ranked h rank) (o : Opts) (n : Nat) (e : Entry) (a : Addr) (st : PState)
    (hn : 8 * (rank a + 1) ≤ n) :
    (dispatch h o n e a st).status = .ok ∨ (dispatch h o n e a st).status = .logic := by
  have := dispatch_noFuel' hr o n e a st hn
  cases hs : (dispatch h o n e a st).status <;> simp_all

/-- The same for the four public routes. -/
theorem C18_fuel_print {h : Heap} {rank : Addr → Nat} (hr : Ranked h rank) (o : Opts) (n : Nat) (route : Route) (root : Addr)
    (fmt : Fmt) (hn : 8 * (rank root + 1) ≤ n) : (print h o n route root fmt).status ≠ .fuel :=
  dispatch_noFuel' hr o n route.entry root _ hn

/-- **The fuel is not observable.**  A print that ends without exhausting its fuel gives the very same result — text,
    printer state, outcome — with every larger amount of fuel: the fuel argument only makes the model total. -/
theorem C18_fuel_irrelevant (h : Heap) (o : Opts) (n m : Nat) (hnm : n ≤ m) (route : Route) (root : Addr) (fmt : Fmt)
    (hne : (print h o n route root fmt).status ≠ .fuel) : print h o m route root fmt = print h o n route root fmt :=
  dispatch_stable o n m hnm route.entry root _ hne

/-- Hence on an acyclic graph any two sufficient amounts of fuel print alike: *the* printed text of a node is well defined. -/
theorem C18_print_well_defined {h : Heap} {rank : Addr → Nat} (hr : Ranked h rank) (o : Opts) (n m : Nat) (route : Route)
    (root : Addr) (fmt : Fmt) (hn : 8 * (rank root + 1) ≤ n) (hm : 8 * (rank root + 1) ≤ m) :
    print h o n route root fmt = print h o m route root fmt := by
  have h0 := C18_fuel_print hr o (8 * (rank root + 1)) route root fmt (Nat.le_refl _)
  rw [C18_fuel_irrelevant h o _ n hn route root fmt h0, C18_fuel_irrelevant h o _ m hm route root fmt h0]

/-- The fuel the model driver hands out — `8·(number of nodes + 1)` — suffices whenever the rank is bounded by the number of
    nodes (the longest operand path of a finite acyclic graph is). -/
theorem C18_fuel_bounded {h : Heap} {rank : Addr → Nat} (hr : Ranked h rank) (nodes : Nat) (hN : ∀ a, rank a ≤ nodes) (o : Opts)
    (route : Route) (root : Addr) (fmt : Fmt) : (print h o (8 * (nodes + 1)) route root fmt).status ≠ .fuel :=
  dispatch_noFuel' hr o _ route.entry root _ (Nat.mul_le_mul_left 8 (Nat.succ_le_succ (hN root)))

/-- **Stream state.** Whatever is printed and however it ends, `basefield` and the fill character are what they were, and
    `width` is what it was or has been reset by an insertion (as any formatted insertion does). -/
theorem C18_stream_state (h : Heap) (o : Opts) (n : Nat) (e : Entry) (a : Addr) (st : PState) :
    let st' := (dispatch h o n e a st).st
    st'.fmt.base = st.fmt.base ∧ st'.fmt.fill = st.fmt.fill ∧ (st'.fmt.width = st.fmt.width ∨ st'.fmt.width = 0) := by
  obtain ⟨hb, hf, hw, _⟩ := dispatch_good h o n e a st
  exact ⟨hb, hf, hw⟩

/-- **Every number in the base the stream had at entry** (decimal for a stream in its default state): each number chunk of
    the output — file, line, column — consists of the digits of that number in the entry base; and a number inserted after the
    print (`pp << Decl_position{n}`, `pp << Mapping_level{n}`) is rendered in that same base. -/
theorem C18_decimal (h : Heap) (o : Opts) (fuel : Nat) (root : Addr) (k : Nat) (fmt : Fmt) :
    (∀ c ∈ (printThenNumber h o fuel root k fmt).st.out, ∀ m, c.tag = .num m → c.bytes = renderNat fmt.base m) ∧
    ((print h o fuel .expr root fmt).status = .ok →
      (printThenNumber h o fuel root k fmt).st.out = ⟨.num k, false, renderNat fmt.base k⟩ :: (print h o fuel .expr root fmt).st.out) := by
  obtain ⟨hb, _, _, new, hout, hgood⟩ := dispatch_good h o fuel xexpr root (PState.fresh fmt)
  have hnew : ∀ c ∈ new, ∀ m, c.tag = .num m → c.bytes = renderNat fmt.base m := by
    intro c hc m hm
    have := (hgood c hc).2
    rw [hm] at this
    exact this
  have hout' : (print h o fuel .expr root fmt).st.out = new := by simpa [print, PState.fresh, Route.entry] using hout
  have hb' : (print h o fuel .expr root fmt).st.fmt.base = fmt.base := hb
  unfold printThenNumber Res.bind
  constructor
  · split
    · intro c hc m hm
      simp only [PState.num, PState.emit, List.mem_cons] at hc
      rcases hc with rfl | hc
      · simp only [Tag.num.injEq] at hm; subst hm; simp [hb']
      · exact hnew c (hout' ▸ hc) m hm
    · intro c hc; exact hnew c (hout' ▸ hc)
  · intro hok
    simp only [hok, PState.num, PState.emit, hb']

/-- **Output alphabet.** From a fresh printer on a stream whose base is 8, 10 or 16, every byte written is a newline, a
    printable ASCII character (fixed tokens, digits, indentation and padding blanks) or a byte of a spelling stored in the
    graph; in particular no NUL and no control character unless a spelling contains it.  (The string literals of the whole
    production table are checked by kernel evaluation: `table_litOK`.) -/
theorem C18_alphabet (h : Heap) (o : Opts) (fuel : Nat) (route : Route) (root : Addr) (fmt : Fmt) (hb : 0 < fmt.base)
    (hb16 : fmt.base ≤ 16) : ∀ b ∈ (print h o fuel route root fmt).st.text, b = 10 ∨ printable b = true ∨ GraphByte h b := by
  obtain ⟨_, _, _, new, hout, hgood⟩ := dispatch_good h o fuel route.entry root (PState.fresh fmt)
  have hout' : (print h o fuel route root fmt).st.out = new := by simpa [print, PState.fresh] using hout
  intro b hbm
  obtain ⟨c, hc, hbc⟩ := mem_text.mp hbm
  exact good_bytes hb hb16 (hgood c (hout' ▸ hc)) b hbc

/-- **Indentation.** Every print that completes — any node through any entry, from any printer state — leaves
    `Printer::indent()` where it was; in particular after each complete top-level declaration or statement.  (The net
    indentation of every production is checked by kernel evaluation over the whole table: `table_balanced`.) -/
theorem C18_indent (h : Heap) (o : Opts) (n : Nat) (e : Entry) (a : Addr) (st : PState)
    (hk : (dispatch h o n e a st).status = .ok) : (dispatch h o n e a st).st.indent = st.indent :=
  dispatch_indent o n e a st hk

/-- **The hypothesis of `C18_fuel` is needed, and the model shares the code's behaviour outside it.** For the class whose base type
    is a `Forall` with that class as target (`S : class = c`, `c : base forall<>(c)`; `cyclicClassHeap`) no rank exists, and the
    model exhausts every amount of fuel on `xpr_decl` of the type declaration, on the unit and on `xpr_type` of the `Forall` —
    it never yields text or `logic_error`.  The real printer overflows its stack on the same graph (recorded as the known
    finding `cycle:unnamed-class-self-base`). -/
theorem C18_cyclic_class_outside_hypothesis :
    (¬ ∃ rank : Addr → Nat, Ranked (heapOf cyclicClassHeap) rank) ∧
    ∀ (o : Opts) (fuel : Nat) (fmt : Fmt),
      (print (heapOf cyclicClassHeap) o fuel .decl 0 fmt).status = .fuel ∧
      (print (heapOf cyclicClassHeap) o fuel .declsemi 0 fmt).status = .fuel ∧
      (print (heapOf cyclicClassHeap) o fuel .type 7 fmt).status = .fuel ∧
      (print (heapOf cyclicClassHeap) o fuel .expr 9 fmt).status = .fuel := by
  refine ⟨?_, cyclicClass_exhausts⟩
  rintro ⟨rank, hr⟩
  have h46 := hr 4 6 (by decide +kernel)
  have h67 := hr 6 7 (by decide +kernel)
  have h74 := hr 7 4 (by decide +kernel)
  have e46 : ¬ (6 = 4 ∧ Loop (heapOf cyclicClassHeap) 4) := by simp
  have e67 : ¬ (7 = 6 ∧ Loop (heapOf cyclicClassHeap) 6) := by simp
  have e74 : ¬ (4 = 7 ∧ Loop (heapOf cyclicClassHeap) 7) := by simp
  have a := h46.resolve_right e46
  have b := h67.resolve_right e67
  have c := h74.resolve_right e74
  omega

/-! ## Non-vacuity -/

/-- The sample heap (which contains a built-in type that is its own operand) is ranked by its addresses … -/
example : Ranked (heapOf sampleHeap) id := rankedCheck_sound (by decide +kernel)

/-- … so 8·(9+1) units of fuel suffice for its root; the print completes and restores the indentation. -/
example : (print (heapOf sampleHeap) noLoc 80 .stmt 9).status = .ok := by decide +kernel
example : (print (heapOf sampleHeap) noLoc 80 .stmt 9).st.indent = 0 := by decide +kernel

/-- A node without a production yields `logic_error`, not exhaustion (Promotion through `xpr_expr`: "(" then the strict visit). -/
example : (print (heapOf [{ cat := .Promotion }]) noLoc 16 .expr 0).status = .logic := by decide +kernel
example : (print (heapOf [{ cat := .Promotion }]) noLoc 16 .expr 0).st.text = strBytes "(" := by decide +kernel

/-- Too little fuel is reported as such (the hypothesis of `C18_fuel` is not vacuous). -/
example : (print (heapOf sampleHeap) noLoc 3 .stmt 9).status = .fuel := by decide +kernel

/-- A heap with a cycle along printed operands (a `Plus` that is its own operand) has no rank — and exhausts any fuel. -/
example : (print (heapOf [{ cat := .Plus, ops := [some 0, some 0] }]) noLoc 50 .expr 0).status = .fuel := by decide +kernel

/-- Decimal digits; a literal with control characters followed by a position stays decimal (the input of defect F11). -/
example : renderNat 10 64 = strBytes "64" := by decide +kernel
example : renderNat 8 64 = strBytes "100" := by decide +kernel
example : (printThenNumber (heapOf [{ cat := .Literal, str := [97, 1, 98] }]) noLoc 16 0 64).st.text = strBytes "a\\01b64" := by
  decide +kernel

/-- An enclosure without delimiters writes its operand only (the input of defect F12). -/
example : (print (heapOf [{ cat := .Enclosure, ops := [some 1], delim := 0 }, { cat := .Literal, str := [55] }]) noLoc 16 .expr 0).st.text = [55] := by
  decide +kernel

end Ipr.Printer
