import IprModel.Derived
import IprProofs.Derived
/-!
# C15 — derived interface operations agree with the primitives they are defined from

`st` ranges over ALL stores (every state of every history is one of them); where the statement is about a history
(handlers / members added one after the other, interning requests) it is an induction over all lists of actions.
The code-shaped definitions (`Udt.scope`, `Block.tryBlock`, `SeqV.iterate`, `Lex.valEq` …) are the ones the model driver
executes next to the real header.
-/
namespace Ipr.Derived

/-! ## Forwards: the composition the header writes is the path of primitives of the specification -/

theorem C15_udt_scope (st : St) (n : Nat) : Udt.scope st n = spec.scope st n := rfl
theorem C15_udt_members (st : St) (n : Nat) : Udt.members st n = spec.members st n := rfl
theorem C15_block_body (st : St) (n : Nat) : Block.body st n = spec.body st n := rfl
theorem C15_template_parameters (st : St) (n : Nat) : Template.parameters st n = spec.parameters st n := rfl
theorem C15_template_result (st : St) (n : Nat) : Template.result st n = spec.result st n := rfl
theorem C15_template_initializer (st : St) (n : Nat) : Template.initializer st n = spec.result st n := rfl
theorem C15_default_value (st : St) (n : Nat) : Parameter.defaultValue st n = spec.defaultValue st n := rfl
theorem C15_lexical_region (st : St) (n : Nat) : Decl.lexicalRegion st n = spec.lexicalRegion st n := rfl
theorem C15_base_type_name (st : St) (n : Nat) : BaseType.name st n = spec.baseName st n := rfl
theorem C15_eh_parameter_initializer (st : St) (n : Nat) : EHParameter.initializer st n = .none := rfl

/-- `Type::linkage()` is the linkage component of the node's transfer, whatever the transfer. -/
theorem C15_type_linkage (st : St) (n : Nat) : Type.linkage st n = spec.linkage st n := by
  unfold Type.linkage spec.linkage Transfer.linkage Transfer.first
  cases st.prim n "transfer" <;> rfl

/-- `Transfer::linkage()/convention()` are the two components. -/
theorem C15_transfer_components (l c : Nat) :
    Transfer.linkage (.val (.transfer l c)) = .val (.linkage l) ∧ Transfer.convention (.val (.transfer l c)) = .val (.cc c) := ⟨rfl, rfl⟩

/-- Every `type()` that forwards to an operand: the type of the node that operand accessor returns; a missing operand
    (unset link, empty Optional) is a logic error, never another node's type. -/
theorem C15_type_forward (st : St) (n : Nat) (via : String) :
    typeForward st n via = match st.prim n via with
      | .ref (.node m) => st.prim m "type"
      | _ => .err := by
  unfold typeForward Val.get St.at
  cases st.prim n via <;> rfl

/-- `Fundecl::parameters()/initializer()` with and without a mapping. -/
theorem C15_fundecl (st : St) (n : Nat) :
    Fundecl.initializer st n = st.prim n "mapping" ∧
    (∀ m, st.prim n "mapping" = .ref (.node m) → Fundecl.parameters st n = st.prim m "parameters") ∧
    (st.prim n "mapping" = .none → Fundecl.parameters st n = .err) := by
  refine ⟨rfl, ?_, ?_⟩
  · intro m h; simp [Fundecl.parameters, h, St.at]
  · intro h; simp [Fundecl.parameters, h]

/-! ## Named aliases of operand / first / second / third -/

/-- An alias evaluates to the primitive the specification table names, on every node of every store. -/
theorem C15_alias (st : St) (n : Nat) (kind a p : String) (h : (aliasesOf kind).lookup a = some p) :
    aliasVal st n kind a = st.prim n p := by
  simp [aliasVal, h]

/-- The table is a function: one row per kind, one primitive per alias, and only the positional primitives occur. -/
theorem C15_alias_table_wellformed :
    (aliasTable.map (·.1)).Nodup ∧
    (∀ row ∈ aliasTable, (row.2.map (·.1)).Nodup ∧ ∀ ap ∈ row.2, ap.2 ∈ ["operand", "first", "second", "third"]) := by
  decide +kernel

/-! ## Containers: size, indexing, begin / end / iteration -/

theorem C15_container_size (st : St) (n : Nat) (elements : String) : Container.size st n elements = spec.size st n elements := by
  unfold Container.size spec.size Val.size
  cases st.prim n elements <;> rfl

/-- `Product::operator[]` / `Sum::operator[]`: the i-th member, a logic error exactly when `i ≥ size`. -/
theorem C15_product_index (st : St) (n i : Nat) : Product.index st n i = spec.index st n i := by
  unfold Product.index spec.index Val.toSeq
  cases st.prim n "operand" <;> rfl

theorem C15_product_index_in_range (st : St) (n i : Nat) (nm : String) (es : List Ref) (h : st.prim n "operand" = .seq nm es) :
    (i < es.length → ∃ r, es[i]? = some r ∧ Product.index st n i = .ref r) ∧ (es.length ≤ i → Product.index st n i = .err) := by
  rw [C15_product_index]; unfold spec.index; rw [h]
  constructor
  · intro hi; exact ⟨es[i], by simp [hi], by simp [hi]⟩
  · intro hi; simp [hi]

/-- ancillary:154: `empty()` exactly when `size() = 0`, for every member list. -/
theorem C15_seq_empty_iff (s : SeqV) : s.empty = true ↔ s.size = 0 := by
  simp [SeqV.empty]

/-- Forward traversal `begin() .. end()` visits exactly the members, in order: `size()` steps, the i-th being `get(i)`. -/
theorem C15_seq_iterate (s : SeqV) : s.iterate = s.elems.map some := by
  unfold SeqV.iterate SeqV.begin
  rw [SeqV.walk_from s _ 0 (Nat.zero_le _) (by omega)]; rfl

theorem C15_seq_iterate_length (s : SeqV) : s.iterate.length = s.size := by
  rw [C15_seq_iterate]; simp [SeqV.size]

theorem C15_seq_iterate_get (s : SeqV) (i : Nat) (h : i < s.size) : s.iterate[i]? = some (s.get i) := by
  rw [C15_seq_iterate]
  have h' : i < s.elems.length := h
  simp [SeqV.get, h']

/-- The cut the drivers apply to a runaway walk is never reached: any larger bound gives the same traversal. -/
theorem C15_seq_walk_fuel (s : SeqV) (fuel : Nat) (h : s.size < fuel) : s.walk fuel s.begin = s.elems.map some := by
  unfold SeqV.begin
  rw [SeqV.walk_from s _ 0 (Nat.zero_le _) (by omega)]; rfl

/-- Backward traversal `end() .. begin()` with `--` visits the members in reverse order. -/
theorem C15_seq_riterate (s : SeqV) : s.riterate = s.elems.reverse.map some := by
  unfold SeqV.riterate SeqV.end_
  rw [SeqV.rwalk_from s _ s.size (Nat.le_refl _) (by omega)]
  simp [SeqV.size]

/-- `*position(i)` is `get(i)`; `begin()` is `position(0)`, `end()` is `position(size())`. -/
theorem C15_seq_position (s : SeqV) (i : Nat) :
    s.deref (s.position i) = s.get i ∧ s.begin = s.position 0 ∧ s.end_ = s.position s.size := ⟨rfl, rfl, rfl⟩

/-- `begin() == end()` exactly for an empty sequence. -/
theorem C15_seq_begin_eq_end_iff (s : SeqV) : s.begin.eq s.end_ = true ↔ s.size = 0 := by
  simp [Iter.eq, SeqV.begin, SeqV.end_]; omega

/-- Iterator `==` is equality of (sequence, index); `!=` its negation. -/
theorem C15_iter_eq_iff (a b : Iter) : (a.eq b = true ↔ a = b) ∧ a.ne b = !(a.eq b) := ⟨Iter.eq_iff a b, rfl⟩

/-- `begin()/end()/`iteration of Scope and Parameter_list are those of `elements()`. -/
theorem C15_container_iteration (st : St) (n : Nat) (nm : String) (es : List Ref) (h : st.prim n "elements" = .seq nm es) :
    Container.begin st n = some ⟨nm, 0⟩ ∧ Container.end_ st n = some ⟨nm, es.length⟩ ∧
    Container.iterate st n = some (es.map some) := by
  simp [Container.begin, Container.end_, Container.iterate, h, Val.toSeq, SeqV.begin, SeqV.end_, SeqV.size, C15_seq_iterate]

/-! ## Block::try_block -/

/-- In every state: `try_block()` is defined from `handlers()` as the specification says. -/
theorem C15_try_block (st : St) (n : Nat) : Block.tryBlock st n = spec.tryBlock st n := by
  unfold Block.tryBlock spec.tryBlock Val.size
  cases st.prim n "handlers" <;> try rfl
  rename_i nm es; cases es <;> rfl

/-- … true exactly when the block has handlers, for every list of handlers. -/
theorem C15_try_block_iff (st : St) (n : Nat) (nm : String) (hs : List Ref) (h : st.prim n "handlers" = .seq nm hs) :
    (Block.tryBlock st n = .num 1 ↔ hs ≠ []) ∧ (Block.tryBlock st n = .num 0 ↔ hs = []) := by
  rw [C15_try_block]; unfold spec.tryBlock; rw [h]
  cases hs <;> simp

/-! ## Histories -/

/-- A Sequence a node owns holds, after ANY list of actions (allocations, appends to any sequence, resets of any link,
    interning …), its former members followed by exactly the members appended to it, in order. -/
theorem C15_sequence_history (st : St) (n : Nat) (f nm : String) (es : List Ref) (h : st.prim n f = .seq nm es) (acts : List Act) :
    (st.run acts).prim n f = .seq nm (es ++ pushesTo n f acts) := by
  rw [St.prim_seq_iff] at h ⊢
  exact ⟨h.1, St.hasSeq_run acts st n f es h.2⟩

/-- A block created without handlers is a try-block, after any history, exactly when some handler was added to it. -/
theorem C15_try_block_history (st : St) (b : Nat) (nm : String) (h : st.prim b "handlers" = .seq nm []) (acts : List Act) :
    Block.tryBlock (st.run acts) b = boolVal (pushesTo b "handlers" acts != []) := by
  have := C15_sequence_history st b "handlers" nm [] h acts
  rw [C15_try_block]; unfold spec.tryBlock; rw [this]
  cases pushesTo b "handlers" acts <;> rfl

/-- `size()` after any history: the former size plus the number of members appended. -/
theorem C15_size_history (st : St) (n : Nat) (f nm : String) (es : List Ref) (h : st.prim n f = .seq nm es) (acts : List Act) :
    Container.size (st.run acts) n f = .num (es.length + (pushesTo n f acts).length) := by
  rw [C15_container_size]; unfold spec.size
  rw [C15_sequence_history st n f nm es h acts]; simp

/-! ## Optional -/

theorem C15_optional (o : Opt) :
    (o.isValid = true ↔ o.ptr ≠ none) ∧ o.toBool = o.isValid ∧ (∀ r, o.get = .ref r ↔ o.ptr = some r) ∧
    (o.get = .err ↔ o.isValid = false) ∧ o.conv.ptr = o.ptr ∧ Opt.default.isValid = false ∧ ∀ r, (Opt.ofRef r).get = .ref r := by
  cases o with
  | mk p => cases p <;> simp [Opt.isValid, Opt.toBool, Opt.get, Opt.conv, Opt.default, Opt.ofRef]

/-! ## Equalities -/

/-- An action is acceptable in a state: a Logogram is only requested for an existing String. -/
def Act.ok (st : St) : Act → Prop
  | .logo s => s < st.strs.length
  | _ => True

def okActs : St → List Act → Prop
  | _, [] => True
  | st, a :: rest => a.ok st ∧ okActs (st.apply a) rest

theorem wf_apply (st : St) (a : Act) (h : st.lex.WF) (ha : a.ok st) : (st.apply a).lex.WF := by
  cases a with
  | str w =>
    exact ⟨internStr_nodup _ _ h.strs, h.logos, fun s hs => Nat.lt_of_lt_of_le (h.bound s hs) (internStr_length_le _ _)⟩
  | logo s =>
    refine ⟨h.strs, internLogo_nodup _ _ h.logos, ?_⟩
    intro x hx
    rcases internLogo_mem _ _ _ hx with hx | hx
    · exact h.bound x hx
    · subst hx; exact ha
  | alloc _ => exact h
  | push _ _ _ =>
    simp only [St.apply]; split <;> exact h
  | set _ _ _ =>
    simp only [St.apply]; split
    · split <;> exact h
    · exact h
  | value _ => exact h
  | capture => exact h

/-- After every history of requests there is one String node per spelling and one Logogram object per String. -/
theorem C15_interning_invariant (acts : List Act) : ∀ (st : St), st.lex.WF → okActs st acts → (st.run acts).lex.WF := by
  induction acts with
  | nil => intro st h _; exact h
  | cons a rest ih =>
    intro st h hok
    exact ih (st.apply a) (wf_apply st a h hok.1) hok.2

theorem C15_interning_from_empty (acts : List Act) (h : okActs {} acts) : (({} : St).run acts).lex.WF :=
  C15_interning_invariant acts {} ⟨List.nodup_nil, List.nodup_nil, by simp [St.lex]⟩ h

/-- A request returns the same object for the same spelling and never disturbs an object handed out before. -/
theorem C15_intern_str (strs : List String) (w : String) :
    (internStr strs w).1[(internStr strs w).2]? = some w ∧ (∀ i, i < strs.length → (internStr strs w).1[i]? = strs[i]?) ∧
    (internStr (internStr strs w).1 w) = ((internStr strs w).1, (internStr strs w).2) := by
  unfold internStr
  by_cases hm : w ∈ strs
  · have hlt := List.idxOf_lt_length_of_mem hm
    simp [hlt]
  · have hn : ¬ strs.idxOf w < strs.length := fun hlt => hm (List.idxOf_lt_length_iff.mp hlt)
    have hidx : (strs ++ [w]).idxOf w = strs.length := by
      rw [List.idxOf_append, if_neg hm]; simp
    simp only [hn, if_false, hidx]
    refine ⟨by simp, ?_, by simp⟩
    intro i hi; simp [List.getElem?_append_left hi]

theorem nodup_getElem?_inj {α} (l : List α) (h : l.Nodup) (i j : Nat) (hi : i < l.length) (_hj : j < l.length)
    (e : l[i]? = l[j]?) : i = j := by
  exact (List.getElem?_inj hi h).mp e

/-- Logogram `==` (address of the String it spells) holds exactly for equal spellings, exactly for the same object;
    `!=` is its negation.  For all pairs of logograms of the Lexicon. -/
theorem C15_logogram_eq (lx : Lex) (wf : lx.WF) (a b : Nat) (ha : a < lx.logos.length) (hb : b < lx.logos.length) :
    (lx.logoEq a b = true ↔ lx.spelling a = lx.spelling b) ∧ (lx.logoEq a b = true ↔ a = b) ∧ lx.logoNe a b = !(lx.logoEq a b) := by
  have hwa : lx.what a = some lx.logos[a] := by simp [Lex.what, ha]
  have hwb : lx.what b = some lx.logos[b] := by simp [Lex.what, hb]
  have hsa : lx.logos[a] < lx.strs.length := wf.bound _ (List.getElem_mem ha)
  have hsb : lx.logos[b] < lx.strs.length := wf.bound _ (List.getElem_mem hb)
  have key : lx.logoEq a b = true ↔ a = b := by
    simp only [Lex.logoEq, hwa, hwb, beq_iff_eq, Option.some.injEq]
    exact List.getElem_inj wf.logos
  refine ⟨?_, key, rfl⟩
  rw [key]
  constructor
  · intro e; subst e; rfl
  · intro e
    simp only [Lex.spelling, hwa, hwb, Option.bind_some] at e
    have := nodup_getElem?_inj lx.strs wf.strs _ _ hsa hsb e
    exact (List.getElem_inj wf.logos).mp this

/-- A value refers to Logogram objects of the Lexicon. -/
def Value.valid (lx : Lex) (v : Value) : Prop := ∀ g ∈ v.logos, g < lx.logos.length

/-- `==` on Linkage, Calling_convention, Transfer (component-wise), Basic_specifier and Basic_qualifier (pointer to the
    Logogram) holds exactly for equal spellings; `!=` is its negation.  For all pairs of values of one sort. -/
theorem C15_value_eq_iff_spelling (lx : Lex) (wf : lx.WF) (x y : Value) (hs : x.sameSort y = true)
    (hx : x.valid lx) (hy : y.valid lx) :
    (lx.valEq x y = true ↔ lx.valSpelling x = lx.valSpelling y) ∧ lx.valNe x y = !(lx.valEq x y) := by
  refine ⟨?_, rfl⟩
  cases x <;> cases y <;> simp [Value.sameSort] at hs
  all_goals simp only [Value.valid, Value.logos, List.mem_cons, List.mem_nil_iff, or_false, forall_eq_or_imp, forall_eq] at hx hy
  · rename_i a b; simpa [Lex.valEq, Lex.valSpelling] using (C15_logogram_eq lx wf a b hx hy).1
  · rename_i a b; simpa [Lex.valEq, Lex.valSpelling] using (C15_logogram_eq lx wf a b hx hy).1
  · rename_i al ac bl bc
    have h1 := (C15_logogram_eq lx wf al bl hx.1 hy.1).1
    have h2 := (C15_logogram_eq lx wf ac bc hx.2 hy.2).1
    simp [Lex.valEq, Lex.valSpelling, h1, h2]
  · rename_i a b
    have h := C15_logogram_eq lx wf a b hx hy
    simp only [Lex.valEq, Lex.valSpelling, beq_iff_eq, List.cons.injEq, and_true]
    rw [← h.2.1, h.1]
  · rename_i a b
    have h := C15_logogram_eq lx wf a b hx hy
    simp only [Lex.valEq, Lex.valSpelling, beq_iff_eq, List.cons.injEq, and_true]
    rw [← h.2.1, h.1]

/-- The equalities are equivalence relations on the values of a Lexicon. -/
theorem C15_value_eq_equivalence (lx : Lex) (wf : lx.WF) (x y z : Value) (hxy : x.sameSort y = true) (hyz : y.sameSort z = true)
    (hx : x.valid lx) (hy : y.valid lx) (hz : z.valid lx) :
    lx.valEq x x = true ∧ (lx.valEq x y = lx.valEq y x) ∧ (lx.valEq x y = true → lx.valEq y z = true → lx.valEq x z = true) := by
  have hxx : x.sameSort x = true := by cases x <;> rfl
  have hyx : y.sameSort x = true := by cases x <;> cases y <;> simp_all [Value.sameSort]
  have hxz : x.sameSort z = true := by cases x <;> cases y <;> cases z <;> simp_all [Value.sameSort]
  have e (u v : Value) (h : u.sameSort v = true) (hu : u.valid lx) (hv : v.valid lx) := (C15_value_eq_iff_spelling lx wf u v h hu hv).1
  refine ⟨(e x x hxx hx hx).mpr rfl, ?_, ?_⟩
  · rw [Bool.eq_iff_iff, e x y hxy hx hy, e y x hyx hy hx]; exact eq_comm
  · intro h1 h2
    rw [e x z hxz hx hz]; rw [e x y hxy hx hy] at h1; rw [e y z hyz hy hz] at h2
    exact h1.trans h2

/-! ## Non-vacuity -/

def demo : St := ({} : St).run [
  .str "432b2b", .logo 0, .str "", .logo 1, .str "4a617661", .logo 2, .logo 0,
  .alloc ⟨"Block", [("region", .ref (.node 1)), ("handlers", .seq [])]⟩,
  .alloc ⟨"Region", [("body", .seq []), ("bindings", .ref (.node 2))]⟩,
  .alloc ⟨"Scope", [("elements", .seq [])]⟩,
  .alloc ⟨"Handler", []⟩, .push 0 "handlers" (.node 3), .push 1 "body" (.node 3), .push 2 "elements" (.node 3),
  .set 0 "handlers" (.ref (.node 9)), .alloc ⟨"Handler", []⟩, .push 0 "handlers" (.node 4)]

example : Block.tryBlock demo 0 = .num 1 ∧ demo.prim 0 "handlers" = .seq "n0.handlers" [.node 3, .node 4] := by decide +kernel
example : Block.body demo 0 = .seq "n1.body" [.node 3] := by decide +kernel
example : Block.tryBlock (({} : St).run [.alloc ⟨"Block", [("handlers", .seq [])]⟩]) 0 = .num 0 := by decide +kernel
example : demo.lex.logos = [0, 1, 2] ∧ demo.lex.logoEq 0 2 = false ∧ demo.lex.logoEq 1 1 = true := by decide +kernel
example : okActs {} [.str "a", .logo 0, .str "b", .logo 1, .logo 0] := by
  simp [okActs, Act.ok, St.apply, internStr, internLogo, List.idxOf_cons]
example : (SeqV.mk "s" [.node 1, .node 2, .node 3]).iterate = [some (.node 1), some (.node 2), some (.node 3)] ∧
          (SeqV.mk "s" [.node 1, .node 2, .node 3]).riterate = [some (.node 3), some (.node 2), some (.node 1)] ∧
          (SeqV.mk "s" []).empty = true ∧ (SeqV.mk "s" [.node 1]).empty = false := by decide +kernel
example : demo.lex.valEq (.transfer 0 1) (.transfer 0 1) = true ∧ demo.lex.valEq (.transfer 0 1) (.transfer 2 1) = false ∧
          demo.lex.valEq (.bspec 2) (.bspec 2) = true ∧ demo.lex.valEq (.bspec 2) (.bspec 0) = false := by decide +kernel

end Ipr.Derived
