import IprModel.Graph
/-!
# The documented factory wiring — written by hand from the interface documentation

`expectedWiring` says, for every factory function of the implementation (and every documented form of its operands),
under which accessor each operand must be readable, which optional parts read as absent, which parts are still unset
(set later through the node), which Lexicon constant a kind-fixed accessor answers with, and which accessors borrow
from an operand.  It is transcribed from `include/ipr/interface`, `ancillary`, `attribute`, `cxx-form` (the comments and
the inline alias definitions: `Cast_expr::expr() = second()`, `If::alternative() = third()`, `Rewrite::type() =
second().type()` …) and from the declared parameter order in `include/ipr/impl` — **not** from the probe's output.
`IprProps/C02.lean` proves `Generated.wiring = expectedWiring` (the table regenerated from the code on every run).

It lives in its own module (not in `IprProps/C02.lean`) so that the model driver can print it (`model_c02 expected`) even
while that equation is broken; the check then names the differing factory and accessor.

Conventions.  Operand positions follow the call (`/n`: only the first n parameters are passed; `#form`: a particular
form of the operands).  Member functions of a container take the container (and what it was built from) as leading
operands; the `sorts` column lists them.  Paths are dotted through objects created together with the node.
-/
namespace Ipr.Graph.Spec
open Ipr.Graph

abbrev A := String × Src

/-- the fields of a part reached under `p` -/
def pre (p : String) (l : List A) : List A := l.map fun (a, s) => (p ++ "." ++ a, s)

/-! ### Reusable groups of accessors -/

/-- Every statement: locations default to zero, no annotation, no attribute (interface 1582-1591). -/
def stmtP : List A :=
  [("unit_location", .val "#0:0:0"), ("source_location", .val "#0:0:0"), ("annotation.size", .val "#0"), ("attributes.size", .val "#0")]

/-- The natural C++ transfer: linkage "C++", no calling convention (interface 534-545). -/
def cxx : List A := [("transfer", .val "X(432b2b,)"), ("linkage", .val "L(432b2b)")]

/-- A composite type is named by the type-id of itself (impl 495-504). -/
def typeIdName (me : Src) : List A :=
  [("name", .own), ("name.kind", .val "$Type_id"), ("name.operand", me), ("name.type_expr", me)]

def ctype : List A := typeIdName .self ++ cxx

/-- An empty product type reached at depth 1 (its own parts are listed). `me` is the path of the product itself. -/
def emptyProduct (me : String) : List A :=
  [("kind", .val "$Product"), ("type", .const .k_typename), ("operand.size", .val "#0")] ++
  typeIdName (.same me) ++ cxx ++ [("elements.size", .val "#0"), ("size", .val "#0"), ("index.size", .val "#0")]

/-- An empty product type reached at depth 2 (its name is not expanded further). -/
def emptyProductShallow : List A :=
  [("kind", .val "$Product"), ("type", .const .k_typename), ("operand.size", .val "#0"), ("name", .own)] ++ cxx ++
  [("elements.size", .val "#0"), ("size", .val "#0"), ("index.size", .val "#0")]

/-- A region created with the node, at depth 1: span zero, not global, empty body, its scope expanded one level. -/
def regionDeep (enclosing owner : Src) : List A :=
  [("kind", .val "$Region"), ("span", .val "#0:0:0-0:0:0"), ("enclosing", enclosing), ("owner", owner), ("body.size", .val "#0"),
   ("bindings", .own), ("bindings.kind", .val "$Scope"), ("bindings.type", .own), ("bindings.elements.size", .val "#0"),
   ("bindings.size", .val "#0"), ("global", .val "#0")]

/-- The same at depth 2 (scope not expanded). -/
def regionShallow (enclosing owner : Src) : List A :=
  [("kind", .val "$Region"), ("span", .val "#0:0:0-0:0:0"), ("enclosing", enclosing), ("owner", owner), ("body.size", .val "#0"),
   ("bindings", .own), ("global", .val "#0")]

/-- A region holding exactly the member just added (`me`), at depth 1. -/
def regionWithMember (enclosing owner : Src) (me : Src) : List A :=
  [("kind", .val "$Region"), ("span", .val "#0:0:0-0:0:0"), ("enclosing", enclosing), ("owner", owner), ("body.size", .val "#1"),
   ("body.0", me), ("bindings", .own), ("bindings.kind", .val "$Scope"), ("bindings.type", .own),
   ("bindings.elements.size", .val "#1"), ("bindings.elements.0", me), ("bindings.size", .val "#1"), ("global", .val "#0")]

/-- A fresh parameter list (Parameter_list, interface 1426-1440) under `parameters`: region below `parent`, owned by `owner`. -/
def paramList (parent level owner : Src) : List A :=
  [("parameters", .own)] ++ pre "parameters" (
    [("kind", .val "$Parameter_list"), ("type", .own)] ++ pre "type" emptyProductShallow ++
    [("region", .own)] ++ pre "region" (regionShallow parent owner) ++
    [("level", level), ("elements.size", .val "#0"), ("size", .val "#0")])

/-- A general declaration just entered in a scope (interface 1748-1774): no specifier, linkage and regions not yet
    recorded, it is its own master and the only member of its declaration set. -/
def declP (name : Src) (init : Src) : List A :=
  stmtP ++ [("specifiers", .val "#0"), ("linkage", .unset), ("name", name), ("home_region", .unset), ("lexical_region", .unset),
            ("initializer", init), ("master", .self), ("decl_set.size", .val "#1"), ("decl_set.0", .self)]

/-- A declaration that cannot be redeclared (parameter, enumerator, base): C++ linkage, its own master. -/
def uniqueDeclP (name home lexical init : List A) : List A :=
  stmtP ++ [("specifiers", .val "#0"), ("linkage", .val "L(432b2b)")] ++ name ++ home ++ lexical ++ init ++
  [("master", .self), ("decl_set.size", .val "#1"), ("decl_set.0", .self)]

/-! ### Row builders -/

def node (key : String) (k : Kind) (st : Storage) (sorts : List String) (typ : Option Src) (acc : List A) : Row :=
  { key := key, kind := k, cat := k, storage := st, sorts := sorts, typ := typ, acc := acc }

/-- an object that is not a node -/
def obj (key : String) (k : Kind) (st : Storage) (sorts : List String) (acc : List A) : Row :=
  { key := key, kind := k, cat := .NotANode, storage := st, sorts := sorts, typ := none, acc := acc }

def impl? (classic : Bool) : List A := if classic then [("implementation", .absent)] else []

/-- `make_x(const Expr&, Optional<Type> = {})`: the operand under `operand` (and its aliases); the type as given, or
    unset when omitted; a classic operation has no user-supplied implementation yet. -/
def unOpt (fn : String) (k : Kind) (classic : Bool) (aliases : List String := []) : List Row :=
  let acc := impl? classic ++ [("operand", .arg 0)] ++ aliases.map (·, .arg 0)
  [node ("expr_factory::" ++ fn ++ "(Expr,Optional<Type>)") k .generative ["Expr", "Type"] (some (.arg 1)) acc,
   node ("expr_factory::" ++ fn ++ "(Expr,Optional<Type>)/1") k .generative ["Expr"] (some .unset) acc]

/-- `make_x(const Expr&)`: no type is given. -/
def unE (fn : String) (k : Kind) (typ : Src) (classic : Bool) (aliases : List String := []) : Row :=
  node ("expr_factory::" ++ fn ++ "(Expr)") k .generative ["Expr"] (some typ)
    (impl? classic ++ [("operand", .arg 0)] ++ aliases.map (·, .arg 0))

/-- `make_x(const Expr&, const Type&)`: implicit conversions, always typed. -/
def unET (fn : String) (k : Kind) (form : String := "") (tsort : String := "Type") : Row :=
  node ("expr_factory::" ++ fn ++ "(Expr,Type)" ++ form) k .generative ["Expr", tsort] (some (.arg 1)) [("operand", .arg 0)]

/-- `make_x(const Expr&, const Expr&, Optional<Type> = {})`; `a1`/`a2` are the named aliases of first()/second(). -/
def binOpt (fn : String) (k : Kind) (classic : Bool := true) (a1 : List String := []) (a2 : List String := []) : List Row :=
  let acc := impl? classic ++ [("first", .arg 0), ("second", .arg 1)] ++ a1.map (·, .arg 0) ++ a2.map (·, .arg 1)
  [node ("expr_factory::" ++ fn ++ "(Expr,Expr,Optional<Type>)") k .generative ["Expr", "Expr", "Type"] (some (.arg 2)) acc,
   node ("expr_factory::" ++ fn ++ "(Expr,Expr,Optional<Type>)/2") k .generative ["Expr", "Expr"] (some .unset) acc]

/-- `make_x_cast(const Type&, const Expr&)`: the type of a cast is its target, `expr()` is the second operand
    (interface 1069-1080). -/
def castTE (fn : String) (k : Kind) (form : String := "") (tsort : String := "Type") : Row :=
  node ("expr_factory::" ++ fn ++ "(Type,Expr)" ++ form) k .generative [tsort, "Expr"] (some (.arg 0))
    [("implementation", .absent), ("first", .arg 0), ("second", .arg 1), ("expr", .arg 1)]

/-- `make_x(const Expr&, const Type&, const Type& result)`: conversion of `expr()` to `second()`, typed by the third. -/
def convETT (fn : String) (k : Kind) (classic : Bool) (a2 : String) (form : String := "") (tsort : String := "Type") : Row :=
  node ("expr_factory::" ++ fn ++ "(Expr,Type,Type)" ++ form) k .generative ["Expr", "Type", tsort] (some (.arg 2))
    (impl? classic ++ [("first", .arg 0), ("second", .arg 1), ("expr", .arg 0), (a2, .arg 1)])

/-- A unary name / type constructor `get_x(operand)`: unified, the operand under `operand` and its alias. -/
def unaryName (key : String) (k : Kind) (sort alias : String) : Row :=
  node key k .unified [sort] none [("operand", .arg 0), (alias, .arg 0)]

def unaryType (key : String) (k : Kind) (alias : String) : Row :=
  node key k .unified ["Type"] (some (.const .k_typename)) ([("operand", .arg 0)] ++ ctype ++ [(alias, .arg 0)])

/-- A String node made from characters. -/
def stringPart : List A := [("kind", .val "$String"), ("characters", .arg 0), ("size", .len 0)]
def stringPartAt (i : Nat) : List A := [("kind", .val "$String"), ("characters", .arg i), ("size", .len i)]

/-- form of a call whose type operand carries top-level cv-qualifiers -/
def qt : String := "#qualified-type"

/-! ### name_factory, symbols, nullary and unary expressions -/

def namesAndSymbols : List Row := [
  node "name_factory::get_string(word_view)" .String .unified ["word_view"] none [("characters", .arg 0), ("size", .len 0)],
  unaryName "name_factory::get_identifier(String)" .Identifier "String" "string",
  node "name_factory::get_identifier(word_view)" .Identifier .unified ["word_view"] none
    ([("operand", .own)] ++ pre "operand" stringPart ++ [("string", .same "operand")]),
  unaryName "name_factory::get_suffix(Identifier)" .Suffix "Identifier" "name",
  unaryName "name_factory::get_operator(String)" .Operator "String" "opname",
  node "name_factory::get_operator(word_view)" .Operator .unified ["word_view"] none
    ([("operand", .own)] ++ pre "operand" stringPart ++ [("opname", .same "operand")]),
  unaryName "name_factory::get_conversion(Type)" .Conversion "Type" "target",
  unaryName "name_factory::get_ctor_name(Type)" .Ctor_name "Type" "object_type",
  unaryName "name_factory::get_dtor_name(Type)" .Dtor_name "Type" "object_type",
  unaryName "name_factory::get_guide_name(Template)" .Guide_name "Template" "mapping_decl",
  -- the deduction-guide name of the template GIVEN, also when that is a redeclaration (not of its master)
  unaryName "name_factory::get_guide_name(Template)#redeclaration" .Guide_name "Redeclared_template" "mapping_decl",
  obj "name_factory::get_logogram(String)" .Logogram .unified ["String"]
    [("operand", .arg 0), ("what", .arg 0), ("what.characters", .via 0 .h_characters)],
  obj "expr_factory::get_linkage(word_view)" .Linkage .unified ["word_view"]
    [("language.what", .own), ("language.what.characters", .arg 0)],
  obj "expr_factory::get_linkage(String)" .Linkage .unified ["String"]
    [("language.what", .arg 0), ("language.what.characters", .via 0 .h_characters)],
  obj "expr_factory::get_calling_convention(word_view)" .Calling_convention .unified ["word_view"]
    [("name.what", .own), ("name.what.characters", .arg 0)],
  -- a symbol is identified by (name, type) (interface 867-874); a label has type void (1611-1612); `this` is named `this`
  node "expr_factory::get_symbol(Name,Type)" .Symbol .unified ["Name", "Type"] (some (.arg 1)) [("operand", .arg 0), ("name", .arg 0)],
  node "expr_factory::get_label(Identifier)" .Symbol .unified ["Identifier"] (some (.const .k_void)) [("operand", .arg 0), ("name", .arg 0)],
  node "expr_factory::get_this(Type)" .Symbol .unified ["Type"] (some (.arg 0))
    [("operand", .const .k_this_identifier), ("name", .const .k_this_identifier)],
  node "expr_factory::make_phantom()" .Phantom .generative [] (some .unset) [],
  node "expr_factory::make_phantom(Type)" .Phantom .generative ["Type"] (some (.arg 0)) [],
  node "expr_factory::make_eclipsis(Type)" .Eclipsis .generative ["Type"] (some (.arg 0)) [],
  -- the type of a literal is its first operand, its spelling the second (interface 1222-1231)
  node "expr_factory::make_literal(Type,String)" .Literal .unified ["Type", "String"] (some (.arg 0))
    [("implementation", .absent), ("first", .arg 0), ("second", .arg 1), ("string", .arg 1)],
  node "expr_factory::make_literal(Type,word_view)" .Literal .unified ["Type", "word_view"] (some (.arg 0))
    ([("implementation", .absent), ("first", .arg 0), ("second", .own)] ++ pre "second" (stringPartAt 1) ++ [("string", .same "second")])]

/-- Use of a declaration: its name, its type, and THE DECLARATION GIVEN is the resolution (interface 960-971) -- whatever the
    form of that declaration: a first declaration, a redeclaration (the id-expression does not resolve to the master), a
    function, a template, a parameter, an enumerator, a base-class subobject. -/
def idOfDecl (form sort : String) : Row :=
  node ("expr_factory::make_id_expr(Decl)" ++ form) .Id_expr .generative [sort] (some (.via 0 .h_type))
    [("operand", .via 0 .h_name), ("resolution", .arg 0), ("name", .via 0 .h_name)]

def unaries : List Row :=
  unOpt "make_address" .Address true ++ unOpt "make_complement" .Complement true ++ unOpt "make_deref" .Deref true ++
  unOpt "make_alignof" .Alignof false ++ unOpt "make_sizeof" .Sizeof false ++ unOpt "make_args_cardinality" .Args_cardinality false ++
  unOpt "make_typeid" .Typeid false ++ unOpt "make_not" .Not true ++ unOpt "make_post_increment" .Post_increment true ++
  unOpt "make_post_decrement" .Post_decrement true ++ unOpt "make_pre_increment" .Pre_increment true ++
  unOpt "make_pre_decrement" .Pre_decrement true ++ unOpt "make_throw" .Throw true ["exception"] ++
  unOpt "make_unary_minus" .Unary_minus true ++ unOpt "make_unary_plus" .Unary_plus true ++ unOpt "make_expansion" .Expansion true ++
  unOpt "make_noexcept" .Noexcept false ++
  [unE "make_array_delete" .Array_delete .unset true ["storage"], unE "make_delete" .Delete .unset true ["storage"],
   -- a requires-clause is a bool (interface 947-951)
   unE "make_restriction" .Restriction (.const .k_bool) false,
   unET "make_demotion" .Demotion, unET "make_materialization" .Materialization, unET "make_promotion" .Promotion, unET "make_read" .Read,
   -- the type given is reported EXACTLY, also when it carries top-level cv-qualifiers: the factory does not adjust it
   unET "make_demotion" .Demotion qt "Qualified_type", unET "make_materialization" .Materialization qt "Qualified_type",
   unET "make_promotion" .Promotion qt "Qualified_type", unET "make_read" .Read qt "Qualified_type",
   -- an expression list is typed by the product of its elements' types: empty at creation (interface 924-934)
   node "expr_factory::make_expr_list()" .Expr_list .generative [] (some .own)
     (pre "type" (emptyProduct "type") ++ [("operand.size", .val "#0"), ("elements.size", .val "#0"), ("size", .val "#0")]),
   node "expr_factory::make_id_expr(Name,Optional<Type>)" .Id_expr .generative ["Name", "Type"] (some (.arg 1))
     [("operand", .arg 0), ("resolution", .absent), ("name", .arg 0)],
   node "expr_factory::make_id_expr(Name,Optional<Type>)/1" .Id_expr .generative ["Name"] (some .unset)
     [("operand", .arg 0), ("resolution", .absent), ("name", .arg 0)],
   idOfDecl "" "Decl", idOfDecl "#redeclaration" "Redeclaration", idOfDecl "#function" "Fundecl", idOfDecl "#template" "Template",
   idOfDecl "#parameter" "Parameter", idOfDecl "#enumerator" "Enumerator", idOfDecl "#base" "Base_type",
   -- a declaration (operand 4: name operand 2, type operand 3) constructed in the storage where an earlier declaration (name
   -- operand 0, type operand 1) lived and died, the Lexicon living on: its id-expression reports the declaration given --
   -- the newcomer's name and type -- not whatever was once said about that address
   node "expr_factory::make_id_expr(Decl)#recycled-storage" .Id_expr .generative ["Name", "Type", "Name", "Type", "Parameter"] (some (.arg 3))
     [("operand", .arg 2), ("resolution", .arg 4), ("name", .arg 2)],
   -- the same when the dead declaration was owned by a translation unit destroyed before the next unit was built
   node "expr_factory::make_id_expr(Decl)#recycled-unit" .Id_expr .generative ["Name", "Type", "Name", "Type", "Var"] (some (.arg 3))
     [("operand", .arg 2), ("resolution", .arg 4), ("name", .arg 2)],
   node "expr_factory::make_label(Identifier,Optional<Type>)" .Label .generative ["Identifier", "Type"] (some (.arg 1))
     [("operand", .arg 0), ("name", .arg 0)],
   node "expr_factory::make_label(Identifier,Optional<Type>)/1" .Label .generative ["Identifier"] (some .unset)
     [("operand", .arg 0), ("name", .arg 0)],
   node "expr_factory::make_enclosure(Delimiter,Expr,Optional<Type>)" .Enclosure .generative ["Delimiter", "Expr", "Type"] (some (.arg 2))
     [("operand", .arg 1), ("delimiters", .arg 0), ("expr", .arg 1)],
   node "expr_factory::make_enclosure(Delimiter,Expr,Optional<Type>)/2" .Enclosure .generative ["Delimiter", "Expr"] (some .unset)
     [("operand", .arg 1), ("delimiters", .arg 0), ("expr", .arg 1)],
   -- "T" will be the type() of a construction; its operand is the enclosure of arguments (interface 1007-1019)
   node "expr_factory::make_construction(Type,Enclosure)" .Construction .generative ["Type", "Enclosure"] (some (.arg 0))
     [("implementation", .absent), ("operand", .arg 1), ("arguments", .arg 1)]]

/-! ### binary and n-ary expressions -/

def binaries : List Row :=
  -- Rewrite: source() = first(), target() = second(), type() = second().type()  (interface 1049-1058)
  [node "expr_factory::make_rewrite(Expr,Expr)" .Rewrite .generative ["Expr", "Expr"] (some (.via 1 .h_type))
     [("first", .arg 0), ("second", .arg 1), ("source", .arg 0), ("target", .arg 1)]] ++
  binOpt "make_and" .And ++ binOpt "make_array_ref" .Array_ref true ["base"] ["member"] ++ binOpt "make_arrow" .Arrow true ["base"] ["member"] ++
  binOpt "make_arrow_star" .Arrow_star true ["base"] ["member"] ++ binOpt "make_assign" .Assign ++ binOpt "make_bitand" .Bitand ++
  binOpt "make_bitand_assign" .Bitand_assign ++ binOpt "make_bitor" .Bitor ++ binOpt "make_bitor_assign" .Bitor_assign ++
  binOpt "make_bitxor" .Bitxor ++ binOpt "make_bitxor_assign" .Bitxor_assign ++ binOpt "make_comma" .Comma ++ binOpt "make_div" .Div ++
  binOpt "make_div_assign" .Div_assign ++ binOpt "make_dot" .Dot true ["base"] ["member"] ++ binOpt "make_dot_star" .Dot_star true ["base"] ["member"] ++
  binOpt "make_equal" .Equal ++ binOpt "make_greater" .Greater ++ binOpt "make_greater_equal" .Greater_equal ++ binOpt "make_less" .Less ++
  binOpt "make_less_equal" .Less_equal ++ binOpt "make_lshift" .Lshift ++ binOpt "make_lshift_assign" .Lshift_assign ++
  binOpt "make_member_init" .Member_init false ["member"] ["initializer"] ++ binOpt "make_minus" .Minus ++ binOpt "make_minus_assign" .Minus_assign ++
  binOpt "make_modulo" .Modulo ++ binOpt "make_modulo_assign" .Modulo_assign ++ binOpt "make_mul" .Mul ++ binOpt "make_mul_assign" .Mul_assign ++
  binOpt "make_not_equal" .Not_equal ++ binOpt "make_or" .Or ++ binOpt "make_plus" .Plus ++ binOpt "make_plus_assign" .Plus_assign ++
  binOpt "make_scope_ref" .Scope_ref true ["scope"] ["member"] ++ binOpt "make_rshift" .Rshift ++ binOpt "make_rshift_assign" .Rshift_assign ++
  [castTE "make_cast" .Cast, castTE "make_const_cast" .Const_cast, castTE "make_dynamic_cast" .Dynamic_cast,
   castTE "make_reinterpret_cast" .Reinterpret_cast, castTE "make_static_cast" .Static_cast,
   castTE "make_cast" .Cast qt "Qualified_type", castTE "make_const_cast" .Const_cast qt "Qualified_type",
   castTE "make_dynamic_cast" .Dynamic_cast qt "Qualified_type", castTE "make_reinterpret_cast" .Reinterpret_cast qt "Qualified_type",
   castTE "make_static_cast" .Static_cast qt "Qualified_type",
   convETT "make_coercion" .Coercion true "target", convETT "make_narrow" .Narrow false "derived",
   convETT "make_pretend" .Pretend false "target", convETT "make_widen" .Widen false "base",
   convETT "make_coercion" .Coercion true "target" qt "Qualified_type", convETT "make_narrow" .Narrow false "derived" qt "Qualified_type",
   convETT "make_pretend" .Pretend false "target" qt "Qualified_type", convETT "make_widen" .Widen false "base" qt "Qualified_type",
   node "expr_factory::make_call(Expr,Expr_list,Optional<Type>)" .Call .generative ["Expr", "Expr_list", "Type"] (some (.arg 2))
     [("implementation", .absent), ("first", .arg 0), ("second", .arg 1), ("function", .arg 0), ("args", .arg 1)],
   node "expr_factory::make_call(Expr,Expr_list,Optional<Type>)/2" .Call .generative ["Expr", "Expr_list"] (some .unset)
     [("implementation", .absent), ("first", .arg 0), ("second", .arg 1), ("function", .arg 0), ("args", .arg 1)],
   node "expr_factory::make_qualification(Expr,Qualifiers,Type)" .Qualification .generative ["Expr", "Qualifiers", "Type"] (some (.arg 2))
     [("first", .arg 0), ("second", .arg 1), ("expr", .arg 0), ("qualifiers", .arg 1)],
   node "expr_factory::make_template_id(Expr,Expr_list)" .Template_id .unified ["Expr", "Expr_list"] none
     [("first", .arg 0), ("second", .arg 1), ("template_name", .arg 0), ("args", .arg 1)],
   -- (x op ... op y): first() is x, second() is y, operation() the folded category (interface 1233-1239)
   node "expr_factory::make_binary_fold(Category_code,Expr,Expr,Optional<Type>)" .Binary_fold .generative
     ["Category_code", "Expr", "Expr", "Type"] (some (.arg 3))
     [("implementation", .absent), ("first", .arg 1), ("second", .arg 2), ("operation", .arg 0)],
   node "expr_factory::make_binary_fold(Category_code,Expr,Expr,Optional<Type>)/3" .Binary_fold .generative
     ["Category_code", "Expr", "Expr"] (some .unset)
     [("implementation", .absent), ("first", .arg 1), ("second", .arg 2), ("operation", .arg 0)],
   -- Where with declarations: main() not yet set, attendant() is the scope of a region created with it (interface 1343-1356)
   node "expr_factory::make_where(Region)" .Where .generative ["Region"] (some .unset)
     ([("first", .unset), ("second", .own)] ++ pre "second" ([("kind", .val "$Scope"), ("type", .own)] ++ pre "type" emptyProductShallow ++
        [("elements.size", .val "#0"), ("size", .val "#0")]) ++ [("main", .unset), ("attendant", .same "second")]),
   node "expr_factory::make_where(Expr,Expr)" .Where .generative ["Expr", "Expr"] (some (.via 0 .h_type))
     [("first", .arg 0), ("second", .arg 1), ("main", .arg 0), ("attendant", .arg 1)],
   -- an instantiation without instance has no type yet (interface 1374-1387)
   node "expr_factory::make_instantiation(Expr,Substitution)" .Instantiation .generative ["Expr", "Substitution"] (some .unset)
     [("pattern", .arg 0), ("substitution", .arg 1), ("instance", .absent)],
   node "expr_factory::make_new(Optional<Expr_list>,Construction,Optional<Type>)" .New .generative ["Expr_list", "Construction", "Type"] (some (.arg 2))
     [("implementation", .absent), ("first", .arg 0), ("second", .arg 1), ("global_requested", .val "#0"), ("placement", .arg 0), ("initializer", .arg 1)],
   node "expr_factory::make_new(Optional<Expr_list>,Construction,Optional<Type>)/2" .New .generative ["Expr_list", "Construction"] (some .unset)
     [("implementation", .absent), ("first", .arg 0), ("second", .arg 1), ("global_requested", .val "#0"), ("placement", .arg 0), ("initializer", .arg 1)],
   node "expr_factory::make_new(Optional<Expr_list>,Construction,Optional<Type>)#noplacement" .New .generative ["Construction", "Type"] (some (.arg 1))
     [("implementation", .absent), ("first", .absent), ("second", .arg 0), ("global_requested", .val "#0"), ("placement", .absent), ("initializer", .arg 0)],
   node "expr_factory::make_conditional(Expr,Expr,Expr,Optional<Type>)" .Conditional .generative ["Expr", "Expr", "Expr", "Type"] (some (.arg 3))
     [("implementation", .absent), ("first", .arg 0), ("second", .arg 1), ("third", .arg 2), ("condition", .arg 0), ("then_expr", .arg 1), ("else_expr", .arg 2)],
   node "expr_factory::make_conditional(Expr,Expr,Expr,Optional<Type>)/3" .Conditional .generative ["Expr", "Expr", "Expr"] (some .unset)
     [("implementation", .absent), ("first", .arg 0), ("second", .arg 1), ("third", .arg 2), ("condition", .arg 0), ("then_expr", .arg 1), ("else_expr", .arg 2)],
   -- parameterized expressions: a parameter list whose region lies below the given region, at the given level
   node "expr_factory::make_mapping(Region,Mapping_level)" .Mapping .generative ["Region", "Mapping_level"] (some .unset)
     (paramList (.arg 0) (.arg 1) .self ++ [("result", .unset)]),
   node "expr_factory::make_lambda(Region,Mapping_level)" .Lambda .generative ["Region", "Mapping_level"] (some .unset)
     (paramList (.arg 0) (.arg 1) .self ++ [("result", .unset), ("target", .absent), ("requirement", .absent), ("attributes.size", .val "#0"),
       ("eh_specification", .absent), ("specifiers", .val "#0"), ("captures.size", .val "#0")]),
   -- a requires-expression is always a bool (interface 1389-1396)
   node "expr_factory::make_requires(Region,Mapping_level)" .Requires .generative ["Region", "Mapping_level"] (some (.const .k_bool))
     (paramList (.arg 0) (.arg 1) .absent ++ [("body.size", .val "#0")]),
   obj "expr_factory::make_elementary_substitution(Parameter,Expr)" .Substitution .generative ["Parameter", "Expr"] [],
   obj "expr_factory::make_general_substitution()" .Substitution .generative [] [],
   -- A general substitution is filled through its builder AFTER creation (`subst(p, v)`).  Read through `operator[]` it answers,
   -- for every parameter, the value given for it LAST; a parameter never bound maps to itself (interface 1370-1372; impl 1878-1884)
   obj "General_substitution::subst(Parameter,Expr)" .Substitution .generative ["Parameter", "Expr", "Parameter"]
     [("image", .arg 1), ("unbound", .arg 2)],
   -- subst(p1, e1), subst(p2, e2), subst(p1, e3): p1 reads e3 (the latest binding), p2 still e2, an unbound parameter itself
   obj "General_substitution::subst(Parameter,Expr)#rebound" .Substitution .generative ["Parameter", "Expr", "Parameter", "Expr", "Expr", "Parameter"]
     [("image", .arg 4), ("other", .arg 3), ("unbound", .arg 5)],
   -- subst(p, e1), read (e1), subst(p, e2), read: e2
   obj "General_substitution::subst(Parameter,Expr)#rebound-after-read" .Substitution .generative ["Parameter", "Expr", "Expr"]
     [("first_read", .arg 1), ("image", .arg 2)],
   -- the same read through the instantiation that was given the substitution before any binding was made
   obj "General_substitution::subst(Parameter,Expr)#through-instantiation" .Substitution .generative ["Expr", "Parameter", "Expr", "Expr"]
     [("pattern", .arg 0), ("image", .arg 3)],
   -- asm has type void, a static assertion type bool (interface 886-893, 1358-1366)
   node "expr_factory::make_asm_expr(String)" .Asm .generative ["String"] (some (.const .k_void)) [("operand", .arg 0), ("text", .arg 0)],
   node "expr_factory::make_static_assert_expr(Expr,Optional<String>)" .Static_assert .generative ["Expr", "String"] (some (.const .k_bool))
     [("first", .arg 0), ("second", .arg 1), ("condition", .arg 0), ("message", .arg 1)],
   node "expr_factory::make_static_assert_expr(Expr,Optional<String>)/1" .Static_assert .generative ["Expr"] (some (.const .k_bool))
     [("first", .arg 0), ("second", .absent), ("condition", .arg 0), ("message", .absent)]]

/-! ### type_factory -/

/-- a user-defined type: named later, natural transfer, a region of its own below the given one, owned by the type -/
def udtP (extra : List A) : List A :=
  [("name", .unset)] ++ cxx ++ [("region", .own)] ++ pre "region" (regionDeep (.arg 0) .self) ++
  [("scope", .same "region.bindings"), ("members.size", .val "#0")] ++ extra

/-- A position handed to the constructor of a token is COPIED into it (attribute 26-41: a lexeme has a spelling and a locus):
    `s l v k` are the operand positions of spelling, position, value and category; `me` is the token itself (it is its own lexeme). -/
def tokenP (s l v k : Nat) (me : Src) : List A :=
  [("lexeme", me), ("spelling", .arg s), ("locus", .arg l), ("value", .arg v), ("token_category", .arg k)]

def tokenSorts : List String := ["String", "Source_location", "TokenValue", "TokenCategory"]

def functionRow (key : String) (sorts : List String) (throws : Src) (xfer : Option Nat) : Row :=
  node key .Function .unified sorts (some (.const .k_typename))
    ([("first", .arg 0), ("second", .arg 1), ("third", throws)] ++
     (match xfer with
      | none => ctype
      | some i => typeIdName .self ++ [("transfer", .arg i), ("linkage", .linkof i)]) ++
     [("source", .arg 0), ("target", .arg 1), ("throws", throws)])

def asTypeXfer (key : String) : Row :=
  node key .As_type .unified ["Expr", "Transfer"] (some (.const .k_typename))
    ([("operand", .arg 0)] ++ typeIdName .self ++ [("transfer", .arg 1), ("linkage", .linkof 1), ("expr", .arg 0)])

def seqType (key : String) (k : Kind) (sort : String) : Row :=
  node key k .unified [sort] (some (.const .k_typename))
    ([("operand", .arg 0)] ++ ctype ++ [("elements", .arg 0), ("size", .len 0), ("index", .arg 0)])

def types : List Row := [
  -- a transfer pairs a linkage with a calling convention; the missing half is the natural one (interface 150-162)
  obj "type_factory::get_transfer_from_linkage(Linkage)" .Transfer .unified ["Linkage"]
    [("first", .arg 0), ("second", .val "C()"), ("linkage", .arg 0), ("convention", .val "C()")],
  obj "type_factory::get_transfer_from_convention(Calling_convention)" .Transfer .unified ["Calling_convention"]
    [("first", .val "L(432b2b)"), ("second", .arg 0), ("linkage", .val "L(432b2b)"), ("convention", .arg 0)],
  obj "type_factory::get_transfer(Linkage,Calling_convention)" .Transfer .unified ["Linkage", "Calling_convention"]
    [("first", .arg 0), ("second", .arg 1), ("linkage", .arg 0), ("convention", .arg 1)],
  -- an extended built-in type is the fixed point of As_type and is named by its identifier (traversal: denote_builtin_type)
  node "type_factory::get_as_type(Identifier)" .As_type .unified ["Identifier"] (some (.const .k_typename))
    ([("operand", .self), ("name", .arg 0)] ++ cxx ++ [("expr", .self)]),
  node "type_factory::get_as_type(Expr)" .As_type .unified ["Expr"] (some (.const .k_typename))
    ([("operand", .arg 0)] ++ ctype ++ [("expr", .arg 0)]),
  asTypeXfer "type_factory::get_as_type(Expr,Transfer)",
  -- an explicit natural transfer reads back as the natural transfer (= the operand, by value)
  asTypeXfer "type_factory::get_as_type(Expr,Transfer)#natural",
  node "type_factory::get_array(Type,Expr)" .Array .unified ["Type", "Expr"] (some (.const .k_typename))
    ([("first", .arg 0), ("second", .arg 1)] ++ ctype ++ [("element_type", .arg 0), ("bound", .arg 1)]),
  node "type_factory::get_qualified(Qualifiers,Type)" .Qualified .unified ["Qualifiers", "Type"] (some (.const .k_typename))
    ([("first", .arg 0), ("second", .arg 1)] ++ ctype ++ [("qualifiers", .arg 0), ("main_variant", .arg 1)]),
  -- Qualified(cv2, Qualified(cv1, T)) = Qualified(cv1 | cv2, T)  (interface 645-659)
  node "type_factory::get_qualified(Qualifiers,Type)#merge" .Qualified .unified ["Qualifiers", "Type"] (some (.const .k_typename))
    ([("first", .qmerge 0 1), ("second", .via 1 .h_main_variant)] ++ ctype ++
     [("qualifiers", .qmerge 0 1), ("main_variant", .via 1 .h_main_variant)]),
  -- each decltype query is generative
  node "type_factory::get_decltype(Expr)" .Decltype .generative ["Expr"] (some (.const .k_typename))
    ([("operand", .arg 0)] ++ ctype ++ [("expr", .arg 0)]),
  node "type_factory::get_tor(Product,Sum)" .Tor .unified ["Product", "Sum"] (some (.const .k_typename))
    ([("first", .arg 0), ("second", .arg 1)] ++ ctype ++ [("source", .arg 0), ("throws", .arg 1)]),
  -- a function type without exception specification may throw: `false` is its throws() (impl.cxx get_function)
  functionRow "type_factory::get_function(Product,Type)" ["Product", "Type"] (.const .k_false) none,
  functionRow "type_factory::get_function(Product,Type,Transfer)" ["Product", "Type", "Transfer"] (.const .k_false) (some 2),
  functionRow "type_factory::get_function(Product,Type,Transfer)#natural" ["Product", "Type", "Transfer"] (.const .k_false) (some 2),
  functionRow "type_factory::get_function(Product,Type,Expr)" ["Product", "Type", "Expr"] (.arg 2) none,
  functionRow "type_factory::get_function(Product,Type,Expr,Transfer)" ["Product", "Type", "Expr", "Transfer"] (.arg 2) (some 3),
  functionRow "type_factory::get_function(Product,Type,Expr,Transfer)#natural" ["Product", "Type", "Expr", "Transfer"] (.arg 2) (some 3),
  unaryType "type_factory::get_pointer(Type)" .Pointer "points_to",
  seqType "type_factory::get_product(Sequence<Type>)" .Product "Sequence<Type>",
  seqType "type_factory::get_product(Warehouse<Type>)" .Product "Warehouse<Type>",
  node "type_factory::get_ptr_to_member(Type,Type)" .Ptr_to_member .unified ["Type", "Type"] (some (.const .k_typename))
    ([("first", .arg 0), ("second", .arg 1)] ++ ctype ++ [("containing_type", .arg 0), ("member_type", .arg 1)]),
  unaryType "type_factory::get_reference(Type)" .Reference "refers_to",
  unaryType "type_factory::get_rvalue_reference(Type)" .Rvalue_reference "refers_to",
  -- the same request made right after the request for a proper prefix / for an extension of the sequence: still exactly the operands
  seqType "type_factory::get_product(Warehouse<Type>)#after-prefix" .Product "Warehouse<Type>",
  seqType "type_factory::get_product(Warehouse<Type>)#after-extension" .Product "Warehouse<Type>",
  seqType "type_factory::get_sum(Warehouse<Type>)#after-prefix" .Sum "Warehouse<Type>",
  seqType "type_factory::get_sum(Warehouse<Type>)#after-extension" .Sum "Warehouse<Type>",
  seqType "type_factory::get_sum(Sequence<Type>)" .Sum "Sequence<Type>",
  seqType "type_factory::get_sum(Warehouse<Type>)" .Sum "Warehouse<Type>",
  node "type_factory::get_forall(Product,Type)" .Forall .unified ["Product", "Type"] (some (.const .k_typename))
    ([("first", .arg 0), ("second", .arg 1)] ++ ctype ++ [("source", .arg 0), ("target", .arg 1)]),
  -- each occurrence of `auto` is generative
  node "type_factory::get_auto()" .Auto .generative [] (some (.const .k_typename)) ctype,
  -- user-defined types have the type of their kind; a closure is a class type
  node "type_factory::make_enum(Region,Enum::Kind)" .Enum .generative ["Region", "Enum::Kind"] (some (.const .k_enum))
    (udtP [("kind", .arg 1), ("base", .absent)]),
  node "type_factory::make_class(Region)" .Class .generative ["Region"] (some (.const .k_class)) (udtP [("bases.size", .val "#0")]),
  node "type_factory::make_union(Region)" .Union .generative ["Region"] (some (.const .k_union)) (udtP []),
  node "type_factory::make_namespace(Region)" .Namespace .generative ["Region"] (some (.const .k_namespace)) (udtP []),
  node "type_factory::make_closure(Region)" .Closure .generative ["Region"] (some (.const .k_class)) (udtP []),
  -- the closure type reached as the type of a lambda, and as the type of a variable: the same class type
  node "expr_factory::make_lambda(Region,Mapping_level)#closure-type" .Closure .generative ["Region", "Mapping_level", "Closure"]
    (some (.const .k_class)) (udtP []),
  node "Region::declare_var(Name,Type)#closure-typed" .Closure .generative ["Region", "Closure", "Region", "Name"]
    (some (.const .k_class)) (udtP [])]

/-! ### directives, statements, Lexicon conveniences -/

def elaboration : Src := .val "#240"      -- Phases::Elaboration = Name_resolution|Typing|Evaluation|Instantiation (ancillary 21-38)

def blockP (typ : Option Src) (key : String) (sorts : List String) : Row :=
  node key .Block .generative sorts typ
    (stmtP ++ [("region", .own)] ++ pre "region" (regionDeep (.arg 0) .self) ++
     [("body.size", .val "#0"), ("handlers.size", .val "#0"), ("try_block", .val "#0")])

def controlled (key : String) (k : Kind) : Row :=
  node key k .generative [] (some .unset) ([("first", .unset), ("second", .unset)] ++ stmtP ++ [("condition", .unset), ("body", .unset)])

def controlledLinked (key : String) (k : Kind) : Row :=
  node key k .generative ["Expr", "Expr"] (some (.via 1 .h_type))
    ([("first", .arg 0), ("second", .arg 1)] ++ stmtP ++ [("condition", .arg 0), ("body", .arg 1)])

def directivesAndStatements : List Row := [
  node "dir_factory::make_specifiers_spread()" .Specifiers_spread .generative [] (some .unset)
    [("phases", elaboration), ("specifiers", .val "#0"), ("targets.size", .val "#0")],
  node "dir_factory::make_structured_binding()" .Structured_binding .generative [] (some .unset)
    [("phases", elaboration), ("specifiers", .val "#0"), ("mode", .val "#0"), ("names.size", .val "#0"), ("initializer", .unset), ("bindings.size", .val "#0")],
  node "dir_factory::make_using_declaration(Scope_ref,Using_declaration::Designator::Mode)" .Using_declaration .generative
    ["Scope_ref", "Designator::Mode"] (some .unset)
    [("phases", elaboration), ("designators.size", .val "#1"), ("designators.0.path", .arg 0), ("designators.0.mode", .arg 1)],
  node "dir_factory::make_using_declaration()" .Using_declaration .generative [] (some .unset)
    [("phases", elaboration), ("designators.size", .val "#0")],
  node "dir_factory::make_using_directive(Scope,Type)" .Using_directive .generative ["Scope", "Type"] (some (.arg 1))
    [("phases", elaboration), ("nominated_scope", .arg 0)],
  -- the type of a phased evaluation is that of its expression (interface 1466-1469)
  node "dir_factory::make_phased_evaluation(Expr,Phases)" .Phased_evaluation .generative ["Expr", "Phases"] (some (.via 0 .h_type))
    [("phases", .arg 1), ("expression", .arg 0)],
  node "dir_factory::make_pragma()" .Pragma .generative [] (some .unset)
    [("operand.size", .val "#0"), ("phases", .val "#-1"), ("incantation.size", .val "#0")],
  -- tokens as a client builds them (directly, in a farm, inside a pragma): spelling, position, value and category as given --
  -- the position BY VALUE: the caller's variable moves on (second token of the pragma: operand 5 is operand 1 advanced)
  obj "Token::Token(String,Source_location,TokenValue,TokenCategory)" .Token .generative tokenSorts (tokenP 0 1 2 3 .self),
  obj "stable_farm<Token>::make(String,Source_location,TokenValue,TokenCategory)" .Token .generative tokenSorts (tokenP 0 1 2 3 .self),
  node "dir_factory::make_pragma()#tokens" .Pragma .generative (tokenSorts ++ tokenSorts) (some .unset)
    ([("operand.size", .val "#2"), ("operand.0", .own)] ++ pre "operand.0" ([("kind", .val "$Token")] ++ tokenP 0 1 2 3 (.same "operand.0")) ++
     [("operand.1", .own)] ++ pre "operand.1" ([("kind", .val "$Token")] ++ tokenP 4 5 6 7 (.same "operand.1")) ++
     [("phases", .val "#-1"), ("incantation.size", .val "#2"), ("incantation.0", .same "operand.0"), ("incantation.1", .same "operand.1")]),
  -- break and continue have type void (interface 1692-1704)
  node "stmt_factory::make_break()" .Break .generative [] (some (.const .k_void)) (stmtP ++ [("from", .unset)]),
  node "stmt_factory::make_continue()" .Continue .generative [] (some (.const .k_void)) (stmtP ++ [("iteration", .unset)]),
  blockP (some (.arg 1)) "stmt_factory::make_block(Region,Optional<Type>)" ["Region", "Type"],
  blockP (some .unset) "stmt_factory::make_block(Region,Optional<Type>)/1" ["Region"],
  node "stmt_factory::make_ctor_body(Expr_list,Block)" .Ctor_body .generative ["Expr_list", "Block"] (some .unset)
    ([("first", .arg 0), ("second", .arg 1)] ++ stmtP ++ [("inits", .arg 0), ("block", .arg 1)]),
  -- expression / goto statements have the type of their operand (interface 1593-1601, 1706-1712)
  node "stmt_factory::make_expr_stmt(Expr)" .Expr_stmt .generative ["Expr"] (some (.via 0 .h_type))
    ([("operand", .arg 0)] ++ stmtP ++ [("expr", .arg 0)]),
  node "stmt_factory::make_goto(Expr)" .Goto .generative ["Expr"] (some (.via 0 .h_type)) ([("operand", .arg 0)] ++ stmtP ++ [("target", .arg 0)]),
  node "stmt_factory::make_return(Expr)" .Return .generative ["Expr"] (some .unset) ([("operand", .arg 0)] ++ stmtP ++ [("value", .arg 0)]),
  controlled "stmt_factory::make_do()" .Do,
  -- If/2: no else branch (interface 1644-1651)
  node "stmt_factory::make_if(Expr,Expr)" .If .generative ["Expr", "Expr"] (some .unset)
    ([("first", .arg 0), ("second", .arg 1), ("third", .absent)] ++ stmtP ++ [("condition", .arg 0), ("consequence", .arg 1), ("alternative", .absent)]),
  node "stmt_factory::make_if(Expr,Expr,Expr)" .If .generative ["Expr", "Expr", "Expr"] (some .unset)
    ([("first", .arg 0), ("second", .arg 1), ("third", .arg 2)] ++ stmtP ++ [("condition", .arg 0), ("consequence", .arg 1), ("alternative", .arg 2)]),
  controlled "stmt_factory::make_switch()" .Switch,
  -- a labeled statement has the type of its statement (interface 1603-1620)
  node "stmt_factory::make_labeled_stmt(Expr,Expr)" .Labeled_stmt .generative ["Expr", "Expr"] (some (.via 1 .h_type))
    ([("first", .arg 0), ("second", .arg 1)] ++ stmtP ++ [("label", .arg 0), ("stmt", .arg 1)]),
  controlled "stmt_factory::make_while()" .While,
  node "stmt_factory::make_for()" .For .generative [] (some .unset)
    (stmtP ++ [("initializer", .unset), ("condition", .unset), ("increment", .unset), ("body", .unset)]),
  node "stmt_factory::make_for_in()" .For_in .generative [] (some .unset)
    (stmtP ++ [("variable", .unset), ("sequence", .unset), ("body", .unset)]),
  node "Lexicon::get_template_id(Expr,Expr_list)" .Template_id .unified ["Expr", "Expr_list"] none
    [("first", .arg 0), ("second", .arg 1), ("template_name", .arg 0), ("args", .arg 1)],
  node "Lexicon::get_literal(Type,word_view)" .Literal .unified ["Type", "word_view"] (some (.arg 0))
    ([("implementation", .absent), ("first", .arg 0), ("second", .own)] ++ pre "second" (stringPartAt 1) ++ [("string", .same "second")]),
  node "Lexicon::get_literal(Type,String)" .Literal .unified ["Type", "String"] (some (.arg 0))
    [("implementation", .absent), ("first", .arg 0), ("second", .arg 1), ("string", .arg 1)],
  -- asm is evaluated at code generation (0x100), a static assertion during elaboration (interface 1460-1469)
  node "Lexicon::make_asm(String)" .Phased_evaluation .generative ["String"] (some (.const .k_void))
    [("phases", .val "#256"), ("expression", .own), ("expression.kind", .val "$Asm"), ("expression.type", .const .k_void),
     ("expression.operand", .arg 0), ("expression.text", .arg 0)],
  node "Lexicon::make_static_assert(Expr,Optional<String>)" .Phased_evaluation .generative ["Expr", "String"] (some (.const .k_bool))
    [("phases", elaboration), ("expression", .own), ("expression.kind", .val "$Static_assert"), ("expression.type", .const .k_bool),
     ("expression.first", .arg 0), ("expression.second", .arg 1), ("expression.condition", .arg 0), ("expression.message", .arg 1)],
  node "Lexicon::make_static_assert(Expr,Optional<String>)#nomessage" .Phased_evaluation .generative ["Expr"] (some (.const .k_bool))
    [("phases", elaboration), ("expression", .own), ("expression.kind", .val "$Static_assert"), ("expression.type", .const .k_bool),
     ("expression.first", .arg 0), ("expression.second", .absent), ("expression.condition", .arg 0), ("expression.message", .absent)],
  node "Lexicon::make_mapping(Region,Mapping_level)" .Mapping .generative ["Region", "Mapping_level"] (some .unset)
    (paramList (.arg 0) (.arg 1) .self ++ [("result", .unset)]),
  node "Lexicon::make_mapping(Region,Mapping_level)/1" .Mapping .generative ["Region"] (some .unset)
    (paramList (.arg 0) (.val "#0") .self ++ [("result", .unset)]),
  -- the same nodes once their parts have been supplied: each part under its accessor; loops, handlers and
  -- instantiations take the type of the designated part (interface 1386, 1466, impl 1474-1485, 2444-2468)
  node "stmt_factory::make_for()#linked" .For .generative ["Expr", "Expr", "Expr", "Stmt"] (some (.via 3 .h_type))
    (stmtP ++ [("initializer", .arg 0), ("condition", .arg 1), ("increment", .arg 2), ("body", .arg 3)]),
  node "stmt_factory::make_for_in()#linked" .For_in .generative ["Var", "Expr", "Stmt"] (some (.via 2 .h_type))
    (stmtP ++ [("variable", .arg 0), ("sequence", .arg 1), ("body", .arg 2)]),
  controlledLinked "stmt_factory::make_while()#linked" .While,
  controlledLinked "stmt_factory::make_do()#linked" .Do,
  controlledLinked "stmt_factory::make_switch()#linked" .Switch,
  node "stmt_factory::make_break()#linked" .Break .generative ["Stmt"] (some (.const .k_void)) (stmtP ++ [("from", .arg 0)]),
  node "stmt_factory::make_continue()#linked" .Continue .generative ["Stmt"] (some (.const .k_void)) (stmtP ++ [("iteration", .arg 0)]),
  node "expr_factory::make_instantiation(Expr,Substitution)#linked" .Instantiation .generative ["Expr", "Substitution", "Expr"] (some (.via 2 .h_type))
    [("pattern", .arg 0), ("substitution", .arg 1), ("instance", .arg 2)],
  node "Lexicon::make_mapping(Region,Mapping_level)#linked" .Mapping .generative ["Region", "Mapping_level", "Expr", "Type"] (some (.arg 3))
    (paramList (.arg 0) (.arg 1) .self ++ [("result", .arg 2)]),
  node "expr_factory::make_lambda(Region,Mapping_level)#linked" .Lambda .generative
    ["Region", "Mapping_level", "Expr", "Type", "Expr", "Expr", "Closure"] (some (.arg 6))
    (paramList (.arg 0) (.arg 1) .self ++ [("result", .arg 2), ("target", .arg 3), ("requirement", .arg 4), ("attributes.size", .val "#0"),
      ("eh_specification", .arg 5), ("specifiers", .val "#2"), ("captures.size", .val "#0")])]

/-! ### members of containers (leading operands: what the container was built from, then the container) -/

/-- parts of a part: what is `self` for the part is `same <path>` seen from the node -/
def reself (path : String) (l : List A) : List A :=
  l.map fun (a, s) => (a, match s with | .self => Src.same path | s => s)

/-- The handler made by `Block::new_handler(name, type)`: an exception parameter with that name and type declared in the
    region enclosing the try block, and a body block in a region of its own, below the parameter's region; the handler
    has the type of its body (interface 1720-1727, 1835-1842; impl 2363-2416). -/
def handlerP (bodyType : Src) : List A :=
  let eh : List A := [("kind", Src.val "$EH_parameter"), ("type", Src.arg 3)] ++
    reself "exception" (uniqueDeclP [("name", .arg 2)] [("home_region", .arg 0)] [("lexical_region", .arg 0)] [("initializer", .absent)])
  let body : List A := [("kind", Src.val "$Block"), ("type", bodyType)] ++ stmtP ++ [("region", Src.own)] ++
    pre "region" (regionShallow .own (.same "body")) ++ [("body.size", Src.val "#0"), ("handlers.size", Src.val "#0"), ("try_block", Src.val "#0")]
  stmtP ++ [("exception", Src.own)] ++ pre "exception" eh ++ [("body", Src.own)] ++ pre "body" body

def varLike (key : String) (k : Kind) (sorts : List String) (n t : Nat) (extra : List A) : Row :=
  node key k .generative sorts (some (.arg t)) (declP (.arg n) .absent ++ extra)

def templateP (primary : Src) : List A :=
  [("primary_template", primary), ("specializations.size", .val "#0"), ("mapping", .unset), ("parameters", .unset), ("result", .unset),
   ("definition", .absent)]

/-- the eight declaration makers of a scope-like container; `c` operands precede (name, type) -/
def declMakers (cls : String) (fn : List String) (lead : List String) (aliasTyp : Src) : List Row :=
  let n := lead.length
  let key (i : Nat) (sig : String) := cls ++ "::" ++ fn.getD i "" ++ sig
  [ -- an alias has the type of what it is an alias for, which is its initializer (interface 1801-1808)
    node (key 0 (if cls == "Scope" then "(Name,Expr)" else "(Name,Type)")) .Alias .generative
      (lead ++ ["Name", if cls == "Scope" then "Expr" else "Type"]) (some aliasTyp) (declP (.arg n) (.arg (n + 1))),
    varLike (key 1 "(Name,Type)") .Var (lead ++ ["Name", "Type"]) n (n + 1) [("definition", .absent)],
    varLike (key 2 "(Name,Type)") .Field (lead ++ ["Name", "Type"]) n (n + 1) [],
    varLike (key 3 "(Name,Type)") .Bitfield (lead ++ ["Name", "Type"]) n (n + 1) [("precision", .unset)],
    varLike (key 4 "(Name,Type)") .Typedecl (lead ++ ["Name", "Type"]) n (n + 1) [("definition", .absent)],
    -- a function declaration without definition: no mapping, parameters not yet attached (impl 1974-1993)
    varLike (key 5 "(Name,Function)") .Fundecl (lead ++ ["Name", "Function"]) n (n + 1)
      [("mapping", .absent), ("parameters", .unset), ("definition", .absent)],
    node (key 6 "(Name,Forall)") .Template .generative (lead ++ ["Name", "Forall"]) (some (.arg (n + 1))) (declP (.arg n) .unset ++ templateP .self),
    node (key 7 "(Name,Forall)") .Template .generative (lead ++ ["Name", "Forall"]) (some (.arg (n + 1))) (declP (.arg n) .unset ++ templateP .unset)]

def regionFns : List String :=
  ["declare_alias", "declare_var", "declare_field", "declare_bitfield", "declare_type", "declare_fun", "declare_primary_template", "declare_secondary_template"]
def scopeFns : List String :=
  ["make_alias", "make_var", "make_field", "make_bitfield", "make_typedecl", "make_fundecl", "make_primary_template", "make_secondary_template"]
/-- order in which `Udt` declares them (include/ipr/impl) -/
def udtOrder (l : List Row) : List Row := [l.getD 0 default, l.getD 2 default, l.getD 3 default, l.getD 1 default] ++ l.drop 4

/-- home region of a member of a homogeneous region: below `enclosing`, owned by `owner`, holding exactly this member -/
def memberHome (enclosing owner : Src) : List A :=
  [("home_region", .own)] ++ pre "home_region" (regionWithMember enclosing owner .self)

/-- `declP` for the second declaration of a (name, type) pair: operand 3 is the first declaration -/
def redeclP (name : Src) (init : Src) : List A :=
  stmtP ++ [("specifiers", .val "#0"), ("linkage", .unset), ("name", name), ("home_region", .unset), ("lexical_region", .unset),
            ("initializer", init), ("master", .arg 3), ("decl_set.size", .val "#2"), ("decl_set.0", .arg 3), ("decl_set.1", .self)]

/-- the eight declaration makers of a scope called a second time with the same name and type
    (operands: scope, name, type / initializer, first declaration) -/
def redeclMakers : List Row :=
  let key (i : Nat) (sig : String) := "Scope::" ++ scopeFns.getD i "" ++ sig ++ "#redeclaration"
  let v (i : Nat) (sig : String) (k : Kind) (sort2 kindSort : String) (extra : List A) : Row :=
    node (key i sig) k .generative ["Scope", "Name", sort2, kindSort] (some (.arg 2)) (redeclP (.arg 1) .absent ++ extra)
  [ node (key 0 "(Name,Expr)") .Alias .generative ["Scope", "Name", "Expr", "Alias"] (some (.via 2 .h_type)) (redeclP (.arg 1) (.arg 2)),
    v 1 "(Name,Type)" .Var "Type" "Var" [("definition", .absent)],
    v 2 "(Name,Type)" .Field "Type" "Field" [],
    v 3 "(Name,Type)" .Bitfield "Type" "Bitfield" [("precision", .unset)],
    v 4 "(Name,Type)" .Typedecl "Type" "Typedecl" [("definition", .absent)],
    v 5 "(Name,Function)" .Fundecl "Function" "Fundecl" [("mapping", .absent), ("parameters", .unset), ("definition", .absent)],
    -- the primary template of a redeclared primary template is the master declaration
    node (key 6 "(Name,Forall)") .Template .generative ["Scope", "Name", "Forall", "Template"] (some (.arg 2))
      (redeclP (.arg 1) .unset ++ templateP (.arg 3)),
    node (key 7 "(Name,Forall)") .Template .generative ["Scope", "Name", "Forall", "Template"] (some (.arg 2))
      (redeclP (.arg 1) .unset ++ templateP .unset)]

/-- An expression list holding exactly operand `m`; `ts` is where the single component of its type comes from: the type of the
    member AS IT IS WHEN THE LIST'S TYPE IS READ (interface 924-934) -- also when the member was typed, re-typed or linked after it
    was added and after the list's type had been read. -/
def listOfOne (key : String) (sorts : List String) (m : Nat) (ts : Src) : Row :=
  node key .Expr_list .generative sorts (some .own)
    (pre "type" ([("kind", .val "$Product"), ("type", .const .k_typename), ("operand.size", .val "#1"), ("operand.0", ts)] ++
       typeIdName (.same "type") ++ cxx ++
       [("elements.size", .val "#1"), ("elements.0", ts), ("size", .val "#1"), ("index.size", .val "#1"), ("index.0", ts)]) ++
     [("operand.size", .val "#1"), ("operand.0", .arg m), ("elements.size", .val "#1"), ("elements.0", .arg m), ("size", .val "#1")])

/-- a base-class subobject is named like its type; it lives in the class's region of bases (interface 1810-1823) -/
def baseRow : Row :=
  node "Class::declare_base(Type)" .Base_type .generative ["Region", "Class", "Type"] (some (.arg 2))
    (uniqueDeclP [("name", .via 2 .h_name)] (memberHome (.arg 0) (.arg 1)) [("lexical_region", .same "home_region")] [("initializer", .unset)] ++
     [("position", .val "#0")])

/-- an enumerator has the type of its enumeration (interface 1795-1799) -/
def enumeratorRow : Row :=
  node "Enum::add_member(Name)" .Enumerator .generative ["Region", "Enum", "Name"] (some (.arg 1))
    (uniqueDeclP [("name", .arg 2)] (memberHome (.arg 0) (.arg 1)) [("lexical_region", .same "home_region")] [("initializer", .absent)] ++
     [("position", .val "#0")])

/-- a parameter: name, type, the level of its list, position 0 in a fresh list, no default (interface 1825-1833) -/
def parameterRow : Row :=
  node "Parameter_list::add_member(Name,Type)" .Parameter .generative ["Region", "Mapping_level", "Mapping", "Parameter_list", "Name", "Type"] (some (.arg 5))
    (uniqueDeclP [("name", .arg 4)] (memberHome (.arg 0) (.arg 2)) [("lexical_region", .same "home_region")] [("initializer", .absent)] ++
     [("level", .arg 1), ("position", .val "#0"), ("default_value", .absent)])

def mappingParamRow : Row :=
  node "Mapping::param(Name,Type)" .Parameter .generative ["Region", "Mapping_level", "Mapping", "Name", "Type"] (some (.arg 4))
    (uniqueDeclP [("name", .arg 3)] (memberHome (.arg 0) (.arg 2)) [("lexical_region", .same "home_region")] [("initializer", .absent)] ++
     [("level", .arg 1), ("position", .val "#0"), ("default_value", .absent)])

/-- **A later addition never merges with an earlier member.**  The row of the member that `r` documents, when the list already holds ONE
    member (the last operand; the operands before it are the name / type the earlier member was made from) -- whatever the relation of
    the two: the same name and the same type, the same name only, the same type only, no name at all.  The addition yields a NEW
    member at the end: its position is 1 (positions are indices), the list's region and scope hold the earlier member and then this
    one, and name and type are the ones given to THIS addition (interface 1426-1440: a parameter is characterised by its position). -/
def secondMember (r : Row) (suffix : String) (extra : List String) (name : Option Src) : Row :=
  let first := r.sorts.length + extra.length - 1
  { r with key := r.key ++ suffix, sorts := r.sorts ++ extra,
           acc := r.acc.flatMap fun (a, s) =>
             if a == "position" then [(a, Src.val "#1")]
             else if a == "home_region.body.size" || a == "home_region.bindings.elements.size" || a == "home_region.bindings.size" then [(a, Src.val "#2")]
             else if a == "home_region.body.0" then [(a, Src.arg first), ("home_region.body.1", Src.self)]
             else if a == "home_region.bindings.elements.0" then [(a, Src.arg first), ("home_region.bindings.elements.1", Src.self)]
             else if a == "name" then [(a, name.getD s)]
             else [(a, s)] }

def secondParameters (r : Row) : List Row :=
  [secondMember r "#after-same-key" ["Name", "Type", "Parameter"] none,
   secondMember r "#after-same-name" ["Name", "Type", "Parameter"] none,
   secondMember r "#after-same-type" ["Name", "Type", "Parameter"] none,
   secondMember r "#both-unnamed" ["Name", "Type", "Parameter"] (some (.const .k_empty_identifier))]

/-- The global namespace a unit is created with: named by the empty identifier, a region of its own that is the global one. -/
def unitNamespace : List A :=
  [("global_namespace", .own)] ++ pre "global_namespace" (
     [("kind", .val "$Namespace"), ("type", .const .k_namespace), ("name", .const .k_empty_identifier)] ++ cxx ++ [("region", .own)] ++
     pre "region" [("kind", .val "$Region"), ("span", .val "#0:0:0-0:0:0"), ("enclosing", .unset), ("owner", .same "global_namespace"),
                   ("body.size", .val "#0"), ("bindings", .own), ("global", .val "#1")] ++
     [("scope", .same "global_namespace.region.bindings"), ("members.size", .val "#0")])

def containers : List Row :=
  [node "Region::make_subregion()" .Region .generative ["Region"] none
     ([("span", .val "#0:0:0-0:0:0"), ("enclosing", .arg 0), ("owner", .absent), ("body.size", .val "#0"), ("bindings", .own)] ++
      pre "bindings" ([("kind", .val "$Scope"), ("type", .own)] ++ pre "type" emptyProductShallow ++ [("elements.size", .val "#0"), ("size", .val "#0")]) ++
      [("global", .val "#0")])] ++
  -- `Region::declare_alias(n, t)` aliases the type t: the alias's type is the type of t, i.e. `typename` for every compound type
  declMakers "Region" regionFns ["Region"] (.const .k_typename) ++
  declMakers "Scope" scopeFns ["Scope"] (.via 2 .h_type) ++
  -- declaration specifiers assigned twice after the declaration was made: the declaration reports the set assigned last (operand 4)
  (declMakers "Scope" scopeFns ["Scope"] (.via 2 .h_type)).map (fun r =>
    { r with key := r.key ++ "#specifiers-set-twice", sorts := r.sorts ++ ["Specifiers", "Specifiers"],
             acc := r.acc.map fun (a, s) => if a == "specifiers" then (a, Src.arg 4) else (a, s) }) ++
  -- a redeclaration (second entry of the same name and type in one scope) joins the declaration set of the first declaration,
  -- which stays the master; everything else reads as for a first declaration (interface 1765-1770; src/impl.cxx `redeclare` paths)
  redeclMakers ++
  udtOrder (declMakers "Udt" regionFns ["Region", "Class"] (.const .k_typename)) ++
  [baseRow, enumeratorRow, parameterRow, mappingParamRow] ++
  -- a member added to a list that already holds one whose key it repeats: a NEW member at the end (see `secondMember`)
  secondParameters parameterRow ++ secondParameters mappingParamRow ++
  [secondMember enumeratorRow "#after-same-key" ["Name", "Enumerator"] none,
   secondMember enumeratorRow "#after-other-name" ["Name", "Enumerator"] none,
   secondMember enumeratorRow "#both-unnamed" ["Name", "Enumerator"] (some (.const .k_empty_identifier)),
   secondMember baseRow "#after-same-key" ["Type", "Base_type"] none,
   secondMember baseRow "#after-other-type" ["Type", "Base_type"] none] ++
  [
    node "Block::new_handler(Name,Type)" .Handler .generative ["Region", "Block", "Name", "Type"] (some .unset) (handlerP .unset),
    node "Block::add_stmt(Expr)" .Block .generative ["Region", "Block", "Expr"] (some .unset)
      (stmtP ++ [("region", .own)] ++ pre "region" (
         [("kind", .val "$Region"), ("span", .val "#0:0:0-0:0:0"), ("enclosing", .arg 0), ("owner", .self), ("body.size", .val "#1"), ("body.0", .arg 2),
          ("bindings", .own), ("bindings.kind", .val "$Scope"), ("bindings.type", .own), ("bindings.elements.size", .val "#0"),
          ("bindings.size", .val "#0"), ("global", .val "#0")]) ++
       [("body.size", .val "#1"), ("body.0", .arg 2), ("handlers.size", .val "#0"), ("try_block", .val "#0")]),
    node "handler_block::add_stmt(Expr)" .Block .generative ["Region", "Handler", "Expr"] (some .unset)
      (stmtP ++ [("region", .own)] ++ pre "region" (
         [("kind", .val "$Region"), ("span", .val "#0:0:0-0:0:0"), ("enclosing", .own)] ++
         pre "enclosing" [("kind", .val "$Region"), ("span", .val "#0:0:0-0:0:0"), ("enclosing", .arg 0), ("owner", .absent), ("body.size", .val "#1"),
                          ("body.0", .own), ("bindings", .own), ("global", .val "#0")] ++
         [("owner", .self), ("body.size", .val "#1"), ("body.0", .arg 2),
          ("bindings", .own), ("bindings.kind", .val "$Scope"), ("bindings.type", .own), ("bindings.elements.size", .val "#0"),
          ("bindings.size", .val "#0"), ("global", .val "#0")]) ++
       [("body.size", .val "#1"), ("body.0", .arg 2), ("handlers.size", .val "#0"), ("try_block", .val "#0")]),
    -- the type of an expression list is the product of its elements' types, also after an addition (interface 924-934)
    listOfOne "Expr_list::push_back(Expr)" ["Expr_list", "Expr"] 1 (.via 1 .h_type),
    -- the member (an id-expression) had no type when added and when the list's type was first read; typed afterwards (last operand)
    listOfOne "Expr_list::push_back(Expr)#late-typed" ["Expr_list", "Name", "Id_expr", "Type"] 2 (.arg 3),
    -- the member had a provisional type (operand 2) when added and read; re-typed afterwards (last operand)
    listOfOne "Expr_list::push_back(Expr)#retyped" ["Expr_list", "Name", "Type", "Id_expr", "Type"] 3 (.arg 4),
    -- the member is a loop whose body (hence type) is linked afterwards
    listOfOne "Expr_list::push_back(Expr)#late-linked" ["Expr_list", "While", "Expr", "Expr"] 1 (.via 1 .h_type),
    -- a module unit has a global namespace of its own (named by the empty identifier) and belongs to its module
    obj "Module::make_unit()" .Module_unit .generative ["Module"]
      (unitNamespace ++ [("imported_modules.size", .val "#0"), ("parent_module", .arg 0), ("purview.size", .val "#0")]),
    -- a module: its name has no stem yet, its interface unit is created with it and belongs to it, no implementation unit yet
    obj "Module::Module(Lexicon)" .Module .generative []
      ([("name", .own), ("name.kind", .val "$Module_name"), ("name.stems.size", .val "#0"), ("interface_unit", .own)] ++
       pre "interface_unit" (
         [("kind", .val "$Interface_unit"), ("global_namespace", .own)] ++ pre "global_namespace" (
            [("kind", .val "$Namespace"), ("type", .const .k_namespace), ("name", .const .k_empty_identifier)] ++ cxx ++
            [("region", .own), ("scope", .own), ("members.size", .val "#0")]) ++
         [("imported_modules.size", .val "#0"), ("parent_module", .self), ("purview.size", .val "#0"),
          ("exported_modules.size", .val "#0"), ("exported_declarations.size", .val "#0")]) ++
       [("implementation_units.size", .val "#0")]),
    -- the interface unit of a module (interface: Interface_unit): FOUR member sequences -- the modules it imports, the declarations of
    -- its purview, the modules it re-exports, the declarations it exports -- all empty at creation, each filled by the client
    obj "Module::Module(Lexicon)#interface-unit" .Interface_unit .generative ["Module"]
      (unitNamespace ++ [("imported_modules.size", .val "#0"), ("parent_module", .arg 0), ("purview.size", .val "#0"),
                         ("exported_modules.size", .val "#0"), ("exported_declarations.size", .val "#0")]),
    obj "Translation_unit::Translation_unit(Lexicon)" .Translation_unit .generative [] (unitNamespace ++ [("imported_modules.size", .val "#0")])]

/-! ### attributes, capture specifications, declarator forms -/

def binAttr (key : String) (k : Kind) (s1 s2 a1 a2 : String) : Row :=
  obj key k .generative [s1, s2] [("first", .arg 0), ("second", .arg 1), (a1, .arg 0), (a2, .arg 1)]

def species (extra : List A) : List A := [("suffix.size", .val "#0"), ("attributes.size", .val "#0")] ++ extra

def forms : List Row := [
  obj "attr_factory::make_basic_attribute(Token)" .BasicAttribute .generative ["Token"] [("operand", .arg 0), ("token", .arg 0)],
  binAttr "attr_factory::make_scoped_attribute(Token,Token)" .ScopedAttribute "Token" "Token" "scope" "member",
  binAttr "attr_factory::make_labeled_attribute(Token,Attribute)" .LabeledAttribute "Token" "Attribute" "label" "attribute",
  binAttr "attr_factory::make_called_attribute(Attribute,Sequence<Attribute>)" .CalledAttribute "Attribute" "Sequence<Attribute>" "function" "arguments",
  -- `attribute...`: expander() is the token, operand() the attribute (attribute 75-79)
  binAttr "attr_factory::make_expanded_attribute(Token,Attribute)" .ExpandedAttribute "Token" "Attribute" "expander" "operand",
  binAttr "attr_factory::make_factored_attribute(Token,Sequence<Attribute>)" .FactoredAttribute "Token" "Sequence<Attribute>" "factor" "terms",
  obj "attr_factory::make_elaborated_attribute(Expr)" .ElaboratedAttribute .generative ["Expr"] [("operand", .arg 0), ("elaboration", .arg 0)],
  obj "capture_spec_factory::default_capture(Binding_mode)" .Capture_specification_Default .generative ["Binding_mode"] [("mode", .arg 0)],
  obj "capture_spec_factory::implicit_object_capture(Binding_mode)" .Capture_specification_Implicit_object .generative ["Binding_mode"] [("how", .arg 0)],
  -- a captured enclosing local is named like its declaration (interface 843-846)
  obj "capture_spec_factory::enclosing_local_capture(Decl,Binding_mode)" .Capture_specification_Enclosing_local .generative ["Var", "Binding_mode"]
    [("name", .via 0 .h_name), ("mode", .arg 1), ("declaration", .arg 0)],
  -- ... and it captures the declaration GIVEN, also a redeclaration or a parameter
  obj "capture_spec_factory::enclosing_local_capture(Decl,Binding_mode)#redeclaration" .Capture_specification_Enclosing_local .generative
    ["Redeclaration", "Binding_mode"] [("name", .via 0 .h_name), ("mode", .arg 1), ("declaration", .arg 0)],
  obj "capture_spec_factory::enclosing_local_capture(Decl,Binding_mode)#parameter" .Capture_specification_Enclosing_local .generative
    ["Parameter", "Binding_mode"] [("name", .via 0 .h_name), ("mode", .arg 1), ("declaration", .arg 0)],
  obj "capture_spec_factory::binding_capture(Identifier,Expr,Binding_mode)" .Capture_specification_Binding .generative ["Identifier", "Expr", "Binding_mode"]
    [("name", .arg 0), ("mode", .arg 2), ("initializer", .arg 1)],
  obj "capture_spec_factory::expansion_capture(Capture_specification::Named)" .Capture_specification_Expansion .generative
    ["Capture_specification::Named"] [("what", .arg 0)],
  obj "form_factory::make_monadic_constraint(Identifier)" .Constraint_Monadic .generative ["Identifier"] [("scope", .absent), ("concept_name", .arg 0)],
  obj "form_factory::make_monadic_constraint(Expr,Identifier)" .Constraint_Monadic .generative ["Expr", "Identifier"] [("scope", .arg 0), ("concept_name", .arg 1)],
  obj "form_factory::make_polyadic_constraint(Identifier)" .Constraint_Polyadic .generative ["Identifier"]
    [("scope", .absent), ("concept_name", .arg 0), ("trailing_arguments.size", .val "#0")],
  obj "form_factory::make_polyadic_constraint(Expr,Identifier)" .Constraint_Polyadic .generative ["Expr", "Identifier"]
    [("scope", .arg 0), ("concept_name", .arg 1), ("trailing_arguments.size", .val "#0")],
  obj "form_factory::make_simple_requirement(Expr)" .Requirement_Simple .generative ["Expr"] [("expr", .arg 0)],
  obj "form_factory::make_type_requirement(Name)" .Requirement_Type .generative ["Name"] [("scope", .absent), ("type_name", .arg 0)],
  obj "form_factory::make_type_requirement(Expr,Name)" .Requirement_Type .generative ["Expr", "Name"] [("scope", .arg 0), ("type_name", .arg 1)],
  obj "form_factory::make_compound_requirement(Expr)" .Requirement_Compound .generative ["Expr"]
    [("expr", .arg 0), ("constraint", .absent), ("nothrow", .val "#0")],
  obj "form_factory::make_nested_requirement(Expr)" .Requirement_Nested .generative ["Expr"] [("condition", .arg 0)],
  obj "form_factory::make_pointer_indirector(Qualifiers)" .Indirector_Pointer .generative ["Qualifiers"] [("attributes.size", .val "#0"), ("qualifiers", .arg 0)],
  obj "form_factory::make_reference_indirector(Reference_flavor)" .Indirector_Reference .generative ["Reference_flavor"]
    [("attributes.size", .val "#0"), ("flavor", .arg 0)],
  obj "form_factory::make_member_indirector(Expr,Qualifiers)" .Indirector_Member .generative ["Expr", "Qualifiers"]
    [("attributes.size", .val "#0"), ("scope", .arg 0), ("qualifiers", .arg 1)],
  obj "form_factory::make_unqualified_id_species()" .Species_Unqualified_id .generative [] (species [("name", .absent)]),
  obj "form_factory::make_unqualified_id_species(Name)" .Species_Unqualified_id .generative ["Name"] (species [("name", .arg 0)]),
  obj "form_factory::make_pack_species()" .Species_Pack .generative [] (species [("name", .absent)]),
  obj "form_factory::make_pack_species(Identifier)" .Species_Pack .generative ["Identifier"] (species [("name", .arg 0)]),
  obj "form_factory::make_qualified_id_species(Expr,Name)" .Species_Qualified_id .generative ["Expr", "Name"] (species [("scope", .arg 0), ("member", .arg 1)]),
  obj "form_factory::make_parenthesized_species()" .Species_Parenthesized .generative [] [("suffix.size", .val "#0"), ("term", .unset)],
  obj "form_factory::make_function_morphism(Region,Mapping_level)" .Morphism_Function .generative ["Region", "Mapping_level"]
    ([("attributes.size", .val "#0")] ++ paramList (.arg 0) (.arg 1) .absent ++ [("qualifiers", .val "#0"), ("binding_mode", .val "#0"), ("throws", .absent)]),
  obj "form_factory::make_array_morphism()" .Morphism_Array .generative [] [("attributes.size", .val "#0"), ("bound", .absent)],
  obj "form_factory::make_term_declarator()" .Declarator_Term .generative [] [("species", .unset), ("indirectors.size", .val "#0")],
  obj "form_factory::make_targeted_declarator(Species_declarator,Type)" .Declarator_Targeted .generative ["Species_declarator", "Type"]
    [("species", .arg 0), ("target", .arg 1)],
  obj "form_factory::make_classic_provision(Elemental_initializer)" .Classic_provision .generative ["Elemental_initializer"] [("initializer", .arg 0)],
  obj "form_factory::make_parenthesized_provision(Expr)" .Parenthesized_provision .generative ["Expr"] [("initializer", .arg 0)],
  obj "form_factory::make_braced_provision()" .Braced_provision .generative [] [("elements.size", .val "#0")],
  obj "form_factory::make_designated_provision()" .Designated_list_provision .generative [] [("elements.size", .val "#0")],
  obj "form_factory::make_field_designator(Identifier)" .Field_designator .generative ["Identifier"] [("name", .arg 0)],
  obj "form_factory::make_slot_designator(Expr)" .Slot_designator .generative ["Expr"] [("index", .arg 0)]]

/-- The documented wiring of every factory entry called with operands from the pools of distinct nodes (the BASE rows), in the order
    of the entries of `harness/c02probe.cxx`. -/
def baseWiring : Table :=
  namesAndSymbols ++ unaries ++ binaries ++ types ++ directivesAndStatements ++
  [node "Block::new_handler(Name,Type)#body-typed" .Handler .generative ["Region", "Block", "Name", "Type", "Type"] (some (.arg 4)) (handlerP (.arg 4))] ++
  containers ++ forms

/-! ### Operand forms

What a node reports about an operand does not depend on how that operand was built, on the state it is in, or on when the client
fills it: the statement of the property quantifies over ALL operands.  For every base row the probe therefore runs the same
factory again with operands of particular forms, and the documented row is the base row itself under another key:

* `#nested` — an `Expr` operand of a factory that builds expressions (a `Type` operand of a factory that builds types) is a node
  that an EARLIER CALL OF THE SAME FACTORY FUNCTION returned (any overload, any documented form): a rewrite whose target is a
  rewrite, `As_type` over a non-built-in `As_type` (natural and foreign transfer), a cast of a cast …; one slot at a time and all
  slots together.  Not for `Qualified`, whose nesting is the documented normal form of the `#merge` row.
* `#resolved-operand` — an `Expr` operand is an id-expression that HAS A RESOLUTION: made by `make_id_expr(const Decl&)` from any
  form of declaration (a parameter with a default argument, a redeclaration, an enumerator with an initializer …), or made from a
  name and resolved by the client (`decls`) before the call, or after the call; the type given to the factory is another node than
  the id-expression's type.
* `#reserved-spelling` — `String` / word / `Name` / `Identifier` operands that spell a RESERVED WORD (`nullptr`, `true`, `int`, `this`,
  `C++` …: process-wide constants of the string pool) next to a `Type` operand that is not the "natural" type of any such word
  (`int`, `const bool`, a pointer, `As_type` over an alias of `decltype(nullptr)` …).  When the spelling is passed as a word, the
  String the node reports is that process-wide constant, which exists before the call: it is recorded as one more operand (the
  String `get_string` answers for the word) and is what `second()` / `string()` must be.
* `#list-filled-later` — an `Expr_list` operand (and a `Block` next to it) is EMPTY when the node is made and filled by the client
  afterwards (before or after the first read), or filled before and grown afterwards: supplied is supplied — the part reads as
  present and as that very list.
* `#near-equal` — the request is made right BEFORE / right AFTER a request to the same function whose operands differ from its own in
  exactly ONE operand, and there only in a component that a factory might regard as insignificant: a `Type` operand is `T` in one
  request and a cv-qualified `T` in the other (either of the two is the one observed), a `Function` operand differs only in
  `throws()` / only in its transfer / only in the qualification of its target, a `Forall` operand in the qualification of its target;
  the name, the word, the scope the declaration is entered into are THE SAME.  Near-equal operands are different operands: the node
  reports the ones IT was given (a second function declaration of a name reports its own type and is its own master; the literal
  `(const int, "42")` is not the literal `(int, "42")`).  Not for `Qualified`, whose normal form merges qualifiers.

and one form that concerns the RESULT rather than the operands:

* `#lists-filled` — every member sequence of the result that the client fills (`fillOrder`) receives members right after the call: the
  j-th sequence of the node j+1 of them, no member given to two sequences (further operands, after the operands of the call).  Each
  sequence accessor reports exactly the members given to THAT sequence, in order: the purview of an interface unit is not its export
  list, the attributes of a lambda are not its captures (`filledForm`).
-/

def isTypeKind : Kind → Bool
  | .Array | .Class | .Decltype | .As_type | .Enum | .Tor | .Function | .Namespace | .Pointer | .Ptr_to_member | .Product
  | .Qualified | .Reference | .Rvalue_reference | .Sum | .Forall | .Union | .Auto | .Closure => true
  | _ => false

/-- the row `r` under the key of one of its operand forms -/
def form (r : Row) (suffix : String) : Row := { r with key := r.key ++ suffix }

def nestable (r : Row) : Bool :=
  r.kind != .Qualified && ((r.typ.isSome && r.sorts.contains "Expr") || (isTypeKind r.kind && r.sorts.contains "Type"))

def spelled (r : Row) : Bool :=
  r.sorts.contains "Type" &&
    (r.sorts.contains "String" || r.sorts.contains "word_view" || r.sorts.contains "Name" || r.sorts.contains "Identifier")

/-- A reserved spelling passed as a word: the String reported is the process-wide constant (one more operand, the last). -/
def reservedForm (r : Row) : Row :=
  if r.sorts.contains "word_view" then
    let n := r.sorts.length
    { r with key := r.key ++ "#reserved-spelling", sorts := r.sorts ++ ["String"],
             acc := (r.acc.filter fun (a, _) => !(a == "second.kind" || a == "second.characters" || a == "second.size")).map fun (a, s) =>
                      if a == "second" || a == "string" then (a, Src.arg n) else (a, s) }
  else form r "#reserved-spelling"

/-- a request can have a near-equal neighbour when it takes a type, a function type or a template type -/
def nearable (r : Row) : Bool :=
  r.kind != .Qualified && (r.sorts.contains "Type" || r.sorts.contains "Function" || r.sorts.contains "Forall")

/-- the operand forms under which the entry of base row `r` is run again, in the order the probe runs them -/
def operandForms (r : Row) : List Row :=
  (if nestable r then [form r "#nested"] else []) ++
  (if r.sorts.contains "Expr" then [form r "#resolved-operand"] else []) ++
  (if spelled r then [reservedForm r] else []) ++
  (if r.sorts.contains "Expr_list" && r.kind != .Expr_list then [form r "#list-filled-later"] else []) ++
  (if nearable r then [form r "#near-equal"] else [])

/-- The member sequences a client fills through the implementation class of a result: the accessor the interface documents for each
    and the sort of its members, in the order the probe fills them (`fill_lists` of harness/c02probe.cxx: imports, purview, exported
    modules, exported declarations of a unit; attributes; captures of a lambda; trailing arguments of a constraint; suffix of a
    declarator species; indirectors of a declarator; elements of a braced initializer; requirements of a requires-expression; names and
    declarations of a structured binding).  Three accessor names are shared with sequences of other kinds that are filled through a
    factory of their own (`elements` of an expression list, `body` of a block, `bindings` of a region): they count for one kind only. -/
def fillOrder : List (String × String × Option Kind) :=
  [("imported_modules", "Module", none), ("purview", "Decl", none), ("exported_modules", "Module", none), ("exported_declarations", "Decl", none),
   ("attributes", "Attribute", none), ("captures", "Capture_specification", none), ("trailing_arguments", "Expr", none),
   ("suffix", "Morphism", none), ("indirectors", "Indirector", none), ("elements", "Elemental_initializer", some .Braced_provision),
   ("body", "Requirement", some .Requires), ("names", "Identifier", none), ("bindings", "Decl", some .Structured_binding)]

/-- the sequences of `fillOrder` that row `r` documents as empty at creation -/
def listsOf (r : Row) : List (String × String) :=
  (fillOrder.filter fun (a, _, only) =>
    (r.acc.any fun (b, s) => b == a ++ ".size" && s == Src.val "#0") && (match only with | some k => k == r.kind | none => true)).map
    fun (a, sort, _) => (a, sort)

def digit : Nat → String
  | 0 => "0" | 1 => "1" | 2 => "2" | 3 => "3" | 4 => "4" | 5 => "5" | 6 => "6" | 7 => "7" | 8 => "8" | _ => "9"

/-- (accessor, sort of members, index of the first member among the operands, number of members): the j-th sequence gets j+1 members -/
def fillPlan (ls : List (String × String)) (start count : Nat) : List (String × String × Nat × Nat) :=
  match ls with
  | [] => []
  | (a, sort) :: rest => (a, sort, start, count) :: fillPlan rest (start + count) (count + 1)

/-- **Every sequence accessor reports the members given to that sequence.**  The row of `r`'s result once each of its member
    sequences has been filled: the members are further operands (after the operands of the call, sequence by sequence), and the
    sequence documented under accessor `a` reads its size and, position by position, exactly the operands that were given to IT. -/
def filledForm (r : Row) : Row :=
  let plan := fillPlan (listsOf r) r.sorts.length 1
  { r with key := r.key ++ "#lists-filled",
           sorts := r.sorts ++ plan.flatMap fun (_, sort, _, k) => List.replicate k sort,
           acc := r.acc.flatMap fun (a, s) =>
             match plan.find? fun (l, _, _, _) => l ++ ".size" == a with
             | some (l, _, start, k) => (a, Src.val ("#" ++ digit k)) :: (List.range k).map fun i => (l ++ "." ++ digit i, Src.arg (start + i))
             | none => [(a, s)] }

/-- the forms that concern the result of base row `r` -/
def resultForms (r : Row) : List Row := if (listsOf r).isEmpty then [] else [filledForm r]

/-- The documented wiring: every base row followed by its operand forms and its result forms. -/
def expectedWiring : Table := baseWiring.flatMap fun r => r :: (operandForms r ++ resultForms r)

/-! ### Parts supplied through a builder after creation (`links` of the model): the latest call wins -/

/-- `n.part = v` / `n.subst(p, v)` … : one builder call on node `id` for the part read under accessor `a`. -/
def setLink (s : State) (id : Nat) (a : String) (v : Val) : State :=
  { nodes := s.nodes.modify id fun n => { n with links := (a, v) :: n.links } }

/-- a history of builder calls on one node, oldest first -/
def setLinks (s : State) (id : Nat) (calls : List (String × Val)) : State :=
  calls.foldl (fun st c => setLink st id c.1 c.2) s


/-! ### Lemmas shared by `IprProps/C02.lean` and `IprProps/C09.lean` (they do not depend on the regenerated table) -/

/-- Every operand form of a base row documents exactly the base row's sources (unless a reserved spelling is passed as a word). -/
theorem operandForms_same (r f : Row) (hf : f ∈ operandForms r) (hw : "word_view" ∉ r.sorts) :
    f.kind = r.kind ∧ f.cat = r.cat ∧ f.storage = r.storage ∧ f.sorts = r.sorts ∧ f.typ = r.typ ∧ f.acc = r.acc := by
  unfold operandForms at hf
  simp only [List.mem_append] at hf
  have hform : ∀ sfx, f = form r sfx → f.kind = r.kind ∧ f.cat = r.cat ∧ f.storage = r.storage ∧ f.sorts = r.sorts ∧ f.typ = r.typ ∧ f.acc = r.acc := by
    intro sfx h; subst h; simp [form]
  rcases hf with (((h | h) | h) | h) | h
  · split at h
    · exact hform _ (by simpa using h)
    · simp at h
  · split at h
    · exact hform _ (by simpa using h)
    · simp at h
  · split at h
    · have : f = reservedForm r := by simpa using h
      subst this
      simp [reservedForm, hw, form]
    · simp at h
  · split at h
    · exact hform _ (by simpa using h)
    · simp at h
  · split at h
    · exact hform _ (by simpa using h)
    · simp at h

theorem setLink_getElem? (s : State) (id : Nat) (a : String) (v : Val) (j : Nat) :
    (setLink s id a v).nodes[j]? = (s.nodes[j]?).map (fun n => if id = j then { n with links := (a, v) :: n.links } else n) := by
  unfold setLink
  simp only [List.getElem?_modify]
  cases s.nodes[j]? <;> simp

theorem read_setLink_self (T : Table) (s : State) (id : Nat) (a : String) (v : Val) (fuel : Nat) (h : id < s.nodes.length) :
    read T (setLink s id a v) (fuel + 1) id a = v := by
  simp only [read, setLink_getElem?, List.getElem?_eq_getElem h]
  simp [List.lookup]

end Ipr.Graph.Spec
