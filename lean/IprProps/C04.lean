import IprProofs.UnifyTop
/-!
# C04 — names and atoms are unified; one Identifier per spelling

Same model as C01 (`IprModel/Unify.lean`): the tables of `name_factory` / `expr_factory` (`ids`, `ops`, `suffixes`,
`convs`, `ctors`, `dtors`, `guide_ids`, `logos`, `linkages`, `conventions`, `symbols`, `lits`, `template_ids`, the
string pool) with their comparators, the reserved words as process-wide constants, and the special cases
`get_label(default)`, `get_this`, `get_linkage("C" | "C++")`, empty / reserved logograms.  Value equality of
`Logogram`, `Linkage`, `Calling_convention`, `Transfer` is modelled as the interface defines it (identity of the
`String` node reached through `what()`), not as spelling equality: that they coincide is a theorem.
All theorems: every finite history (any interleaving of requests), every table of reserved words satisfying
`Config.Wf` where stated, every injective address assignment.
-/
namespace Ipr.Unify
open Ipr.RB

/-- (a) The comparators of the name / atom tables are lawful total orders whose zero set is key equality. -/
theorem C04_comparators_lawful {addr : Ref → Int} (hinj : Injective addr) (tag : Tag) : Lawful (tableCmp addr tag) :=
  tableCmp_lawful hinj tag
theorem C04_id_compare_lawful {addr : Ref → Int} (hinj : Injective addr) : Lawful (idCompare addr) := by
  rw [idCompare_eq]; exact keyCmp_lawful hinj
theorem C04_unary_compare_lawful {addr : Ref → Int} (hinj : Injective addr) : Lawful (unaryCompare addr) := by
  rw [unaryCompare_eq]; exact keyCmp_lawful hinj
theorem C04_spelling_compare_lawful {addr : Ref → Int} (hinj : Injective addr) : Lawful (spellingCompare addr) := by
  rw [spellingCompare_eq]; exact keyCmp_lawful hinj
theorem C04_symbol_compare_lawful {addr : Ref → Int} (hinj : Injective addr) : Lawful (symbolCompare addr) := by
  rw [symbolCompare_eq]; exact keyCmp_lawful hinj
theorem C04_binary_compare_lawful {addr : Ref → Int} (hinj : Injective addr) : Lawful (binaryCompare addr) := by
  rw [binaryCompare_eq]; exact keyCmp_lawful hinj

/-- (b) The trees of the name / atom tables refine the key table (same statement as C01: one machinery). -/
theorem C04_L1_refines_L0 {addr : Ref → Int} (hinj : Injective addr) (cfg : Config) (reqs : List Req) :
    (run1 addr cfg {} reqs).1.heap = (run0 cfg #[] reqs).1 ∧
    (run1 addr cfg {} reqs).2 = (run0 cfg #[] reqs).2 ∧
    ∀ tag, TreeInv addr (run1 addr cfg {} reqs).1.heap tag ((run1 addr cfg {} reqs).1.tables.get tag) := by
  obtain ⟨h1, h2, h3⟩ := run1_refines hinj cfg reqs {} (Rel.init addr)
  exact ⟨h1, h2, h3.trees⟩

/-- (c) **Unification of names and atoms.**  In every finite history, requests `i` and `j` (identifier, operator,
    suffix, conversion, ctor, dtor, guide name, template-id, logogram, string, symbol, label, this, literal,
    linkage, calling convention — and any type request) are answered with the same node iff their normal forms
    are equal. -/
theorem C04_unified {addr : Ref → Int} (hinj : Injective addr) (cfg : Config) (reqs : List Req) (i j : Nat)
    (hi : i < reqs.length) (hj : j < reqs.length) :
    (answers1 addr cfg reqs)[i]? = (answers1 addr cfg reqs)[j]? ↔ (keysOf cfg reqs)[i]? = (keysOf cfg reqs)[j]? := by
  rw [answers1_eq hinj]; exact unified_index cfg reqs i j hi hj

/-- (d) Nodes of different constructors never coincide. -/
theorem C04_distinct_constructors {addr : Ref → Int} (hinj : Injective addr) (cfg : Config) (reqs : List Req) (i j : Nat)
    (hi : i < reqs.length) (hj : j < reqs.length) (t1 t2 : Tag) (k1 k2 : Key)
    (h1 : (keysOf cfg reqs)[i]? = some (some (t1, k1))) (h2 : (keysOf cfg reqs)[j]? = some (some (t2, k2)))
    (hne : t1 ≠ t2) : (answers1 addr cfg reqs)[i]? ≠ (answers1 addr cfg reqs)[j]? := by
  intro he
  have := (C04_unified hinj cfg reqs i j hi hj).mp he
  rw [h1, h2] at this
  simp only [Option.some.injEq, Prod.mk.injEq] at this
  exact hne this.1

/-- **One Identifier per spelling.**  After any history, every node of category Identifier present in the Lexicon —
    a reserved word or a node of the `ids` table — whose spelling is `w` is the node `get_identifier(w)` answers. -/
theorem C04_one_identifier {addr : Ref → Int} (hinj : Injective addr) {cfg : Config} (hw : cfg.Wf) (reqs : List Req)
    (r : Ref) (w : List Int) (hs : identSpelling cfg (run1 addr cfg {} reqs).1.heap r = some w) :
    (exec1 addr cfg (run1 addr cfg {} reqs).1 (.identifierW w)).2 = some r := by
  rw [exec1_after hinj]
  exact one_identifier hw (reach1_inv hinj cfg reqs) hs

/-- The name of a built-in type, of `false` / `true` / `default` / `delete` / `nullptr` and of every `this` symbol (`nameOf`,
    the model of `Type::name()` / `Symbol::name()`) is an Identifier, hence — by `C04_one_identifier` — the node `get_identifier` answers. -/
theorem C04_constant_names_are_identifiers {addr : Ref → Int} (hinj : Injective addr) {cfg : Config} (hw : cfg.Wf)
    (reqs : List Req) (c : Static) (n : Ref) (w : List Int)
    (_hn : nameOf cfg (run1 addr cfg {} reqs).1.heap (.stat c) = some n)
    (hs : identSpelling cfg (run1 addr cfg {} reqs).1.heap n = some w) :
    (exec1 addr cfg (run1 addr cfg {} reqs).1 (.identifierW w)).2 = some n :=
  C04_one_identifier hinj hw reqs n w hs

/-- `get_this(t)` is the symbol named by the reserved word `this` — the very node `get_identifier("this")` answers. -/
theorem C04_this_name (cfg : Config) (h : Heap) (t : Ref) (k : Nat) (hk : wordIdx cfg wThis = some k) :
    norm cfg h (.this_ t) = some (.symbols, [.node (.stat (.ident k)), .node t]) ∧
    norm cfg h (.identifierW wThis) = some (nkStatic (.ident k)) := by
  simp [norm, hk, normSymbol, normIdentifier]

/-- Value equality of `Logogram` / `Linkage` / `Calling_convention` / `Transfer` (identity of the `String` nodes
    behind them, interface:107-162) holds exactly when the spellings are equal — after any history. -/
theorem C04_logogram_eq_iff_spelling {addr : Ref → Int} (hinj : Injective addr) {cfg : Config} (hw : cfg.Wf)
    (reqs : List Req) (a b : Ref) (wa wb : List Int)
    (ha : logoSpelling cfg (run1 addr cfg {} reqs).1.heap a = some wa)
    (hb : logoSpelling cfg (run1 addr cfg {} reqs).1.heap b = some wb) :
    logoEq (run1 addr cfg {} reqs).1.heap a b = true ↔ wa = wb :=
  logoEq_iff hw (reach1_inv hinj cfg reqs) ha hb

theorem C04_linkage_eq_iff_spelling {addr : Ref → Int} (hinj : Injective addr) {cfg : Config} (hw : cfg.Wf)
    (reqs : List Req) (a b : Ref) (wa wb : List Int)
    (ha : linkSpelling cfg (run1 addr cfg {} reqs).1.heap a = some wa)
    (hb : linkSpelling cfg (run1 addr cfg {} reqs).1.heap b = some wb) :
    linkEq cfg (run1 addr cfg {} reqs).1.heap a b = true ↔ wa = wb :=
  linkEq_iff hw (reach1_inv hinj cfg reqs) ha hb

theorem C04_calling_convention_eq_iff_spelling {addr : Ref → Int} (hinj : Injective addr) {cfg : Config} (hw : cfg.Wf)
    (reqs : List Req) (a b : Ref) (wa wb : List Int)
    (ha : ccSpelling cfg (run1 addr cfg {} reqs).1.heap a = some wa)
    (hb : ccSpelling cfg (run1 addr cfg {} reqs).1.heap b = some wb) :
    ccEq (run1 addr cfg {} reqs).1.heap a b = true ↔ wa = wb :=
  ccEq_iff hw (reach1_inv hinj cfg reqs) ha hb

theorem C04_transfer_eq_iff_spelling {addr : Ref → Int} (hinj : Injective addr) {cfg : Config} (hw : cfg.Wf)
    (reqs : List Req) (a b : Ref) (wa wb : List Int × List Int)
    (ha : xferSpelling cfg (run1 addr cfg {} reqs).1.heap a = some wa)
    (hb : xferSpelling cfg (run1 addr cfg {} reqs).1.heap b = some wb) :
    xferEq cfg (run1 addr cfg {} reqs).1.heap a b = true ↔ wa = wb :=
  xferEq_iff hw (reach1_inv hinj cfg reqs) ha hb

/-- … and is therefore an equivalence on the values that have a spelling (shown for `Transfer`, the composite one;
    the other three are the same three lines). -/
theorem C04_transfer_eq_equivalence {addr : Ref → Int} (hinj : Injective addr) {cfg : Config} (hw : cfg.Wf)
    (reqs : List Req) (a b c : Ref) (wa wb wc : List Int × List Int)
    (ha : xferSpelling cfg (run1 addr cfg {} reqs).1.heap a = some wa)
    (hb : xferSpelling cfg (run1 addr cfg {} reqs).1.heap b = some wb)
    (hc : xferSpelling cfg (run1 addr cfg {} reqs).1.heap c = some wc) :
    xferEq cfg (run1 addr cfg {} reqs).1.heap a a = true ∧
    (xferEq cfg (run1 addr cfg {} reqs).1.heap a b = true → xferEq cfg (run1 addr cfg {} reqs).1.heap b a = true) ∧
    (xferEq cfg (run1 addr cfg {} reqs).1.heap a b = true → xferEq cfg (run1 addr cfg {} reqs).1.heap b c = true →
      xferEq cfg (run1 addr cfg {} reqs).1.heap a c = true) := by
  have hi := reach1_inv hinj cfg reqs
  refine ⟨(xferEq_iff hw hi ha ha).mpr rfl, ?_, ?_⟩
  · intro h; exact (xferEq_iff hw hi hb ha).mpr ((xferEq_iff hw hi ha hb).mp h).symm
  · intro h1 h2
    exact (xferEq_iff hw hi ha hc).mpr (((xferEq_iff hw hi ha hb).mp h1).trans ((xferEq_iff hw hi hb hc).mp h2))

theorem C04_linkage_eq_equivalence {addr : Ref → Int} (hinj : Injective addr) {cfg : Config} (hw : cfg.Wf)
    (reqs : List Req) (a b c : Ref) (wa wb wc : List Int)
    (ha : linkSpelling cfg (run1 addr cfg {} reqs).1.heap a = some wa)
    (hb : linkSpelling cfg (run1 addr cfg {} reqs).1.heap b = some wb)
    (hc : linkSpelling cfg (run1 addr cfg {} reqs).1.heap c = some wc) :
    linkEq cfg (run1 addr cfg {} reqs).1.heap a a = true ∧
    (linkEq cfg (run1 addr cfg {} reqs).1.heap a b = true → linkEq cfg (run1 addr cfg {} reqs).1.heap b a = true) ∧
    (linkEq cfg (run1 addr cfg {} reqs).1.heap a b = true → linkEq cfg (run1 addr cfg {} reqs).1.heap b c = true →
      linkEq cfg (run1 addr cfg {} reqs).1.heap a c = true) := by
  have hi := reach1_inv hinj cfg reqs
  refine ⟨(linkEq_iff hw hi ha ha).mpr rfl, ?_, ?_⟩
  · intro h; exact (linkEq_iff hw hi hb ha).mpr ((linkEq_iff hw hi ha hb).mp h).symm
  · intro h1 h2
    exact (linkEq_iff hw hi ha hc).mpr (((linkEq_iff hw hi ha hb).mp h1).trans ((linkEq_iff hw hi hb hc).mp h2))

/-- Reserved spellings never enter the pool, the identifier table or the logogram table: they stay constants. -/
theorem C04_reserved_words_stay_constants {addr : Ref → Int} (hinj : Injective addr) (cfg : Config) (reqs : List Req)
    (i : Nat) (tag : Tag) (w : List Int) (args : List Ref)
    (hget : (run1 addr cfg {} reqs).1.heap[i]? = some ⟨tag, [.str w], args⟩)
    (ht : tag = .strings ∨ tag = .ids ∨ tag = .logos) : wordIdx cfg w = none := by
  have := (reach1_inv hinj cfg reqs).recs i _ hget
  rcases ht with rfl | rfl | rfl <;> simp [keyOk] at this <;> simp [this]

/-- **One Identifier per spelling, in every Lexicon of a process.**  After any process history (requests addressed to any
    number of Lexicons in any interleaving, Lexicons destroyed and replaced at any time — `procRun`), every Identifier node
    spelled `w` that Lexicon `k` holds is the node `get_identifier(w)` answers when it is asked of Lexicon `k`. -/
theorem C04_one_identifier_in_process {addr : Ref → Int} (hinj : Injective addr) {cfg : Config} (hw : cfg.Wf) (evs : List Ev)
    (k : Nat) (r : Ref) (w : List Int)
    (hs : identSpelling cfg ((procRun addr cfg Proc.fresh evs).1 k).heap r = some w) :
    (procStep addr cfg (procRun addr cfg Proc.fresh evs).1 (.req k (.identifierW w))).2 = some (some r) := by
  have hst := procRun_state addr cfg evs Proc.fresh (fun _ => []) (by intro i; simp [Proc.fresh, run1, runWith]) k
  simp only [procStep]
  rw [hst] at hs ⊢
  rw [C04_one_identifier hinj hw _ r w hs]

/-- The reserved words are constants of the process, the same in every Lexicon at every time: the answer to
    `get_identifier(w)`, `get_string(w)` for a reserved `w` does not depend on the Lexicon's state at all. -/
theorem C04_reserved_word_same_in_every_lexicon (addr : Ref → Int) (cfg : Config) (s s' : State1) (w : List Int) (k : Nat)
    (hk : wordIdx cfg w = some k) :
    (exec1 addr cfg s (.identifierW w)).2 = some (.stat (.ident k)) ∧ (exec1 addr cfg s' (.identifierW w)).2 = some (.stat (.ident k)) := by
  constructor <;> simp [exec1, execWith, Req.operands, plan, planIdentifier, hk, runPlan] <;>
    (split <;> simp_all [planIdentifier, runPlan])

/-! ### Non-vacuity -/

def exCfg4 : Config := { words := [wC, wCxx, wDefault, wFalse, [105, 110, 116], wThis, wVoid], builtinWords := [4, 6] }

example : exCfg4.Wf := ⟨by decide, by decide⟩
/-- `get_identifier("int")` is the reserved word; `get_identifier("x")` twice is one node; `get_linkage("C++")` is the
    constant; `get_label(default)` is `default_value()`; `get_this(int)` twice is one symbol named by `this`. -/
example : answers1 defaultAddr exCfg4
    [.identifierW [105, 110, 116], .identifierW [120], .string [120], .identifierS (.dyn 0), .linkageW wCxx,
     .label (.stat (.ident 2)), .this_ (.stat (.builtin 4)), .this_ (.stat (.builtin 4)), .linkageW [74],
     .callingConvention [], .transfer (.stat .cxxLink) (.dyn 6), .asTypeId (.stat (.ident 4))]
    = [some (.stat (.ident 4)), some (.dyn 1), some (.dyn 0), some (.dyn 1), some (.stat .cxxLink),
       some (.stat .defaultC), some (.dyn 2), some (.dyn 2), some (.dyn 5), some (.dyn 6), some (.dyn 7),
       some (.stat (.builtin 4))] := by decide +kernel
/-- The transfer built from `extern "C++"` and the empty calling convention is a different node from `cxx_transfer()`
    but equal to it by value. -/
example : xferEq exCfg4 (run1 defaultAddr exCfg4 {} [.callingConvention [], .transfer (.stat .cxxLink) (.dyn 0)]).1.heap
    (.dyn 1) (.stat .naturalXfer) = true := by decide +kernel

end Ipr.Unify
