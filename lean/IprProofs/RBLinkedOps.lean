import IprProofs.RBLinkedRepr
set_option linter.unusedSimpArgs false
set_option linter.unusedSectionVars false
set_option linter.unusedVariables false
namespace Ipr.RB.Linked
open Tree
variable {α : Type} [Inhabited α]

theorem addrs_zip (path : APath α) (t : ATree α) :
    addrs (zip t path) = (ctxL path).map Prod.fst ++ addrs t ++ (ctxR path).map Prod.fst := by
  simp [addrs, inorder_zip]

theorem addrs_zip_congr {t t' : ATree α} (h : addrs t = addrs t') (path : APath α) :
    addrs (zip t path) = addrs (zip t' path) := by
  rw [addrs_zip, addrs_zip, h]

theorem Focus.rotateLeft {s : Store α} {cx cy : Color} {a b c : ATree α} {kx ky : Nat × α} {path : APath α}
    (h : Focus s (.node cx a kx (.node cy b ky c)) path) :
    ∃ s', s.rotateLeft kx.1 = some s' ∧ Focus s' (.node cy (.node cx a kx b) ky c) path ∧
      s'.count = s.count ∧ s'.next = s.next := by
  have hnd := h.nd
  obtain ⟨⟨hx, ha, hy, hb, hc⟩, hctx, hroot, hnz⟩ := h
  simp only [addrs_node, List.nodup_append, List.nodup_cons, List.mem_append, List.mem_cons] at hnd
  obtain ⟨x, kxv⟩ := kx
  obtain ⟨y, kyv⟩ := ky
  simp only [ptrOf_node] at hx hy hctx hroot
  simp only at hnd ha hb hc
  have hxy : x ≠ y := by grind
  have hpb : ∀ q, ptrOf b = some q → q ∈ addrs b := fun q => ptrOf_mem
  have hpp : ∀ q, parentOf path = some q → q ∈ caddrs path := fun q => parentOf_mem
  obtain ⟨s', hs', hcount, hnext, hr', ex, ey, eyl, exp, eframe⟩ := Store.rotateLeft_eff s x y
    (by simp [Store.right, hx]) hxy
    (by intro yl hyl; simp [Store.left, hy] at hyl; have := hpb _ hyl; grind)
    (by intro xp hxp; simp [Store.parent, hx] at hxp; simp only [Store.left, hy]; have := hpp _ hxp
        refine ⟨by grind, by grind, ?_⟩
        intro hq; have := hpb _ hq; grind)
  simp only [Store.left, Store.parent, hx, hy] at hr' ex ey eyl exp eframe
  refine ⟨s', hs', ?_, hcount, hnext⟩
  have hfr : ∀ q, q ≠ x → q ≠ y → q ∉ addrs b → q ∉ caddrs path → rd s'.mem q = rd s.mem q := by
    intro q h1 h2 h3 h4
    exact eframe q h1 h2 (fun e => h3 (hpb _ e)) (fun e => h4 (hpp _ e))
  refine ⟨⟨?_, ⟨?_, ?_, ?_⟩, ?_⟩, ?_, ?_, ?_⟩
  · rw [ey]; rfl
  · rw [ex]
  · exact ha.frame (fun q hq => hfr q (by grind) (by grind) (by grind) (by grind))
  · refine hb.reparent (by grind) (fun q hq => eyl q hq) (fun q hq hne => eframe q (by grind) (by grind) (Ne.symm hne ∘ Eq.symm) ?_)
    intro e; have := hpp _ e; grind
  · exact hc.frame (fun q hq => hfr q (by grind) (by grind) (by grind) (by grind))
  · cases path with
    | nil => trivial
    | cons f fs =>
      obtain ⟨h1, h2, h3⟩ := hctx
      have hxp := exp f.k.1 rfl
      simp only [caddrs, List.mem_cons, List.mem_append, List.nodup_cons, List.nodup_append] at hnd
      have hfr' : ∀ q, q ≠ x → q ≠ y → q ∉ addrs b → q ≠ f.k.1 → rd s'.mem q = rd s.mem q := by
        intro q h1 h2 h3 h4
        exact eframe q h1 h2 (fun e => h3 (hpb _ e)) (by simp only [parentOf, Option.some.injEq, ne_eq]; exact Ne.symm h4)
      refine ⟨?_, h2.frame (fun q hq => hfr' q (by grind) (by grind) (by grind) (by grind)),
        h3.frame (fun q hq => hfr' q (by grind) (by grind) (by grind) (by grind))⟩
      rw [hxp]; simp only [h1]
      cases f with | mk d fc fk fsib =>
      cases d
      · simp [cellOf]
      · have : ptrOf fsib ≠ some x := by intro e; have := ptrOf_mem e; grind
        simp [cellOf, this]
  · rw [hr']
    cases path with
    | nil => rfl
    | cons f fs => simp only [parentOf]; rw [hroot]; rfl
  · rw [addrs_zip_congr (t' := .node cx a (x, kxv) (.node cy b (y, kyv) c)) (by simp)]; exact hnz

theorem Focus.rotateRight {s : Store α} {cx cy : Color} {a b c : ATree α} {kx ky : Nat × α} {path : APath α}
    (h : Focus s (.node cx (.node cy a ky b) kx c) path) :
    ∃ s', s.rotateRight kx.1 = some s' ∧ Focus s' (.node cy a ky (.node cx b kx c)) path ∧
      s'.count = s.count ∧ s'.next = s.next := by
  have hnd := h.nd
  obtain ⟨⟨hx, ⟨hy, ha, hb⟩, hc⟩, hctx, hroot, hnz⟩ := h
  simp only [addrs_node, List.nodup_append, List.nodup_cons, List.mem_append, List.mem_cons] at hnd
  obtain ⟨x, kxv⟩ := kx
  obtain ⟨y, kyv⟩ := ky
  simp only [ptrOf_node] at hx hy hctx hroot
  simp only at hnd ha hb hc
  have hxy : x ≠ y := by grind
  have hpb : ∀ q, ptrOf b = some q → q ∈ addrs b := fun q => ptrOf_mem
  have hpp : ∀ q, parentOf path = some q → q ∈ caddrs path := fun q => parentOf_mem
  obtain ⟨s', hs', hcount, hnext, hr', ex, ey, eyr, exp, eframe⟩ := Store.rotateRight_eff s x y
    (by simp [Store.left, hx]) hxy
    (by intro yr hyr; simp [Store.right, hy] at hyr; have := hpb _ hyr; grind)
    (by intro xp hxp; simp [Store.parent, hx] at hxp; simp only [Store.right, hy]; have := hpp _ hxp
        refine ⟨by grind, by grind, ?_⟩
        intro hq; have := hpb _ hq; grind)
  simp only [Store.right, Store.parent, hx, hy] at hr' ex ey eyr exp eframe
  refine ⟨s', hs', ?_, hcount, hnext⟩
  have hfr : ∀ q, q ≠ x → q ≠ y → q ∉ addrs b → q ∉ caddrs path → rd s'.mem q = rd s.mem q := by
    intro q h1 h2 h3 h4
    exact eframe q h1 h2 (fun e => h3 (hpb _ e)) (fun e => h4 (hpp _ e))
  refine ⟨⟨?_, ?_, ⟨?_, ?_, ?_⟩⟩, ?_, ?_, ?_⟩
  · rw [ey]; rfl
  · exact ha.frame (fun q hq => hfr q (by grind) (by grind) (by grind) (by grind))
  · rw [ex]
  · refine hb.reparent (by grind) (fun q hq => eyr q hq) (fun q hq hne => eframe q (by grind) (by grind) (Ne.symm hne ∘ Eq.symm) ?_)
    intro e; have := hpp _ e; grind
  · exact hc.frame (fun q hq => hfr q (by grind) (by grind) (by grind) (by grind))
  · cases path with
    | nil => trivial
    | cons f fs =>
      obtain ⟨h1, h2, h3⟩ := hctx
      have hxp := exp f.k.1 rfl
      simp only [caddrs, List.mem_cons, List.mem_append, List.nodup_cons, List.nodup_append] at hnd
      have hfr' : ∀ q, q ≠ x → q ≠ y → q ∉ addrs b → q ≠ f.k.1 → rd s'.mem q = rd s.mem q := by
        intro q h1 h2 h3 h4
        exact eframe q h1 h2 (fun e => h3 (hpb _ e)) (by simp only [parentOf, Option.some.injEq, ne_eq]; exact Ne.symm h4)
      refine ⟨?_, h2.frame (fun q hq => hfr' q (by grind) (by grind) (by grind) (by grind)),
        h3.frame (fun q hq => hfr' q (by grind) (by grind) (by grind) (by grind))⟩
      rw [hxp]; simp only [h1]
      cases f with | mk d fc fk fsib =>
      cases d
      · have : ptrOf fsib ≠ some x := by intro e; have := ptrOf_mem e; grind
        simp [cellOf, this]
      · simp [cellOf]
  · rw [hr']
    cases path with
    | nil => rfl
    | cons f fs => simp only [parentOf]; rw [hroot]; rfl
  · rw [addrs_zip_congr (t' := .node cx (.node cy a (y, kyv) b) (x, kxv) c) (by simp)]; exact hnz

namespace Store
@[simp] theorem parent_setColor (s : Store α) (a b : Nat) (c : Color) : (s.setColor a c).parent b = s.parent b := by
  simp only [parent, rd_setColor]; split <;> simp_all
@[simp] theorem left_setColor (s : Store α) (a b : Nat) (c : Color) : (s.setColor a c).left b = s.left b := by
  simp only [left, rd_setColor]; split <;> simp_all
@[simp] theorem right_setColor (s : Store α) (a b : Nat) (c : Color) : (s.setColor a c).right b = s.right b := by
  simp only [right, rd_setColor]; split <;> simp_all
@[simp] theorem key_setColor (s : Store α) (a b : Nat) (c : Color) : (s.setColor a c).key b = s.key b := by
  simp only [key, rd_setColor]; split <;> simp_all
theorem color_setColor (s : Store α) (a b : Nat) (c : Color) : (s.setColor a c).color b = if b = a then c else s.color b := by
  simp only [color, rd_setColor]; split <;> simp_all
end Store

theorem Focus.setColor {s : Store α} {c : Color} {l r : ATree α} {k : Nat × α} {path : APath α} (c' : Color)
    (h : Focus s (.node c l k r) path) : Focus (s.setColor k.1 c') (.node c' l k r) path := by
  have hnd := h.nd
  simp only [addrs_node, List.nodup_append, List.nodup_cons, List.mem_append, List.mem_cons] at hnd
  refine ⟨?_, ?_, ?_, ?_⟩
  · refine h.own.recolor (by simp [List.nodup_append]; grind) (by simp) ?_
    intro q hq; simp only [List.mem_append] at hq
    simp only [Store.rd_setColor]; rw [if_neg (by grind)]
  · refine h.ctx.frame ?_
    intro q hq
    simp only [Store.rd_setColor]; rw [if_neg (by grind)]
  · exact h.root
  · rw [addrs_zip_congr (t' := .node c l k r) (by simp)]; exact h.nodup

/-- Recolouring the node a frame stands for, seen from above the frame. -/
theorem Focus.setColor_plug {s : Store α} {t : ATree α} {f : AFrame α} {path : APath α} (c' : Color)
    (h : Focus s (t.plug f) path) : Focus (s.setColor f.k.1 c') (t.plug { f with c := c' }) path := by
  cases f with | mk d c k sib =>
  cases d
  · exact Focus.setColor c' (k := k) h
  · exact Focus.setColor c' (k := k) h

/-- What the cell of the focused node holds. -/
theorem Focus.rd_root {s : Store α} {c : Color} {l r : ATree α} {k : Nat × α} {path : APath α}
    (h : Focus s (.node c l k r) path) : rd s.mem k.1 = ⟨k.2, c, ptrOf l, ptrOf r, parentOf path⟩ := h.own.1

theorem zip_ne_nil (path : APath α) : ∀ t : ATree α, t ≠ .nil → zip t path ≠ .nil := by
  induction path with
  | nil => intro t h; exact h
  | cons f fs ih => intro t _; exact ih _ (by cases f with | mk d c k sib => cases d <;> simp [plug])

/-- utility:214 on a store that holds a non-empty tree. -/
theorem Focus.blackenRoot {s : Store α} {t : ATree α} (h : Focus s t []) (hne : t ≠ .nil) :
    ∃ s', s.blackenRoot = some s' ∧ Focus s' t.blacken [] ∧ s'.count = s.count ∧ s'.next = s.next := by
  cases t with
  | nil => exact absurd rfl hne
  | node c l k r =>
    have hr : s.root = some k.1 := h.root
    refine ⟨s.setColor k.1 .black, by simp [Store.blackenRoot, hr], Focus.setColor .black h, rfl, rfl⟩

/-- `y != nullptr and y->color == Red` reads the colour of the root of the subtree `y` points to. -/
theorem isRedPtr_own {s : Store α} {t : ATree α} {p : Option Nat} (h : Own s.mem p t) :
    s.isRedPtr (ptrOf t) = t.isRed := by
  cases t with
  | nil => rfl
  | node c l k r =>
    have := h.1
    cases c <;> simp [Store.isRedPtr, Store.color, this, isRed]

end Ipr.RB.Linked
