import IprModel.Seq
/-! Laws of `ipr::Sequence<T>` and of its implementations (model: IprModel/Seq.lean). -/
namespace Ipr.Seq

instance {α : Type} [DecidableEq α] : DecidableEq (Res α) := fun a b =>
  match a, b with
  | .ok x, .ok y => if h : x = y then isTrue (by rw [h]) else isFalse (by intro e; cases e; exact h rfl)
  | .error .logic, .error .logic => isTrue rfl
  | .ok _, .error _ => isFalse (by intro e; cases e)
  | .error _, .ok _ => isFalse (by intro e; cases e)

@[simp] theorem failed_error {α : Type} (e : LogicError) : failed (Except.error e : Res α) = true := rfl
@[simp] theorem failed_ok {α : Type} (x : α) : failed (Except.ok x : Res α) = false := rfl

theorem failed_iff_error {α : Type} (r : Res α) : failed r = true ↔ r = .error .logic := by
  cases r with
  | error e => cases e; simp
  | ok x => simp

theorem not_failed_iff_ok {α : Type} (r : Res α) : failed r = false ↔ ∃ x, r = .ok x := by
  cases r with
  | error e => simp
  | ok x => simp

namespace View
variable {α : Type}

/-- The loop `for (it = position(i); it != end(); ++it)` visits `get i, get (i+1), …, get (size-1)`. -/
theorem forwardFrom_eq (s : View α) : ∀ (k i : Nat) (h : i ≤ s.size), s.size - i = k →
    s.forwardFrom i h = (List.range' i k).map s.get := by
  intro k
  induction k with
  | zero =>
    intro i h hk
    have : i = s.size := by omega
    rw [forwardFrom]; simp [this]
  | succ k ih =>
    intro i h hk
    have hne : i ≠ s.size := by omega
    rw [forwardFrom]
    simp only [hne, dite_false, List.range'_succ, List.map_cons]
    rw [ih (i + 1) (by omega) (by omega)]

theorem forward_eq (s : View α) : s.forward = (List.range s.size).map s.get := by
  rw [forward, forwardFrom_eq s s.size 0 (Nat.zero_le _) (by omega), List.range_eq_range']

theorem forward_length (s : View α) : s.forward.length = s.size := by simp [forward_eq]

theorem forward_getElem? (s : View α) (i : Nat) (h : i < s.size) : s.forward[i]? = some (s.get i) := by
  simp [forward_eq, h]

theorem backwardFrom_eq (s : View α) (n : Nat) : s.backwardFrom n = ((List.range n).map s.get).reverse := by
  induction n with
  | zero => simp [backwardFrom]
  | succ n ih => simp [backwardFrom, ih, List.range_succ]

theorem backward_eq (s : View α) : s.backward = s.forward.reverse := by
  rw [backward, backwardFrom_eq, forward_eq]

theorem backward_length (s : View α) : s.backward.length = s.size := by simp [backward_eq, forward_length]

theorem backward_getElem? (s : View α) (i : Nat) (h : i < s.size) : s.backward[i]? = some (s.get (s.size - 1 - i)) := by
  have hl : s.forward.length = s.size := forward_length s
  rw [backward_eq, List.getElem?_reverse (by omega), hl, forward_getElem? s _ (by omega)]

theorem empty_iff (s : View α) : s.empty = true ↔ s.size = 0 := by
  simp [empty]

end View

/-! ### ref_sequence / decl_sequence / Warehouse -/
namespace RefSeq
variable {α : Type}

theorem get_failed_iff (s : RefSeq α) (p : Nat) : failed (s.get p) = true ↔ s.size ≤ p ∨ s.slots[p]? = some none := by
  unfold get size
  cases h : s.slots[p]? with
  | none =>
    have := List.getElem?_eq_none_iff.mp h
    simp [this]
  | some o =>
    have hlt : p < s.slots.length := (List.getElem?_eq_some_iff.mp h).1
    cases o with
    | none => simp
    | some x => simp; omega

theorem get_ok_iff (s : RefSeq α) (p : Nat) (x : α) : s.get p = .ok x ↔ s.slots[p]? = some (some x) := by
  unfold get
  cases h : s.slots[p]? with
  | none => simp
  | some o => cases o <;> simp

/-- Out of range is always refused (`vector::at`). -/
theorem get_out_of_range (s : RefSeq α) (p : Nat) (h : s.size ≤ p) : s.get p = .error .logic :=
  (failed_iff_error _).mp ((get_failed_iff s p).mpr (Or.inl h))

@[simp] theorem size_presized (n : Nat) : (presized n : RefSeq α).size = n := by simp [presized, size]
@[simp] theorem size_pushBack (s : RefSeq α) (x : α) : (s.pushBack x).size = s.size + 1 := by simp [pushBack, size]
@[simp] theorem size_pushNull (s : RefSeq α) : (s.pushNull).size = s.size + 1 := by simp [pushNull, size]
@[simp] theorem size_resize (s : RefSeq α) (n : Nat) : (s.resize n).size = n := by
  unfold resize size
  split <;> simp <;> omega

/-- A slot created by the sizing constructor and never assigned is refused (repaired defect F7). -/
theorem get_presized (n p : Nat) : (presized n : RefSeq α).get p = .error .logic := by
  apply (failed_iff_error _).mp
  rw [get_failed_iff]
  by_cases h : p < n
  · right; simp [presized, h]
  · left; simp; omega

theorem get_pushBack_old (s : RefSeq α) (x : α) (p : Nat) (h : p < s.size) : (s.pushBack x).get p = s.get p := by
  unfold get pushBack size at *
  simp [List.getElem?_append_left h]

theorem get_pushBack_new (s : RefSeq α) (x : α) : (s.pushBack x).get s.size = .ok x := by
  unfold get pushBack size
  simp

/-- Growing by `resize` adds refused slots and keeps the old ones. -/
theorem get_resize_grow (s : RefSeq α) (n p : Nat) (h : s.size ≤ n) :
    (s.resize n).get p = if p < s.size then s.get p else .error .logic := by
  unfold resize
  by_cases hn : n ≤ s.slots.length
  · have : n = s.slots.length := by unfold size at h; omega
    subst this
    simp only [Nat.le_refl, if_true, List.take_length]
    split
    · rfl
    · exact get_out_of_range _ _ (by simp only [size] at *; omega)
  · simp only [hn, if_false]
    unfold get size
    by_cases hp : p < s.slots.length
    · simp [hp, List.getElem?_append_left hp]
    · simp only [hp, if_false]
      rw [List.getElem?_append_right (by omega)]
      by_cases hq : p - s.slots.length < n - s.slots.length
      · simp [hq]
      · simp [hq]

end RefSeq

namespace Warehouse
variable {α : Type}

theorem rep_build (n : Nat) (xs : List α) : (build n xs).rep.slots = List.replicate n none ++ xs.map some := by
  unfold build
  suffices h : ∀ (w : Warehouse α), (xs.foldl pushBack w).rep.slots = w.rep.slots ++ xs.map some by
    simpa [presized, RefSeq.presized] using h (presized n)
  induction xs with
  | nil => intro w; simp
  | cons x xs ih => intro w; simp [ih, pushBack, RefSeq.pushBack]

@[simp] theorem size_build (n : Nat) (xs : List α) : (build n xs).view.size = n + xs.length := by
  simp [view, RefSeq.view, RefSeq.size, rep_build]

/-- `Warehouse<T> w(n)` followed by `push_back`s: the `n` pre-sized slots are refused, the pushed items follow, in order. -/
theorem get_build (n : Nat) (xs : List α) (p : Nat) :
    (build n xs).view.get p =
      if p < n then .error .logic else match xs[p - n]? with
        | some x => .ok x
        | none => .error .logic := by
  simp only [view, RefSeq.view, RefSeq.get, rep_build]
  by_cases h : p < n
  · simp [h, List.getElem?_append_left]
  · simp only [h, if_false]
    rw [List.getElem?_append_right (by simp; omega)]
    simp only [List.length_replicate, List.getElem?_map]
    cases xs[p - n]? <;> simp

end Warehouse

/-! ### obj_sequence, obj_list -/
namespace ObjSeq
variable {α : Type}

theorem get_failed_iff (s : ObjSeq α) (p : Nat) : failed (s.get p) = true ↔ s.size ≤ p := by
  unfold get size
  split <;> simp <;> omega

theorem get_in_range (s : ObjSeq α) (p : Nat) (h : p < s.size) : s.get p = .ok (s.items[p]'h) := by
  unfold get; unfold size at h; simp [h]

theorem items_of_pushes (xs : List α) : (xs.foldl pushBack ({} : ObjSeq α)).items = xs := by
  suffices h : ∀ s : ObjSeq α, (xs.foldl pushBack s).items = s.items ++ xs by simpa using h {}
  induction xs with
  | nil => intro s; simp
  | cons x xs ih => intro s; simp [ih, pushBack]

end ObjSeq

namespace ObjList
variable {α : Type}

theorem get_failed_iff (s : ObjList α) (p : Nat) : failed (s.get p) = true ↔ s.size ≤ p := by
  unfold get size
  by_cases h : p ≥ s.items.length
  · simp [h]
  · simp only [h, if_false]
    have hlt : p < s.items.length := by omega
    cases hd : s.items.drop p with
    | nil => simp [List.drop_eq_nil_iff] at hd; omega
    | cons x rest => simp

theorem get_in_range (s : ObjList α) (p : Nat) (h : p < s.size) : s.get p = .ok (s.items[p]'h) := by
  unfold get
  unfold size at h ⊢
  have hge : ¬ p ≥ s.items.length := by omega
  simp only [hge, if_false]
  rw [List.drop_eq_getElem_cons h]

theorem items_of_pushes (xs : List α) : (xs.foldl pushBack ({} : ObjList α)).items = xs := by
  suffices h : ∀ s : ObjList α, (xs.foldl pushBack s).items = s.items ++ xs by simpa using h {}
  induction xs with
  | nil => intro s; simp
  | cons x xs ih => intro s; simp [ih, pushBack]

end ObjList

/-! ### empty_sequence, singleton_obj, singleton_ref -/
theorem emptySeq_get (α : Type) (p : Nat) : (emptySeq α).get p = .error .logic := rfl
theorem emptySeq_size (α : Type) : (emptySeq α).size = 0 := rfl

theorem SingletonObj.get_failed_iff {α : Type} (s : SingletonObj α) (p : Nat) : failed (s.view.get p) = true ↔ s.view.size ≤ p := by
  simp only [SingletonObj.view, SingletonObj.get]
  split <;> simp <;> omega

theorem SingletonRef.get_failed_iff {α : Type} (s : SingletonRef α) (p : Nat) : failed (s.view.get p) = true ↔ s.view.size ≤ p := by
  simp only [SingletonRef.view, SingletonRef.get]
  split <;> simp <;> omega

/-! ### typed_sequence, homogeneous_scope -/
namespace TypedSeq
variable {α τ : Type}

theorem get_failed_iff (t : TypedSeq α τ) (i : Nat) :
    failed (t.get i) = true ↔ failed (t.seq.get i) = true ∨ ∃ x, t.seq.get i = .ok x ∧ failed (t.typeOf x) = true := by
  unfold get
  cases h : t.seq.get i with
  | error e => simp [bind, Except.bind]
  | ok x => simp [bind, Except.bind]

theorem get_ok (t : TypedSeq α τ) (i : Nat) (x : α) (h : t.seq.get i = .ok x) : t.get i = t.typeOf x := by
  simp [get, h, bind, Except.bind]

end TypedSeq

namespace HomScope
variable {α τ : Type}

/-- The Product type of a homogeneous scope has exactly as many elements as the scope has members. -/
theorem type_size (h : HomScope α τ) : h.type.size = h.view.size := rfl

theorem type_get (h : HomScope α τ) (i : Nat) : h.type.get i = h.view.get i >>= h.decls.typeOf := rfl

end HomScope

theorem optionalGet_failed_iff {α : Type} (o : Option α) : failed (optionalGet o) = true ↔ o = none := by
  cases o <;> simp [optionalGet]

theorem optionalGet_some {α : Type} (x : α) : optionalGet (some x) = .ok x := rfl

/-! ### The uniform specification: every implementation is positional access into a list of slots -/
section Meets
variable {α τ : Type}

/-- Specification of positional access on a list of slots: `some x` holds an element, `none` was never filled. -/
def slotGet (slots : List (Option α)) (i : Nat) : Res α :=
  match slots[i]? with
  | none => .error .logic
  | some none => .error .logic
  | some (some x) => .ok x

/-- A `Sequence<T>` implementation *meets* a slot list when `size()` is its length and `get(i)` is positional access
    into it, refused outside and on a slot never filled. -/
structure View.Meets (v : View α) (slots : List (Option α)) : Prop where
  size_eq : v.size = slots.length
  get_eq : ∀ i, v.get i = slotGet slots i

theorem slotGet_failed_iff (slots : List (Option α)) (i : Nat) :
    failed (slotGet slots i) = true ↔ slots.length ≤ i ∨ slots[i]? = some none := by
  unfold slotGet
  cases h : slots[i]? with
  | none => have := List.getElem?_eq_none_iff.mp h; simp [this]
  | some o =>
    have hlt : i < slots.length := (List.getElem?_eq_some_iff.mp h).1
    cases o with
    | none => simp
    | some x => simp; omega

theorem slotGet_ok_iff (slots : List (Option α)) (i : Nat) (x : α) :
    slotGet slots i = .ok x ↔ slots[i]? = some (some x) := by
  unfold slotGet
  cases h : slots[i]? with
  | none => simp
  | some o => cases o <;> simp

theorem slotGet_map_some (xs : List α) (i : Nat) :
    slotGet (xs.map some) i = match xs[i]? with | some x => .ok x | none => .error .logic := by
  unfold slotGet
  simp only [List.getElem?_map]
  cases xs[i]? <;> rfl

theorem RefSeq.meets (s : RefSeq α) : s.view.Meets s.slots := ⟨rfl, fun _ => rfl⟩

theorem Warehouse.meets (n : Nat) (xs : List α) :
    (Warehouse.build n xs).view.Meets (List.replicate n none ++ xs.map some) := by
  refine ⟨by simp, fun i => ?_⟩
  show (Warehouse.build n xs).rep.get i = _
  unfold RefSeq.get slotGet
  rw [Warehouse.rep_build]
  rfl

theorem ObjSeq.meets (s : ObjSeq α) : s.view.Meets (s.items.map some) := by
  refine ⟨by simp [ObjSeq.view, ObjSeq.size], fun i => ?_⟩
  show s.get i = _
  rw [slotGet_map_some]
  unfold ObjSeq.get
  by_cases h : i < s.items.length
  · simp [h]
  · simp [h]

theorem ObjList.meets (s : ObjList α) : s.view.Meets (s.items.map some) := by
  refine ⟨by simp [ObjList.view, ObjList.size], fun i => ?_⟩
  show s.get i = _
  rw [slotGet_map_some]
  by_cases h : i < s.size
  · rw [ObjList.get_in_range s i h]
    have : s.items[i]? = some (s.items[i]'h) := List.getElem?_eq_getElem h
    simp [this]
  · have hf := (ObjList.get_failed_iff s i).mpr (Nat.le_of_not_lt h)
    rw [(failed_iff_error _).mp hf]
    have : s.items[i]? = none := List.getElem?_eq_none (Nat.le_of_not_lt h)
    simp [this]

theorem emptySeq_meets : (emptySeq α).Meets [] := ⟨rfl, fun i => by simp [emptySeq, slotGet]⟩

theorem SingletonObj.meets (s : SingletonObj α) : s.view.Meets [some s.item] := by
  refine ⟨rfl, fun i => ?_⟩
  show s.get i = _
  unfold SingletonObj.get slotGet
  cases i <;> simp

theorem SingletonRef.meets (s : SingletonRef α) : s.view.Meets [some s.datum] := by
  refine ⟨rfl, fun i => ?_⟩
  show s.get i = _
  unfold SingletonRef.get slotGet
  cases i <;> simp

/-- Slot of the type sequence over a member slot: empty when the member slot is, or when the member's `type()` raises. -/
def typedSlot (typeOf : α → Res τ) (o : Option α) : Option τ := o.bind (fun x => (typeOf x).toOption)

theorem TypedSeq.meets (t : TypedSeq α τ) (slots : List (Option α)) (h : t.seq.Meets slots) :
    t.view.Meets (slots.map (typedSlot t.typeOf)) := by
  refine ⟨by simp [TypedSeq.view, TypedSeq.size, h.size_eq], fun i => ?_⟩
  show t.get i = _
  unfold TypedSeq.get
  rw [h.get_eq i]
  unfold slotGet
  simp only [List.getElem?_map]
  cases hs : slots[i]? with
  | none => simp [bind, Except.bind]
  | some o =>
    cases o with
    | none => simp [bind, Except.bind, typedSlot]
    | some x =>
      simp only [bind, Except.bind, Option.map_some, typedSlot, Option.bind_some]
      cases hx : t.typeOf x with
      | error e => cases e; simp [Except.toOption]
      | ok y => simp [Except.toOption]

theorem HomScope.meets (h : HomScope α τ) (slots : List (Option α)) (hm : h.decls.seq.Meets slots) :
    h.view.Meets slots ∧ h.type.Meets (slots.map (typedSlot h.decls.typeOf)) :=
  ⟨⟨hm.size_eq, hm.get_eq⟩, TypedSeq.meets h.decls slots hm⟩

end Meets

end Ipr.Seq
