import IprModel.Unify
import IprProofs.RBOrder
/-! Naturality of the red-black operations: searching / inserting in a tree of (key, node) entries with a
    comparator that only looks at the keys is searching / inserting in the tree of keys. -/
namespace Ipr.RB
namespace Tree
variable {α β : Type}

def map (f : α → β) : Tree α → Tree β
  | .nil => .nil
  | .node c l k r => .node c (map f l) (f k) (map f r)

def Frame.map (f : α → β) (fr : Frame α) : Frame β := { dir := fr.dir, c := fr.c, k := f fr.k, sib := fr.sib.map f }

def pmap (f : α → β) (p : Path α) : Path β := List.map (Frame.map f) p

@[simp] theorem map_nil (f : α → β) : map f (.nil : Tree α) = .nil := rfl
@[simp] theorem map_node (f : α → β) (c l k r) : map f (.node c l k r) = .node c (map f l) (f k) (map f r) := rfl
@[simp] theorem pmap_nil (f : α → β) : pmap f ([] : Path α) = [] := rfl
@[simp] theorem pmap_cons (f : α → β) (fr : Frame α) (p : Path α) : pmap f (fr :: p) = Frame.map f fr :: pmap f p := rfl
@[simp] theorem pmap_length (f : α → β) (p : Path α) : (pmap f p).length = p.length := by simp [pmap]

@[simp] theorem map_plug (f : α → β) (t : Tree α) (fr : Frame α) : (t.plug fr).map f = (t.map f).plug (Frame.map f fr) := by
  cases fr with | mk d c k s => cases d <;> simp [plug, Frame.map]

@[simp] theorem map_zip (f : α → β) (p : Path α) : ∀ t : Tree α, (zip t p).map f = zip (t.map f) (pmap f p) := by
  induction p with
  | nil => intro t; simp [zip]
  | cons fr rest ih => intro t; simp [zip, ih]

@[simp] theorem map_blacken (f : α → β) (t : Tree α) : t.blacken.map f = (t.map f).blacken := by
  cases t <;> simp [blacken]

@[simp] theorem isRed_map (f : α → β) (t : Tree α) : (t.map f).isRed = t.isRed := by
  cases t with
  | nil => rfl
  | node c l k r => cases c <;> rfl

theorem inorder_map (f : α → β) (t : Tree α) : inorder (t.map f) = (inorder t).map f := by
  induction t with
  | nil => rfl
  | node c l k r ihl ihr => simp [inorder, ihl, ihr]

/-- Rebalancing never looks at the elements. -/
theorem map_fixup (f : α → β) : ∀ (len : Nat) (p : Path α), p.length = len → ∀ z : Tree α,
    (fixup z p).map f = fixup (z.map f) (pmap f p) := by
  intro len
  induction len using Nat.strongRecOn with
  | _ len ih =>
  intro p hlen z
  match p with
  | [] => simp [fixup]
  | [fr] => simp [fixup]
  | fp :: fg :: rest =>
    cases fp with | mk pd pc pk ps =>
    cases fg with | mk gd gc gk gs =>
    simp only [pmap_cons, Frame.map]
    unfold fixup
    simp only
    cases hpc : (pc == Color.black) with
    | true => simp [Frame.map]
    | false =>
      simp only [isRed_map, Bool.false_eq_true, ↓reduceIte]
      cases hu : gs.isRed with
      | true =>
        simp only [↓reduceIte]
        have hlt : rest.length < len := by simp at hlen; omega
        rw [ih _ hlt rest rfl]
        simp [Frame.map]
      | false =>
        simp only [Bool.false_eq_true, ↓reduceIte]
        cases z with
        | nil => simp
        | node zc zl zk zr =>
          cases gd <;> cases pd <;> simp

variable {cmpA : α → α → Int} {cmpB : β → β → Int} {f : α → β}

theorem map_find (hc : ∀ a b, cmpA a b = cmpB (f a) (f b)) (key : α) :
    ∀ t : Tree α, (find cmpA key t).map f = find cmpB (f key) (t.map f) := by
  intro t
  induction t with
  | nil => rfl
  | node c l k r ihl ihr =>
    simp only [find, map_node, ← hc]
    split
    · exact ihl
    · split
      · exact ihr
      · rfl

theorem map_descend (hc : ∀ a b, cmpA a b = cmpB (f a) (f b)) (key : α) :
    ∀ (t : Tree α) (path : Path α),
      (descend cmpA key t path).map (pmap f) = descend cmpB (f key) (t.map f) (pmap f path) := by
  intro t
  induction t with
  | nil => intro path; rfl
  | node c l k r ihl ihr =>
    intro path
    simp only [descend, map_node, ← hc]
    split
    · rw [ihl]; rfl
    · split
      · rw [ihr]; rfl
      · rfl

theorem map_insert (hc : ∀ a b, cmpA a b = cmpB (f a) (f b)) (t : Tree α) (key : α) :
    (insert cmpA t key).map f = insert cmpB (t.map f) (f key) := by
  unfold insert
  have h := map_descend hc key t []
  simp only [pmap_nil] at h
  rw [← h]
  cases descend cmpA key t [] with
  | none => rfl
  | some path => simp [map_fixup f _ path rfl]

end Tree
end Ipr.RB
