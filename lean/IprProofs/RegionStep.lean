import IprProofs.Region
/-!
# Every operation keeps the invariant and only extends the store
-/
namespace Ipr.Region

/-- One step: the invariant is kept **and** the new state extends the old one. -/
theorem Inv.step_ext {s : State} (hI : Inv s) (op : Op) : Inv (step s op) ∧ Ext s (step s op) := by
  cases op with
  | unit => exact ⟨hI.newUnit .tu none (by simp), Ext.newUnit s _ _⟩
  | module =>
    have h1 := hI.newUnit .iface (some s.mods.size) (by simp)
    refine ⟨?_, (Ext.newUnit s _ _).trans (Ext.pushMod _ _)⟩
    exact h1.pushMod (u := s.units.size) (ur := ⟨.iface, s.nodes.size, s.tree.size, some s.mods.size⟩)
      (by simp) rfl rfl
  | munit m =>
    simp only [step]
    split
    · exact ⟨hI.newUnit .impl (some m) (by simp), Ext.newUnit s _ _⟩
    · exact ⟨hI, Ext.refl s⟩
  | sub r =>
    simp only [step]
    split
    · rename_i pr hp
      split
      · exact ⟨hI.pushRegion hp none .sub [] (fun _ => rfl), Ext.pushRegion s _ _ hI.bsize⟩
      · exact ⟨hI, Ext.refl s⟩
    · exact ⟨hI, Ext.refl s⟩
  | udt k r =>
    simp only [step]
    split
    · rename_i pr hp
      split
      · -- class: body and bases
        rename_i hk
        have h1 := hI.pushRegion hp (some s.nodes.size) .classBody [] (fun _ => rfl)
        have hp' : (s.pushRegion (child pr r (some s.nodes.size) .classBody) []).tree[r]? = some pr :=
          get_push_of_get hp
        have h2 := h1.pushRegion hp' (some s.nodes.size) .classBases [] (fun _ => rfl)
        have e1 := Ext.pushRegion s (child pr r (some s.nodes.size) .classBody) [] hI.bsize
        have e2 := Ext.pushRegion _ (child pr r (some s.nodes.size) .classBases) [] h1.bsize
        refine ⟨h2.pushNode ?_, (e1.trans e2).trans (Ext.pushNode _ _)⟩
        refine ⟨?_, rfl, ?_⟩
        · exact (Opens.last s.tree pr r (some s.nodes.size) .classBody).push _
        · have := Opens.last (s.tree.push (child pr r (some s.nodes.size) .classBody)) pr r (some s.nodes.size) .classBases
          simpa using this
      · rename_i hk
        have h1 := hI.pushRegion hp (some s.nodes.size) k.bodyKind [] (fun _ => rfl)
        refine ⟨h1.pushNode ?_, (Ext.pushRegion s _ _ hI.bsize).trans (Ext.pushNode _ _)⟩
        exact ⟨Opens.last s.tree pr r (some s.nodes.size) k.bodyKind, hk⟩
    · exact ⟨hI, Ext.refl s⟩
  | block r =>
    simp only [step]
    split
    · rename_i pr hp
      have h1 := hI.pushRegion hp (some s.nodes.size) .block [] (fun _ => rfl)
      refine ⟨h1.pushNode ?_, (Ext.pushRegion s _ _ hI.bsize).trans (Ext.pushNode _ _)⟩
      exact Opens.last s.tree pr r (some s.nodes.size) .block
    · exact ⟨hI, Ext.refl s⟩
  | handler b =>
    simp only [step]
    split
    · rename_i inR brg hb
      split
      · rename_i br hbr
        split
        · rename_i e he
          split
          · rename_i er her
            -- the block's own facts: its region is enclosed by the region it was created in
            have hblk : inR = e := by
              obtain ⟨rr, h1, h2, _⟩ := hI.facts b _ hb
              rw [hbr] at h1; cases h1; rw [he] at h2; cases h2; rfl
            subst hblk
            let s1 := s.pushRegion (child er inR none .eh) [s.nodes.size]
            have h1 : Inv s1 := hI.pushRegion her none .eh [s.nodes.size] (fun h => absurd rfl h)
            have e1 : Ext s s1 := Ext.pushRegion s _ _ hI.bsize
            have hlast : s1.tree[s.tree.size]? = some (child er inR none .eh) := Array.getElem?_push_size
            let s2 := s1.pushRegion (child (child er inR none .eh) s.tree.size (some (s.nodes.size + 1)) .handlerBody) []
            have h2 : Inv s2 := h1.pushRegion hlast (some (s.nodes.size + 1)) .handlerBody [] (fun _ => rfl)
            have e2 : Ext s1 s2 := Ext.pushRegion s1 _ _ h1.bsize
            let s3 := s2.pushNode (.ehparam inR)
            have h3 : Inv s3 := h2.pushNode (nd := .ehparam inR) trivial
            have e3 : Ext s2 s3 := Ext.pushNode s2 _
            let s4 := s3.pushNode (.hblock s.tree.size (s.tree.size + 1))
            have h4 : Inv s4 := by
              refine h3.pushNode (nd := .hblock s.tree.size (s.tree.size + 1)) ?_
              have hsz : s.tree.size + 1 = s1.tree.size := by simp [s1]
              refine ⟨child (child er inR none .eh) s.tree.size (some (s.nodes.size + 1)) .handlerBody, ?_, rfl, ?_, rfl⟩
              · show (s1.tree.push _)[s.tree.size + 1]? = _
                rw [hsz]; exact Array.getElem?_push_size
              · show some (s.nodes.size + 1) = some (s.nodes.push (NodeRec.ehparam inR)).size
                simp
            have e4 : Ext s3 s4 := Ext.pushNode s3 _
            refine ⟨?_, (((e1.trans e2).trans e3).trans e4).trans (Ext.pushNode s4 _)⟩
            refine h4.pushNode (nd := .handler b inR s.tree.size s.nodes.size (s.nodes.size + 1)) ?_
            refine ⟨?_, ⟨brg, ?_⟩, ?_, ⟨s.tree.size + 1, ?_⟩, ?_⟩
            · exact (Opens.last s.tree er inR none .eh).push _
            · exact get_push_of_get (get_push_of_get hb)
            · show ((s.nodes.push (.ehparam inR)).push _)[s.nodes.size]? = some (.ehparam inR)
              exact get_push_of_get Array.getElem?_push_size
            · show ((s.nodes.push (.ehparam inR)).push (.hblock s.tree.size (s.tree.size + 1)))[s.nodes.size + 1]? = _
              have : s.nodes.size + 1 = (s.nodes.push (NodeRec.ehparam inR)).size := by simp
              rw [this]; exact Array.getElem?_push_size
            · show ((s.binds.push [s.nodes.size]).push [])[s.tree.size]? = some [s.nodes.size]
              rw [← hI.bsize]
              exact get_push_of_get Array.getElem?_push_size
          · exact ⟨hI, Ext.refl s⟩
        · exact ⟨hI, Ext.refl s⟩
      · exact ⟨hI, Ext.refl s⟩
    · exact ⟨hI, Ext.refl s⟩
  | callable k rf r lvl =>
    simp only [step]
    split
    · rename_i pr hp
      split
      · exact ⟨hI, Ext.refl s⟩
      · let o : Option Nat := if k.owns then some (s.nodes.size + 1) else none
        have h1 := hI.pushRegion hp o k.parmsKind [] (fun _ => rfl)
        have e1 := Ext.pushRegion s (child pr r o k.parmsKind) [] hI.bsize
        have h2 := h1.pushNode (nd := .plist k (s.nodes.size + 1) r s.tree.size lvl)
          (Opens.last s.tree pr r o k.parmsKind)
        have e2 := Ext.pushNode (s.pushRegion (child pr r o k.parmsKind) []) (.plist k (s.nodes.size + 1) r s.tree.size lvl)
        refine ⟨h2.pushNode (nd := .callable k r s.nodes.size) ?_, (e1.trans e2).trans (Ext.pushNode _ _)⟩
        refine ⟨s.tree.size, lvl, ?_⟩
        show (s.nodes.push _)[s.nodes.size]? = some (.plist k (s.nodes.push _).size r s.tree.size lvl)
        simp
    · exact ⟨hI, Ext.refl s⟩
  | whereE r =>
    simp only [step]
    split
    · rename_i pr hp
      have h1 := hI.pushRegion hp none .whereBody [] (fun _ => rfl)
      refine ⟨h1.pushNode ?_, (Ext.pushRegion s _ _ hI.bsize).trans (Ext.pushNode _ _)⟩
      exact Opens.last s.tree pr r none .whereBody
    · exact ⟨hI, Ext.refl s⟩
  | member mk c =>
    simp only [step]
    split
    · rename_i cn hc
      split
      · rename_i home hh
        split
        · rename_i l hl
          refine ⟨hI.addMember hc hh hl, Ext.addMember s mk c home l.length ?_⟩
          obtain ⟨rr, hrt, hrk⟩ := memberHome_kind hI hc hh
          intro rr' h; rw [hrt] at h; cases h; exact regionKindOk_ne_eh hrk
        · exact ⟨hI, Ext.refl s⟩
      · exact ⟨hI, Ext.refl s⟩
    · exact ⟨hI, Ext.refl s⟩

theorem Inv.step {s : State} (hI : Inv s) (op : Op) : Inv (step s op) := (hI.step_ext op).1

theorem run_snoc (ops : List Op) (op : Op) : run (ops ++ [op]) = step (run ops) op := by
  simp [run, List.foldl_append]

theorem run_append (ops more : List Op) : run (ops ++ more) = more.foldl step (run ops) := by
  simp [run, List.foldl_append]

/-- The invariant holds after every history. -/
theorem Inv.run (ops : List Op) : Inv (Region.run ops) := by
  suffices ∀ (s : State), Inv s → Inv (ops.foldl Region.step s) from this {} Inv.init
  induction ops with
  | nil => exact fun s h => h
  | cons op ops ih => exact fun s h => ih (Region.step s op) (h.step op)

/-- Whatever happens later only adds to the store. -/
theorem Ext.run (ops more : List Op) : Ext (run ops) (run (ops ++ more)) := by
  rw [run_append]
  have hI := Inv.run ops
  generalize Region.run ops = s at hI
  induction more generalizing s with
  | nil => exact Ext.refl s
  | cons op more ih => exact (hI.step_ext op).2.trans (ih (Region.step s op) (hI.step op))

end Ipr.Region
