import IprModel.Isolation
/-! Lemmas for C20: with no writable static, steps on distinct Lexicons commute — a thread's view of any interleaving
    is its sequential run. -/
namespace Ipr.Iso

variable {κ σ ω o : Type} {syms : List String}

/-- Without writable statics there is exactly one valuation of them. -/
theorem shared_nil_eq (a b : Shared []) : a = b := by
  funext x
  exact absurd x.2 (by simp)

theorem shared_eq_of_nil (h : syms = []) (a b : Shared syms) : a = b := by
  subst h; exact shared_nil_eq a b

/-- The core induction over the interleaving. -/
theorem exec_proj (S : Sys κ σ ω o syms) (k : κ) (hs : syms = []) (ℓ : Nat) :
    ∀ (tr : List (Ev ω)) (g : Global σ syms),
      outs ℓ (exec S k g tr).2 = (runAlone S k g.shared (g.lex ℓ) (proj ℓ tr)).2 ∧
      (exec S k g tr).1.lex ℓ = (runAlone S k g.shared (g.lex ℓ) (proj ℓ tr)).1.2 := by
  intro tr
  induction tr with
  | nil => intro g; simp [exec, runAlone, proj, outs]
  | cons e tr ih =>
    intro g
    by_cases he : e.lex = ℓ
    · have := ih { shared := (S.step k g.shared (g.lex e.lex) e.op).1,
                   lex := fun j => if j = e.lex then (S.step k g.shared (g.lex e.lex) e.op).2.1 else g.lex j }
      subst he
      simp only [exec, proj, outs, runAlone, if_true] at this ⊢
      exact ⟨by rw [this.1], this.2⟩
    · have := ih { shared := (S.step k g.shared (g.lex e.lex) e.op).1,
                   lex := fun j => if j = e.lex then (S.step k g.shared (g.lex e.lex) e.op).2.1 else g.lex j }
      have hne : ¬ ℓ = e.lex := fun h => he h.symm
      have hsh : (S.step k g.shared (g.lex e.lex) e.op).1 = g.shared := shared_eq_of_nil hs _ _
      simp only [exec, proj, outs, he, hne, if_false] at this ⊢
      have key : runAlone S k (S.step k g.shared (g.lex e.lex) e.op).1 (g.lex ℓ) (proj ℓ tr)
          = runAlone S k g.shared (g.lex ℓ) (proj ℓ tr) := by rw [hsh]
      rw [key] at this
      exact this

end Ipr.Iso
