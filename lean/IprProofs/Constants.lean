import IprModel.Constants
/-!
General facts used to lift the table checks of C13 (`IprProps/C13.lean`).
-/
set_option autoImplicit false
namespace Ipr.Const

theorem const?_some {α} [DecidableEq α] {l : List α} {x : α} (h : const? l = some x) : l ≠ [] ∧ ∀ y ∈ l, y = x := by
  cases l with
  | nil => simp [const?] at h
  | cons a as =>
    simp only [const?] at h
    split at h
    · rename_i hall
      cases h
      refine ⟨by simp, fun y hy => ?_⟩
      rcases List.mem_cons.mp hy with rfl | hy
      · rfl
      · simpa using (List.all_eq_true.mp hall) y hy
    · cases h

/-- **The name-scan route cannot return a neighbour or a look-alike**: if the names of the rows are pairwise distinct,
    asking for the type named by the name of row `(n, t)` returns exactly `t` — for every table, every row. -/
theorem asTypeOfName_hit : ∀ (tbl : List (Nat × Nat)), (tbl.map (·.1)).Nodup → ∀ n t, (n, t) ∈ tbl →
    asTypeOfName tbl n = some t
  | [], _, _, _, h => by cases h
  | (n', t') :: rest, hnd, n, t, hm => by
    simp only [List.map_cons, List.nodup_cons] at hnd
    rcases List.mem_cons.mp hm with heq | hm
    · cases heq
      simp [asTypeOfName, List.find?]
    · have hne : n' ≠ n := by
        intro e
        subst e
        exact hnd.1 (List.mem_map.mpr ⟨(n', t), hm, rfl⟩)
      have ih := asTypeOfName_hit rest hnd.2 n t hm
      simp only [asTypeOfName, List.find?] at ih ⊢
      have : (n' == n) = false := by simpa using hne
      simp only [this]
      exact ih

/-- A name that no row bears is not answered from the table (the library then builds an extended type). -/
theorem asTypeOfName_miss (tbl : List (Nat × Nat)) (n : Nat) (h : n ∉ tbl.map (·.1)) : asTypeOfName tbl n = none := by
  unfold asTypeOfName
  rw [Option.map_eq_none_iff, List.find?_eq_none]
  intro p hp hpn
  apply h
  have : p.1 = n := by simpa using hpn
  exact List.mem_map.mpr ⟨p, hp, this⟩

/-- Pairwise distinctness, unfolded: two different positions of a duplicate-free list hold different nodes. -/
theorem nodup_pairwise {α} {l : List α} (h : l.Nodup) {i j : Nat} (hi : i < l.length) (hj : j < l.length) (hij : i ≠ j) :
    l[i] ≠ l[j] := by
  intro e
  exact hij ((List.getElem_inj h).mp e)

end Ipr.Const
