import IprProofs.RBLinkedChain
set_option linter.unusedSimpArgs false
set_option linter.unusedSectionVars false
set_option linter.unusedVariables false
namespace Ipr.RB.Linked
open Tree
variable {α : Type} [Inhabited α]

/-- `Repr s t`: the cells reachable from `s.root` form exactly the persistent tree `t` (same keys, colours, shape),
    every child's `parent` field names its parent, the root's `parent` is null, the addresses are pairwise distinct
    (and below the allocator's next address), and `count` bounds the number of nodes. -/
def Repr (s : Store α) (t : Tree α) : Prop := ∃ a : ATree α, Inv s a ∧ erase a = t

theorem repr_empty : Repr ({} : Store α) .nil :=
  ⟨.nil, ⟨⟨trivial, trivial, rfl, by simp [zip]⟩, by simp [Tree.size], by simp⟩, rfl⟩

theorem rbinv_isRed {β : Type} {t : Tree β} (h : RBInv t) : t.isRed = false := by
  obtain ⟨n, h⟩ := h
  cases h <;> simp [isRed]

theorem erase_insert (cmp : α → α → Int) (a : ATree α) (k : Nat × α) :
    erase (Tree.insert (acmp cmp) a k) = Tree.insert cmp (erase a) k.2 :=
  map_insert Prod.snd cmp a k

theorem erase_descend_isSome (cmp : α → α → Int) (a : ATree α) (k : Nat × α) :
    (descend (acmp cmp) k a []).isSome = (descend cmp k.2 (erase a) []).isSome := by
  have := map_descend Prod.snd cmp k a []
  simp only [List.map_nil] at this
  rw [show descend cmp k.2 (erase a) [] = _ from this.symm]
  simp only [Option.isSome_map]; rfl

/-- One call of `container<T>::insert` on a store that represents a red-black tree `t`: it is defined, and the store
    then represents `Tree.insert t key`; `count` and the returned node behave as `Container.insert` says. -/
theorem insertOwn_refines (cmp : α → α → Int) (s : Store α) (t : Tree α) (key : α) (h : Repr s t) (hrb : RBInv t) :
    ∃ s' w fresh, s.insertOwn cmp key = some (s', w, fresh) ∧ Repr s' (Tree.insert cmp t key) ∧
      fresh = (Container.insert cmp ⟨t, s.count⟩ key).2 ∧
      s'.count = (Container.insert cmp ⟨t, s.count⟩ key).1.count ∧
      (fresh = true → s'.key w = key) ∧
      (fresh = false → s' = s ∧ find cmp key t = some (s.key w)) := by
  obtain ⟨a, hinv, rfl⟩ := h
  have hblack : a.isRed = false := by
    have := rbinv_isRed hrb
    simpa [erase] using this
  obtain ⟨s', w, fresh, h1, h2, h3, h4, h5, h6⟩ := insertOwn_spec cmp s a key hinv hblack
  refine ⟨s', w, fresh, h1, ⟨_, h2, erase_insert cmp a _⟩, ?_, ?_, h5, h6⟩
  · rw [h3, erase_descend_isSome]
    simp only [Container.insert]
    cases descend cmp key (erase a) [] <;> rfl
  · rw [h4, h3, erase_descend_isSome]
    simp only [Container.insert]
    cases descend cmp key (erase a) [] <;> simp

/-- One call of `chain<Node>::insert` (with a freshly constructed node holding `key`): defined, refines
    `Tree.insert`, bumps `count` regardless, returns the node it was given. -/
theorem insertChain_refines (cmp : α → α → Int) (s : Store α) (t : Tree α) (key : α) (h : Repr s t) (hrb : RBInv t) :
    ∃ s', s.insertChain cmp key = some (s', s.next) ∧ Repr s' (Tree.insert cmp t key) ∧
      s'.count = s.count + 1 ∧ s'.key s.next = key := by
  obtain ⟨a, hinv, rfl⟩ := h
  have hblack : a.isRed = false := by
    have := rbinv_isRed hrb
    simpa [erase] using this
  obtain ⟨s', h1, h2, h3, h4⟩ := insertChain_spec cmp s a key hinv hblack
  exact ⟨s', h1, ⟨_, h2, erase_insert cmp a _⟩, h3, h4⟩

/-- Reading the store back gives the represented tree. -/
theorem toTree_own (s : Store α) : ∀ (a : ATree α) (p : Option Nat) (fuel : Nat), Own s.mem p a → height a < fuel →
    s.toTree fuel (ptrOf a) = erase a := by
  intro a
  induction a with
  | nil => intro p fuel _ _; cases fuel <;> simp [Store.toTree, erase]
  | node c l k r ihl ihr =>
    intro p fuel h hf
    obtain ⟨fuel, rfl⟩ : ∃ f, fuel = f + 1 := ⟨fuel - 1, by omega⟩
    simp only [height] at hf
    have hk := h.1
    simp only [ptrOf_node, Store.toTree, erase, map_node, Store.color, Store.key, Store.left, Store.right, hk]
    rw [ihl _ _ h.2.1 (by omega), ihr _ _ h.2.2 (by omega)]; rfl

theorem Repr.toTree {s : Store α} {t : Tree α} (h : Repr s t) : s.toTree (s.count + 1) s.root = t := by
  obtain ⟨a, hinv, rfl⟩ := h
  rw [hinv.focus.root]
  refine toTree_own s a none _ hinv.focus.own ?_
  have := height_le_size a; have := hinv.size; omega

/-- The parent links of a store, stated on the raw cells: `fp` is the set of addresses of the nodes of the tree. -/
structure LinksOK (s : Store α) (fp : List Nat) : Prop where
  nodup : fp.Nodup
  root : ∀ r, s.root = some r → r ∈ fp ∧ s.parent r = none
  empty : s.root = none → fp = []
  left : ∀ a ∈ fp, ∀ c, s.left a = some c → c ∈ fp ∧ s.parent c = some a
  right : ∀ a ∈ fp, ∀ c, s.right a = some c → c ∈ fp ∧ s.parent c = some a

theorem own_links (s : Store α) : ∀ (a : ATree α) (p : Option Nat), Own s.mem p a →
    (∀ r, ptrOf a = some r → s.parent r = p) ∧
    (∀ x ∈ addrs a, ∀ c, s.left x = some c → c ∈ addrs a ∧ s.parent c = some x) ∧
    (∀ x ∈ addrs a, ∀ c, s.right x = some c → c ∈ addrs a ∧ s.parent c = some x) := by
  intro a
  induction a with
  | nil => intro p _; simp
  | node c l k r ihl ihr =>
    intro p h
    obtain ⟨hk, hl, hr⟩ := h
    obtain ⟨l1, l2, l3⟩ := ihl _ hl
    obtain ⟨r1, r2, r3⟩ := ihr _ hr
    refine ⟨by simp [Store.parent, hk], ?_, ?_⟩
    · intro x hx ch hc
      simp only [addrs_node, List.mem_append, List.mem_cons] at hx ⊢
      rcases hx with hx | hx | hx
      · have := l2 x hx ch hc; exact ⟨Or.inl this.1, this.2⟩
      · subst hx
        simp only [Store.left, hk] at hc
        exact ⟨Or.inl (ptrOf_mem hc), l1 _ hc⟩
      · have := r2 x hx ch hc; exact ⟨Or.inr (Or.inr this.1), this.2⟩
    · intro x hx ch hc
      simp only [addrs_node, List.mem_append, List.mem_cons] at hx ⊢
      rcases hx with hx | hx | hx
      · have := l3 x hx ch hc; exact ⟨Or.inl this.1, this.2⟩
      · subst hx
        simp only [Store.right, hk] at hc
        exact ⟨Or.inr (Or.inr (ptrOf_mem hc)), r1 _ hc⟩
      · have := r3 x hx ch hc; exact ⟨Or.inr (Or.inr this.1), this.2⟩

theorem Repr.links {s : Store α} {t : Tree α} (h : Repr s t) : ∃ fp : List Nat, LinksOK s fp ∧ fp.length = size t := by
  obtain ⟨a, hinv, rfl⟩ := h
  obtain ⟨h1, h2, h3⟩ := own_links s a none hinv.focus.own
  refine ⟨addrs a, ⟨by simpa [zip] using hinv.focus.nodup, ?_, ?_, h2, h3⟩, ?_⟩
  · intro r hr
    have : ptrOf a = some r := by rw [← hr]; exact hinv.focus.root.symm
    exact ⟨ptrOf_mem this, h1 r this⟩
  · intro hr
    have : ptrOf a = none := by rw [← hr]; exact hinv.focus.root.symm
    cases a with
    | nil => rfl
    | node => simp at this
  · simp [addrs, erase, inorder_map, size_eq_length]

/-- `find` on the store walks as `Tree.find` does. -/
theorem findLoop_own (cmp : α → α → Int) (key : α) (s : Store α) : ∀ (a : ATree α) (p : Option Nat) (fuel : Nat),
    Own s.mem p a → height a < fuel →
    ∃ r, s.findLoop cmp key fuel (ptrOf a) = some r ∧ r.map s.key = find cmp key (erase a) := by
  intro a
  induction a with
  | nil =>
    intro p fuel _ hf
    obtain ⟨fuel, rfl⟩ : ∃ f, fuel = f + 1 := ⟨fuel - 1, by omega⟩
    exact ⟨none, by simp [Store.findLoop], by simp [erase, find]⟩
  | node c l k r ihl ihr =>
    intro p fuel h hf
    obtain ⟨fuel, rfl⟩ : ∃ f, fuel = f + 1 := ⟨fuel - 1, by omega⟩
    simp only [height] at hf
    have hk := h.1
    have hkey : s.key k.1 = k.2 := by simp [Store.key, hk]
    simp only [ptrOf_node, Store.findLoop, erase, map_node, find, hkey]
    by_cases h1 : cmp k.2 key < 0
    · simp only [h1, if_true]
      have := ihl _ fuel h.2.1 (by omega)
      simpa [Store.left, hk, erase] using this
    · by_cases h2 : cmp k.2 key > 0
      · simp only [h1, h2, if_true, if_false]
        have := ihr _ fuel h.2.2 (by omega)
        simpa [Store.right, hk, erase] using this
      · simp only [h1, h2, if_false]
        exact ⟨some k.1, rfl, by simp [hkey]⟩

theorem Repr.find {s : Store α} {t : Tree α} (h : Repr s t) (cmp : α → α → Int) (key : α) :
    ∃ r, Store.find cmp s key = some r ∧ r.map s.key = Tree.find cmp key t := by
  obtain ⟨a, hinv, rfl⟩ := h
  unfold Store.find
  rw [hinv.focus.root]
  refine findLoop_own cmp key s a none _ hinv.focus.own ?_
  have := height_le_size a; have := hinv.size; omega

end Ipr.RB.Linked
