import IprModel.Outcome
/-! Laws of link states under assignment histories and of accessor outcomes (model: IprModel/Outcome.lean). -/
namespace Ipr.Outcome
open Ipr.Seq (LogicError Res)

theorem snocInd {α : Type} {P : List α → Prop} (nil : P []) (snoc : ∀ l a, P l → P (l ++ [a])) : ∀ l, P l := by
  intro l
  rw [← List.reverse_reverse l]
  induction l.reverse with
  | nil => exact nil
  | cons a t ih => rw [List.reverse_cons]; exact snoc _ _ ih

abbrev History := List (Nat × LinkVal)

/-- The last value assigned to link `l` in a history, if any. -/
def lastAssign (h : History) (l : Nat) : Option LinkVal :=
  h.foldl (fun acc a => if a.1 = l then some a.2 else acc) none

@[simp] theorem lastAssign_nil (l : Nat) : lastAssign [] l = none := rfl
theorem lastAssign_snoc (h : History) (a : Nat × LinkVal) (l : Nat) :
    lastAssign (h ++ [a]) l = if a.1 = l then some a.2 else lastAssign h l := by
  simp [lastAssign, List.foldl_append]

theorem lastAssign_none_iff (h : History) (l : Nat) : lastAssign h l = none ↔ ∀ a ∈ h, a.1 ≠ l := by
  induction h using snocInd with
  | nil => simp
  | snoc h a ih =>
    rw [lastAssign_snoc]
    by_cases e : a.1 = l
    · simp only [e, if_true]
      constructor
      · intro hh; cases hh
      · intro hh; exact absurd e (hh a (by simp))
    · simp only [e, if_false, ih, List.mem_append, List.mem_singleton]
      constructor
      · intro hh b hb; rcases hb with hb | hb
        · exact hh b hb
        · subst hb; exact e
      · intro hh b hb; exact hh b (Or.inl hb)

/-- If the history is `h₁`, then `l := v`, then assignments to other links only, the last value assigned to `l` is `v`. -/
theorem lastAssign_decomp (h₁ h₂ : History) (l : Nat) (v : LinkVal) (hfree : ∀ a ∈ h₂, a.1 ≠ l) :
    lastAssign (h₁ ++ (l, v) :: h₂) l = some v := by
  induction h₂ using snocInd with
  | nil => rw [lastAssign_snoc]; simp
  | snoc h₂ a ih =>
    have : h₁ ++ (l, v) :: (h₂ ++ [a]) = (h₁ ++ (l, v) :: h₂) ++ [a] := by simp
    rw [this, lastAssign_snoc]
    have hne : a.1 ≠ l := hfree a (by simp)
    simp only [hne, if_false]
    exact ih (fun b hb => hfree b (by simp [hb]))

/-- Conversely every `some` comes from such a decomposition. -/
theorem lastAssign_some_decomp (h : History) (l : Nat) (v : LinkVal) (hs : lastAssign h l = some v) :
    ∃ h₁ h₂, h = h₁ ++ (l, v) :: h₂ ∧ ∀ a ∈ h₂, a.1 ≠ l := by
  induction h using snocInd with
  | nil => simp at hs
  | snoc h a ih =>
    rw [lastAssign_snoc] at hs
    by_cases e : a.1 = l
    · simp only [e, if_true, Option.some.injEq] at hs
      refine ⟨h, [], ?_, by simp⟩
      cases a; simp_all
    · simp only [e, if_false] at hs
      obtain ⟨h₁, h₂, rfl, hf⟩ := ih hs
      refine ⟨h₁, h₂ ++ [a], by simp, ?_⟩
      intro b hb
      rcases List.mem_append.mp hb with hb | hb
      · exact hf b hb
      · simp at hb; subst hb; exact e

theorem lastAssign_filter (h : History) (p : Nat → Bool) (l : Nat) (hp : p l = true) :
    lastAssign (h.filter (fun a => p a.1)) l = lastAssign h l := by
  induction h using snocInd with
  | nil => rfl
  | snoc h a ih =>
    rw [List.filter_append, lastAssign_snoc]
    by_cases e : a.1 = l
    · have q : p a.1 = true := by rw [e]; exact hp
      have : List.filter (fun a => p a.1) [a] = [a] := by simp [q]
      rw [this, lastAssign_snoc]; simp [e]
    · by_cases q : p a.1 = true
      · have : List.filter (fun a => p a.1) [a] = [a] := by simp [q]
        rw [this, lastAssign_snoc]; simp [e, ih]
      · have : List.filter (fun a => p a.1) [a] = [] := by simp [q]
        rw [this, List.append_nil]; simp [e, ih]

namespace State

@[simp] theorem length_assign (σ : State) (l : Nat) (v : LinkVal) : (σ.assign l v).length = σ.length := by
  simp [assign]

theorem run_nil (σ : State) : σ.run [] = σ := rfl
theorem run_snoc (σ : State) (h : History) (a : Nat × LinkVal) : σ.run (h ++ [a]) = (σ.run h).assign a.1 a.2 := by
  simp [run, List.foldl_append]
theorem run_cons (σ : State) (h : History) (a : Nat × LinkVal) : σ.run (a :: h) = (σ.assign a.1 a.2).run h := rfl
theorem run_append (σ : State) (h₁ h₂ : History) : σ.run (h₁ ++ h₂) = (σ.run h₁).run h₂ := by
  simp [run, List.foldl_append]

@[simp] theorem length_run (σ : State) (h : History) : (σ.run h).length = σ.length := by
  induction h using snocInd with
  | nil => rfl
  | snoc h a ih => rw [run_snoc, length_assign, ih]

@[simp] theorem length_initial (n : Nat) : (initial n).length = n := by simp [initial]

theorem link_initial (n l : Nat) : (initial n).link l = {} := by
  unfold link initial
  rw [List.getD_eq_getElem?_getD]
  by_cases h : l < n
  · simp [h]
  · simp [h]

theorem link_out_of_range (σ : State) (l : Nat) (h : σ.length ≤ l) : σ.link l = {} := by
  unfold link
  rw [List.getD_eq_getElem?_getD, List.getElem?_eq_none h]; rfl

theorem link_assign (σ : State) (l l' : Nat) (v : LinkVal) :
    (σ.assign l v).link l' = if l = l' ∧ l < σ.length then v else σ.link l' := by
  unfold link assign
  simp only [List.getD_eq_getElem?_getD, List.getElem?_set]
  by_cases e : l = l'
  · subst e
    by_cases hl : l < σ.length
    · simp [hl]
    · simp [hl]
  · simp [e]

/-- Closed form of a link after any history: the last value assigned to it, else what it was. -/
theorem link_run (σ : State) (h : History) (l : Nat) :
    (σ.run h).link l = if l < σ.length then (lastAssign h l).getD (σ.link l) else {} := by
  by_cases hl : l < σ.length
  · simp only [hl, if_true]
    induction h using snocInd with
    | nil => simp [run_nil]
    | snoc h a ih =>
      rw [run_snoc, link_assign, lastAssign_snoc, length_run]
      by_cases e : a.1 = l
      · subst e; simp [hl]
      · simp [e, ih]
  · simp only [hl, if_false]
    exact link_out_of_range _ _ (by simp; omega)

end State

/-! ### Accessors -/

/-- An accessor's answer is a function of the links it reads. -/
theorem Sem.eval_congr (sem : Sem) (σ σ' : State) (h : ∀ l ∈ sem.reads, σ.link l = σ'.link l) : sem.eval σ = sem.eval σ' := by
  cases sem with
  | const => rfl
  | fails => rfl
  | on l outs =>
    have := h l (by simp [Sem.reads])
    simp [Sem.eval, this]

/-! ### Table-level notions used by IprProps/C14.lean -/

/-- A history a client can perform on a node of kind `k`: assignments to its links, each leaving the link in one of its
    states. -/
def ValidHistory (k : KindSpec) (h : History) : Prop :=
  ∀ a ∈ h, a.2.code < ((k.links[a.1]?).map (·.arity)).getD 0

theorem wellFormed_row {k : KindSpec} (hw : k.wellFormed = true) {acc : String} {l : Nat} {outs : List Out}
    (hr : (acc, Sem.on l outs) ∈ k.rows) : ∃ ls, k.links[l]? = some ls ∧ outs.length = ls.arity ∧ 2 ≤ ls.arity := by
  simp only [KindSpec.wellFormed, Bool.and_eq_true, List.all_eq_true, decide_eq_true_eq] at hw
  have h1 := hw.1.1.1 _ hr
  simp only [Sem.wellFormed] at h1
  cases hl : k.links[l]? with
  | none => simp [hl] at h1
  | some ls =>
    simp only [hl, beq_iff_eq] at h1
    exact ⟨ls, rfl, h1, hw.2 ls (List.mem_of_getElem? hl)⟩

/-- No literal outcome in a row: then the printed token determines the outcome class. -/
def Sem.noLit : Sem → Bool
  | .on _ outs => outs.all (fun o => match o with | .lit _ => false | _ => true)
  | _ => true

theorem dollar_ne (s : String) : "$" ++ s ≠ "!L" ∧ "$" ++ s ≠ "-" ∧ "$" ++ s ≠ "*" := by
  refine ⟨fun h => ?_, fun h => ?_, fun h => ?_⟩ <;>
  · have := congrArg String.toList h
    simp [String.toList_append] at this

end Ipr.Outcome
