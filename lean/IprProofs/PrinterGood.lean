import IprProofs.PrinterInv
/-!
# Lemmas about the printer model, part 3: where every output byte comes from; the stream's format state
-/
namespace Ipr.Printer

def printable (b : UInt8) : Bool := 32 ≤ b && b < 127

def strOK (s : String) : Bool := (strBytes s).all printable

/-- The string literals of an instruction are printable ASCII. -/
def Instr.litOK : Instr → Bool
  | .tok s | .raw s | .kw s => strOK s
  | _ => true

/-- `b` occurs in a spelling stored in the graph (a node's string, or one of its specifier / qualifier words). -/
def GraphByte (h : Heap) (b : UInt8) : Prop := ∃ a, b ∈ (h a).str ∨ ∃ w ∈ (h a).words, b ∈ w

/-- What a chunk may contain, by provenance. -/
def Good (h : Heap) (o : Opts) (base : Nat) (c : Chunk) : Prop :=
  (o.loc = false → c.inLoc = false) ∧
  match c.tag with
  | .tok => ∀ b ∈ c.bytes, printable b = true
  | .spell => ∀ b ∈ c.bytes, printable b = true ∨ GraphByte h b
  | .num n => c.bytes = renderNat base n
  | .pad => c.bytes = [32]
  | .nl => ∃ k, c.bytes = 10 :: List.replicate k 32

/-- The state relation: format state kept (width may be reset by an insertion), output only extended, by good chunks. -/
def QGood (h : Heap) (o : Opts) (st st' : PState) : Prop :=
  st'.fmt.base = st.fmt.base ∧ st'.fmt.fill = st.fmt.fill ∧ (st'.fmt.width = st.fmt.width ∨ st'.fmt.width = 0) ∧
  ∃ new, st'.out = new ++ st.out ∧ ∀ c ∈ new, Good h o st.fmt.base c

namespace QGood
variable {h : Heap} {o : Opts}

theorem refl (st : PState) : QGood h o st st := ⟨rfl, rfl, Or.inl rfl, [], rfl, by simp⟩

theorem trans (a b c : PState) (h1 : QGood h o a b) (h2 : QGood h o b c) : QGood h o a c := by
  obtain ⟨b1, f1, w1, n1, o1, g1⟩ := h1
  obtain ⟨b2, f2, w2, n2, o2, g2⟩ := h2
  refine ⟨b2.trans b1, f2.trans f1, ?_, n2 ++ n1, by rw [o2, o1, List.append_assoc], ?_⟩
  · rcases w2 with w2 | w2
    · rw [w2]; exact w1
    · exact Or.inr w2
  · intro c hc
    rcases List.mem_append.mp hc with hc | hc
    · have := g2 c hc; rwa [b1] at this
    · exact g1 c hc

/-- A change of padding / newline / indentation / ghost fields only. -/
theorem of_eq {st st' : PState} (ho : st'.out = st.out) (hf : st'.fmt = st.fmt) : QGood h o st st' :=
  ⟨by rw [hf], by rw [hf], Or.inl (by rw [hf]), [], by simp [ho], by simp⟩

theorem emit {st : PState} {tag : Tag} {il : Bool} {bs : Bytes} (hg : Good h o st.fmt.base ⟨tag, il, bs⟩) :
    QGood h o st (st.emit tag il bs) :=
  ⟨rfl, rfl, Or.inr rfl, [⟨tag, il, bs⟩], rfl, by simpa using hg⟩

end QGood

theorem strOK_bytes {s : String} (hs : strOK s = true) : ∀ b ∈ strBytes s, printable b = true := by
  simpa [strOK, List.all_eq_true] using hs

section prims
variable {h : Heap} {o : Opts}

theorem qgood_tok (st : PState) (s : String) (il : Bool) (hs : strOK s = true) (hl : o.loc = false → il = false) :
    QGood h o st (st.tok s il) := by
  have : QGood h o st (st.emit .tok il (strBytes s)) := QGood.emit ⟨hl, strOK_bytes hs⟩
  exact QGood.trans _ _ _ this (QGood.of_eq rfl rfl)

theorem qgood_raw (st : PState) (s : String) (hs : strOK s = true) : QGood h o st (st.raw s) :=
  QGood.emit ⟨fun _ => rfl, strOK_bytes hs⟩

theorem qgood_num (st : PState) (n : Nat) (il : Bool) (hl : o.loc = false → il = false) : QGood h o st (st.num n il) :=
  QGood.emit ⟨hl, rfl⟩

theorem qgood_newline (st : PState) : QGood h o st st.newline := by
  have : QGood h o st (st.emit .nl false (10 :: List.replicate st.indent.toNat 32)) := QGood.emit ⟨fun _ => rfl, _, rfl⟩
  exact QGood.trans _ _ _ this (QGood.of_eq rfl rfl)

theorem qgood_padBefore (st : PState) : QGood h o st st.padBefore := by
  unfold PState.padBefore
  split
  · exact QGood.emit ⟨fun _ => rfl, rfl⟩
  · exact QGood.refl st

theorem qgood_writeBytes (st : PState) (tag : Tag) (bs : Bytes) (hg : Good h o st.fmt.base ⟨tag, false, bs⟩) :
    QGood h o st (st.writeBytes tag bs) := by
  unfold PState.writeBytes
  split
  · exact QGood.refl st
  · exact QGood.emit hg

theorem padBefore_base (st : PState) : st.padBefore.fmt.base = st.fmt.base := by
  unfold PState.padBefore; split <;> rfl

theorem qgood_ident (st : PState) (tag : Tag) (bs : Bytes) (hg : Good h o st.fmt.base ⟨tag, false, bs⟩) :
    QGood h o st (st.ident tag bs) :=
  QGood.trans _ _ _ (qgood_padBefore st)
    (QGood.trans _ _ _ (qgood_writeBytes _ tag bs (by rw [padBefore_base]; exact hg)) (QGood.of_eq rfl rfl))

theorem escapeByte_ok_nat : ∀ n, n < 256 →
    (escapeByte (UInt8.ofNat n)).all (fun b => printable b || b == UInt8.ofNat n) = true := by
  decide +kernel

theorem escapeByte_ok (x : UInt8) : ∀ b ∈ escapeByte x, printable b = true ∨ b = x := by
  have := escapeByte_ok_nat x.toNat (UInt8.toNat_lt x)
  rw [UInt8.ofNat_toNat] at this
  simpa [List.all_eq_true] using this

theorem escape_ok (bs : Bytes) : ∀ b ∈ escape bs, printable b = true ∨ b ∈ bs := by
  intro b hb
  simp only [escape, List.mem_flatten, List.mem_map] at hb
  obtain ⟨l, ⟨x, hx, rfl⟩, hbl⟩ := hb
  rcases escapeByte_ok x b hbl with hp | rfl
  · exact Or.inl hp
  · exact Or.inr hx

theorem qgood_words (a : Addr) : ∀ (ws : List Bytes), (∀ w ∈ ws, w ∈ (h a).words) → ∀ st : PState,
    QGood h o st (ws.foldl (fun st w => st.ident .spell w) st)
  | [], _, st => QGood.refl st
  | w :: ws, hw, st => by
    simp only [List.foldl_cons]
    refine QGood.trans _ _ _ (qgood_ident st .spell w ⟨fun _ => rfl, fun b hb => Or.inr ⟨a, Or.inr ⟨w, hw w (by simp), hb⟩⟩⟩) ?_
    exact qgood_words a ws (fun w' hw' => hw w' (by simp [hw'])) _

theorem qgood_prim (rec : Rec) (cls : VClass) (strict : Bool) (a : Addr) (i : Instr) (st : PState)
    (hr : i.isRec = false) (hi : i.litOK = true) : QGood h o st (step h rec cls strict a (h a) i st).st := by
  cases i with
  | tok s => exact qgood_tok st s false hi fun _ => rfl
  | raw s => exact qgood_raw st s hi
  | kw s => exact qgood_ident st .tok _ ⟨fun _ => rfl, strOK_bytes hi⟩
  | idStr => exact qgood_ident st .spell _ ⟨fun _ => rfl, fun b hb => Or.inr ⟨a, Or.inl hb⟩⟩
  | wrStr =>
    exact QGood.trans _ _ _ (qgood_writeBytes st .spell _ ⟨fun _ => rfl, fun b hb => Or.inr ⟨a, Or.inl hb⟩⟩) (QGood.of_eq rfl rfl)
  | litStr =>
    refine qgood_writeBytes st .spell _ ⟨fun _ => rfl, fun b hb => ?_⟩
    rcases escape_ok _ b hb with hp | hm
    · exact Or.inl hp
    · exact Or.inr ⟨a, Or.inl hm⟩
  | words => exact qgood_words a _ (fun w hw => hw) st
  | indent n => exact QGood.of_eq rfl rfl
  | nlIndent n => exact QGood.trans _ _ _ (QGood.of_eq (st' := st.addIndent n) rfl rfl) (qgood_newline _)
  | needNl => exact QGood.of_eq rfl rfl
  | labelOutdent =>
    simp only [step]
    split
    · exact QGood.trans _ _ _ (QGood.of_eq (st' := st.addIndent (-3)) rfl rfl) (qgood_newline _)
    · exact QGood.of_eq rfl rfl
  | throw => exact QGood.refl st
  | acc e p => simp [Instr.isRec] at hr
  | accSame p => simp [Instr.isRec] at hr
  | each k p w => simp [Instr.isRec] at hr

theorem qgood_locColumn (r : NodeRec) (st : PState) (hl : o.loc = true) : QGood h o st (locColumn r st) := by
  have hil : o.loc = false → true = false := fun hf => by rw [hl] at hf; cases hf
  unfold locColumn
  split
  · exact QGood.trans _ _ _ (qgood_tok st ":" true (by decide +kernel) hil) (qgood_num _ _ true hil)
  · exact QGood.refl _

theorem qgood_locToken (r : NodeRec) (st : PState) (hl : o.loc = true) : QGood h o st (locToken r st) := by
  have hil : o.loc = false → true = false := fun hf => by rw [hl] at hf; cases hf
  have s1 : QGood h o st (st.tok "F" true) := qgood_tok st "F" true (by decide +kernel) hil
  have s2 := QGood.trans _ _ _ s1 (qgood_num (st.tok "F" true) r.loc.file true hil)
  have s3 := QGood.trans _ _ _ s2 (qgood_tok _ ":" true (by decide +kernel) hil)
  have s4 := QGood.trans _ _ _ s3 (qgood_num _ r.loc.line true hil)
  have s5 := QGood.trans _ _ _ s4 (qgood_locColumn r _ hl)
  exact QGood.trans _ _ _ s5 (qgood_tok _ " " true (by decide +kernel) hil)

theorem qgood_pendingNewline (st : PState) : QGood h o st st.pendingNewline := by
  unfold PState.pendingNewline
  split
  · exact qgood_newline st
  · exact QGood.refl st

theorem qgood_printLoc (r : NodeRec) (st : PState) : QGood h o st (printLoc o r st) := by
  unfold printLoc
  have hc : QGood h o st st.countLocated := QGood.of_eq rfl rfl
  split
  · cases hl : o.loc with
    | true => simpa using QGood.trans _ _ _ hc (qgood_locToken r _ hl)
    | false => simpa using hc
  · exact QGood.refl _

theorem qgood_prelude (e : Entry) (r : NodeRec) (st : PState) : QGood h o st (prelude o e r st) := by
  unfold prelude
  split
  · exact QGood.refl st
  · exact QGood.trans _ _ _ (qgood_pendingNewline st) (qgood_printLoc r _)

theorem qgood_postlude (e : Entry) (st : PState) : QGood h o st (postlude e st) := by
  unfold postlude
  split
  · exact qgood_tok st ";" false (by decide +kernel) fun _ => rfl
  · exact QGood.refl st

theorem qgood_pre (k : SeqKind) (f : Bool) (st : PState) : QGood h o st (k.pre f st) := by
  cases k <;> simp only [SeqKind.pre] <;> first | exact QGood.refl st | (split <;> first | exact QGood.refl st | exact qgood_raw st ", " (by decide +kernel))

theorem qgood_post (k : SeqKind) (st : PState) : QGood h o st (k.post st) := by
  cases k <;> simp only [SeqKind.post] <;> first | exact QGood.refl st | exact qgood_newline st | exact QGood.of_eq rfl rfl

theorem qgood_stepInv (h : Heap) (o : Opts) : StepInv h o (QGood h o) (fun i => i.litOK = true) where
  refl := QGood.refl
  trans := QGood.trans
  prim := fun rec cls strict a i st hr hi => qgood_prim rec cls strict a i st hr hi
  prelude := qgood_prelude
  postlude := qgood_postlude
  pre := qgood_pre
  post := qgood_post

end prims

/-! ## The finite check over the production table -/

theorem mem_allCats (c : Cat) : c ∈ allCats := by
  cases c <;> decide

theorem mem_allClasses (c : VClass) : c ∈ allClasses := by
  cases c with
  | chain l => simp [allClasses, List.mem_finRange]
  | _ => simp [allClasses]

/-- Lift a check over the three finite index lists to all indices. -/
theorem table_all {P : VClass → Bool → Cat → Bool}
    (hall : (allClasses.all fun cls => [false, true].all fun s => allCats.all fun c => P cls s c) = true) :
    ∀ cls s c, P cls s c = true := by
  intro cls s c
  simp only [List.all_eq_true] at hall
  exact hall cls (mem_allClasses cls) s (by cases s <;> simp) c (mem_allCats c)

theorem table_litOK : ∀ cls strict c, ∀ i ∈ (table cls strict c).allInstrs, i.litOK = true := by
  have := table_all (P := fun cls s c => (table cls s c).allInstrs.all Instr.litOK) (by decide +kernel)
  intro cls s c i hi
  have h2 := this cls s c
  rw [List.all_eq_true] at h2
  exact h2 i hi

/-- Every run only extends the output by good chunks and keeps the format state. -/
theorem dispatch_good (h : Heap) (o : Opts) (n : Nat) (e : Entry) (a : Addr) (st : PState) :
    QGood h o st (dispatch h o n e a st).st :=
  dispatch_stepInv (qgood_stepInv h o) table_litOK n e a st

/-! ## Digits -/

theorem digitByte_printable : ∀ d, d < 16 → printable (digitByte d) = true := by decide +kernel

theorem renderNat_go_printable {base : Nat} (hb : 0 < base) (hb16 : base ≤ 16) :
    ∀ (f n : Nat) (acc : Bytes), (∀ b ∈ acc, printable b = true) → ∀ b ∈ renderNat.go base f n acc, printable b = true
  | 0, _, acc, hacc => by simpa [renderNat.go] using hacc
  | f + 1, n, acc, hacc => by
    have hd : printable (digitByte (n % base)) = true :=
      digitByte_printable _ (Nat.lt_of_lt_of_le (Nat.mod_lt n hb) hb16)
    have hacc' : ∀ b ∈ digitByte (n % base) :: acc, printable b = true := by
      intro b hb'
      rcases List.mem_cons.mp hb' with rfl | hb'
      · exact hd
      · exact hacc b hb'
    simp only [renderNat.go]
    split
    · exact hacc'
    · exact renderNat_go_printable hb hb16 f _ _ hacc'

theorem renderNat_printable {base : Nat} (hb : 0 < base) (hb16 : base ≤ 16) (n : Nat) :
    ∀ b ∈ renderNat base n, printable b = true :=
  renderNat_go_printable hb hb16 _ _ [] (by simp)

theorem mem_text {st : PState} {b : UInt8} : b ∈ st.text ↔ ∃ c ∈ st.out, b ∈ c.bytes := by
  simp [PState.text, List.mem_flatten, List.mem_map]
  constructor
  · rintro ⟨l, ⟨c, hc, rfl⟩, hb⟩; exact ⟨c, hc, hb⟩
  · rintro ⟨c, hc, hb⟩; exact ⟨_, ⟨c, hc, rfl⟩, hb⟩

/-- The bytes of a good chunk: newline, printable ASCII, or a byte of a spelling of the graph. -/
theorem good_bytes {h : Heap} {o : Opts} {base : Nat} (hb : 0 < base) (hb16 : base ≤ 16) {c : Chunk} (hg : Good h o base c) :
    ∀ b ∈ c.bytes, b = 10 ∨ printable b = true ∨ GraphByte h b := by
  intro b hbm
  obtain ⟨_, hg⟩ := hg
  cases ht : c.tag with
  | tok => rw [ht] at hg; exact Or.inr (Or.inl (hg b hbm))
  | spell => rw [ht] at hg; exact Or.inr (hg b hbm)
  | num n => rw [ht] at hg; simp only at hg; rw [hg] at hbm; exact Or.inr (Or.inl (renderNat_printable hb hb16 n b hbm))
  | pad => rw [ht] at hg; simp only at hg; rw [hg] at hbm; simp at hbm; subst hbm; exact Or.inr (Or.inl (by decide))
  | nl =>
    rw [ht] at hg
    obtain ⟨k, hk⟩ := hg
    rw [hk] at hbm
    rcases List.mem_cons.mp hbm with rfl | hbm
    · exact Or.inl rfl
    · rw [List.mem_replicate] at hbm; rw [hbm.2]; exact Or.inr (Or.inl (by decide))

end Ipr.Printer
