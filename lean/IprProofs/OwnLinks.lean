import IprModel.Own
import IprProofs.RBTree
/-! `destroy_subtree` on the linked structure never touches a dead cell and releases exactly the cells of the tree. -/
namespace Ipr.Own
open Ipr.RB Ipr.RB.Tree

/-- Every node of `t` is a live cell of `h` whose links are the addresses of its children. -/
def Laid : Tree Nat → Cells → Prop
  | .nil, _ => True
  | .node _ l a r, h => h.get a = some { l := rootAddr l, r := rootAddr r } ∧ Laid l h ∧ Laid r h

/-- The store without the cells at the given addresses. -/
def without (h : Cells) (as : List Nat) : Cells := h.filter (fun p => decide (p.1 ∉ as))

theorem get_filter_keep (P : Nat → Bool) (a : Nat) (hp : P a = true) :
    ∀ h : Cells, Cells.get (h.filter (fun p => P p.1)) a = Cells.get h a := by
  intro h
  induction h with
  | nil => rfl
  | cons x xs ih =>
    obtain ⟨b, c⟩ := x
    by_cases hb : b = a
    · subst hb; simp [List.filter, hp, Cells.get]
    · by_cases hq : P b = true
      · simp [List.filter, hq, Cells.get, hb, ih]
      · simp [List.filter, hq, Cells.get, hb, ih]

theorem laid_filter (P : Nat → Bool) : ∀ (t : Tree Nat) (h : Cells), Laid t h → (∀ a ∈ inorder t, P a = true) →
    Laid t (h.filter (fun p => P p.1)) := by
  intro t
  induction t with
  | nil => intro h _ _; trivial
  | node c l a r ihl ihr =>
    intro h hl hp
    obtain ⟨h1, h2, h3⟩ := hl
    refine ⟨?_, ihl h h2 (fun x hx => hp x (by simp [inorder, hx])), ihr h h3 (fun x hx => hp x (by simp [inorder, hx]))⟩
    rw [get_filter_keep P a (hp a (by simp [inorder]))]; exact h1

theorem filter_all {β : Type} (h : List β) : h.filter (fun _ => true) = h := by
  induction h with
  | nil => rfl
  | cons x xs ih => simp [List.filter, ih]

theorem destroyLinks_ok : ∀ (t : Tree Nat) (fuel : Nat) (h : Cells), size t ≤ fuel → (inorder t).Nodup → Laid t h →
    destroyLinks fuel h (rootAddr t) = some (without h (inorder t)) := by
  intro t
  induction t with
  | nil => intro fuel h _ _ _; cases fuel <;> simp [rootAddr, destroyLinks, without, inorder, filter_all]
  | node c l a r ihl ihr =>
    intro fuel h hf hnd hl
    obtain ⟨hget, hll, hlr⟩ := hl
    cases fuel with
    | zero => simp [size] at hf
    | succ f =>
      have hsl : size l ≤ f := by simp [size] at hf; omega
      have hsr : size r ≤ f := by simp [size] at hf; omega
      simp only [inorder] at hnd
      have hndl : (inorder l).Nodup := (List.nodup_append.mp hnd).1
      have hndr' : (a :: inorder r).Nodup := (List.nodup_append.mp hnd).2.1
      have hndr : (inorder r).Nodup := (List.nodup_cons.mp hndr').2
      have har : a ∉ inorder r := (List.nodup_cons.mp hndr').1
      have hdisj : ∀ x ∈ inorder l, ∀ y ∈ a :: inorder r, x ≠ y := (List.nodup_append.mp hnd).2.2
      have hal : a ∉ inorder l := fun hx => hdisj a hx a (by simp) rfl
      have hlr_disj : ∀ x ∈ inorder r, x ∉ inorder l := fun x hx hx' => hdisj x hx' x (by simp [hx]) rfl
      have hroot : rootAddr (Tree.node c l a r) = some a := rfl
      rw [hroot]
      simp only [destroyLinks, hget]
      rw [ihl f h hsl hndl hll]
      simp only
      have hget1 : Cells.get (without h (inorder l)) a = some { l := rootAddr l, r := rootAddr r } := by
        unfold without
        rw [get_filter_keep (fun x => decide (x ∉ inorder l)) a (by simp [hal])]; exact hget
      rw [hget1]
      simp only
      have hlaid2 : Laid r ((without h (inorder l)).del a) := by
        unfold Cells.del without
        apply laid_filter (fun x => x != a)
        · apply laid_filter (fun x => decide (x ∉ inorder l)) r h hlr
          intro x hx; simp [hlr_disj x hx]
        · intro x hx; simp; intro hxa; subst hxa; exact har hx
      rw [ihr f _ hsr hndr hlaid2]
      unfold without Cells.del
      simp only [List.filter_filter, inorder]
      congr 1
      apply List.filter_congr
      intro p _
      by_cases h1 : p.1 ∈ inorder l <;> by_cases h2 : p.1 = a <;> by_cases h3 : p.1 ∈ inorder r <;> simp [h1, h2, h3]

/-- The layout of a tree with distinct addresses is laid out in any store that extends it in front. -/
theorem get_append_left (h1 h2 : Cells) (a : Nat) (c : Cell) (hg : Cells.get h1 a = some c) : Cells.get (h1 ++ h2) a = some c := by
  induction h1 with
  | nil => simp [Cells.get] at hg
  | cons x xs ih =>
    obtain ⟨b, c'⟩ := x
    by_cases hb : b = a
    · simp [Cells.get, hb] at hg ⊢; exact hg
    · simp [Cells.get, hb] at hg ⊢; exact ih hg

theorem get_append_right (h1 h2 : Cells) (a : Nat) (hn : ∀ p ∈ h1, p.1 ≠ a) : Cells.get (h1 ++ h2) a = Cells.get h2 a := by
  induction h1 with
  | nil => rfl
  | cons x xs ih =>
    obtain ⟨b, c'⟩ := x
    have hb : b ≠ a := hn (b, c') (by simp)
    simp [Cells.get, hb]
    exact ih (fun p hp => hn p (by simp [hp]))

theorem layout_addrs : ∀ (t : Tree Nat) (p : Nat × Cell), p ∈ layout t → p.1 ∈ inorder t := by
  intro t
  induction t with
  | nil => intro p hp; simp [layout] at hp
  | node c l a r ihl ihr =>
    intro p hp
    simp only [layout, List.mem_cons, List.mem_append] at hp
    rcases hp with rfl | hp | hp
    · simp [inorder]
    · simp [inorder, ihl p hp]
    · simp [inorder, ihr p hp]

theorem laid_layout : ∀ (t : Tree Nat), (inorder t).Nodup → ∀ (pre post : Cells), (∀ p ∈ pre, p.1 ∉ inorder t) →
    Laid t (pre ++ layout t ++ post) := by
  intro t
  induction t with
  | nil => intro _ _ _ _; trivial
  | node c l a r ihl ihr =>
    intro hnd pre post hpre
    simp only [inorder] at hnd
    have hndl : (inorder l).Nodup := (List.nodup_append.mp hnd).1
    have hndr' : (a :: inorder r).Nodup := (List.nodup_append.mp hnd).2.1
    have hndr : (inorder r).Nodup := (List.nodup_cons.mp hndr').2
    have har : a ∉ inorder r := (List.nodup_cons.mp hndr').1
    have hdisj : ∀ x ∈ inorder l, ∀ y ∈ a :: inorder r, x ≠ y := (List.nodup_append.mp hnd).2.2
    have hal : a ∉ inorder l := fun hx => hdisj a hx a (by simp) rfl
    refine ⟨?_, ?_, ?_⟩
    · rw [List.append_assoc, get_append_right pre _ a (fun p hp hpa => hpre p hp (by simp [inorder, hpa]))]
      simp [layout, Cells.get]
    · have := ihl hndl (pre ++ [(a, { l := rootAddr l, r := rootAddr r })]) (layout r ++ post) (by
        intro p hp
        simp only [List.mem_append, List.mem_singleton] at hp
        rcases hp with hp | rfl
        · intro hx; exact hpre p hp (by simp [inorder, hx])
        · exact hal)
      simpa [layout, List.append_assoc] using this
    · have := ihr hndr (pre ++ (a, { l := rootAddr l, r := rootAddr r }) :: layout l) post (by
        intro p hp
        simp only [List.mem_append, List.mem_cons] at hp
        rcases hp with hp | rfl | hp
        · intro hx; exact hpre p hp (by simp [inorder, hx])
        · exact har
        · intro hx; exact hdisj p.1 (layout_addrs l p hp) p.1 (by simp [hx]) rfl)
      simpa [layout, List.append_assoc] using this

end Ipr.Own
