import IprProofs.RBLinkedFixup
set_option linter.unusedSimpArgs false
set_option linter.unusedSectionVars false
set_option linter.unusedVariables false
namespace Ipr.RB.Linked
open Tree
variable {α : Type} [Inhabited α]

/-- The comparator seen on address-annotated keys: addresses are ignored. -/
def acmp (cmp : α → α → Int) : Nat × α → Nat × α → Int := fun a b => cmp a.2 b.2

theorem height_le_size {β : Type} (t : Tree β) : height t ≤ size t := by
  induction t with
  | nil => simp [height, size]
  | node c l k r ihl ihr => simp only [height, size]; omega

theorem descend_length {β : Type} (cmp : β → β → Int) (key : β) :
    ∀ (t : Tree β) (path path' : Path β), descend cmp key t path = some path' → path'.length ≤ path.length + height t := by
  intro t
  induction t with
  | nil => intro path path' h; simp [descend] at h; subst h; simp
  | node c l k r ihl ihr =>
    intro path path' h
    simp only [descend] at h
    simp only [height]
    split at h
    · have := ihl _ _ h; simp at this; omega
    · split at h
      · have := ihr _ _ h; simp at this; omega
      · simp at h

theorem descend_rootBlack (cmp : Nat × α → Nat × α → Int) (key : Nat × α) :
    ∀ (t : ATree α) (path path' : APath α), descend cmp key t path = some path' → RootBlack path →
      (path = [] → t.isRed = false) → RootBlack path' := by
  intro t
  induction t with
  | nil => intro path path' h hrb _; simp [descend] at h; subst h; exact hrb
  | node c l k r ihl ihr =>
    intro path path' h hrb hroot
    simp only [descend] at h
    have key : ∀ (d : Dir) (sib : ATree α), RootBlack (⟨d, c, k, sib⟩ :: path) := by
      intro d sib f hf
      cases path with
      | nil =>
        simp at hf; subst hf
        have := hroot rfl
        cases c <;> simp_all [isRed]
      | cons a as => exact hrb f (by simpa [List.getLast?_cons_cons] using hf)
    split at h
    · exact ihl _ _ h (key _ _) (by simp)
    · split at h
      · exact ihr _ _ h (key _ _) (by simp)
      · simp at h

/-- The `Node**` that designates the hole of a context. -/
def slotOf : APath α → Store.Slot
  | [] => .root
  | f :: _ => match f.dir with | .L => .left f.k.1 | .R => .right f.k.1

theorem Focus.deref_slotOf {s : Store α} {t : ATree α} {path : APath α} (h : Focus s t path) :
    s.deref (slotOf path) = ptrOf t := by
  cases path with
  | nil => exact h.root
  | cons f fs =>
    have := h.ctx.1
    cases f with | mk d c k sib =>
    cases d <;> simp [slotOf, Store.deref, Store.left, Store.right, this, cellOf]

theorem ownLoop_node (cmp : α → α → Int) (key : α) (s : Store α) (fuel : Nat) (slot : Store.Slot) (par : Option Nat) (w : Nat) :
    s.ownLoop cmp key (fuel + 1) slot par (some w) false =
      if cmp (s.key w) key < 0 then s.ownLoop cmp key fuel (.left w) (some w) (s.deref (.left w)) false
      else if cmp (s.key w) key > 0 then s.ownLoop cmp key fuel (.right w) (some w) (s.deref (.right w)) false
      else s.ownLoop cmp key fuel slot par (s.deref slot) true := by
  simp [Store.ownLoop]

theorem ownLoop_null (cmp : α → α → Int) (key : α) (s : Store α) (fuel : Nat) (slot : Store.Slot) (par : Option Nat) (found : Bool) :
    s.ownLoop cmp key (fuel + 1) slot par none found = some (slot, par, none) := by
  simp [Store.ownLoop]

theorem ownLoop_found (cmp : α → α → Int) (key : α) (s : Store α) (fuel : Nat) (slot : Store.Slot) (par w : Option Nat) :
    s.ownLoop cmp key (fuel + 1) slot par w true = some (slot, par, w) := by
  cases w <;> simp [Store.ownLoop]

/-- The descent of `container::insert` follows `descend`; on an equivalent key it stops at the node `find` reports. -/
theorem ownLoop_spec (cmp : α → α → Int) (n : Nat) (key : α) (s : Store α) :
    ∀ (t : ATree α) (path : APath α) (fuel : Nat), Focus s t path → height t + 1 ≤ fuel →
      (∀ path', descend (acmp cmp) (n, key) t path = some path' →
        s.ownLoop cmp key fuel (slotOf path) (parentOf path) (ptrOf t) false = some (slotOf path', parentOf path', none) ∧
        Focus s .nil path') ∧
      (descend (acmp cmp) (n, key) t path = none →
        ∃ slot par w, s.ownLoop cmp key fuel (slotOf path) (parentOf path) (ptrOf t) false = some (slot, par, some w) ∧
          find cmp key (erase t) = some (s.key w)) := by
  intro t
  induction t with
  | nil =>
    intro path fuel hF hfuel
    obtain ⟨fuel, rfl⟩ : ∃ f, fuel = f + 1 := ⟨fuel - 1, by omega⟩
    constructor
    · intro path' hd
      simp [descend] at hd; subst hd
      exact ⟨by simp [ownLoop_null], hF⟩
    · intro hd; simp [descend] at hd
  | node c l k r ihl ihr =>
    intro path fuel hF hfuel
    obtain ⟨fuel, rfl⟩ : ∃ f, fuel = f + 1 := ⟨fuel - 1, by omega⟩
    have hk := hF.rd_root
    have hkey : s.key k.1 = k.2 := by simp [Store.key, hk]
    simp only [height] at hfuel
    have hFl : Focus s l (⟨.L, c, k, r⟩ :: path) := Focus.up_iff.mpr hF
    have hFr : Focus s r (⟨.R, c, k, l⟩ :: path) := Focus.up_iff.mpr hF
    simp only [descend, acmp, erase, map_node, find]
    rw [ptrOf_node, ownLoop_node, hkey]
    by_cases h1 : cmp k.2 key < 0
    · simp only [h1, if_true]
      have := ihl _ fuel hFl (by omega)
      simpa [slotOf, parentOf, Store.deref, Store.left, hk, erase] using this
    · by_cases h2 : cmp k.2 key > 0
      · simp only [h1, h2, if_true, if_false]
        have := ihr _ fuel hFr (by omega)
        simpa [slotOf, parentOf, Store.deref, Store.right, hk, erase] using this
      · simp only [h1, h2, if_false]
        obtain ⟨fuel, rfl⟩ : ∃ f, fuel = f + 1 := ⟨fuel - 1, by omega⟩
        refine ⟨by simp, fun _ => ⟨slotOf path, parentOf path, k.1, ?_, by simp [hkey]⟩⟩
        rw [hF.deref_slotOf, ownLoop_found]; rfl

/-- `Focus` only looks at the heap cells of the tree and at `root`. -/
theorem Focus.frame {s s' : Store α} {t : ATree α} {path : APath α} (h : Focus s t path) (hr : s'.root = s.root)
    (hm : ∀ a ∈ addrs t ++ caddrs path, rd s'.mem a = rd s.mem a) : Focus s' t path :=
  ⟨h.own.frame (fun a ha => hm a (by simp [ha])), h.ctx.frame (fun a ha => hm a (by simp [ha])), hr ▸ h.root, h.nodup⟩

/-- Linking a fresh leaf into the hole of a context: `*slot = n; n->parent() = up; n->color = Red`
    (utility:396-398 and 283-285). -/
theorem Focus.attach {s : Store α} {f : AFrame α} {fs : APath α} (h : Focus s .nil (f :: fs)) (n : Nat) (key : α)
    (hn : n ∉ caddrs (f :: fs))
    (hcell : (rd s.mem n).key = key ∧ (rd s.mem n).left = none ∧ (rd s.mem n).right = none) :
    Focus (((s.assign (slotOf (f :: fs)) (some n)).setParent n (parentOf (f :: fs))).setColor n .red)
      (.node .red .nil (n, key) .nil) (f :: fs) := by
  have hnd := h.nd
  obtain ⟨_, ⟨h1, h2, h3⟩, hroot, _⟩ := h
  simp only [caddrs, addrs_nil, List.nil_append, List.nodup_cons, List.nodup_append, List.mem_cons, List.mem_append, not_or] at hnd hn
  obtain ⟨hnf, hns, hnfs⟩ := hn
  cases f with | mk d c k sib =>
  simp only at hnf hns h1 h2 h3 hnd
  cases d
  · have e1 : ∀ q, rd (((s.assign (slotOf (⟨.L, c, k, sib⟩ :: fs)) (some n)).setParent n (parentOf (⟨.L, c, k, sib⟩ :: fs))).setColor n .red).mem q
        = if q = n then ⟨key, .red, none, none, some k.1⟩ else if q = k.1 then cellOf ⟨.L, c, k, sib⟩ (some n) (parentOf fs) else rd s.mem q := by
      intro q
      simp only [slotOf, Store.assign, parentOf, Store.rd_setColor, Store.rd_setParent, Store.rd_setLeft, h1]
      by_cases hq : q = n
      · subst hq; simp [hnf, hcell.1, hcell.2.1, hcell.2.2]
      · by_cases hq2 : q = k.1
        · subst hq2; simp [hq, cellOf]
        · simp [hq, hq2]
    refine ⟨⟨by rw [e1]; simp [parentOf], trivial, trivial⟩, ⟨by rw [e1]; simp [Ne.symm hnf], ?_, ?_⟩, ?_, ?_⟩
    · exact h2.frame (fun q hq => by rw [e1, if_neg (by grind), if_neg (by grind)])
    · exact h3.frame (fun q hq => by rw [e1, if_neg (by grind), if_neg (by grind)])
    · exact hroot
    · refine (perm_zip _ _).nodup_iff.mpr ?_
      simp only [addrs_node, addrs_nil, caddrs, List.nil_append, List.cons_append, List.nodup_cons, List.nodup_append,
        List.mem_cons, List.mem_append, not_or]
      exact ⟨⟨hnf, hns, hnfs⟩, hnd⟩
  · have e1 : ∀ q, rd (((s.assign (slotOf (⟨.R, c, k, sib⟩ :: fs)) (some n)).setParent n (parentOf (⟨.R, c, k, sib⟩ :: fs))).setColor n .red).mem q
        = if q = n then ⟨key, .red, none, none, some k.1⟩ else if q = k.1 then cellOf ⟨.R, c, k, sib⟩ (some n) (parentOf fs) else rd s.mem q := by
      intro q
      simp only [slotOf, Store.assign, parentOf, Store.rd_setColor, Store.rd_setParent, Store.rd_setRight, h1]
      by_cases hq : q = n
      · subst hq; simp [hnf, hcell.1, hcell.2.1, hcell.2.2]
      · by_cases hq2 : q = k.1
        · subst hq2; simp [hq, cellOf]
        · simp [hq, hq2]
    refine ⟨⟨by rw [e1]; simp [parentOf], trivial, trivial⟩, ⟨by rw [e1]; simp [Ne.symm hnf], ?_, ?_⟩, ?_, ?_⟩
    · exact h2.frame (fun q hq => by rw [e1, if_neg (by grind), if_neg (by grind)])
    · exact h3.frame (fun q hq => by rw [e1, if_neg (by grind), if_neg (by grind)])
    · exact hroot
    · refine (perm_zip _ _).nodup_iff.mpr ?_
      simp only [addrs_node, addrs_nil, caddrs, List.nil_append, List.cons_append, List.nodup_cons, List.nodup_append,
        List.mem_cons, List.mem_append, not_or]
      exact ⟨⟨hnf, hns, hnfs⟩, hnd⟩

theorem insert_some_facts (cmp : Nat × α → Nat × α → Int) (t : ATree α) (k : Nat × α) (path : APath α)
    (hd : descend cmp k t [] = some path) :
    (∀ a, a ∈ addrs (Tree.insert cmp t k) ↔ a = k.1 ∨ a ∈ addrs t) ∧ size (Tree.insert cmp t k) = size t + 1 ∧
    (∀ a, a ∈ caddrs path ↔ a ∈ addrs t) := by
  obtain ⟨h1, h2⟩ := inorder_insert_some cmp t k path hd
  refine ⟨?_, ?_, ?_⟩
  · intro a
    simp only [addrs, h1, h2, List.map_append, List.map_cons, List.mem_append, List.mem_cons]
    constructor
    · rintro (h | h | h) <;> simp [h]
    · rintro (h | h | h) <;> simp [h]
  · simp [size_eq_length, h1, h2]; omega
  · intro a
    have hp := perm_zip path (.nil : ATree α)
    have hz : addrs (zip (.nil : ATree α) path) = addrs t := by
      rw [addrs_zip]; simp [addrs, h2, inorder]
    rw [hz] at hp
    simpa using (hp.mem_iff (a := a)).symm

/-- What `Focus` is for the whole tree, plus the bookkeeping of `count` and of the allocator. -/
structure Inv (s : Store α) (t : ATree α) : Prop where
  focus : Focus s t []
  size : size t ≤ s.count
  fresh : ∀ a ∈ addrs t, a < s.next

/-- Lines 396-399 of `container::insert`: allocate, link into `*slot`, set parent and colour, bump `count`. -/
def attachOwn (s : Store α) (key : α) (slot : Store.Slot) (par : Option Nat) : Store α :=
  { (((s.makeNode key).1.assign slot (some s.next)).setParent s.next par).setColor s.next .red with count := s.count + 1 }

@[simp] theorem Store.assign_next (s : Store α) (slot : Store.Slot) (v : Option Nat) : (s.assign slot v).next = s.next := by
  cases slot <;> rfl
@[simp] theorem Store.assign_count (s : Store α) (slot : Store.Slot) (v : Option Nat) : (s.assign slot v).count = s.count := by
  cases slot <;> rfl

theorem Own.key_of_mem {m : Mem α} : ∀ {t : ATree α} {p : Option Nat}, Own m p t → ∀ x ∈ inorder t, (rd m x.1).key = x.2 := by
  intro t
  induction t with
  | nil => intro p _ x hx; simp [inorder] at hx
  | node c l k r ihl ihr =>
    intro p h x hx
    simp only [inorder, List.mem_append, List.mem_cons] at hx
    rcases hx with hx | hx | hx
    · exact ihl h.2.1 x hx
    · subst hx; simp [h.1]
    · exact ihr h.2.2 x hx

/-- `container<T>::insert` on a store that holds `t` (black root): no undefined behaviour, the fuel suffices, and the
    store then holds `Tree.insert t key` with the new node at the allocator's next address. -/
theorem insertOwn_spec (cmp : α → α → Int) (s : Store α) (t : ATree α) (key : α) (h : Inv s t) (hblack : t.isRed = false) :
    ∃ s' w fresh, s.insertOwn cmp key = some (s', w, fresh) ∧
      Inv s' (Tree.insert (acmp cmp) t (s.next, key)) ∧
      fresh = (descend (acmp cmp) (s.next, key) t []).isSome ∧
      s'.count = s.count + (if fresh then 1 else 0) ∧
      (fresh = true → s'.key w = key) ∧
      (fresh = false → s' = s ∧ find cmp key (erase t) = some (s.key w)) := by
  cases t with
  | nil =>
    have hr : s.root = none := h.focus.root
    refine ⟨_, s.next, true, by simp [Store.insertOwn, hr, Store.makeNode]; rfl, ?_, by simp [descend], by simp, ?_, by simp⟩
    · have hi : Tree.insert (acmp cmp) (.nil : ATree α) (s.next, key) = .node .black .nil (s.next, key) .nil := by
        simp [Tree.insert, descend, fixup, blacken]
      rw [hi]
      refine ⟨⟨⟨?_, trivial, trivial⟩, trivial, rfl, by simp [zip]⟩, by simp [Tree.size], by simp⟩
      simp [Store.rd_setColor, rd_wr, parentOf]
    · intro _; simp [Store.key, Store.rd_setColor, rd_wr]
  | node c l k r =>
    have hr : s.root = some k.1 := h.focus.root
    have hfuel : height (Tree.node c l k r) + 1 ≤ s.count + 1 := by
      have := height_le_size (Tree.node c l k r); have := h.size; omega
    obtain ⟨hsome, hnone⟩ := ownLoop_spec cmp s.next key s _ [] (s.count + 1) h.focus hfuel
    simp only [ptrOf_node] at hsome hnone
    cases hd : descend (acmp cmp) (s.next, key) (Tree.node c l k r) [] with
    | none =>
      obtain ⟨slot, par, w, hw, hf⟩ := hnone hd
      refine ⟨s, w, false, ?_, ?_, by simp, by simp, by simp, fun _ => ⟨rfl, hf⟩⟩
      · have hw' : s.ownLoop cmp key (s.count + 1) .root none (some k.1) false = some (slot, par, some w) := hw
        simp only [Store.insertOwn, hr, hw', Option.bind_eq_bind, Option.bind_some, Option.pure_def]
      · rw [insert_none _ _ _ hd]; exact h
    | some path =>
      obtain ⟨hloop, hF0⟩ := hsome path hd
      obtain ⟨hmem, hsize, hcad⟩ := insert_some_facts _ _ _ _ hd
      cases path with
      | nil =>
        have := hF0.root
        rw [hr] at this; simp [rootOf] at this
      | cons f fs =>
        have hn : s.next ∉ caddrs (f :: fs) := by
          intro e; have := h.fresh _ ((hcad _).mp e); omega
        have hF1 : Focus (s.makeNode key).1 .nil (f :: fs) := by
          refine hF0.frame rfl ?_
          intro a ha
          simp only [addrs_nil, List.nil_append] at ha
          simp only [Store.makeNode, rd_wr]
          rw [if_neg]; intro e; subst e; exact hn ha
        have hF2 := hF1.attach s.next key hn (by simp [Store.makeNode, rd_wr])
        have hrb : RootBlack (f :: fs) := descend_rootBlack _ _ _ _ _ hd (by intro f hf; simp at hf) (fun _ => hblack)
        have hlen := descend_length _ _ _ _ _ hd
        have hF3 : Focus (attachOwn s key (slotOf (f :: fs)) (parentOf (f :: fs))) (.node .red .nil (s.next, key) .nil) (f :: fs) :=
          hF2.frame rfl (fun _ _ => rfl)
        obtain ⟨s', hs', hF', hc', hn'⟩ := fixupLoop_spec _ (f :: fs) rfl _ _ _ (s.next, key) (s.count + 1 + 1) hF3 hrb (by
          have := height_le_size (Tree.node c l k r); have := h.size; simp at hlen ⊢; omega)
        have hc'' : s'.count = s.count + 1 := hc'
        have hn'' : s'.next = s.next + 1 := by simpa [attachOwn, Store.makeNode] using hn'
        have hloop' : s.ownLoop cmp key (s.count + 1) .root none (some k.1) false = some (slotOf (f :: fs), parentOf (f :: fs), none) := hloop
        have hF'' : Focus s' (Tree.insert (acmp cmp) (.node c l k r) (s.next, key)) [] := by simpa [Tree.insert, hd] using hF'
        refine ⟨s', s.next, true, ?_, ?_, by simp, by simpa using hc'', ?_, by simp⟩
        · simp only [Store.insertOwn, hr, hloop', Option.bind_eq_bind, Option.bind_some, Option.pure_def]
          simp only [Store.makeNode, Store.assign_count, Store.setParent_count, Store.setColor_count]
          have hs'' : Store.fixupLoop (s.count + 1 + 1) (attachOwn s key (slotOf (f :: fs)) (parentOf (f :: fs))) s.next = some s' := hs'
          simp only [attachOwn, Store.makeNode] at hs''
          rw [hs'']; rfl
        · refine ⟨hF'', by rw [hsize, hc'']; have := h.size; omega, ?_⟩
          intro a ha
          rw [hn'']
          rcases (hmem a).mp ha with e | e
          · simp at e; omega
          · have := h.fresh a e; omega
        · intro _
          have := hF''.own.key_of_mem (s.next, key) (by
            rw [(inorder_insert_some _ _ _ _ hd).1]; simp)
          simpa [Store.key] using this

end Ipr.RB.Linked
