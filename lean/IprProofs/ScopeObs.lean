import IprProofs.ScopeInv
/-! What the interface observes on a state satisfying the invariant, as functions of the history. -/
namespace Ipr.Scope
open Ipr.RB Ipr.RB.Tree

/-! ### List facts -/

/-- The first element of "indices satisfying p" is `findIdx?`. -/
theorem head_filter_range {α} (h : List α) (p : α → Bool) :
    ((List.range h.length).filter (fun j => match h[j]? with | some e => p e | none => false))[0]? = h.findIdx? p := by
  rw [← List.head?_eq_getElem?, List.head?_filter]
  cases hf : h.findIdx? p with
  | none =>
    rw [List.findIdx?_eq_none_iff] at hf
    rw [List.find?_range_eq_none]
    intro i hi
    have : h[i]? = some h[i] := by simp [hi]
    simp [this, hf h[i] (List.getElem_mem hi)]
  | some i =>
    rw [List.findIdx?_eq_some_iff_getElem] at hf
    obtain ⟨hi, hp, hlt⟩ := hf
    rw [List.find?_range_eq_some]
    refine ⟨?_, by simpa using hi, ?_⟩
    · have : h[i]? = some h[i] := by simp [hi]
      simp [this, hp]
    · intro j hj
      have hjl : j < h.length := Nat.lt_trans hj hi
      have : h[j]? = some h[j] := by simp [hjl]
      have := hlt j hj
      simp_all

theorem map_range_eq_map {α β} (h : List α) (f : Nat → β) (g : α → β)
    (hfg : ∀ (i : Nat) (r : α), h[i]? = some r → f i = g r) : (List.range h.length).map f = h.map g := by
  apply List.ext_getElem?
  intro i
  simp only [List.getElem?_map]
  rcases Nat.lt_or_ge i h.length with hi | hi
  · have h1 : h[i]? = some h[i] := by simp [hi]
    rw [List.getElem?_range hi, h1]
    simp [hfg i h[i] h1]
  · rw [List.getElem?_eq_none (by simpa using hi), List.getElem?_eq_none hi]; rfl

/-! ### Declarations -/

theorem decl_obs {h : History} {s : State} (hi : Inv0 h s) {i : Nat} {r : Req} (hr : h[i]? = some r) :
    s.declKind i = some r.kind ∧ s.declType i = some r.type ∧ s.declName i = some r.name := by
  obtain ⟨c, e, o, h1, h2, h3, h4, h5, h6⟩ := hi.decl i r hr
  simp [State.declKind, State.declType, State.declName, State.entryOf, h1, h2, h3, h4, h5, h6]

/-- Two declarations share their master data exactly when they share name and type. -/
theorem md_eq_iff {h : History} {s : State} (hi : Inv0 h s) {i j : Nat} {ri rj : Req} {ci cj : DeclCell}
    (hri : h[i]? = some ri) (hrj : h[j]? = some rj) (hci : s.decls[i]? = some ci) (hcj : s.decls[j]? = some cj) :
    ci.masterData = cj.masterData ↔ (ri.name = rj.name ∧ ri.type = rj.type) := by
  obtain ⟨c, e, o, h1, _, h3, h4, h5, h6⟩ := hi.decl i ri hri
  obtain ⟨c', e', o', h1', _, h3', h4', h5', h6'⟩ := hi.decl j rj hrj
  rw [hci] at h1; cases h1
  rw [hcj] at h1'; cases h1'
  constructor
  · intro hmd
    rw [hmd, h3'] at h3; cases h3
    rw [h5'] at h5; cases h5
    exact ⟨h6.symm.trans h6', h4.symm.trans h4'⟩
  · rintro ⟨hn, ht⟩
    have hov : e.overload = e'.overload := hi.ovlInj _ _ o o' h5 h5' (by rw [h6, h6', hn])
    exact hi.entryInj _ _ e e' h3 h3' hov (by rw [h4, h4', ht])

theorem declSet_eq {h : History} {s : State} (hi : Inv0 h s) (i : Nat) : s.declSet i = Spec.declSet h i := by
  rcases Nat.lt_or_ge i h.length with hlt | hge
  · have hr : h[i]? = some h[i] := by simp [hlt]
    obtain ⟨c, e, o, h1, _, h3, _⟩ := hi.decl i h[i] hr
    obtain ⟨hset, _⟩ := hi.entry _ e h3
    simp only [State.declSet, State.entryOf, h1, Option.bind_some, h3, Option.map_some, Option.getD_some, Spec.declSet, hr, hset]
    apply List.filter_congr
    intro j hj
    have hjl : j < h.length := by simpa using hj
    have hrj : h[j]? = some h[j] := by simp [hjl]
    obtain ⟨cj, _, _, h1j, _⟩ := hi.decl j h[j] hrj
    have := md_eq_iff hi hrj hr h1j h1
    simp only [mdIs, h1j, Option.any_some, hrj, Spec.sameKey]
    rw [Bool.eq_iff_iff]
    simp only [beq_iff_eq, Bool.and_eq_true]
    exact this
  · have h1 : s.decls[i]? = none := List.getElem?_eq_none (by rw [hi.ndecls]; exact hge)
    have h2 : h[i]? = none := List.getElem?_eq_none hge
    simp [State.declSet, State.entryOf, h1, Spec.declSet, h2]

theorem spec_declSet_head (h : History) {i : Nat} {r : Req} (hr : h[i]? = some r) :
    (Spec.declSet h i)[0]? = Spec.select h r.name r.type := by
  simp only [Spec.declSet, hr, Spec.select]
  have := head_filter_range h (fun e => Spec.sameKey e r)
  simp only [Spec.sameKey] at this ⊢
  rw [← this]
  congr 2
  funext j
  cases h[j]? <;> rfl

theorem master_eq {h : History} {s : State} (hi : Inv0 h s) {i : Nat} (hlt : i < h.length) :
    s.master i = Spec.master h i := by
  have hr : h[i]? = some h[i] := by simp [hlt]
  obtain ⟨c, e, o, h1, _, h3, _⟩ := hi.decl i h[i] hr
  obtain ⟨_, hdecl, _⟩ := hi.entry _ e h3
  have hds := declSet_eq hi i
  simp only [State.declSet, State.entryOf, h1, Option.bind_some, h3, Option.map_some, Option.getD_some] at hds
  simp only [State.master, State.entryOf, h1, Option.bind_some, h3, hdecl, hds, Spec.master, hr]
  exact spec_declSet_head h hr

/-! ### Lookup by name, selection by type -/

theorem lookup_some_name {h : History} {s : State} (hi : Inv0 h s) {n : Int} {oid : Nat} (hl : s.lookup n = some oid) :
    ∃ o : OvlCell, s.ovls[oid]? = some o ∧ o.name = n := by
  simp only [State.lookup, Option.map_eq_some_iff] at hl
  obtain ⟨d, hd, hk⟩ := hl
  obtain ⟨hm, hkey⟩ := findK_sound n d _ hd
  subst hk; subst hkey
  exact (hi.omem d.1 d.2).mp hm

theorem lookup_isSome_iff {h : History} {s : State} (hi : Inv h s) (n : Int) :
    (s.lookup n).isSome = true ↔ ∃ r ∈ h, r.name = n := by
  constructor
  · intro hs
    obtain ⟨oid, hl⟩ := Option.isSome_iff_exists.mp hs
    obtain ⟨o, ho, hn⟩ := lookup_some_name hi.toInv0 hl
    obtain ⟨k, e, he, hov⟩ := hi.used oid (lt_of_getElem? ho) (by simp)
    obtain ⟨hset, _, hne, _⟩ := hi.entry k e he
    obtain ⟨i, hiin⟩ := List.exists_mem_of_ne_nil _ hne
    rw [hset, List.mem_filter] at hiin
    obtain ⟨hir, hmd⟩ := hiin
    have hlt : i < h.length := by simpa using hir
    have hr : h[i]? = some h[i] := by simp [hlt]
    obtain ⟨c, e', o', h1, _, h3, _, h5, h6⟩ := hi.decl i h[i] hr
    simp only [mdIs, h1, Option.any_some, beq_iff_eq] at hmd
    rw [hmd, he] at h3; cases h3
    rw [hov, ho] at h5; cases h5
    exact ⟨h[i], List.getElem_mem hlt, h6.symm.trans hn⟩
  · rintro ⟨r, hr, hn⟩
    obtain ⟨i, hlt, hri⟩ := List.getElem_of_mem hr
    have hr' : h[i]? = some r := by simp [hlt, hri]
    obtain ⟨c, e, o, _, _, _, _, h5, h6⟩ := hi.decl i r hr'
    have hm := (hi.omem n e.overload).mpr ⟨o, h5, h6.trans hn⟩
    have := findK_complete (n, e.overload) _ hi.otree hm
    simp [State.lookup, this]

theorem select_eq {h : History} {s : State} (hi : Inv0 h s) {n : Int} {oid : Nat} {o : OvlCell}
    (ho : s.ovls[oid]? = some o) (hn : o.name = n) (t : Int) : s.select oid t = Spec.select h n t := by
  cases hl : o.lookup t with
  | none =>
    have hnone := (lookup_none_iff hi ho t).mp hl
    simp only [State.select, ho, Option.bind_some, hl, Option.bind_none, Spec.select]
    symm
    rw [List.findIdx?_eq_none_iff]
    intro r hr
    obtain ⟨i, hlt, hri⟩ := List.getElem_of_mem hr
    have hr' : h[i]? = some r := by simp [hlt, hri]
    obtain ⟨c, e, o', _, _, h3, h4, h5, h6⟩ := hi.decl i r hr'
    rw [Bool.and_eq_false_iff]
    by_cases hname : r.name = n
    · right
      have hov : e.overload = oid := hi.ovlInj _ _ o' o h5 ho (by rw [h6, hn, hname])
      have := hnone _ e h3 hov
      simp only [beq_eq_false_iff_ne, ne_eq]
      rw [← h4]; exact this
    · left; simpa using hname
  | some eid =>
    obtain ⟨e, he, hov, hty⟩ := lookup_some hi ho hl
    obtain ⟨hset, _, hne, _⟩ := hi.entry eid e he
    obtain ⟨i, hiin⟩ := List.exists_mem_of_ne_nil _ hne
    rw [hset, List.mem_filter] at hiin
    obtain ⟨hir, hmd⟩ := hiin
    have hlt : i < h.length := by simpa using hir
    have hr : h[i]? = some h[i] := by simp [hlt]
    obtain ⟨c, e', o', h1, _, h3, h4, h5, h6⟩ := hi.decl i h[i] hr
    simp only [mdIs, h1, Option.any_some, beq_iff_eq] at hmd
    rw [hmd, he] at h3; cases h3
    rw [hov, ho] at h5; cases h5
    have hds := declSet_eq hi i
    simp only [State.declSet, State.entryOf, h1, Option.bind_some, hmd, he, Option.map_some, Option.getD_some] at hds
    simp only [State.select, ho, Option.bind_some, hl, he, hds]
    rw [spec_declSet_head h hr, ← h6, ← h4, hn, hty]

/-! ### The scope's type -/

theorem typeElems_eq {h : History} {s : State} (hi : Inv0 h s) : s.typeElems = h.map (fun r => some r.type) := by
  simp only [State.typeElems, hi.seq]
  exact map_range_eq_map h _ _ (fun i r hr => (decl_obs hi hr).2.1)

/-- The entry a declaration points to was made by the factory of the first declaration with that name and type. -/
theorem entry_kind {h : History} {s : State} (hi : Inv0 h s) {i : Nat} {r : Req} (hr : h[i]? = some r) :
    ∃ (j : Nat) (rj : Req), Spec.master h i = some j ∧ h[j]? = some rj ∧ (s.entryOf i).map (·.kind) = some rj.kind := by
  have hlt : i < h.length := lt_of_getElem? hr
  obtain ⟨c, e, o, h1, _, h3, _⟩ := hi.decl i r hr
  obtain ⟨hset, hdecl, hne, _, hkind⟩ := hi.entry _ e h3
  have hm := master_eq hi hlt
  simp only [State.master, State.entryOf, h1, Option.bind_some, h3] at hm
  obtain ⟨j, hj⟩ := List.exists_mem_of_ne_nil _ hne
  cases hd : e.decl with
  | none =>
    rw [hd] at hdecl
    cases hs : e.declset with
    | nil => exact absurd hs hne
    | cons a l => rw [hs] at hdecl; simp at hdecl
  | some d =>
    have hk := hkind d hd
    have hdin : d ∈ e.declset := by
      rw [hd] at hdecl
      exact List.mem_of_getElem? hdecl.symm
    rw [hset, List.mem_filter] at hdin
    have hdl : d < h.length := by simpa using hdin.1
    have hrd : h[d]? = some h[d] := by simp [hdl]
    obtain ⟨cd, _, _, h1d, h2d, _⟩ := hi.decl d h[d] hrd
    rw [h1d] at hk; simp at hk
    refine ⟨d, h[d], by rw [← hm, hd], hrd, ?_⟩
    simp [State.entryOf, h1, h3, ← hk, h2d]

end Ipr.Scope
