import IprProofs.RBTree
/-! Ordering, membership and search for the red-black model, for any lawful comparator. -/
namespace Ipr.RB

/-- A three-way comparator that is a total order on keys (the premise of C08). -/
structure Lawful {α : Type} (cmp : α → α → Int) : Prop where
  antisymm : ∀ a b, cmp a b < 0 ↔ 0 < cmp b a
  trans : ∀ a b c, 0 < cmp a b → 0 < cmp b c → 0 < cmp a c
  eq : ∀ a b, cmp a b = 0 ↔ a = b

/-- The in-order sequence strictly descends (the C++ descends LEFT when `cmp data key < 0`). -/
def Desc {α : Type} (cmp : α → α → Int) (l : List α) : Prop := l.Pairwise (fun a b => 0 < cmp a b)

namespace Tree
variable {α : Type}

theorem Lawful.irrefl {cmp : α → α → Int} (h : Lawful cmp) (a : α) : ¬ 0 < cmp a a := by
  have := (h.eq a a).mpr rfl; omega

theorem descend_none_iff_find (cmp : α → α → Int) (key : α) :
    ∀ (t : Tree α) (path : Path α), descend cmp key t path = none ↔ (find cmp key t).isSome = true := by
  intro t
  induction t with
  | nil => intro path; simp [descend, find]
  | node c l k r ihl ihr =>
    intro path
    simp only [descend, find]
    split
    · exact ihl _
    · split
      · exact ihr _
      · simp

/-- `find` only ever answers with a stored element equivalent to the key. -/
theorem find_some_sound (cmp : α → α → Int) (key x : α) :
    ∀ t : Tree α, find cmp key t = some x → x ∈ inorder t ∧ cmp x key = 0 := by
  intro t
  induction t with
  | nil => simp [find]
  | node c l k r ihl ihr =>
    simp only [find, inorder]
    split
    · intro h; have := ihl h; exact ⟨by simp [this.1], this.2⟩
    · split
      · intro h; have := ihr h; exact ⟨by simp [this.1], this.2⟩
      · intro h; simp at h; subst h; exact ⟨by simp, by omega⟩

/-- In an ordered tree `find` reaches every stored key. -/
theorem find_complete {cmp : α → α → Int} (hc : Lawful cmp) (key : α) :
    ∀ t : Tree α, Desc cmp (inorder t) → key ∈ inorder t → find cmp key t = some key := by
  intro t
  induction t with
  | nil => simp [inorder]
  | node c l k r ihl ihr =>
    intro hd hm
    simp only [inorder, Desc, List.pairwise_append, List.pairwise_cons] at hd
    obtain ⟨hdl, ⟨hkr, hdr⟩, hlr⟩ := hd
    simp only [inorder, List.mem_append, List.mem_cons] at hm
    simp only [find]
    rcases hm with hm | hm | hm
    · have h1 : 0 < cmp key k := hlr key hm k (by simp)
      have h2 : cmp k key < 0 := (hc.antisymm k key).mpr h1
      simp [h2]; exact ihl hdl hm
    · subst hm
      have := (hc.eq key key).mpr rfl
      simp [this]
    · have h1 : 0 < cmp k key := hkr key hm
      have h2 : ¬ cmp k key < 0 := by omega
      simp [h2, h1]; exact ihr hdr hm

theorem find_iff {cmp : α → α → Int} (hc : Lawful cmp) (key : α) (t : Tree α) (hd : Desc cmp (inorder t)) :
    find cmp key t = some key ↔ key ∈ inorder t :=
  ⟨fun h => (find_some_sound cmp key key t h).1, find_complete hc key t hd⟩

theorem find_none_iff {cmp : α → α → Int} (hc : Lawful cmp) (key : α) (t : Tree α) (hd : Desc cmp (inorder t)) :
    find cmp key t = none ↔ key ∉ inorder t := by
  constructor
  · intro h hm; rw [find_complete hc key t hd hm] at h; simp at h
  · intro hm
    cases hf : find cmp key t with
    | none => rfl
    | some x =>
      have := find_some_sound cmp key x t hf
      have hx : x = key := (hc.eq x key).mp this.2
      subst hx; exact absurd this.1 hm

/-- Bounds collected along the search path: everything to the left of the hole is above the key,
    everything to the right is below it. -/
theorem descend_bounds {cmp : α → α → Int} (hc : Lawful cmp) (key : α) :
    ∀ (t : Tree α) (path path' : Path α),
      Desc cmp (ctxL path ++ inorder t ++ ctxR path) →
      (∀ x ∈ ctxL path, 0 < cmp x key) → (∀ x ∈ ctxR path, 0 < cmp key x) →
      descend cmp key t path = some path' →
      (∀ x ∈ ctxL path', 0 < cmp x key) ∧ (∀ x ∈ ctxR path', 0 < cmp key x) := by
  intro t
  induction t with
  | nil => intro path path' _ hl hr hd; simp [descend] at hd; subst hd; exact ⟨hl, hr⟩
  | node c l k r ihl ihr =>
    intro path path' hdesc hl hr hd
    simp only [descend] at hd
    have hdesc' := hdesc
    simp only [inorder, Desc, List.pairwise_append, List.pairwise_cons, List.mem_append, List.mem_cons] at hdesc'
    obtain ⟨⟨_, ⟨_, ⟨hkr, _⟩, hlk⟩, _⟩, _, _⟩ := hdesc'
    split at hd
    · rename_i hlt
      have hk : 0 < cmp key k := (hc.antisymm k key).mp hlt
      refine ihl _ _ ?_ ?_ ?_ hd
      · simpa [ctxL, ctxR, fL, fR, inorder, List.append_assoc] using hdesc
      · simpa [ctxL, fL] using hl
      · intro x hx
        simp only [ctxR, fR, List.mem_append, List.mem_cons, List.cons_append] at hx
        rcases hx with hx | hx | hx
        · subst hx; exact hk
        · exact hc.trans _ _ _ hk (hkr x hx)
        · exact hr x hx
    · split at hd
      · rename_i hnlt hgt
        refine ihr _ _ ?_ ?_ ?_ hd
        · simpa [ctxL, ctxR, fL, fR, inorder, List.append_assoc] using hdesc
        · intro x hx
          simp only [ctxL, fL, List.mem_append, List.mem_cons, List.not_mem_nil, or_false] at hx
          rcases hx with hx | hx | hx
          · exact hl x hx
          · exact hc.trans _ _ _ (hlk x hx k (Or.inl rfl)) hgt
          · subst hx; exact hgt
        · simpa [ctxR, fR] using hr
      · simp at hd

theorem desc_insert_mid {cmp : α → α → Int} (key : α) (L R : List α)
    (h : Desc cmp (L ++ R)) (hl : ∀ x ∈ L, 0 < cmp x key) (hr : ∀ x ∈ R, 0 < cmp key x) :
    Desc cmp (L ++ key :: R) := by
  simp only [Desc, List.pairwise_append, List.pairwise_cons, List.mem_cons] at *
  refine ⟨h.1, ⟨hr, h.2.1⟩, ?_⟩
  intro a ha b hb
  rcases hb with hb | hb
  · subst hb; exact hl a ha
  · exact h.2.2 a ha b hb

/-- Insertion keeps the tree a search tree. -/
theorem insert_desc {cmp : α → α → Int} (hc : Lawful cmp) (t : Tree α) (key : α)
    (h : Desc cmp (inorder t)) : Desc cmp (inorder (insert cmp t key)) := by
  cases hd : descend cmp key t [] with
  | none => rw [insert_none cmp t key hd]; exact h
  | some path =>
    obtain ⟨h1, h2⟩ := inorder_insert_some cmp t key path hd
    rw [h1]
    have hb := descend_bounds hc key t [] path (by simpa [ctxL, ctxR] using h) (by simp [ctxL]) (by simp [ctxR]) hd
    exact desc_insert_mid key _ _ (h2 ▸ h) hb.1 hb.2

/-- Membership after an insertion: exactly the old keys and the new one. -/
theorem mem_insert {cmp : α → α → Int} (hc : Lawful cmp) (t : Tree α) (key x : α)
    (_h : Desc cmp (inorder t)) : x ∈ inorder (insert cmp t key) ↔ x = key ∨ x ∈ inorder t := by
  cases hd : descend cmp key t [] with
  | none =>
    rw [insert_none cmp t key hd]
    have hf := (descend_none_iff_find cmp key t []).mp hd
    cases hfx : find cmp key t with
    | none => simp [hfx] at hf
    | some y =>
      have := find_some_sound cmp key y t hfx
      have hy : y = key := (hc.eq y key).mp this.2
      subst hy
      constructor
      · exact Or.inr
      · rintro (h' | h')
        · subst h'; exact this.1
        · exact h'
  | some path =>
    obtain ⟨h1, h2⟩ := inorder_insert_some cmp t key path hd
    rw [h1, h2]; simp only [List.mem_append, List.mem_cons]
    constructor
    · rintro (h | h | h) <;> simp [h]
    · rintro (h | h | h) <;> simp [h]

/-- An insertion adds a node exactly when the key was absent. -/
theorem size_insert {cmp : α → α → Int} (hc : Lawful cmp) (t : Tree α) (key : α)
    (h : Desc cmp (inorder t)) :
    (key ∈ inorder t → insert cmp t key = t) ∧ (key ∉ inorder t → size (insert cmp t key) = size t + 1) := by
  cases hd : descend cmp key t [] with
  | none => exact ⟨fun _ => insert_none cmp t key hd, fun hn => by
      have hf := (descend_none_iff_find cmp key t []).mp hd
      have := (find_none_iff hc key t h).mpr hn
      simp [this] at hf⟩
  | some path =>
    constructor
    · intro hm
      have := find_complete hc key t h hm
      have hn := (descend_none_iff_find cmp key t []).mpr (by simp [this])
      rw [hn] at hd; simp at hd
    · intro _
      obtain ⟨h1, h2⟩ := inorder_insert_some cmp t key path hd
      simp [size_eq_length, h1, h2]; omega

/-! ### The executable checkers are sound and complete -/

theorem blackHeight_iff (t : Tree α) (n : Nat) : blackHeight t = some n ↔ ∃ c, RB t c n := by
  induction t generalizing n with
  | nil =>
    simp only [blackHeight]
    constructor
    · intro h; simp at h; subst h; exact ⟨_, .nil⟩
    · rintro ⟨c, h⟩; cases h; rfl
  | node c l k r ihl ihr =>
    simp only [blackHeight]
    constructor
    · intro h
      cases hl : blackHeight l with
      | none => simp [hl] at h
      | some a =>
      cases hr : blackHeight r with
      | none => simp [hl, hr] at h
      | some b =>
      simp only [hl, hr] at h
      split at h
      · rename_i hab; subst hab
        obtain ⟨cl, hL⟩ := (ihl a).mp hl
        obtain ⟨cr, hR⟩ := (ihr a).mp hr
        cases c with
        | black => simp at h; subst h; exact ⟨_, .black hL hR⟩
        | red =>
          simp only at h
          split at h
          · simp at h
          · rename_i hnr
            simp at h; subst h
            simp at hnr
            have h1 := isRed_false_rb hL hnr.1
            have h2 := isRed_false_rb hR hnr.2
            subst h1; subst h2
            exact ⟨_, .red hL hR⟩
      · simp at h
    · rintro ⟨c', h⟩
      cases h with
      | red hl hr =>
        have h1 := (ihl n).mpr ⟨_, hl⟩
        have h2 := (ihr n).mpr ⟨_, hr⟩
        have r1 : l.isRed = false := by cases hl <;> simp [isRed]
        have r2 : r.isRed = false := by cases hr <;> simp [isRed]
        simp [h1, h2, r1, r2]
      | black hl hr =>
        rename_i c1 c2 m
        have h1 := (ihl m).mpr ⟨_, hl⟩
        have h2 := (ihr m).mpr ⟨_, hr⟩
        simp [h1, h2]

theorem checkRB_iff (t : Tree α) : checkRB t = true ↔ RBInv t := by
  unfold checkRB RBInv
  constructor
  · intro h
    simp only [Bool.and_eq_true, Bool.not_eq_true', Option.isSome_iff_exists] at h
    obtain ⟨hr, n, hn⟩ := h
    obtain ⟨c, hc⟩ := (blackHeight_iff t n).mp hn
    have := isRed_false_rb hc hr
    subst this; exact ⟨n, hc⟩
  · rintro ⟨n, h⟩
    have h1 := (blackHeight_iff t n).mpr ⟨_, h⟩
    have h2 : t.isRed = false := by cases h <;> simp [isRed]
    simp [h1, h2]

theorem descChain_iff {cmp : α → α → Int} (htr : ∀ a b c, 0 < cmp a b → 0 < cmp b c → 0 < cmp a c) :
    ∀ l : List α, descChain cmp l = true ↔ Desc cmp l := by
  intro l
  induction l with
  | nil => simp [descChain, Desc]
  | cons a rest ih =>
    cases rest with
    | nil => simp [descChain, Desc]
    | cons b rest' =>
      simp only [descChain, Bool.and_eq_true, decide_eq_true_eq, ih]
      simp only [Desc, List.pairwise_cons, List.mem_cons]
      constructor
      · rintro ⟨hab, hb, hrest⟩
        refine ⟨?_, hb, hrest⟩
        intro x hx
        rcases hx with hx | hx
        · subst hx; exact hab
        · exact htr _ _ _ hab (hb x hx)
      · rintro ⟨ha, hb, hrest⟩
        exact ⟨ha b (Or.inl rfl), hb, hrest⟩

theorem checkBST_iff {cmp : α → α → Int} (hc : Lawful cmp) (t : Tree α) :
    checkBST cmp t = true ↔ Desc cmp (inorder t) := descChain_iff hc.trans _

end Tree

/-! ### Lawful instances used by the library and the probe -/

theorem icmp_lawful : Lawful icmp where
  antisymm := by intro a b; unfold icmp; split <;> split <;> omega
  trans := by intro a b c; unfold icmp; repeat' split <;> omega
  eq := by intro a b; unfold icmp; repeat' split <;> omega

theorem lexCmp_neg_iff : ∀ a b : List Int, lexCmp a b < 0 ↔ 0 < lexCmp b a
  | [], [] => by simp [lexCmp]
  | [], _ :: _ => by simp [lexCmp]
  | _ :: _, [] => by simp [lexCmp]
  | x :: xs, y :: ys => by
    simp only [lexCmp]
    have ih := lexCmp_neg_iff xs ys
    by_cases h1 : x < y
    · have : ¬ y < x := by omega
      simp [h1, this]
    · by_cases h2 : y < x
      · simp [h1, h2]
      · simp [h1, h2, ih]

theorem lexCmp_eq_iff : ∀ a b : List Int, lexCmp a b = 0 ↔ a = b
  | [], [] => by simp [lexCmp]
  | [], _ :: _ => by simp [lexCmp]
  | _ :: _, [] => by simp [lexCmp]
  | x :: xs, y :: ys => by
    simp only [lexCmp]
    have ih := lexCmp_eq_iff xs ys
    by_cases h1 : x < y
    · simp [h1]; omega
    · by_cases h2 : y < x
      · simp [h1, h2]; omega
      · have : x = y := by omega
        simp [ih, this]

theorem lexCmp_trans : ∀ a b c : List Int, 0 < lexCmp a b → 0 < lexCmp b c → 0 < lexCmp a c
  | [], [], _ => by simp [lexCmp]
  | [], _ :: _, _ => by simp [lexCmp]
  | _ :: _, [], [] => by simp [lexCmp]
  | _ :: _, [], _ :: _ => by simp [lexCmp]
  | _ :: _, _ :: _, [] => by simp [lexCmp]
  | x :: xs, y :: ys, z :: zs => by
    simp only [lexCmp]
    have ih := lexCmp_trans xs ys zs
    intro h1 h2
    by_cases hxy : x < y
    · simp [hxy] at h1
    · by_cases hyx : y < x
      · by_cases hyz : y < z
        · simp [hyz] at h2
        · by_cases hzy : z < y
          · have : ¬ x < z := by omega
            have : z < x := by omega
            simp [*]
          · have : y = z := by omega
            subst this; simp [hxy, hyx]
      · have : x = y := by omega
        subst this
        simp [hxy] at h1
        by_cases hxz : x < z
        · simp [hxz] at h2
        · by_cases hzx : z < x
          · simp [hxz, hzx]
          · simp [hxz, hzx] at h2 ⊢; exact ih h1 h2

theorem lexCmp_lawful : Lawful lexCmp where
  antisymm := lexCmp_neg_iff
  trans := lexCmp_trans
  eq := lexCmp_eq_iff

end Ipr.RB
