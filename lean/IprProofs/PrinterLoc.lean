import IprProofs.PrinterInv
/-!
# Lemmas about the printer model, part 6: location printing (C17)

Two runs on the same heap, one with `print_locations`, one without, proceed in lock step.  They differ by the location
chunks — and by the blanks of the identifier padding: a location token ends in `token(' ')`, which resets the padding, so
an identifier that follows is not preceded by the blank it gets in the run without locations (e.g. the second parameter of
`(p : int,  q : int)` versus `(F1:1 p : int, F2:3 q : int)`).
-/
namespace Ipr.Printer

/-- Output without location chunks and padding blanks. -/
def strip (out : List Chunk) : List Chunk := out.filter fun c => !c.inLoc && c.tag != .pad

structure Sim (s1 s0 : PState) : Prop where
  out : strip s1.out = strip s0.out
  nl : s1.nl = s0.nl
  indent : s1.indent = s0.indent
  base : s1.fmt.base = s0.fmt.base
  located : s1.located = s0.located

def SimR (r1 r0 : Res) : Prop := r1.status = r0.status ∧ Sim r1.st r0.st

namespace Sim

theorem refl (s : PState) : Sim s s := ⟨rfl, rfl, rfl, rfl, rfl⟩

theorem emit_same {s1 s0 : PState} (hs : Sim s1 s0) (tag : Tag) (il : Bool) (bs : Bytes) :
    Sim (s1.emit tag il bs) (s0.emit tag il bs) := by
  refine ⟨?_, hs.nl, hs.indent, hs.base, hs.located⟩
  simp only [PState.emit, strip, List.filter_cons]
  have := hs.out
  simp only [strip] at this
  split <;> simp [this]

theorem emit_left {s1 s0 : PState} (hs : Sim s1 s0) (tag : Tag) (il : Bool) (bs : Bytes) (hh : il = true ∨ tag = .pad) :
    Sim (s1.emit tag il bs) s0 := by
  refine ⟨?_, hs.nl, hs.indent, hs.base, hs.located⟩
  have : (!il && tag != Tag.pad) = false := by rcases hh with rfl | rfl <;> simp
  simp only [PState.emit, strip, List.filter_cons, this]
  exact hs.out

theorem emit_right {s1 s0 : PState} (hs : Sim s1 s0) (tag : Tag) (il : Bool) (bs : Bytes) (hh : il = true ∨ tag = .pad) :
    Sim s1 (s0.emit tag il bs) := by
  refine ⟨?_, hs.nl, hs.indent, hs.base, hs.located⟩
  have : (!il && tag != Tag.pad) = false := by rcases hh with rfl | rfl <;> simp
  simp only [PState.emit, strip, List.filter_cons, this]
  exact hs.out

/-- Padding is not part of the relation. -/
theorem setPad {s1 s0 : PState} (hs : Sim s1 s0) (p q : Pad) : Sim { s1 with pad := p } { s0 with pad := q } :=
  ⟨hs.out, hs.nl, hs.indent, hs.base, hs.located⟩

theorem setPadLeft {s1 s0 : PState} (hs : Sim s1 s0) (p : Pad) : Sim { s1 with pad := p } s0 :=
  ⟨hs.out, hs.nl, hs.indent, hs.base, hs.located⟩

theorem setNl {s1 s0 : PState} (hs : Sim s1 s0) (b : Bool) : Sim { s1 with nl := b } { s0 with nl := b } :=
  ⟨hs.out, rfl, hs.indent, hs.base, hs.located⟩

theorem tok {s1 s0 : PState} (hs : Sim s1 s0) (s : String) : Sim (s1.tok s) (s0.tok s) :=
  (hs.emit_same .tok false _).setPad _ _

theorem tokLoc {s1 s0 : PState} (hs : Sim s1 s0) (s : String) : Sim (s1.tok s true) s0 :=
  (hs.emit_left .tok true _ (Or.inl rfl)).setPadLeft _

theorem numLoc {s1 s0 : PState} (hs : Sim s1 s0) (n : Nat) : Sim (s1.num n true) s0 :=
  hs.emit_left _ true _ (Or.inl rfl)

theorem raw {s1 s0 : PState} (hs : Sim s1 s0) (s : String) : Sim (s1.raw s) (s0.raw s) :=
  hs.emit_same .tok false _

theorem num {s1 s0 : PState} (hs : Sim s1 s0) (n : Nat) : Sim (s1.num n false) (s0.num n false) := by
  unfold PState.num
  rw [hs.base]
  exact hs.emit_same _ false _

theorem padBefore {s1 s0 : PState} (hs : Sim s1 s0) : Sim s1.padBefore s0.padBefore := by
  unfold PState.padBefore
  split <;> split
  · exact (hs.emit_left .pad false _ (Or.inr rfl)).emit_right .pad false _ (Or.inr rfl)
  · exact hs.emit_left .pad false _ (Or.inr rfl)
  · exact hs.emit_right .pad false _ (Or.inr rfl)
  · exact hs

theorem writeBytes {s1 s0 : PState} (hs : Sim s1 s0) (tag : Tag) (bs : Bytes) :
    Sim (s1.writeBytes tag bs) (s0.writeBytes tag bs) := by
  unfold PState.writeBytes
  split
  · exact hs
  · exact hs.emit_same tag false bs

theorem ident {s1 s0 : PState} (hs : Sim s1 s0) (tag : Tag) (bs : Bytes) : Sim (s1.ident tag bs) (s0.ident tag bs) :=
  ((hs.padBefore).writeBytes tag bs).setPad _ _

theorem write {s1 s0 : PState} (hs : Sim s1 s0) (bs : Bytes) : Sim (s1.write bs) (s0.write bs) :=
  (hs.writeBytes .spell bs).setPad _ _

theorem newline {s1 s0 : PState} (hs : Sim s1 s0) : Sim s1.newline s0.newline := by
  have he := hs.emit_same .nl false (10 :: List.replicate s0.indent.toNat 32)
  unfold PState.newline
  rw [hs.indent]
  exact ⟨he.out, rfl, he.indent, he.base, he.located⟩

theorem addIndent {s1 s0 : PState} (hs : Sim s1 s0) (n : Int) : Sim (s1.addIndent n) (s0.addIndent n) :=
  ⟨hs.out, hs.nl, by simp [PState.addIndent, hs.indent], hs.base, hs.located⟩

theorem words : ∀ (ws : List Bytes) {s1 s0 : PState}, Sim s1 s0 →
    Sim (ws.foldl (fun st w => st.ident .spell w) s1) (ws.foldl (fun st w => st.ident .spell w) s0)
  | [], _, _, hs => hs
  | w :: ws, _, _, hs => by simp only [List.foldl_cons]; exact words ws (hs.ident .spell w)

theorem pendingNewline {s1 s0 : PState} (hs : Sim s1 s0) : Sim s1.pendingNewline s0.pendingNewline := by
  unfold PState.pendingNewline
  rw [hs.nl]
  split
  · exact hs.newline
  · exact hs

theorem countLocated {s1 s0 : PState} (hs : Sim s1 s0) : Sim s1.countLocated s0.countLocated :=
  ⟨hs.out, hs.nl, hs.indent, hs.base, by simp [PState.countLocated, hs.located]⟩

theorem locToken {s1 s0 : PState} (hs : Sim s1 s0) (r : NodeRec) : Sim (locToken r s1) s0 := by
  unfold Ipr.Printer.locToken locColumn
  refine Sim.tokLoc ?_ _
  split
  · exact ((((hs.tokLoc "F").numLoc _).tokLoc ":").numLoc _ |>.tokLoc ":").numLoc _
  · exact (((hs.tokLoc "F").numLoc _).tokLoc ":").numLoc _

end Sim

def withLoc : Opts := { loc := true }
def noLoc : Opts := { loc := false }

theorem sim_prelude {s1 s0 : PState} (hs : Sim s1 s0) (e : Entry) (r : NodeRec) :
    Sim (prelude withLoc e r s1) (prelude noLoc e r s0) := by
  unfold prelude
  split
  · exact hs
  · unfold printLoc
    split
    · simpa [withLoc, noLoc] using (hs.pendingNewline.countLocated).locToken r
    · exact hs.pendingNewline

theorem sim_postlude {s1 s0 : PState} (hs : Sim s1 s0) (e : Entry) : Sim (postlude e s1) (postlude e s0) := by
  unfold postlude
  split
  · exact hs.tok ";"
  · exact hs

theorem sim_pre {s1 s0 : PState} (hs : Sim s1 s0) (k : SeqKind) (f : Bool) : Sim (k.pre f s1) (k.pre f s0) := by
  cases k <;> simp only [SeqKind.pre] <;> first | exact hs | (split <;> first | exact hs | exact hs.raw ", ")

theorem sim_post {s1 s0 : PState} (hs : Sim s1 s0) (k : SeqKind) : Sim (k.post s1) (k.post s0) := by
  cases k <;> simp only [SeqKind.post] <;> first | exact hs | exact hs.newline | exact hs.setNl true

/-- `rec1` (with locations) and `rec0` (without) answer alike on related states. -/
def SimRec (rec1 rec0 : Rec) : Prop := ∀ e b s1 s0, Sim s1 s0 → SimR (rec1 e b s1) (rec0 e b s0)

theorem simR_bind {r1 r0 : Res} {f1 f0 : PState → Res} (hr : SimR r1 r0)
    (hf : ∀ s1 s0, Sim s1 s0 → SimR (f1 s1) (f0 s0)) : SimR (r1.bind f1) (r0.bind f0) := by
  unfold Res.bind
  obtain ⟨hst, hs⟩ := hr
  rw [hst]
  split
  · exact hf _ _ hs
  · exact ⟨hst, hs⟩

theorem simR_ok {s1 s0 : PState} (hs : Sim s1 s0) : SimR ⟨s1, .ok⟩ ⟨s0, .ok⟩ := ⟨rfl, hs⟩

theorem runSeq_sim {rec1 rec0 : Rec} (hrec : SimRec rec1 rec0) (k : SeqKind) :
    ∀ (l : List Addr) (first : Bool) (s1 s0 : PState), Sim s1 s0 → SimR (runSeq rec1 k l first s1) (runSeq rec0 k l first s0)
  | [], _, _, _, hs => simR_ok hs
  | x :: xs, first, s1, s0, hs => by
    simp only [runSeq]
    exact simR_bind (hrec _ _ _ _ (sim_pre hs k first)) fun t1 t0 ht => runSeq_sim hrec k xs false _ _ (sim_post ht k)

theorem step_sim {h : Heap} {rec1 rec0 : Rec} (hrec : SimRec rec1 rec0) (cls : VClass) (strict : Bool) (a : Addr) (r : NodeRec)
    (i : Instr) {s1 s0 : PState} (hs : Sim s1 s0) : SimR (step h rec1 cls strict a r i s1) (step h rec0 cls strict a r i s0) := by
  cases i with
  | tok s => exact simR_ok (hs.tok s)
  | raw s => exact simR_ok (hs.raw s)
  | kw s => exact simR_ok (hs.ident _ _)
  | idStr => exact simR_ok (hs.ident _ _)
  | wrStr => exact simR_ok (hs.write _)
  | litStr => exact simR_ok (hs.writeBytes _ _)
  | words => exact simR_ok (Sim.words _ hs)
  | acc e p =>
    simp only [step]
    cases follow h a p with
    | none => exact ⟨rfl, hs⟩
    | some b => exact hrec _ _ _ _ hs
  | accSame p =>
    simp only [step]
    cases follow h a p with
    | none => exact ⟨rfl, hs⟩
    | some b => exact hrec _ _ _ _ hs
  | each k p w =>
    simp only [step]
    cases follow h a p with
    | none => exact ⟨rfl, hs⟩
    | some b => exact runSeq_sim hrec k _ true _ _ hs
  | indent n => exact simR_ok (hs.addIndent n)
  | nlIndent n => exact simR_ok (hs.addIndent n).newline
  | needNl => exact simR_ok (hs.setNl true)
  | labelOutdent =>
    simp only [step]
    rw [hs.nl]
    split
    · exact simR_ok (hs.addIndent _).newline
    · exact simR_ok (hs.addIndent _)
  | throw => exact ⟨rfl, hs⟩

theorem runInstrs_sim {h : Heap} {rec1 rec0 : Rec} (hrec : SimRec rec1 rec0) (cls : VClass) (strict : Bool) (a : Addr)
    (r : NodeRec) : ∀ (is : List Instr) (s1 s0 : PState), Sim s1 s0 →
      SimR (runInstrs h rec1 cls strict a r is s1) (runInstrs h rec0 cls strict a r is s0)
  | [], _, _, hs => simR_ok hs
  | i :: is, s1, s0, hs => by
    simp only [runInstrs]
    exact simR_bind (step_sim hrec cls strict a r i hs) fun t1 t0 ht => runInstrs_sim hrec cls strict a r is t1 t0 ht

theorem dispatch_sim (h : Heap) : ∀ n, SimRec (dispatch h withLoc n) (dispatch h noLoc n)
  | 0 => fun _ _ _ _ hs => ⟨rfl, hs⟩
  | n + 1 => fun e a s1 s0 hs => by
    simp only [dispatch]
    exact simR_bind (runInstrs_sim (dispatch_sim h n) _ _ _ _ _ _ _ (sim_prelude hs e (h a)))
      fun t1 t0 ht => simR_ok (sim_postlude ht e)

/-! ## Counting location tokens -/

/-- The head of a location token: the `token("F")` written by `Location_printer`. -/
def isLocHead (c : Chunk) : Bool := c.inLoc && c.tag == .tok && c.bytes == strBytes "F"

def countHeads (out : List Chunk) : Nat := (out.filter isLocHead).length

/-- With locations on, heads and located entries grow together. -/
def QCount (st st' : PState) : Prop := countHeads st'.out + st.located = countHeads st.out + st'.located

theorem countHeads_cons (c : Chunk) (out : List Chunk) :
    countHeads (c :: out) = (if isLocHead c then 1 else 0) + countHeads out := by
  simp only [countHeads, List.filter_cons]
  split <;> simp <;> omega

/-- An insertion outside a location token changes neither count. -/
def Quiet (st st' : PState) : Prop := st'.located = st.located ∧ countHeads st'.out = countHeads st.out

namespace Quiet
theorem refl (st : PState) : Quiet st st := ⟨rfl, rfl⟩
theorem trans {a b c : PState} (h1 : Quiet a b) (h2 : Quiet b c) : Quiet a c := ⟨h2.1.trans h1.1, h2.2.trans h1.2⟩
theorem of_eq {st st' : PState} (ho : st'.out = st.out) (hl : st'.located = st.located) : Quiet st st' := ⟨hl, by rw [ho]⟩
theorem emit (st : PState) (tag : Tag) (bs : Bytes) : Quiet st (st.emit tag false bs) :=
  ⟨rfl, by simp [PState.emit, countHeads_cons, isLocHead]⟩
theorem toQCount {st st' : PState} (hq : Quiet st st') : QCount st st' := by
  unfold QCount; rw [hq.1, hq.2]
end Quiet

theorem quiet_tok (st : PState) (s : String) : Quiet st (st.tok s) := (Quiet.emit st .tok _).trans (Quiet.of_eq rfl rfl)
theorem quiet_raw (st : PState) (s : String) : Quiet st (st.raw s) := Quiet.emit st .tok _
theorem quiet_newline (st : PState) : Quiet st st.newline := (Quiet.emit st .nl _).trans (Quiet.of_eq rfl rfl)
theorem quiet_padBefore (st : PState) : Quiet st st.padBefore := by
  unfold PState.padBefore; split
  · exact Quiet.emit st _ _
  · exact Quiet.refl st
theorem quiet_writeBytes (st : PState) (tag : Tag) (bs : Bytes) : Quiet st (st.writeBytes tag bs) := by
  unfold PState.writeBytes; split
  · exact Quiet.refl st
  · exact Quiet.emit st _ _
theorem quiet_ident (st : PState) (tag : Tag) (bs : Bytes) : Quiet st (st.ident tag bs) :=
  ((quiet_padBefore st).trans (quiet_writeBytes _ tag bs)).trans (Quiet.of_eq rfl rfl)
theorem quiet_words : ∀ (ws : List Bytes) (st : PState), Quiet st (ws.foldl (fun st w => st.ident .spell w) st)
  | [], st => Quiet.refl st
  | w :: ws, st => by simp only [List.foldl_cons]; exact (quiet_ident st .spell w).trans (quiet_words ws _)
theorem quiet_pendingNewline (st : PState) : Quiet st st.pendingNewline := by
  unfold PState.pendingNewline; split
  · exact quiet_newline st
  · exact Quiet.refl st

theorem quiet_prim {h : Heap} (rec : Rec) (cls : VClass) (strict : Bool) (a : Addr) (r : NodeRec) (i : Instr) (st : PState)
    (hr : i.isRec = false) : Quiet st (step h rec cls strict a r i st).st := by
  cases i with
  | tok s => exact quiet_tok st s
  | raw s => exact quiet_raw st s
  | kw s => exact quiet_ident st _ _
  | idStr => exact quiet_ident st _ _
  | wrStr => exact (quiet_writeBytes st _ _).trans (Quiet.of_eq rfl rfl)
  | litStr => exact quiet_writeBytes st _ _
  | words => exact quiet_words _ st
  | indent n => exact Quiet.of_eq rfl rfl
  | nlIndent n => exact (Quiet.of_eq (st' := st.addIndent n) rfl rfl).trans (quiet_newline _)
  | needNl => exact Quiet.of_eq rfl rfl
  | labelOutdent =>
    simp only [step]; split
    · exact (Quiet.of_eq (st' := st.addIndent (-3)) rfl rfl).trans (quiet_newline _)
    · exact Quiet.of_eq rfl rfl
  | throw => exact Quiet.refl st
  | acc e p => simp [Instr.isRec] at hr
  | accSame p => simp [Instr.isRec] at hr
  | each k p w => simp [Instr.isRec] at hr

theorem strBytes_colon_ne : (strBytes ":" == strBytes "F") = false := by decide +kernel
theorem strBytes_blank_ne : (strBytes " " == strBytes "F") = false := by decide +kernel

/-- A complete location token contributes exactly one head. -/
theorem locToken_heads (r : NodeRec) (st : PState) :
    (locToken r st).located = st.located ∧ countHeads (locToken r st).out = countHeads st.out + 1 := by
  unfold locToken locColumn
  split <;>
    simp [PState.tok, PState.num, PState.emit, countHeads_cons, isLocHead, strBytes_colon_ne, strBytes_blank_ne] <;> omega

theorem qcount_prelude (e : Entry) (r : NodeRec) (st : PState) : QCount st (prelude withLoc e r st) := by
  unfold prelude
  split
  · exact (Quiet.refl st).toQCount
  · have hp := quiet_pendingNewline st
    unfold printLoc
    split
    · obtain ⟨h1, h2⟩ := locToken_heads r st.pendingNewline.countLocated
      simp only [withLoc, if_true]
      unfold QCount
      rw [h1, h2]
      simp only [PState.countLocated]
      rw [hp.1, hp.2]
      omega
    · exact hp.toQCount

theorem qcount_stepInv (h : Heap) : StepInv h withLoc QCount (fun _ => True) where
  refl := fun st => (Quiet.refl st).toQCount
  trans := fun a b c h1 h2 => by unfold QCount at *; omega
  prim := fun rec cls strict a i st hr _ => (quiet_prim rec cls strict a (h a) i st hr).toQCount
  prelude := qcount_prelude
  postlude := fun e st => by
    unfold postlude; split
    · exact (quiet_tok st ";").toQCount
    · exact (Quiet.refl st).toQCount
  pre := fun k f st => by
    cases k <;> simp only [SeqKind.pre] <;>
      first | exact (Quiet.refl st).toQCount | (split <;> first | exact (Quiet.refl st).toQCount | exact (quiet_raw st ", ").toQCount)
  post := fun k st => by
    cases k <;> simp only [SeqKind.post] <;>
      first | exact (Quiet.refl st).toQCount | exact (quiet_newline st).toQCount | exact (Quiet.of_eq rfl rfl).toQCount

theorem dispatch_count (h : Heap) (n : Nat) (e : Entry) (a : Addr) (st : PState) :
    QCount st (dispatch h withLoc n e a st).st :=
  dispatch_stepInv (qcount_stepInv h) (fun _ _ _ _ _ => trivial) n e a st

end Ipr.Printer
