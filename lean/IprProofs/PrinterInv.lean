import IprModel.Printer
/-!
# Lemmas about the printer model, part 2: state relations preserved by every run (C18: stream state, output alphabet;
  C17: location tokens)

`StepInv h o Q OK`: the relation `Q` between the printer state before and after is reflexive, transitive and holds for
every primitive insertion made by an instruction satisfying `OK`.  Then it holds for every run of `dispatch`, whatever the
fuel, the heap and the outcome (`dispatch_stepInv`).
-/
namespace Ipr.Printer

def Instr.isRec : Instr → Bool
  | .acc _ _ | .accSame _ | .each _ _ _ => true
  | _ => false

/-- Every instruction that occurs in some branch of a production. -/
def Prod.allInstrs : Prod → List Instr
  | .is l => l
  | .ite _ t e => t.allInstrs ++ e.allInstrs
  | .app a b => a.allInstrs ++ b.allInstrs

theorem resolve_subset (ev : Cond → Bool) : ∀ (p : Prod), ∀ i ∈ p.resolve ev, i ∈ p.allInstrs
  | .is _, i, hi => hi
  | .ite c t e, i, hi => by
    simp only [Prod.resolve] at hi
    simp only [Prod.allInstrs, List.mem_append]
    split at hi
    · exact Or.inl (resolve_subset ev t i hi)
    · exact Or.inr (resolve_subset ev e i hi)
  | .app a b, i, hi => by
    simp only [Prod.resolve, List.mem_append] at hi
    simp only [Prod.allInstrs, List.mem_append]
    exact hi.elim (fun x => Or.inl (resolve_subset ev a i x)) (fun x => Or.inr (resolve_subset ev b i x))

theorem production_subset (h : Heap) (e : Entry) (a : Addr) :
    ∀ i ∈ production h e a, i ∈ (table e.cls e.strict (h a).cat).allInstrs :=
  resolve_subset _ _

structure StepInv (h : Heap) (o : Opts) (Q : PState → PState → Prop) (OK : Instr → Prop) : Prop where
  refl : ∀ st, Q st st
  trans : ∀ a b c, Q a b → Q b c → Q a c
  prim : ∀ (rec : Rec) cls strict a i st, i.isRec = false → OK i → Q st (step h rec cls strict a (h a) i st).st
  prelude : ∀ e r st, Q st (prelude o e r st)
  postlude : ∀ e st, Q st (postlude e st)
  pre : ∀ (k : SeqKind) f st, Q st (k.pre f st)
  post : ∀ (k : SeqKind) st, Q st (k.post st)

section
variable {h : Heap} {o : Opts} {Q : PState → PState → Prop} {OK : Instr → Prop} (inv : StepInv h o Q OK)
include inv

theorem bind_stepInv {st : PState} {r : Res} {f : PState → Res} (h1 : Q st r.st) (h2 : ∀ st', Q st' (f st').st) :
    Q st (r.bind f).st := by
  unfold Res.bind
  split
  · exact inv.trans _ _ _ h1 (h2 _)
  · exact h1

theorem runSeq_stepInv {rec : Rec} (hrec : ∀ e b st, Q st (rec e b st).st) (k : SeqKind) :
    ∀ (l : List Addr) (first : Bool) (st : PState), Q st (runSeq rec k l first st).st
  | [], _, st => inv.refl st
  | x :: xs, first, st => by
    simp only [runSeq]
    refine bind_stepInv inv (inv.trans _ _ _ (inv.pre k first st) (hrec _ _ _)) fun st' => ?_
    exact inv.trans _ _ _ (inv.post k st') (runSeq_stepInv hrec k xs false _)

theorem step_stepInv {rec : Rec} (hrec : ∀ e b st, Q st (rec e b st).st) (cls : VClass) (strict : Bool) (a : Addr)
    (i : Instr) (hi : OK i) (st : PState) : Q st (step h rec cls strict a (h a) i st).st := by
  cases hr : i.isRec with
  | false => exact inv.prim rec cls strict a i st hr hi
  | true =>
    cases i with
    | acc e p =>
      simp only [step]
      split
      · exact inv.refl st
      · exact hrec _ _ _
    | accSame p =>
      simp only [step]
      split
      · exact inv.refl st
      · exact hrec _ _ _
    | each k p w =>
      simp only [step]
      split
      · exact inv.refl st
      · exact runSeq_stepInv inv hrec k _ true st
    | _ => simp [Instr.isRec] at hr

theorem runInstrs_stepInv {rec : Rec} (hrec : ∀ e b st, Q st (rec e b st).st) (cls : VClass) (strict : Bool) (a : Addr) :
    ∀ (is : List Instr), (∀ i ∈ is, OK i) → ∀ st, Q st (runInstrs h rec cls strict a (h a) is st).st
  | [], _, st => inv.refl st
  | i :: is, hok, st => by
    simp only [runInstrs]
    exact bind_stepInv inv (step_stepInv inv hrec cls strict a i (hok i (by simp)) st)
      fun st' => runInstrs_stepInv hrec cls strict a is (fun j hj => hok j (by simp [hj])) st'

theorem dispatch_stepInv (hok : ∀ cls strict c, ∀ i ∈ (table cls strict c).allInstrs, OK i) :
    ∀ (n : Nat) (e : Entry) (a : Addr) (st : PState), Q st (dispatch h o n e a st).st
  | 0, _, _, st => inv.refl st
  | n + 1, e, a, st => by
    simp only [dispatch]
    refine bind_stepInv inv (inv.trans _ _ _ (inv.prelude e (h a) st) ?_) fun st' => inv.postlude e st'
    exact runInstrs_stepInv inv (fun e b st => dispatch_stepInv hok n e b st) e.cls e.strict a _
      (fun i hi => hok _ _ _ i (production_subset h e a i hi)) _

end

end Ipr.Printer
