import IprProofs.UnifyPlan
/-! Histories at level L0: the iff-law of unification over every finite request sequence. -/
set_option linter.unusedSimpArgs false
namespace Ipr.Unify

/-- The normal form of a request as the Lexicon sees it when the request arrives (`none`: refused). -/
def normV (cfg : Config) (h : Heap) (req : Req) : Option NKey :=
  if req.operands.all (Ref.valid h) then norm cfg h req else none

/-- One request at L0: invariants kept, nothing forgotten, the answer is the node filed under the normal form. -/
theorem exec0_spec {cfg : Config} {h : Heap} (hi : Inv cfg h) (req : Req) :
    Inv cfg (exec0 cfg h req).1 ∧ Ext h (exec0 cfg h req).1 ∧
    (exec0 cfg h req).2.bind (nkOfRef (exec0 cfg h req).1) = normV cfg h req ∧
    (∀ x, (exec0 cfg h req).2 = some x → x.valid (exec0 cfg h req).1 = true) := by
  unfold exec0 execWith normV
  simp only [id]
  split
  · rename_i hv
    have := runPlan0_spec hi (plan cfg h req) (plan_ok hi req hv)
    rw [plan_norm hi req hv] at this
    exact this
  · exact ⟨hi, Ext.refl h, rfl, by simp⟩

/-- The history of a run: for every request its normal form on arrival and the answer. -/
def trace0 (cfg : Config) : Heap → List Req → List (Option NKey × Option Ref)
  | _, [] => []
  | h, r :: rs => (normV cfg h r, (exec0 cfg h r).2) :: trace0 cfg (exec0 cfg h r).1 rs

theorem trace0_answers (cfg : Config) : ∀ (reqs : List Req) (h : Heap),
    (trace0 cfg h reqs).map Prod.snd = (run0 cfg h reqs).2 := by
  intro reqs
  induction reqs with
  | nil => intro h; rfl
  | cons r rs ih => intro h; simp only [trace0, List.map_cons, run0, runWith]; congr 1; exact ih _

theorem trace0_length (cfg : Config) : ∀ (reqs : List Req) (h : Heap), (trace0 cfg h reqs).length = reqs.length := by
  intro reqs
  induction reqs with
  | nil => intro h; rfl
  | cons r rs ih => intro h; simp [trace0, ih]

theorem run0_cons (cfg : Config) (h : Heap) (r : Req) (rs : List Req) :
    (run0 cfg h (r :: rs)).1 = (run0 cfg (exec0 cfg h r).1 rs).1 := rfl

theorem run0_snoc (cfg : Config) : ∀ (rs : List Req) (h : Heap) (r : Req),
    (run0 cfg h (rs ++ [r])).1 = (exec0 cfg (run0 cfg h rs).1 r).1 := by
  intro rs
  induction rs with
  | nil => intro h r; rfl
  | cons a rs ih => intro h r; simp only [List.cons_append, run0_cons, ih]

/-- After every history: the invariants hold and every entry of the trace is explained by the final heap. -/
theorem trace0_spec (cfg : Config) : ∀ (reqs : List Req) (h : Heap), Inv cfg h →
    Inv cfg (run0 cfg h reqs).1 ∧ Ext h (run0 cfg h reqs).1 ∧
    ∀ e ∈ trace0 cfg h reqs, e.2.bind (nkOfRef (run0 cfg h reqs).1) = e.1 ∧
      ∀ x, e.2 = some x → x.valid (run0 cfg h reqs).1 = true := by
  intro reqs
  induction reqs with
  | nil => intro h hi; exact ⟨hi, Ext.refl h, by simp [trace0]⟩
  | cons r rs ih =>
    intro h hi
    obtain ⟨hi1, he1, hk1, hv1⟩ := exec0_spec hi r
    obtain ⟨hiF, heF, hall⟩ := ih _ hi1
    rw [run0_cons]
    refine ⟨hiF, he1.trans heF, ?_⟩
    intro e he
    simp only [trace0, List.mem_cons] at he
    rcases he with rfl | he
    · refine ⟨?_, fun x hx => heF.valid (hv1 x hx)⟩
      simp only
      rw [← hk1]
      cases hres : (exec0 cfg h r).2 with
      | none => rfl
      | some x => simp only [Option.bind_some]; exact nkOfRef_ext heF (hv1 x hres)
    · exact hall e he

theorem nkOfRef_inj {cfg : Config} {h : Heap} (hi : Inv cfg h) {x y : Ref} (hx : x.valid h = true) (hy : y.valid h = true)
    (he : nkOfRef h x = nkOfRef h y) : x = y := by
  cases x with
  | stat s =>
    cases y with
    | stat s' => simp [nkOfRef, nkStatic] at he; rw [he]
    | dyn j =>
      obtain ⟨r, hr⟩ := get_of_valid hy
      have hk := hi.recs j r hr
      simp only [nkOfRef, hr, Option.map_some, Option.some.injEq, nkStatic, Rec.tk, Prod.mk.injEq] at he
      rw [← he.1] at hk
      simp [keyOk] at hk
  | dyn i =>
    obtain ⟨r, hr⟩ := get_of_valid hx
    cases y with
    | stat s' =>
      have hk := hi.recs i r hr
      simp only [nkOfRef, hr, Option.map_some, Option.some.injEq, nkStatic, Rec.tk, Prod.mk.injEq] at he
      rw [he.1] at hk
      simp [keyOk] at hk
    | dyn j =>
      obtain ⟨r', hr'⟩ := get_of_valid hy
      simp only [nkOfRef, hr, hr', Option.map_some, Option.some.injEq] at he
      rw [hi.nodup i j r r' hr hr' he]

theorem nkOfRef_isSome {h : Heap} {x : Ref} (hx : x.valid h = true) : ∃ k, nkOfRef h x = some k := by
  cases x with
  | stat s => exact ⟨_, rfl⟩
  | dyn i => obtain ⟨r, hr⟩ := get_of_valid hx; exact ⟨r.tk, by simp [nkOfRef, hr]⟩

/-- **The iff-law.** In every finite history, two requests are answered with the same node exactly when their
    normal forms are equal (and a request is refused exactly when it has no normal form). -/
theorem unified0 (cfg : Config) (reqs : List Req) (e1 e2 : Option NKey × Option Ref)
    (h1 : e1 ∈ trace0 cfg #[] reqs) (h2 : e2 ∈ trace0 cfg #[] reqs) : e1.2 = e2.2 ↔ e1.1 = e2.1 := by
  obtain ⟨hiF, _, hall⟩ := trace0_spec cfg reqs #[] (Inv.empty cfg)
  obtain ⟨k1, v1⟩ := hall e1 h1
  obtain ⟨k2, v2⟩ := hall e2 h2
  constructor
  · intro he; rw [← k1, ← k2, he]
  · intro he
    rw [← k1, ← k2] at he
    cases hr1 : e1.2 with
    | none =>
      cases hr2 : e2.2 with
      | none => rfl
      | some y =>
        obtain ⟨k, hk⟩ := nkOfRef_isSome (v2 y hr2)
        simp [hr1, hr2, hk] at he
    | some x =>
      cases hr2 : e2.2 with
      | none =>
        obtain ⟨k, hk⟩ := nkOfRef_isSome (v1 x hr1)
        simp [hr1, hr2, hk] at he
      | some y =>
        simp only [hr1, hr2, Option.bind_some] at he
        rw [nkOfRef_inj hiF (v1 x hr1) (v2 y hr2) he]

end Ipr.Unify
