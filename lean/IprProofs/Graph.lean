import IprModel.Graph
/-! Lemmas about the graph model: read-back after `make`, frame properties of additions, growth of sequences. -/
namespace Ipr.Graph

theorem lookup_mem {β : Type} : ∀ (l : List (String × β)) (a : String) (b : β), l.lookup a = some b → (a, b) ∈ l
  | [], _, _, h => by simp [List.lookup] at h
  | (a', b') :: l, a, b, h => by
    by_cases hk : a = a'
    · subst hk
      simp [List.lookup] at h
      subst h; exact List.mem_cons_self
    · have hne : (a == a') = false := by simpa using hk
      simp only [List.lookup, hne] at h
      exact List.mem_cons_of_mem _ (lookup_mem l a b h)

theorem Row.src_mem_fields (r : Row) (a : String) (src : Src) (h : r.src? a = some src) : (a, src) ∈ r.fields := by
  unfold Row.src? at h
  unfold Row.fields
  split at h
  · rename_i ht
    have : a = "type" := by simpa using ht
    subst this
    rw [h]; simp
  · exact List.mem_append_right _ (lookup_mem _ _ _ h)

/-- Reading a freshly allocated record interprets the row's source on the operands just passed. -/
theorem read_fresh (T : Table) (s : State) (fuel : Nat) (key : String) (args : List Val) (r : Row)
    (hr : T.find? key = some r) (a : String) (src : Src) (ha : r.src? a = some src) :
    read T { nodes := s.nodes ++ [{ key := key, args := args }] } (fuel + 1) s.nodes.length a
      = interp (read T { nodes := s.nodes ++ [{ key := key, args := args }] } fuel) s.nodes.length a args src := by
  simp [read, hr, ha, List.lookup]

theorem findSame_sound (T : Table) (s : State) (fuel : Nat) (r : Row) (args : List Val) (i : Nat)
    (h : findSame T s fuel r args = some i) : sameAs T s fuel r args i = true := by
  unfold findSame at h
  exact List.find?_some h

theorem sameAs_field (T : Table) (s : State) (fuel : Nat) (r : Row) (args : List Val) (i : Nat)
    (h : sameAs T s fuel r args i = true) (a : String) (src : Src) (hm : (a, src) ∈ r.fields) :
    read T s (fuel + 1) i a = interp (read T s fuel) i a args src := by
  unfold sameAs at h
  rw [Bool.and_eq_true, List.all_eq_true] at h
  have := h.2 (a, src) hm
  simpa using this

/-- **Read-back.**  Whatever `make` returns — a new record or, for unified storage, the node found — every accessor of
    the row reads as the row's source interpreted on the operands of this call. -/
theorem make_readback (T : Table) (fuel : Nat) (s : State) (key : String) (args : List Val) (r : Row)
    (hr : T.find? key = some r) (a : String) (src : Src) (ha : r.src? a = some src) :
    read T (make T fuel s key args).1 (fuel + 1) (make T fuel s key args).2 a
      = interp (read T (make T fuel s key args).1 fuel) (make T fuel s key args).2 a args src := by
  unfold make
  simp only [hr]
  cases hst : r.storage with
  | unified =>
    simp only
    cases hf : findSame T s fuel r args with
    | some i =>
      simp only
      exact sameAs_field T s fuel r args i (findSame_sound T s fuel r args i hf) a src (r.src_mem_fields a src ha)
    | none => simp only; exact read_fresh T s fuel key args r hr a src ha
  | generative => simp only; exact read_fresh T s fuel key args r hr a src ha
  | mixed => simp only; exact read_fresh T s fuel key args r hr a src ha

/-! ### Frame: adding a member to a sequence changes nobody's accessors -/

theorem addMember_getElem? (s : State) (q m id : Nat) :
    (addMember s q m).nodes[id]? = (s.nodes[id]?).map (fun n => if q = id then { n with members := n.members ++ [m] } else n) := by
  unfold addMember
  simp only [List.getElem?_modify]
  cases s.nodes[id]? <;> simp

theorem read_addMember (T : Table) (s : State) (q m : Nat) : ∀ (fuel id : Nat) (a : String),
    read T (addMember s q m) fuel id a = read T s fuel id a
  | 0, _, _ => rfl
  | fuel + 1, id, a => by
    have ih : read T (addMember s q m) fuel = read T s fuel := by
      funext j b; exact read_addMember T s q m fuel j b
    simp only [read, addMember_getElem?, ih]
    cases s.nodes[id]? with
    | none => rfl
    | some n => by_cases hq : q = id <;> simp [hq]

theorem addMember_length (s : State) (q m : Nat) : (addMember s q m).nodes.length = s.nodes.length := by
  simp [addMember]

theorem membersOf_addMember (s : State) (q m q' : Nat) :
    membersOf (addMember s q m) q' = if q = q' ∧ q' < s.nodes.length then membersOf s q' ++ [m] else membersOf s q' := by
  unfold membersOf
  rw [addMember_getElem?]
  by_cases hlt : q' < s.nodes.length
  · rw [List.getElem?_eq_getElem hlt]
    by_cases hq : q = q' <;> simp [hq, hlt]
  · have : s.nodes[q']? = none := List.getElem?_eq_none (by omega)
    simp [this]
    intro _; omega

theorem membersOf_make (T : Table) (fuel : Nat) (s : State) (key : String) (args : List Val) (q : Nat)
    (hq : q < s.nodes.length) : membersOf (make T fuel s key args).1 q = membersOf s q := by
  unfold make
  cases T.find? key with
  | none => rfl
  | some r =>
    simp only
    have hfresh : membersOf { nodes := s.nodes ++ [{ key := key, args := args }] } q = membersOf s q := by
      simp [membersOf, List.getElem?_append_left hq]
    cases r.storage with
    | unified =>
      simp only
      cases findSame T s fuel r args with
      | some i => rfl
      | none => exact hfresh
    | generative => exact hfresh
    | mixed => exact hfresh

theorem make_length_le (T : Table) (fuel : Nat) (s : State) (key : String) (args : List Val) :
    s.nodes.length ≤ (make T fuel s key args).1.nodes.length := by
  unfold make
  cases T.find? key with
  | none => exact Nat.le_refl _
  | some r =>
    simp only
    cases r.storage with
    | unified =>
      simp only
      cases findSame T s fuel r args with
      | some i => exact Nat.le_refl _
      | none => simp
    | generative => simp
    | mixed => simp

/-! ### Histories -/

/-- What can happen to a Lexicon between two observations of a sequence. -/
inductive Op
  | add (q m : Nat)                         -- a member is added to sequence node q
  | mk (key : String) (args : List Val)     -- any factory call
deriving Repr

def Op.run (T : Table) (fuel : Nat) (s : State) : Op → State
  | .add q m => addMember s q m
  | .mk key args => (make T fuel s key args).1

def runOps (T : Table) (fuel : Nat) (s : State) (ops : List Op) : State := ops.foldl (Op.run T fuel) s

/-- The members added to `q` by a history, in order. -/
def addedTo (q : Nat) : List Op → List Nat
  | [] => []
  | .add q' m :: ops => if q' = q then m :: addedTo q ops else addedTo q ops
  | .mk _ _ :: ops => addedTo q ops

theorem runOps_length_le (T : Table) (fuel : Nat) : ∀ (ops : List Op) (s : State), s.nodes.length ≤ (runOps T fuel s ops).nodes.length
  | [], _ => Nat.le_refl _
  | op :: ops, s => by
    have h1 : s.nodes.length ≤ (op.run T fuel s).nodes.length := by
      cases op with
      | add q m => simp [Op.run, addMember_length]
      | mk key args => exact make_length_le T fuel s key args
    exact Nat.le_trans h1 (runOps_length_le T fuel ops _)

/-- After any history the sequence holds its initial members followed by exactly the additions made to it, in order. -/
theorem membersOf_runOps (T : Table) (fuel : Nat) (q : Nat) : ∀ (ops : List Op) (s : State), q < s.nodes.length →
    membersOf (runOps T fuel s ops) q = membersOf s q ++ addedTo q ops
  | [], s, _ => by simp [runOps, addedTo]
  | op :: ops, s, hq => by
    have hlen : q < (op.run T fuel s).nodes.length := by
      cases op with
      | add q' m => simpa [Op.run, addMember_length] using hq
      | mk key args => exact Nat.lt_of_lt_of_le hq (make_length_le T fuel s key args)
    have ih := membersOf_runOps T fuel q ops (op.run T fuel s) hlen
    show membersOf (runOps T fuel (op.run T fuel s) ops) q = _
    rw [ih]
    cases op with
    | add q' m =>
      simp only [Op.run, membersOf_addMember, addedTo]
      by_cases h : q' = q
      · simp [h, hq]
      · simp [h]
    | mk key args =>
      simp only [Op.run, addedTo]
      rw [membersOf_make T fuel s key args q hq]

end Ipr.Graph
