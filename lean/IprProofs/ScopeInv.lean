import IprProofs.ScopeKV
/-! The invariant tying the code-shaped scope (`State`) to its declaration history, and its preservation by
    `Scope::make_*`. -/
namespace Ipr.Scope
open Ipr.RB Ipr.RB.Tree

/-- Declarations (by index) whose `master_data` is entry `k`. -/
def mdIs (decls : List DeclCell) (k : Nat) (i : Nat) : Bool := (decls[i]?).any (fun c => c.masterData == k)

structure Inv0 (h : History) (s : State) : Prop where
  seq : s.seq = List.range h.length
  ndecls : s.decls.length = h.length
  decl : ∀ (i : Nat) (r : Req), h[i]? = some r → ∃ (c : DeclCell) (e : EntryCell) (o : OvlCell), s.decls[i]? = some c ∧ c.kind = r.kind ∧
      s.entries[c.masterData]? = some e ∧ e.type = r.type ∧ s.ovls[e.overload]? = some o ∧ o.name = r.name
  entry : ∀ (k : Nat) (e : EntryCell), s.entries[k]? = some e →
      e.declset = (List.range h.length).filter (mdIs s.decls k) ∧ e.decl = e.declset[0]? ∧ e.declset ≠ [] ∧
      e.overload < s.ovls.length ∧ (∀ d, e.decl = some d → (s.decls[d]?).map (·.kind) = some e.kind)
  entryInj : ∀ (k k' : Nat) (e e' : EntryCell), s.entries[k]? = some e → s.entries[k']? = some e' →
      e.overload = e'.overload → e.type = e'.type → k = k'
  ovlInj : ∀ (j j' : Nat) (o o' : OvlCell), s.ovls[j]? = some o → s.ovls[j']? = some o' → o.name = o'.name → j = j'
  otree : KOrd s.overloads.tree
  omem : ∀ (n : Int) (j : Nat), (n, j) ∈ inorder s.overloads.tree ↔ ∃ o : OvlCell, s.ovls[j]? = some o ∧ o.name = n
  etree : ∀ (j : Nat) (o : OvlCell), s.ovls[j]? = some o → KOrd o.entries.tree
  emem : ∀ (j : Nat) (o : OvlCell), s.ovls[j]? = some o → ∀ (t : Int) (k : Nat), (t, k) ∈ inorder o.entries.tree ↔
      ∃ e : EntryCell, s.entries[k]? = some e ∧ e.overload = j ∧ e.type = t

/-- Every overload object other than `x` holds at least one entry. -/
def UsedExcept (s : State) (x : Option Nat) : Prop :=
  ∀ j, j < s.ovls.length → some j ≠ x → ∃ (k : Nat) (e : EntryCell), s.entries[k]? = some e ∧ e.overload = j

structure Inv (h : History) (s : State) : Prop extends Inv0 h s where
  used : UsedExcept s none

theorem inv_empty : Inv [] {} := by
  refine { seq := rfl, ndecls := rfl, decl := ?_, entry := ?_, entryInj := ?_, ovlInj := ?_, otree := KOrd_nil,
           omem := ?_, etree := ?_, emem := ?_, used := ?_ }
  · intro i r h; simp at h
  · intro k e h; simp at h
  · intro k k' e e' h; simp at h
  · intro j j' o o' h; simp at h
  · intro n j; simp [inorder]
  · intro j o h; simp at h
  · intro j o h; simp at h
  · intro j hj; simp at hj

/-! ### Small list facts -/

theorem getElem?_snoc_some {α} {l : List α} {a x : α} {i : Nat} (h : (l ++ [a])[i]? = some x) :
    (i < l.length ∧ l[i]? = some x) ∨ (i = l.length ∧ x = a) := by
  rw [List.getElem?_append] at h
  split at h
  · exact Or.inl ⟨by assumption, h⟩
  · rename_i hlt
    have : i - l.length = 0 := by
      cases hi : i - l.length with
      | zero => rfl
      | succ n => rw [hi] at h; simp at h
    rw [this] at h; simp at h
    exact Or.inr ⟨by omega, h.symm⟩

theorem getElem?_snoc_left {α} {l : List α} {a x : α} {i : Nat} (h : l[i]? = some x) : (l ++ [a])[i]? = some x := by
  have : i < l.length := by
    rcases Nat.lt_or_ge i l.length with h' | h'
    · exact h'
    · rw [List.getElem?_eq_none h'] at h; simp at h
  rw [List.getElem?_append_left this]; exact h

theorem getElem?_snoc_last {α} (l : List α) (a : α) : (l ++ [a])[l.length]? = some a := by simp

theorem lt_of_getElem? {α} {l : List α} {i : Nat} {x : α} (h : l[i]? = some x) : i < l.length := by
  rcases Nat.lt_or_ge i l.length with h' | h'
  · exact h'
  · rw [List.getElem?_eq_none h'] at h; simp at h

theorem getElem?_modify_some {α} {l : List α} {i j : Nat} {f : α → α} {x : α} (h : (l.modify i f)[j]? = some x) :
    ∃ y, l[j]? = some y ∧ x = if i = j then f y else y := by
  rw [List.getElem?_modify] at h
  cases hy : l[j]? with
  | none => rw [hy] at h; simp at h
  | some y => rw [hy] at h; simp at h; exact ⟨y, rfl, h.symm⟩

theorem getElem?_modify_of_some {α} {l : List α} {i j : Nat} {f : α → α} {y : α} (h : l[j]? = some y) :
    (l.modify i f)[j]? = some (if i = j then f y else y) := by
  rw [List.getElem?_modify, h]; rfl

/-- Appending one declaration: the members of every decl-set over the longer history. -/
theorem filter_mdIs_snoc (decls : List DeclCell) (D : DeclCell) (k : Nat) :
    (List.range (decls.length + 1)).filter (mdIs (decls ++ [D]) k) =
    (List.range decls.length).filter (mdIs decls k) ++ (if D.masterData = k then [decls.length] else []) := by
  rw [List.range_succ, List.filter_append]
  congr 1
  · apply List.filter_congr
    intro x hx
    have : x < decls.length := by simpa using hx
    simp [mdIs, List.getElem?_append_left this]
  · by_cases hk : D.masterData = k <;> simp [mdIs, hk]


/-! ### `overloads.insert(n, node_compare())` -/

theorem ovlInsert_absent {s : State} {n : Int} (hf : findK n s.overloads.tree = none) :
    s.ovlInsert n = ({ s with overloads := (Container.insert kcmp s.overloads (n, s.ovls.length)).1,
                              ovls := s.ovls ++ [{ name := n }] }, s.ovls.length) := by
  have := (container_insert_fresh s.overloads n s.ovls.length).1
  simp only [State.ovlInsert, this, hf, Option.isNone_none, if_true]

theorem ovlInsert_present {s : State} {n : Int} {d : KV} (hf : findK n s.overloads.tree = some d) :
    s.ovlInsert n = (s, d.2) := by
  have := (container_insert_fresh s.overloads n s.ovls.length).1
  simp [State.ovlInsert, this, hf]

theorem ovlInsert_spec {h : History} {s : State} (hi : Inv h s) (n : Int) :
    Inv0 h (s.ovlInsert n).1 ∧ (∃ o : OvlCell, (s.ovlInsert n).1.ovls[(s.ovlInsert n).2]? = some o ∧ o.name = n) ∧
    UsedExcept (s.ovlInsert n).1 (some (s.ovlInsert n).2) ∧
    (s.ovlInsert n).1.entries = s.entries ∧ (s.ovlInsert n).1.decls = s.decls ∧ (s.ovlInsert n).1.seq = s.seq := by
  cases hf : findK n s.overloads.tree with
  | some d =>
    rw [ovlInsert_present hf]
    obtain ⟨hm, hk⟩ := findK_sound n d _ hf
    have : (n, d.2) ∈ inorder s.overloads.tree := by rw [← hk]; exact hm
    obtain ⟨o, ho, hn⟩ := (hi.omem n d.2).mp this
    refine ⟨hi.toInv0, ⟨o, ho, hn⟩, ?_, rfl, rfl, rfl⟩
    intro j hj _
    exact hi.used j hj (by simp)
  | none =>
    rw [ovlInsert_absent hf]
    have hins := insert_absent n s.ovls.length s.overloads.tree hi.otree hf
    have htree := (container_insert_fresh s.overloads n s.ovls.length).2
    have hfresh : ∀ (j : Nat) (o : OvlCell), s.ovls[j]? = some o → o.name ≠ n := by
      intro j o ho hn
      have := (hi.omem n j).mpr ⟨o, ho, hn⟩
      exact (findK_none_iff n _ hi.otree).mp hf _ this rfl
    refine ⟨?_, ⟨{ name := n }, by simp, rfl⟩, ?_, rfl, rfl, rfl⟩
    · refine { seq := hi.seq, ndecls := hi.ndecls, decl := ?_, entry := ?_, entryInj := hi.entryInj, ovlInj := ?_,
               otree := ?_, omem := ?_, etree := ?_, emem := ?_ }
      · intro i r hr
        obtain ⟨c, e, o, h1, h2, h3, h4, h5, h6⟩ := hi.decl i r hr
        exact ⟨c, e, o, h1, h2, h3, h4, getElem?_snoc_left h5, h6⟩
      · intro k e he
        obtain ⟨h1, h2, h3, h4, h5⟩ := hi.entry k e he
        refine ⟨h1, h2, h3, ?_, h5⟩
        simp only [List.length_append, List.length_cons, List.length_nil]; omega
      · intro j j' o o' ho ho' hn
        rcases getElem?_snoc_some ho with ⟨_, ho⟩ | ⟨hj, ho⟩ <;> rcases getElem?_snoc_some ho' with ⟨_, ho'⟩ | ⟨hj', ho'⟩
        · exact hi.ovlInj j j' o o' ho ho' hn
        · subst ho'; exact absurd hn (hfresh j o ho)
        · subst ho; exact absurd hn.symm (hfresh j' o' ho')
        · omega
      · show KOrd (Container.insert kcmp s.overloads (n, s.ovls.length)).1.tree
        rw [htree]; exact hins.1
      · intro n' j
        show (n', j) ∈ inorder (Container.insert kcmp s.overloads (n, s.ovls.length)).1.tree ↔ _
        rw [htree, hins.2]
        constructor
        · rintro (heq | hold)
          · simp only [Prod.mk.injEq] at heq
            obtain ⟨rfl, rfl⟩ := heq
            exact ⟨{ name := n' }, by simp, rfl⟩
          · obtain ⟨o, ho, hn⟩ := (hi.omem n' j).mp hold
            exact ⟨o, getElem?_snoc_left ho, hn⟩
        · rintro ⟨o, ho, hn⟩
          rcases getElem?_snoc_some ho with ⟨_, ho⟩ | ⟨hj, ho⟩
          · exact Or.inr ((hi.omem n' j).mpr ⟨o, ho, hn⟩)
          · subst ho; subst hj; left; simp at hn; simp [hn]
      · intro j o ho
        rcases getElem?_snoc_some ho with ⟨_, ho⟩ | ⟨hj, ho⟩
        · exact hi.etree j o ho
        · subst ho; exact KOrd_nil
      · intro j o ho t k
        rcases getElem?_snoc_some ho with ⟨_, ho⟩ | ⟨hj, ho⟩
        · exact hi.emem j o ho t k
        · subst ho
          simp only [inorder, List.not_mem_nil, false_iff, not_exists, not_and]
          intro e he hov
          have := (hi.entry k e he).2.2.2.1
          omega
    · intro j hj hne
      have : j < s.ovls.length := by
        simp only [List.length_append, List.length_cons, List.length_nil] at hj
        have : j ≠ s.ovls.length := fun h => hne (by simp [h])
        omega
      exact hi.used j this (by simp)


/-! ### `decl_factory::declare` -/

theorem pushBack_name (o : OvlCell) (t : Int) (k : Nat) : (o.pushBack t k).name = o.name := rfl

theorem lookup_none_iff {h : History} {s : State} (hi : Inv0 h s) {j : Nat} {o : OvlCell} (ho : s.ovls[j]? = some o) (t : Int) :
    o.lookup t = none ↔ ∀ (k : Nat) (e : EntryCell), s.entries[k]? = some e → e.overload = j → e.type ≠ t := by
  simp only [OvlCell.lookup, Option.map_eq_none_iff]
  rw [findK_none_iff t _ (hi.etree j o ho)]
  constructor
  · intro hn k e he hov ht
    exact hn (t, k) ((hi.emem j o ho t k).mpr ⟨e, he, hov, ht⟩) rfl
  · intro hn d hd hk
    obtain ⟨e, he, hov, ht⟩ := (hi.emem j o ho d.1 d.2).mp hd
    exact hn d.2 e he hov (ht.trans hk)

theorem lookup_some {h : History} {s : State} (hi : Inv0 h s) {j : Nat} {o : OvlCell} (ho : s.ovls[j]? = some o) {t : Int}
    {k : Nat} (hl : o.lookup t = some k) : ∃ e : EntryCell, s.entries[k]? = some e ∧ e.overload = j ∧ e.type = t := by
  simp only [OvlCell.lookup, Option.map_eq_some_iff] at hl
  obtain ⟨d, hd, hk⟩ := hl
  obtain ⟨hm, hkey⟩ := findK_sound t d _ hd
  subst hk
  obtain ⟨e, he, hov, ht⟩ := (hi.emem j o ho d.1 d.2).mp hm
  exact ⟨e, he, hov, ht.trans hkey⟩

theorem declare_spec {h : History} {s : State} (hi : Inv0 h s) (r : Req) {oid : Nat} {o : OvlCell}
    (ho : s.ovls[oid]? = some o) (hn : o.name = r.name) (hl : o.lookup r.type = none) (hu : UsedExcept s (some oid)) :
    Inv (h ++ [r]) ((s.declare r.kind oid r.type).addMember s.decls.length) := by
  have hoid : oid < s.ovls.length := lt_of_getElem? ho
  have hnone := (lookup_none_iff hi ho r.type).mp hl
  have hmdlt : ∀ (i : Nat) (c : DeclCell), s.decls[i]? = some c → c.masterData < s.entries.length := by
    intro i c hc
    have hlt : i < h.length := hi.ndecls ▸ lt_of_getElem? hc
    obtain ⟨c', e, _, h1, _, h3, _⟩ := hi.decl i h[i] (by simp [hlt])
    rw [hc] at h1; cases h1
    exact lt_of_getElem? h3
  refine { seq := ?_, ndecls := ?_, decl := ?_, entry := ?_, entryInj := ?_, ovlInj := ?_, otree := hi.otree,
           omem := ?_, etree := ?_, emem := ?_, used := ?_ }
  · simp [State.declare, State.addMember, hi.seq, hi.ndecls, List.range_succ]
  · simp [State.declare, State.addMember, hi.ndecls]
  · intro i r' hr'
    simp only [State.declare, State.addMember]
    rcases getElem?_snoc_some hr' with ⟨_, hr'⟩ | ⟨hil, hr'⟩
    · obtain ⟨c, e, o', h1, h2, h3, h4, h5, h6⟩ := hi.decl i r' hr'
      refine ⟨c, e, _, getElem?_snoc_left h1, h2, getElem?_snoc_left h3, h4, getElem?_modify_of_some h5, ?_⟩
      split <;> simp [pushBack_name, h6]
    · subst hr'
      refine ⟨_, _, _, by rw [hil, ← hi.ndecls]; exact getElem?_snoc_last _ _, rfl, getElem?_snoc_last _ _, rfl,
              getElem?_modify_of_some ho, ?_⟩
      simp [pushBack_name, hn]
  · intro k e he
    simp only [State.declare, State.addMember] at he ⊢
    have hlen : (h ++ [r]).length = s.decls.length + 1 := by simp [hi.ndecls]
    rw [hlen, filter_mdIs_snoc]
    rcases getElem?_snoc_some he with ⟨hk, he⟩ | ⟨hk, he⟩
    · obtain ⟨h1, h2, h3, h4, h5⟩ := hi.entry k e he
      have : ¬ s.entries.length = k := by omega
      simp only [this, if_false, List.append_nil, List.length_modify]
      refine ⟨by rw [h1, hi.ndecls], h2, h3, h4, ?_⟩
      intro d hd
      have := h5 d hd
      cases hc : s.decls[d]? with
      | none => rw [hc] at this; simp at this
      | some c => rw [getElem?_snoc_left hc]; rw [hc] at this; exact this
    · subst he; subst hk
      have hemp : (List.range s.decls.length).filter (mdIs s.decls s.entries.length) = [] := by
        rw [List.filter_eq_nil_iff]
        intro i hi'
        have hlt : i < s.decls.length := by simpa using hi'
        simp only [mdIs]
        cases hc : s.decls[i]? with
        | none => simp
        | some c => have := hmdlt i c hc; simp; omega
      simp only [hemp, if_true, List.nil_append, List.length_modify]
      refine ⟨trivial, rfl, by simp, hoid, ?_⟩
      intro d hd
      simp at hd; subst hd
      simp
  · intro k k' e e' he he' hov hty
    simp only [State.declare, State.addMember] at he he'
    rcases getElem?_snoc_some he with ⟨hk, he⟩ | ⟨hk, he⟩ <;> rcases getElem?_snoc_some he' with ⟨hk', he'⟩ | ⟨hk', he'⟩
    · exact hi.entryInj k k' e e' he he' hov hty
    · subst he'; exact absurd hty (hnone k e he hov)
    · subst he; exact absurd hty.symm (hnone k' e' he' hov.symm)
    · omega
  · intro j j' o1 o2 h1 h2 hname
    simp only [State.declare, State.addMember] at h1 h2
    obtain ⟨y1, hy1, rfl⟩ := getElem?_modify_some h1
    obtain ⟨y2, hy2, rfl⟩ := getElem?_modify_some h2
    refine hi.ovlInj j j' y1 y2 hy1 hy2 ?_
    revert hname; split <;> split <;> simp [pushBack_name]
  · intro n j
    simp only [State.declare, State.addMember]
    rw [hi.omem n j]
    constructor
    · rintro ⟨o', ho', hn'⟩
      refine ⟨_, getElem?_modify_of_some ho', ?_⟩
      split <;> simp [pushBack_name, hn']
    · rintro ⟨o', ho', hn'⟩
      obtain ⟨y, hy, rfl⟩ := getElem?_modify_some ho'
      refine ⟨y, hy, ?_⟩
      revert hn'; split <;> simp [pushBack_name]
  · intro j o' ho'
    simp only [State.declare, State.addMember] at ho'
    obtain ⟨y, hy, rfl⟩ := getElem?_modify_some ho'
    split
    · rename_i hj; subst hj
      rw [ho] at hy; cases hy
      have hfind : findK r.type o.entries.tree = none := by
        simpa [OvlCell.lookup] using hl
      exact (insert_absent r.type s.entries.length o.entries.tree (hi.etree oid o ho) hfind).1
    · exact hi.etree j y hy
  · intro j o' ho' t k
    simp only [State.declare, State.addMember] at ho' ⊢
    obtain ⟨y, hy, rfl⟩ := getElem?_modify_some ho'
    split
    · rename_i hj; subst hj
      rw [ho] at hy; cases hy
      have hfind : findK r.type o.entries.tree = none := by
        simpa [OvlCell.lookup] using hl
      have := (insert_absent r.type s.entries.length o.entries.tree (hi.etree oid o ho) hfind).2 (t, k)
      show (t, k) ∈ inorder (Tree.insert kcmp o.entries.tree (r.type, s.entries.length)) ↔ _
      rw [this]
      constructor
      · rintro (heq | hold)
        · simp only [Prod.mk.injEq] at heq
          obtain ⟨rfl, rfl⟩ := heq
          exact ⟨_, getElem?_snoc_last _ _, rfl, rfl⟩
        · obtain ⟨e, he, hov, ht⟩ := (hi.emem oid o ho t k).mp hold
          exact ⟨e, getElem?_snoc_left he, hov, ht⟩
      · rintro ⟨e, he, hov, ht⟩
        rcases getElem?_snoc_some he with ⟨_, he⟩ | ⟨hk, he⟩
        · exact Or.inr ((hi.emem oid o ho t k).mpr ⟨e, he, hov, ht⟩)
        · subst he; left; simp at ht; simp [hk, ht]
    · rename_i hj
      rw [hi.emem j y hy t k]
      constructor
      · rintro ⟨e, he, hov, ht⟩
        exact ⟨e, getElem?_snoc_left he, hov, ht⟩
      · rintro ⟨e, he, hov, ht⟩
        rcases getElem?_snoc_some he with ⟨_, he⟩ | ⟨hk, he⟩
        · exact ⟨e, he, hov, ht⟩
        · subst he; simp at hov; exact absurd hov hj
  · intro j hj _
    simp only [State.declare, State.addMember, List.length_modify] at hj ⊢
    by_cases hjo : j = oid
    · subst hjo
      exact ⟨s.entries.length, _, getElem?_snoc_last _ _, rfl⟩
    · obtain ⟨k, e, he, hov⟩ := hu j hj (by simp; exact fun h => hjo h)
      exact ⟨k, e, getElem?_snoc_left he, hov⟩


/-! ### `decl_factory::redeclare` -/

theorem redeclare_spec {h : History} {s : State} (hi : Inv0 h s) (r : Req) {oid : Nat} {o : OvlCell}
    (ho : s.ovls[oid]? = some o) (hn : o.name = r.name) {eid : Nat} (hl : o.lookup r.type = some eid)
    (hu : UsedExcept s (some oid)) :
    Inv (h ++ [r]) ((s.redeclare r.kind eid).addMember s.decls.length) := by
  obtain ⟨e0, he0, hov0, hty0⟩ := lookup_some hi ho hl
  have hoid : oid < s.ovls.length := lt_of_getElem? ho
  -- modifying the decl-set of one entry changes neither its type nor its overload
  have hmod : ∀ (k : Nat) (e : EntryCell),
      (s.entries.modify eid (fun e => { e with declset := e.declset ++ [s.decls.length] }))[k]? = some e →
      ∃ y : EntryCell, s.entries[k]? = some y ∧ y.type = e.type ∧ y.overload = e.overload ∧ y.kind = e.kind ∧ y.decl = e.decl ∧
        e.declset = if eid = k then y.declset ++ [s.decls.length] else y.declset := by
    intro k e he
    obtain ⟨y, hy, rfl⟩ := getElem?_modify_some he
    refine ⟨y, hy, ?_⟩
    split <;> simp
  have hmod' : ∀ (k : Nat) (y : EntryCell), s.entries[k]? = some y →
      ∃ e : EntryCell, (s.entries.modify eid (fun e => { e with declset := e.declset ++ [s.decls.length] }))[k]? = some e ∧
        y.type = e.type ∧ y.overload = e.overload := by
    intro k y hy
    refine ⟨_, getElem?_modify_of_some hy, ?_⟩
    split <;> simp
  refine { seq := ?_, ndecls := ?_, decl := ?_, entry := ?_, entryInj := ?_, ovlInj := hi.ovlInj, otree := hi.otree,
           omem := hi.omem, etree := hi.etree, emem := ?_, used := ?_ }
  · simp [State.redeclare, State.addMember, hi.seq, hi.ndecls, List.range_succ]
  · simp [State.redeclare, State.addMember, hi.ndecls]
  · intro i r' hr'
    simp only [State.redeclare, State.addMember]
    rcases getElem?_snoc_some hr' with ⟨_, hr'⟩ | ⟨hil, hr'⟩
    · obtain ⟨c, e, o', h1, h2, h3, h4, h5, h6⟩ := hi.decl i r' hr'
      obtain ⟨e', he', ht', hov'⟩ := hmod' _ e h3
      exact ⟨c, e', o', getElem?_snoc_left h1, h2, he', ht' ▸ h4, hov' ▸ h5, h6⟩
    · subst hr'
      obtain ⟨e', he', ht', hov'⟩ := hmod' _ e0 he0
      refine ⟨_, e', o, by rw [hil, ← hi.ndecls]; exact getElem?_snoc_last _ _, rfl, he', ?_, ?_, hn⟩
      · rw [← ht']; exact hty0
      · rw [← hov', hov0]; exact ho
  · intro k e he
    simp only [State.redeclare, State.addMember] at he ⊢
    obtain ⟨y, hy, hty, hov, hkind, hdecl, hset⟩ := hmod k e he
    obtain ⟨h1, h2, h3, h4, h5⟩ := hi.entry k y hy
    have hlen : (h ++ [r]).length = s.decls.length + 1 := by simp [hi.ndecls]
    rw [← hi.ndecls] at h1
    rw [hlen, filter_mdIs_snoc, hset, ← h1]
    refine ⟨by split <;> simp, ?_, ?_, hov ▸ h4, ?_⟩
    · rw [← hdecl, h2]
      cases hds : y.declset with
      | nil => exact absurd hds h3
      | cons a l => split <;> simp
    · split <;> simp [h3]
    · intro d hd
      rw [← hdecl] at hd
      have := h5 d hd
      rw [← hkind]
      cases hc : s.decls[d]? with
      | none => rw [hc] at this; simp at this
      | some c => rw [getElem?_snoc_left hc]; rw [hc] at this; exact this
  · intro k k' e e' he he' hov hty
    simp only [State.redeclare, State.addMember] at he he'
    obtain ⟨y, hy, hty1, hov1, _⟩ := hmod k e he
    obtain ⟨y', hy', hty2, hov2, _⟩ := hmod k' e' he'
    exact hi.entryInj k k' y y' hy hy' (by rw [hov1, hov2, hov]) (by rw [hty1, hty2, hty])
  · intro j o' ho' t k
    simp only [State.redeclare, State.addMember]
    rw [hi.emem j o' ho' t k]
    constructor
    · rintro ⟨e, he, hov, ht⟩
      obtain ⟨e', he', ht', hov'⟩ := hmod' k e he
      exact ⟨e', he', hov' ▸ hov, ht' ▸ ht⟩
    · rintro ⟨e, he, hov, ht⟩
      obtain ⟨y, hy, hty1, hov1, _⟩ := hmod k e he
      exact ⟨y, hy, hov1 ▸ hov, hty1 ▸ ht⟩
  · intro j hj _
    simp only [State.redeclare, State.addMember] at hj ⊢
    by_cases hjo : j = oid
    · subst hjo
      obtain ⟨e', he', _, hov'⟩ := hmod' eid e0 he0
      exact ⟨eid, e', he', hov' ▸ hov0⟩
    · obtain ⟨k, e, he, hov⟩ := hu j hj (by simp; exact fun h => hjo h)
      obtain ⟨e', he', _, hov'⟩ := hmod' k e he
      exact ⟨k, e', he', hov' ▸ hov⟩

/-! ### One `Scope::make_*` step, and every history -/

theorem make_spec {h : History} {s : State} (hi : Inv h s) (r : Req) : Inv (h ++ [r]) (s.make r) := by
  obtain ⟨h0, ⟨o, ho, hn⟩, hu, he, hd, hs⟩ := ovlInsert_spec hi r.name
  unfold State.make
  simp only [ho, Option.bind_some]
  cases hl : o.lookup r.type with
  | none => exact declare_spec h0 r ho hn hl hu
  | some eid => exact redeclare_spec h0 r ho hn hl hu

theorem run_snoc (h : History) (r : Req) : run (h ++ [r]) = (run h).make r := by
  simp [run, List.foldl_append]

/-- The invariant holds after every declaration history. -/
theorem inv_run (h : History) : Inv h (run h) := by
  induction h using Ipr.List.snocInduction with
  | nil => exact inv_empty
  | append_singleton h r ih => rw [run_snoc]; exact make_spec ih r

end Ipr.Scope
