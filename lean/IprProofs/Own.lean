import IprModel.Own
import IprProofs.RBTree
/-! Lemmas for C19: what destruction releases, and the ownership invariant kept by every construction step. -/
namespace Ipr.Own
open Ipr.RB Ipr.RB.Tree

/-! ### Destruction logs -/

theorem destroySubtree_eq {α : Type} (t : Tree α) : ∀ log, destroySubtree t log = log ++ inorder t := by
  induction t with
  | nil => intro log; simp [destroySubtree, inorder]
  | node c l k r ihl ihr => intro log; simp [destroySubtree, inorder, ihl, ihr, List.append_assoc]

theorem destroyTree_eq (t : Tree Node) : destroyTree t = treeBlocks t := by
  simp [destroyTree, treeBlocks, destroySubtree_eq]

theorem destroyArena_eq (c : List (Nat × Nat)) : destroyArena c = c.map (·.1) := by
  induction c with
  | nil => rfl
  | cons p ps ih => simp [destroyArena, ih]

theorem destroyLog_eq (l : Lex) : destroyLog l = blocks l := by
  simp [destroyLog, blocks, destroyArena_eq, destroyTree_eq]

/-! ### Releasing a list of blocks -/

theorem free_mem (h : Heap) (b : Nat) (hb : b ∈ h.live) :
    (h.free b).live = h.live.erase b ∧ (h.free b).bad = h.bad ∧ (h.free b).next = h.next := by
  simp [Heap.free, hb]

/-- Releasing a rearrangement of the blocks `new` from a store whose live list is `new ++ old` leaves exactly `old`,
    without a single erroneous release. -/
theorem freeAll_perm : ∀ (log new old : List Nat) (h : Heap), h.live = new ++ old → new.Perm log →
    (h.freeAll log).live = old ∧ (h.freeAll log).bad = h.bad ∧ (h.freeAll log).next = h.next := by
  intro log
  induction log with
  | nil =>
    intro new old h hl hp
    have : new = [] := List.Perm.eq_nil hp
    subst this
    simpa [Heap.freeAll] using hl
  | cons b rest ih =>
    intro new old h hl hp
    have hbn : b ∈ new := hp.symm.subset (List.mem_cons_self)
    have hb : b ∈ h.live := by rw [hl]; exact List.mem_append_left _ hbn
    obtain ⟨h1, h2, h3⟩ := free_mem h b hb
    have hl' : (h.free b).live = new.erase b ++ old := by
      rw [h1, hl, List.erase_append_left _ hbn]
    have hp' : (new.erase b).Perm rest := by
      have := hp.erase b
      simpa using this
    obtain ⟨r1, r2, r3⟩ := ih (new.erase b) old (h.free b) hl' hp'
    refine ⟨?_, ?_, ?_⟩
    · simpa [Heap.freeAll] using r1
    · have : (h.freeAll (b :: rest)).bad = ((h.free b).freeAll rest).bad := by simp [Heap.freeAll]
      rw [this, r2, h2]
    · have : (h.freeAll (b :: rest)).next = ((h.free b).freeAll rest).next := by simp [Heap.freeAll]
      rw [this, r3, h3]

/-- Releasing only part (`log`) of what is owned leaves the rest (`rest`) live: the shape of a leak. -/
theorem freeAll_part : ∀ (log rest new old : List Nat) (h : Heap), h.live = new ++ old → new.Perm (log ++ rest) →
    ∃ new', (h.freeAll log).live = new' ++ old ∧ new'.Perm rest ∧ (h.freeAll log).bad = h.bad := by
  intro log
  induction log with
  | nil => intro rest new old h hl hp; exact ⟨new, by simpa [Heap.freeAll] using hl, by simpa using hp, by simp [Heap.freeAll]⟩
  | cons b log' ih =>
    intro rest new old h hl hp
    have hbn : b ∈ new := hp.symm.subset (by simp)
    have hb : b ∈ h.live := by rw [hl]; exact List.mem_append_left _ hbn
    obtain ⟨h1, h2, _⟩ := free_mem h b hb
    have hl' : (h.free b).live = new.erase b ++ old := by rw [h1, hl, List.erase_append_left _ hbn]
    have hp' : (new.erase b).Perm (log' ++ rest) := by
      have := hp.erase b
      simpa using this
    obtain ⟨new', r1, r2, r3⟩ := ih rest (new.erase b) old (h.free b) hl' hp'
    refine ⟨new', by simpa [Heap.freeAll] using r1, r2, ?_⟩
    have : (h.freeAll (b :: log')).bad = ((h.free b).freeAll log').bad := by simp [Heap.freeAll]
    rw [this, r3, h2]

/-! ### Rearrangement lemmas for the owner lists -/

theorem flatMap_set_perm {β : Type} (f : β → List Nat) (x : Nat) (c c' : β) (hp : (f c').Perm (x :: f c)) :
    ∀ (l : List β) (i : Nat), l[i]? = some c → ((l.set i c').flatMap f).Perm (x :: l.flatMap f) := by
  intro l
  induction l with
  | nil => intro i h; simp at h
  | cons a as ih =>
    intro i h
    cases i with
    | zero =>
      simp at h; subst h
      simp only [List.set_cons_zero, List.flatMap_cons]
      exact (hp.append_right _)
    | succ i =>
      simp at h
      simp only [List.set_cons_succ, List.flatMap_cons]
      have := ih i h
      exact (this.append_left (f a)).trans (List.perm_middle)

theorem flatten_set_perm (x : Nat) (f : List Nat) :
    ∀ (l : List (List Nat)) (j : Nat), l[j]? = some f → ((l.set j (x :: f)).flatten).Perm (x :: l.flatten) := by
  intro l
  induction l with
  | nil => intro j h; simp at h
  | cons a as ih =>
    intro j h
    cases j with
    | zero => simp at h; subst h; simp
    | succ j =>
      simp at h
      simp only [List.set_cons_succ, List.flatten_cons]
      exact ((ih j h).append_left a).trans List.perm_middle

/-- A fresh insertion adds exactly the new node's block to what the table owns. -/
theorem insert_fresh_blocks (c : Container Node) (nd : Node) (c' : Container Node)
    (h : Container.insert cmpNode c nd = (c', true)) : (treeBlocks c'.tree).Perm (nd.blk :: treeBlocks c.tree) := by
  unfold Container.insert at h
  cases hd : descend cmpNode nd c.tree [] with
  | none => simp [hd] at h
  | some path =>
    simp [hd] at h
    have hi := inorder_insert_some cmpNode c.tree nd path hd
    have ht : c'.tree = Tree.insert cmpNode c.tree nd := by
      rw [← h]; simp [Tree.insert, hd]
    unfold treeBlocks
    rw [ht, hi.1, hi.2]
    simp only [List.map_append, List.map_cons]
    exact List.perm_middle

theorem insert_dup (c : Container Node) (nd : Node) (c' : Container Node)
    (h : Container.insert cmpNode c nd = (c', false)) : c' = c := by
  unfold Container.insert at h
  cases hd : descend cmpNode nd c.tree [] with
  | none => simp [hd] at h; exact h.symm
  | some path => simp [hd] at h

/-! ### The ownership invariant -/

/-- Store `h` holds, in front of the baseline `old`, exactly the blocks `l` owns, each once, all fresh. -/
structure Owns (old : List Nat) (bad0 : Nat) (w : World) : Prop where
  split : ∃ new, w.heap.live = new ++ old ∧ new.Perm (blocks w.lex)
  bad : w.heap.bad = bad0
  fresh : ∀ b ∈ w.heap.live, b < w.heap.next
  nodup : (blocks w.lex).Nodup

theorem Owns.alloc_one {old : List Nat} {bad0 : Nat} {w : World} (ho : Owns old bad0 w) (lex' : Lex)
    (hb : (blocks lex').Perm (w.heap.next :: blocks w.lex)) :
    Owns old bad0 { heap := w.heap.alloc.1, lex := lex' } := by
  obtain ⟨new, hl, hp⟩ := ho.split
  have hnot : w.heap.next ∉ blocks w.lex := by
    intro hm
    have : w.heap.next ∈ w.heap.live := by rw [hl]; exact List.mem_append_left _ (hp.symm.subset hm)
    exact Nat.lt_irrefl _ (ho.fresh _ this)
  refine ⟨⟨w.heap.next :: new, ?_, ?_⟩, ?_, ?_, ?_⟩
  · simp [Heap.alloc, hl]
  · exact (List.Perm.cons _ hp).trans hb.symm
  · simpa [Heap.alloc] using ho.bad
  · intro b hb'
    simp [Heap.alloc] at hb' ⊢
    rcases hb' with rfl | hb'
    · omega
    · have := ho.fresh b hb'; omega
  · exact (hb.nodup_iff).mpr (List.nodup_cons.mpr ⟨hnot, ho.nodup⟩)

theorem Owns.same {old : List Nat} {bad0 : Nat} {w : World} (ho : Owns old bad0 w) (lex' : Lex)
    (hb : blocks lex' = blocks w.lex) : Owns old bad0 { heap := w.heap, lex := lex' } := by
  obtain ⟨new, hl, hp⟩ := ho.split
  exact ⟨⟨new, hl, by rw [hb]; exact hp⟩, ho.bad, ho.fresh, by rw [hb]; exact ho.nodup⟩

theorem arena_allocate_blocks (a : Arena) (h : Heap) (n : Nat) :
    ((a.allocate h n).1 = h ∧ (a.allocate h n).2.chain = a.chain) ∨
    ((a.allocate h n).1 = h.alloc.1 ∧ ((a.allocate h n).2.chain.map (·.1)).Perm (h.next :: a.chain.map (·.1))) := by
  unfold Arena.allocate
  simp only
  split
  · left; simp
  · split
    · right
      cases hc : a.chain with
      | nil => simp [Heap.alloc]
      | cons hd tl => simp [Heap.alloc]; exact List.Perm.swap _ _ _
    · right; simp [Heap.alloc]

theorem step_owns {old : List Nat} {bad0 : Nat} (w : World) (op : Op) (ho : Owns old bad0 w) :
    Owns old bad0 (step w op) := by
  cases op with
  | newTree =>
    simp only [step]
    exact ho.same _ (by simp [blocks, treeBlocks, inorder])
  | newFarm =>
    simp only [step]
    exact ho.same _ (by simp [blocks])
  | ins i key =>
    simp only [step]
    cases ht : w.lex.trees[i]? with
    | none => simpa using ho
    | some c =>
      simp only
      cases hins : Container.insert cmpNode c { key := key, blk := w.heap.next } with
      | mk c' fresh =>
        cases fresh with
        | false => simpa using ho
        | true =>
          simp only [if_true]
          apply ho.alloc_one
          have hp := insert_fresh_blocks c _ c' hins
          have := flatMap_set_perm (fun c : Container Node => treeBlocks c.tree) w.heap.next c c' hp w.lex.trees i ht
          simp only [blocks]
          exact (this.append_right _)
  | make j =>
    simp only [step]
    cases hf : w.lex.farms[j]? with
    | none => simpa using ho
    | some f =>
      simp only
      apply ho.alloc_one
      have := flatten_set_perm w.heap.next f w.lex.farms j hf
      simp only [blocks]
      refine ((this.append_right _).append_left _).trans ?_
      simp only [List.cons_append]
      exact List.perm_middle
  | str n =>
    simp only [step]
    rcases arena_allocate_blocks w.lex.arena w.heap n with ⟨h1, h2⟩ | ⟨h1, h2⟩
    · have : ({ heap := (w.lex.arena.allocate w.heap n).1, lex := { w.lex with arena := (w.lex.arena.allocate w.heap n).2 } } : World)
          = { heap := w.heap, lex := { w.lex with arena := (w.lex.arena.allocate w.heap n).2 } } := by rw [h1]
      rw [this]
      exact ho.same _ (by simp [blocks, h2])
    · have : ({ heap := (w.lex.arena.allocate w.heap n).1, lex := { w.lex with arena := (w.lex.arena.allocate w.heap n).2 } } : World)
          = { heap := w.heap.alloc.1, lex := { w.lex with arena := (w.lex.arena.allocate w.heap n).2 } } := by rw [h1]
      rw [this]
      apply ho.alloc_one
      simp only [blocks]
      refine ((h2.append_left _).append_left _).trans ?_
      refine (List.Perm.append_left _ List.perm_middle).trans ?_
      exact List.perm_middle

theorem run_owns {old : List Nat} {bad0 : Nat} (ops : List Op) : ∀ (w : World), Owns old bad0 w → Owns old bad0 (run w ops) := by
  induction ops with
  | nil => intro w ho; simpa [run] using ho
  | cons op ops ih => intro w ho; simpa [run] using ih _ (step_owns w op ho)

theorem flatMap_replicate_nil (n : Nat) :
    (List.replicate n ({} : Container Node)).flatMap (fun c => treeBlocks c.tree) = [] := by
  induction n with
  | zero => rfl
  | succ n _ => simp [List.replicate_succ, treeBlocks, inorder]

theorem flatten_replicate_nil (n : Nat) : (List.replicate n ([] : List Nat)).flatten = [] := by
  induction n with
  | zero => rfl
  | succ n ih => simp [List.replicate_succ, ih]

/-- A well-formed baseline store: the fresh-block counter is above every live block. -/
def Heap.WF (h : Heap) : Prop := ∀ b ∈ h.live, b < h.next

theorem construct_owns (h0 : Heap) (hwf : h0.WF) (nT nF : Nat) : Owns h0.live h0.bad (construct h0 nT nF) := by
  refine ⟨⟨[h0.next], ?_, ?_⟩, ?_, ?_, ?_⟩
  · simp [construct, Arena.create, Heap.alloc]
  · simp [construct, Arena.create, Heap.alloc, blocks, flatMap_replicate_nil]
  · simp [construct, Arena.create, Heap.alloc]
  · intro b hb
    simp [construct, Arena.create, Heap.alloc] at hb ⊢
    rcases hb with rfl | hb
    · omega
    · have := hwf b hb; omega
  · simp [construct, Arena.create, Heap.alloc, blocks, flatMap_replicate_nil]

theorem destroy_owns {old : List Nat} {bad0 : Nat} (w : World) (ho : Owns old bad0 w) :
    (destroy w).live = old ∧ (destroy w).bad = bad0 := by
  obtain ⟨new, hl, hp⟩ := ho.split
  have := freeAll_perm (destroyLog w.lex) new old w.heap hl (by rw [destroyLog_eq]; exact hp)
  exact ⟨this.1, by rw [destroy, this.2.1, ho.bad]⟩

end Ipr.Own
