import IprModel.Unify
import IprProofs.RBOrder
/-! Every comparator of the unification tables is a lawful total order whose zero set is key equality,
    for every injective address assignment. -/
set_option linter.unusedSimpArgs false
namespace Ipr.Unify
open Ipr.RB

/-- Lexicographic lift of a three-way comparison (first difference decides, a proper prefix is smaller). -/
def lexBy {α : Type} (c : α → α → Int) : List α → List α → Int
  | [], [] => 0
  | [], _ :: _ => -1
  | _ :: _, [] => 1
  | a :: as, b :: bs => if c a b ≠ 0 then c a b else lexBy c as bs

theorem lexBy_neg_iff {α : Type} {c : α → α → Int} (h : Lawful c) :
    ∀ a b : List α, lexBy c a b < 0 ↔ 0 < lexBy c b a
  | [], [] => by simp [lexBy]
  | [], _ :: _ => by simp [lexBy]
  | _ :: _, [] => by simp [lexBy]
  | x :: xs, y :: ys => by
    simp only [lexBy]
    have ih := lexBy_neg_iff h xs ys
    have h1 := h.antisymm x y
    have h2 := h.antisymm y x
    have e1 := h.eq x y
    have e2 := h.eq y x
    by_cases hxy : c x y = 0
    · have : c y x = 0 := e2.mpr (e1.mp hxy).symm
      simp [hxy, this, ih]
    · have : c y x ≠ 0 := fun hh => hxy (e1.mpr (e2.mp hh).symm)
      simp only [ne_eq, hxy, not_false_eq_true, ↓reduceIte, this]
      constructor
      · intro hlt; exact h1.mp hlt
      · intro hgt; exact h1.mpr hgt

theorem lexBy_eq_iff {α : Type} {c : α → α → Int} (h : Lawful c) :
    ∀ a b : List α, lexBy c a b = 0 ↔ a = b
  | [], [] => by simp [lexBy]
  | [], _ :: _ => by simp [lexBy]
  | _ :: _, [] => by simp [lexBy]
  | x :: xs, y :: ys => by
    simp only [lexBy]
    have ih := lexBy_eq_iff h xs ys
    have e1 := h.eq x y
    by_cases hxy : c x y = 0
    · have exy := e1.mp hxy
      subst exy
      simp [hxy, ih]
    · have : x ≠ y := fun hh => hxy (e1.mpr hh)
      simp [hxy, this]

theorem lexBy_trans {α : Type} {c : α → α → Int} (h : Lawful c) :
    ∀ a b d : List α, 0 < lexBy c a b → 0 < lexBy c b d → 0 < lexBy c a d
  | [], [], _ => by simp [lexBy]
  | [], _ :: _, _ => by simp [lexBy]
  | _ :: _, [], [] => by simp [lexBy]
  | _ :: _, [], _ :: _ => by simp [lexBy]
  | _ :: _, _ :: _, [] => by simp [lexBy]
  | x :: xs, y :: ys, z :: zs => by
    simp only [lexBy]
    have ih := lexBy_trans h xs ys zs
    intro h1 h2
    by_cases hxy : c x y = 0
    · have exy := (h.eq x y).mp hxy
      subst exy
      simp only [ne_eq, hxy, not_true_eq_false, ↓reduceIte] at h1
      by_cases hxz : c x z = 0
      · simp only [ne_eq, hxz, not_true_eq_false, ↓reduceIte] at h2 ⊢
        exact ih h1 h2
      · simp only [ne_eq, hxz, not_false_eq_true, ↓reduceIte] at h2 ⊢
        exact h2
    · simp only [ne_eq, hxy, not_false_eq_true, ↓reduceIte] at h1
      by_cases hyz : c y z = 0
      · have eyz := (h.eq y z).mp hyz
        subst eyz
        simp [hxy, h1]
      · simp only [ne_eq, hyz, not_false_eq_true, ↓reduceIte] at h2
        have hxz := h.trans x y z h1 h2
        have : c x z ≠ 0 := by omega
        simp [this, hxz]

theorem lexBy_lawful {α : Type} {c : α → α → Int} (h : Lawful c) : Lawful (lexBy c) where
  antisymm := lexBy_neg_iff h
  trans := lexBy_trans h
  eq := lexBy_eq_iff h

/-- An address assignment never gives two nodes the same address. -/
def Injective (addr : Ref → Int) : Prop := ∀ a b, addr a = addr b → a = b

theorem nodeCmp_lawful {addr : Ref → Int} (hi : Injective addr) : Lawful (nodeCmp addr) where
  antisymm := fun a b => icmp_lawful.antisymm (addr a) (addr b)
  trans := fun a b c => icmp_lawful.trans (addr a) (addr b) (addr c)
  eq := fun a b => by
    unfold nodeCmp
    rw [icmp_lawful.eq]
    exact ⟨hi a b, fun h => by rw [h]⟩

theorem icmp_rank_cases (a b : Atom) :
    (a.rank = b.rank) ∨ (icmp a.rank b.rank = -1 ∧ a.rank < b.rank) ∨ (icmp a.rank b.rank = 1 ∧ b.rank < a.rank) := by
  cases a <;> cases b <;> simp [Atom.rank, icmp]

theorem atomCmp_lawful {addr : Ref → Int} (hi : Injective addr) : Lawful (atomCmp addr) where
  antisymm := by
    intro a b
    cases a <;> cases b <;> simp only [atomCmp]
    · exact (nodeCmp_lawful hi).antisymm _ _
    all_goals first
      | exact lexCmp_lawful.antisymm _ _
      | exact icmp_lawful.antisymm _ _
      | simp [Atom.rank, icmp]
  trans := by
    intro a b c
    cases a <;> cases b <;> cases c <;> simp only [atomCmp]
    all_goals first
      | exact (nodeCmp_lawful hi).trans _ _ _
      | exact lexCmp_lawful.trans _ _ _
      | exact icmp_lawful.trans _ _ _
      | simp [Atom.rank, icmp]
  eq := by
    intro a b
    cases a <;> cases b <;> simp only [atomCmp]
    · rw [(nodeCmp_lawful hi).eq]; simp
    all_goals first
      | (rw [show ∀ x y : List Int, strCmp x y = lexCmp x y from fun _ _ => rfl, lexCmp_lawful.eq]; simp)
      | (rw [icmp_lawful.eq]; simp; omega)
      | simp [Atom.rank, icmp]

theorem keyCmp_eq_lexBy (addr : Ref → Int) : ∀ x y : Key, keyCmp addr x y = lexBy (atomCmp addr) x y
  | [], [] => rfl
  | [], _ :: _ => rfl
  | _ :: _, [] => rfl
  | a :: as, b :: bs => by simp only [keyCmp, lexBy, keyCmp_eq_lexBy addr as bs]

theorem keyCmp_lawful {addr : Ref → Int} (hi : Injective addr) : Lawful (keyCmp addr) := by
  have : keyCmp addr = lexBy (atomCmp addr) := by funext x y; exact keyCmp_eq_lexBy addr x y
  rw [this]; exact lexBy_lawful (atomCmp_lawful hi)

/-! Each comparator of src/impl.cxx is the generic lexicographic order restricted to the keys of its table. -/

theorem ite_ne_zero_self (c : Int) : (if c ≠ 0 then c else 0) = c := by
  by_cases h : c = 0 <;> simp [h]

theorem unifiedTypeCompare_eq (addr : Ref → Int) : unifiedTypeCompare addr = keyCmp addr := by
  funext x y
  unfold unifiedTypeCompare
  split
  · simp only [keyCmp, atomCmp, transferCompare]
    (repeat' split) <;> (first | rfl | omega)
  · rfl

theorem unaryCompare_eq (addr : Ref → Int) : unaryCompare addr = keyCmp addr := by
  funext x y
  unfold unaryCompare
  split
  · simp only [keyCmp, atomCmp, transferCompare]
    (repeat' split) <;> (first | rfl | omega)
  · rfl

theorem binaryCompare_eq (addr : Ref → Int) : binaryCompare addr = keyCmp addr := by
  funext x y
  unfold binaryCompare
  split
  · simp only [keyCmp, atomCmp, transferCompare]
    (repeat' split) <;> (first | rfl | omega)
  · rfl

theorem ternaryCompare_eq (addr : Ref → Int) : ternaryCompare addr = keyCmp addr := by
  funext x y
  unfold ternaryCompare
  split
  · simp only [keyCmp, atomCmp, transferCompare]
    (repeat' split) <;> (first | rfl | omega)
  · rfl

theorem unaryLexCompare_eq (addr : Ref → Int) : unaryLexCompare addr = keyCmp addr := by
  funext x y
  induction x generalizing y with
  | nil => cases y <;> rfl
  | cons a as ih =>
    cases y with
    | nil => rfl
    | cons b bs => simp only [unaryLexCompare, keyCmp, ih]

theorem idCompare_eq (addr : Ref → Int) : idCompare addr = keyCmp addr := by
  funext x y
  unfold idCompare
  split
  · simp only [keyCmp, atomCmp, transferCompare]
    (repeat' split) <;> (first | rfl | omega)
  · rfl

theorem spellingCompare_eq (addr : Ref → Int) : spellingCompare addr = keyCmp addr := by
  funext x y
  unfold spellingCompare
  split
  · simp only [keyCmp, atomCmp, transferCompare]
    (repeat' split) <;> (first | rfl | omega)
  · rfl

theorem asTypeXferCompare_eq (addr : Ref → Int) : asTypeXferCompare addr = keyCmp addr := by
  funext x y
  unfold asTypeXferCompare
  split
  · simp only [keyCmp, atomCmp, transferCompare]
    (repeat' split) <;> (first | rfl | omega)
  · rfl

theorem funXferCompare_eq (addr : Ref → Int) : funXferCompare addr = keyCmp addr := by
  funext x y
  unfold funXferCompare
  split
  · simp only [keyCmp, atomCmp, transferCompare]
    (repeat' split) <;> (first | rfl | omega)
  · rfl

theorem symbolCompare_eq (addr : Ref → Int) : symbolCompare addr = keyCmp addr := by
  funext x y
  unfold symbolCompare
  split
  · simp only [keyCmp, atomCmp, transferCompare]
    (repeat' split) <;> (first | rfl | omega)
  · rfl

theorem tableCmp_eq (addr : Ref → Int) (tag : Tag) : tableCmp addr tag = keyCmp addr := by
  cases tag <;> simp only [tableCmp, unifiedTypeCompare_eq, unaryCompare_eq, binaryCompare_eq, ternaryCompare_eq,
    unaryLexCompare_eq, idCompare_eq, spellingCompare_eq, asTypeXferCompare_eq, funXferCompare_eq, symbolCompare_eq]

theorem tableCmp_lawful {addr : Ref → Int} (hi : Injective addr) (tag : Tag) : Lawful (tableCmp addr tag) := by
  rw [tableCmp_eq]; exact keyCmp_lawful hi

theorem Static.code_injective : ∀ a b : Static, a.code = b.code → a = b := by
  intro a b h
  cases a <;> cases b <;> simp only [Static.code] at h <;> first | rfl | (congr; omega) | omega

theorem defaultAddr_injective : Injective defaultAddr := by
  intro a b h
  cases a <;> cases b <;> simp only [defaultAddr] at h
  · congr; omega
  · omega
  · omega
  · congr; exact Static.code_injective _ _ (by omega)

end Ipr.Unify
