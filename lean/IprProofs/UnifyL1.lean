import IprProofs.UnifyHist
import IprProofs.UnifyCmp
import IprProofs.UnifyMap
/-! Level L1 (one red-black tree per table, searched with the comparators of src/impl.cxx over an arbitrary
    injective address assignment) refines level L0 (the duplicate-free key table). -/
set_option linter.unusedSimpArgs false
namespace Ipr.Unify
open Ipr.RB Ipr.RB.Tree

theorem Tables.get_set_same (ts : Tables) (tag : Tag) (tr : Tree Entry) : (ts.set tag tr).get tag = tr := by
  induction ts with
  | nil => simp [Tables.set, Tables.get]
  | cons p rest ih =>
    obtain ⟨t, old⟩ := p
    simp only [Tables.set]
    split
    · rename_i h; simp [Tables.get, h]
    · rename_i h; simp [Tables.get, h, ih]

theorem Tables.get_set_other (ts : Tables) (tag tag' : Tag) (tr : Tree Entry) (hne : tag' ≠ tag) :
    (ts.set tag tr).get tag' = ts.get tag' := by
  induction ts with
  | nil => simp [Tables.set, Tables.get, hne.symm]
  | cons p rest ih =>
    obtain ⟨t, old⟩ := p
    simp only [Tables.set]
    split
    · rename_i h; subst h; simp [Tables.get, hne.symm]
    · rename_i h
      simp only [Tables.get]
      split
      · rfl
      · exact ih

/-- The tree of a table: balanced, ordered by the table's comparator, and holding exactly the nodes of that table. -/
structure TreeInv (addr : Ref → Int) (h : Heap) (tag : Tag) (t : Tree Entry) : Prop where
  rb : RBInv t
  ordered : Desc (keyCmp addr) ((inorder t).map Prod.fst)
  members : ∀ (k : Key) (n : Nat), (k, n) ∈ inorder t ↔ ∃ r, h[n]? = some r ∧ r.tag = tag ∧ r.key = k

structure Rel (addr : Ref → Int) (s : State1) : Prop where
  nodup : NodupTK s.heap
  trees : ∀ tag, TreeInv addr s.heap tag (s.tables.get tag)

theorem Rel.init (addr : Ref → Int) : Rel addr {} :=
  ⟨fun i j ri rj hi => by simp at hi,
   fun tag => ⟨⟨0, .nil⟩, by simp [Tables.get, inorder, Desc], by intro k n; simp [Tables.get, inorder]⟩⟩

theorem entryCmp_key (addr : Ref → Int) (tag : Tag) (a b : Entry) : entryCmp addr tag a b = keyCmp addr a.1 b.1 := by
  simp [entryCmp, tableCmp_eq]

/-- One insert-or-find in the tree of `tag` answers what the key table answers. -/
theorem intern1_refines {addr : Ref → Int} (hinj : Injective addr) {s : State1} (hr : Rel addr s)
    (tag : Tag) (key : Key) (args : List Ref) :
    (intern1 addr s tag key args).1.heap = (intern0 s.heap tag key args).1 ∧
    (intern1 addr s tag key args).2 = (intern0 s.heap tag key args).2 ∧
    Rel addr (intern1 addr s tag key args).1 := by
  have hcK := keyCmp_lawful hinj
  have hc := entryCmp_key addr tag
  have hT := hr.trees tag
  have hmapfind := map_find (f := Prod.fst) hc (key, s.heap.size) (s.tables.get tag)
  have hord : Desc (keyCmp addr) (inorder ((s.tables.get tag).map Prod.fst)) := by rw [inorder_map]; exact hT.ordered
  unfold intern1
  simp only
  cases hd : descend (entryCmp addr tag) (key, s.heap.size) (s.tables.get tag) [] with
  | none =>
    have hf := (descend_none_iff_find _ _ _ []).mp hd
    cases hfe : find (entryCmp addr tag) (key, s.heap.size) (s.tables.get tag) with
    | none => simp [hfe] at hf
    | some e =>
      obtain ⟨hmem, hz⟩ := find_some_sound _ _ e _ hfe
      rw [hc] at hz
      have hk : e.1 = key := (hcK.eq _ _).mp hz
      obtain ⟨r, hget, ht, hkey⟩ := (hT.members e.1 e.2).mp hmem
      have h0 : find0 s.heap tag key = some e.2 := find0_complete hr.nodup hget ht (hkey.trans hk)
      have e0 : intern0 s.heap tag key args = (s.heap, e.2) := by simp [intern0, h0]
      rw [e0]
      exact ⟨rfl, rfl, hr⟩
  | some path =>
    have hfn : find (entryCmp addr tag) (key, s.heap.size) (s.tables.get tag) = none := by
      cases hfe : find (entryCmp addr tag) (key, s.heap.size) (s.tables.get tag) with
      | none => rfl
      | some e =>
        have := (descend_none_iff_find (entryCmp addr tag) (key, s.heap.size) (s.tables.get tag) []).mpr (by simp [hfe])
        rw [this] at hd; cases hd
    have h0 : find0 s.heap tag key = none := by
      cases h0 : find0 s.heap tag key with
      | none => rfl
      | some i =>
        obtain ⟨r, hget, ht, hkey⟩ := find0_some h0
        have hmem : (key, i) ∈ inorder (s.tables.get tag) := (hT.members key i).mpr ⟨r, hget, ht, hkey⟩
        have hkm : key ∈ inorder ((s.tables.get tag).map Prod.fst) := by
          rw [inorder_map]; exact List.mem_map.mpr ⟨(key, i), hmem, rfl⟩
        have := find_complete hcK key _ hord hkm
        rw [← hmapfind, hfn] at this
        cases this
    have hins : fixup (.node .red .nil (key, s.heap.size) .nil) path = Tree.insert (entryCmp addr tag) (s.tables.get tag) (key, s.heap.size) := by
      unfold Tree.insert; rw [hd]
    obtain ⟨hin1, hin2⟩ := inorder_insert_some _ _ _ path hd
    have hspec := intern0_spec hr.nodup tag key args
    have e0 : intern0 s.heap tag key args = (s.heap.push ⟨tag, key, args⟩, s.heap.size) := by simp [intern0, h0]
    rw [e0] at hspec ⊢
    refine ⟨rfl, rfl, ⟨hspec.2.1, ?_⟩⟩
    intro tag'
    simp only
    by_cases htag : tag' = tag
    · subst htag
      rw [Tables.get_set_same, hins]
      refine ⟨insert_rb _ _ _ hT.rb, ?_, ?_⟩
      · rw [← inorder_map, map_insert hc]
        exact insert_desc hcK _ key hord
      · intro k n
        rw [hin1]
        have hmem : (k, n) ∈ ctxL path ++ (key, s.heap.size) :: ctxR path ↔
            (k, n) = (key, s.heap.size) ∨ (k, n) ∈ inorder (s.tables.get tag') := by
          rw [hin2]; simp only [List.mem_append, List.mem_cons]
          constructor
          · rintro (h | h | h) <;> simp [h]
          · rintro (h | h | h) <;> simp [h]
        rw [hmem, hT.members k n, Array.getElem?_push]
        constructor
        · rintro (h | ⟨r, hget, ht, hk⟩)
          · simp only [Prod.mk.injEq] at h
            obtain ⟨rfl, rfl⟩ := h
            exact ⟨⟨tag', k, args⟩, by simp, rfl, rfl⟩
          · have := lt_size_of_get hget
            have hne : n ≠ s.heap.size := by omega
            exact ⟨r, by simp [hne, hget], ht, hk⟩
        · rintro ⟨r, hget, ht, hk⟩
          by_cases hn : n = s.heap.size
          · simp only [hn, ↓reduceIte, Option.some.injEq] at hget
            subst hget
            left; simp [hn, ← hk]
          · simp only [hn, ↓reduceIte] at hget
            right; exact ⟨r, hget, ht, hk⟩
    · rw [Tables.get_set_other _ _ _ _ htag]
      have hT' := hr.trees tag'
      refine ⟨hT'.rb, hT'.ordered, ?_⟩
      intro k n
      rw [hT'.members k n, Array.getElem?_push]
      constructor
      · rintro ⟨r, hget, ht, hk⟩
        have := lt_size_of_get hget
        have hne : n ≠ s.heap.size := by omega
        exact ⟨r, by simp [hne, hget], ht, hk⟩
      · rintro ⟨r, hget, ht, hk⟩
        by_cases hn : n = s.heap.size
        · simp only [hn, ↓reduceIte, Option.some.injEq] at hget
          subst hget
          exact absurd ht.symm htag
        · simp only [hn, ↓reduceIte] at hget
          exact ⟨r, hget, ht, hk⟩

theorem runSteps_refines {addr : Ref → Int} (hinj : Injective addr) : ∀ (steps : List Step) (s : State1) (rs : List Ref),
    Rel addr s →
    (runSteps (intern1 addr) s steps rs).1.heap = (runSteps intern0 s.heap steps rs).1 ∧
    (runSteps (intern1 addr) s steps rs).2 = (runSteps intern0 s.heap steps rs).2 ∧
    Rel addr (runSteps (intern1 addr) s steps rs).1 := by
  intro steps
  induction steps with
  | nil => intro s rs hr; exact ⟨rfl, rfl, hr⟩
  | cons st rest ih =>
    intro s rs hr
    simp only [runSteps]
    obtain ⟨h1, h2, h3⟩ := intern1_refines hinj hr st.tag st.key (st.args.map (resolve rs))
    rw [h2]
    obtain ⟨g1, g2, g3⟩ := ih _ (rs ++ [Ref.dyn (intern0 s.heap st.tag st.key (st.args.map (resolve rs))).2]) h3
    rw [h1] at g1 g2
    exact ⟨g1, g2, g3⟩

theorem runPlan_refines {addr : Ref → Int} (hinj : Injective addr) (p : Plan) (s : State1) (hr : Rel addr s) :
    (runPlan (intern1 addr) s p).1.heap = (runPlan intern0 s.heap p).1 ∧
    (runPlan (intern1 addr) s p).2 = (runPlan intern0 s.heap p).2 ∧
    Rel addr (runPlan (intern1 addr) s p).1 := by
  cases p with
  | refuse => exact ⟨rfl, rfl, hr⟩
  | const c => exact ⟨rfl, rfl, hr⟩
  | steps pre last =>
    simp only [runPlan]
    obtain ⟨h1, h2, h3⟩ := runSteps_refines hinj pre s [] hr
    rw [h2]
    obtain ⟨g1, g2, g3⟩ := intern1_refines hinj h3 last.tag last.key (last.args.map (resolve (runSteps intern0 s.heap pre []).2))
    rw [h1] at g1 g2
    exact ⟨g1, by rw [g2], g3⟩

theorem exec1_refines {addr : Ref → Int} (hinj : Injective addr) (cfg : Config) (s : State1) (hr : Rel addr s) (req : Req) :
    (exec1 addr cfg s req).1.heap = (exec0 cfg s.heap req).1 ∧
    (exec1 addr cfg s req).2 = (exec0 cfg s.heap req).2 ∧
    Rel addr (exec1 addr cfg s req).1 := by
  unfold exec1 exec0 execWith
  simp only [id]
  split
  · exact runPlan_refines hinj _ s hr
  · exact ⟨rfl, rfl, hr⟩

/-- **L1 refines L0** over every history, for every injective address assignment. -/
theorem run1_refines {addr : Ref → Int} (hinj : Injective addr) (cfg : Config) : ∀ (reqs : List Req) (s : State1), Rel addr s →
    (run1 addr cfg s reqs).1.heap = (run0 cfg s.heap reqs).1 ∧
    (run1 addr cfg s reqs).2 = (run0 cfg s.heap reqs).2 ∧
    Rel addr (run1 addr cfg s reqs).1 := by
  intro reqs
  induction reqs with
  | nil => intro s hr; exact ⟨rfl, rfl, hr⟩
  | cons r rs ih =>
    intro s hr
    obtain ⟨h1, h2, h3⟩ := exec1_refines hinj cfg s hr r
    obtain ⟨g1, g2, g3⟩ := ih _ h3
    simp only [run1, run0, runWith, exec1, exec0] at *
    rw [h1] at g1 g2
    exact ⟨g1, by rw [h2, g2], g3⟩

end Ipr.Unify
