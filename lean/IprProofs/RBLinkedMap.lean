import IprProofs.RBOrder
set_option linter.unusedSimpArgs false
/-! Relabelling the keys of a tree / zipper commutes with every operation of the red-black model.  Used with
    `Prod.snd : Nat × α → α` to forget the addresses of an address-annotated tree. -/
namespace Ipr.RB
variable {α β : Type}

def Tree.map (f : α → β) : Tree α → Tree β
  | .nil => .nil
  | .node c l k r => .node c (map f l) (f k) (map f r)

def Frame.map (f : α → β) (fr : Frame α) : Frame β := ⟨fr.dir, fr.c, f fr.k, fr.sib.map f⟩

namespace Tree

@[simp] theorem map_nil (f : α → β) : (Tree.nil : Tree α).map f = .nil := rfl
@[simp] theorem map_node (f : α → β) (c l k r) : (Tree.node c l k r : Tree α).map f = .node c (l.map f) (f k) (r.map f) := rfl

theorem map_plug (f : α → β) (t : Tree α) (fr : Frame α) : (t.plug fr).map f = (t.map f).plug (fr.map f) := by
  cases fr with | mk d c k sib => cases d <;> simp [plug, Frame.map]

theorem map_zip (f : α → β) (path : Path α) : ∀ t : Tree α, (zip t path).map f = zip (t.map f) (path.map (Frame.map f)) := by
  induction path with
  | nil => intro t; rfl
  | cons fr fs ih => intro t; simp [zip, ih, map_plug]

theorem map_blacken (f : α → β) (t : Tree α) : t.blacken.map f = (t.map f).blacken := by
  cases t <;> simp [blacken]

@[simp] theorem isRed_map (f : α → β) (t : Tree α) : (t.map f).isRed = t.isRed := by
  cases t with
  | nil => rfl
  | node c l k r => cases c <;> rfl

theorem inorder_map (f : α → β) (t : Tree α) : inorder (t.map f) = (inorder t).map f := by
  induction t with
  | nil => rfl
  | node c l k r ihl ihr => simp [inorder, ihl, ihr]

theorem size_map (f : α → β) (t : Tree α) : size (t.map f) = size t := by
  induction t with
  | nil => rfl
  | node c l k r ihl ihr => simp [size, ihl, ihr]

theorem map_fixup (f : α → β) (z : Tree α) (path : Path α) :
    (fixup z path).map f = fixup (z.map f) (path.map (Frame.map f)) := by
  induction z, path using fixup.induct with
  | case1 z => simp [fixup, map_blacken]
  | case2 z p => simp [fixup, map_blacken, map_plug]
  | case3 z p g rest h =>
    simp only [fixup, List.map]
    simp [Frame.map, h, map_blacken, map_zip]
  | case4 z p g rest h1 h2 pT gT ih =>
    simp only [fixup, List.map]
    simp only [Frame.map, h1, h2, isRed_map, if_true, if_false] 
    simp only [gT, pT, map_plug, Frame.map, map_blacken] at ih
    exact ih
  | case5 p g rest h1 h2 =>
    simp only [fixup, List.map]
    simp [Frame.map, h1, h2]
  | case6 p g rest h1 h2 c l k r =>
    simp only [fixup, List.map, map_node]
    simp only [Frame.map, h1, h2, isRed_map, if_false]
    cases p with | mk pd pc pk ps => cases g with | mk gd gc gk gs =>
    cases pd <;> cases gd <;> simp [map_blacken, map_zip]

theorem map_descend (f : α → β) (cmp : β → β → Int) (key : α) :
    ∀ (t : Tree α) (path : Path α),
      (descend (fun a b => cmp (f a) (f b)) key t path).map (List.map (Frame.map f))
        = descend cmp (f key) (t.map f) (path.map (Frame.map f)) := by
  intro t
  induction t with
  | nil => intro path; simp [descend]
  | node c l k r ihl ihr =>
    intro path
    simp only [descend, map_node]
    split
    · rw [ihl]; simp [Frame.map]
    · split
      · rw [ihr]; simp [Frame.map]
      · simp

theorem map_find (f : α → β) (cmp : β → β → Int) (key : α) :
    ∀ t : Tree α, (find (fun a b => cmp (f a) (f b)) key t).map f = find cmp (f key) (t.map f) := by
  intro t
  induction t with
  | nil => simp [find]
  | node c l k r ihl ihr =>
    simp only [find, map_node]
    split
    · exact ihl
    · split
      · exact ihr
      · simp

theorem map_insert (f : α → β) (cmp : β → β → Int) (t : Tree α) (key : α) :
    (insert (fun a b => cmp (f a) (f b)) t key).map f = insert cmp (t.map f) (f key) := by
  unfold insert
  have h := map_descend f cmp key t []
  simp only [List.map_nil] at h
  rw [← h]
  cases descend (fun a b => cmp (f a) (f b)) key t [] with
  | none => simp
  | some path => simp [map_fixup]

end Tree
end Ipr.RB
