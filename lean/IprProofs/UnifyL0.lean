import IprModel.Unify
import IprProofs.RBTree
/-! Level L0 of the unification model: the heap is a duplicate-free table of keys, every request answers the
    node filed under its normal form, and the invariants behind C04 / C11 hold in every reachable heap. -/
set_option linter.unusedSimpArgs false
namespace Ipr.Unify

/-- `h'` extends `h`: nodes are never moved, changed or dropped. -/
def Ext (h h' : Heap) : Prop := h.size ≤ h'.size ∧ ∀ (i : Nat) (r : Rec), h[i]? = some r → h'[i]? = some r

theorem Ext.refl (h : Heap) : Ext h h := ⟨Nat.le_refl _, fun _ _ x => x⟩

theorem Ext.trans {a b c : Heap} (h1 : Ext a b) (h2 : Ext b c) : Ext a c :=
  ⟨Nat.le_trans h1.1 h2.1, fun i r x => h2.2 i r (h1.2 i r x)⟩

theorem Ext.push (h : Heap) (r : Rec) : Ext h (h.push r) := by
  refine ⟨by simp, ?_⟩
  intro i r' hi
  have hlt : i < h.size := by
    rcases Nat.lt_or_ge i h.size with hh | hh
    · exact hh
    · rw [Array.getElem?_eq_none hh] at hi; cases hi
  rw [Array.getElem?_push]
  have : i ≠ h.size := by omega
  simp [this, hi]

theorem lt_size_of_get {h : Heap} {i : Nat} {r : Rec} (hi : h[i]? = some r) : i < h.size := by
  rcases Nat.lt_or_ge i h.size with hh | hh
  · exact hh
  · rw [Array.getElem?_eq_none hh] at hi; cases hi

theorem Ext.valid {h h' : Heap} (e : Ext h h') {x : Ref} (hv : x.valid h = true) : x.valid h' = true := by
  cases x with
  | stat s => rfl
  | dyn i => simp [Ref.valid] at hv ⊢; have := e.1; omega

theorem get_of_valid {h : Heap} {i : Nat} (hv : (Ref.dyn i).valid h = true) : ∃ r, h[i]? = some r := by
  simp [Ref.valid] at hv
  exact ⟨h[i], by simp [hv]⟩

/-- No two nodes are filed under the same key of the same table. -/
def NodupTK (h : Heap) : Prop :=
  ∀ (i j : Nat) (ri rj : Rec), h[i]? = some ri → h[j]? = some rj → ri.tk = rj.tk → i = j

/-! ### `find0` / `intern0` -/

theorem find0_some {h : Heap} {tag : Tag} {key : Key} {i : Nat} (hf : find0 h tag key = some i) :
    ∃ r, h[i]? = some r ∧ r.tag = tag ∧ r.key = key := by
  unfold find0 at hf
  rw [List.findIdx?_eq_some_iff_getElem] at hf
  obtain ⟨hlt, hp, _⟩ := hf
  refine ⟨h.toList[i], ?_, ?_⟩
  · rw [← Array.getElem?_toList]; simp [hlt]
  · simpa using hp

theorem find0_none {h : Heap} {tag : Tag} {key : Key} (hf : find0 h tag key = none) :
    ∀ (i : Nat) (r : Rec), h[i]? = some r → ¬ (r.tag = tag ∧ r.key = key) := by
  unfold find0 at hf
  rw [List.findIdx?_eq_none_iff] at hf
  intro i r hi
  have hm : r ∈ h.toList := by
    rw [← Array.getElem?_toList] at hi
    exact List.mem_of_getElem? hi
  simpa using hf r hm

theorem find0_complete {h : Heap} (hn : NodupTK h) {tag : Tag} {key : Key} {i : Nat} {r : Rec}
    (hi : h[i]? = some r) (ht : r.tag = tag) (hk : r.key = key) : find0 h tag key = some i := by
  cases hf : find0 h tag key with
  | none => exact absurd ⟨ht, hk⟩ (find0_none hf i r hi)
  | some j =>
    obtain ⟨r', hj, ht', hk'⟩ := find0_some hf
    have : j = i := hn j i r' r hj hi (by simp [Rec.tk, ht, hk, ht', hk'])
    rw [this]

/-- What `intern0` guarantees. -/
theorem intern0_spec {h : Heap} (hn : NodupTK h) (tag : Tag) (key : Key) (args : List Ref) :
    let a := intern0 h tag key args
    Ext h a.1 ∧ NodupTK a.1 ∧ (∃ r, a.1[a.2]? = some r ∧ r.tag = tag ∧ r.key = key) ∧
    (a.1 = h ∨ (a.1 = h.push ⟨tag, key, args⟩ ∧ a.2 = h.size)) := by
  unfold intern0
  cases hf : find0 h tag key with
  | some i =>
    obtain ⟨r, hi, ht, hk⟩ := find0_some hf
    exact ⟨Ext.refl h, hn, ⟨r, hi, ht, hk⟩, Or.inl rfl⟩
  | none =>
    refine ⟨Ext.push h _, ?_, ⟨⟨tag, key, args⟩, by simp, rfl, rfl⟩, Or.inr ⟨rfl, rfl⟩⟩
    intro i j ri rj hi hj htk
    rw [Array.getElem?_push] at hi hj
    by_cases h1 : i = h.size <;> by_cases h2 : j = h.size
    · omega
    · simp only [h1, ↓reduceIte, h2] at hi hj
      cases hi
      exact absurd (by simp [Rec.tk] at htk; exact ⟨htk.1.symm, htk.2.symm⟩) (find0_none hf j rj hj)
    · simp only [h1, ↓reduceIte, h2] at hi hj
      cases hj
      exact absurd (by simp [Rec.tk] at htk; exact htk) (find0_none hf i ri hi)
    · simp only [h1, ↓reduceIte, h2] at hi hj
      exact hn i j ri rj hi hj htk

/-! ### Invariants of reachable heaps -/

/-- What is never filed in a table: reserved or empty spellings in the pool / identifier / logogram tables
    (they are process-wide constants), empty or nested qualifications, and anything under the tag of constants. -/
def keyOk (cfg : Config) (h : Heap) : Tag → Key → Prop
  | .strings, [.str w] => w ≠ [] ∧ wordIdx cfg w = none
  | .strings, _ => False
  | .ids, [.str w] => wordIdx cfg w = none
  | .ids, _ => False
  | .logos, [.str w] => w ≠ [] ∧ wordIdx cfg w = none
  | .logos, _ => False
  | .qualifieds, [.num q, .node t] => q ≠ 0 ∧ t.valid h = true ∧ qualView h t = none
  | .qualifieds, _ => False
  | .static, _ => False
  | _, _ => True

def RecsOk (cfg : Config) (h : Heap) : Prop := ∀ (i : Nat) (r : Rec), h[i]? = some r → keyOk cfg h r.tag r.key

structure Inv (cfg : Config) (h : Heap) : Prop where
  nodup : NodupTK h
  recs : RecsOk cfg h

theorem Inv.empty (cfg : Config) : Inv cfg #[] := ⟨fun i j ri rj hi => by simp at hi, fun i r hi => by simp at hi⟩

theorem Ext.get {h h' : Heap} (e : Ext h h') {i : Nat} (hlt : i < h.size) : h'[i]? = h[i]? := by
  have : h[i]? = some h[i] := by simp [hlt]
  rw [this]; exact e.2 i _ this

theorem qualView_ext {h h' : Heap} (e : Ext h h') {t : Ref} (hv : t.valid h = true) : qualView h' t = qualView h t := by
  cases t with
  | stat s => rfl
  | dyn i =>
    simp only [Ref.valid, decide_eq_true_eq] at hv
    simp only [qualView, e.get hv]

theorem keyOk_mono {cfg : Config} {h h' : Heap} (e : Ext h h') {tag : Tag} {key : Key}
    (hk : keyOk cfg h tag key) : keyOk cfg h' tag key := by
  unfold keyOk at *
  split <;> simp_all
  next q t => exact ⟨e.valid hk.2.1, by rw [qualView_ext e hk.2.1]; exact hk.2.2⟩

theorem intern0_inv {cfg : Config} {h : Heap} (hi : Inv cfg h) {tag : Tag} {key : Key} (args : List Ref)
    (hk : keyOk cfg h tag key) : Inv cfg (intern0 h tag key args).1 := by
  obtain ⟨he, hn, _, hcase⟩ := intern0_spec hi.nodup tag key args
  refine ⟨hn, ?_⟩
  rcases hcase with heq | ⟨heq, _⟩
  · rw [heq]; exact hi.recs
  · intro i r hget
    rw [heq] at hget he
    rw [heq]
    rw [Array.getElem?_push] at hget
    by_cases h1 : i = h.size
    · simp only [h1, ↓reduceIte, Option.some.injEq] at hget
      subst hget
      exact keyOk_mono he hk
    · simp only [h1, ↓reduceIte] at hget
      exact keyOk_mono he (hi.recs i r hget)

def Plan.allSteps : Plan → List Step
  | .refuse => []
  | .const _ => []
  | .steps pre last => pre ++ [last]

/-- Every key the plan may file is admissible in heap `h`. -/
def StepsOk (cfg : Config) (h : Heap) (steps : List Step) : Prop := ∀ st ∈ steps, keyOk cfg h st.tag st.key

theorem runSteps0_spec (cfg : Config) : ∀ (steps : List Step) (h : Heap) (rs : List Ref), Inv cfg h → StepsOk cfg h steps →
    Inv cfg (runSteps intern0 h steps rs).1 ∧ Ext h (runSteps intern0 h steps rs).1 := by
  intro steps
  induction steps with
  | nil => intro h rs hi _; exact ⟨hi, Ext.refl h⟩
  | cons st rest ih =>
    intro h rs hi hok
    simp only [runSteps]
    have hk := hok st (by simp)
    have hi1 := intern0_inv hi (st.args.map (resolve rs)) hk
    have he1 := (intern0_spec hi.nodup st.tag st.key (st.args.map (resolve rs))).1
    have hok1 : StepsOk cfg (intern0 h st.tag st.key (st.args.map (resolve rs))).1 rest :=
      fun s hs => keyOk_mono he1 (hok s (by simp [hs]))
    obtain ⟨h1, h2⟩ := ih _ (rs ++ [Ref.dyn (intern0 h st.tag st.key (st.args.map (resolve rs))).2]) hi1 hok1
    exact ⟨h1, he1.trans h2⟩

theorem nkOfRef_ext {h h' : Heap} (e : Ext h h') {x : Ref} (hv : x.valid h = true) : nkOfRef h' x = nkOfRef h x := by
  cases x with
  | stat s => rfl
  | dyn i =>
    simp only [Ref.valid, decide_eq_true_eq] at hv
    simp only [nkOfRef, e.get hv]

/-- Running a plan at L0: invariants kept, nothing forgotten, and the answer is the node filed under the plan's key. -/
theorem runPlan0_spec {cfg : Config} {h : Heap} (hi : Inv cfg h) (p : Plan) (hok : StepsOk cfg h p.allSteps) :
    Inv cfg (runPlan intern0 h p).1 ∧ Ext h (runPlan intern0 h p).1 ∧
    (runPlan intern0 h p).2.bind (nkOfRef (runPlan intern0 h p).1) = planKey p ∧
    (∀ x, (runPlan intern0 h p).2 = some x → x.valid (runPlan intern0 h p).1 = true) := by
  cases p with
  | refuse => exact ⟨hi, Ext.refl h, rfl, by simp [runPlan]⟩
  | const c => exact ⟨hi, Ext.refl h, rfl, by simp [runPlan, Ref.valid]⟩
  | steps pre last =>
    simp only [runPlan]
    have hpre : StepsOk cfg h pre := fun s hs => hok s (by simp [Plan.allSteps, hs])
    obtain ⟨hi1, he1⟩ := runSteps0_spec cfg pre h [] hi hpre
    have hk : keyOk cfg (runSteps intern0 h pre []).1 last.tag last.key :=
      keyOk_mono he1 (hok last (by simp [Plan.allSteps]))
    generalize runSteps intern0 h pre [] = r1 at *
    have hi2 := intern0_inv hi1 (last.args.map (resolve r1.2)) hk
    obtain ⟨he2, _, ⟨r, hget, ht, hkey⟩, _⟩ := intern0_spec hi1.nodup last.tag last.key (last.args.map (resolve r1.2))
    refine ⟨hi2, he1.trans he2, ?_, ?_⟩
    · simp [nkOfRef, hget, planKey, Rec.tk, ht, hkey]
    · intro x hx
      simp only [Option.some.injEq] at hx
      subst hx
      simp only [Ref.valid, decide_eq_true_eq]
      exact lt_size_of_get hget

end Ipr.Unify
