import IprProofs.UnifyHist
/-! One Identifier per spelling, value equalities (C04) and the normal form of qualified types (C11). -/
set_option linter.unusedSimpArgs false
namespace Ipr.Unify

/-- The table of reserved words has no duplicate and does not contain the empty word. -/
structure Config.Wf (cfg : Config) : Prop where
  nodup : cfg.words.Nodup
  nonempty : [] ∉ cfg.words

theorem lookupIdx_some {α : Type} [DecidableEq α] : ∀ (l : List α) (a : α) (k : Nat), lookupIdx l a = some k → l[k]? = some a := by
  intro l
  induction l with
  | nil => intro a k h; simp [lookupIdx] at h
  | cons x xs ih =>
    intro a k h
    simp only [lookupIdx] at h
    split at h
    · rename_i hx; simp at h; subst h; simp [hx]
    · cases hl : lookupIdx xs a with
      | none => simp [hl] at h
      | some j => simp [hl] at h; subst h; simpa using ih a j hl

theorem lookupIdx_of_get {α : Type} [DecidableEq α] : ∀ (l : List α), l.Nodup → ∀ (a : α) (k : Nat), l[k]? = some a → lookupIdx l a = some k := by
  intro l
  induction l with
  | nil => intro _ a k h; simp at h
  | cons x xs ih =>
    intro hn a k h
    rw [List.nodup_cons] at hn
    cases k with
    | zero => simp at h; simp [lookupIdx, h]
    | succ j =>
      simp at h
      have hmem : a ∈ xs := List.mem_of_getElem? h
      have hne : x ≠ a := fun he => hn.1 (he ▸ hmem)
      simp [lookupIdx, hne, ih hn.2 a j h]

theorem lookupIdx_none {α : Type} [DecidableEq α] : ∀ (l : List α) (a : α), lookupIdx l a = none → a ∉ l := by
  intro l
  induction l with
  | nil => intro a _; simp
  | cons x xs ih =>
    intro a h
    simp only [lookupIdx] at h
    split at h
    · cases h
    · rename_i hx
      cases hl : lookupIdx xs a with
      | none => simp; exact ⟨fun e => hx e.symm, ih a hl⟩
      | some j => simp [hl] at h

/-! ### One Identifier per spelling -/

theorem nkOfRef_identifier {cfg : Config} (hw : cfg.Wf) {h : Heap} (hi : Inv cfg h) {r : Ref} {w : List Int}
    (hs : identSpelling cfg h r = some w) : nkOfRef h r = some (normIdentifier cfg w) ∧ r.valid h = true := by
  cases r with
  | stat s =>
    cases s <;> simp [identSpelling] at hs
    rename_i k
    have := lookupIdx_of_get cfg.words hw.nodup w k hs
    simp [nkOfRef, normIdentifier, wordIdx, this, Ref.valid]
  | dyn i =>
    simp only [identSpelling] at hs
    split at hs
    · rename_i args hget
      simp only [Option.some.injEq] at hs
      subst hs
      have hk := hi.recs i _ hget
      simp only [keyOk] at hk
      have hlt := lt_size_of_get hget
      refine ⟨?_, by simp [Ref.valid, hlt]⟩
      simp [nkOfRef, hget, normIdentifier, hk, Rec.tk]
    · cases hs

/-- Any Identifier node spelled `w` that exists in the Lexicon is the node `get_identifier(w)` answers. -/
theorem one_identifier {cfg : Config} (hw : cfg.Wf) {h : Heap} (hi : Inv cfg h) {r : Ref} {w : List Int}
    (hs : identSpelling cfg h r = some w) : (exec0 cfg h (.identifierW w)).2 = some r := by
  obtain ⟨hk, hv⟩ := nkOfRef_identifier hw hi hs
  obtain ⟨hi1, he1, hn1, hv1⟩ := exec0_spec hi (.identifierW w)
  have hnv : normV cfg h (.identifierW w) = some (normIdentifier cfg w) := by simp [normV, Req.operands, norm]
  rw [hnv] at hn1
  cases hres : (exec0 cfg h (.identifierW w)).2 with
  | none => simp [hres] at hn1
  | some x =>
    simp only [hres, Option.bind_some] at hn1
    have : nkOfRef (exec0 cfg h (.identifierW w)).1 x = nkOfRef (exec0 cfg h (.identifierW w)).1 r := by
      rw [hn1, nkOfRef_ext he1 hv, hk]
    rw [nkOfRef_inj hi1 (hv1 x hres) (he1.valid hv) this]

/-! ### Value equality of Logogram, Linkage, Calling_convention, Transfer -/

/-- `String` nodes are interned: equal contents, same node. -/
theorem strOf_inj {cfg : Config} (hw : cfg.Wf) {h : Heap} (hi : Inv cfg h) {x y : Ref} {w : List Int}
    (hx : strOf cfg h x = some w) (hy : strOf cfg h y = some w) : x = y := by
  have dynfacts : ∀ i, strOf cfg h (.dyn i) = some w →
      ∃ args, h[i]? = some ⟨.strings, [.str w], args⟩ ∧ w ≠ [] ∧ wordIdx cfg w = none := by
    intro i hs
    simp only [strOf] at hs
    split at hs
    · rename_i args hget
      simp only [Option.some.injEq] at hs
      subst hs
      have hk := hi.recs i _ hget
      simp only [keyOk] at hk
      exact ⟨args, hget, hk.1, hk.2⟩
    · cases hs
  have statfacts : ∀ s, strOf cfg h (.stat s) = some w →
      (∃ k, s = .str k ∧ cfg.words[k]? = some w) ∨ (s = .emptyStr ∧ w = []) := by
    intro s hs
    cases s <;> simp [strOf] at hs
    · left; exact ⟨_, rfl, hs⟩
    · right; exact ⟨rfl, hs⟩
  cases x with
  | stat s =>
    rcases statfacts s hx with ⟨k, rfl, hk⟩ | ⟨rfl, hwe⟩
    · cases y with
      | stat s' =>
        rcases statfacts s' hy with ⟨k', rfl, hk'⟩ | ⟨rfl, hwe'⟩
        · have a := lookupIdx_of_get _ hw.nodup w k hk
          have b := lookupIdx_of_get _ hw.nodup w k' hk'
          rw [a] at b; simp at b; rw [b]
        · subst hwe'; exact absurd (List.mem_of_getElem? hk) hw.nonempty
      | dyn j =>
        obtain ⟨_, _, _, hnone⟩ := dynfacts j hy
        have a := lookupIdx_of_get _ hw.nodup w k hk
        simp [wordIdx, a] at hnone
    · cases y with
      | stat s' =>
        rcases statfacts s' hy with ⟨k', rfl, hk'⟩ | ⟨rfl, _⟩
        · subst hwe; exact absurd (List.mem_of_getElem? hk') hw.nonempty
        · rfl
      | dyn j =>
        obtain ⟨_, _, hne, _⟩ := dynfacts j hy
        exact absurd hwe hne
  | dyn i =>
    obtain ⟨a1, hg1, hne, hnone⟩ := dynfacts i hx
    cases y with
    | stat s' =>
      rcases statfacts s' hy with ⟨k', rfl, hk'⟩ | ⟨rfl, hwe'⟩
      · have a := lookupIdx_of_get _ hw.nodup w k' hk'
        simp [wordIdx, a] at hnone
      · exact absurd hwe' hne
    | dyn j =>
      obtain ⟨a2, hg2, _, _⟩ := dynfacts j hy
      rw [hi.nodup i j _ _ hg1 hg2 rfl]

/-- `Logogram::operator==` holds exactly when the spellings are equal. -/
theorem logoEq_iff {cfg : Config} (hw : cfg.Wf) {h : Heap} (hi : Inv cfg h) {a b : Ref} {wa wb : List Int}
    (ha : logoSpelling cfg h a = some wa) (hb : logoSpelling cfg h b = some wb) :
    logoEq h a b = true ↔ wa = wb := by
  unfold logoSpelling at ha hb
  cases hxa : logoWhat h a with
  | none => simp [hxa] at ha
  | some x =>
    cases hxb : logoWhat h b with
    | none => simp [hxb] at hb
    | some y =>
      simp only [hxa, hxb, Option.bind_some] at ha hb
      simp only [logoEq, hxa, hxb, decide_eq_true_eq]
      constructor
      · intro he; subst he; rw [ha] at hb; simpa using hb
      · intro he; subst he; exact strOf_inj hw hi ha hb

/-- `Linkage::operator==` holds exactly when the spellings are equal. -/
theorem linkEq_iff {cfg : Config} (hw : cfg.Wf) {h : Heap} (hi : Inv cfg h) {a b : Ref} {wa wb : List Int}
    (ha : linkSpelling cfg h a = some wa) (hb : linkSpelling cfg h b = some wb) :
    linkEq cfg h a b = true ↔ wa = wb := by
  unfold linkSpelling at ha hb
  cases hxa : linkLang cfg h a with
  | none => simp [hxa] at ha
  | some x =>
    cases hxb : linkLang cfg h b with
    | none => simp [hxb] at hb
    | some y =>
      simp only [hxa, hxb, Option.bind_some] at ha hb
      simp only [linkEq, hxa, hxb]
      exact logoEq_iff hw hi ha hb

/-- `Calling_convention::operator==` holds exactly when the spellings are equal. -/
theorem ccEq_iff {cfg : Config} (hw : cfg.Wf) {h : Heap} (hi : Inv cfg h) {a b : Ref} {wa wb : List Int}
    (ha : ccSpelling cfg h a = some wa) (hb : ccSpelling cfg h b = some wb) :
    ccEq h a b = true ↔ wa = wb := by
  unfold ccSpelling at ha hb
  cases hxa : ccName h a with
  | none => simp [hxa] at ha
  | some x =>
    cases hxb : ccName h b with
    | none => simp [hxb] at hb
    | some y =>
      simp only [hxa, hxb, Option.bind_some] at ha hb
      simp only [ccEq, hxa, hxb]
      exact logoEq_iff hw hi ha hb

/-- `Transfer::operator==` holds exactly when both spellings are equal. -/
theorem xferEq_iff {cfg : Config} (hw : cfg.Wf) {h : Heap} (hi : Inv cfg h) {a b : Ref} {wa wb : List Int × List Int}
    (ha : xferSpelling cfg h a = some wa) (hb : xferSpelling cfg h b = some wb) :
    xferEq cfg h a b = true ↔ wa = wb := by
  unfold xferSpelling at ha hb
  cases hla : xferLinkage h a with
  | none => simp [hla] at ha
  | some la =>
  cases hlb : xferLinkage h b with
  | none => simp [hlb] at hb
  | some lb =>
  cases hca : xferConvention h a with
  | none => simp [hla, hca] at ha
  | some ca =>
  cases hcb : xferConvention h b with
  | none => simp [hlb, hcb] at hb
  | some cb =>
  simp only [hla, hlb, hca, hcb, Option.bind_some] at ha hb
  cases h1 : linkSpelling cfg h la with
  | none => simp [h1] at ha
  | some l1 =>
  cases h2 : ccSpelling cfg h ca with
  | none => simp [h1, h2] at ha
  | some c1 =>
  cases h3 : linkSpelling cfg h lb with
  | none => simp [h3] at hb
  | some l2 =>
  cases h4 : ccSpelling cfg h cb with
  | none => simp [h3, h4] at hb
  | some c2 =>
  simp only [h1, h2, h3, h4, Option.some.injEq] at ha hb
  subst ha; subst hb
  simp only [xferEq, hla, hlb, hca, hcb, Bool.and_eq_true, linkEq_iff hw hi h1 h3, ccEq_iff hw hi h2 h4, Prod.mk.injEq]

/-! ### Qualified types -/

theorem exec0_qualified_zero (cfg : Config) (h : Heap) (t : Ref) : exec0 cfg h (.qualified 0 t) = (h, none) := by
  unfold exec0 execWith
  simp only [id, plan, ↓reduceIte, runPlan]
  split <;> rfl

/-- In every admissible heap a qualified type has a non-empty qualifier set and an unqualified main variant. -/
theorem qualified_normal {cfg : Config} {h : Heap} (hi : Inv cfg h) {r : Ref} {q : Nat} {m : Ref}
    (hq : qualView h r = some (q, m)) : q ≠ 0 ∧ m.valid h = true ∧ qualView h m = none := by
  obtain ⟨i, args, rfl, hget⟩ := qualView_some hq
  have := hi.recs i _ hget
  simpa [keyOk] using this

theorem qualView_of_nk {h : Heap} {r : Ref} {a : Nat} {t : Ref} (hk : nkOfRef h r = some (.qualifieds, [.num a, .node t])) :
    qualView h r = some (a, t) := by
  cases r with
  | stat s => simp [nkOfRef, nkStatic] at hk
  | dyn i =>
    simp only [nkOfRef] at hk
    cases hget : h[i]? with
    | none => simp [hget] at hk
    | some rec =>
      obtain ⟨tag, key, args⟩ := rec
      simp only [hget, Option.map_some, Rec.tk, Option.some.injEq, Prod.mk.injEq] at hk
      obtain ⟨rfl, rfl⟩ := hk
      simp [qualView, hget]

/-- Successive qualification: ask `get_qualified(q, ·)` for each `q` in turn, feeding each answer to the next request. -/
def qualChain (cfg : Config) : Heap → Ref → List Nat → Heap × Option Ref
  | h, t, [] => (h, some t)
  | h, t, q :: qs =>
    match (exec0 cfg h (.qualified q t)).2 with
    | some r => qualChain cfg (exec0 cfg h (.qualified q t)).1 r qs
    | none => ((exec0 cfg h (.qualified q t)).1, none)

/-- One qualification request on an unqualified type (`acc = 0`, `c = t`) or on the node of `(acc, t)`. -/
theorem qual_step {cfg : Config} {h : Heap} (hi : Inv cfg h) {t c : Ref} {acc q : Nat} (hq : q ≠ 0)
    (ht : t.valid h = true) (hut : qualView h t = none)
    (hc : (acc = 0 ∧ c = t) ∨ (acc ≠ 0 ∧ nkOfRef h c = some (.qualifieds, [.num acc, .node t]) ∧ c.valid h = true)) :
    ∃ r, (exec0 cfg h (.qualified q c)).2 = some r ∧
      nkOfRef (exec0 cfg h (.qualified q c)).1 r = some (.qualifieds, [.num (acc ||| q), .node t]) ∧
      r.valid (exec0 cfg h (.qualified q c)).1 = true ∧
      Inv cfg (exec0 cfg h (.qualified q c)).1 ∧ Ext h (exec0 cfg h (.qualified q c)).1 := by
  obtain ⟨hi1, he1, hn1, hv1⟩ := exec0_spec hi (.qualified q c)
  have hcv : c.valid h = true := by
    rcases hc with ⟨_, rfl⟩ | ⟨_, _, hv⟩
    · exact ht
    · exact hv
  have hnv : normV cfg h (.qualified q c) = some (.qualifieds, [.num (acc ||| q), .node t]) := by
    simp only [normV, Req.operands, List.all_cons, hcv, List.all_nil, Bool.and_self, ↓reduceIte, norm, hq]
    rcases hc with ⟨rfl, rfl⟩ | ⟨_, hk, _⟩
    · simp [hut]
    · simp [qualView_of_nk hk, Nat.or_comm]
  rw [hnv] at hn1
  cases hres : (exec0 cfg h (.qualified q c)).2 with
  | none => simp [hres] at hn1
  | some r =>
    simp only [hres, Option.bind_some] at hn1
    exact ⟨r, rfl, hn1, hv1 r hres, hi1, he1⟩

theorem qualChain_spec (cfg : Config) : ∀ (qs : List Nat) (h : Heap) (t c : Ref) (acc : Nat), Inv cfg h →
    (∀ q ∈ qs, q ≠ 0) → t.valid h = true → qualView h t = none →
    ((acc = 0 ∧ c = t) ∨ (acc ≠ 0 ∧ nkOfRef h c = some (.qualifieds, [.num acc, .node t]) ∧ c.valid h = true)) →
    qs ≠ [] →
    ∃ r, (qualChain cfg h c qs).2 = some r ∧
      nkOfRef (qualChain cfg h c qs).1 r = some (.qualifieds, [.num (qs.foldl (· ||| ·) acc), .node t]) ∧
      r.valid (qualChain cfg h c qs).1 = true ∧
      Inv cfg (qualChain cfg h c qs).1 ∧ Ext h (qualChain cfg h c qs).1 := by
  intro qs
  induction qs with
  | nil => intro h t c acc _ _ _ _ _ hne; exact absurd rfl hne
  | cons q rest ih =>
    intro h t c acc hi hall ht hut hc _
    have hq : q ≠ 0 := hall q (by simp)
    obtain ⟨r, hres, hk, hrv, hi1, he1⟩ := qual_step hi hq ht hut hc
    simp only [qualChain, hres, List.foldl_cons]
    cases rest with
    | nil => exact ⟨r, rfl, hk, hrv, hi1, he1⟩
    | cons q2 rest2 =>
      have hacc : acc ||| q ≠ 0 := by simp [Nat.or_eq_zero_iff, hq]
      obtain ⟨r2, g1, g2, g3, g4, g5⟩ := ih _ t r (acc ||| q) hi1 (fun x hx => hall x (by simp [hx]))
        (he1.valid ht) (by rw [qualView_ext he1 ht]; exact hut) (Or.inr ⟨hacc, hk, hrv⟩) (by simp)
      exact ⟨r2, g1, g2, g3, g4, he1.trans g5⟩

end Ipr.Unify
