import IprProofs.RBLinkedOps
set_option linter.unusedSimpArgs false
set_option linter.unusedSectionVars false
set_option linter.unusedVariables false
namespace Ipr.RB.Linked
open Tree
variable {α : Type} [Inhabited α]

/-- The outermost ancestor (the root of the whole tree) is black. -/
def RootBlack (path : APath α) : Prop := ∀ f, path.getLast? = some f → f.c = .black

theorem RootBlack.tail2 {p g : AFrame α} {rest : APath α} (h : RootBlack (p :: g :: rest)) : RootBlack rest := by
  intro f hf
  apply h f
  cases rest with
  | nil => simp at hf
  | cons a as => simpa [List.getLast?_cons_cons] using hf

theorem rootOf_isSome (path : APath α) : ∀ a : Nat, ∃ b, rootOf (some a) path = some b := by
  induction path with
  | nil => intro a; exact ⟨a, rfl⟩
  | cons f fs ih => intro a; exact ih _

/-- The loop of `fixup_insert` stops when `z` is the root or its parent is not red; then line 214 runs. -/
theorem fixupLoop_exit (s : Store α) (z : Nat) (fuel : Nat)
    (h : s.root = some z ∨ ∃ p, s.parent z = some p ∧ s.color p ≠ .red) :
    s.fixupLoop (fuel + 1) z = s.blackenRoot := by
  unfold Store.fixupLoop
  rcases h with h | ⟨p, h1, h2⟩
  · simp [h]
  · by_cases hr : s.root = some z
    · simp [hr]
    · simp [hr, h1, h2]

/-- Case 1 of `fixup_insert` (red uncle), lines 181-183 / 197-199: three colour assignments. -/
theorem Focus.recolor {s : Store α} {z : ATree α} {p g : AFrame α} {rest : APath α} {ul ur : ATree α} {uk : Nat × α}
    (h : Focus s z (p :: g :: rest)) (hu : g.sib = .node .red ul uk ur) :
    Focus (((s.setColor p.k.1 .black).setColor uk.1 .black).setColor g.k.1 .red)
      ((z.plug { p with c := .black }).plug { g with c := .red, sib := g.sib.blacken }) rest := by
  have h1 := Focus.up_iff.mp h
  have h2 := h1.setColor_plug .black
  have h3 := Focus.up_iff.mp h2
  cases g with | mk d gc gk gsib =>
  simp only at hu; subst hu
  cases d
  · have h4 : Focus (s.setColor p.k.1 .black) (.node .red ul uk ur)
        (⟨.R, gc, gk, z.plug { p with c := .black }⟩ :: rest) := Focus.up_iff.mpr h3
    have h5 := Focus.up_iff.mp (h4.setColor .black)
    exact Focus.setColor (k := gk) .red h5
  · have h4 : Focus (s.setColor p.k.1 .black) (.node .red ul uk ur)
        (⟨.L, gc, gk, z.plug { p with c := .black }⟩ :: rest) := Focus.up_iff.mpr h3
    have h5 := Focus.up_iff.mp (h4.setColor .black)
    exact Focus.setColor (k := gk) .red h5

theorem fixupLoop_spec : ∀ (len : Nat) (path : APath α), path.length = len →
    ∀ (s : Store α) (zl zr : ATree α) (zk : Nat × α) (fuel : Nat),
      Focus s (.node .red zl zk zr) path → RootBlack path → path.length + 2 ≤ fuel →
      ∃ s', s.fixupLoop fuel zk.1 = some s' ∧ Focus s' (fixup (.node .red zl zk zr) path) [] ∧
        s'.count = s.count ∧ s'.next = s.next := by
  intro len
  induction len using Nat.strongRecOn with
  | _ len ih =>
  intro path hlen s zl zr zk fuel hF hrb hfuel
  obtain ⟨fuel, rfl⟩ : ∃ f, fuel = f + 1 := ⟨fuel - 1, by omega⟩
  match path, hF, hrb, hfuel, hlen with
  | [], hF, hrb, hfuel, hlen =>
    rw [fixupLoop_exit _ _ _ (Or.inl hF.root)]
    exact hF.blackenRoot (by simp)
  | [p], hF, hrb, hfuel, hlen =>
    have hpc : p.c = .black := hrb p rfl
    have hrd := hF.ctx.1
    rw [fixupLoop_exit _ _ _ (Or.inr ⟨p.k.1, by simp [Store.parent, hF.rd_root, parentOf], by
      cases p with | mk d c k sib => cases d <;> simp_all [Store.color, cellOf]⟩)]
    have := (Focus.up_iff.mp hF).blackenRoot (by cases p with | mk d c k sib => cases d <;> simp [plug])
    simpa [fixup] using this
  | p :: g :: rest, hF, hrb, hfuel, hlen =>
    have hnd := hF.nd
    obtain ⟨pd, pc, ⟨pa, pk⟩, psib⟩ := p
    obtain ⟨gd, gc, ⟨ga, gk⟩, gsib⟩ := g
    obtain ⟨za, zkv⟩ := zk
    have hz := hF.rd_root
    obtain ⟨hp, hps, hg, hgs, hrest⟩ := hF.ctx
    simp only [ptrOf_node, parentOf] at hz hp hg
    simp only [addrs_node, caddrs, List.nodup_append, List.nodup_cons, List.mem_append, List.mem_cons] at hnd
    have hroot : s.root ≠ some za := by
      intro e
      have := hF.root
      rw [e] at this
      rcases rootOf_mem rest (some ga) za this.symm with h1 | h1
      · simp at h1; grind
      · grind
    by_cases hpc : pc = .black
    · subst hpc
      rw [fixupLoop_exit _ _ _ (Or.inr ⟨pa, by simp [Store.parent, hz], by cases pd <;> simp [Store.color, hp, cellOf]⟩)]
      have := (Focus.zip_iff.mp hF).blackenRoot (zip_ne_nil _ _ (by simp))
      simpa [fixup] using this
    · have hpc : pc = .red := by cases pc <;> simp_all
      subst hpc
      have dzp : za ≠ pa := by grind
      have dzg : za ≠ ga := by grind
      have dpg : pa ≠ ga := by grind
      by_cases hu : gsib.isRed = true
      · obtain ⟨ul, ⟨ua, ukv⟩, ur, rfl⟩ : ∃ ul uk ur, gsib = .node .red ul uk ur := by
          cases gsib with
          | nil => simp [isRed] at hu
          | node c l k r => cases c <;> simp [isRed] at hu; exact ⟨_, _, _, rfl⟩
        have hua := hgs.1
        simp only [addrs_node, List.mem_append, List.mem_cons] at hnd
        have dzu : za ≠ ua := by grind
        have dpu : pa ≠ ua := by grind
        have dgu : ga ≠ ua := by grind
        have hstep : s.fixupLoop (fuel + 1) za
            = (((s.setColor pa .black).setColor ua .black).setColor ga .red).fixupLoop fuel ga := by
          rw [Store.fixupLoop]
          cases gd <;> cases pd <;>
            simp [hroot, Store.parent, Store.color, Store.left, Store.right, hz, hp, hg, hua, cellOf, Store.isRedPtr,
              dzp, dzg, dpg, dzu, dpu, dgu, Ne.symm dzp, Ne.symm dzg, Ne.symm dpg, Ne.symm dzu, Ne.symm dpu, Ne.symm dgu]
        rw [hstep]
        have hF' := hF.recolor (ul := ul) (uk := (ua, ukv)) (ur := ur) rfl
        have hfx : fixup (.node .red zl (za, zkv) zr) (⟨pd, .red, (pa, pk), psib⟩ :: ⟨gd, gc, (ga, gk), .node .red ul (ua, ukv) ur⟩ :: rest)
            = fixup ((Tree.plug (.node .red zl (za, zkv) zr) ⟨pd, .black, (pa, pk), psib⟩).plug
                ⟨gd, .red, (ga, gk), .node .black ul (ua, ukv) ur⟩) rest := by
          simp [fixup, isRed, blacken]
        rw [hfx]
        simp only [blacken] at hF'
        have hlt : rest.length < len := by simp at hlen; omega
        cases gd
        · have := ih _ hlt rest rfl _ _ _ (ga, gk) fuel hF' hrb.tail2 (by simp at hfuel; omega)
          simpa [plug] using this
        · have := ih _ hlt rest rfl _ _ _ (ga, gk) fuel hF' hrb.tail2 (by simp at hfuel; omega)
          simpa [plug] using this
      · have hu' : gsib.isRed = false := by simpa using hu
        have hred : s.isRedPtr (ptrOf gsib) = false := by rw [isRedPtr_own hgs]; exact hu'
        obtain ⟨fuel, rfl⟩ : ∃ f, fuel = f + 1 := ⟨fuel - 1, by simp at hfuel; omega⟩
        have hpz : ptrOf psib ≠ some za := by intro e; have := ptrOf_mem e; grind
        have hgp : ptrOf gsib ≠ some pa := by intro e; have := ptrOf_mem e; grind
        cases gd <;> cases pd
        · -- left-left: recolour, rotate_right(grandparent)
          have F1 : Focus s (.node .red (.node .red zl (za, zkv) zr) (pa, pk) psib) (⟨.L, gc, (ga, gk), gsib⟩ :: rest) :=
            Focus.up_iff.mp hF
          have F2 := F1.setColor .black
          have F3 : Focus (s.setColor pa .black) (.node gc (.node .black (.node .red zl (za, zkv) zr) (pa, pk) psib) (ga, gk) gsib) rest :=
            Focus.up_iff.mp F2
          have F4 := F3.setColor .red
          obtain ⟨s3, hs3, F5, c3, n3⟩ := F4.rotateRight
          have r3z : rd s3.mem za = ⟨zkv, .red, ptrOf zl, ptrOf zr, some pa⟩ := F5.own.2.1.1
          have r3p := F5.rd_root
          have hstep : s.fixupLoop (fuel + 1 + 1) za = s3.fixupLoop (fuel + 1) za := by
            rw [Store.fixupLoop]
            simp only at hs3
            simp [hroot, Store.parent, Store.color, Store.left, Store.right, hz, hp, hg, cellOf, hred, hpz, hs3,
              dzp, dzg, dpg, Ne.symm dzp, Ne.symm dzg, Ne.symm dpg]
          rw [hstep, fixupLoop_exit _ _ _ (Or.inr ⟨pa, by simp [Store.parent, r3z], by simp at r3p; simp [Store.color, r3p]⟩)]
          obtain ⟨s', e1, e2, e3, e4⟩ := (Focus.zip_iff.mp F5).blackenRoot (zip_ne_nil _ _ (by simp))
          simp only [Store.setColor_count, Store.setColor_next] at c3 n3
          refine ⟨s', e1, ?_, by rw [e3, c3], by rw [e4, n3]⟩
          simpa [fixup, hu'] using e2
        · -- left-right: rotate_left(parent), recolour, rotate_right(grandparent)
          have F1 : Focus s (.node .red psib (pa, pk) (.node .red zl (za, zkv) zr)) (⟨.L, gc, (ga, gk), gsib⟩ :: rest) :=
            Focus.up_iff.mp hF
          obtain ⟨s1, hs1, F2, c1, n1⟩ := F1.rotateLeft
          have r1p : rd s1.mem pa = ⟨pk, .red, ptrOf psib, ptrOf zl, some za⟩ := F2.own.2.1.1
          have r1z := F2.rd_root
          have F3 := F2.setColor .black
          have F4 : Focus (s1.setColor za .black) (.node gc (.node .black (.node .red psib (pa, pk) zl) (za, zkv) zr) (ga, gk) gsib) rest :=
            Focus.up_iff.mp F3
          have F5 := F4.setColor .red
          obtain ⟨s4, hs4, F6, c4, n4⟩ := F5.rotateRight
          have r4p : rd s4.mem pa = ⟨pk, .red, ptrOf psib, ptrOf zl, some za⟩ := F6.own.2.1.1
          have r4z := F6.rd_root
          have hstep : s.fixupLoop (fuel + 1 + 1) za = s4.fixupLoop (fuel + 1) pa := by
            rw [Store.fixupLoop]
            simp only [parentOf] at r1z
            simp [hroot, Store.parent, Store.color, Store.left, Store.right, hz, hp, hg, cellOf, hred, hs1, r1p, r1z,
              dzp, dzg, dpg, Ne.symm dzp, Ne.symm dzg, Ne.symm dpg]
            simp only at hs4
            simp [hs4]
          rw [hstep, fixupLoop_exit _ _ _ (Or.inr ⟨za, by simp [Store.parent, r4p], by simp at r4z; simp [Store.color, r4z]⟩)]
          obtain ⟨s', e1, e2, e3, e4⟩ := (Focus.zip_iff.mp F6).blackenRoot (zip_ne_nil _ _ (by simp))
          simp only [Store.setColor_count, Store.setColor_next] at c4 n4
          refine ⟨s', e1, ?_, by rw [e3, c4, c1], by rw [e4, n4, n1]⟩
          simpa [fixup, hu'] using e2
        · -- right-left: rotate_right(parent), recolour, rotate_left(grandparent)
          have F1 : Focus s (.node .red (.node .red zl (za, zkv) zr) (pa, pk) psib) (⟨.R, gc, (ga, gk), gsib⟩ :: rest) :=
            Focus.up_iff.mp hF
          obtain ⟨s1, hs1, F2, c1, n1⟩ := F1.rotateRight
          have r1p : rd s1.mem pa = ⟨pk, .red, ptrOf zr, ptrOf psib, some za⟩ := F2.own.2.2.1
          have r1z := F2.rd_root
          have F3 := F2.setColor .black
          have F4 : Focus (s1.setColor za .black) (.node gc gsib (ga, gk) (.node .black zl (za, zkv) (.node .red zr (pa, pk) psib))) rest :=
            Focus.up_iff.mp F3
          have F5 := F4.setColor .red
          obtain ⟨s4, hs4, F6, c4, n4⟩ := F5.rotateLeft
          have r4p : rd s4.mem pa = ⟨pk, .red, ptrOf zr, ptrOf psib, some za⟩ := F6.own.2.2.1
          have r4z := F6.rd_root
          have hstep : s.fixupLoop (fuel + 1 + 1) za = s4.fixupLoop (fuel + 1) pa := by
            rw [Store.fixupLoop]
            simp only [parentOf] at r1z
            simp only at hs4 hs1
            simp [hroot, Store.parent, Store.color, Store.left, Store.right, hz, hp, hg, cellOf, hred, hgp, Ne.symm hgp, hs1, r1p, r1z, hs4,
              dzp, dzg, dpg, Ne.symm dzp, Ne.symm dzg, Ne.symm dpg]
          rw [hstep, fixupLoop_exit _ _ _ (Or.inr ⟨za, by simp [Store.parent, r4p], by simp at r4z; simp [Store.color, r4z]⟩)]
          obtain ⟨s', e1, e2, e3, e4⟩ := (Focus.zip_iff.mp F6).blackenRoot (zip_ne_nil _ _ (by simp))
          simp only [Store.setColor_count, Store.setColor_next] at c4 n4
          refine ⟨s', e1, ?_, by rw [e3, c4, c1], by rw [e4, n4, n1]⟩
          simpa [fixup, hu'] using e2
        · -- right-right: recolour, rotate_left(grandparent)
          have F1 : Focus s (.node .red psib (pa, pk) (.node .red zl (za, zkv) zr)) (⟨.R, gc, (ga, gk), gsib⟩ :: rest) :=
            Focus.up_iff.mp hF
          have F2 := F1.setColor .black
          have F3 : Focus (s.setColor pa .black) (.node gc gsib (ga, gk) (.node .black psib (pa, pk) (.node .red zl (za, zkv) zr))) rest :=
            Focus.up_iff.mp F2
          have F4 := F3.setColor .red
          obtain ⟨s3, hs3, F5, c3, n3⟩ := F4.rotateLeft
          have r3z : rd s3.mem za = ⟨zkv, .red, ptrOf zl, ptrOf zr, some pa⟩ := F5.own.2.2.1
          have r3p := F5.rd_root
          have hstep : s.fixupLoop (fuel + 1 + 1) za = s3.fixupLoop (fuel + 1) za := by
            rw [Store.fixupLoop]
            simp only at hs3
            simp [hroot, Store.parent, Store.color, Store.left, Store.right, hz, hp, hg, cellOf, hred, hpz, hgp, Ne.symm hgp, hs3,
              dzp, dzg, dpg, Ne.symm dzp, Ne.symm dzg, Ne.symm dpg]
          rw [hstep, fixupLoop_exit _ _ _ (Or.inr ⟨pa, by simp [Store.parent, r3z], by simp at r3p; simp [Store.color, r3p]⟩)]
          obtain ⟨s', e1, e2, e3, e4⟩ := (Focus.zip_iff.mp F5).blackenRoot (zip_ne_nil _ _ (by simp))
          simp only [Store.setColor_count, Store.setColor_next] at c3 n3
          refine ⟨s', e1, ?_, by rw [e3, c3], by rw [e4, n3]⟩
          simpa [fixup, hu'] using e2

end Ipr.RB.Linked
