import IprModel.Bits
/-! Laws of the specifier/qualifier algebra for ANY duplicate-free basis of at most 32 names. -/
namespace Ipr.Bits

theorem bit_eq {i : Nat} (h : i < 32) : bit i = 2 ^ i := by
  unfold bit
  rw [Nat.shiftLeft_eq, Nat.one_mul]
  exact Nat.mod_eq_of_lt (Nat.pow_lt_pow_right (by omega) h)

theorem implies_two_pow (x i : Nat) : implies x (2 ^ i) = x.testBit i := by
  simp only [implies]
  rw [Bool.eq_iff_iff]
  simp only [beq_iff_eq]
  constructor
  · intro h
    have := congrArg (fun y => y.testBit i) h
    simpa [Nat.testBit_and, Nat.testBit_two_pow_self] using this
  · intro h
    apply Nat.eq_of_testBit_eq
    intro j
    by_cases hj : i = j
    · subst hj; simp [Nat.testBit_and, h]
    · simp [Nat.testBit_and, Nat.testBit_two_pow, hj]

variable {α : Type} [DecidableEq α]

/-- Index of a name in the table. -/
def indexFrom (pos : Nat) : List α → α → Option Nat
  | [], _ => none
  | x :: xs, s => if x = s then some pos else indexFrom (pos + 1) xs s

theorem projectFrom_eq (pos : Nat) (tbl : List α) (s : α) :
    projectFrom pos tbl s = (indexFrom pos tbl s).map bit := by
  induction tbl generalizing pos with
  | nil => rfl
  | cons x xs ih => simp only [projectFrom, indexFrom]; split <;> simp [ih]

theorem indexFrom_some {pos : Nat} {tbl : List α} {s : α} {i : Nat} (h : indexFrom pos tbl s = some i) :
    pos ≤ i ∧ i < pos + tbl.length ∧ tbl[i - pos]? = some s := by
  induction tbl generalizing pos with
  | nil => simp [indexFrom] at h
  | cons x xs ih =>
    simp only [indexFrom] at h
    split at h
    · rename_i hx; simp at h; subst h; subst hx; simp
    · have := ih h
      refine ⟨by omega, by simp; omega, ?_⟩
      have e : i - pos = (i - (pos + 1)) + 1 := by omega
      rw [e]; simpa using this.2.2

theorem indexFrom_none {pos : Nat} {tbl : List α} {s : α} : indexFrom pos tbl s = none ↔ s ∉ tbl := by
  induction tbl generalizing pos with
  | nil => simp [indexFrom]
  | cons x xs ih =>
    simp only [indexFrom, List.mem_cons]
    split
    · rename_i hx; simp [hx]
    · rename_i hx; rw [ih]; constructor
      · intro h hh; rcases hh with hh | hh
        · exact hx hh.symm
        · exact h hh
      · intro h hh; exact h (Or.inr hh)

theorem indexFrom_isSome {pos : Nat} {tbl : List α} {s : α} (h : s ∈ tbl) : ∃ i, indexFrom pos tbl s = some i := by
  cases hi : indexFrom pos tbl s with
  | none => exact absurd h (indexFrom_none.mp hi)
  | some i => exact ⟨i, rfl⟩

/-- In a duplicate-free table two names with the same index are equal. -/
theorem indexFrom_inj {pos : Nat} {tbl : List α} {s t : α} {i : Nat}
    (hs : indexFrom pos tbl s = some i) (ht : indexFrom pos tbl t = some i) : s = t := by
  have a := (indexFrom_some hs).2.2
  have b := (indexFrom_some ht).2.2
  rw [a] at b; exact Option.some.inj b

/-- Membership in a decomposition is decided by the bit at the name's position. -/
theorem mem_decomposeFrom {pos : Nat} {tbl : List α} (x : Nat) (hnd : tbl.Nodup) (hlen : pos + tbl.length ≤ 32) (s : α) :
    s ∈ decomposeFrom pos tbl x ↔ ∃ i, indexFrom pos tbl s = some i ∧ x.testBit i = true := by
  induction tbl generalizing pos with
  | nil => simp [decomposeFrom, indexFrom]
  | cons b bs ih =>
    have hnd' := List.nodup_cons.mp hnd
    have hl : pos + 1 + bs.length ≤ 32 := by simp at hlen; omega
    have hp : pos < 32 := by simp at hlen; omega
    simp only [decomposeFrom, indexFrom, bit_eq hp, implies_two_pow]
    by_cases hbs : b = s
    · subst hbs
      by_cases hx : x.testBit pos = true
      · simp [hx]
      · simp only [hx]
        have : b ∉ decomposeFrom (pos + 1) bs x := by
          intro hm
          obtain ⟨i, hi, _⟩ := (ih hnd'.2 hl).mp hm
          exact hnd'.1 (by have := indexFrom_none (pos := pos + 1) (tbl := bs) (s := b); grind)
        simp [this]; simpa using hx
    · simp only [hbs, if_false]
      by_cases hx : x.testBit pos = true
      · simp only [hx, if_true, List.mem_cons]
        rw [ih hnd'.2 hl]
        constructor
        · rintro (h | h)
          · exact absurd h.symm hbs
          · exact h
        · exact Or.inr
      · simp only [hx]; exact ih hnd'.2 hl

/-- A decomposition lists names in table order, each at most once. -/
theorem decomposeFrom_sublist (pos : Nat) (tbl : List α) (x : Nat) : (decomposeFrom pos tbl x).Sublist tbl := by
  induction tbl generalizing pos with
  | nil => simp [decomposeFrom]
  | cons b bs ih =>
    simp only [decomposeFrom]
    split
    · exact (ih _).cons_cons b
    · exact (ih _).cons b

/-- Two sub-lists of a duplicate-free list with the same members are equal. -/
theorem sublist_ext {l a b : List α} (hnd : l.Nodup) (ha : a.Sublist l) (hb : b.Sublist l)
    (h : ∀ x, x ∈ a ↔ x ∈ b) : a = b := by
  induction l generalizing a b with
  | nil => simp at ha hb; simp [ha, hb]
  | cons x xs ih =>
    have hnd' := List.nodup_cons.mp hnd
    cases ha with
    | cons _ ha' =>
      cases hb with
      | cons _ hb' => exact ih hnd'.2 ha' hb' h
      | cons_cons _ hb' =>
        have : x ∈ a := (h x).mpr (by simp)
        exact absurd (ha'.subset this) hnd'.1
    | cons_cons _ ha' =>
      rename_i a'
      cases hb with
      | cons _ hb' =>
        have : x ∈ b := (h x).mp (by simp)
        exact absurd (hb'.subset this) hnd'.1
      | cons_cons _ hb' =>
        rename_i b'
        congr 1
        apply ih hnd'.2 ha' hb'
        intro y
        have := h y
        simp only [List.mem_cons] at this
        constructor
        · intro hy
          have hne : y ≠ x := fun e => hnd'.1 (e ▸ ha'.subset hy)
          have := this.mp (Or.inr hy); simpa [hne] using this
        · intro hy
          have hne : y ≠ x := fun e => hnd'.1 (e ▸ hb'.subset hy)
          have := this.mpr (Or.inr hy); simpa [hne] using this

theorem testBit_compose {tbl : List α} (hlen : tbl.length ≤ 32) {S : List α} {v : Nat}
    (h : compose tbl S = some v) (j : Nat) :
    v.testBit j = true ↔ ∃ s ∈ S, indexFrom 0 tbl s = some j := by
  induction S generalizing v with
  | nil => simp [compose] at h; subst h; simp
  | cons s ss ih =>
    simp only [compose, project, projectFrom_eq] at h
    cases hi : indexFrom 0 tbl s with
    | none => simp [hi] at h
    | some i =>
      cases hc : compose tbl ss with
      | none => simp [hi, hc] at h
      | some w =>
        simp [hi, hc] at h
        subst h
        have hi32 : i < 32 := by have := (indexFrom_some hi).2.1; omega
        rw [Nat.testBit_or, bit_eq hi32, Nat.testBit_two_pow, Bool.or_eq_true, ih hc]
        simp only [decide_eq_true_eq, List.mem_cons]
        constructor
        · rintro (h | ⟨t, ht, hti⟩)
          · exact ⟨s, Or.inl rfl, h ▸ hi⟩
          · exact ⟨t, Or.inr ht, hti⟩
        · rintro ⟨t, ht | ht, hti⟩
          · subst ht; rw [hi] at hti; exact Or.inl (Option.some.inj hti)
          · exact Or.inr ⟨t, ht, hti⟩

theorem compose_isSome {tbl : List α} {S : List α} (h : ∀ s ∈ S, s ∈ tbl) : ∃ v, compose tbl S = some v := by
  induction S with
  | nil => exact ⟨0, rfl⟩
  | cons s ss ih =>
    obtain ⟨w, hw⟩ := ih (fun t ht => h t (List.mem_cons_of_mem _ ht))
    obtain ⟨i, hi⟩ := indexFrom_isSome (pos := 0) (h s (by simp))
    exact ⟨bit i ||| w, by simp [compose, project, projectFrom_eq, hi, hw]⟩

end Ipr.Bits

namespace Ipr.Bits
variable {α : Type} [DecidableEq α]

theorem indexFrom_getElem {pos : Nat} {tbl : List α} (hnd : tbl.Nodup) {i : Nat} (hi : i < tbl.length) :
    indexFrom pos tbl tbl[i] = some (pos + i) := by
  induction tbl generalizing pos i with
  | nil => simp at hi
  | cons x xs ih =>
    have hnd' := List.nodup_cons.mp hnd
    cases i with
    | zero => simp [indexFrom]
    | succ j =>
      simp only [List.getElem_cons_succ, indexFrom]
      have hj : j < xs.length := by simpa using hi
      have hne : x ≠ xs[j] := fun e => hnd'.1 (e ▸ List.getElem_mem hj)
      simp only [hne, if_false]
      rw [ih hnd'.2 hj]; congr 1; omega

theorem mem_decompose {tbl : List α} (x : Nat) (hnd : tbl.Nodup) (hlen : tbl.length ≤ 32) (s : α) :
    s ∈ decompose tbl x ↔ ∃ i, indexFrom 0 tbl s = some i ∧ x.testBit i = true :=
  mem_decomposeFrom x hnd (by omega) s

theorem decompose_sublist (tbl : List α) (x : Nat) : (decompose tbl x).Sublist tbl := decomposeFrom_sublist 0 tbl x

/-- A decomposition is determined by its members. -/
theorem decompose_eq_filter {tbl : List α} (x : Nat) (hnd : tbl.Nodup) (p : α → Bool)
    (h : ∀ s, s ∈ tbl → (s ∈ decompose tbl x ↔ p s = true)) : decompose tbl x = tbl.filter p := by
  apply sublist_ext hnd (decompose_sublist tbl x) List.filter_sublist
  intro s
  simp only [List.mem_filter]
  constructor
  · intro hs; have hm := (decompose_sublist tbl x).subset hs; exact ⟨hm, (h s hm).mp hs⟩
  · rintro ⟨hm, hp⟩; exact (h s hm).mpr hp

end Ipr.Bits
