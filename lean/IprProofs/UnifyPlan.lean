import IprProofs.UnifyL0
/-! The code-shaped `plan` of every request files only admissible keys and ends at the documented normal form. -/
set_option linter.unusedSimpArgs false
namespace Ipr.Unify

theorem qualView_some {h : Heap} {t : Ref} {q1 : Nat} {t1 : Ref} (hq : qualView h t = some (q1, t1)) :
    ∃ i args, t = .dyn i ∧ h[i]? = some ⟨.qualifieds, [.num q1, .node t1], args⟩ := by
  cases t with
  | stat s => simp [qualView] at hq
  | dyn i =>
    simp only [qualView] at hq
    split at hq
    · rename_i args heq
      simp only [Option.some.injEq, Prod.mk.injEq] at hq
      obtain ⟨h1, h2⟩ := hq
      subst h1; subst h2
      exact ⟨i, args, rfl, heq⟩
    · cases hq

/-- In a heap without nested qualifications the recursion of `get_qualified` stops after one merge. -/
theorem qualTarget_spec {cfg : Config} {h : Heap} (hr : RecsOk cfg h) (q : Nat) (t : Ref) (hv : t.valid h = true) :
    qualTarget h (h.size + 1) q t =
      (match qualView h t with
       | some (q1, t1) => (q ||| q1, t1)
       | none => (q, t)) ∧
    (qualTarget h (h.size + 1) q t).2.valid h = true ∧ qualView h (qualTarget h (h.size + 1) q t).2 = none := by
  cases hq : qualView h t with
  | none => simp [qualTarget, hq, hv]
  | some p =>
    obtain ⟨q1, t1⟩ := p
    obtain ⟨i, args, rfl, hget⟩ := qualView_some hq
    have hk := hr i _ hget
    simp only [keyOk] at hk
    obtain ⟨_, hv1, hq1⟩ := hk
    have hpos : h.size = (h.size - 1) + 1 := by have := lt_size_of_get hget; omega
    have : qualTarget h (h.size + 1) q (.dyn i) = (q ||| q1, t1) := by
      rw [hpos]
      simp [qualTarget, hq, hq1]
    rw [this]
    exact ⟨rfl, hv1, hq1⟩

@[simp] theorem allSteps_one (tag : Tag) (key : Key) (args : List Ref) :
    (one tag key args).allSteps = [⟨tag, key, args.map .ref⟩] := rfl

theorem stepsOk_one {cfg : Config} {h : Heap} {tag : Tag} {key : Key} {args : List Ref} :
    StepsOk cfg h (one tag key args).allSteps ↔ keyOk cfg h tag key := by
  simp [StepsOk]

theorem internStr_ok (cfg : Config) (h : Heap) (w : List Int) (b : Nat) : StepsOk cfg h (internStr cfg w b).1 := by
  unfold internStr
  split
  · simp [StepsOk]
  · split
    · simp [StepsOk]
    · rename_i hw _ hk
      simp [StepsOk, keyOk, hw, hk]

theorem internLogo_ok (cfg : Config) (h : Heap) (w : List Int) (s : Arg) (b : Nat) : StepsOk cfg h (internLogo cfg w s b).1 := by
  unfold internLogo
  split
  · simp [StepsOk]
  · split
    · simp [StepsOk]
    · rename_i hw _ hk
      simp [StepsOk, keyOk, hw, hk]

theorem StepsOk.append {cfg : Config} {h : Heap} {a b : List Step} (ha : StepsOk cfg h a) (hb : StepsOk cfg h b) :
    StepsOk cfg h (a ++ b) := by
  intro st hst
  rcases List.mem_append.mp hst with h1 | h1
  · exact ha st h1
  · exact hb st h1

theorem stepsOk_single {cfg : Config} {h : Heap} {st : Step} (hk : keyOk cfg h st.tag st.key) : StepsOk cfg h [st] := by
  intro s hs; simp at hs; subst hs; exact hk

theorem planIdentifier_ok (cfg : Config) (h : Heap) (w : List Int) (pre : List Step) (s : Arg) (hpre : StepsOk cfg h pre) :
    StepsOk cfg h (planIdentifier cfg w pre s).allSteps := by
  unfold planIdentifier
  split
  · simp [Plan.allSteps, StepsOk]
  · rename_i hk
    exact hpre.append (stepsOk_single (by simp [keyOk, hk]))

theorem planLinkageFromString_ok (cfg : Config) (h : Heap) (w : List Int) (pre : List Step) (s : Arg)
    (hpre : StepsOk cfg h pre) : StepsOk cfg h (planLinkageFromString cfg w pre s).allSteps := by
  unfold planLinkageFromString
  simp only [Plan.allSteps]
  exact (hpre.append (internLogo_ok cfg h w s pre.length)).append (stepsOk_single (by simp [keyOk]))

/-- Every request files admissible keys only. -/
theorem plan_ok {cfg : Config} {h : Heap} (hi : Inv cfg h) (req : Req) (hv : req.operands.all (Ref.valid h) = true) :
    StepsOk cfg h (plan cfg h req).allSteps := by
  cases req
  case qualified q t =>
    simp only [plan]
    split
    · simp [Plan.allSteps, StepsOk]
    · rename_i hq
      have hvt : t.valid h = true := by simpa [Req.operands] using hv
      obtain ⟨heq, hv', hq'⟩ := qualTarget_spec hi.recs q t hvt
      rw [stepsOk_one]
      simp only [keyOk]
      refine ⟨?_, hv', hq'⟩
      rw [heq]
      split <;> simp [Nat.or_eq_zero_iff, hq]
  case identifierS s =>
    simp only [plan]; split
    · exact planIdentifier_ok cfg h _ [] _ (by simp [StepsOk])
    · simp [Plan.allSteps, StepsOk]
  case identifierW w => exact planIdentifier_ok cfg h w _ _ (internStr_ok cfg h w 0)
  case unit => exact planIdentifier_ok cfg h [] _ _ (internStr_ok cfg h [] 0)
  case operatorW w => exact (internStr_ok cfg h w 0).append (stepsOk_single (by simp [keyOk]))
  case literalW t w => exact (internStr_ok cfg h w 0).append (stepsOk_single (by simp [keyOk]))
  case linkageW w =>
    simp only [plan]; split
    · simp [Plan.allSteps, StepsOk]
    · split
      · simp [Plan.allSteps, StepsOk]
      · exact planLinkageFromString_ok cfg h w _ _ (internStr_ok cfg h w 0)
  case linkageS s =>
    simp only [plan]; split
    · split
      · simp [Plan.allSteps, StepsOk]
      · split
        · simp [Plan.allSteps, StepsOk]
        · split
          · exact planLinkageFromString_ok cfg h _ [] _ (by simp [StepsOk])
          · simp [Plan.allSteps, StepsOk]
    · simp [Plan.allSteps, StepsOk]
  case callingConvention w =>
    exact ((internStr_ok cfg h w 0).append (internLogo_ok cfg h w _ _)).append (stepsOk_single (by simp [keyOk]))
  case string w =>
    simp only [plan]; split
    · simp [Plan.allSteps, StepsOk]
    · split
      · simp [Plan.allSteps, StepsOk]
      · rename_i hw _ hk
        exact stepsOk_one.mpr (by simp [keyOk, hw, hk])
  case logogram s =>
    simp only [plan]; split
    · split
      · simp [Plan.allSteps, StepsOk]
      · split
        · simp [Plan.allSteps, StepsOk]
        · rename_i hw _ hk
          exact stepsOk_one.mpr (by simp [keyOk, hw, hk])
    · simp [Plan.allSteps, StepsOk]
  all_goals
    simp only [plan, planFunctionE, planFunctionEX, planAsTypeExpr, planTransferL, planTransferC, planSymbol]
    repeat' split
    all_goals simp [Plan.allSteps, StepsOk, keyOk, one]

theorem planKey_planIdentifier (cfg : Config) (w : List Int) (pre : List Step) (s : Arg) :
    planKey (planIdentifier cfg w pre s) = some (normIdentifier cfg w) := by
  unfold planIdentifier normIdentifier
  split <;> simp_all [planKey]

theorem planKey_planLinkageFromString (cfg : Config) (w : List Int) (pre : List Step) (s : Arg) :
    planKey (planLinkageFromString cfg w pre s) = some (.linkages, [.str w]) := by
  simp [planLinkageFromString, planKey]

/-- The code-shaped plan of every request ends at the documented normal form. -/
theorem plan_norm {cfg : Config} {h : Heap} (hi : Inv cfg h) (req : Req) (hv : req.operands.all (Ref.valid h) = true) :
    planKey (plan cfg h req) = norm cfg h req := by
  cases req
  case qualified q t =>
    simp only [plan, norm]
    split
    · rfl
    · have hvt : t.valid h = true := by simpa [Req.operands] using hv
      obtain ⟨heq, _, _⟩ := qualTarget_spec hi.recs q t hvt
      rw [heq]
      cases hq : qualView h t with
      | none => simp [planKey, one]
      | some p => simp [planKey, one]
  case identifierS s =>
    simp only [plan, norm]
    cases hs : strOf cfg h s with
    | none => simp [planKey]
    | some w => simp only [Option.map_some, planKey_planIdentifier]
  case identifierW w => simp only [plan, norm, planKey_planIdentifier]
  case unit => simp only [plan, norm, planKey_planIdentifier]
  case linkageW w =>
    simp only [plan, norm, normLinkage]
    split
    · rfl
    · split
      · rfl
      · simp [planKey_planLinkageFromString]
  case linkageS s =>
    simp only [plan, norm]
    split
    · split
      · rfl
      · split
        · rfl
        · cases hs : strOf cfg h s with
          | none => simp [planKey]
          | some w => simp only [Option.map_some, planKey_planLinkageFromString]
    · simp_all [planKey]
  case string w =>
    simp only [plan, norm, normString]
    split
    · rfl
    · split <;> simp_all [planKey, one]
  case logogram s =>
    simp only [plan, norm]
    cases hs : strOf cfg h s with
    | none => simp [planKey]
    | some w =>
      simp only [Option.map_some, normLogogram]
      split
      · rfl
      · split <;> simp_all [planKey, one]
  all_goals
    simp only [plan, norm, normFunction, planFunctionE, planFunctionEX, planAsTypeExpr, planTransferL, planTransferC,
      planSymbol, normSymbol, isNatural, Option.getD]
    repeat' split
    all_goals simp_all [planKey, one]

end Ipr.Unify
