import IprModel.Printer
/-!
# Fuel stability of the printer model

`dispatch` takes a fuel argument only to be a total function.  Once a run ends without running out of fuel, every larger
amount of fuel gives the very same result (text, printer state, outcome): the fuel is not observable.
-/
namespace Ipr.Printer

variable {h : Heap}

/-- `rec'` answers like `rec` wherever `rec` does not run out of fuel. -/
def Extends (rec rec' : Rec) : Prop := ∀ e a st, (rec e a st).status ≠ .fuel → rec' e a st = rec e a st

theorem bind_stable {r r' : Res} {f f' : PState → Res} (hr : r.status ≠ .fuel → r' = r)
    (hf : ∀ st, (f st).status ≠ .fuel → f' st = f st) (hne : (r.bind f).status ≠ .fuel) : r'.bind f' = r.bind f := by
  have h1 : r.status ≠ .fuel := by
    intro e; apply hne; unfold Res.bind; rw [e]; exact e
  rw [hr h1]
  unfold Res.bind at hne ⊢
  cases hs : r.status with
  | ok => simp only [hs] at hne ⊢; exact hf _ hne
  | logic => rfl
  | fuel => exact absurd hs h1

theorem runSeq_stable {rec rec' : Rec} (hx : Extends rec rec') (k : SeqKind) : ∀ (l : List Addr) (first : Bool) (st : PState),
    (runSeq rec k l first st).status ≠ .fuel → runSeq rec' k l first st = runSeq rec k l first st
  | [], _, _, _ => rfl
  | x :: xs, first, st, hne => by
    simp only [runSeq] at hne ⊢
    exact bind_stable (hx _ _ _) (fun st' => runSeq_stable hx k xs false _) hne

theorem step_stable {rec rec' : Rec} (hx : Extends rec rec') (cls : VClass) (strict : Bool) (a : Addr) (r : NodeRec) (i : Instr)
    (st : PState) (hne : (step h rec cls strict a r i st).status ≠ .fuel) :
    step h rec' cls strict a r i st = step h rec cls strict a r i st := by
  cases i with
  | acc e p =>
    simp only [step] at hne ⊢
    cases hf : follow h a p with
    | none => rfl
    | some b => simp only [hf] at hne ⊢; exact hx _ _ _ hne
  | accSame p =>
    simp only [step] at hne ⊢
    cases hf : follow h a p with
    | none => rfl
    | some b => simp only [hf] at hne ⊢; exact hx _ _ _ hne
  | each k p w =>
    simp only [step] at hne ⊢
    cases hf : follow h a p with
    | none => rfl
    | some b => simp only [hf] at hne ⊢; exact runSeq_stable hx k _ true st hne
  | _ => rfl

theorem runInstrs_stable {rec rec' : Rec} (hx : Extends rec rec') (cls : VClass) (strict : Bool) (a : Addr) (r : NodeRec) :
    ∀ (is : List Instr) (st : PState), (runInstrs h rec cls strict a r is st).status ≠ .fuel →
      runInstrs h rec' cls strict a r is st = runInstrs h rec cls strict a r is st
  | [], _, _ => rfl
  | i :: is, st, hne => by
    simp only [runInstrs] at hne ⊢
    exact bind_stable (step_stable hx cls strict a r i st) (fun st' => runInstrs_stable hx cls strict a r is st') hne

theorem dispatch_succ (o : Opts) : ∀ n, Extends (dispatch h o n) (dispatch h o (n + 1))
  | 0 => by intro e a st hne; exact absurd rfl hne
  | n + 1 => by
    intro e a st hne
    simp only [dispatch] at hne ⊢
    exact bind_stable (runInstrs_stable (dispatch_succ o n) e.cls e.strict a (h a) _ _) (fun _ _ => rfl) hne

theorem dispatch_stable (o : Opts) (n m : Nat) (hnm : n ≤ m) : Extends (dispatch h o n) (dispatch h o m) := by
  induction m with
  | zero => have : n = 0 := by omega
            subst this; intro _ _ _ _; rfl
  | succ m ih =>
    by_cases hle : n ≤ m
    · intro e a st hne
      have h1 := ih hle e a st hne
      have h2 := dispatch_succ (h := h) o m e a st (by rw [h1]; exact hne)
      rw [h2, h1]
    · have : n = m + 1 := by omega
      subst this; intro _ _ _ _; rfl

end Ipr.Printer
