import IprModel.RBTree
/-! Invariants of the red-black insertion model: colour/black-height rules, in-order preservation, search. -/
namespace Ipr

/-- Induction on a history by its last step (core Lean has no `List.reverseRecOn`). -/
theorem List.snocInduction {α : Type} {motive : List α → Prop} (nil : motive [])
    (append_singleton : ∀ (l : List α) (a : α), motive l → motive (l ++ [a])) (l : List α) : motive l := by
  have h : ∀ r : List α, motive r.reverse := by
    intro r
    induction r with
    | nil => simpa using nil
    | cons a r ih => simpa using append_singleton _ a ih
  simpa using h l.reverse

end Ipr

namespace Ipr.RB
namespace Tree
variable {α : Type}

/-- `RB t c n`: `t` obeys the red-black rules, its root has colour `c` (nil is black), black height `n`. -/
inductive RB : Tree α → Color → Nat → Prop
  | nil : RB .nil .black 0
  | red {l r k n} : RB l .black n → RB r .black n → RB (.node .red l k r) .red n
  | black {l r k c1 c2 n} : RB l c1 n → RB r c2 n → RB (.node .black l k r) .black (n+1)

/-- `Ctx path c n`: the hole of the context expects a subtree of root colour `c` and black height `n`;
    every ancestor obeys the rules and the outermost one is arbitrary (the root is blackened at the end). -/
inductive Ctx : Path α → Color → Nat → Prop
  | root {c n} : Ctx [] c n
  | black {d k sib cs c n rest} : RB sib cs n → Ctx rest .black (n+1) → Ctx (⟨d, .black, k, sib⟩ :: rest) c n
  | red {d k sib n rest} : RB sib .black n → Ctx rest .red n → Ctx (⟨d, .red, k, sib⟩ :: rest) .black n

theorem blacken_rb {t : Tree α} {c n} (h : RB t c n) : ∃ m, RB t.blacken .black m := by
  cases h with
  | nil => exact ⟨0, .nil⟩
  | red hl hr => exact ⟨_, .black hl hr⟩
  | black hl hr => exact ⟨_, .black hl hr⟩

theorem zip_rb {path : Path α} : ∀ {t : Tree α} {c n}, RB t c n → Ctx path c n → ∃ c' m, RB (zip t path) c' m := by
  induction path with
  | nil => intro t c n h _; exact ⟨c, n, h⟩
  | cons f rest ih =>
    intro t c n h hc
    cases hc with
    | black hs hrest =>
      rename_i d k sib cs
      cases d with
      | L => exact ih (t := Tree.node .black t k sib) (.black h hs) hrest
      | R => exact ih (t := Tree.node .black sib k t) (.black hs h) hrest
    | red hs hrest =>
      rename_i d k sib
      cases d with
      | L => exact ih (t := Tree.node .red t k sib) (.red h hs) hrest
      | R => exact ih (t := Tree.node .red sib k t) (.red hs h) hrest

theorem isRed_false_rb {t : Tree α} {c n} (h : RB t c n) (hr : t.isRed = false) : c = .black := by
  cases h <;> simp_all [isRed]

theorem isRed_true_rb {t : Tree α} {c n} (h : RB t c n) (hr : t.isRed = true) :
    ∃ l k r, t = .node .red l k r ∧ RB l .black n ∧ RB r .black n := by
  cases h with
  | nil => simp [isRed] at hr
  | red hl hr' => exact ⟨_, _, _, rfl, hl, hr'⟩
  | black _ _ => simp [isRed] at hr

/-- Fix-up re-establishes the rules, by strong induction on the path length (the loop's variant). -/
theorem fixup_rb : ∀ (len : Nat) (path : Path α), path.length = len → ∀ (zl zr : Tree α) (zk : α) (n : Nat),
    RB zl .black n → RB zr .black n → Ctx path .black n →
    ∃ m, RB (fixup (.node .red zl zk zr) path) .black m := by
  intro len
  induction len using Nat.strongRecOn with
  | _ len ih =>
  intro path hlen zl zr zk n hl hr hctx
  have hz : RB (Tree.node .red zl zk zr) .red n := .red hl hr
  match path, hctx with
  | [], _ => exact ⟨_, by simpa [fixup, blacken] using RB.black hl hr⟩
  | [p], hctx =>
    cases hctx with
    | black hs hrest =>
      rename_i d k sib cs
      cases d <;> simp [fixup, plug, blacken]
      · exact ⟨_, .black hz hs⟩
      · exact ⟨_, .black hs hz⟩
    | red hs hrest =>
      rename_i d k sib
      cases d <;> simp [fixup, plug, blacken]
      · exact ⟨_, .black hz hs⟩
      · exact ⟨_, .black hs hz⟩
  | p :: g :: rest, hctx =>
    cases hctx with
    | black hs hrest =>
      rename_i d k sib cs
      have hc : Ctx (⟨d, .black, k, sib⟩ :: g :: rest) .red n := .black hs hrest
      obtain ⟨c', m, h⟩ := zip_rb hz hc
      obtain ⟨m', h'⟩ := blacken_rb h
      exact ⟨m', by simpa [fixup] using h'⟩
    | red hs hrest =>
      rename_i d k sib
      cases hrest with
      | black hgs hgrest =>
        rename_i gd gk gsib gcs
        by_cases hu : gsib.isRed = true
        · obtain ⟨ul, uk, ur, rfl, hul, hur⟩ := isRed_true_rb hgs hu
          have hub : RB (Tree.node .black ul uk ur) .black (n+1) := .black hul hur
          have : fixup (.node .red zl zk zr) (⟨d, .red, k, sib⟩ :: ⟨gd, .black, gk, .node .red ul uk ur⟩ :: rest)
               = fixup ((((Tree.node .red zl zk zr).plug ⟨d, .black, k, sib⟩)).plug ⟨gd, .red, gk, .node .black ul uk ur⟩) rest := by
            simp [fixup, isRed, blacken]
          rw [this]
          have hp : RB ((Tree.node .red zl zk zr).plug ⟨d, .black, k, sib⟩) .black (n+1) := by
            cases d <;> simp [plug]
            · exact .black hz hs
            · exact .black hs hz
          have hlt : rest.length < len := by simp at hlen; omega
          cases gd <;> simp only [plug]
          · exact ih _ hlt rest rfl _ _ _ _ hp hub hgrest
          · exact ih _ hlt rest rfl _ _ _ _ hub hp hgrest
        · have hu' : gsib.isRed = false := by simpa using hu
          have hgc := isRed_false_rb hgs hu'
          subst hgc
          have key : ∀ sub : Tree α, RB sub .black (n+1) → ∃ m, RB (zip sub rest).blacken .black m := by
            intro sub hsub
            obtain ⟨c', m, h⟩ := zip_rb hsub hgrest
            exact blacken_rb h
          cases gd <;> cases d <;> simp [fixup, hu'] <;> apply key
          · exact .black hz (.red hs hgs)
          · exact .black (.red hs hl) (.red hr hgs)
          · exact .black (.red hgs hl) (.red hr hs)
          · exact .black (.red hgs hs) hz

/-- The search path ends at a hole that expects a black subtree of black height 0 (where `nil` was). -/
theorem descend_ctx (cmp : α → α → Int) (key : α) :
    ∀ (t : Tree α) (path : Path α) (c : Color) (n : Nat), RB t c n → Ctx path c n →
      ∀ path', descend cmp key t path = some path' → Ctx path' .black 0 := by
  intro t
  induction t with
  | nil =>
    intro path c n h hc path' hd
    cases h
    simp [descend] at hd
    subst hd; exact hc
  | node c' l k r ihl ihr =>
    intro path c n h hc path' hd
    simp only [descend] at hd
    cases h with
    | red hl hr =>
      split at hd
      · exact ihl _ _ _ hl (.red hr hc) _ hd
      · split at hd
        · exact ihr _ _ _ hr (.red hl hc) _ hd
        · simp at hd
    | black hl hr =>
      split at hd
      · exact ihl _ _ _ hl (.black hr hc) _ hd
      · split at hd
        · exact ihr _ _ _ hr (.black hl hc) _ hd
        · simp at hd

/-- A tree the library can hold: black root and the red-black rules. -/
def RBInv (t : Tree α) : Prop := ∃ n, RB t .black n

theorem insert_rb (cmp : α → α → Int) (t : Tree α) (key : α) (h : RBInv t) : RBInv (insert cmp t key) := by
  obtain ⟨n, h⟩ := h
  unfold insert
  split
  · exact ⟨n, h⟩
  · rename_i path hd
    have hc := descend_ctx cmp key t [] .black n h .root path hd
    exact fixup_rb _ path rfl .nil .nil key 0 .nil .nil hc

/-! ### In-order sequence -/

def fL (f : Frame α) : List α := match f.dir with | .L => [] | .R => inorder f.sib ++ [f.k]
def fR (f : Frame α) : List α := match f.dir with | .L => f.k :: inorder f.sib | .R => []
def ctxL : Path α → List α | [] => [] | f :: fs => ctxL fs ++ fL f
def ctxR : Path α → List α | [] => [] | f :: fs => fR f ++ ctxR fs

@[simp] theorem inorder_blacken (t : Tree α) : inorder t.blacken = inorder t := by
  cases t <;> simp [blacken, inorder]

theorem inorder_plug (t : Tree α) (f : Frame α) : inorder (t.plug f) = fL f ++ inorder t ++ fR f := by
  cases f with | mk d c k sib => cases d <;> simp [plug, inorder, fL, fR]

theorem inorder_zip (path : Path α) : ∀ t : Tree α, inorder (zip t path) = ctxL path ++ inorder t ++ ctxR path := by
  induction path with
  | nil => intro t; simp [zip, ctxL, ctxR]
  | cons f fs ih => intro t; simp [zip, ih, inorder_plug, ctxL, ctxR, List.append_assoc]

/-- Fix-up never reorders keys. -/
theorem inorder_fixup : ∀ (len : Nat) (path : Path α), path.length = len → ∀ z : Tree α, z ≠ .nil →
    inorder (fixup z path) = ctxL path ++ inorder z ++ ctxR path := by
  intro len
  induction len using Nat.strongRecOn with
  | _ len ih =>
  intro path hlen z hz
  match path with
  | [] => simp [fixup, ctxL, ctxR]
  | [p] => simp [fixup, inorder_plug, ctxL, ctxR]
  | p :: g :: rest =>
    cases z with
    | nil => exact absurd rfl hz
    | node zc zl zk zr =>
    unfold fixup
    split
    · simp [inorder_zip]
    · split
      · rename_i hred
        have hlt : rest.length < len := by simp at hlen; omega
        rw [ih _ hlt rest rfl _ (by cases g with | mk d c k s => cases d <;> simp [plug])]
        cases p with | mk pd pc pk ps => cases g with | mk gd gc gk gs =>
        cases pd <;> cases gd <;> simp [plug, inorder, ctxL, ctxR, fL, fR, List.append_assoc]
      · cases p with | mk pd pc pk ps => cases g with | mk gd gc gk gs =>
        cases pd <;> cases gd <;> simp [inorder_zip, inorder, ctxL, ctxR, fL, fR, List.append_assoc]

/-- The search path splits the in-order sequence of the original tree around the hole. -/
theorem descend_inorder (cmp : α → α → Int) (key : α) :
    ∀ (t : Tree α) (path path' : Path α), descend cmp key t path = some path' →
      ctxL path' ++ ctxR path' = ctxL path ++ inorder t ++ ctxR path := by
  intro t
  induction t with
  | nil => intro path path' hd; simp [descend] at hd; subst hd; simp [inorder]
  | node c l k r ihl ihr =>
    intro path path' hd
    simp only [descend] at hd
    split at hd
    · rw [ihl _ _ hd]; simp [ctxL, ctxR, fL, fR, inorder, List.append_assoc]
    · split at hd
      · rw [ihr _ _ hd]; simp [ctxL, ctxR, fL, fR, inorder, List.append_assoc]
      · simp at hd

/-- Inserting an absent key places it in the in-order sequence and moves nothing else. -/
theorem inorder_insert_some (cmp : α → α → Int) (t : Tree α) (key : α) (path : Path α)
    (hd : descend cmp key t [] = some path) :
    inorder (insert cmp t key) = ctxL path ++ key :: ctxR path ∧ inorder t = ctxL path ++ ctxR path := by
  constructor
  · unfold insert; rw [hd]
    have := inorder_fixup _ path rfl (Tree.node .red .nil key .nil) (by simp)
    simpa [inorder] using this
  · have := descend_inorder cmp key t [] path hd
    simpa [ctxL, ctxR] using this.symm

theorem insert_none (cmp : α → α → Int) (t : Tree α) (key : α) (hd : descend cmp key t [] = none) :
    insert cmp t key = t := by unfold insert; rw [hd]

/-! ### Size and height -/

theorem size_eq_length (t : Tree α) : size t = (inorder t).length := by
  induction t with
  | nil => rfl
  | node c l k r ihl ihr => simp [size, inorder, ihl, ihr]; omega

theorem rb_size {t : Tree α} {c n} (h : RB t c n) : 2 ^ n ≤ size t + 1 := by
  induction h with
  | nil => simp [size]
  | red _ _ ihl ihr => simp only [size]; omega
  | black _ _ ihl ihr => simp only [size, Nat.pow_succ]; omega

theorem rb_height {t : Tree α} {c n} (h : RB t c n) : height t ≤ 2 * n + (if c = .red then 1 else 0) := by
  induction h with
  | nil => simp [height]
  | red _ _ ihl ihr => simp only [height] at *; simp at *; omega
  | black hl hr ihl ihr =>
    rename_i l r k c1 c2 n
    simp only [height]
    have : height l ≤ 2 * n + 1 := by split at ihl <;> omega
    have : height r ≤ 2 * n + 1 := by split at ihr <;> omega
    simp; omega

theorem height_le_log {t : Tree α} (h : RBInv t) : height t ≤ 2 * Nat.log2 (size t + 1) := by
  obtain ⟨n, h⟩ := h
  have h1 := rb_size h
  have h2 := rb_height h
  simp at h2
  have : n ≤ Nat.log2 (size t + 1) := (Nat.le_log2 (by omega)).mpr h1
  omega

end Tree
end Ipr.RB
