import IprModel.Scope
import IprProofs.RBOrder
/-! Trees of `(key address, payload)` pairs compared on the key (`node_compare`): they behave as finite maps. -/
namespace Ipr.Scope
open Ipr.RB Ipr.RB.Tree

theorem icmp_neg (a b : Int) : icmp a b < 0 ↔ a < b := by unfold icmp; split <;> (try split) <;> omega
theorem icmp_pos (a b : Int) : 0 < icmp a b ↔ b < a := by unfold icmp; split <;> (try split) <;> omega
theorem icmp_zero (a b : Int) : icmp a b = 0 ↔ a = b := by unfold icmp; split <;> (try split) <;> omega

/-- Keys strictly descend along the in-order sequence (the C++ goes LEFT when `cmp(data,key) < 0`). -/
def KOrd (t : Tree KV) : Prop := (inorder t).Pairwise (fun a b => b.1 < a.1)

theorem KOrd_nil : KOrd (.nil : Tree KV) := by simp [KOrd, inorder]

/-- The heterogeneous search of the C++ is the homogeneous search of the red-black model with any payload. -/
theorem find_eq_findK (k : Int) (x : Nat) : ∀ t : Tree KV, find kcmp (k, x) t = findK k t := by
  intro t
  induction t with
  | nil => rfl
  | node c l d r ihl ihr => simp only [find, findK, kcmp, ihl, ihr]

theorem findK_sound (k : Int) (d : KV) : ∀ t : Tree KV, findK k t = some d → d ∈ inorder t ∧ d.1 = k := by
  intro t
  induction t with
  | nil => simp [findK]
  | node c l d' r ihl ihr =>
    simp only [findK, inorder]
    split
    · intro h; have := ihl h; exact ⟨by simp [this.1], this.2⟩
    · split
      · intro h; have := ihr h; exact ⟨by simp [this.1], this.2⟩
      · intro h
        simp at h; subst h
        rename_i h1 h2
        have := (icmp_zero d'.1 k).mp (by omega)
        exact ⟨by simp, this⟩

theorem findK_complete (d : KV) : ∀ t : Tree KV, KOrd t → d ∈ inorder t → findK d.1 t = some d := by
  intro t
  induction t with
  | nil => simp [inorder]
  | node c l d' r ihl ihr =>
    intro hd hm
    simp only [KOrd, inorder, List.pairwise_append, List.pairwise_cons] at hd
    obtain ⟨hdl, ⟨hkr, hdr⟩, hlr⟩ := hd
    simp only [inorder, List.mem_append, List.mem_cons] at hm
    simp only [findK]
    rcases hm with hm | hm | hm
    · have h1 : d'.1 < d.1 := hlr d hm d' (by simp)
      have h2 : icmp d'.1 d.1 < 0 := (icmp_neg _ _).mpr h1
      simp [h2]; exact ihl hdl hm
    · subst hm
      have := (icmp_zero d.1 d.1).mpr rfl
      simp [this]
    · have h1 : d.1 < d'.1 := hkr d hm
      have h2 : 0 < icmp d'.1 d.1 := (icmp_pos _ _).mpr h1
      have h3 : ¬ icmp d'.1 d.1 < 0 := by omega
      simp [h3, h2]; exact ihr hdr hm

theorem findK_some_iff (k : Int) (d : KV) (t : Tree KV) (ho : KOrd t) :
    findK k t = some d ↔ d ∈ inorder t ∧ d.1 = k :=
  ⟨findK_sound k d t, fun ⟨hm, hk⟩ => hk ▸ findK_complete d t ho hm⟩

theorem findK_none_iff (k : Int) (t : Tree KV) (ho : KOrd t) :
    findK k t = none ↔ ∀ d ∈ inorder t, d.1 ≠ k := by
  constructor
  · intro h d hm hk
    have := findK_complete d t ho hm
    rw [hk, h] at this; simp at this
  · intro h
    cases hf : findK k t with
    | none => rfl
    | some d => have := findK_sound k d t hf; exact absurd this.2 (h d this.1)

/-- Bounds collected along the search path: everything left of the hole has a greater key, everything right a smaller. -/
theorem descendK_bounds (k : Int) (v : Nat) :
    ∀ (t : Tree KV) (path path' : Path KV),
      (ctxL path ++ inorder t ++ ctxR path).Pairwise (fun a b => b.1 < a.1) →
      (∀ x ∈ ctxL path, k < x.1) → (∀ x ∈ ctxR path, x.1 < k) →
      descend kcmp (k, v) t path = some path' →
      (∀ x ∈ ctxL path', k < x.1) ∧ (∀ x ∈ ctxR path', x.1 < k) := by
  intro t
  induction t with
  | nil => intro path path' _ hl hr hd; simp [descend] at hd; subst hd; exact ⟨hl, hr⟩
  | node c l d r ihl ihr =>
    intro path path' hdesc hl hr hd
    simp only [descend] at hd
    have hin : ∀ x ∈ inorder l, d.1 < x.1 := by
      intro x hx
      have := hdesc
      simp only [inorder, List.pairwise_append, List.pairwise_cons, List.mem_append, List.mem_cons] at this
      exact this.1.2.1.2.2 x hx d (Or.inl rfl)
    have hir : ∀ x ∈ inorder r, x.1 < d.1 := by
      intro x hx
      have := hdesc
      simp only [inorder, List.pairwise_append, List.pairwise_cons, List.mem_append, List.mem_cons] at this
      exact this.1.2.1.2.1.1 x hx
    split at hd
    · rename_i hlt
      have hk : d.1 < k := (icmp_neg _ _).mp hlt
      refine ihl _ _ ?_ ?_ ?_ hd
      · simpa [ctxL, ctxR, fL, fR, inorder, List.append_assoc] using hdesc
      · simpa [ctxL, fL] using hl
      · intro x hx
        simp only [ctxR, fR, List.mem_append, List.mem_cons, List.cons_append] at hx
        rcases hx with hx | hx | hx
        · subst hx; exact hk
        · have := hir x hx; omega
        · exact hr x hx
    · split at hd
      · rename_i hnlt hgt
        have hk : k < d.1 := (icmp_pos _ _).mp hgt
        refine ihr _ _ ?_ ?_ ?_ hd
        · simpa [ctxL, ctxR, fL, fR, inorder, List.append_assoc] using hdesc
        · intro x hx
          simp only [ctxL, fL, List.mem_append, List.mem_cons, List.not_mem_nil, or_false] at hx
          rcases hx with hx | hx | hx
          · exact hl x hx
          · have := hin x hx; omega
          · subst hx; exact hk
        · simpa [ctxR, fR] using hr
      · simp at hd

/-- Inserting under a key that is present changes nothing (the stored object is returned). -/
theorem insert_present (k : Int) (v : Nat) (t : Tree KV) (d : KV) (h : findK k t = some d) :
    Tree.insert kcmp t (k, v) = t := by
  have : (find kcmp (k, v) t).isSome = true := by rw [find_eq_findK, h]; rfl
  exact insert_none kcmp t (k, v) ((descend_none_iff_find kcmp (k, v) t []).mpr this)

/-- Inserting under an absent key adds exactly that element and keeps the order. -/
theorem insert_absent (k : Int) (v : Nat) (t : Tree KV) (ho : KOrd t) (h : findK k t = none) :
    KOrd (Tree.insert kcmp t (k, v)) ∧
    ∀ d, d ∈ inorder (Tree.insert kcmp t (k, v)) ↔ d = (k, v) ∨ d ∈ inorder t := by
  cases hd : descend kcmp (k, v) t [] with
  | none =>
    have := (descend_none_iff_find kcmp (k, v) t []).mp hd
    rw [find_eq_findK, h] at this; simp at this
  | some path =>
    obtain ⟨h1, h2⟩ := inorder_insert_some kcmp t (k, v) path hd
    have hb := descendK_bounds k v t [] path (by simpa [ctxL, ctxR, KOrd] using ho) (by simp [ctxL]) (by simp [ctxR]) hd
    constructor
    · unfold KOrd at ho ⊢
      rw [h1]; rw [h2] at ho
      simp only [List.pairwise_append, List.pairwise_cons, List.mem_cons] at ho ⊢
      refine ⟨ho.1, ⟨hb.2, ho.2.1⟩, ?_⟩
      intro a ha b hb'
      rcases hb' with hb' | hb'
      · subst hb'; exact hb.1 a ha
      · exact ho.2.2 a ha b hb'
    · intro d
      rw [h1, h2]; simp only [List.mem_append, List.mem_cons]
      constructor
      · rintro (h | h | h) <;> simp [h]
      · rintro (h | h | h) <;> simp [h]

/-- `container::insert`: a fresh element is created exactly when the key is absent. -/
theorem container_insert_fresh (c : Container KV) (k : Int) (v : Nat) :
    (Container.insert kcmp c (k, v)).2 = (findK k c.tree).isNone ∧
    (Container.insert kcmp c (k, v)).1.tree = Tree.insert kcmp c.tree (k, v) := by
  unfold Container.insert Tree.insert
  cases hd : descend kcmp (k, v) c.tree [] with
  | none =>
    have := (descend_none_iff_find kcmp (k, v) c.tree []).mp hd
    rw [find_eq_findK] at this
    cases hf : findK k c.tree with
    | none => simp [hf] at this
    | some d => simp
  | some path =>
    cases hf : findK k c.tree with
    | none => simp
    | some d =>
      have : (find kcmp (k, v) c.tree).isSome = true := by rw [find_eq_findK, hf]; rfl
      have := (descend_none_iff_find kcmp (k, v) c.tree []).mpr this
      rw [hd] at this; simp at this

theorem chain_insert_tree (c : Chain KV) (kv : KV) : (Chain.insert kcmp c kv).tree = Tree.insert kcmp c.tree kv := rfl

end Ipr.Scope
