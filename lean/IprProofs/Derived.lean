import IprModel.Derived
/-! Lemmas for C15: traversal of sequences, record updates, interning tables. -/
namespace Ipr.Derived

/-! ### traversal -/

theorem Iter.eq_iff (a b : Iter) : a.eq b = true ↔ a = b := by
  cases a; cases b; simp [Iter.eq]

theorem Iter.ne_eq_not (a b : Iter) : a.ne b = !(a.eq b) := rfl

theorem SeqV.walk_from (s : SeqV) : ∀ (fuel i : Nat), i ≤ s.size → s.size - i < fuel →
    s.walk fuel ⟨s.name, i⟩ = (s.elems.drop i).map some := by
  intro fuel
  induction fuel with
  | zero => intro i _ hf; omega
  | succ fuel ih =>
    intro i hi hf
    unfold SeqV.walk
    by_cases h : i = s.size
    · subst h
      simp [Iter.ne, Iter.eq, SeqV.end_, SeqV.size]
    · have hlt : i < s.elems.length := by unfold SeqV.size at hi h; omega
      have hne : (Iter.mk s.name i).ne s.end_ = true := by
        simp [Iter.ne, Iter.eq, SeqV.end_, SeqV.size]; unfold SeqV.size at h; exact h
      rw [if_pos hne]
      have : (Iter.mk s.name i).next = ⟨s.name, i + 1⟩ := rfl
      have hi' : i + 1 ≤ s.size := hlt
      have hlt' : i < s.size := hlt
      rw [this, ih (i + 1) hi' (by omega)]
      simp only [SeqV.deref, SeqV.get]
      rw [List.drop_eq_getElem_cons hlt, List.getElem?_eq_getElem hlt]
      rfl

theorem SeqV.rwalk_from (s : SeqV) : ∀ (fuel i : Nat), i ≤ s.size → i < fuel →
    s.rwalk fuel ⟨s.name, i⟩ = ((s.elems.take i).reverse).map some := by
  intro fuel
  induction fuel with
  | zero => intro i _ hf; omega
  | succ fuel ih =>
    intro i hi hf
    unfold SeqV.rwalk
    cases i with
    | zero => simp [Iter.ne, Iter.eq, SeqV.begin]
    | succ j =>
      have hlt : j < s.elems.length := by simp only [SeqV.size] at hi; omega
      have hne : (Iter.mk s.name (j + 1)).ne s.begin = true := by simp [Iter.ne, Iter.eq, SeqV.begin]
      rw [if_pos hne]
      have : (Iter.mk s.name (j + 1)).prev = ⟨s.name, j⟩ := rfl
      rw [this, ih j (by omega) (by omega)]
      simp only [SeqV.deref, SeqV.get]
      rw [List.take_add_one, List.getElem?_eq_getElem hlt]
      simp only [Option.toList_some, List.reverse_append, List.reverse_cons, List.reverse_nil, List.nil_append,
        List.singleton_append, List.map_cons]

/-! ### records -/

theorem lookup_filter_ne (l : List (String × Fld)) (f g : String) (h : g ≠ f) :
    (l.filter (fun p => p.1 != g)).lookup f = l.lookup f := by
  induction l with
  | nil => rfl
  | cons p rest ih =>
    obtain ⟨k, v⟩ := p
    by_cases hk : k = g
    · subst hk
      have h1 : (f == k) = false := by simpa using fun e => h e.symm
      simp [List.filter, List.lookup, h1, ih]
    · have h2 : (k != g) = true := by simpa using hk
      simp only [List.filter, h2]
      by_cases hf : f = k
      · subst hf; simp [List.lookup]
      · have h3 : (f == k) = false := by simpa using hf
        simp [List.lookup, h3, ih]

theorem Rec.get_setField_same (r : Rec) (f : String) (v : Fld) : (r.setField f v).get f = v := by
  simp [Rec.setField, Rec.get]

theorem Rec.get_setField_ne (r : Rec) (f g : String) (v : Fld) (h : g ≠ f) : (r.setField g v).get f = r.get f := by
  have h1 : (f == g) = false := by simpa using fun e => h e.symm
  simp [Rec.setField, Rec.get, List.lookup, h1, lookup_filter_ne _ _ _ h]

theorem Rec.get_pushField (r : Rec) (f g : String) (x : Ref) :
    (r.pushField g x).get f =
      if g = f then (match r.get f with | .seq es => .seq (es ++ [x]) | v => v) else r.get f := by
  unfold Rec.pushField
  by_cases h : g = f
  · subst h
    simp only [if_true]
    cases hg : r.get g <;> simp [Rec.get_setField_same, hg]
  · simp only [h, if_false]
    cases hg : r.get g <;> simp [Rec.get_setField_ne _ _ _ _ h]

/-! ### the store -/

/-- The Sequence `f` of node `n` holds `es`. -/
def St.hasSeq (st : St) (n : Nat) (f : String) (es : List Ref) : Prop :=
  ∃ r, st.nodes[n]? = some r ∧ r.get f = .seq es

theorem St.prim_seq_iff (st : St) (n : Nat) (f : String) (nm : String) (es : List Ref) :
    st.prim n f = .seq nm es ↔ (nm = seqName n f ∧ st.hasSeq n f es) := by
  unfold St.prim St.hasSeq
  cases hn : st.nodes[n]? with
  | none => simp
  | some r =>
    cases hg : r.get f <;> simp [Fld.toVal, hg]
    intro _; exact eq_comm

theorem St.hasSeq_apply (st : St) (n : Nat) (f : String) (es : List Ref) (a : Act) (h : st.hasSeq n f es) :
    (st.apply a).hasSeq n f (es ++ pushesTo n f [a]) := by
  obtain ⟨r, hr, hg⟩ := h
  have hlt : n < st.nodes.size := by
    rcases Nat.lt_or_ge n st.nodes.size with h | h
    · exact h
    · simp [Array.getElem?_eq_none h] at hr
  cases a with
  | alloc r' =>
    refine ⟨r, ?_, by simpa [pushesTo] using hg⟩
    simp only [St.apply]
    rw [Array.getElem?_push]
    have : ¬ n = st.nodes.size := by omega
    simp [this, hr]
  | push m g x =>
    simp only [St.apply]
    cases hm : st.nodes[m]? with
    | none =>
      have hmn : ¬ (m = n ∧ g = f) := by rintro ⟨e, _⟩; subst e; simp [hr] at hm
      exact ⟨r, hr, by simpa [pushesTo, hmn] using hg⟩
    | some rm =>
      dsimp only
      by_cases hmn : m = n
      · subst hmn
        have : rm = r := by simpa [hr] using hm.symm
        subst this
        refine ⟨rm.pushField g x, by simp [Array.set!, hlt], ?_⟩
        rw [Rec.get_pushField]
        by_cases hgf : g = f
        · subst hgf; simp [pushesTo, hg]
        · simp [pushesTo, hgf, hg]
      · refine ⟨r, ?_, by simpa [pushesTo, hmn] using hg⟩
        simp [Array.set!, hmn, hr]
  | set m g v =>
    simp only [St.apply]
    cases hm : st.nodes[m]? with
    | none => exact ⟨r, hr, by simpa [pushesTo] using hg⟩
    | some rm =>
      dsimp only
      by_cases hguard : ((rm.get g).isSeq || v.isSeq) = true
      · rw [if_pos hguard]; exact ⟨r, hr, by simpa [pushesTo] using hg⟩
      · rw [if_neg hguard]
        by_cases hmn : m = n
        · subst hmn
          have : rm = r := by simpa [hr] using hm.symm
          subst this
          have hgf : g ≠ f := by
            intro e; subst e
            simp [hg, Fld.isSeq] at hguard
          refine ⟨rm.setField g v, by simp [Array.set!, hlt], ?_⟩
          rw [Rec.get_setField_ne _ _ _ _ hgf]; simpa [pushesTo] using hg
        · refine ⟨r, ?_, by simpa [pushesTo] using hg⟩
          simp [Array.set!, hmn, hr]
  | str w => exact ⟨r, hr, by simpa [pushesTo] using hg⟩
  | logo s => exact ⟨r, hr, by simpa [pushesTo] using hg⟩
  | value v => exact ⟨r, hr, by simpa [pushesTo] using hg⟩
  | capture => exact ⟨r, hr, by simpa [pushesTo] using hg⟩

theorem pushesTo_cons (n : Nat) (f : String) (a : Act) (rest : List Act) :
    pushesTo n f (a :: rest) = pushesTo n f [a] ++ pushesTo n f rest := by
  cases a <;> simp [pushesTo]
  split <;> simp

theorem St.hasSeq_run (acts : List Act) : ∀ (st : St) (n : Nat) (f : String) (es : List Ref), st.hasSeq n f es →
    (st.run acts).hasSeq n f (es ++ pushesTo n f acts) := by
  induction acts with
  | nil => intro st n f es h; simpa [St.run, pushesTo] using h
  | cons a rest ih =>
    intro st n f es h
    have h1 := St.hasSeq_apply st n f es a h
    have h2 := ih (st.apply a) n f _ h1
    rw [pushesTo_cons, ← List.append_assoc]
    simpa [St.run] using h2

/-! ### interning -/

theorem idxOf_lt_of_mem {α} [BEq α] [LawfulBEq α] (l : List α) (a : α) (h : a ∈ l) : l.idxOf a < l.length :=
  List.idxOf_lt_length_of_mem h

/-- The tables are well formed: one String per spelling, one Logogram per String, every Logogram spells a String. -/
structure Lex.WF (lx : Lex) : Prop where
  strs : lx.strs.Nodup
  logos : lx.logos.Nodup
  bound : ∀ s ∈ lx.logos, s < lx.strs.length

theorem internStr_nodup (strs : List String) (w : String) (h : strs.Nodup) : (internStr strs w).1.Nodup := by
  unfold internStr
  by_cases hm : w ∈ strs
  · simp [List.idxOf_lt_length_of_mem hm, h]
  · have : ¬ strs.idxOf w < strs.length := by
      intro hlt; exact hm (List.idxOf_lt_length_iff.mp hlt)
    simp only [this, if_false]
    refine List.nodup_append.mpr ⟨h, by simp, ?_⟩
    intro a ha b hb e
    simp at hb; subst hb; subst e; exact hm ha

theorem internStr_length_le (strs : List String) (w : String) : strs.length ≤ (internStr strs w).1.length := by
  unfold internStr; dsimp only; split <;> simp

theorem internLogo_nodup (logos : List Nat) (s : Nat) (h : logos.Nodup) : (internLogo logos s).1.Nodup := by
  unfold internLogo
  by_cases hm : s ∈ logos
  · simp [List.idxOf_lt_length_of_mem hm, h]
  · have : ¬ logos.idxOf s < logos.length := by
      intro hlt; exact hm (List.idxOf_lt_length_iff.mp hlt)
    simp only [this, if_false]
    refine List.nodup_append.mpr ⟨h, by simp, ?_⟩
    intro a ha b hb e
    simp at hb; subst hb; subst e; exact hm ha

theorem internLogo_mem (logos : List Nat) (s x : Nat) (h : x ∈ (internLogo logos s).1) : x ∈ logos ∨ x = s := by
  unfold internLogo at h
  dsimp only at h
  split at h
  · exact Or.inl h
  · simpa using h

end Ipr.Derived
