import IprModel.Category
/-!
General facts about the category / visitor model (`IprModel/Category.lean`): they hold for **every** class hierarchy
`Hier`, every node class and every category code — not only for the tables regenerated from the code.
-/
set_option autoImplicit false
namespace Ipr.Cat

/-! ### `lowest`: the nearest abstract super-category -/

/-- Whatever `lowest` answers is a member and is at or below every member. -/
theorem lowest_sound {anc : Abs → List Abs} {S : List Abs} {a : Abs} (h : lowest anc S = some a) :
    a ∈ S ∧ ∀ b ∈ S, b = a ∨ b ∈ anc a := by
  unfold lowest at h
  have hm := List.mem_of_find?_eq_some h
  have hp := List.find?_some h
  refine ⟨hm, fun b hb => ?_⟩
  have := (List.all_eq_true.mp hp) b hb
  simpa using this

/-- In an antisymmetric hierarchy the nearest super-category is unique. -/
theorem lowest_unique {anc : Abs → List Abs} (hanti : ∀ a b, a ∈ anc b → b ∉ anc a) {S : List Abs} {a a' : Abs}
    (ha : a ∈ S) (hla : ∀ b ∈ S, b = a ∨ b ∈ anc a) (ha' : a' ∈ S) (hla' : ∀ b ∈ S, b = a' ∨ b ∈ anc a') : a = a' := by
  rcases hla a' ha' with h | h
  · exact h.symm
  · rcases hla' a ha with h' | h'
    · exact h'
    · exact absurd h (hanti _ _ h')

private theorem exists_lowest {anc : Abs → List Abs} (htrans : ∀ a b c, a ∈ anc b → b ∈ anc c → a ∈ anc c) :
    ∀ (L : List Abs), L ≠ [] → (∀ a ∈ L, ∀ b ∈ L, a = b ∨ a ∈ anc b ∨ b ∈ anc a) →
      ∃ a ∈ L, ∀ b ∈ L, b = a ∨ b ∈ anc a
  | [], h, _ => absurd rfl h
  | [x], _, _ => ⟨x, by simp, by simp⟩
  | x :: y :: L, _, hc => by
    obtain ⟨a, ha, hla⟩ := exists_lowest htrans (y :: L) (by simp)
      (fun a ha b hb => hc a (List.mem_cons_of_mem _ ha) b (List.mem_cons_of_mem _ hb))
    rcases hc x (by simp) a (List.mem_cons_of_mem _ ha) with h | h | h
    · exact ⟨a, List.mem_cons_of_mem _ ha, fun b hb => by
        rcases List.mem_cons.mp hb with rfl | hb
        · exact Or.inl h
        · exact hla b hb⟩
    · exact ⟨a, List.mem_cons_of_mem _ ha, fun b hb => by
        rcases List.mem_cons.mp hb with rfl | hb
        · exact Or.inr h
        · exact hla b hb⟩
    · exact ⟨x, by simp, fun b hb => by
        rcases List.mem_cons.mp hb with rfl | hb
        · exact Or.inl rfl
        · rcases hla b hb with rfl | hb'
          · exact Or.inr h
          · exact Or.inr (htrans _ _ _ hb' h)⟩

/-- `lowest` is total on non-empty chains of a transitive hierarchy (every leaf interface's abstract bases are one). -/
theorem lowest_total {anc : Abs → List Abs} (htrans : ∀ a b c, a ∈ anc b → b ∈ anc c → a ∈ anc c)
    {S : List Abs} (hne : S ≠ []) (hchain : ∀ a ∈ S, ∀ b ∈ S, a = b ∨ a ∈ anc b ∨ b ∈ anc a) :
    ∃ a, lowest anc S = some a := by
  obtain ⟨a, ha, hla⟩ := exists_lowest htrans S hne hchain
  have : (S.find? fun a => S.all fun b => b == a || (anc a).contains b).isSome := by
    rw [List.find?_isSome]
    refine ⟨a, ha, ?_⟩
    rw [List.all_eq_true]
    intro b hb
    rcases hla b hb with rfl | h <;> simp_all
  unfold lowest
  exact Option.isSome_iff_exists.mp this

/-! ### Sorted tables are duplicate-free -/

theorem incFrom_lt : ∀ (l : List Nat) (lo : Nat), incFrom lo l = true → ∀ x ∈ l, lo < x
  | [], _, _, _, hx => by cases hx
  | y :: ys, lo, h, x, hx => by
    simp only [incFrom, Bool.and_eq_true, decide_eq_true_eq] at h
    rcases List.mem_cons.mp hx with rfl | hx
    · exact h.1
    · exact Nat.lt_trans h.1 (incFrom_lt ys y h.2 x hx)

theorem incFrom_nodup : ∀ (l : List Nat) (lo : Nat), incFrom lo l = true → l.Nodup
  | [], _, _ => List.nodup_nil
  | y :: ys, lo, h => by
    simp only [incFrom, Bool.and_eq_true, decide_eq_true_eq] at h
    refine List.nodup_cons.mpr ⟨fun hm => ?_, incFrom_nodup ys y h.2⟩
    exact Nat.lt_irrefl _ (incFrom_lt ys y h.2 y hm)

theorem strictlyIncreasing_nodup {l : List Nat} (h : strictlyIncreasing l = true) : l.Nodup := by
  cases l with
  | nil => exact List.nodup_nil
  | cons x xs =>
    refine List.nodup_cons.mpr ⟨fun hm => ?_, incFrom_nodup xs x h⟩
    exact Nat.lt_irrefl _ (incFrom_lt xs x h x hm)

/-! ### Defaults and dispatch -/

/-- A sink has no default body: the dispatch stops there (the nearest-sink function is idempotent on sinks). -/
theorem default_sink (h : Hier) {a : Abs} (hs : a.isSink = true) : h.default (.abs a) = none := by
  simp [Hier.default, hs]

/-- A default never hands a node to a leaf hook. -/
theorem default_is_abs (h : Hier) {k k' : Hook} (hd : h.default k = some k') : ∃ a, k' = .abs a := by
  cases k with
  | leaf c =>
    simp only [Hier.default, Option.map_eq_some_iff] at hd
    obtain ⟨a, _, rfl⟩ := hd
    exact ⟨a, rfl⟩
  | abs b =>
    simp only [Hier.default] at hd
    split at hd
    · cases hd
    · simp only [Option.map_eq_some_iff] at hd
      obtain ⟨a, _, rfl⟩ := hd
      exact ⟨a, rfl⟩

theorem runAux_sink (h : Hier) (ov : Hook → Bool) (fuel : Nat) {k : Hook} (hov : ov k = true) :
    runAux h ov fuel k = [k] := by
  cases fuel <;> simp [runAux, hov]

/-- Once dispatch has reached an abstract hook it only enters abstract hooks. -/
theorem runAux_abs (h : Hier) (ov : Hook → Bool) : ∀ (fuel : Nat) (a : Abs), ∀ x ∈ runAux h ov fuel (.abs a), ∃ b, x = .abs b
  | 0, a, x, hx => by
    simp only [runAux, List.mem_singleton] at hx; exact ⟨a, hx⟩
  | fuel + 1, a, x, hx => by
    simp only [runAux] at hx
    split at hx
    · simp only [List.mem_singleton] at hx; exact ⟨a, hx⟩
    · split at hx
      · simp only [List.mem_singleton] at hx; exact ⟨a, hx⟩
      · rename_i k' hd
        obtain ⟨b, rfl⟩ := default_is_abs h hd
        rcases List.mem_cons.mp hx with rfl | hx
        · exact ⟨a, rfl⟩
        · exact runAux_abs h ov fuel b x hx

/-- The hook of `K` is entered iff dispatch starts there (it is overridden, and no default leads to a leaf hook). -/
theorem leaf_mem_runAux_iff (h : Hier) (ov : Hook → Bool) (K : Nat) (fuel : Nat) (k : Hook) :
    Hook.leaf K ∈ runAux h ov fuel k ↔ k = .leaf K := by
  constructor
  · intro hm
    cases fuel with
    | zero => simp only [runAux, List.mem_singleton] at hm; exact hm.symm
    | succ fuel =>
      simp only [runAux] at hm
      split at hm
      · simp only [List.mem_singleton] at hm; exact hm.symm
      · split at hm
        · simp only [List.mem_singleton] at hm; exact hm.symm
        · rename_i k' hd
          obtain ⟨b, rfl⟩ := default_is_abs h hd
          rcases List.mem_cons.mp hm with hm | hm
          · exact hm.symm
          · obtain ⟨b', hb'⟩ := runAux_abs h ov fuel b _ hm
            cases hb'
  · rintro rfl
    cases fuel with
    | zero => simp [runAux]
    | succ fuel =>
      simp only [runAux]
      split
      · simp
      · split <;> simp

/-- **`view` is exact, for every hierarchy, node class and category**: `util::view<K>(n)` answers the node iff the
    overload `n.accept` calls is the hook of `K`. -/
theorem view_iff (h : Hier) (K : Nat) (n : NodeClass) : view h K n = true ↔ n.accept = .leaf K := by
  unfold view run
  rw [List.contains_iff_mem]
  exact leaf_mem_runAux_iff h _ K 9 n.accept

/-- Corollary: a node class whose `accept` calls the hook of its own category is viewed exactly at that category. -/
theorem view_own_category (h : Hier) (n : NodeClass) (hacc : n.accept = .leaf n.category) (K : Nat) :
    view h K n = true ↔ n.category = K := by
  rw [view_iff, hacc]
  constructor
  · intro e; cases e; rfl
  · intro e; rw [e]

end Ipr.Cat
