import IprModel.Stable
/-!
# IprProofs/Stable.lean — the guarded primitives of the store model (C05)

* `WF s`      : every id mentioned by a record, a key or a warehouse exists, and the key table is a duplicate-free
                table faithful to the store (the node stored under a key carries exactly that key, origin `unified`);
* `RecLe a b` : record `b` is record `a` grown (same tag / operands / origin / type / parts / views, links gained,
                member list extended at its end);
* `Ext M L s s'` : `s'` extends `s`; member lists changed only for the ids in `M`, links only for the ids in `L`;
* `Chain M L s s'` : `s'` is reached from `s` by the guarded primitives `allocMany`, `appendMem` (into `M` only),
                `setLink` (of `L` only), `addKey`, and warehouse-only changes.

Main results: `Chain.wf` (the invariant is kept), `Chain.ext` (the store only grows), `Ext.obs_le` (observations of
existing nodes only grow) and `Ext.obs_eq` (the frame: nothing else changes).
-/
namespace Ipr.Stable

/-- `omega` after unfolding the abbreviation `Id` (it does not look through it in `<` / `≤` on ids). -/
macro "idomega" : tactic => `(tactic| ((try simp only [Ipr.Stable.Id] at *); omega))

/-! ## Reading the store -/

theorem State.size_allocMany_le (s : State) (rs : List Rec) : s.size ≤ (s.allocMany rs).size := by
  unfold State.allocMany; split <;> simp [State.size]

theorem State.size_allocMany (s : State) (rs : List Rec) :
    (s.allocMany rs).size = s.size ∨ (s.allocMany rs).size = s.size + rs.length := by
  unfold State.allocMany; split <;> simp [State.size]

theorem State.get_allocMany_lt (s : State) (rs : List Rec) {i : Id} (h : i < s.size) :
    (s.allocMany rs).get i = s.get i := by
  unfold State.allocMany
  split
  · simp only [State.size] at h
    simp [State.get, Array.getElem?_append, h]
  · rfl

theorem State.keys_allocMany (s : State) (rs : List Rec) : (s.allocMany rs).keys = s.keys := by
  unfold State.allocMany; split <;> rfl

theorem State.whs_allocMany (s : State) (rs : List Rec) : (s.allocMany rs).whs = s.whs := by
  unfold State.allocMany; split <;> rfl

@[simp] theorem State.size_appendMem (s : State) (j m : Id) : (s.appendMem j m).size = s.size := by
  unfold State.appendMem; split <;> simp [State.size]

@[simp] theorem State.keys_appendMem (s : State) (j m : Id) : (s.appendMem j m).keys = s.keys := by
  unfold State.appendMem; split <;> rfl

@[simp] theorem State.whs_appendMem (s : State) (j m : Id) : (s.appendMem j m).whs = s.whs := by
  unfold State.appendMem; split <;> rfl

theorem State.get_appendMem_ne (s : State) (j m : Id) {i : Id} (h : i ≠ j) : (s.appendMem j m).get i = s.get i := by
  unfold State.appendMem
  split
  · have : ¬ j = i := fun e => h e.symm
    simp [State.get, Array.getElem?_modify, this]
  · rfl

theorem State.get_appendMem_self (s : State) (j m : Id) :
    (s.appendMem j m).get j = s.get j ∨
    (j < s.size ∧ m < s.size ∧ (s.appendMem j m).get j = { s.get j with mems := (s.get j).mems ++ [m] }) := by
  unfold State.appendMem
  split
  · rename_i h
    right
    refine ⟨h.1, h.2, ?_⟩
    have hj : j < s.nodes.size := h.1
    simp [State.get, hj, Array.getElem_modify]
  · left; rfl

@[simp] theorem State.size_setLink (s : State) (j : Id) (slot : String) (v : Id) : (s.setLink j slot v).size = s.size := by
  unfold State.setLink; split <;> simp [State.size]

@[simp] theorem State.keys_setLink (s : State) (j : Id) (slot : String) (v : Id) : (s.setLink j slot v).keys = s.keys := by
  unfold State.setLink; split <;> rfl

@[simp] theorem State.whs_setLink (s : State) (j : Id) (slot : String) (v : Id) : (s.setLink j slot v).whs = s.whs := by
  unfold State.setLink; split <;> rfl

theorem State.get_setLink_ne (s : State) (j : Id) (slot : String) (v : Id) {i : Id} (h : i ≠ j) :
    (s.setLink j slot v).get i = s.get i := by
  unfold State.setLink
  split
  · have : ¬ j = i := fun e => h e.symm
    simp [State.get, Array.getElem?_modify, this]
  · rfl

theorem State.get_setLink_self (s : State) (j : Id) (slot : String) (v : Id) :
    (s.setLink j slot v).get j = s.get j ∨
    (j < s.size ∧ v < s.size ∧ (s.get j).links.lookup slot = none ∧
      (s.setLink j slot v).get j = { s.get j with links := (s.get j).links ++ [(slot, v)] }) := by
  unfold State.setLink
  split
  · rename_i h
    right
    refine ⟨h.1, h.2.1, h.2.2, ?_⟩
    have hj : j < s.nodes.size := h.1
    simp [State.get, hj, Array.getElem_modify]
  · left; rfl

@[simp] theorem State.size_addKey (s : State) (k : Key) (id : Id) : (s.addKey k id).size = s.size := by
  unfold State.addKey; split <;> rfl

@[simp] theorem State.get_addKey (s : State) (k : Key) (id : Id) (i : Id) : (s.addKey k id).get i = s.get i := by
  unfold State.addKey; split <;> rfl

@[simp] theorem State.whs_addKey (s : State) (k : Key) (id : Id) : (s.addKey k id).whs = s.whs := by
  unfold State.addKey; split <;> rfl

/-! ## `lookup` on association lists -/

theorem lookup_append_some {α β : Type} [BEq α] (l t : List (α × β)) (k : α) (v : β) (h : l.lookup k = some v) :
    (l ++ t).lookup k = some v := by
  induction l with
  | nil => simp at h
  | cons p l ih =>
    obtain ⟨a, b⟩ := p
    simp only [List.cons_append, List.lookup_cons] at h ⊢
    split
    · rename_i hk; simpa [hk] using h
    · rename_i hk; simp only [hk] at h; exact ih h

theorem lookup_mem {α β : Type} [BEq α] (l : List (α × β)) (k : α) (v : β) (h : l.lookup k = some v) :
    ∃ k', (k', v) ∈ l := by
  induction l with
  | nil => simp at h
  | cons p l ih =>
    obtain ⟨a, b⟩ := p
    simp only [List.lookup_cons] at h
    split at h
    · cases h; exact ⟨a, by simp⟩
    · obtain ⟨k', hk'⟩ := ih h; exact ⟨k', by simp [hk']⟩

/-! ## The invariant -/

structure WF (s : State) : Prop where
  recs : ∀ i, i < s.size → ∀ x ∈ (s.get i).ids, x < s.size
  keys : ∀ k id, s.keys.lookup k = some id →
    id < s.size ∧ (s.get id).tag = k.1 ∧ (s.get id).args = k.2 ∧ (s.get id).origin = .unified
  nodup : (s.keys.map (·.1)).Nodup
  whs : ∀ ids, some ids ∈ s.whs → ∀ x ∈ ids, x < s.size

theorem WF.init : WF {} := by
  refine ⟨?_, ?_, ?_, ?_⟩ <;> simp [State.size]

theorem Rec.okBelow_iff (r : Rec) (n : Nat) : r.okBelow n = true ↔ ∀ x ∈ r.ids, x < n := by
  simp [Rec.okBelow, List.all_eq_true]

theorem State.get_allocMany_ge (s : State) (rs : List Rec) {i : Id} (h1 : s.size ≤ i) (h2 : i < (s.allocMany rs).size) :
    (s.allocMany rs).size = s.size + rs.length ∧ (∀ r ∈ rs, r.okBelow (s.size + rs.length) = true ∧ r.links = []) ∧
    ∃ r ∈ rs, rs[i - s.size]? = some r ∧ (s.allocMany rs).get i = r := by
  by_cases hg : (rs.all fun r => r.okBelow (s.size + rs.length) && r.links.isEmpty) = true
  · have e : s.allocMany rs = { s with nodes := s.nodes ++ rs.toArray } := by
      unfold State.allocMany; rw [if_pos hg]
    have hsz : (s.allocMany rs).size = s.size + rs.length := by
      rw [e]; simp [State.size]
    have hlt : i - s.size < rs.length := by idomega
    refine ⟨hsz, ?_, rs[i - s.size], List.getElem_mem hlt, List.getElem?_eq_getElem hlt, ?_⟩
    · intro r hr
      have := List.all_eq_true.mp hg r hr
      simpa using this
    · have h3 : ¬ i < s.nodes.size := by simp only [State.size] at h1; idomega
      rw [e]
      simp only [State.size] at hlt
      simp [State.get, Array.getElem?_append, h3, hlt, State.size]
  · have e : s.allocMany rs = s := by
      unfold State.allocMany; rw [if_neg hg]
    rw [e] at h2
    idomega

theorem WF.allocMany {s : State} (h : WF s) (rs : List Rec) : WF (s.allocMany rs) := by
  have hle := s.size_allocMany_le rs
  refine ⟨?_, ?_, ?_, ?_⟩
  · intro i hi x hx
    by_cases hlt : i < s.size
    · rw [State.get_allocMany_lt s rs hlt] at hx
      exact Nat.lt_of_lt_of_le (h.recs i hlt x hx) hle
    · obtain ⟨hsz, hall, r, hr, _, hget⟩ := State.get_allocMany_ge s rs (Nat.le_of_not_lt hlt) hi
      rw [hget] at hx
      rw [hsz]
      exact (Rec.okBelow_iff _ _).mp (hall r hr).1 x hx
  · intro k id hk
    rw [State.keys_allocMany] at hk
    obtain ⟨h1, h2⟩ := h.keys k id hk
    rw [State.get_allocMany_lt s rs h1]
    exact ⟨Nat.lt_of_lt_of_le h1 hle, h2⟩
  · rw [State.keys_allocMany]; exact h.nodup
  · intro ids hids x hx
    rw [State.whs_allocMany] at hids
    exact Nat.lt_of_lt_of_le (h.whs ids hids x hx) hle

theorem Rec.ids_mems_snoc (r : Rec) (m x : Id) (hx : x ∈ ({ r with mems := r.mems ++ [m] } : Rec).ids) :
    x ∈ r.ids ∨ x = m := by
  simp only [Rec.ids, List.mem_append, List.mem_singleton] at hx ⊢
  grind

theorem Rec.ids_links_snoc (r : Rec) (slot : String) (v x : Id)
    (hx : x ∈ ({ r with links := r.links ++ [(slot, v)] } : Rec).ids) : x ∈ r.ids ∨ x = v := by
  simp only [Rec.ids, List.mem_append, List.map_append, List.map_cons, List.map_nil, List.mem_singleton] at hx ⊢
  grind

theorem WF.appendMem {s : State} (h : WF s) (j m : Id) : WF (s.appendMem j m) := by
  refine ⟨?_, ?_, ?_, ?_⟩
  · intro i hi x hx
    simp only [State.size_appendMem] at hi ⊢
    by_cases hij : i = j
    · subst hij
      rcases s.get_appendMem_self i m with e | ⟨_, hm, e⟩
      · rw [e] at hx; exact h.recs i hi x hx
      · rw [e] at hx
        rcases Rec.ids_mems_snoc _ _ _ hx with hx | hx
        · exact h.recs i hi x hx
        · exact hx ▸ hm
    · rw [s.get_appendMem_ne j m hij] at hx; exact h.recs i hi x hx
  · intro k id hk
    simp only [State.keys_appendMem, State.size_appendMem] at hk ⊢
    obtain ⟨h1, h2⟩ := h.keys k id hk
    refine ⟨h1, ?_⟩
    by_cases hij : id = j
    · subst hij
      rcases s.get_appendMem_self id m with e | ⟨_, _, e⟩ <;> rw [e] <;> exact h2
    · rw [s.get_appendMem_ne j m hij]; exact h2
  · simpa using h.nodup
  · simpa using h.whs

theorem WF.setLink {s : State} (h : WF s) (j : Id) (slot : String) (v : Id) : WF (s.setLink j slot v) := by
  refine ⟨?_, ?_, ?_, ?_⟩
  · intro i hi x hx
    simp only [State.size_setLink] at hi ⊢
    by_cases hij : i = j
    · subst hij
      rcases s.get_setLink_self i slot v with e | ⟨_, hv, _, e⟩
      · rw [e] at hx; exact h.recs i hi x hx
      · rw [e] at hx
        rcases Rec.ids_links_snoc _ _ _ _ hx with hx | hx
        · exact h.recs i hi x hx
        · exact hx ▸ hv
    · rw [s.get_setLink_ne j slot v hij] at hx; exact h.recs i hi x hx
  · intro k id hk
    simp only [State.keys_setLink, State.size_setLink] at hk ⊢
    obtain ⟨h1, h2⟩ := h.keys k id hk
    refine ⟨h1, ?_⟩
    by_cases hij : id = j
    · subst hij
      rcases s.get_setLink_self id slot v with e | ⟨_, _, _, e⟩ <;> rw [e] <;> exact h2
    · rw [s.get_setLink_ne j slot v hij]; exact h2
  · simpa using h.nodup
  · simpa using h.whs

theorem lookup_eq_none_not_mem {α β : Type} [BEq α] [LawfulBEq α] (l : List (α × β)) (k : α) (h : l.lookup k = none) :
    k ∉ l.map (·.1) := by
  induction l with
  | nil => simp
  | cons p l ih =>
    obtain ⟨a, b⟩ := p
    simp only [List.lookup_cons] at h
    split at h
    · cases h
    · rename_i hk
      simp only [List.map_cons, List.mem_cons, not_or]
      refine ⟨?_, ih h⟩
      intro e; subst e; simp at hk

theorem State.keys_addKey (s : State) (k : Key) (id : Id) :
    (s.addKey k id).keys = s.keys ∨
    (id < s.size ∧ (s.get id).tag = k.1 ∧ (s.get id).args = k.2 ∧ (s.get id).origin = .unified ∧ s.keys.lookup k = none ∧
      (s.addKey k id).keys = (k, id) :: s.keys) := by
  unfold State.addKey
  split
  · rename_i h; right; exact ⟨h.1, h.2.1, h.2.2.1, h.2.2.2.1, h.2.2.2.2, rfl⟩
  · left; rfl

theorem WF.addKey {s : State} (h : WF s) (k : Key) (id : Id) : WF (s.addKey k id) := by
  refine ⟨?_, ?_, ?_, ?_⟩
  · simpa using h.recs
  · intro k' id' hk
    simp only [State.size_addKey, State.get_addKey]
    rcases s.keys_addKey k id with e | ⟨h1, h2, h3, h4, _, e⟩
    · rw [e] at hk; exact h.keys k' id' hk
    · rw [e, List.lookup_cons] at hk
      split at hk
      · rename_i hkk
        have : k' = k := by simpa using hkk
        cases hk; subst this; exact ⟨h1, h2, h3, h4⟩
      · exact h.keys k' id' hk
  · rcases s.keys_addKey k id with e | ⟨_, _, _, _, hn, e⟩
    · rw [e]; exact h.nodup
    · rw [e]; simp only [List.map_cons, List.nodup_cons]
      exact ⟨lookup_eq_none_not_mem _ _ hn, h.nodup⟩
  · simpa using h.whs

/-- what a warehouse-only change must respect: every id in a warehouse exists or was already in a warehouse -/
def WhGuard (s : State) (w : List (Option (List Id))) : Prop :=
  ∀ ids, some ids ∈ w → ∀ x ∈ ids, x < s.size ∨ ∃ ids0, some ids0 ∈ s.whs ∧ x ∈ ids0

theorem WF.setWhs {s : State} (h : WF s) (w : List (Option (List Id))) (hw : WhGuard s w) : WF { s with whs := w } := by
  refine ⟨h.recs, h.keys, h.nodup, ?_⟩
  intro ids hids x hx
  rcases hw ids hids x hx with hlt | ⟨ids0, h0, hx0⟩
  · exact hlt
  · exact h.whs ids0 h0 x hx0

/-! ## Growth of records and of the store -/

structure RecLe (a b : Rec) : Prop where
  tag : a.tag = b.tag
  args : a.args = b.args
  origin : a.origin = b.origin
  typ : a.typ = b.typ
  parts : a.parts = b.parts
  views : a.views = b.views
  links : ∀ k v, a.links.lookup k = some v → b.links.lookup k = some v
  mems : a.mems <+: b.mems

theorem RecLe.refl (a : Rec) : RecLe a a :=
  ⟨rfl, rfl, rfl, rfl, rfl, rfl, fun _ _ h => h, List.prefix_refl _⟩

theorem RecLe.of_eq {a b : Rec} (h : a = b) : RecLe a b := h ▸ RecLe.refl a

theorem RecLe.trans {a b c : Rec} (h1 : RecLe a b) (h2 : RecLe b c) : RecLe a c :=
  ⟨h1.tag.trans h2.tag, h1.args.trans h2.args, h1.origin.trans h2.origin, h1.typ.trans h2.typ, h1.parts.trans h2.parts,
   h1.views.trans h2.views, fun k v h => h2.links k v (h1.links k v h), h1.mems.trans h2.mems⟩

/-- `s'` extends `s`: nothing existing is lost; member lists change only in `M`, links only in `L`. -/
structure Ext (M L : List Id) (s s' : State) : Prop where
  size : s.size ≤ s'.size
  recs : ∀ i, i < s.size → RecLe (s.get i) (s'.get i)
  keys : ∀ k id, s.keys.lookup k = some id → s'.keys.lookup k = some id
  memsEq : ∀ i, i < s.size → i ∉ M → (s'.get i).mems = (s.get i).mems
  linksEq : ∀ i, i < s.size → i ∉ L → (s'.get i).links = (s.get i).links

theorem Ext.refl (M L : List Id) (s : State) : Ext M L s s :=
  ⟨Nat.le_refl _, fun _ _ => RecLe.refl _, fun _ _ h => h, fun _ _ _ => rfl, fun _ _ _ => rfl⟩

theorem Ext.trans {M L : List Id} {a b c : State} (h1 : Ext M L a b) (h2 : Ext M L b c) : Ext M L a c where
  size := Nat.le_trans h1.size h2.size
  recs i hi := (h1.recs i hi).trans (h2.recs i (Nat.lt_of_lt_of_le hi h1.size))
  keys k id h := h2.keys k id (h1.keys k id h)
  memsEq i hi hm := (h2.memsEq i (Nat.lt_of_lt_of_le hi h1.size) hm).trans (h1.memsEq i hi hm)
  linksEq i hi hl := (h2.linksEq i (Nat.lt_of_lt_of_le hi h1.size) hl).trans (h1.linksEq i hi hl)

theorem Ext.mono {M L M' L' : List Id} {s s' : State} (h : Ext M L s s') (hM : ∀ x ∈ M, x ∈ M') (hL : ∀ x ∈ L, x ∈ L') :
    Ext M' L' s s' :=
  ⟨h.size, h.recs, h.keys, fun i hi hm => h.memsEq i hi (fun hx => hm (hM i hx)),
   fun i hi hl => h.linksEq i hi (fun hx => hl (hL i hx))⟩

theorem Ext.allocMany (M L : List Id) (s : State) (rs : List Rec) : Ext M L s (s.allocMany rs) where
  size := s.size_allocMany_le rs
  recs i hi := RecLe.of_eq (s.get_allocMany_lt rs hi).symm
  keys k id h := by rw [State.keys_allocMany]; exact h
  memsEq i hi _ := by rw [s.get_allocMany_lt rs hi]
  linksEq i hi _ := by rw [s.get_allocMany_lt rs hi]

theorem Ext.appendMem (M L : List Id) (s : State) (j m : Id) (hj : j ∈ M) : Ext M L s (s.appendMem j m) where
  size := by simp
  recs i _ := by
    by_cases hij : i = j
    · subst hij
      rcases s.get_appendMem_self i m with e | ⟨_, _, e⟩
      · exact RecLe.of_eq e.symm
      · rw [e]; exact ⟨rfl, rfl, rfl, rfl, rfl, rfl, fun _ _ h => h, List.prefix_append _ _⟩
    · exact RecLe.of_eq (s.get_appendMem_ne j m hij).symm
  keys k id h := by simpa using h
  memsEq i _ hm := by
    have : i ≠ j := fun e => hm (e ▸ hj)
    rw [s.get_appendMem_ne j m this]
  linksEq i _ _ := by
    by_cases hij : i = j
    · subst hij
      rcases s.get_appendMem_self i m with e | ⟨_, _, e⟩ <;> rw [e]
    · rw [s.get_appendMem_ne j m hij]

theorem Ext.setLink (M L : List Id) (s : State) (j : Id) (slot : String) (v : Id) (hj : j ∈ L) :
    Ext M L s (s.setLink j slot v) where
  size := by simp
  recs i _ := by
    by_cases hij : i = j
    · subst hij
      rcases s.get_setLink_self i slot v with e | ⟨_, _, _, e⟩
      · exact RecLe.of_eq e.symm
      · rw [e]
        exact ⟨rfl, rfl, rfl, rfl, rfl, rfl, fun k w h => lookup_append_some _ _ k w h, List.prefix_refl _⟩
    · exact RecLe.of_eq (s.get_setLink_ne j slot v hij).symm
  keys k id h := by simpa using h
  memsEq i _ _ := by
    by_cases hij : i = j
    · subst hij
      rcases s.get_setLink_self i slot v with e | ⟨_, _, _, e⟩ <;> rw [e]
    · rw [s.get_setLink_ne j slot v hij]
  linksEq i _ hl := by
    have : i ≠ j := fun e => hl (e ▸ hj)
    rw [s.get_setLink_ne j slot v this]

theorem Ext.addKey (M L : List Id) (s : State) (k : Key) (id : Id) : Ext M L s (s.addKey k id) where
  size := by simp
  recs i _ := RecLe.of_eq (by simp)
  keys k' id' h := by
    rcases s.keys_addKey k id with e | ⟨_, _, _, _, hn, e⟩
    · rw [e]; exact h
    · rw [e, List.lookup_cons]
      split
      · rename_i hkk
        have : k' = k := by simpa using hkk
        subst this; rw [hn] at h; cases h
      · exact h
  memsEq i _ _ := by simp
  linksEq i _ _ := by simp

theorem Ext.setWhs (M L : List Id) (s : State) (w : List (Option (List Id))) : Ext M L s { s with whs := w } :=
  ⟨Nat.le_refl _, fun _ _ => RecLe.refl _, fun _ _ h => h, fun _ _ _ => rfl, fun _ _ _ => rfl⟩

/-! ## Chains of guarded primitives -/

/-- `s'` is reached from `s` by guarded primitives; members are appended only to the records in `M`, links are set
    only on the records in `L`. -/
inductive Chain (M L : List Id) : State → State → Prop
  | refl (s : State) : Chain M L s s
  | alloc {s s' : State} (rs : List Rec) : Chain M L s s' → Chain M L s (s'.allocMany rs)
  | mem {s s' : State} (j m : Id) : j ∈ M → Chain M L s s' → Chain M L s (s'.appendMem j m)
  | link {s s' : State} (j : Id) (slot : String) (v : Id) : j ∈ L → Chain M L s s' → Chain M L s (s'.setLink j slot v)
  | key {s s' : State} (k : Key) (id : Id) : Chain M L s s' → Chain M L s (s'.addKey k id)
  | wh {s s' : State} (w : List (Option (List Id))) : WhGuard s' w → Chain M L s s' → Chain M L s { s' with whs := w }

theorem Chain.wf {M L : List Id} {s s' : State} (c : Chain M L s s') (h : WF s) : WF s' := by
  induction c with
  | refl => exact h
  | alloc rs _ ih => exact ih.allocMany rs
  | mem j m _ _ ih => exact ih.appendMem j m
  | link j slot v _ _ ih => exact ih.setLink j slot v
  | key k id _ ih => exact ih.addKey k id
  | wh w hw _ ih => exact ih.setWhs w hw

theorem Chain.ext {M L : List Id} {s s' : State} (c : Chain M L s s') : Ext M L s s' := by
  induction c with
  | refl => exact Ext.refl M L _
  | alloc rs _ ih => exact ih.trans (Ext.allocMany M L _ rs)
  | mem j m hj _ ih => exact ih.trans (Ext.appendMem M L _ j m hj)
  | link j slot v hj _ ih => exact ih.trans (Ext.setLink M L _ j slot v hj)
  | key k id _ ih => exact ih.trans (Ext.addKey M L _ k id)
  | wh w _ _ ih => exact ih.trans (Ext.setWhs M L _ w)

theorem Chain.trans {M L : List Id} {a b c : State} (h1 : Chain M L a b) (h2 : Chain M L b c) : Chain M L a c := by
  induction h2 with
  | refl => exact h1
  | alloc rs _ ih => exact ih.alloc rs
  | mem j m hj _ ih => exact ih.mem j m hj
  | link j slot v hj _ ih => exact ih.link j slot v hj
  | key k id _ ih => exact ih.key k id
  | wh w hw _ ih => exact ih.wh w hw

theorem Chain.mono {M L M' L' : List Id} {s s' : State} (c : Chain M L s s') (hM : ∀ x ∈ M, x ∈ M') (hL : ∀ x ∈ L, x ∈ L') :
    Chain M' L' s s' := by
  induction c with
  | refl => exact Chain.refl _
  | alloc rs _ ih => exact ih.alloc rs
  | mem j m hj _ ih => exact ih.mem j m (hM j hj)
  | link j slot v hj _ ih => exact ih.link j slot v (hL j hj)
  | key k id _ ih => exact ih.key k id
  | wh w hw _ ih => exact ih.wh w hw

/-! ## Observations -/

theorem SeqsLe.refl (l : List (String × List (Option Id))) : SeqsLe l l := by
  induction l with
  | nil => trivial
  | cons p l ih => exact ⟨rfl, List.prefix_refl _, ih⟩

theorem SeqsLe.trans {a b c : List (String × List (Option Id))} (h1 : SeqsLe a b) (h2 : SeqsLe b c) : SeqsLe a c := by
  induction a generalizing b c with
  | nil =>
    cases b with
    | nil => exact h2
    | cons q b => exact h1.elim
  | cons p a ih =>
    cases b with
    | nil => exact h1.elim
    | cons q b =>
      cases c with
      | nil => exact h2.elim
      | cons r c => exact ⟨h1.1.trans h2.1, h1.2.1.trans h2.2.1, ih h1.2.2 h2.2.2⟩

theorem Obs.le_refl (a : Obs) : Obs.le a a :=
  ⟨rfl, rfl, rfl, rfl, rfl, fun _ _ h => h, SeqsLe.refl _⟩

theorem Obs.le_trans {a b c : Obs} (h1 : Obs.le a b) (h2 : Obs.le b c) : Obs.le a c := by
  obtain ⟨a1, a2, a3, a4, a5, a6, a7⟩ := h1
  obtain ⟨b1, b2, b3, b4, b5, b6, b7⟩ := h2
  exact ⟨a1.trans b1, a2.trans b2, a3.trans b3, a4.trans b4, a5.trans b5, fun k v h => b6 k v (a6 k v h), a7.trans b7⟩

theorem SeqsLe.map {α : Type} (f g : α → String × List (Option Id)) (l : List α)
    (h : ∀ p ∈ l, (f p).1 = (g p).1 ∧ (f p).2 <+: (g p).2) : SeqsLe (l.map f) (l.map g) := by
  induction l with
  | nil => trivial
  | cons p l ih =>
    exact ⟨(h p (by simp)).1, (h p (by simp)).2, ih fun q hq => h q (by simp [hq])⟩

/-- the records whose member lists the observation of `i` reads -/
def watch (s : State) (i : Id) : List Id :=
  (s.get i).views.map fun p => match p.2 with
    | .own => i
    | .sameAs j => j
    | .typesOf j => j

theorem view_ids_mem {r : Rec} {p : String × View} (hp : p ∈ r.views) {x : Id} (hx : x ∈ p.2.ids) : x ∈ r.ids := by
  simp only [Rec.ids, List.mem_append, List.mem_flatMap]
  exact Or.inl (Or.inr ⟨p, hp, hx⟩)

theorem mems_mem_ids {r : Rec} {x : Id} (hx : x ∈ r.mems) : x ∈ r.ids := by
  simp only [Rec.ids, List.mem_append]
  exact Or.inl (Or.inl (Or.inr hx))

theorem typesOf_prefix {M L : List Id} {s s' : State} (e : Ext M L s s') (w : WF s) {j : Id} (hj : j < s.size) :
    ((s.get j).mems.map fun m => (s.get m).typ) <+: ((s'.get j).mems.map fun m => (s'.get m).typ) := by
  obtain ⟨t, ht⟩ := (e.recs j hj).mems
  rw [← ht, List.map_append]
  have : ((s.get j).mems.map fun m => (s.get m).typ) = ((s.get j).mems.map fun m => (s'.get m).typ) := by
    apply List.map_congr_left
    intro m hm
    exact (e.recs m (w.recs j hj m (mems_mem_ids hm))).typ
  rw [this]
  exact List.prefix_append _ _

/-- Observations of an existing node only grow along an extension. -/
theorem Ext.obs_le {M L : List Id} {s s' : State} (e : Ext M L s s') (w : WF s) {i : Id} (hi : i < s.size) :
    Obs.le (obs s i) (obs s' i) := by
  have r := e.recs i hi
  refine ⟨r.tag, r.args, r.origin, r.typ, r.parts, r.links, ?_⟩
  show SeqsLe ((s.get i).views.map _) ((s'.get i).views.map _)
  rw [← r.views]
  apply SeqsLe.map
  intro p hp
  refine ⟨rfl, ?_⟩
  show seqOf s (s.get i) p.2 <+: seqOf s' (s'.get i) p.2
  cases hv : p.2 with
  | own => exact r.mems.map _
  | sameAs j =>
    have hj : j < s.size := w.recs i hi j (view_ids_mem hp (by simp [hv, View.ids]))
    exact (e.recs j hj).mems.map _
  | typesOf j =>
    have hj : j < s.size := w.recs i hi j (view_ids_mem hp (by simp [hv, View.ids]))
    exact typesOf_prefix e w hj

/-- The frame: the observation of `i` is unchanged when none of the member lists it reads is in `M` and `i ∉ L`. -/
theorem Ext.obs_eq {M L : List Id} {s s' : State} (e : Ext M L s s') (w : WF s) {i : Id} (hi : i < s.size)
    (hM : ∀ j ∈ watch s i, j ∉ M) (hL : i ∉ L) : obs s' i = obs s i := by
  have r := e.recs i hi
  have hseq : (s'.get i).views.map (fun p => (p.1, seqOf s' (s'.get i) p.2)) =
      (s.get i).views.map (fun p => (p.1, seqOf s (s.get i) p.2)) := by
    rw [← r.views]
    apply List.map_congr_left
    intro p hp
    have hw : (match p.2 with | .own => i | .sameAs j => j | .typesOf j => j) ∈ watch s i :=
      List.mem_map.mpr ⟨p, hp, rfl⟩
    congr 1
    cases hv : p.2 with
    | own =>
      rw [hv] at hw
      show (s'.get i).mems.map some = (s.get i).mems.map some
      rw [e.memsEq i hi (hM i hw)]
    | sameAs j =>
      rw [hv] at hw
      have hj : j < s.size := w.recs i hi j (view_ids_mem hp (by simp [hv, View.ids]))
      show (s'.get j).mems.map some = (s.get j).mems.map some
      rw [e.memsEq j hj (hM j hw)]
    | typesOf j =>
      rw [hv] at hw
      have hj : j < s.size := w.recs i hi j (view_ids_mem hp (by simp [hv, View.ids]))
      show ((s'.get j).mems.map fun m => (s'.get m).typ) = ((s.get j).mems.map fun m => (s.get m).typ)
      rw [e.memsEq j hj (hM j hw)]
      apply List.map_congr_left
      intro m hm
      exact ((e.recs m (w.recs j hj m (mems_mem_ids hm))).typ).symm
  simp only [obs]
  rw [hseq, ← r.tag, ← r.args, ← r.origin, ← r.typ, ← r.parts, e.linksEq i hi hL]

end Ipr.Stable
