import IprProofs.StableStep
/-!
# IprProofs/StableHist.lean — from one operation to every history (C05)
-/
namespace Ipr.Stable

/-- the history continued from an arbitrary state (`run ops = runFrom {} ops`) -/
def runFrom (s : State) (ops : List Op) : State := ops.foldl (fun s op => (step s op).1) s

theorem run_eq (ops : List Op) : run ops = runFrom {} ops := rfl

@[simp] theorem runFrom_nil (s : State) : runFrom s [] = s := rfl

@[simp] theorem runFrom_cons (s : State) (op : Op) (ops : List Op) : runFrom s (op :: ops) = runFrom (step s op).1 ops := rfl

theorem runFrom_append (s : State) (a b : List Op) : runFrom s (a ++ b) = runFrom (runFrom s a) b := by
  simp [runFrom, List.foldl_append]

theorem runFrom_split (s : State) (ops : List Op) (k : Nat) : runFrom s ops = runFrom (runFrom s (ops.take k)) (ops.drop k) := by
  rw [← runFrom_append, List.take_append_drop]

theorem run_split (ops : List Op) (k : Nat) : run ops = runFrom (run (ops.take k)) (ops.drop k) :=
  runFrom_split {} ops k

theorem runFrom_take_succ (s : State) (ops : List Op) (a : Nat) (op : Op) (h : ops[a]? = some op) :
    runFrom s (ops.take (a + 1)) = (step (runFrom s (ops.take a)) op).1 := by
  rw [List.take_add_one, h, runFrom_append]; rfl

theorem runFrom_take_le (s : State) (ops : List Op) {a b : Nat} (h : a ≤ b) :
    runFrom s (ops.take b) = runFrom (runFrom s (ops.take a)) ((ops.take b).drop a) := by
  have := runFrom_split s (ops.take b) a
  rw [List.take_take, Nat.min_eq_left h] at this
  exact this

/-! ## One operation -/

theorem step_chain (s : State) (op : Op) : Chain (memTargets s op) (linkTargets op) s (step s op).1 := (step_outcome s op).1

theorem WF.step {s : State} (h : WF s) (op : Op) : WF (step s op).1 := (step_chain s op).wf h

theorem size_le_step (s : State) (op : Op) : s.size ≤ (step s op).1.size := (step_chain s op).ext.size

theorem obs_le_step {s : State} (w : WF s) (op : Op) {i : Id} (hi : i < s.size) : Obs.le (obs s i) (obs (step s op).1 i) :=
  (step_chain s op).ext.obs_le w hi

theorem lookup_step {s : State} (op : Op) {k : Key} {id : Id} (h : s.keys.lookup k = some id) :
    (step s op).1.keys.lookup k = some id := (step_chain s op).ext.keys k id h

theorem answer_lt_step {s : State} (w : WF s) (op : Op) {i : Id} (h : (step s op).2 = .node i) : i < (step s op).1.size :=
  (step_outcome s op).2.1 i h w

theorem fresh_step (s : State) (op : Op) (hg : op.generative = true) {i : Id} (h : (step s op).2 = .node i) :
    i = s.size ∧ s.size < (step s op).1.size ∧ ((step s op).1.get i).origin = .generative :=
  (step_outcome s op).2.2 hg i h

/-! ## Histories -/

theorem WF.runFrom {s : State} (h : WF s) (ops : List Op) : WF (runFrom s ops) := by
  induction ops generalizing s with
  | nil => exact h
  | cons op ops ih => exact ih (h.step op)

theorem WF.run (ops : List Op) : WF (run ops) := WF.init.runFrom ops

theorem size_le_runFrom (s : State) (ops : List Op) : s.size ≤ (runFrom s ops).size := by
  induction ops generalizing s with
  | nil => exact Nat.le_refl _
  | cons op ops ih => exact Nat.le_trans (size_le_step s op) (ih _)

theorem obs_le_runFrom {s : State} (w : WF s) (ops : List Op) {i : Id} (hi : i < s.size) :
    Obs.le (obs s i) (obs (runFrom s ops) i) := by
  induction ops generalizing s with
  | nil => exact Obs.le_refl _
  | cons op ops ih =>
    exact Obs.le_trans (obs_le_step w op hi) (ih (w.step op) (Nat.lt_of_lt_of_le hi (size_le_step s op)))

theorem lookup_runFrom {s : State} (ops : List Op) {k : Key} {id : Id} (h : s.keys.lookup k = some id) :
    (runFrom s ops).keys.lookup k = some id := by
  induction ops generalizing s with
  | nil => exact h
  | cons op ops ih => exact ih (lookup_step op h)

theorem answers_getElem? {s : State} {ops : List Op} {a : Nat} {r : Res} (h : (answers s ops)[a]? = some r) :
    ∃ op, ops[a]? = some op ∧ r = (step (runFrom s (ops.take a)) op).2 := by
  induction ops generalizing s a with
  | nil => simp [answers] at h
  | cons op ops ih =>
    cases a with
    | zero =>
      simp only [answers, List.getElem?_cons_zero, Option.some.injEq] at h
      exact ⟨op, rfl, h.symm⟩
    | succ a =>
      simp only [answers, List.getElem?_cons_succ] at h
      obtain ⟨op', h1, h2⟩ := ih h
      exact ⟨op', by simpa using h1, h2⟩

theorem answers_length (s : State) (ops : List Op) : (answers s ops).length = ops.length := by
  induction ops generalizing s with
  | nil => rfl
  | cons op ops ih => simp [answers, ih]

/-! ## Unified requests -/

/-- the key a unified request is looked up under in state `s` (`none`: the call raises) -/
def resolvedKey (s : State) (f : String) (args : List Arg) : Option Key := (resolve s f args).2

theorem mkNode_unified {s s' : State} {f : String} {args : List Arg} {i : Id} (hu : isUnified f = true)
    (h : mkNode s f args = (s', .node i)) :
    ∃ s1 k, resolve s f args = (s1, some k) ∧ findOrAdd s1 k (typOf k.1 k.2) (keyMems k) (keyViews k) = (s', .node i) := by
  unfold mkNode at h
  rw [if_pos hu] at h
  split at h
  · unfold unify at h
    split at h
    · rename_i s1 k heq
      exact ⟨s1, k, heq, h⟩
    · cases h
  · cases h

/-- A unified request answers the node stored under its resolved key; that node carries exactly the key. -/
theorem unified_answer {s s' : State} (w : WF s) {f : String} {args : List Arg} {i : Id} (hu : isUnified f = true)
    (h : mkNode s f args = (s', .node i)) :
    ∃ k, resolvedKey s f args = some k ∧ s'.keys.lookup k = some i ∧ i < s'.size ∧
      (s'.get i).tag = k.1 ∧ (s'.get i).args = k.2 ∧ (s'.get i).origin = .unified := by
  obtain ⟨s1, k, hres, hfa⟩ := mkNode_unified hu h
  have w1 : WF s1 := (resolve_chain hres [] []).wf w
  obtain ⟨c, ⟨hb, _⟩ | ⟨i', hr, hl, _⟩⟩ := findOrAdd_spec hfa [] []
  · cases hb
  · cases hr
    have w' : WF s' := c.wf w1
    exact ⟨k, by simp [resolvedKey, hres], hl, w'.keys k i hl⟩

/-- the node stored under a key is still the answer for that key later -/
theorem unified_lookup_answer {s s' : State} {f : String} {args : List Arg} {i j : Id} {k : Key} (hu : isUnified f = true)
    (hk : resolvedKey s f args = some k) (hl : s.keys.lookup k = some i) (h : mkNode s f args = (s', .node j)) : j = i := by
  obtain ⟨s1, k', hres, hfa⟩ := mkNode_unified hu h
  have : k' = k := by simpa [resolvedKey, hres] using hk
  subst this
  have h1 : s1.keys.lookup k' = some i := (resolve_chain hres [] []).ext.keys _ _ hl
  obtain ⟨c, ⟨hb, _⟩ | ⟨i', hr, hl', _⟩⟩ := findOrAdd_spec hfa [] []
  · cases hb
  · cases hr
    have h2 := c.ext.keys _ _ h1
    rw [hl'] at h2
    exact Option.some.inj h2

/-- Two unified requests of one history alias exactly when their resolved keys are equal. -/
theorem unified_alias_iff {s s1 s3 : State} (w : WF s) {f f' : String} {args args' : List Arg} {i j : Id} {k k' : Key}
    (hu : isUnified f = true) (hu' : isUnified f' = true) (h : mkNode s f args = (s1, .node i)) (hk : resolvedKey s f args = some k)
    (ops : List Op) (h' : mkNode (runFrom s1 ops) f' args' = (s3, .node j)) (hk' : resolvedKey (runFrom s1 ops) f' args' = some k') :
    i = j ↔ k = k' := by
  obtain ⟨k0, hk0, hl, hi, ht, ha, _⟩ := unified_answer w hu h
  have : k0 = k := by rw [hk] at hk0; exact (Option.some.inj hk0).symm
  subst this
  have w1 : WF s1 := by have := w.step (.mk f args); simpa [step, h] using this
  have w2 : WF (runFrom s1 ops) := w1.runFrom ops
  obtain ⟨k0', hk0', hl', hj, ht', ha', _⟩ := unified_answer w2 hu' h'
  have : k0' = k' := by rw [hk'] at hk0'; exact (Option.some.inj hk0').symm
  subst this
  constructor
  · intro e
    subst e
    have le1 := obs_le_runFrom w1 ops hi
    have hi2 : i < (runFrom s1 ops).size := Nat.lt_of_lt_of_le hi (size_le_runFrom s1 ops)
    have le2 := obs_le_step w2 (.mk f' args') hi2
    have e3 : (step (runFrom s1 ops) (.mk f' args')).1 = s3 := by simp [step, h']
    rw [e3] at le2
    have le := Obs.le_trans le1 le2
    have t1 : (s1.get i).tag = (s3.get i).tag := le.1
    have t2 : (s1.get i).args = (s3.get i).args := le.2.1
    exact Prod.ext (by rw [← ht, ← ht', t1]) (by rw [← ha, ← ha', t2])
  · intro e
    subst e
    exact (unified_lookup_answer hu' hk' (lookup_runFrom ops hl) h').symm

/-- A unified answer is never a node produced by a generative constructor earlier in the history. -/
theorem unified_ne_generative {s s1 s3 : State} (w : WF s) {op : Op} (hg : op.generative = true) {g : Id}
    (h : step s op = (s1, .node g)) (ops : List Op) {f : String} {args : List Arg} {u : Id} (hu : isUnified f = true)
    (h' : mkNode (runFrom s1 ops) f args = (s3, .node u)) : u ≠ g := by
  have e1 : (step s op).1 = s1 := by rw [h]
  have e2 : (step s op).2 = .node g := by rw [h]
  obtain ⟨_, hlt, ho⟩ := fresh_step s op hg e2
  rw [e1] at hlt ho
  have hg1 : g < s1.size := by
    have := answer_lt_step w op e2
    rwa [e1] at this
  have w1 : WF s1 := e1 ▸ w.step op
  have w2 : WF (runFrom s1 ops) := w1.runFrom ops
  obtain ⟨k, _, _, _, _, _, hou⟩ := unified_answer w2 hu h'
  intro e
  subst e
  have le1 := obs_le_runFrom w1 ops hg1
  have le2 := obs_le_step w2 (.mk f args) (Nat.lt_of_lt_of_le hg1 (size_le_runFrom s1 ops))
  have e3 : (step (runFrom s1 ops) (.mk f args)).1 = s3 := by simp [step, h']
  rw [e3] at le2
  have o : (s1.get u).origin = (s3.get u).origin := (Obs.le_trans le1 le2).2.2.1
  rw [ho, hou] at o
  cases o

/-! ## Look-ups by name and type are stable -/

/-- the first element satisfying a predicate stays the first one when the list is extended at its end and the predicate is
    unchanged on the old elements -/
theorem find?_append_congr {α : Type} (l l' : List α) (p q : α → Bool) {d : α} (hpq : ∀ x ∈ l, q x = p x)
    (h : l.find? p = some d) : (l ++ l').find? q = some d := by
  induction l with
  | nil => simp at h
  | cons a l ih =>
    have ha : q a = p a := hpq a (by simp)
    rw [List.cons_append, List.find?_cons, ha]
    rw [List.find?_cons] at h
    cases hp : p a with
    | true => rw [hp] at h; exact h
    | false =>
      rw [hp] at h
      exact ih (fun x hx => hpq x (by simp [hx])) h

theorem find?_mem' {α : Type} {l : List α} {p : α → Bool} {d : α} (h : l.find? p = some d) : d ∈ l := by
  induction l with
  | nil => simp at h
  | cons a l ih =>
    rw [List.find?_cons] at h
    cases hp : p a with
    | true => rw [hp] at h; cases h; simp
    | false => rw [hp] at h; simp [ih h]

/-- Along any extension of the store (`Ext`: what every chain of guarded primitives is), a look-up that answered a
    declaration keeps answering that declaration. -/
theorem Ext.lookupIn {M L : List Id} {s s' : State} (e : Ext M L s s') (w : WF s) {sc n t d : Id} (hsc : sc < s.size)
    (h : lookupIn s sc n t = some (some d)) : lookupIn s' sc n t = some (some d) := by
  have r := e.recs sc hsc
  obtain ⟨tl, htl⟩ := r.mems
  have hold : ∀ x ∈ (s.get sc).mems, x < s.size := fun x hx => w.recs sc hsc x (mems_mem_ids hx)
  unfold Ipr.Stable.lookupIn at h ⊢
  rw [← r.tag]
  split at h
  · rename_i htag
    rw [if_pos htag]
    simp only [Option.some.injEq] at h ⊢
    unfold lookupHom at h ⊢
    split at h
    · rename_i d0 hf
      have hd0 : d0 ∈ (s.get sc).mems := find?_mem' hf
      have hf' : (s'.get sc).mems.find? (fun x => (s'.get x).args.head? == some (.node n)) = some d0 := by
        rw [← htl]
        exact find?_append_congr _ _ _ _ (fun x hx => by rw [(e.recs x (hold x hx)).args]) hf
      rw [hf']
      dsimp only
      rw [← (e.recs d0 (hold d0 hd0)).typ]
      exact h
    · cases h
  · split at h
    · rename_i hn htag
      rw [if_neg hn, if_pos htag]
      simp only [Option.some.injEq] at h ⊢
      unfold masterOf at h ⊢
      rw [← htl]
      exact find?_append_congr _ _ _ _ (fun x hx => by rw [(e.recs x (hold x hx)).args]) h
    · cases h

theorem lookupIn_step {s : State} (w : WF s) (op : Op) {sc n t d : Id} (hsc : sc < s.size)
    (h : lookupIn s sc n t = some (some d)) : lookupIn (step s op).1 sc n t = some (some d) :=
  (step_chain s op).ext.lookupIn w hsc h

theorem lookupIn_runFrom {s : State} (w : WF s) (ops : List Op) {sc n t d : Id} (hsc : sc < s.size)
    (h : lookupIn s sc n t = some (some d)) : lookupIn (runFrom s ops) sc n t = some (some d) := by
  induction ops generalizing s with
  | nil => exact h
  | cons op ops ih =>
    exact ih (w.step op) (Nat.lt_of_lt_of_le hsc (size_le_step s op)) (lookupIn_step w op hsc h)

end Ipr.Stable
