import IprProofs.PrinterGood
import IprProofs.Printer
/-!
# Lemmas about the printer model, part 5: bounded recursion (C18)

The printer descends along operands, and — in its fallbacks (`Primary_expr::visit(const Expr&)`, the abstract `visit`s of
`xpr_expr_visitor`, `xpr_initializer`, `xpr_exception_spec`, `xpr_type_visitor`) — re-dispatches *the same node* through
another visitor.  `selfRank` is a measure that strictly decreases along every such re-dispatch (checked over the whole
table by kernel evaluation): this is what fails for a fallback that re-enters on the same node with the same visitor
(defects F13, F15 of DESIGN.md §5).  The only node that is its own operand is a built-in type (`As_type` whose `expr()` is
itself); the measure covers that loop too.
-/
namespace Ipr.Printer

/-- Rank of visitor `(cls, strict)` on a node of category `c`: bounds the number of further re-dispatches on that node. -/
def selfRank (cls : VClass) (strict : Bool) (c : Cat) : Nat :=
  if c = .As_type then
    match cls with
    | .chain l => if l.val = 0 then 0 else 1
    | .initV => 1
    | .typeV => 1
    | .exprV => 2
    | .typeExprV => 3
    | .excV => 4
  else match sinkOf c with
    | .type => match cls with
      | .typeExprV => 0
      | .typeV => 1
      | .exprV => 2
      | .chain _ => if strict then 0 else 3
      | .initV => 4
      | .excV => 4
    | .expr => match cls with
      | .chain _ => if strict then 0 else 2
      | .exprV => if strict then 1 else 3
      | .initV => 4
      | .excV => 4
      | _ => 0
    | .stmt => match cls with
      | .exprV => 1
      | .initV => 2
      | _ => 0
    | .decl => match cls with
      | .chain l => if l.val = 18 then 1 else 0
      | .exprV => 1
      | .initV => 2
      | .excV => 2
      | _ => 0
    | _ => 0

def Entry.rank (e : Entry) (c : Cat) : Nat := selfRank e.cls e.strict c

def Cond.isBuiltin : Cond → Bool
  | .builtin => true
  | _ => false

/-- Entries through which a production may offer *the node itself* again (`loop`: the node may be its own operand).
    `none`: the production loops over a sequence or re-uses its own visitor where that cannot be excluded. -/
def instrSelf (loop : Bool) : Instr → Option (List Entry)
  | .acc e p => some (if p.isEmpty || loop then [e] else [])
  | .accSame p => if p.isEmpty || loop then none else some []
  | .each _ _ _ => if loop then none else some []
  | _ => some []

def instrsSelf (loop : Bool) : List Instr → Option (List Entry)
  | [] => some []
  | i :: is => match instrSelf loop i, instrsSelf loop is with
    | some a, some b => some (a ++ b)
    | _, _ => none

/-- In the else-branch of `if (denote_builtin_type(t))` the node is not its own operand. -/
def elseLoop (c : Cond) (loop : Bool) : Bool := if c.isBuiltin then false else loop

def Prod.selfAccs (loop : Bool) : Prod → Option (List Entry)
  | .is l => instrsSelf loop l
  | .ite c t e => match t.selfAccs loop, e.selfAccs (elseLoop c loop) with
    | some a, some b => some (a ++ b)
    | _, _ => none
  | .app a b => match a.selfAccs loop, b.selfAccs loop with
    | some x, some y => some (x ++ y)
    | _, _ => none

/-- The finite check: every possible re-dispatch on the same node goes to a visitor of smaller rank. -/
def rowDecreases (cls : VClass) (s : Bool) (c : Cat) : Bool :=
  match (table cls s c).selfAccs (c == .As_type) with
  | none => false
  | some l => l.all fun e => Entry.rank e c < selfRank cls s c

theorem table_decreases : ∀ cls s c, rowDecreases cls s c = true :=
  table_all (P := rowDecreases) (by decide +kernel)

theorem selfRank_lt (cls : VClass) (s : Bool) (c : Cat) : selfRank cls s c < 8 := by
  have := table_all (P := fun cls s c => decide (selfRank cls s c < 8)) (by decide +kernel) cls s c
  simpa using this

/-! ## Heaps that are acyclic along operands -/

/-- `a` is its own `expr()` operand: a built-in type. -/
def Loop (h : Heap) (a : Addr) : Prop := (h a).cat = .As_type ∧ (h a).sel (.op 0) = some a

/-- `rank` decreases along every stored address, except that a built-in type may refer to itself. -/
def Ranked (h : Heap) (rank : Addr → Nat) : Prop :=
  ∀ a, ∀ b ∈ (h a).children, rank b < rank a ∨ (b = a ∧ Loop h a)


section
variable {h : Heap} {rank : Addr → Nat}

/-- Following a path never increases the rank; it stays on the node only for the empty path or on a built-in type. -/
theorem follow_rank (hr : Ranked h rank) : ∀ (p : Path) (a b : Addr), follow h a p = some b →
    (b = a ∧ (p = [] ∨ Loop h a)) ∨ rank b < rank a
  | [], a, b, hf => by simp [follow] at hf; exact Or.inl ⟨hf.symm, Or.inl rfl⟩
  | s :: q, a, b, hf => by
    simp only [follow] at hf
    cases hs : (h a).sel s with
    | none => simp [hs] at hf
    | some c =>
      simp only [hs] at hf
      have ih := follow_rank hr q c b hf
      rcases hr a c (sel_mem_children hs) with hlt | ⟨rfl, hloop⟩
      · rcases ih with ⟨rfl, _⟩ | ih
        · exact Or.inr hlt
        · exact Or.inr (Nat.lt_trans ih hlt)
      · rcases ih with ⟨rfl, _⟩ | ih
        · exact Or.inl ⟨rfl, Or.inr hloop⟩
        · exact Or.inr ih

theorem instrsSelf_acc {loop : Bool} : ∀ {l : List Instr} {L : List Entry}, instrsSelf loop l = some L →
    ∀ {e : Entry} {p : Path}, Instr.acc e p ∈ l → (p = [] ∨ loop = true) → e ∈ L
  | [], _, _, _, _, hm, _ => by simp at hm
  | i :: is, L, hL, e, p, hm, hp => by
    simp only [instrsSelf] at hL
    cases hi : instrSelf loop i with
    | none => simp [hi] at hL
    | some A =>
      cases his : instrsSelf loop is with
      | none => simp [hi, his] at hL
      | some B =>
        simp only [hi, his, Option.some.injEq] at hL
        subst hL
        rcases List.mem_cons.mp hm with rfl | hm
        · simp only [instrSelf, Option.some.injEq] at hi
          subst hi
          have : (p.isEmpty || loop) = true := by rcases hp with rfl | hp <;> simp_all
          simp [this]
        · exact List.mem_append_right _ (instrsSelf_acc his hm hp)

theorem instrsSelf_accSame {loop : Bool} : ∀ {l : List Instr} {L : List Entry}, instrsSelf loop l = some L →
    ∀ {p : Path}, Instr.accSame p ∈ l → p ≠ [] ∧ loop = false
  | [], _, _, _, hm => by simp at hm
  | i :: is, L, hL, p, hm => by
    simp only [instrsSelf] at hL
    cases hi : instrSelf loop i with
    | none => simp [hi] at hL
    | some A =>
      cases his : instrsSelf loop is with
      | none => simp [hi, his] at hL
      | some B =>
        rcases List.mem_cons.mp hm with rfl | hm
        · simp only [instrSelf] at hi
          split at hi
          · cases hi
          · rename_i hc
            simp only [Bool.or_eq_true, not_or, Bool.not_eq_true, List.isEmpty_eq_false_iff] at hc
            exact ⟨hc.1, hc.2⟩
        · exact instrsSelf_accSame his hm

theorem instrsSelf_each {loop : Bool} : ∀ {l : List Instr} {L : List Entry}, instrsSelf loop l = some L →
    ∀ {k : SeqKind} {p : Path} {w : Which}, Instr.each k p w ∈ l → loop = false
  | [], _, _, _, _, _, hm => by simp at hm
  | i :: is, L, hL, k, p, w, hm => by
    simp only [instrsSelf] at hL
    cases hi : instrSelf loop i with
    | none => simp [hi] at hL
    | some A =>
      cases his : instrsSelf loop is with
      | none => simp [hi, his] at hL
      | some B =>
        rcases List.mem_cons.mp hm with rfl | hm
        · simp only [instrSelf] at hi
          split at hi
          · cases hi
          · rename_i hc; simpa using hc
        · exact instrsSelf_each his hm

theorem isBuiltin_eq {c : Cond} (hc : c.isBuiltin = true) : c = .builtin := by
  cases c <;> simp_all [Cond.isBuiltin]

/-- What `selfAccs` promises about the resolved production, for a node whose self-reference status is `isLoop`. -/
theorem selfAccs_sound {ev : Cond → Bool} {isLoop : Prop} (hb : ev .builtin = false → ¬ isLoop) :
    ∀ (p : Prod) (loop : Bool) (L : List Entry), (isLoop → loop = true) → p.selfAccs loop = some L →
      (∀ e q, Instr.acc e q ∈ p.resolve ev → (q = [] ∨ isLoop) → e ∈ L) ∧
      (∀ q, Instr.accSame q ∈ p.resolve ev → q ≠ [] ∧ ¬ isLoop) ∧
      (∀ k q w, Instr.each k q w ∈ p.resolve ev → ¬ isLoop)
  | .is l, loop, L, hl, hL => by
    simp only [Prod.selfAccs] at hL
    refine ⟨fun e q hm hq => instrsSelf_acc hL hm (hq.imp id hl), fun q hm => ?_, fun k q w hm => ?_⟩
    · have := instrsSelf_accSame hL hm
      exact ⟨this.1, fun hi => by simp [hl hi] at this⟩
    · have := instrsSelf_each hL hm
      exact fun hi => by simp [hl hi] at this
  | .ite c t e, loop, L, hl, hL => by
    simp only [Prod.selfAccs] at hL
    cases ht : t.selfAccs loop with
    | none => simp [ht] at hL
    | some A =>
      cases he : e.selfAccs (elseLoop c loop) with
      | none => simp [ht, he] at hL
      | some B =>
        simp only [ht, he, Option.some.injEq] at hL
        subst hL
        simp only [Prod.resolve]
        cases hc : ev c with
        | true =>
          obtain ⟨h1, h2, h3⟩ := selfAccs_sound hb t loop A hl ht
          simp only [if_true]
          exact ⟨fun e' q hm hq => List.mem_append_left _ (h1 e' q hm hq), h2, h3⟩
        | false =>
          have hl' : isLoop → elseLoop c loop = true := by
            intro hi
            unfold elseLoop
            cases hcb : c.isBuiltin with
            | true => rw [isBuiltin_eq hcb] at hc; exact absurd hi (hb hc)
            | false => simpa using hl hi
          obtain ⟨h1, h2, h3⟩ := selfAccs_sound hb e _ B hl' he
          simp only [Bool.false_eq_true, if_false]
          exact ⟨fun e' q hm hq => List.mem_append_right _ (h1 e' q hm hq), h2, h3⟩
  | .app a b, loop, L, hl, hL => by
    simp only [Prod.selfAccs] at hL
    cases ha : a.selfAccs loop with
    | none => simp [ha] at hL
    | some A =>
      cases hb' : b.selfAccs loop with
      | none => simp [ha, hb'] at hL
      | some B =>
        simp only [ha, hb', Option.some.injEq] at hL
        subst hL
        obtain ⟨a1, a2, a3⟩ := selfAccs_sound hb a loop A hl ha
        obtain ⟨b1, b2, b3⟩ := selfAccs_sound hb b loop B hl hb'
        simp only [Prod.resolve, List.mem_append]
        refine ⟨fun e' q hm hq => ?_, fun q hm => ?_, fun k q w hm => ?_⟩
        · rcases hm with hm | hm
          · exact Or.inl (a1 e' q hm hq)
          · exact Or.inr (b1 e' q hm hq)
        · exact hm.elim (a2 q) (b2 q)
        · exact hm.elim (a3 k q w) (b3 k q w)

/-- The three facts about the production a visitor runs on a node. -/
theorem production_self (e : Entry) (a : Addr) :
    (∀ e' q, Instr.acc e' q ∈ production h e a → (q = [] ∨ Loop h a) → e'.rank (h a).cat < e.rank (h a).cat) ∧
    (∀ q, Instr.accSame q ∈ production h e a → q ≠ [] ∧ ¬ Loop h a) ∧
    (∀ k q w, Instr.each k q w ∈ production h e a → ¬ Loop h a) := by
  have hd := table_decreases e.cls e.strict (h a).cat
  unfold rowDecreases at hd
  cases hL : (table e.cls e.strict (h a).cat).selfAccs ((h a).cat == .As_type) with
  | none => simp [hL] at hd
  | some L =>
    simp only [hL, List.all_eq_true, decide_eq_true_eq] at hd
    have hb : Cond.eval h a (h a) .builtin = false → ¬ Loop h a := by
      intro hev hl
      simp [Cond.eval, hl.2] at hev
    have hl : Loop h a → ((h a).cat == Cat.As_type) = true := fun hl => by simp [hl.1]
    obtain ⟨h1, h2, h3⟩ := selfAccs_sound hb _ _ L hl hL
    exact ⟨fun e' q hm hq => hd e' (h1 e' q hm hq), h2, h3⟩

/-- Fuel that suffices for visitor `e` on node `a`. -/
def need (h : Heap) (rank : Addr → Nat) (e : Entry) (a : Addr) : Nat := 8 * rank a + e.rank (h a).cat + 1

theorem need_le_of_lt (e e' : Entry) {a b : Addr} (hlt : rank b < rank a) : need h rank e' b ≤ 8 * rank a + e.rank (h a).cat := by
  have := selfRank_lt e'.cls e'.strict (h b).cat
  unfold need Entry.rank
  omega

def NoFuel (rec : Rec) (ok : Entry → Addr → Prop) : Prop := ∀ e b st, ok e b → (rec e b st).status ≠ .fuel

theorem bind_noFuel {r : Res} {f : PState → Res} (h1 : r.status ≠ .fuel) (h2 : ∀ st, (f st).status ≠ .fuel) :
    (r.bind f).status ≠ .fuel := by
  unfold Res.bind
  split
  · exact h2 _
  · exact h1

theorem runSeq_noFuel {rec : Rec} (k : SeqKind) : ∀ (l : List Addr) (first : Bool) (st : PState),
    (∀ x ∈ l, ∀ st, (rec k.entry x st).status ≠ .fuel) → (runSeq rec k l first st).status ≠ .fuel
  | [], _, _, _ => by simp [runSeq]
  | x :: xs, first, st, hl => by
    simp only [runSeq]
    exact bind_noFuel (hl x (by simp) _) fun st' => runSeq_noFuel k xs false _ fun y hy => hl y (by simp [hy])

/-- An instruction all of whose dispatches are covered. -/
def InstrSafe (h : Heap) (rec : Rec) (cls : VClass) (strict : Bool) (a : Addr) : Instr → Prop
  | .acc e p => ∀ b, follow h a p = some b → ∀ st, (rec e b st).status ≠ .fuel
  | .accSame p => ∀ b, follow h a p = some b → ∀ st, (rec (.v cls strict) b st).status ≠ .fuel
  | .each k p w => ∀ b, follow h a p = some b → ∀ x ∈ (h b).pick w, ∀ st, (rec k.entry x st).status ≠ .fuel
  | _ => True

theorem step_noFuel {rec : Rec} (cls : VClass) (strict : Bool) (a : Addr) (r : NodeRec) (i : Instr)
    (hs : InstrSafe h rec cls strict a i) (st : PState) : (step h rec cls strict a r i st).status ≠ .fuel := by
  cases i with
  | acc e p =>
    simp only [step]
    cases hf : follow h a p with
    | none => simp
    | some b => exact hs b hf st
  | accSame p =>
    simp only [step]
    cases hf : follow h a p with
    | none => simp
    | some b => exact hs b hf st
  | each k p w =>
    simp only [step]
    cases hf : follow h a p with
    | none => simp
    | some b => exact runSeq_noFuel k _ true st (hs b hf)
  | _ => simp [step]

theorem runInstrs_noFuel {rec : Rec} (cls : VClass) (strict : Bool) (a : Addr) (r : NodeRec) :
    ∀ (is : List Instr), (∀ i ∈ is, InstrSafe h rec cls strict a i) → ∀ st,
      (runInstrs h rec cls strict a r is st).status ≠ .fuel
  | [], _, st => by simp [runInstrs]
  | i :: is, hs, st => by
    simp only [runInstrs]
    exact bind_noFuel (step_noFuel cls strict a r i (hs i (by simp)) st)
      fun st' => runInstrs_noFuel cls strict a r is (fun j hj => hs j (by simp [hj])) st'

theorem dispatch_noFuel (hr : Ranked h rank) (o : Opts) : ∀ (n : Nat) (e : Entry) (a : Addr) (st : PState),
    need h rank e a ≤ n → (dispatch h o n e a st).status ≠ .fuel
  | 0, e, a, st, hn => by simp [need] at hn
  | n + 1, e, a, st, hn => by
    have hn' : 8 * rank a + e.rank (h a).cat ≤ n := by unfold need at hn; omega
    simp only [dispatch]
    refine bind_noFuel ?_ (fun _ => by simp)
    refine runInstrs_noFuel _ _ _ _ _ (fun i hi => ?_) _
    obtain ⟨h1, h2, h3⟩ := production_self (h := h) e a
    cases i with
    | acc e' p =>
      intro b hf st'
      refine dispatch_noFuel hr o n e' b st' ?_
      rcases follow_rank hr p a b hf with ⟨rfl, hp⟩ | hlt
      · have := h1 e' p hi hp
        unfold need; omega
      · exact Nat.le_trans (need_le_of_lt e e' hlt) hn'
    | accSame p =>
      intro b hf st'
      refine dispatch_noFuel hr o n _ b st' ?_
      obtain ⟨hp, hnl⟩ := h2 p hi
      rcases follow_rank hr p a b hf with ⟨rfl, hp' | hl⟩ | hlt
      · exact absurd hp' hp
      · exact absurd hl hnl
      · exact Nat.le_trans (need_le_of_lt e _ hlt) hn'
    | each k p w =>
      intro b hf x hx st'
      refine dispatch_noFuel hr o n _ x st' ?_
      have hnl := h3 k p w hi
      have hxb := hr b x (pick_subset_children _ w x hx)
      have hlt : rank x < rank a := by
        rcases follow_rank hr p a b hf with ⟨rfl, _⟩ | hlt
        · rcases hxb with hxb | ⟨_, hl⟩
          · exact hxb
          · exact absurd hl hnl
        · rcases hxb with hxb | ⟨rfl, _⟩
          · exact Nat.lt_trans hxb hlt
          · exact hlt
      exact Nat.le_trans (need_le_of_lt e _ hlt) hn'
    | _ => trivial

/-- With fuel `8·(rank + 1)` the printer never runs out of fuel on a ranked heap. -/
theorem dispatch_noFuel' (hr : Ranked h rank) (o : Opts) (n : Nat) (e : Entry) (a : Addr) (st : PState)
    (hn : 8 * (rank a + 1) ≤ n) : (dispatch h o n e a st).status ≠ .fuel := by
  refine dispatch_noFuel hr o n e a st ?_
  have := selfRank_lt e.cls e.strict (h a).cat
  unfold need Entry.rank
  omega

end

end Ipr.Printer
