import IprModel.Arena
/-!
# Lemmas about the arena model: granule arithmetic, byte writes, allocation geometry, framing of reads.
-/
namespace Ipr.Arena

/-! ## Granule arithmetic -/

/-- The characters fit into the headers granted: `8 + 16 (m - 1) ≥ n`, written without subtraction. -/
theorem hdrs_fits (n : Nat) : n + 8 ≤ 16 * hdrs n := by unfold hdrs; omega

theorem hdrs_pos (n : Nat) : 1 ≤ hdrs n := by unfold hdrs; omega

/-! ## Bytes -/

@[simp] theorem zeros_size (n : Nat) : (zeros n).size = n := by simp [zeros, ByteArray.size]

@[simp] theorem writeList_size (b : ByteArray) (off : Nat) (xs : List UInt8) : (writeList b off xs).size = b.size := by
  induction xs generalizing b off with
  | nil => rfl
  | cons x xs ih => simp [writeList, ih]

/-- A write leaves every byte outside `[off, off + |xs|)` as it was. -/
theorem writeList_get_outside (b : ByteArray) (off : Nat) (xs : List UInt8) (j : Nat)
    (h : j < off ∨ off + xs.length ≤ j) : (writeList b off xs)[j]! = b[j]! := by
  induction xs generalizing b off with
  | nil => rfl
  | cons x xs ih =>
    simp only [writeList, List.length_cons] at h ⊢
    rw [ih (b.set! off x) (off + 1) (by omega)]
    exact ByteArray.getElem!_set!_ne b off j x (by omega)

/-- A write that is inside the array stores exactly `xs`. -/
theorem writeList_get_inside (b : ByteArray) (off : Nat) (xs : List UInt8) (hb : off + xs.length ≤ b.size)
    (i : Nat) (hi : i < xs.length) : (writeList b off xs)[off + i]! = xs[i] := by
  induction xs generalizing b off i with
  | nil => simp at hi
  | cons x xs ih =>
    simp only [writeList, List.length_cons] at hb ⊢
    cases i with
    | zero =>
      rw [writeList_get_outside _ _ _ _ (by omega)]
      simpa using ByteArray.getElem!_set!_self b off x (by omega)
    | succ i =>
      have := ih (b.set! off x) (off + 1) (by simp; omega) i (by simpa using hi)
      simpa [Nat.add_assoc, Nat.add_comm 1 i] using this

theorem readList_length (b : ByteArray) (off len : Nat) : (readList b off len).length = len := by
  simp [readList]

/-- Reading back the tail `w` of what was just written (`pre ++ w` at `off`) gives `w`. -/
theorem readList_writeList (b : ByteArray) (off : Nat) (pre w : List UInt8)
    (hb : off + (pre ++ w).length ≤ b.size) :
    readList (writeList b off (pre ++ w)) (off + pre.length) w.length = w := by
  apply List.ext_getElem
  · simp [readList]
  · intro i h1 h2
    simp only [readList, List.getElem_map, List.getElem_range]
    have := writeList_get_inside b off (pre ++ w) hb (pre.length + i) (by simp; omega)
    rw [Nat.add_assoc, this]
    simp

/-- Reading a range disjoint from the written one is unaffected. -/
theorem readList_writeList_disjoint (b : ByteArray) (off : Nat) (xs : List UInt8) (off' len : Nat)
    (h : off' + len ≤ off ∨ off + xs.length ≤ off') :
    readList (writeList b off xs) off' len = readList b off' len := by
  apply List.ext_getElem
  · simp [readList]
  · intro i h1 h2
    have hi : i < len := by simpa [readList] using h1
    simp only [readList, List.getElem_map, List.getElem_range]
    exact writeList_get_outside b off xs (off' + i) (by omega)

@[simp] theorem leBytes8_length (n : Nat) : (leBytes8 n).length = 8 := by simp [leBytes8]

/-! ## The pool chain -/

theorem getPool_some {ps : List Pool} {id : Nat} {p : Pool} (h : getPool ps id = some p) : p ∈ ps ∧ p.id = id := by
  induction ps with
  | nil => simp [getPool] at h
  | cons q qs ih =>
    simp only [getPool] at h
    split at h
    · next hq => cases h; exact ⟨List.mem_cons_self, hq⟩
    · exact ⟨List.mem_cons_of_mem _ (ih h).1, (ih h).2⟩

theorem getPool_poke (ps : List Pool) (id off : Nat) (bs : List UInt8) (id' : Nat) :
    getPool (poke ps id off bs) id' =
      if id' = id then (getPool ps id).map (fun p => { p with bytes := writeList p.bytes off bs })
      else getPool ps id' := by
  induction ps with
  | nil => simp [poke, getPool]
  | cons q qs ih =>
    simp only [poke]
    by_cases hq : q.id = id
    · by_cases h' : id' = id
      · subst h'; simp [getPool, hq]
      · have : ¬ id = id' := by omega
        simp [getPool, hq, h', this]
    · by_cases h' : id' = id
      · subst h'; simp [getPool, hq, ih]
      · by_cases hq' : q.id = id'
        · simp [getPool, h', hq']
        · simp [getPool, hq, h', hq', ih]

theorem mem_poke {ps : List Pool} {id off : Nat} {bs : List UInt8} {p : Pool} (h : p ∈ poke ps id off bs) :
    ∃ q ∈ ps, p.id = q.id ∧ p.cap = q.cap ∧ p.bytes.size = q.bytes.size := by
  induction ps with
  | nil => simp [poke] at h
  | cons q qs ih =>
    simp only [poke] at h
    split at h
    · rcases List.mem_cons.mp h with h | h
      · exact ⟨q, List.mem_cons_self, by subst h; simp⟩
      · exact ⟨p, List.mem_cons_of_mem _ h, rfl, rfl, rfl⟩
    · rcases List.mem_cons.mp h with h | h
      · exact ⟨q, List.mem_cons_self, by subst h; simp⟩
      · obtain ⟨r, hr, h3⟩ := ih h
        exact ⟨r, List.mem_cons_of_mem _ hr, h3⟩

/-! ## Geometry invariant -/

/-- Well-formedness of the arena (an invariant of every reachable state). -/
structure WF (A : Arena) : Prop where
  hB : 1 ≤ A.B
  head : ∃ hd tl, A.pools = hd :: tl ∧ hd.cap = 16 * A.B
  ids : ∀ p ∈ A.pools, p.id < A.created
  sizes : ∀ p ∈ A.pools, p.bytes.size = p.cap
  next_le : A.next ≤ A.B

/-- The string `(loc, len)` is allocated in `A`: its pool exists, its length field and characters lie inside that pool's
    storage, and if the pool is the current one the bump pointer is past all its headers. -/
def Live (A : Arena) (loc : Loc) (len : Nat) : Prop :=
  ∃ p, getPool A.pools loc.pool = some p ∧ 16 * loc.hdr + 8 + len ≤ p.cap ∧
    (∀ hd tl, A.pools = hd :: tl → loc.pool = hd.id → loc.hdr + hdrs len ≤ A.next)

/-- Two allocations occupy different pools or non-overlapping header ranges. -/
def Disj (a b : Loc × Nat) : Prop :=
  a.1.pool ≠ b.1.pool ∨ a.1.hdr + hdrs a.2 ≤ b.1.hdr ∨ b.1.hdr + hdrs b.2 ≤ a.1.hdr

theorem Disj.symm {a b : Loc × Nat} (h : Disj a b) : Disj b a := by
  rcases h with h | h | h
  · exact Or.inl (Ne.symm h)
  · exact Or.inr (Or.inr h)
  · exact Or.inr (Or.inl h)

theorem WF_init (B : Nat) (hB : 1 ≤ B) : WF (Arena.init B) := by
  refine ⟨hB, ⟨_, _, rfl, rfl⟩, ?_, ?_, Nat.zero_le _⟩ <;> simp [Arena.init]

/-- Everything `allocate` does, in one statement. -/
theorem allocate_spec (A : Arena) (n : Nat) (hA : WF A) :
    WF (A.allocate n).1 ∧
    Live (A.allocate n).1 (A.allocate n).2 n ∧
    (A.allocate n).1.B = A.B ∧
    (∀ l k, Live A l k → Live (A.allocate n).1 l k ∧ Disj (l, k) ((A.allocate n).2, n) ∧
        (A.allocate n).1.read l k = A.read l k) := by
  obtain ⟨hd, tl, hp, hcap⟩ := hA.head
  have hB := hA.hB
  have hnext := hA.next_le
  have hfit := hdrs_fits n
  have hids := hA.ids
  have hsizes := hA.sizes
  obtain ⟨B, pools, next, created⟩ := A
  dsimp only at hp hB hnext hids hsizes hcap
  subst hp
  have hhd : hd.id < created := hids hd (by simp)
  unfold Arena.allocate
  dsimp only
  by_cases h1 : hdrs n ≤ B - next
  · -- bump inside the current pool
    simp only [h1, if_true]
    refine ⟨⟨hB, ⟨hd, tl, rfl, hcap⟩, hids, hsizes, by dsimp only; omega⟩, ?_, by trivial, ?_⟩
    · refine ⟨hd, by simp [getPool], by dsimp only; omega, ?_⟩
      intro hd' tl' hp' _
      dsimp only
      omega
    · intro l k ⟨p, hg, hin, hbump⟩
      dsimp only at hg hbump
      refine ⟨⟨p, hg, hin, ?_⟩, ?_, ?_⟩
      · intro hd' tl' hp' hl
        have := hbump hd' tl' hp' hl
        dsimp only; omega
      · by_cases hl : l.pool = hd.id
        · have := hbump hd tl rfl hl
          exact Or.inr (Or.inl this)
        · exact Or.inl hl
      · rfl
  · simp only [h1, if_false]
    by_cases h2 : n > B
    · -- oversize: own pool behind the head
      simp only [h2, if_true]
      refine ⟨⟨hB, ⟨hd, _, rfl, hcap⟩, ?_, ?_, hnext⟩, ?_, by trivial, ?_⟩
      · intro p hpm
        dsimp only at hpm ⊢
        simp only [List.mem_cons] at hpm
        rcases hpm with rfl | rfl | hpm
        · omega
        · dsimp only; omega
        · have := hids p (by simp [hpm]); omega
      · intro p hpm
        dsimp only at hpm
        simp only [List.mem_cons] at hpm
        rcases hpm with rfl | rfl | hpm
        · exact hsizes _ (by simp)
        · simp
        · exact hsizes p (by simp [hpm])
      · refine ⟨⟨created, 16 * B + (n - B), zeros (16 * B + (n - B))⟩, ?_, by dsimp only; omega, ?_⟩
        · have : ¬ hd.id = created := by omega
          simp [getPool, this]
        · intro hd' tl' hp' hl
          dsimp only at hp' hl
          simp only [List.cons.injEq] at hp'
          rw [← hp'.1] at hl
          omega
      · intro l k ⟨p, hg, hin, hbump⟩
        dsimp only at hg hbump
        have hpid := getPool_some hg
        have hlt : l.pool < created := by have := hids p hpid.1; omega
        have hne : ¬ created = l.pool := by omega
        have hg' : getPool (hd :: ⟨created, 16 * B + (n - B), zeros (16 * B + (n - B))⟩ :: tl) l.pool = some p := by
          simp only [getPool] at hg ⊢
          split
          · next h => simpa [h] using hg
          · next h => simpa [h, hne] using hg
        refine ⟨⟨p, hg', hin, ?_⟩, Or.inl (by dsimp only; omega), ?_⟩
        · intro hd' tl' hp' hl
          dsimp only at hp'
          simp only [List.cons.injEq] at hp'
          exact hbump hd tl rfl (by rw [hl, hp'.1])
        · simp only [Arena.read, hg', hg]
    · -- fresh regular pool in front
      simp only [h2, if_false]
      have hm : hdrs n ≤ B := by unfold hdrs; omega
      refine ⟨⟨hB, ⟨_, _, rfl, rfl⟩, ?_, ?_, hm⟩, ?_, by trivial, ?_⟩
      · intro p hpm
        dsimp only at hpm ⊢
        simp only [List.mem_cons] at hpm
        rcases hpm with rfl | rfl | hpm
        · dsimp only; omega
        · omega
        · have := hids p (by simp [hpm]); omega
      · intro p hpm
        dsimp only at hpm
        simp only [List.mem_cons] at hpm
        rcases hpm with rfl | rfl | hpm
        · simp
        · exact hsizes _ (by simp)
        · exact hsizes p (by simp [hpm])
      · refine ⟨⟨created, 16 * B, zeros (16 * B)⟩, by simp [getPool], by dsimp only; omega, ?_⟩
        intro hd' tl' hp' hl
        dsimp only
        omega
      · intro l k ⟨p, hg, hin, hbump⟩
        dsimp only at hg hbump
        have hpid := getPool_some hg
        have hlt : l.pool < created := by have := hids p hpid.1; omega
        have hne : ¬ created = l.pool := by omega
        have hg' : getPool (⟨created, 16 * B, zeros (16 * B)⟩ :: hd :: tl) l.pool = some p := by
          rw [getPool]; simp only [hne, if_false]; exact hg
        refine ⟨⟨p, hg', hin, ?_⟩, Or.inl (by dsimp only; omega), ?_⟩
        · intro hd' tl' hp' hl
          dsimp only at hp'
          simp only [List.cons.injEq] at hp'
          rw [← hp'.1] at hl
          dsimp only at hl
          omega
        · simp only [Arena.read, hg', hg]

theorem makeString_eq (A : Arena) (w : Word) :
    A.makeString w =
      ({ (A.allocate w.length).1 with
          pools := poke (A.allocate w.length).1.pools (A.allocate w.length).2.pool
            (16 * (A.allocate w.length).2.hdr) (leBytes8 w.length ++ w) },
       (A.allocate w.length).2) := rfl

theorem Live_poke {A : Arena} {id off : Nat} {bs : List UInt8} {l : Loc} {k : Nat} (h : Live A l k) :
    Live { A with pools := poke A.pools id off bs } l k := by
  obtain ⟨p, hg, hin, hbump⟩ := h
  by_cases hl : l.pool = id
  · subst hl
    refine ⟨{ p with bytes := writeList p.bytes off bs }, ?_, hin, ?_⟩
    · simp [getPool_poke, hg]
    · intro hd' tl' hp' hl'
      cases hps : A.pools with
      | nil => simp [hps, poke] at hp'
      | cons q qs =>
        simp only [hps, poke] at hp'
        have : hd'.id = q.id := by
          split at hp' <;> · simp at hp'; rw [← hp'.1]
        exact hbump q qs hps (by omega)
  · refine ⟨p, by simp [getPool_poke, hl, hg], hin, ?_⟩
    intro hd' tl' hp' hl'
    cases hps : A.pools with
    | nil => simp [hps, poke] at hp'
    | cons q qs =>
      simp only [hps, poke] at hp'
      have : hd'.id = q.id := by
        split at hp' <;> · simp at hp'; rw [← hp'.1]
      exact hbump q qs hps (by omega)

theorem WF_poke {A : Arena} {id off : Nat} {bs : List UInt8} (h : WF A) :
    WF { A with pools := poke A.pools id off bs } := by
  obtain ⟨hd, tl, hp, hcap⟩ := h.head
  refine ⟨h.hB, ?_, ?_, ?_, h.next_le⟩
  · simp only [hp, poke]
    split
    · exact ⟨_, _, rfl, hcap⟩
    · exact ⟨_, _, rfl, hcap⟩
  · intro p hpm
    obtain ⟨q, hq, h1, _, _⟩ := mem_poke hpm
    have := h.ids q hq
    simp at *; omega
  · intro p hpm
    obtain ⟨q, hq, _, h2, h3⟩ := mem_poke hpm
    have := h.sizes q hq
    omega

/-- Everything `make_string` does: the arena stays well formed, the new string is allocated and reads back as `w`,
    every string allocated before stays allocated, is disjoint from the new one and reads exactly as before. -/
theorem makeString_spec (A : Arena) (w : Word) (hA : WF A) :
    WF (A.makeString w).1 ∧
    Live (A.makeString w).1 (A.makeString w).2 w.length ∧
    (A.makeString w).1.read (A.makeString w).2 w.length = w ∧
    (A.makeString w).1.B = A.B ∧
    (∀ l k, Live A l k → Live (A.makeString w).1 l k ∧ Disj (l, k) ((A.makeString w).2, w.length) ∧
        (A.makeString w).1.read l k = A.read l k) := by
  obtain ⟨hwf, hlive, hBeq, hold⟩ := allocate_spec A w.length hA
  rw [makeString_eq]
  generalize A.allocate w.length = r at *
  obtain ⟨A1, loc⟩ := r
  simp only at hwf hlive hold hBeq ⊢
  refine ⟨WF_poke hwf, Live_poke hlive, ?_, hBeq, ?_⟩
  · obtain ⟨p, hg, hin, _⟩ := hlive
    have hsz := hwf.sizes p (getPool_some hg).1
    simp only [Arena.read, getPool_poke, if_true, hg, Option.map_some]
    have := readList_writeList p.bytes (16 * loc.hdr) (leBytes8 w.length) w (by simp; omega)
    simpa using this
  · intro l k hl
    obtain ⟨hl1, hd1, hr1⟩ := hold l k hl
    refine ⟨Live_poke hl1, hd1, ?_⟩
    rw [← hr1]
    obtain ⟨p, hg, hin, _⟩ := hl1
    simp only [Arena.read, getPool_poke]
    by_cases hpool : l.pool = loc.pool
    · simp only [hpool, if_true]
      rw [hpool] at hg
      simp only [hg, Option.map_some]
      apply readList_writeList_disjoint
      have h1 := hdrs_fits k
      have h2 := hdrs_fits w.length
      rcases hd1 with hd1 | hd1 | hd1
      · exact absurd hpool hd1
      · simp at hd1; left; omega
      · simp at hd1; right; simp; omega
    · simp [hpool]

end Ipr.Arena
