import IprModel.Printer
/-!
# Lemmas about the printer model, part 1: renaming of addresses (C17)

`Iso σ R h h'`: on the set `R` (closed under the operands the printer can follow) the heap `h'` is the heap `h` with every
address renamed by `σ`, and `σ` is injective on `R`.  Outside `R` both heaps are arbitrary (unrelated allocations).
-/
namespace Ipr.Printer

def NodeRec.rename (σ : Addr → Addr) (r : NodeRec) : NodeRec :=
  { r with ops := r.ops.map (Option.map σ), seq := r.seq.map σ, seq2 := r.seq2.map σ,
           name := r.name.map σ, typ := r.typ.map σ }

/-- Every address stored in a node. -/
def NodeRec.children (r : NodeRec) : List Addr :=
  r.ops.filterMap id ++ r.seq ++ r.seq2 ++ r.name.toList ++ r.typ.toList

structure Iso (σ : Addr → Addr) (R : Addr → Prop) (h h' : Heap) : Prop where
  hom : ∀ a, R a → h' (σ a) = (h a).rename σ
  closed : ∀ a, R a → ∀ b ∈ (h a).children, R b
  inj : ∀ a b, R a → R b → σ a = σ b → a = b

theorem getD_none_eq_some {l : List (Option Addr)} {i : Nat} {b : Addr} (hb : l.getD i none = some b) : some b ∈ l := by
  rw [List.getD_eq_getElem?_getD] at hb
  cases hi : l[i]? with
  | none => simp [hi] at hb
  | some x =>
    simp [hi] at hb
    subst hb
    exact List.mem_of_getElem? hi

theorem sel_mem_children {r : NodeRec} {s : Sel} {b : Addr} (hb : r.sel s = some b) : b ∈ r.children := by
  unfold NodeRec.children
  cases s with
  | op i =>
    have := getD_none_eq_some (l := r.ops) (i := i) hb
    simp only [List.mem_append, List.mem_filterMap]
    exact Or.inl (Or.inl (Or.inl (Or.inl ⟨some b, this, rfl⟩)))
  | name =>
    simp only [NodeRec.sel] at hb
    simp [hb]
  | typ =>
    simp only [NodeRec.sel] at hb
    simp [hb]

theorem pick_subset_children (r : NodeRec) (w : Which) : ∀ b ∈ r.pick w, b ∈ r.children := by
  intro b hb
  unfold NodeRec.children
  cases w <;> simp_all [NodeRec.pick]

theorem sel_rename (σ : Addr → Addr) (r : NodeRec) (s : Sel) : (r.rename σ).sel s = (r.sel s).map σ := by
  cases s with
  | op i =>
    simp only [NodeRec.sel, NodeRec.rename, List.getD_eq_getElem?_getD, List.getElem?_map]
    cases r.ops[i]? <;> simp
  | name => rfl
  | typ => rfl

theorem pick_rename (σ : Addr → Addr) (r : NodeRec) (w : Which) : (r.rename σ).pick w = (r.pick w).map σ := by
  cases w <;> rfl

section iso
variable {σ : Addr → Addr} {R : Addr → Prop} {h h' : Heap} (iso : Iso σ R h h')
include iso

theorem follow_iso : ∀ (p : Path) (a : Addr), R a →
    follow h' (σ a) p = (follow h a p).map σ ∧ ∀ b, follow h a p = some b → R b
  | [], a, ha => ⟨rfl, fun b hb => by simp [follow] at hb; exact hb ▸ ha⟩
  | s :: p, a, ha => by
    simp only [follow]
    rw [iso.hom a ha, sel_rename]
    cases hs : (h a).sel s with
    | none => simp
    | some b =>
      have hb : R b := iso.closed a ha b (sel_mem_children hs)
      simpa using follow_iso p b hb

theorem cat_iso {a : Addr} (ha : R a) : (h' (σ a)).cat = (h a).cat := by
  rw [iso.hom a ha]; rfl

theorem map_beq_some {x : Option Addr} {a : Addr} (ha : R a) (hx : ∀ b, x = some b → R b) :
    (x.map σ == some (σ a)) = (x == some a) := by
  cases x with
  | none => rfl
  | some b =>
    have hb := hx b rfl
    simp only [Option.map_some, Option.some.injEq, Bool.beq_eq_decide_eq]
    by_cases hab : b = a
    · subst hab; simp
    · have : σ b ≠ σ a := fun e => hab (iso.inj b a hb ha e)
      simp [hab, this]

theorem cond_iso {a : Addr} (ha : R a) (c : Cond) : c.eval h' (σ a) (h' (σ a)) = c.eval h a (h a) := by
  cases c with
  | has p => simp only [Cond.eval, (follow_iso iso p a ha).1, Option.isSome_map]
  | builtin =>
    simp only [Cond.eval]
    rw [iso.hom a ha, sel_rename]
    exact map_beq_some iso ha fun b hb => iso.closed a ha b (sel_mem_children hb)
  | ownTypeId =>
    simp only [Cond.eval]
    rw [iso.hom a ha]
    show (match Option.map σ (h a).name with | none => false | some n => _) = _
    cases hn : (h a).name with
    | none => rfl
    | some n =>
      have hRn : R n := iso.closed a ha n (sel_mem_children (s := .name) hn)
      simp only [Option.map_some]
      rw [iso.hom n hRn, sel_rename]
      have := map_beq_some iso (x := (h n).sel (.op 0)) ha fun b hb => iso.closed n hRn b (sel_mem_children hb)
      rw [this]; rfl
  | catIs p c =>
    simp only [Cond.eval, (follow_iso iso p a ha).1]
    cases hf : follow h a p with
    | none => rfl
    | some b => simp [cat_iso iso ((follow_iso iso p a ha).2 b hf)]
  | nonempty p w =>
    simp only [Cond.eval, (follow_iso iso p a ha).1]
    cases hf : follow h a p with
    | none => rfl
    | some b =>
      simp only [Option.map_some]
      rw [iso.hom b ((follow_iso iso p a ha).2 b hf), pick_rename]
      simp
  | strAlpha => simp only [Cond.eval]; rw [iso.hom a ha]; rfl
  | delimIs k => simp only [Cond.eval]; rw [iso.hom a ha]; rfl

omit iso in
theorem resolve_congr {ev ev' : Cond → Bool} (hev : ∀ c, ev c = ev' c) : ∀ p : Prod, p.resolve ev = p.resolve ev'
  | .is _ => rfl
  | .ite c t e => by simp only [Prod.resolve, hev c, resolve_congr hev t, resolve_congr hev e]
  | .app a b => by simp only [Prod.resolve, resolve_congr hev a, resolve_congr hev b]

theorem production_iso (e : Entry) {a : Addr} (ha : R a) : production h' e (σ a) = production h e a := by
  unfold production
  rw [cat_iso iso ha]
  exact resolve_congr (fun c => cond_iso iso ha c) _

omit iso in
theorem runSeq_iso {rec rec' : Rec} (hrec : ∀ e b st, R b → rec' e (σ b) st = rec e b st) (k : SeqKind) :
    ∀ (l : List Addr) (first : Bool) (st : PState), (∀ b ∈ l, R b) →
      runSeq rec' k (l.map σ) first st = runSeq rec k l first st
  | [], _, _, _ => rfl
  | x :: xs, first, st, hl => by
    simp only [List.map_cons, runSeq]
    rw [hrec _ x _ (hl x (by simp))]
    congr 1
    funext st'
    exact runSeq_iso hrec k xs false _ fun b hb => hl b (by simp [hb])

theorem step_iso {rec rec' : Rec} (hrec : ∀ e b st, R b → rec' e (σ b) st = rec e b st) (cls : VClass) (strict : Bool)
    {a : Addr} (ha : R a) (i : Instr) (st : PState) :
    step h' rec' cls strict (σ a) (h' (σ a)) i st = step h rec cls strict a (h a) i st := by
  have hr : h' (σ a) = (h a).rename σ := iso.hom a ha
  cases i with
  | acc e p =>
    simp only [step, (follow_iso iso p a ha).1]
    cases hf : follow h a p with
    | none => rfl
    | some b => exact hrec e b st ((follow_iso iso p a ha).2 b hf)
  | accSame p =>
    simp only [step, (follow_iso iso p a ha).1]
    cases hf : follow h a p with
    | none => rfl
    | some b => exact hrec _ b st ((follow_iso iso p a ha).2 b hf)
  | each k p w =>
    simp only [step, (follow_iso iso p a ha).1]
    cases hf : follow h a p with
    | none => rfl
    | some b =>
      have hb := (follow_iso iso p a ha).2 b hf
      simp only [Option.map_some]
      rw [iso.hom b hb, pick_rename]
      exact runSeq_iso hrec k _ true st fun c hc => iso.closed b hb c (pick_subset_children _ w c hc)
  | _ => simp only [step, hr] <;> rfl

theorem runInstrs_iso {rec rec' : Rec} (hrec : ∀ e b st, R b → rec' e (σ b) st = rec e b st) (cls : VClass) (strict : Bool)
    {a : Addr} (ha : R a) : ∀ (is : List Instr) (st : PState),
      runInstrs h' rec' cls strict (σ a) (h' (σ a)) is st = runInstrs h rec cls strict a (h a) is st
  | [], _ => rfl
  | i :: is, st => by
    simp only [runInstrs]
    rw [step_iso iso hrec cls strict ha i st]
    congr 1
    funext st'
    exact runInstrs_iso hrec cls strict ha is st'

theorem dispatch_iso (o : Opts) : ∀ (n : Nat) (e : Entry) (a : Addr) (st : PState), R a →
    dispatch h' o n e (σ a) st = dispatch h o n e a st
  | 0, _, _, _, _ => rfl
  | n + 1, e, a, st, ha => by
    simp only [dispatch]
    rw [production_iso iso e ha, runInstrs_iso iso (fun e b st hb => dispatch_iso o n e b st hb) e.cls e.strict ha]
    have : (h' (σ a)) = (h a).rename σ := iso.hom a ha
    rw [this]
    rfl

end iso

end Ipr.Printer
