import IprModel.Region
/-!
# Invariants of the region store (helper lemmas for C12)

`Inv s` holds of every state reachable by `step` (`Inv.run`).  It has a tree part (`TreeInv`: parents have smaller
indices, same unit, depth one less; parentless regions are exactly the unit roots), a node part (`NodeFacts`: what
each node opened, with which enclosing region / owner / kind; handler shape; member positions) and a bindings part.
`Ext s s'` says that `s'` only *adds* to `s`; every `step` is an extension, so nothing observed ever changes.
-/
namespace Ipr.Region

@[simp] theorem pushRegion_tree (s : State) (r l) : (s.pushRegion r l).tree = s.tree.push r := rfl
@[simp] theorem pushRegion_binds (s : State) (r l) : (s.pushRegion r l).binds = s.binds.push l := rfl
@[simp] theorem pushRegion_nodes (s : State) (r l) : (s.pushRegion r l).nodes = s.nodes := rfl
@[simp] theorem pushRegion_units (s : State) (r l) : (s.pushRegion r l).units = s.units := rfl
@[simp] theorem pushRegion_mods (s : State) (r l) : (s.pushRegion r l).mods = s.mods := rfl
@[simp] theorem pushNode_tree (s : State) (n) : (s.pushNode n).tree = s.tree := rfl
@[simp] theorem pushNode_binds (s : State) (n) : (s.pushNode n).binds = s.binds := rfl
@[simp] theorem pushNode_nodes (s : State) (n) : (s.pushNode n).nodes = s.nodes.push n := rfl
@[simp] theorem pushNode_units (s : State) (n) : (s.pushNode n).units = s.units := rfl
@[simp] theorem pushNode_mods (s : State) (n) : (s.pushNode n).mods = s.mods := rfl
@[simp] theorem pushMod_tree (s : State) (u) : (s.pushMod u).tree = s.tree := rfl
@[simp] theorem pushMod_binds (s : State) (u) : (s.pushMod u).binds = s.binds := rfl
@[simp] theorem pushMod_nodes (s : State) (u) : (s.pushMod u).nodes = s.nodes := rfl
@[simp] theorem pushMod_units (s : State) (u) : (s.pushMod u).units = s.units := rfl
@[simp] theorem pushMod_mods (s : State) (u) : (s.pushMod u).mods = s.mods.push u := rfl
@[simp] theorem addMember_tree (s : State) (mk c h p) : (s.addMember mk c h p).tree = s.tree := rfl
@[simp] theorem addMember_binds (s : State) (mk c h p) :
    (s.addMember mk c h p).binds = s.binds.modify h (· ++ [s.nodes.size]) := rfl
@[simp] theorem addMember_nodes (s : State) (mk c h p) :
    (s.addMember mk c h p).nodes = s.nodes.push (.member mk c h p) := rfl
@[simp] theorem addMember_units (s : State) (mk c h p) : (s.addMember mk c h p).units = s.units := rfl
@[simp] theorem addMember_mods (s : State) (mk c h p) : (s.addMember mk c h p).mods = s.mods := rfl
@[simp] theorem newUnit_tree (s : State) (k m) : (s.newUnit k m).tree =
    s.tree.push { parent := none, owner := some s.nodes.size, kind := .root, unit := s.units.size, depth := 0 } := rfl
@[simp] theorem newUnit_binds (s : State) (k m) : (s.newUnit k m).binds = s.binds.push [] := rfl
@[simp] theorem newUnit_nodes (s : State) (k m) :
    (s.newUnit k m).nodes = s.nodes.push (.udt .ns none s.tree.size none) := rfl
@[simp] theorem newUnit_units (s : State) (k m) : (s.newUnit k m).units =
    s.units.push { kind := k, ns := s.nodes.size, global := s.tree.size, module := m } := rfl
@[simp] theorem newUnit_mods (s : State) (k m) : (s.newUnit k m).mods = s.mods := rfl

theorem lt_of_get {α} {a : Array α} {i : Nat} {x : α} (h : a[i]? = some x) : i < a.size := by
  rcases Array.getElem?_eq_some_iff.mp h with ⟨h, _⟩; exact h

theorem get_push_of_get {α} {a : Array α} {i : Nat} {x y : α} (h : a[i]? = some x) : (a.push y)[i]? = some x := by
  have := lt_of_get h
  rw [Array.getElem?_push]; split
  · omega
  · exact h

/-! ## The tree part -/

structure TreeInv (t : Array RegionRec) (us : Array UnitRec) : Prop where
  up : ∀ (i : Nat) (r : RegionRec) (p : Nat), t[i]? = some r → r.parent = some p →
        p < i ∧ ∃ q : RegionRec, t[p]? = some q ∧ q.unit = r.unit ∧ r.depth = q.depth + 1
  top : ∀ (i : Nat) (r : RegionRec), t[i]? = some r → r.parent = none →
        r.depth = 0 ∧ r.kind = .root ∧ ∃ u : UnitRec, us[r.unit]? = some u ∧ u.global = i
  unitRoot : ∀ (j : Nat) (u : UnitRec), us[j]? = some u →
        ∃ r : RegionRec, t[u.global]? = some r ∧ r.parent = none ∧ r.unit = j

theorem TreeInv.child {t : Array RegionRec} {us : Array UnitRec} (h : TreeInv t us) {p : Nat} {pr : RegionRec}
    (hp : t[p]? = some pr) (o k) : TreeInv (t.push (child pr p o k)) us := by
  constructor
  · intro i r q hi hq
    have := h.up i r q
    grind [Region.child]
  · intro i r hi hq
    have := h.top i r
    grind [Region.child]
  · intro j u hj
    have := h.unitRoot j u hj
    grind

theorem TreeInv.newUnit {t : Array RegionRec} {us : Array UnitRec} (h : TreeInv t us) (o k n m) :
    TreeInv (t.push { parent := none, owner := o, kind := .root, unit := us.size, depth := 0 })
      (us.push { kind := k, ns := n, global := t.size, module := m }) := by
  constructor
  · intro i r q hi hq
    have := h.up i r q
    grind
  · intro i r hi hq
    rw [Array.getElem?_push] at hi
    split at hi
    · cases hi; subst_vars
      exact ⟨rfl, rfl, _, Array.getElem?_push_size, rfl⟩
    · obtain ⟨h1, h2, u, h3, h4⟩ := h.top i r hi hq
      exact ⟨h1, h2, u, get_push_of_get h3, h4⟩
  · intro j u hj
    rw [Array.getElem?_push] at hj
    split at hj
    · cases hj; subst_vars
      exact ⟨_, Array.getElem?_push_size, rfl, rfl⟩
    · obtain ⟨r, h1, h2⟩ := h.unitRoot j u hj
      exact ⟨r, get_push_of_get h1, h2⟩

/-- Depth never exceeds the index (strong induction on the index). -/
theorem TreeInv.depth_le {t : Array RegionRec} {us : Array UnitRec} (h : TreeInv t us) :
    ∀ (i : Nat) (r : RegionRec), t[i]? = some r → r.depth ≤ i := by
  intro i
  induction i using Nat.strongRecOn with
  | _ i ih =>
    intro r hr
    cases hp : r.parent with
    | none => have := (h.top i r hr hp).1; omega
    | some p =>
      obtain ⟨hlt, q, hq, _, hd⟩ := h.up i r p hr hp
      have := ih p hlt q hq
      omega

/-- The outward walk: with enough fuel it takes exactly `depth` steps and stops at the global region of the unit. -/
theorem TreeInv.outward {t : Array RegionRec} {us : Array UnitRec} (h : TreeInv t us) :
    ∀ (fuel i : Nat) (r : RegionRec) (n : Nat), t[i]? = some r → r.depth < fuel →
      ∃ u : UnitRec, us[r.unit]? = some u ∧ outward t fuel i n = (n + r.depth, u.global) := by
  intro fuel
  induction fuel with
  | zero => intro i r n _ hd; omega
  | succ fuel ih =>
    intro i r n hr hd
    cases hp : r.parent with
    | none =>
      obtain ⟨h0, _, u, hu, hg⟩ := h.top i r hr hp
      exact ⟨u, hu, by simp [Region.outward, hr, hp, h0, hg]⟩
    | some p =>
      obtain ⟨_, q, hq, hqu, hdq⟩ := h.up i r p hr hp
      obtain ⟨u, hu, hw⟩ := ih p q (n + 1) hq (by omega)
      refine ⟨u, hqu ▸ hu, ?_⟩
      simp only [Region.outward, hr, hp, hw, hdq]
      congr 1; omega

/-! ## The node part -/

/-- Region `r` exists, is enclosed by `p`, owned by `o`, and of kind `k`. -/
def Opens (t : Array RegionRec) (r : Nat) (p o : Option Nat) (k : RKind) : Prop :=
  ∃ rr : RegionRec, t[r]? = some rr ∧ rr.parent = p ∧ rr.owner = o ∧ rr.kind = k

theorem Opens.push {t r p o k} (h : Opens t r p o k) (x : RegionRec) : Opens (t.push x) r p o k := by
  obtain ⟨rr, h1, h2⟩ := h
  exact ⟨rr, get_push_of_get h1, h2⟩

theorem Opens.last (t : Array RegionRec) (pr : RegionRec) (p : Nat) (o k) :
    Opens (t.push (child pr p o k)) t.size (some p) o k :=
  ⟨_, Array.getElem?_push_size, rfl, rfl, rfl⟩

/-- What must be true of node `n` with record `nd` (stable under every extension of the store). -/
def NodeFacts (s : State) (n : Nat) : NodeRec → Prop
  | .udt k (some r) body bases =>
    Opens s.tree body (some r) (some n) k.bodyKind ∧
      (match bases with
       | some b => k = .cls ∧ Opens s.tree b (some r) (some n) .classBases
       | none => k ≠ .cls)
  | .udt k none body bases => k = .ns ∧ bases = none ∧ Opens s.tree body none (some n) .root
  | .block inR rg => Opens s.tree rg (some inR) (some n) .block
  | .handler blk encl eh exc hb =>
    Opens s.tree eh (some encl) none .eh ∧ (∃ brg, s.nodes[blk]? = some (.block encl brg)) ∧
      s.nodes[exc]? = some (.ehparam encl) ∧ (∃ rg, s.nodes[hb]? = some (.hblock eh rg)) ∧ s.binds[eh]? = some [exc]
  | .hblock eh rg => Opens s.tree rg (some eh) (some n) .handlerBody
  | .ehparam _ => True
  | .callable k inR pl => ∃ parms lvl, s.nodes[pl]? = some (.plist k n inR parms lvl)
  | .plist k host inR parms _ => Opens s.tree parms (some inR) (if k.owns then some host else none) k.parmsKind
  | .whereN inR rg => Opens s.tree rg (some inR) none .whereBody
  | .member mk c home pos =>
    (∃ l : List Nat, s.binds[home]? = some l ∧ l[pos]? = some n) ∧
      (∃ cn, s.nodes[c]? = some cn ∧ memberHome mk cn = some home)

/-- `s'` only adds to `s`. -/
structure Ext (s s' : State) : Prop where
  tree : ∀ (i : Nat) (x : RegionRec), s.tree[i]? = some x → s'.tree[i]? = some x
  nodes : ∀ (i : Nat) (x : NodeRec), s.nodes[i]? = some x → s'.nodes[i]? = some x
  binds : ∀ (i : Nat) (l : List Nat), s.binds[i]? = some l → ∃ l', s'.binds[i]? = some (l ++ l')
  ehBinds : ∀ (i : Nat) (l : List Nat) (rr : RegionRec), s.tree[i]? = some rr → rr.kind = .eh →
      s.binds[i]? = some l → s'.binds[i]? = some l
  units : ∀ (i : Nat) (x : UnitRec), s.units[i]? = some x → s'.units[i]? = some x
  mods : ∀ (i : Nat) (x : Nat), s.mods[i]? = some x → s'.mods[i]? = some x

theorem Ext.refl (s : State) : Ext s s :=
  ⟨fun _ _ h => h, fun _ _ h => h, fun _ l h => ⟨[], by simpa using h⟩, fun _ _ _ _ _ h => h, fun _ _ h => h, fun _ _ h => h⟩

theorem Ext.trans {a b c : State} (h1 : Ext a b) (h2 : Ext b c) : Ext a c := by
  refine ⟨fun i x h => h2.tree i x (h1.tree i x h), fun i x h => h2.nodes i x (h1.nodes i x h), ?_, ?_,
    fun i x h => h2.units i x (h1.units i x h), fun i x h => h2.mods i x (h1.mods i x h)⟩
  · intro i l h
    obtain ⟨l1, h3⟩ := h1.binds i l h
    obtain ⟨l2, h4⟩ := h2.binds i _ h3
    exact ⟨l1 ++ l2, by simpa [List.append_assoc] using h4⟩
  · intro i l rr ht hk hb
    exact h2.ehBinds i l rr (h1.tree i rr ht) hk (h1.ehBinds i l rr ht hk hb)

theorem Opens.ext {s s' : State} (e : Ext s s') {r p o k} (h : Opens s.tree r p o k) : Opens s'.tree r p o k := by
  obtain ⟨rr, h1, h2⟩ := h
  exact ⟨rr, e.tree _ _ h1, h2⟩

theorem NodeFacts.ext {s s' : State} (e : Ext s s') {n : Nat} {nd : NodeRec} (h : NodeFacts s n nd) :
    NodeFacts s' n nd := by
  cases nd with
  | udt k inR body bases =>
    cases inR with
    | none => exact ⟨h.1, h.2.1, h.2.2.ext e⟩
    | some r =>
      refine ⟨h.1.ext e, ?_⟩
      cases bases with
      | none => exact h.2
      | some b => exact ⟨h.2.1, h.2.2.ext e⟩
  | block inR rg => exact Opens.ext e h
  | handler blk encl eh exc hb =>
    obtain ⟨h1, ⟨brg, h2⟩, h3, ⟨rg, h4⟩, h5⟩ := h
    have h1' := h1.ext e
    obtain ⟨rr, hr, _, _, hk⟩ := h1
    exact ⟨h1', ⟨brg, e.nodes _ _ h2⟩, e.nodes _ _ h3, ⟨rg, e.nodes _ _ h4⟩, e.ehBinds _ _ rr hr hk h5⟩
  | hblock eh rg => exact Opens.ext e h
  | ehparam home => trivial
  | callable k inR pl =>
    obtain ⟨parms, lvl, h1⟩ := h
    exact ⟨parms, lvl, e.nodes _ _ h1⟩
  | plist k host inR parms lvl => exact Opens.ext e h
  | whereN inR rg => exact Opens.ext e h
  | member mk c home pos =>
    obtain ⟨⟨l, h1, h2⟩, ⟨cn, h3, h4⟩⟩ := h
    obtain ⟨l', h5⟩ := e.binds _ _ h1
    refine ⟨⟨l ++ l', h5, ?_⟩, ⟨cn, e.nodes _ _ h3, h4⟩⟩
    have : pos < l.length := by
      rcases List.getElem?_eq_some_iff.mp h2 with ⟨h, _⟩; exact h
    rw [List.getElem?_append_left this]; exact h2

structure Inv (s : State) : Prop where
  tree : TreeInv s.tree s.units
  bsize : s.binds.size = s.tree.size
  facts : ∀ (n : Nat) (nd : NodeRec), s.nodes[n]? = some nd → NodeFacts s n nd
  bound : ∀ (r : Nat) (rr : RegionRec) (l : List Nat) (k x : Nat), s.tree[r]? = some rr → rr.kind ≠ .eh →
      s.binds[r]? = some l → l[k]? = some x → ∃ mk c, s.nodes[x]? = some (.member mk c r k)
  units : ∀ (j : Nat) (u : UnitRec), s.units[j]? = some u →
      s.nodes[u.ns]? = some (.udt .ns none u.global none) ∧ (u.kind = .tu ↔ u.module = none)
  mods : ∀ (m u : Nat), s.mods[m]? = some u →
      ∃ ur : UnitRec, s.units[u]? = some ur ∧ ur.kind = .iface ∧ ur.module = some m

theorem Inv.init : Inv {} := by
  constructor
  · constructor <;> intro _ _ <;> simp
  · rfl
  all_goals intros; simp_all

/-! ### Every primitive is an extension -/

theorem Ext.pushRegion (s : State) (rec l) (_hb : s.binds.size = s.tree.size) : Ext s (s.pushRegion rec l) := by
  constructor <;> simp only [pushRegion_tree, pushRegion_binds, pushRegion_nodes, pushRegion_units, pushRegion_mods]
  · exact fun i x h => get_push_of_get h
  · exact fun i x h => h
  · exact fun i l h => ⟨[], by simpa using get_push_of_get h⟩
  · exact fun i l rr _ _ h => get_push_of_get h
  · exact fun i x h => h
  · exact fun i x h => h

theorem Ext.pushNode (s : State) (nd) : Ext s (s.pushNode nd) := by
  constructor <;> simp only [pushNode_tree, pushNode_binds, pushNode_nodes, pushNode_units, pushNode_mods]
  · exact fun i x h => h
  · exact fun i x h => get_push_of_get h
  · exact fun i l h => ⟨[], by simpa using h⟩
  · exact fun i l rr _ _ h => h
  · exact fun i x h => h
  · exact fun i x h => h

theorem Ext.pushMod (s : State) (u) : Ext s (s.pushMod u) := by
  constructor <;> simp only [pushMod_tree, pushMod_binds, pushMod_nodes, pushMod_units, pushMod_mods]
  · exact fun i x h => h
  · exact fun i x h => h
  · exact fun i l h => ⟨[], by simpa using h⟩
  · exact fun i l rr _ _ h => h
  · exact fun i x h => h
  · exact fun i x h => get_push_of_get h

theorem Ext.newUnit (s : State) (k m) : Ext s (s.newUnit k m) := by
  constructor <;> simp only [newUnit_tree, newUnit_binds, newUnit_nodes, newUnit_units, newUnit_mods]
  · exact fun i x h => get_push_of_get h
  · exact fun i x h => get_push_of_get h
  · exact fun i l h => ⟨[], by simpa using get_push_of_get h⟩
  · exact fun i l rr _ _ h => get_push_of_get h
  · exact fun i x h => get_push_of_get h
  · exact fun i x h => h

theorem Ext.addMember (s : State) (mk c home pos) (hk : ∀ rr : RegionRec, s.tree[home]? = some rr → rr.kind ≠ .eh) :
    Ext s (s.addMember mk c home pos) := by
  constructor <;> simp only [addMember_tree, addMember_binds, addMember_nodes, addMember_units, addMember_mods]
  · exact fun i x h => h
  · exact fun i x h => get_push_of_get h
  · intro i l h
    rw [Array.getElem?_modify]
    split
    · subst_vars; exact ⟨[s.nodes.size], by simp [h]⟩
    · exact ⟨[], by simpa using h⟩
  · intro i l rr ht hkk h
    rw [Array.getElem?_modify]
    split
    · subst_vars; exact absurd hkk (hk rr ht)
    · exact h
  · exact fun i x h => h
  · exact fun i x h => h

/-! ### Every primitive keeps the invariant -/

theorem Inv.pushRegion {s : State} (hI : Inv s) {p : Nat} {pr : RegionRec} (hp : s.tree[p]? = some pr) (o k)
    (l : List Nat) (hl : k ≠ .eh → l = []) : Inv (s.pushRegion (child pr p o k) l) := by
  have e := Ext.pushRegion s (child pr p o k) l hI.bsize
  constructor
  · exact hI.tree.child hp o k
  · simp [hI.bsize]
  · intro n nd h; exact (hI.facts n nd h).ext e
  · intro r rr l' kk x ht hk hb hx
    simp only [pushRegion_tree, pushRegion_binds, pushRegion_nodes] at ht hb ⊢
    rw [Array.getElem?_push] at ht hb
    rw [hI.bsize] at hb
    split at ht
    · cases ht
      simp only [Region.child] at hk
      rw [if_pos (by assumption)] at hb
      cases hb
      rw [hl hk] at hx; simp at hx
    · rw [if_neg (by assumption)] at hb
      exact hI.bound r rr l' kk x ht hk hb hx
  · exact hI.units
  · exact hI.mods

theorem Inv.pushNode {s : State} (hI : Inv s) {nd : NodeRec} (hf : NodeFacts s s.nodes.size nd) :
    Inv (s.pushNode nd) := by
  have e := Ext.pushNode s nd
  constructor
  · exact hI.tree
  · exact hI.bsize
  · intro n nd' h
    simp only [pushNode_nodes] at h
    rw [Array.getElem?_push] at h
    split at h
    · cases h; subst_vars; exact hf.ext e
    · exact (hI.facts n nd' h).ext e
  · intro r rr l kk x ht hk hb hx
    obtain ⟨mk, c, h⟩ := hI.bound r rr l kk x ht hk hb hx
    exact ⟨mk, c, e.nodes _ _ h⟩
  · intro j u hu
    obtain ⟨h1, h2⟩ := hI.units j u hu
    exact ⟨e.nodes _ _ h1, h2⟩
  · exact hI.mods

theorem Inv.newUnit {s : State} (hI : Inv s) (k : UnitKind) (m : Option Nat) (hk : k = .tu ↔ m = none) :
    Inv (s.newUnit k m) := by
  have e := Ext.newUnit s k m
  constructor
  · exact hI.tree.newUnit _ _ _ _
  · simp [hI.bsize]
  · intro n nd h
    simp only [newUnit_nodes] at h
    rw [Array.getElem?_push] at h
    split at h
    · cases h; subst_vars
      exact ⟨rfl, rfl, _, Array.getElem?_push_size, rfl, rfl, rfl⟩
    · exact (hI.facts n nd h).ext e
  · intro r rr l kk x ht hk' hb hx
    simp only [newUnit_tree, newUnit_binds, newUnit_nodes] at ht hb ⊢
    rw [Array.getElem?_push] at ht hb
    rw [hI.bsize] at hb
    split at ht
    · rw [if_pos (by assumption)] at hb
      cases hb; simp at hx
    · rw [if_neg (by assumption)] at hb
      obtain ⟨mk, c, h⟩ := hI.bound r rr l kk x ht hk' hb hx
      exact ⟨mk, c, get_push_of_get h⟩
  · intro j u hu
    simp only [newUnit_units] at hu
    rw [Array.getElem?_push] at hu
    split at hu
    · cases hu; exact ⟨by simp, hk⟩
    · obtain ⟨h1, h2⟩ := hI.units j u hu
      exact ⟨e.nodes _ _ h1, h2⟩
  · intro mm u hm
    obtain ⟨ur, h1, h2⟩ := hI.mods mm u hm
    exact ⟨ur, e.units _ _ h1, h2⟩

theorem Inv.pushMod {s : State} (hI : Inv s) {u : Nat} {ur : UnitRec} (hu : s.units[u]? = some ur)
    (hk : ur.kind = .iface) (hm : ur.module = some s.mods.size) : Inv (s.pushMod u) := by
  refine ⟨hI.tree, hI.bsize, fun n nd h => (hI.facts n nd h).ext (Ext.pushMod s u), hI.bound, hI.units, ?_⟩
  intro m u' h
  simp only [pushMod_mods, pushMod_units] at h ⊢
  rw [Array.getElem?_push] at h
  split at h
  · cases h; subst_vars; exact ⟨ur, hu, hk, hm⟩
  · exact hI.mods m u' h

theorem memberHome_kind {s : State} (hI : Inv s) {mk : MKind} {c : Nat} {cn : NodeRec} {home : Nat}
    (hc : s.nodes[c]? = some cn) (hh : memberHome mk cn = some home) :
    ∃ rr : RegionRec, s.tree[home]? = some rr ∧ mk.regionKindOk rr.kind = true := by
  have hf := hI.facts c cn hc
  cases cn with
  | plist k host inR parms lvl =>
    cases mk <;> simp [memberHome] at hh
    subst hh
    obtain ⟨rr, h1, _, _, h4⟩ := hf
    exact ⟨rr, h1, by rw [h4]; cases k <;> rfl⟩
  | udt k inR body bases =>
    cases mk <;> cases k <;> cases bases <;> simp [memberHome] at hh
    · subst hh
      cases inR with
      | none => exact absurd hf.1 (by decide)
      | some r => obtain ⟨⟨rr, h1, _, _, h4⟩, _⟩ := hf; exact ⟨rr, h1, by rw [h4]; rfl⟩
    · subst hh
      cases inR with
      | none => exact absurd hf.1 (by decide)
      | some r => obtain ⟨⟨rr, h1, _, _, h4⟩, _⟩ := hf; exact ⟨rr, h1, by rw [h4]; rfl⟩
    · subst hh
      cases inR with
      | none => exact absurd hf.2.1 (by simp)
      | some r => obtain ⟨_, _, ⟨rr, h1, _, _, h4⟩⟩ := hf; exact ⟨rr, h1, by rw [h4]; rfl⟩
  | _ => cases mk <;> simp [memberHome] at hh

theorem regionKindOk_ne_eh {mk : MKind} {k : RKind} (h : mk.regionKindOk k = true) : k ≠ .eh := by
  intro hk; subst hk; cases mk <;> simp [MKind.regionKindOk] at h

theorem Inv.addMember {s : State} (hI : Inv s) {mk : MKind} {c : Nat} {cn : NodeRec} {home : Nat} {l : List Nat}
    (hc : s.nodes[c]? = some cn) (hh : memberHome mk cn = some home) (hl : s.binds[home]? = some l) :
    Inv (s.addMember mk c home l.length) := by
  obtain ⟨hr, hrt, hrk⟩ := memberHome_kind hI hc hh
  have hne : ∀ rr : RegionRec, s.tree[home]? = some rr → rr.kind ≠ .eh := by
    intro rr h; rw [hrt] at h; cases h; exact regionKindOk_ne_eh hrk
  have e := Ext.addMember s mk c home l.length hne
  constructor
  · exact hI.tree
  · simp [hI.bsize]
  · intro n nd h
    simp only [addMember_nodes] at h
    rw [Array.getElem?_push] at h
    split at h
    · cases h; subst_vars
      refine ⟨⟨l ++ [s.nodes.size], ?_, by simp⟩, ⟨cn, get_push_of_get hc, hh⟩⟩
      simp [Array.getElem?_modify, hl]
    · exact (hI.facts n nd h).ext e
  · intro r rr l' kk x ht hk hb hx
    simp only [addMember_tree, addMember_binds, addMember_nodes] at ht hb ⊢
    rw [Array.getElem?_modify] at hb
    by_cases hhr : home = r
    · subst hhr
      rw [if_pos rfl, hl] at hb; simp at hb; subst hb
      by_cases hkk : kk < l.length
      · rw [List.getElem?_append_left hkk] at hx
        obtain ⟨mk', c', h⟩ := hI.bound home rr l kk x ht hk hl hx
        exact ⟨mk', c', get_push_of_get h⟩
      · rw [List.getElem?_append_right (by omega)] at hx
        have : kk = l.length := by
          by_cases h0 : kk - l.length = 0
          · omega
          · simp [h0] at hx
        subst this
        simp at hx; subst hx
        exact ⟨mk, c, by simp⟩
    · rw [if_neg hhr] at hb
      obtain ⟨mk', c', h⟩ := hI.bound r rr l' kk x ht hk hb hx
      exact ⟨mk', c', get_push_of_get h⟩
  · intro j u hu
    obtain ⟨h1, h2⟩ := hI.units j u hu
    exact ⟨e.nodes _ _ h1, h2⟩
  · exact hI.mods

end Ipr.Region
