import IprProofs.PrinterGood
/-!
# Lemmas about the printer model, part 4: indentation is restored by every complete print (C18)
-/
namespace Ipr.Printer

theorem Res.bind_ok {r : Res} {f : PState → Res} (hk : (r.bind f).status = .ok) :
    r.status = .ok ∧ r.bind f = f r.st := by
  unfold Res.bind at hk ⊢
  cases hs : r.status <;> simp_all

/-- Net change of the pending indentation made by one instruction (not counting what operands do). -/
def Instr.delta : Instr → Int
  | .indent n => n
  | .nlIndent n => n
  | .labelOutdent => -3
  | _ => 0

def sumDelta (is : List Instr) : Int := (is.map Instr.delta).sum

/-- Possible net changes of a production, over all outcomes of its conditions. -/
def Prod.deltas : Prod → List Int
  | .is l => [sumDelta l]
  | .ite _ t e => t.deltas ++ e.deltas
  | .app a b => a.deltas.flatMap fun x => b.deltas.map fun y => x + y

theorem resolve_delta (ev : Cond → Bool) : ∀ p : Prod, sumDelta (p.resolve ev) ∈ p.deltas
  | .is _ => by simp [Prod.resolve, Prod.deltas]
  | .ite c t e => by
    simp only [Prod.resolve, Prod.deltas, List.mem_append]
    split
    · exact Or.inl (resolve_delta ev t)
    · exact Or.inr (resolve_delta ev e)
  | .app a b => by
    simp only [Prod.resolve, Prod.deltas, List.mem_flatMap, List.mem_map]
    refine ⟨_, resolve_delta ev a, _, resolve_delta ev b, ?_⟩
    simp [sumDelta, List.map_append, List.sum_append]

theorem table_balanced : ∀ cls strict c, ∀ d ∈ (table cls strict c).deltas, d = 0 := by
  have := table_all (P := fun cls s c => (table cls s c).deltas.all fun d => d == 0) (by decide +kernel)
  intro cls s c d hd
  have h2 := this cls s c
  rw [List.all_eq_true] at h2
  simpa using h2 d hd

section
variable {h : Heap}

theorem ident_indent (st : PState) (tag : Tag) (bs : Bytes) : (st.ident tag bs).indent = st.indent := by
  simp only [PState.ident, PState.writeBytes, PState.padBefore, PState.emit]
  split <;> split <;> rfl

theorem newline_indent (st : PState) : st.newline.indent = st.indent := rfl

theorem words_indent : ∀ (ws : List Bytes) (st : PState), (ws.foldl (fun st w => st.ident .spell w) st).indent = st.indent
  | [], _ => rfl
  | w :: ws, st => by simp only [List.foldl_cons]; rw [words_indent ws, ident_indent]

theorem prelude_indent (o : Opts) (e : Entry) (r : NodeRec) (st : PState) : (prelude o e r st).indent = st.indent := by
  unfold prelude
  split
  · rfl
  · have h1 : st.pendingNewline.indent = st.indent := by unfold PState.pendingNewline; split <;> rfl
    rw [← h1]
    generalize st.pendingNewline = s
    unfold printLoc
    split
    · split
      · simp only [locToken, locColumn]; split <;> rfl
      · rfl
    · rfl

theorem postlude_indent (e : Entry) (st : PState) : (postlude e st).indent = st.indent := by
  unfold postlude; split <;> rfl

theorem pre_indent (k : SeqKind) (f : Bool) (st : PState) : (k.pre f st).indent = st.indent := by
  cases k <;> simp only [SeqKind.pre] <;> (try split) <;> rfl

theorem post_indent (k : SeqKind) (st : PState) : (k.post st).indent = st.indent := by
  cases k <;> rfl

/-- `rec` restores the indentation whenever it completes. -/
def KeepsIndent (rec : Rec) : Prop := ∀ e b st, (rec e b st).status = .ok → (rec e b st).st.indent = st.indent

theorem runSeq_indent {rec : Rec} (hrec : KeepsIndent rec) (k : SeqKind) :
    ∀ (l : List Addr) (first : Bool) (st : PState), (runSeq rec k l first st).status = .ok →
      (runSeq rec k l first st).st.indent = st.indent
  | [], _, _, _ => rfl
  | x :: xs, first, st, hk => by
    simp only [runSeq] at hk ⊢
    obtain ⟨h1, h2⟩ := Res.bind_ok hk
    rw [h2] at hk ⊢
    rw [runSeq_indent hrec k xs false _ hk, post_indent, hrec _ _ _ h1, pre_indent]

theorem step_indent {rec : Rec} (hrec : KeepsIndent rec) (cls : VClass) (strict : Bool) (a : Addr) (r : NodeRec) (i : Instr)
    (st : PState) (hk : (step h rec cls strict a r i st).status = .ok) :
    (step h rec cls strict a r i st).st.indent = st.indent + i.delta := by
  cases i with
  | acc e p =>
    simp only [step, Instr.delta] at hk ⊢
    cases hf : follow h a p with
    | none => simp [hf] at hk
    | some b => simp only [hf] at hk ⊢; rw [hrec _ _ _ hk]; simp
  | accSame p =>
    simp only [step, Instr.delta] at hk ⊢
    cases hf : follow h a p with
    | none => simp [hf] at hk
    | some b => simp only [hf] at hk ⊢; rw [hrec _ _ _ hk]; simp
  | each k p w =>
    simp only [step, Instr.delta] at hk ⊢
    cases hf : follow h a p with
    | none => simp [hf] at hk
    | some b => simp only [hf] at hk ⊢; rw [runSeq_indent hrec k _ true st hk]; simp
  | kw s => simp [step, Instr.delta, ident_indent]
  | idStr => simp [step, Instr.delta, ident_indent]
  | words => simp [step, Instr.delta, words_indent]
  | wrStr => simp only [step, Instr.delta, PState.write, PState.writeBytes]; split <;> simp [PState.emit]
  | litStr => simp only [step, Instr.delta, PState.writeBytes]; split <;> simp [PState.emit]
  | labelOutdent => simp only [step, Instr.delta]; split <;> simp [PState.addIndent, PState.newline, PState.emit]
  | throw => simp [step] at hk
  | _ => simp [step, Instr.delta, PState.tok, PState.raw, PState.emit, PState.addIndent, PState.newline]

theorem runInstrs_indent {rec : Rec} (hrec : KeepsIndent rec) (cls : VClass) (strict : Bool) (a : Addr) (r : NodeRec) :
    ∀ (is : List Instr) (st : PState), (runInstrs h rec cls strict a r is st).status = .ok →
      (runInstrs h rec cls strict a r is st).st.indent = st.indent + sumDelta is
  | [], st, _ => by simp [runInstrs, sumDelta]
  | i :: is, st, hk => by
    simp only [runInstrs] at hk ⊢
    obtain ⟨h1, h2⟩ := Res.bind_ok hk
    rw [h2] at hk ⊢
    rw [runInstrs_indent hrec cls strict a r is _ hk, step_indent hrec cls strict a r i st h1]
    simp [sumDelta, Int.add_assoc]

theorem dispatch_indent (o : Opts) : ∀ n, KeepsIndent (dispatch h o n)
  | 0 => fun _ _ _ hk => by simp [dispatch] at hk
  | n + 1 => fun e a st hk => by
    simp only [dispatch] at hk ⊢
    obtain ⟨h1, h2⟩ := Res.bind_ok hk
    rw [h2]
    simp only [postlude_indent]
    rw [runInstrs_indent (dispatch_indent o n) _ _ _ _ _ _ h1, prelude_indent]
    have hd := table_balanced e.cls e.strict (h a).cat _ (resolve_delta (Cond.eval h a (h a)) _)
    unfold production
    rw [hd]; simp

end

end Ipr.Printer
