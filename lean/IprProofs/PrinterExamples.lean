import IprProofs.Printer
import IprProofs.PrinterFuel
import IprProofs.PrinterLoc
/-!
# Definitions used to state the C17 / C18 theorems concretely, and a small concrete heap for the non-vacuity examples
-/
namespace Ipr.Printer

/-- `σ • h` for a renaming `σ` with left inverse `τ`: the node stored at `σ a` is the node of `h` at `a`, renamed. -/
def renameHeap (σ τ : Addr → Addr) (h : Heap) : Heap :=
  fun b => if σ (τ b) = b then (h (τ b)).rename σ else default

theorem renameHeap_iso {σ τ : Addr → Addr} (hinv : ∀ a, τ (σ a) = a) (h : Heap) :
    Iso σ (fun _ => True) h (renameHeap σ τ h) where
  hom := fun a _ => by simp [renameHeap, hinv]
  closed := fun _ _ _ _ => trivial
  inj := fun a b _ _ hab => by have := congrArg τ hab; rwa [hinv, hinv] at this

/-- Two heaps that agree on a set closed under operands. -/
theorem agree_iso {R : Addr → Prop} {h h' : Heap} (hag : ∀ a, R a → h' a = h a)
    (hcl : ∀ a, R a → ∀ b ∈ (h a).children, R b) : Iso id R h h' where
  hom := fun a ha => by
    rw [id, hag a ha]
    cases hr : h a
    simp [NodeRec.rename]
  closed := hcl
  inj := fun _ _ _ _ hab => hab

/-- What the stream received, from a list of chunks (most recent first). -/
def renderChunks (out : List Chunk) : Bytes := (out.reverse.map Chunk.bytes).flatten

/-- A heap given by a list of nodes (addresses are positions; everything else is an empty `Unknown` node). -/
def heapOf (l : List NodeRec) : Heap := fun a => l.getD a default

/-- Decidable form of `Ranked` for `heapOf l` with rank = address. -/
def rankedCheck (l : List NodeRec) : Bool :=
  (List.range l.length).all fun a =>
    (l.getD a default).children.all fun b =>
      decide (b < a) || (b == a && (l.getD a default).cat == .As_type && (l.getD a default).sel (.op 0) == some a)

theorem rankedCheck_sound {l : List NodeRec} (hc : rankedCheck l = true) : Ranked (heapOf l) id := by
  intro a b hb
  by_cases ha : a < l.length
  · simp only [rankedCheck, List.all_eq_true, List.mem_range] at hc
    have := hc a ha b hb
    simp only [Bool.or_eq_true, decide_eq_true_eq, Bool.and_eq_true, beq_iff_eq] at this
    rcases this with hlt | ⟨⟨rfl, hcat⟩, hsel⟩
    · exact Or.inl hlt
    · exact Or.inr ⟨rfl, hcat, hsel⟩
  · have : heapOf l a = default := by simp [heapOf, List.getD_eq_getElem?_getD, List.getElem?_eq_none (Nat.le_of_not_lt ha)]
    rw [this] at hb
    have hd : (default : NodeRec) = {} := rfl
    rw [hd] at hb
    simp [NodeRec.children] at hb

/-- `int x = 7;` at F3:12:5 followed by `while (x) { F3:13 x; }` in a block:
    0 Identifier "int" · 1 As_type int (its own operand) · 2 Identifier "x" · 3 Literal "7" · 4 Var x : int (7) ·
    5 Id_expr x · 6 Expr_stmt x; · 7 Block { 6 } · 8 While (5) 7 · 9 Block { 4; 8 } -/
def sampleHeap : List NodeRec := [
  { cat := .Identifier, str := [105, 110, 116] },
  { cat := .As_type, ops := [some 1], name := some 0 },
  { cat := .Identifier, str := [120] },
  { cat := .Literal, str := [55] },
  { cat := .Var, name := some 2, typ := some 1, ops := [some 3], loc := ⟨3, 12, 5⟩, words := [[115, 116, 97, 116, 105, 99]] },
  { cat := .Id_expr, ops := [some 2] },
  { cat := .Expr_stmt, ops := [some 5], loc := ⟨3, 13, 0⟩ },
  { cat := .Block, seq := [6] },
  { cat := .While, ops := [some 5, some 7] },
  { cat := .Block, seq := [4, 8] }]

/-! ## A heap that is cyclic along printed operands: a class whose base type is a `Forall` with the class as target

`S : class = <unnamed class c>`, `c` has one base of type `f = forall<>(c)`.  `xpr_type_expr_visitor::visit(Forall)` prints its
target through `xpr_type_expr` — the *body* of the class, not its name — so the printer goes
class body → base → `xpr_type(f)` → `xpr_type_expr(f)` → `xpr_type_expr(c)` → class body → … without bound.
No `rank` in the sense of `Ranked` exists for this heap (4 → 6 → 7 → 4), so it is outside theorem `C18_fuel`; the model
exhausts *every* amount of fuel (`cyclicClass_exhausts`), as the real printer exhausts every stack. -/

/-- 0 Typedecl S : class (init 4) · 1 "S" · 2 built-in `class` · 3 "class" · 4 Class (unnamed; scope 5; bases [6]) · 5 Scope ·
    6 Base_type of type 7 · 7 Forall (source 8, target 4) · 8 Product () · 9 the unit's global Scope [0] -/
def cyclicClassHeap : List NodeRec := [
  { cat := .Typedecl, name := some 1, typ := some 2, ops := [some 4] },
  { cat := .Identifier, str := [83] },
  { cat := .As_type, ops := [some 2], name := some 3 },
  { cat := .Identifier, str := [99, 108, 97, 115, 115] },
  { cat := .Class, ops := [some 5], seq2 := [6] },
  { cat := .Scope },
  { cat := .Base_type, typ := some 7, ops := [none] },
  { cat := .Forall, ops := [some 8, some 4] },
  { cat := .Product },
  { cat := .Scope, seq := [0] }]

theorem Res.bind_fuel {r : Res} {f : PState → Res} (hr : r.status = .fuel) : (r.bind f).status = .fuel := by
  unfold Res.bind; rw [hr]; exact hr

/-- A primitive instruction (no dispatch, no throw) always succeeds. -/
theorem step_prim_ok {h : Heap} {rec : Rec} {cls : VClass} {strict : Bool} {a : Addr} {r : NodeRec} {i : Instr} {st : PState}
    (hr : i.isRec = false) (ht : i ≠ .throw) : (step h rec cls strict a r i st).status = .ok := by
  cases i <;> simp_all [step, Instr.isRec]

theorem prims_ok {h : Heap} {rec : Rec} {cls : VClass} {strict : Bool} {a : Addr} {r : NodeRec} {pre : List Instr}
    (hp : pre.all (fun j => !j.isRec && j != .throw) = true) : ∀ j ∈ pre, ∀ st, (step h rec cls strict a r j st).status = .ok := by
  intro j hj st
  have := List.all_eq_true.mp hp j hj
  simp only [Bool.and_eq_true, Bool.not_eq_true', bne_iff_ne, ne_eq] at this
  exact step_prim_ok this.1 this.2

/-- If the instructions before `i` succeed and `i` exhausts the fuel, so does the whole production. -/
theorem runInstrs_stuck {h : Heap} {rec : Rec} {cls : VClass} {strict : Bool} {a : Addr} {r : NodeRec} (i : Instr) (post : List Instr)
    (hi : ∀ st, (step h rec cls strict a r i st).status = .fuel) :
    ∀ (pre : List Instr) (st : PState), (∀ j ∈ pre, ∀ st, (step h rec cls strict a r j st).status = .ok) →
      (runInstrs h rec cls strict a r (pre ++ i :: post) st).status = .fuel
  | [], st, _ => by simp only [List.nil_append, runInstrs]; exact Res.bind_fuel (hi st)
  | j :: pre, st, hp => by
    simp only [List.cons_append, runInstrs]
    have hok : (step h rec cls strict a r j st).status = .ok := hp j (by simp) st
    unfold Res.bind
    rw [hok]
    exact runInstrs_stuck i post hi pre _ fun k hk => hp k (by simp [hk])

theorem dispatch_stuck {h : Heap} {o : Opts} {n : Nat} {e : Entry} {a : Addr} (pre : List Instr) (i : Instr) (post : List Instr)
    (hprod : production h e a = pre ++ i :: post)
    (hpre : ∀ j ∈ pre, ∀ st, (step h (dispatch h o n) e.cls e.strict a (h a) j st).status = .ok)
    (hi : ∀ st, (step h (dispatch h o n) e.cls e.strict a (h a) i st).status = .fuel) (st : PState) :
    (dispatch h o (n + 1) e a st).status = .fuel := by
  simp only [dispatch]
  rw [hprod]
  exact Res.bind_fuel (runInstrs_stuck i post hi pre _ hpre)

/-- Every amount of fuel is exhausted on each of the four configurations of the cycle. -/
theorem cyclicClass_cycle (o : Opts) : ∀ n : Nat,
    (∀ st, (dispatch (heapOf cyclicClassHeap) o n xtypeExpr 4 st).status = .fuel) ∧
    (∀ st, (dispatch (heapOf cyclicClassHeap) o n (.xdecl false) 6 st).status = .fuel) ∧
    (∀ st, (dispatch (heapOf cyclicClassHeap) o n xtype 7 st).status = .fuel) ∧
    (∀ st, (dispatch (heapOf cyclicClassHeap) o n xtypeExpr 7 st).status = .fuel)
  | 0 => by simp [dispatch]
  | n + 1 => by
    obtain ⟨hA, hB, hC, hD⟩ := cyclicClass_cycle o n
    refine ⟨fun st => ?_, fun st => ?_, fun st => ?_, fun st => ?_⟩
    · -- class body: "(" then the bases
      refine dispatch_stuck [.tok "("] (.each .commaDecl [] .seq2)
        [.tok ")", .tok " ", .tok "{", .nlIndent 3, .acc xexpr [.op 0], .nlIndent (-3), .tok "}", .needNl] (by decide +kernel) (prims_ok (by decide)) (fun st' => ?_) st
      have hp : ((heapOf cyclicClassHeap) 4).pick .seq2 = [6] := by decide +kernel
      simp only [step, follow, hp, runSeq]
      exact Res.bind_fuel (hB _)
    · -- base: specifiers (none), then its type
      refine dispatch_stuck [.words] (.acc xtype [.typ]) [] (by decide +kernel) (prims_ok (by decide)) (fun st' => ?_) st
      have hf : follow (heapOf cyclicClassHeap) 6 [.typ] = some 7 := by decide +kernel
      simp only [step, hf]
      exact hC _
    · -- xpr_type(Forall) forwards to xpr_type_expr on the same node
      refine dispatch_stuck [] (.acc xtypeExpr []) [] (by decide +kernel) (by simp) (fun st' => ?_) st
      simp only [step, follow]
      exact hD _
    · -- "<" parameters ">" " " then the *type expression* of the target: the class body again
      refine dispatch_stuck [.tok "<", .each .commaType [.op 0] .seq, .tok ">", .tok " "] (.acc xtypeExpr [.op 1]) []
        (by decide +kernel) ?_ (fun st' => ?_) st
      · intro j hj st'
        simp only [List.mem_cons, List.not_mem_nil, or_false] at hj
        rcases hj with rfl | rfl | rfl | rfl
        · rfl
        · have hf : follow (heapOf cyclicClassHeap) 7 [.op 0] = some 8 := by decide +kernel
          have hs : ((heapOf cyclicClassHeap) 8).pick .seq = [] := by decide +kernel
          simp only [step, hf, hs, runSeq]
        · rfl
        · rfl
      · have hf : follow (heapOf cyclicClassHeap) 7 [.op 1] = some 4 := by decide +kernel
        simp only [step, hf]
        exact hA _

/-- As `runInstrs_stuck`, when the instructions before `i` may themselves run out of fuel (but never raise). -/
theorem runInstrs_stuck' {h : Heap} {rec : Rec} {cls : VClass} {strict : Bool} {a : Addr} {r : NodeRec} (i : Instr) (post : List Instr)
    (hi : ∀ st, (step h rec cls strict a r i st).status = .fuel) :
    ∀ (pre : List Instr) (st : PState), (∀ j ∈ pre, ∀ st, (step h rec cls strict a r j st).status ≠ .logic) →
      (runInstrs h rec cls strict a r (pre ++ i :: post) st).status = .fuel
  | [], st, _ => by simp only [List.nil_append, runInstrs]; exact Res.bind_fuel (hi st)
  | j :: pre, st, hp => by
    simp only [List.cons_append, runInstrs]
    cases hs : (step h rec cls strict a r j st).status with
    | ok => unfold Res.bind; rw [hs]; exact runInstrs_stuck' i post hi pre _ fun k hk => hp k (by simp [hk])
    | fuel => exact Res.bind_fuel hs
    | logic => exact absurd hs (hp j (by simp) st)

theorem bind_noLogic {r : Res} {f : PState → Res} (hr : r.status ≠ .logic) (hf : ∀ st, (f st).status ≠ .logic) :
    (r.bind f).status ≠ .logic := by
  unfold Res.bind
  split
  · exact hf _
  · exact hr

/-- Printing an identifier never raises. -/
theorem ident_noLogic {h : Heap} (o : Opts) (a : Addr) (hp : production h xname a = [.idStr]) :
    ∀ (n : Nat) (st : PState), (dispatch h o n xname a st).status ≠ .logic
  | 0, _ => by simp [dispatch]
  | n + 1, st => by simp [dispatch, hp, runInstrs, step, Res.bind]

/-- Printing the built-in `class` (node 2) never raises. -/
theorem builtin_noLogic (o : Opts) : ∀ (n : Nat) (st : PState), (dispatch (heapOf cyclicClassHeap) o n xtype 2 st).status ≠ .logic
  | 0, _ => by simp [dispatch]
  | n + 1, st => by
    have hp : production (heapOf cyclicClassHeap) xtype 2 = [.acc xname [.name]] := by decide +kernel
    have hf : follow (heapOf cyclicClassHeap) 2 [.name] = some 3 := by decide +kernel
    have hn := ident_noLogic (h := heapOf cyclicClassHeap) o 3 (by decide +kernel) n
    simp only [dispatch, hp, runInstrs, step, hf]
    exact bind_noLogic (bind_noLogic (hn _) fun _ => by simp) fun _ => by simp

/-- `xpr_decl` of the type declaration: name, " : ", type, then the initializer's type expression — the cycle. -/
theorem cyclicClass_decl (o : Opts) (semi : Bool) : ∀ (n : Nat) (st : PState),
    (dispatch (heapOf cyclicClassHeap) o n (.xdecl semi) 0 st).status = .fuel
  | 0, _ => by simp [dispatch]
  | n + 1, st => by
    have hp : production (heapOf cyclicClassHeap) (.xdecl semi) 0 =
        [.acc xname [.name], .tok " : ", .acc xtype [.typ]] ++ .acc xtypeExpr [.op 0] :: [] := by
      cases semi <;> decide +kernel
    have hf1 : follow (heapOf cyclicClassHeap) 0 [.name] = some 1 := by decide +kernel
    have hf2 : follow (heapOf cyclicClassHeap) 0 [.typ] = some 2 := by decide +kernel
    have hf3 : follow (heapOf cyclicClassHeap) 0 [.op 0] = some 4 := by decide +kernel
    simp only [dispatch]
    rw [hp]
    refine Res.bind_fuel (runInstrs_stuck' _ _ (fun st' => ?_) _ _ fun j hj st' => ?_)
    · simp only [step, hf3]; exact (cyclicClass_cycle o n).1 _
    · simp only [List.mem_cons, List.not_mem_nil, or_false] at hj
      rcases hj with rfl | rfl | rfl
      · simp only [step, hf1]; exact ident_noLogic o 1 (by decide +kernel) n _
      · simp [step]
      · simp only [step, hf2]; exact builtin_noLogic o n _

/-- **The model does not terminate on the cyclic class either:** whatever the fuel, printing the type declaration
    (`xpr_decl`, with or without semicolon), the unit (`xpr_expr` of its global scope) or the base's `Forall` type
    (`xpr_type`) ends with the fuel exhausted — never with text, never with `logic_error`. -/
theorem cyclicClass_exhausts (o : Opts) (fuel : Nat) (fmt : Fmt) :
    (print (heapOf cyclicClassHeap) o fuel .decl 0 fmt).status = .fuel ∧
    (print (heapOf cyclicClassHeap) o fuel .declsemi 0 fmt).status = .fuel ∧
    (print (heapOf cyclicClassHeap) o fuel .type 7 fmt).status = .fuel ∧
    (print (heapOf cyclicClassHeap) o fuel .expr 9 fmt).status = .fuel := by
  refine ⟨cyclicClass_decl o false fuel _, cyclicClass_decl o true fuel _, (cyclicClass_cycle o fuel).2.2.1 _, ?_⟩
  cases fuel with
  | zero => simp [print, dispatch]
  | succ n =>
    refine dispatch_stuck [] (.each .scopeDecl [] .seq) [] (by decide +kernel) (by simp) (fun st' => ?_) _
    have hs : ((heapOf cyclicClassHeap) 9).pick .seq = [0] := by decide +kernel
    simp only [step, follow, hs, runSeq]
    exact Res.bind_fuel (cyclicClass_decl o true n _)

end Ipr.Printer
