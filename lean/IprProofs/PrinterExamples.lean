import IprProofs.Printer
import IprProofs.PrinterFuel
import IprProofs.PrinterLoc
/-!
# Definitions used to state the C17 / C18 theorems concretely, and a small concrete heap for the non-vacuity examples
-/
namespace Ipr.Printer

/-- `σ • h` for a renaming `σ` with left inverse `τ`: the node stored at `σ a` is the node of `h` at `a`, renamed. -/
def renameHeap (σ τ : Addr → Addr) (h : Heap) : Heap :=
  fun b => if σ (τ b) = b then (h (τ b)).rename σ else default

theorem renameHeap_iso {σ τ : Addr → Addr} (hinv : ∀ a, τ (σ a) = a) (h : Heap) :
    Iso σ (fun _ => True) h (renameHeap σ τ h) where
  hom := fun a _ => by simp [renameHeap, hinv]
  closed := fun _ _ _ _ => trivial
  inj := fun a b _ _ hab => by have := congrArg τ hab; rwa [hinv, hinv] at this

/-- Two heaps that agree on a set closed under operands. -/
theorem agree_iso {R : Addr → Prop} {h h' : Heap} (hag : ∀ a, R a → h' a = h a)
    (hcl : ∀ a, R a → ∀ b ∈ (h a).children, R b) : Iso id R h h' where
  hom := fun a ha => by
    rw [id, hag a ha]
    cases hr : h a
    simp [NodeRec.rename]
  closed := hcl
  inj := fun _ _ _ _ hab => hab

/-- What the stream received, from a list of chunks (most recent first). -/
def renderChunks (out : List Chunk) : Bytes := (out.reverse.map Chunk.bytes).flatten

/-- A heap given by a list of nodes (addresses are positions; everything else is an empty `Unknown` node). -/
def heapOf (l : List NodeRec) : Heap := fun a => l.getD a default

/-- Decidable form of `Ranked` for `heapOf l` with rank = address. -/
def rankedCheck (l : List NodeRec) : Bool :=
  (List.range l.length).all fun a =>
    (l.getD a default).children.all fun b =>
      decide (b < a) || (b == a && (l.getD a default).cat == .As_type && (l.getD a default).sel (.op 0) == some a)

theorem rankedCheck_sound {l : List NodeRec} (hc : rankedCheck l = true) : Ranked (heapOf l) id := by
  intro a b hb
  by_cases ha : a < l.length
  · simp only [rankedCheck, List.all_eq_true, List.mem_range] at hc
    have := hc a ha b hb
    simp only [Bool.or_eq_true, decide_eq_true_eq, Bool.and_eq_true, beq_iff_eq] at this
    rcases this with hlt | ⟨⟨rfl, hcat⟩, hsel⟩
    · exact Or.inl hlt
    · exact Or.inr ⟨rfl, hcat, hsel⟩
  · have : heapOf l a = default := by simp [heapOf, List.getD_eq_getElem?_getD, List.getElem?_eq_none (Nat.le_of_not_lt ha)]
    rw [this] at hb
    have hd : (default : NodeRec) = {} := rfl
    rw [hd] at hb
    simp [NodeRec.children] at hb

/-- `int x = 7;` at F3:12:5 followed by `while (x) { F3:13 x; }` in a block:
    0 Identifier "int" · 1 As_type int (its own operand) · 2 Identifier "x" · 3 Literal "7" · 4 Var x : int (7) ·
    5 Id_expr x · 6 Expr_stmt x; · 7 Block { 6 } · 8 While (5) 7 · 9 Block { 4; 8 } -/
def sampleHeap : List NodeRec := [
  { cat := .Identifier, str := [105, 110, 116] },
  { cat := .As_type, ops := [some 1], name := some 0 },
  { cat := .Identifier, str := [120] },
  { cat := .Literal, str := [55] },
  { cat := .Var, name := some 2, typ := some 1, ops := [some 3], loc := ⟨3, 12, 5⟩, words := [[115, 116, 97, 116, 105, 99]] },
  { cat := .Id_expr, ops := [some 2] },
  { cat := .Expr_stmt, ops := [some 5], loc := ⟨3, 13, 0⟩ },
  { cat := .Block, seq := [6] },
  { cat := .While, ops := [some 5, some 7] },
  { cat := .Block, seq := [4, 8] }]

end Ipr.Printer
