import IprProofs.ScopeObs
/-! Homogeneous scopes (parameter lists, enumerators, base lists, handler regions). -/
namespace Ipr.Scope

theorem hrun_snoc (l : List (Int × Int)) (p : Int × Int) : hrun (l ++ [p]) = (hrun l).push p.1 p.2 := by
  simp [hrun, List.foldl_append]

theorem hrun_length (l : List (Int × Int)) : (hrun l).members.length = l.length := by
  induction l using Ipr.List.snocInduction with
  | nil => rfl
  | append_singleton l p ih => rw [hrun_snoc]; simp [HScope.push, ih]

/-- Member `i` is the `i`-th addition and carries position `i`. -/
theorem hrun_member (l : List (Int × Int)) (i : Nat) :
    (hrun l).members[i]? = (l[i]?).map (fun p => { name := p.1, type := p.2, pos := i }) := by
  induction l using Ipr.List.snocInduction with
  | nil => simp [hrun]
  | append_singleton l p ih =>
    rw [hrun_snoc]
    simp only [HScope.push]
    rcases Nat.lt_or_ge i l.length with hlt | hge
    · rw [List.getElem?_append_left (by rw [hrun_length]; exact hlt), List.getElem?_append_left hlt, ih]
    · rw [List.getElem?_append_right (by rw [hrun_length]; exact hge), List.getElem?_append_right hge, hrun_length]
      cases hk : i - l.length with
      | zero => have : i = l.length := by omega
                subst this; simp
      | succ k => simp

/-- The history a homogeneous scope stands for (the kind is immaterial). -/
def toHist (l : List (Int × Int)) : History := l.map (fun p => { kind := .var, name := p.1, type := p.2 })

theorem toHist_getElem? (l : List (Int × Int)) (i : Nat) :
    (toHist l)[i]? = (l[i]?).map (fun p => { kind := .var, name := p.1, type := p.2 }) := by simp [toHist]

/-- `lookup` finds the first member with that name. -/
theorem hlookup_eq (l : List (Int × Int)) (n : Int) : (hrun l).lookup n = l.findIdx? (fun p => p.1 == n) := by
  induction l using Ipr.List.snocInduction with
  | nil => rfl
  | append_singleton l p ih =>
    rw [hrun_snoc]
    simp only [HScope.lookup, HScope.push] at ih ⊢
    rw [List.findIdx?_append, List.findIdx?_append, ih, hrun_length]
    simp [List.findIdx?_cons]

end Ipr.Scope
