import IprModel.Intern
import IprProofs.Arena
/-!
# Lemmas about the interning model: byte order, binary search, the pool invariant and its preservation.
-/
namespace Ipr.Intern
open Ipr.Arena

/-! ## The byte order of `std::u8string_view` -/

theorem wordLt_irrefl (a : Word) : wordLt a a = false := by
  induction a with
  | nil => rfl
  | cons x xs ih => simp [wordLt, ih]

theorem wordLt_trans {a b c : Word} (h1 : wordLt a b = true) (h2 : wordLt b c = true) : wordLt a c = true := by
  induction a generalizing b c with
  | nil =>
    cases b with
    | nil => simp [wordLt] at h1
    | cons y ys => cases c with
      | nil => simp [wordLt] at h2
      | cons z zs => rfl
  | cons x xs ih =>
    cases b with
    | nil => simp [wordLt] at h1
    | cons y ys =>
      cases c with
      | nil => simp [wordLt] at h2
      | cons z zs =>
        simp only [wordLt, Bool.or_eq_true, Bool.and_eq_true, decide_eq_true_eq, beq_iff_eq] at h1 h2 ⊢
        rcases h1 with h1 | ⟨rfl, h1⟩
        · rcases h2 with h2 | ⟨rfl, h2⟩
          · exact Or.inl (UInt8.lt_trans h1 h2)
          · exact Or.inl h1
        · rcases h2 with h2 | ⟨rfl, h2⟩
          · exact Or.inl h2
          · exact Or.inr ⟨rfl, ih h1 h2⟩

/-- Executable check that a table is strictly increasing (adjacent entries), as the `static_assert(std::is_sorted …)`
    of impl.cxx:130 but strict. -/
def sortedB : List Word → Bool
  | [] => true
  | [_] => true
  | a :: b :: rest => wordLt a b && sortedB (b :: rest)

/-- Strictly sorted: every earlier entry is smaller than every later one. -/
def StrictSorted (tbl : List Word) : Prop := tbl.Pairwise (fun a b => wordLt a b = true)

theorem sortedB_sound {tbl : List Word} (h : sortedB tbl = true) : StrictSorted tbl := by
  unfold StrictSorted
  induction tbl with
  | nil => exact List.Pairwise.nil
  | cons a rest ih =>
    cases rest with
    | nil => simp
    | cons b rest =>
      simp only [sortedB, Bool.and_eq_true] at h
      have ih' := ih h.2
      refine List.Pairwise.cons ?_ ih'
      intro c hc
      rcases List.mem_cons.mp hc with rfl | hc
      · exact h.1
      · exact wordLt_trans h.1 ((List.pairwise_cons.mp ih').1 c hc)

theorem StrictSorted.lt {tbl : List Word} (hs : StrictSorted tbl) {i j : Nat} (hij : i < j) (hj : j < tbl.length) :
    wordLt (tbl.getD i []) (tbl.getD j []) = true := by
  have hi : i < tbl.length := by omega
  have := List.pairwise_iff_getElem.mp hs i j hi hj hij
  simpa [List.getD_eq_getElem?_getD, hi, hj] using this

/-! ## `std::lower_bound` -/

/-- What the search computes whenever the predicate `tbl[i] < w` is true on a prefix and false afterwards. -/
theorem lowerBound_spec (tbl : List Word) (w : Word)
    (mono : ∀ i j, i < j → j < tbl.length → wordLt (tbl.getD j []) w = true → wordLt (tbl.getD i []) w = true)
    (len first : Nat) (hlen : first + len ≤ tbl.length)
    (hlo : ∀ i, i < first → wordLt (tbl.getD i []) w = true)
    (hhi : ∀ i, first + len ≤ i → i < tbl.length → wordLt (tbl.getD i []) w = false) :
    first ≤ lowerBound tbl w first len ∧ lowerBound tbl w first len ≤ first + len ∧
    (∀ i, i < lowerBound tbl w first len → wordLt (tbl.getD i []) w = true) ∧
    (∀ i, lowerBound tbl w first len ≤ i → i < tbl.length → wordLt (tbl.getD i []) w = false) := by
  induction len using Nat.strongRecOn generalizing first with
  | ind len ih =>
    rw [lowerBound]
    by_cases h0 : len = 0
    · subst h0
      simp only [if_true]
      exact ⟨Nat.le_refl _, by omega, hlo, fun i hi hl => hhi i (by omega) hl⟩
    · simp only [h0, if_false]
      by_cases hmid : wordLt (tbl.getD (first + len / 2) []) w = true
      · simp only [hmid, if_true]
        have := ih (len - len / 2 - 1) (by omega) (first + len / 2 + 1) (by omega)
          (fun i hi => by
            by_cases he : i = first + len / 2
            · subst he; exact hmid
            · exact mono i (first + len / 2) (by omega) (by omega) hmid)
          (fun i hi hl => hhi i (by omega) hl)
        refine ⟨by omega, by omega, this.2.2.1, this.2.2.2⟩
      · have hmid' : wordLt (tbl.getD (first + len / 2) []) w = false := by simpa using hmid
        simp only [hmid', Bool.false_eq_true, if_false]
        have := ih (len / 2) (by omega) first (by omega) hlo
          (fun i hi hl => by
            by_cases he : i = first + len / 2
            · subst he; exact hmid'
            · cases hc : wordLt (tbl.getD i []) w with
              | false => rfl
              | true => rw [mono (first + len / 2) i (by omega) hl hc] at hmid'; exact absurd hmid' (by simp))
        refine ⟨this.1, by omega, this.2.2.1, this.2.2.2⟩

theorem wordIfKnown_some {tbl : List Word} {w : Word} {i : Nat} (h : wordIfKnown tbl w = some i) :
    tbl[i]? = some w := by
  unfold wordIfKnown at h
  dsimp only at h
  split at h
  · next x hx =>
    split at h
    · next hxw => cases h; rw [hx, hxw]
    · cases h
  · cases h

theorem wordIfKnown_getD {tbl : List Word} {w : Word} {i : Nat} (h : wordIfKnown tbl w = some i) :
    tbl.getD i [] = w := by
  simp [List.getD_eq_getElem?_getD, wordIfKnown_some h]

/-- On a strictly sorted table the search finds exactly the members. -/
theorem wordIfKnown_iff {tbl : List Word} (hs : StrictSorted tbl) (w : Word) (i : Nat) :
    wordIfKnown tbl w = some i ↔ tbl[i]? = some w := by
  constructor
  · exact wordIfKnown_some
  · intro hi
    have hlt : i < tbl.length := by
      rcases Nat.lt_or_ge i tbl.length with h | h
      · exact h
      · rw [List.getElem?_eq_none h] at hi; cases hi
    have hget : tbl.getD i [] = w := by simp [List.getD_eq_getElem?_getD, hi]
    have mono : ∀ a b, a < b → b < tbl.length → wordLt (tbl.getD b []) w = true → wordLt (tbl.getD a []) w = true :=
      fun a b hab hb hbw => wordLt_trans (hs.lt hab hb) hbw
    obtain ⟨_, hle, hlo, hhi⟩ := lowerBound_spec tbl w mono tbl.length 0 (by omega) (fun i hi => by omega)
      (fun i hi hl => by omega)
    have h1 : ¬ i < lowerBound tbl w 0 tbl.length := by
      intro hc
      have := hlo i hc
      rw [hget, wordLt_irrefl] at this
      cases this
    have h2 : ¬ lowerBound tbl w 0 tbl.length < i := by
      intro hc
      have h3 := hhi _ (Nat.le_refl _) (by omega)
      have h4 := hs.lt hc hlt
      rw [hget, h3] at h4
      cases h4
    have heq : lowerBound tbl w 0 tbl.length = i := by omega
    unfold wordIfKnown
    dsimp only
    rw [heq, hi]
    simp

/-! ## Buckets -/

theorem Buckets.get_set (bs : Buckets) (k : Nat) (v : List StrNode) (k' : Nat) :
    Buckets.get (Buckets.set bs k v) k' = if k' = k then v else Buckets.get bs k' := by
  induction bs with
  | nil =>
    by_cases h : k' = k
    · simp [Buckets.set, Buckets.get, h]
    · have : ¬ k = k' := by omega
      simp [Buckets.set, Buckets.get, h, this]
  | cons e rest ih =>
    obtain ⟨k0, v0⟩ := e
    simp only [Buckets.set]
    by_cases h0 : k0 = k
    · subst h0
      by_cases h : k' = k0
      · simp [Buckets.get, h]
      · have : ¬ k0 = k' := by omega
        simp [Buckets.get, h, this]
    · simp only [h0, if_false, Buckets.get]
      by_cases h : k0 = k'
      · have : ¬ k' = k := by omega
        simp [h, this]
      · simp [h, ih]

/-! ## The pool invariant -/

/-- The allocation footprint of a node. -/
def StrNode.alloc (x : StrNode) : Loc × Nat := (x.loc, x.len)

/-- Invariant of every reachable `string_pool` state, for table `tbl` and hash function `h`. -/
structure Inv (tbl : List Word) (h : Word → Nat) (S : StringPool) : Prop where
  wf : WF S.arena
  live : ∀ k x, x ∈ Buckets.get S.buckets k → Live S.arena x.loc x.len
  idlt : ∀ k x, x ∈ Buckets.get S.buckets k → x.id < S.count
  key : ∀ k x, x ∈ Buckets.get S.buckets k → k = h (chars S.arena x)
  nonempty : ∀ k x, x ∈ Buckets.get S.buckets k → chars S.arena x ≠ []
  unknown : ∀ k x, x ∈ Buckets.get S.buckets k → wordIfKnown tbl (chars S.arena x) = none
  disj : ∀ k x k' y, x ∈ Buckets.get S.buckets k → y ∈ Buckets.get S.buckets k' → x ≠ y → Disj x.alloc y.alloc
  uniq : ∀ k x k' y, x ∈ Buckets.get S.buckets k → y ∈ Buckets.get S.buckets k' →
    chars S.arena x = chars S.arena y → x = y
  iduniq : ∀ k x k' y, x ∈ Buckets.get S.buckets k → y ∈ Buckets.get S.buckets k' → x.id = y.id → x = y

theorem Inv_init (tbl : List Word) (h : Word → Nat) (B : Nat) (hB : 1 ≤ B) : Inv tbl h (StringPool.init B) := by
  refine ⟨WF_init B hB, ?_, ?_, ?_, ?_, ?_, ?_, ?_, ?_⟩ <;> simp [StringPool.init, Buckets.get]

/-- A reference that the pool `S` may have handed out. -/
def Valid (tbl : List Word) (S : StringPool) : Ref → Prop
  | .empty => True
  | .known i => ∃ w, w ≠ [] ∧ wordIfKnown tbl w = some i
  | .dyn x => ∃ k, x ∈ Buckets.get S.buckets k

theorem chars_length_of_ne_nil {A : Arena} {x : StrNode} (h : chars A x ≠ []) : (chars A x).length = x.len := by
  unfold chars Arena.read at *
  split at h
  · simp [readList_length]
  · exact absurd rfl h

/-- The four ways `intern` can go. -/
theorem intern_cases (tbl : List Word) (h : Word → Nat) (S : StringPool) (w : Word) :
    (w = [] ∧ intern tbl h S w = (S, .empty)) ∨
    (w ≠ [] ∧ ∃ i, wordIfKnown tbl w = some i ∧ intern tbl h S w = (S, .known i)) ∨
    (w ≠ [] ∧ wordIfKnown tbl w = none ∧ ∃ x, x ∈ Buckets.get S.buckets (h w) ∧ chars S.arena x = w ∧
        intern tbl h S w = (S, .dyn x)) ∨
    (w ≠ [] ∧ wordIfKnown tbl w = none ∧ (∀ x ∈ Buckets.get S.buckets (h w), chars S.arena x ≠ w) ∧
        intern tbl h S w =
          ({ arena := (S.arena.makeString w).1,
             buckets := Buckets.set S.buckets (h w) (⟨S.count, (S.arena.makeString w).2, w.length⟩ :: Buckets.get S.buckets (h w)),
             count := S.count + 1 },
           .dyn ⟨S.count, (S.arena.makeString w).2, w.length⟩)) := by
  unfold intern
  by_cases hw : w = []
  · left; subst hw; simp
  · right
    have hne : w.isEmpty = false := by cases w <;> simp_all
    simp only [hne, Bool.false_eq_true, if_false]
    cases hk : wordIfKnown tbl w with
    | some i => left; exact ⟨hw, i, rfl, rfl⟩
    | none =>
      right
      dsimp only
      cases hf : (Buckets.get S.buckets (h w)).find? (fun x => x.len == w.length && chars S.arena x == w) with
      | some x =>
        left
        have h1 := List.find?_some hf
        have h2 := List.mem_of_find?_eq_some hf
        simp only [Bool.and_eq_true, beq_iff_eq] at h1
        exact ⟨hw, rfl, x, h2, h1.2, rfl⟩
      | none =>
        right
        refine ⟨hw, rfl, ?_, rfl⟩
        intro x hx hc
        have := List.find?_eq_none.mp hf x hx
        simp only [Bool.and_eq_true, beq_iff_eq, not_and] at this
        have hl := chars_length_of_ne_nil (A := S.arena) (x := x) (by rw [hc]; exact hw)
        rw [hc] at hl
        exact this hl.symm hc

/-- One `intern` step: the invariant is kept; the result is a valid reference whose characters are `w`; every reference
    valid before stays valid and keeps its characters. -/
theorem intern_spec (tbl : List Word) (h : Word → Nat) (S : StringPool) (w : Word) (hS : Inv tbl h S) :
    Inv tbl h (intern tbl h S w).1 ∧
    Valid tbl (intern tbl h S w).1 (intern tbl h S w).2 ∧
    characters tbl (intern tbl h S w).1 (intern tbl h S w).2 = w ∧
    (∀ r, Valid tbl S r → Valid tbl (intern tbl h S w).1 r ∧
        characters tbl (intern tbl h S w).1 r = characters tbl S r) := by
  rcases intern_cases tbl h S w with ⟨hw, he⟩ | ⟨hw, i, hk, he⟩ | ⟨hw, hk, x, hx, hc, he⟩ | ⟨hw, hk, hnf, he⟩
  · rw [he]; exact ⟨hS, trivial, by simp [characters, hw], fun r hr => ⟨hr, rfl⟩⟩
  · rw [he]; exact ⟨hS, ⟨w, hw, hk⟩, wordIfKnown_getD hk, fun r hr => ⟨hr, rfl⟩⟩
  · rw [he]; exact ⟨hS, ⟨_, hx⟩, by simp [characters, hc], fun r hr => ⟨hr, rfl⟩⟩
  · rw [he]
    obtain ⟨hwf, hlive, hread, _, hold⟩ := makeString_spec S.arena w hS.wf
    generalize S.arena.makeString w = ms at *
    obtain ⟨A', loc⟩ := ms
    dsimp only at hwf hlive hread hold ⊢
    -- membership in the new bucket map
    have hmem : ∀ k y, y ∈ Buckets.get (Buckets.set S.buckets (h w) (⟨S.count, loc, w.length⟩ :: Buckets.get S.buckets (h w))) k ↔
        (k = h w ∧ y = ⟨S.count, loc, w.length⟩) ∨ y ∈ Buckets.get S.buckets k := by
      intro k y
      rw [Buckets.get_set]
      by_cases hk' : k = h w
      · subst hk'; simp
      · simp [hk']
    -- characters of old nodes are unchanged, of the new node are `w`
    have hcold : ∀ k y, y ∈ Buckets.get S.buckets k → chars A' y = chars S.arena y :=
      fun k y hy => (hold y.loc y.len (hS.live k y hy)).2.2
    have hcnew : chars A' ⟨S.count, loc, w.length⟩ = w := hread
    have hfresh : ∀ k y, y ∈ Buckets.get S.buckets k → y ≠ ⟨S.count, loc, w.length⟩ := by
      intro k y hy he
      have := hS.idlt k y hy
      rw [he] at this
      exact Nat.lt_irrefl _ this
    refine ⟨⟨hwf, ?_, ?_, ?_, ?_, ?_, ?_, ?_, ?_⟩, ⟨h w, (hmem _ _).mpr (Or.inl ⟨rfl, rfl⟩)⟩, hcnew, ?_⟩
    · intro k y hy
      rcases (hmem k y).mp hy with ⟨_, rfl⟩ | hy
      · exact hlive
      · exact (hold y.loc y.len (hS.live k y hy)).1
    · intro k y hy
      rcases (hmem k y).mp hy with ⟨_, rfl⟩ | hy
      · exact Nat.lt_succ_self _
      · exact Nat.lt_succ_of_lt (hS.idlt k y hy)
    · intro k y hy
      rcases (hmem k y).mp hy with ⟨hk', rfl⟩ | hy
      · dsimp only; rw [hcnew, hk']
      · dsimp only; rw [hcold k y hy]; exact hS.key k y hy
    · intro k y hy
      rcases (hmem k y).mp hy with ⟨_, rfl⟩ | hy
      · dsimp only; rw [hcnew]; exact hw
      · dsimp only; rw [hcold k y hy]; exact hS.nonempty k y hy
    · intro k y hy
      rcases (hmem k y).mp hy with ⟨_, rfl⟩ | hy
      · dsimp only; rw [hcnew]; exact hk
      · dsimp only; rw [hcold k y hy]; exact hS.unknown k y hy
    · intro k y k' z hy hz hne
      rcases (hmem k y).mp hy with ⟨_, rfl⟩ | hy
      · rcases (hmem k' z).mp hz with ⟨_, rfl⟩ | hz
        · exact absurd rfl hne
        · exact ((hold z.loc z.len (hS.live k' z hz)).2.1).symm
      · rcases (hmem k' z).mp hz with ⟨_, rfl⟩ | hz
        · exact (hold y.loc y.len (hS.live k y hy)).2.1
        · exact hS.disj k y k' z hy hz hne
    · intro k y k' z hy hz hc
      dsimp only at hc
      rcases (hmem k y).mp hy with ⟨_, rfl⟩ | hy
      · rcases (hmem k' z).mp hz with ⟨_, rfl⟩ | hz
        · rfl
        · rw [hcnew, hcold k' z hz] at hc
          have hkz := hS.key k' z hz
          rw [← hc] at hkz
          subst hkz
          exact absurd hc.symm (hnf z hz)
      · rcases (hmem k' z).mp hz with ⟨_, rfl⟩ | hz
        · rw [hcnew, hcold k y hy] at hc
          have hky := hS.key k y hy
          rw [hc] at hky
          subst hky
          exact absurd hc (hnf y hy)
        · rw [hcold k y hy, hcold k' z hz] at hc
          exact hS.uniq k y k' z hy hz hc
    · intro k y k' z hy hz hid
      rcases (hmem k y).mp hy with ⟨_, rfl⟩ | hy
      · rcases (hmem k' z).mp hz with ⟨_, rfl⟩ | hz
        · rfl
        · have := hS.idlt k' z hz; dsimp only at hid; omega
      · rcases (hmem k' z).mp hz with ⟨_, rfl⟩ | hz
        · have := hS.idlt k y hy; dsimp only at hid; omega
        · exact hS.iduniq k y k' z hy hz hid
    · intro r hr
      cases r with
      | empty => exact ⟨trivial, rfl⟩
      | known i => exact ⟨hr, rfl⟩
      | dyn y =>
        obtain ⟨k, hy⟩ := hr
        exact ⟨⟨k, (hmem k y).mpr (Or.inr hy)⟩, hcold k y hy⟩

/-- In a state satisfying the invariant, valid references with equal characters are the same reference. -/
theorem characters_inj {tbl : List Word} {h : Word → Nat} {S : StringPool} (hS : Inv tbl h S) {r1 r2 : Ref}
    (h1 : Valid tbl S r1) (h2 : Valid tbl S r2) (hc : characters tbl S r1 = characters tbl S r2) : r1 = r2 := by
  cases r1 with
  | empty =>
    cases r2 with
    | empty => rfl
    | known j =>
      obtain ⟨w, hw, hk⟩ := h2
      simp only [characters, wordIfKnown_getD hk] at hc
      exact absurd hc.symm hw
    | dyn y =>
      obtain ⟨k, hy⟩ := h2
      simp only [characters] at hc
      exact absurd hc.symm (hS.nonempty k y hy)
  | known i =>
    obtain ⟨w, hw, hk⟩ := h1
    cases r2 with
    | empty =>
      simp only [characters, wordIfKnown_getD hk] at hc
      exact absurd hc hw
    | known j =>
      obtain ⟨w', hw', hk'⟩ := h2
      simp only [characters, wordIfKnown_getD hk, wordIfKnown_getD hk'] at hc
      subst hc
      rw [hk] at hk'
      cases hk'; rfl
    | dyn y =>
      obtain ⟨k, hy⟩ := h2
      simp only [characters, wordIfKnown_getD hk] at hc
      have := hS.unknown k y hy
      rw [← hc, hk] at this
      cases this
  | dyn x =>
    obtain ⟨k, hx⟩ := h1
    cases r2 with
    | empty =>
      simp only [characters] at hc
      exact absurd hc (hS.nonempty k x hx)
    | known j =>
      obtain ⟨w', hw', hk'⟩ := h2
      simp only [characters, wordIfKnown_getD hk'] at hc
      have := hS.unknown k x hx
      rw [hc, hk'] at this
      cases this
    | dyn y =>
      obtain ⟨k', hy⟩ := h2
      simp only [characters] at hc
      rw [hS.uniq k x k' y hx hy hc]

/-- A whole history: invariant at the end, one reference per word, each valid at the end with exactly the characters
    interned, and everything valid at the start still valid and unchanged at the end. -/
theorem internAll_spec (tbl : List Word) (h : Word → Nat) (ws : List Word) (S : StringPool) (hS : Inv tbl h S) :
    Inv tbl h (internAll tbl h S ws).1 ∧
    (internAll tbl h S ws).2.length = ws.length ∧
    (∀ r, Valid tbl S r → Valid tbl (internAll tbl h S ws).1 r ∧
        characters tbl (internAll tbl h S ws).1 r = characters tbl S r) ∧
    (∀ (i : Nat) (r : Ref) (w : Word), (internAll tbl h S ws).2[i]? = some r → ws[i]? = some w →
        Valid tbl (internAll tbl h S ws).1 r ∧ characters tbl (internAll tbl h S ws).1 r = w) := by
  induction ws generalizing S with
  | nil => exact ⟨hS, rfl, fun r hr => ⟨hr, rfl⟩, fun i r w hr => by simp [internAll] at hr⟩
  | cons w ws ih =>
    obtain ⟨hI1, hV1, hC1, hM1⟩ := intern_spec tbl h S w hS
    rcases hst : intern tbl h S w with ⟨S1, r1⟩
    rw [hst] at hI1 hV1 hC1 hM1
    dsimp only at hI1 hV1 hC1 hM1
    obtain ⟨hI2, hL2, hM2, hR2⟩ := ih S1 hI1
    rcases hst2 : internAll tbl h S1 ws with ⟨S2, rs⟩
    rw [hst2] at hI2 hL2 hM2 hR2
    dsimp only at hI2 hL2 hM2 hR2
    simp only [internAll, hst, hst2]
    refine ⟨hI2, by simp [hL2], ?_, ?_⟩
    · intro r hr
      obtain ⟨a, b⟩ := hM1 r hr
      obtain ⟨c, d⟩ := hM2 r a
      exact ⟨c, d.trans b⟩
    · intro i r w' hr hw'
      cases i with
      | zero =>
        simp only [List.getElem?_cons_zero, Option.some.injEq] at hr hw'
        subst hr; subst hw'
        obtain ⟨c, d⟩ := hM2 r1 hV1
        exact ⟨c, d.trans hC1⟩
      | succ i =>
        simp only [List.getElem?_cons_succ] at hr hw'
        exact hR2 i r w' hr hw'

/-! ## Allocation histories of the arena alone -/

/-- The pool that holds `(l, n)` exists in `A` and the string's length field and characters lie inside its storage. -/
def InBounds (A : Arena) (a : Loc × Nat) : Prop :=
  ∃ p ∈ A.pools, p.id = a.1.pool ∧ 16 * a.1.hdr + 8 + a.2 ≤ p.cap ∧ p.bytes.size = p.cap

theorem Live.inBounds {A : Arena} (hA : WF A) {l : Loc} {n : Nat} (h : Live A l n) : InBounds A (l, n) := by
  obtain ⟨p, hg, hin, _⟩ := h
  exact ⟨p, (getPool_some hg).1, (getPool_some hg).2, hin, hA.sizes p (getPool_some hg).1⟩

theorem allocAll_spec (ns : List Nat) (A : Arena) (hA : WF A) :
    WF (allocAll A ns).1 ∧
    (allocAll A ns).2.map Prod.snd = ns ∧
    (∀ l k, Live A l k → Live (allocAll A ns).1 l k ∧ ∀ a ∈ (allocAll A ns).2, Disj (l, k) a) ∧
    (∀ a ∈ (allocAll A ns).2, Live (allocAll A ns).1 a.1 a.2) ∧
    (allocAll A ns).2.Pairwise Disj := by
  induction ns generalizing A with
  | nil => exact ⟨hA, rfl, fun l k hl => ⟨hl, fun a ha => by simp [allocAll] at ha⟩, fun a ha => by simp [allocAll] at ha,
      List.Pairwise.nil⟩
  | cons n ns ih =>
    obtain ⟨hwf, hnew, _, hold⟩ := allocate_spec A n hA
    rcases hst : A.allocate n with ⟨A1, l1⟩
    rw [hst] at hwf hnew hold
    dsimp only at hwf hnew hold
    obtain ⟨hwf2, hmap, hold2, hlive2, hpw⟩ := ih A1 hwf
    rcases hst2 : allocAll A1 ns with ⟨A2, ls⟩
    rw [hst2] at hwf2 hmap hold2 hlive2 hpw
    dsimp only at hwf2 hmap hold2 hlive2 hpw
    simp only [allocAll, hst, hst2]
    refine ⟨hwf2, by simp [hmap], ?_, ?_, ?_⟩
    · intro l k hl
      obtain ⟨h1, h2, _⟩ := hold l k hl
      obtain ⟨h3, h4⟩ := hold2 l k h1
      refine ⟨h3, ?_⟩
      intro a ha
      rcases List.mem_cons.mp ha with rfl | ha
      · exact h2
      · exact h4 a ha
    · intro a ha
      rcases List.mem_cons.mp ha with rfl | ha
      · exact (hold2 l1 n hnew).1
      · exact hlive2 a ha
    · exact List.Pairwise.cons (fun a ha => (hold2 l1 n hnew).2 a ha) hpw

end Ipr.Intern
