import IprProofs.RBLinkedInsert
set_option linter.unusedSimpArgs false
set_option linter.unusedSectionVars false
set_option linter.unusedVariables false
namespace Ipr.RB.Linked
open Tree
variable {α : Type} [Inhabited α]

theorem chainLoop_found (cmp : α → α → Int) (key : α) (s : Store α) (fuel : Nat) (slot : Store.Slot) (up : Option Nat) :
    s.chainLoop cmp key (fuel + 1) slot up true = some (slot, up) := by
  simp [Store.chainLoop]

theorem chainLoop_null (cmp : α → α → Int) (key : α) (s : Store α) (fuel : Nat) (slot : Store.Slot) (up : Option Nat) (found : Bool)
    (h : s.deref slot = none) : s.chainLoop cmp key (fuel + 1) slot up found = some (slot, up) := by
  cases found <;> simp [Store.chainLoop, h]

theorem chainLoop_node (cmp : α → α → Int) (key : α) (s : Store α) (fuel : Nat) (slot : Store.Slot) (up : Option Nat) (d : Nat)
    (h : s.deref slot = some d) :
    s.chainLoop cmp key (fuel + 1) slot up false =
      if cmp (s.key d) key < 0 then s.chainLoop cmp key fuel (.left d) (some d) false
      else if cmp (s.key d) key > 0 then s.chainLoop cmp key fuel (.right d) (some d) false
      else s.chainLoop cmp key fuel slot up true := by
  simp [Store.chainLoop, h]

/-- The descent of `chain::insert` follows `descend`; on an equivalent key it stops with `*slot` non-null. -/
theorem chainLoop_spec (cmp : α → α → Int) (n : Nat) (key : α) (s : Store α) :
    ∀ (t : ATree α) (path : APath α) (fuel : Nat), Focus s t path → height t + 1 ≤ fuel →
      (∀ path', descend (acmp cmp) (n, key) t path = some path' →
        s.chainLoop cmp key fuel (slotOf path) (parentOf path) false = some (slotOf path', parentOf path') ∧
        Focus s .nil path') ∧
      (descend (acmp cmp) (n, key) t path = none →
        ∃ slot up, s.chainLoop cmp key fuel (slotOf path) (parentOf path) false = some (slot, up) ∧
          s.deref slot ≠ none) := by
  intro t
  induction t with
  | nil =>
    intro path fuel hF hfuel
    obtain ⟨fuel, rfl⟩ : ∃ f, fuel = f + 1 := ⟨fuel - 1, by omega⟩
    constructor
    · intro path' hd
      simp [descend] at hd; subst hd
      exact ⟨chainLoop_null _ _ _ _ _ _ _ hF.deref_slotOf, hF⟩
    · intro hd; simp [descend] at hd
  | node c l k r ihl ihr =>
    intro path fuel hF hfuel
    obtain ⟨fuel, rfl⟩ : ∃ f, fuel = f + 1 := ⟨fuel - 1, by omega⟩
    have hk := hF.rd_root
    have hkey : s.key k.1 = k.2 := by simp [Store.key, hk]
    simp only [height] at hfuel
    have hFl : Focus s l (⟨.L, c, k, r⟩ :: path) := Focus.up_iff.mpr hF
    have hFr : Focus s r (⟨.R, c, k, l⟩ :: path) := Focus.up_iff.mpr hF
    have hds : s.deref (slotOf path) = some k.1 := hF.deref_slotOf
    simp only [descend, acmp]
    rw [chainLoop_node _ _ _ _ _ _ _ hds, hkey]
    by_cases h1 : cmp k.2 key < 0
    · simp only [h1, if_true]
      have := ihl _ fuel hFl (by omega)
      simpa [slotOf, parentOf] using this
    · by_cases h2 : cmp k.2 key > 0
      · simp only [h1, h2, if_true, if_false]
        have := ihr _ fuel hFr (by omega)
        simpa [slotOf, parentOf] using this
      · simp only [h1, h2, if_false]
        obtain ⟨fuel, rfl⟩ : ∃ f, fuel = f + 1 := ⟨fuel - 1, by omega⟩
        refine ⟨by simp, fun _ => ⟨slotOf path, parentOf path, chainLoop_found _ _ _ _ _ _, by simp [hds]⟩⟩

@[simp] theorem Store.newLink_count (s : Store α) (k : α) : (s.newLink k).1.count = s.count := rfl
@[simp] theorem Store.newLink_root (s : Store α) (k : α) : (s.newLink k).1.root = s.root := rfl
@[simp] theorem Store.newLink_next (s : Store α) (k : α) : (s.newLink k).1.next = s.next + 1 := rfl
@[simp] theorem Store.newLink_snd (s : Store α) (k : α) : (s.newLink k).2 = s.next := rfl

/-- `chain<Node>::insert` (with a freshly constructed node) on a store that holds `t` (black root). -/
theorem insertChain_spec (cmp : α → α → Int) (s : Store α) (t : ATree α) (key : α) (h : Inv s t) (hblack : t.isRed = false) :
    ∃ s', s.insertChain cmp key = some (s', s.next) ∧
      Inv s' (Tree.insert (acmp cmp) t (s.next, key)) ∧ s'.count = s.count + 1 ∧ s'.key s.next = key := by
  have hnt : s.next ∉ addrs t := fun e => by have := h.fresh _ e; omega
  have hF1 : Focus (s.newLink key).1 t [] := by
    refine h.focus.frame rfl ?_
    intro a ha
    simp only [caddrs, List.append_nil] at ha
    simp only [Store.newLink, rd_wr]
    rw [if_neg]; intro e; subst e; exact hnt ha
  have hcell : rd (s.newLink key).1.mem s.next = ⟨key, .red, none, none, none⟩ := by simp [Store.newLink, rd_wr]
  cases t with
  | nil =>
    have hr : (s.newLink key).1.root = none := hF1.root
    have hloop : (s.newLink key).1.chainLoop cmp key (s.count + 1) .root none false = some (.root, none) :=
      chainLoop_null _ _ _ _ _ _ _ (by simpa [Store.deref] using hr)
    have hi : Tree.insert (acmp cmp) (.nil : ATree α) (s.next, key) = .node .black .nil (s.next, key) .nil := by
      simp [Tree.insert, descend, fixup, blacken]
    have e : s.insertChain cmp key = some ({ ({ (s.newLink key).1 with root := some s.next } : Store α).setColor s.next .black with count := s.count + 1 }, s.next) := by
      simp only [Store.insertChain, Store.newLink_count, Store.newLink_snd, hloop, hr, Option.bind_eq_bind, Option.bind_some, Option.pure_def, if_true]
      rfl
    refine ⟨_, e, ?_, rfl, ?_⟩
    · rw [hi]
      refine ⟨⟨⟨?_, trivial, trivial⟩, trivial, rfl, by simp [zip]⟩, by simp [Tree.size], by simp⟩
      simp [Store.rd_setColor, hcell, parentOf]
    · simp [Store.key, Store.rd_setColor, hcell]
  | node c l k r =>
    have hr : (s.newLink key).1.root = some k.1 := hF1.root
    have hfuel : height (Tree.node c l k r) + 1 ≤ s.count + 1 := by
      have := height_le_size (Tree.node c l k r); have := h.size; omega
    obtain ⟨hsome, hnone⟩ := chainLoop_spec cmp s.next key (s.newLink key).1 _ [] (s.count + 1) hF1 hfuel
    cases hd : descend (acmp cmp) (s.next, key) (Tree.node c l k r) [] with
    | none =>
      obtain ⟨slot, up, hloop, hne⟩ := hnone hd
      have hloop' : (s.newLink key).1.chainLoop cmp key (s.count + 1) .root none false = some (slot, up) := hloop
      have e : s.insertChain cmp key = some ({ (s.newLink key).1 with count := s.count + 1 }, s.next) := by
        simp only [Store.insertChain, Store.newLink_count, Store.newLink_snd, hloop', hr, Option.bind_eq_bind, Option.bind_some,
          Option.pure_def, hne, if_false, reduceCtorEq]
      refine ⟨_, e, ?_, rfl, by simp [Store.key, hcell]⟩
      rw [insert_none _ _ _ hd]
      refine ⟨hF1.frame rfl (fun _ _ => rfl), by have := h.size; simp; omega, ?_⟩
      intro a ha; have := h.fresh a ha; simp; omega
    | some path =>
      obtain ⟨hloop, hF0⟩ := hsome path hd
      obtain ⟨hmem, hsize, hcad⟩ := insert_some_facts _ _ _ _ hd
      cases path with
      | nil =>
        have := hF0.root
        rw [hr] at this; simp [rootOf] at this
      | cons f fs =>
        have hn : s.next ∉ caddrs (f :: fs) := by
          intro e; have := h.fresh _ ((hcad _).mp e); omega
        have hF2 := hF0.attach s.next key hn (by simp [hcell])
        have hrb : RootBlack (f :: fs) := descend_rootBlack _ _ _ _ _ hd (by intro f hf; simp at hf) (fun _ => hblack)
        have hlen := descend_length _ _ _ _ _ hd
        obtain ⟨s', hs', hF', hc', hn'⟩ := fixupLoop_spec _ (f :: fs) rfl _ _ _ (s.next, key) (s.count + 2) hF2 hrb (by
          have := height_le_size (Tree.node c l k r); have := h.size; simp at hlen ⊢; omega)
        have hc'' : s'.count = s.count := by simpa using hc'
        have hn'' : s'.next = s.next + 1 := by simpa using hn'
        have hloop' : (s.newLink key).1.chainLoop cmp key (s.count + 1) .root none false = some (slotOf (f :: fs), parentOf (f :: fs)) := hloop
        have hF'' : Focus s' (Tree.insert (acmp cmp) (.node c l k r) (s.next, key)) [] := by simpa [Tree.insert, hd] using hF'
        have hde : (s.newLink key).1.deref (slotOf (f :: fs)) = none := hF0.deref_slotOf
        have e : s.insertChain cmp key = some ({ s' with count := s'.count + 1 }, s.next) := by
          simp only [Store.insertChain, Store.newLink_count, Store.newLink_snd, hloop', hr, hde, Option.bind_eq_bind, Option.bind_some,
            Option.pure_def, if_true, if_false, reduceCtorEq, Store.assign_count, Store.setParent_count, Store.setColor_count]
          simp only at hs'
          rw [hs']; rfl
        refine ⟨_, e, ⟨hF''.frame rfl (fun _ _ => rfl), ?_, ?_⟩, by simp [hc''], ?_⟩
        · rw [hsize]; have := h.size; simp [hc'']; omega
        · intro a ha
          rcases (hmem a).mp ha with e | e
          · simp at e; simp [hn'']; omega
          · have := h.fresh a e; simp [hn'']; omega
        · have := hF''.own.key_of_mem (s.next, key) (by
            rw [(inorder_insert_some _ _ _ _ hd).1]; simp)
          simpa [Store.key] using this

end Ipr.RB.Linked
